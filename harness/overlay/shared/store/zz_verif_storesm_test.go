package store

// Shared harness for the store state-machine properties (C22, C33, C03, C01): drives a
// REAL single-node store through histories of writes, loads, boots, snapshots, closes,
// crashes (crash images), recoveries and reopenings, mirrors every operation as a line
// for the Lean model `storesm` (RqModel/Model/StoreSM.lean), and keeps an independent
// Go reference (`want`) of what the key-value table must contain — the property
// statements are evaluated against that reference, the model against the real dumps.
// All identifiers are prefixed `ssm`.

import (
	"bytes"
	"context"
	dbsql "database/sql"
	"fmt"
	"net"
	"os"
	"path/filepath"
	"sort"
	"strings"
	"testing"
	"time"

	"github.com/hashicorp/raft"
	"github.com/rqlite/rqlite/v10/command/proto"
	sql "github.com/rqlite/rqlite/v10/db"
)

const ssmCreate = `CREATE TABLE kv (k INTEGER PRIMARY KEY, v INTEGER)`

type ssmStmt struct {
	kind string // p i d a b
	k, v int
}

func (s ssmStmt) sql() string {
	switch s.kind {
	case "p":
		return fmt.Sprintf("INSERT OR REPLACE INTO kv(k,v) VALUES(%d,%d)", s.k, s.v)
	case "i":
		return fmt.Sprintf("INSERT INTO kv(k,v) VALUES(%d,%d)", s.k, s.v)
	case "d":
		return fmt.Sprintf("DELETE FROM kv WHERE k=%d", s.k)
	case "a":
		return fmt.Sprintf("UPDATE kv SET v=v+%d WHERE k=%d", s.v, s.k)
	}
	return "INSERT INTO nosuchtable VALUES(1)"
}

func (s ssmStmt) tok() string {
	switch s.kind {
	case "p", "i", "a":
		return fmt.Sprintf("%s:%d:%d", s.kind, s.k, s.v)
	case "d":
		return fmt.Sprintf("d:%d", s.k)
	}
	return "b"
}

// ssmRef is the independent Go reference of the table.
type ssmRef map[int]int

func (m ssmRef) clone() ssmRef {
	c := ssmRef{}
	for k, v := range m {
		c[k] = v
	}
	return c
}

func (m ssmRef) apply1(s ssmStmt) bool {
	switch s.kind {
	case "p":
		m[s.k] = s.v
	case "i":
		if _, ok := m[s.k]; ok {
			return false
		}
		m[s.k] = s.v
	case "d":
		delete(m, s.k)
	case "a":
		if _, ok := m[s.k]; ok {
			m[s.k] += s.v
		}
	default:
		return false
	}
	return true
}

func (m ssmRef) exec(tx bool, ss []ssmStmt) ssmRef {
	if !tx {
		for _, s := range ss {
			m.apply1(s)
		}
		return m
	}
	c := m.clone()
	for _, s := range ss {
		if !c.apply1(s) {
			return m
		}
	}
	return c
}

func (m ssmRef) String() string {
	if len(m) == 0 {
		return "-"
	}
	ks := make([]int, 0, len(m))
	for k := range m {
		ks = append(ks, k)
	}
	sort.Ints(ks)
	var ps []string
	for _, k := range ks {
		ps = append(ps, fmt.Sprintf("%d=%d", k, m[k]))
	}
	return strings.Join(ps, ";")
}

type ssmEnv struct {
	t    *testing.T
	rep  *vfReport
	r    *vfRng
	prop string
	dir  string
	id   string
	fk   bool
	s    *Store
	ln   net.Listener
	want ssmRef // reference content of every ACKNOWLEDGED state
	ops  []string
	impl []string
	hist []string
	// options applied at every (re)open
	noSnapOnClose bool
	// broken is set once the table no longer matches: the history stops there
	broken bool
	// parked read transactions on an external read-only connection (invisible to the model):
	// a reader at the end of the WAL lets a checkpoint move every page but not truncate the WAL
	ro      *dbsql.DB
	readers []*dbsql.Conn
}

// park starts a read transaction at the current end of the WAL on an external connection.
func (e *ssmEnv) park() {
	if e.ro == nil {
		ro, err := dbsql.Open("rqlite-sqlite3", sql.MakeDSN(e.s.dbPath, sql.ModeReadOnly, false, true))
		if err != nil {
			e.t.Fatal(err)
		}
		e.ro = ro
	}
	ctx := context.Background()
	c, err := e.ro.Conn(ctx)
	if err != nil {
		e.t.Fatal(err)
	}
	if _, err := c.ExecContext(ctx, "BEGIN"); err != nil {
		e.t.Fatal(err)
	}
	var n int
	if err := c.QueryRowContext(ctx, "SELECT count(*) FROM kv").Scan(&n); err != nil {
		e.t.Fatal(err)
	}
	e.readers = append(e.readers, c)
	e.hist = append(e.hist, "reader-parked-at-wal-end")
}

// unpark ends the oldest `n` parked readers (all of them for n < 0).
func (e *ssmEnv) unpark(n int) {
	for len(e.readers) > 0 && n != 0 {
		c := e.readers[0]
		e.readers = e.readers[1:]
		c.ExecContext(context.Background(), "ROLLBACK")
		c.Close()
		n--
		e.hist = append(e.hist, "reader-released")
	}
	if len(e.readers) == 0 && e.ro != nil {
		e.ro.Close()
		e.ro = nil
	}
}

func ssmTempRoot() string {
	if st, err := os.Stat("/dev/shm"); err == nil && st.IsDir() {
		return "/dev/shm"
	}
	return ""
}


// ---- robustness under machine load ---------------------------------------------------
// A loaded machine makes a freshly elected leader lose its lease, elections repeat and
// requests time out. None of that is the property. Requests refused BEFORE they enter the log
// are retried (up to 60 s); an outcome that is ambiguous (leadership lost while committing) or
// a wait that runs out ABANDONS the case: counted, noted, never judged. More than half of the
// cases abandoned fails the run as "harness could not run".

type ssmAbandoned struct{ why string }

var ssmCasesStarted, ssmCasesAbandoned int

func ssmErrText(err error) string {
	if err == nil {
		return ""
	}
	return strings.ToLower(err.Error())
}

// ssmRetryable: the request was refused before entering the log.
func ssmRetryable(err error) bool {
	if err == nil {
		return false
	}
	if err == ErrNotLeader || err == ErrNotReady {
		return true
	}
	t := ssmErrText(err)
	for _, m := range []string{"not leader", "leader not found", "timeout waiting for leader", "timed out enqueuing", "no leader", "not ready"} {
		if strings.Contains(t, m) {
			return true
		}
	}
	return false
}

// ssmLoadRelated: any error a loaded machine produces, retryable or ambiguous.
func ssmLoadRelated(err error) bool {
	if ssmRetryable(err) {
		return true
	}
	t := ssmErrText(err)
	for _, m := range []string{"leadership lost", "timeout", "timed out", "deadline exceeded", "leadership transfer", "shutdown"} {
		if strings.Contains(t, m) {
			return true
		}
	}
	return false
}

func ssmAbandonNow(why string) { panic(ssmAbandoned{why}) }

// ssmRetry runs fn until it succeeds or fails with something that is not "refused before the
// log"; between attempts it waits for a leader. Budget 60 s.
func ssmRetry(s *Store, fn func() error) error {
	deadline := time.Now().Add(60 * time.Second)
	for {
		err := fn()
		if err == nil || !ssmRetryable(err) || time.Now().After(deadline) {
			return err
		}
		s.WaitForLeader(5 * time.Second)
		time.Sleep(100 * time.Millisecond)
	}
}

// opFailed: a setup operation returned err. Load-related: abandon the case; else harness breakage.
func (e *ssmEnv) opFailed(what string, err error) {
	if ssmLoadRelated(err) {
		ssmAbandonNow(fmt.Sprintf("%s: %v", what, err))
	}
	e.t.Fatalf("%s: %v (history %v)", what, err, e.hist)
}

// ssmGuard is deferred FIRST by every history function: an abandoned case is counted and noted,
// the trace emitted so far (consistent up to the abandoned step) is still compared.
func ssmGuard(rep *vfReport, e **ssmEnv, ops, impl *[]string) {
	ssmCasesStarted++
	r := recover()
	if r == nil {
		return
	}
	a, ok := r.(ssmAbandoned)
	if !ok {
		panic(r)
	}
	ssmCasesAbandoned++
	rep.Count("case-abandoned:machine-load")
	rep.Note("case abandoned (machine load, not judged): %s", a.why)
	if *e != nil {
		*ops, *impl = (*e).ops, (*e).impl
	}
}

// ssmFloor fails the run when most cases could not be set up.
func ssmFloor(rep *vfReport) {
	if ssmCasesAbandoned*2 > ssmCasesStarted {
		rep.Fail("harness-could-not-run", fmt.Sprintf("%d of %d cases abandoned because of machine load", ssmCasesAbandoned, ssmCasesStarted), nil)
	}
}

func (e *ssmEnv) emit(op, out string) { e.ops = append(e.ops, op); e.impl = append(e.impl, out) }

func ssmNewEnv(t *testing.T, rep *vfReport, r *vfRng, prop string, fk bool) *ssmEnv {
	dir, err := os.MkdirTemp(ssmTempRoot(), "verif-ssm-")
	if err != nil {
		t.Fatal(err)
	}
	e := &ssmEnv{t: t, rep: rep, r: r, prop: prop, dir: dir, id: fmt.Sprintf("n%d", r.Intn(1<<30)), fk: fk, want: ssmRef{}, noSnapOnClose: true}
	e.newStore()
	defer func() { // an abandoned setup must not leave a store running
		if r := recover(); r != nil {
			e.cleanup()
			panic(r)
		}
	}()
	if err := e.s.Open(); err != nil {
		t.Fatalf("open: %v", err)
	}
	if err := e.s.Bootstrap(NewServer(e.s.ID(), e.s.Addr(), true)); err != nil {
		t.Fatal(err)
	}
	e.waitReady()
	if err := ssmRetry(e.s, func() error {
		_, _, err := e.s.Execute(context.Background(), executeRequestFromStrings([]string{ssmCreate}, false, false))
		return err
	}); err != nil {
		e.opFailed("create table", err)
	}
	e.emit("reset", "ok")
	return e
}

func (e *ssmEnv) newStore() {
	e.s, e.ln = mustNewStoreAtPathsLn(e.id, e.dir, e.fk)
	e.s.NoSnapshotOnClose = e.noSnapOnClose
	e.s.SnapshotThreshold = 1 << 40 // only explicit snapshots
	if e.prop == "C03" {
		e.s.SnapshotReapThreshold = 1 << 20
	} // C03 only: no background reaping: a directory copy taken while the reaper runs is not a state any crash leaves (reap crash-safety is C07)
	e.s.HeartbeatTimeout = 300 * time.Millisecond
	e.s.ElectionTimeout = 300 * time.Millisecond
	e.s.LeaderLeaseTimeout = 300 * time.Millisecond
}

// waitReady waits for leadership and for every durable log entry to be applied.
func (e *ssmEnv) waitReady() {
	if _, err := e.s.WaitForLeader(60 * time.Second); err != nil {
		ssmAbandonNow(fmt.Sprintf("wait for leader: %v", err))
	}
	var err error
	for deadline := time.Now().Add(60 * time.Second); time.Now().Before(deadline); {
		if err = e.s.Barrier(); err == nil {
			return
		}
		time.Sleep(50 * time.Millisecond)
	}
	ssmAbandonNow(fmt.Sprintf("barrier: %v", err))
}

func (e *ssmEnv) cleanup() {
	e.unpark(-1)
	if e.s != nil && e.s.open.Is() {
		e.s.Close(true)
	}
	if e.ln != nil {
		e.ln.Close()
	}
	os.RemoveAll(e.dir)
}

func ssmQueryDump(s *Store) string {
	qr := queryRequestFromString("SELECT k, v FROM kv ORDER BY k", false, false, false)
	qr.Level = proto.ConsistencyLevel_NONE
	r, _, _, err := s.Query(context.Background(), qr)
	if err != nil {
		return "ERR:" + strings.ReplaceAll(err.Error(), " ", "_")
	}
	if len(r) != 1 {
		return "ERR:no-result"
	}
	if r[0].Error != "" {
		return "ERR:" + strings.ReplaceAll(r[0].Error, " ", "_")
	}
	if len(r[0].Values) == 0 {
		return "-"
	}
	var ps []string
	for _, row := range r[0].Values {
		ps = append(ps, fmt.Sprintf("%d=%d", row.Parameters[0].GetI(), row.Parameters[1].GetI()))
	}
	return strings.Join(ps, ";")
}

// dump compares the real table with the model (line `dump`) and evaluates the
// property against the Go reference; sig names the kind of step just taken.
func (e *ssmEnv) dump(sig string) string {
	got := ssmQueryDump(e.s)
	e.emit("dump", got)
	if w := e.want.String(); got != w {
		e.broken = true
		e.rep.Fail(sig, fmt.Sprintf("history %v: table is %q, the acknowledged operations give %q", e.hist, got, w),
			map[string]interface{}{"history": e.hist, "got": got, "want": w})
	}
	return got
}

func ssmToks(ss []ssmStmt) string {
	ts := make([]string, len(ss))
	for i, s := range ss {
		ts[i] = s.tok()
	}
	return strings.Join(ts, ",")
}

func (e *ssmEnv) genStmts() []ssmStmt {
	n := 1 + e.r.Intn(3)
	var ss []ssmStmt
	for i := 0; i < n; i++ {
		k := 1 + e.r.Intn(8)
		switch x := e.r.Intn(100); {
		case x < 35:
			ss = append(ss, ssmStmt{"p", k, e.r.Intn(1000)})
		case x < 55:
			ss = append(ss, ssmStmt{"i", k, e.r.Intn(1000)})
		case x < 70:
			ss = append(ss, ssmStmt{"d", k, 0})
		case x < 93:
			ss = append(ss, ssmStmt{"a", k, 1 + e.r.Intn(9)})
		default:
			ss = append(ss, ssmStmt{"b", 0, 0})
		}
	}
	return ss
}

// exec sends one execute request through the real store (raft log and FSM).
func (e *ssmEnv) exec(tx bool, ss []ssmStmt) {
	var qs []string
	for _, s := range ss {
		qs = append(qs, s.sql())
	}
	err := ssmRetry(e.s, func() error {
		_, _, err := e.s.Execute(context.Background(), executeRequestFromStrings(qs, false, tx))
		return err
	})
	if err != nil {
		e.opFailed(fmt.Sprintf("execute %v", qs), err)
	}
	e.want = e.want.exec(tx, ss)
	txs := "0"
	if tx {
		txs = "1"
	}
	e.hist = append(e.hist, fmt.Sprintf("exec(tx=%s %s)", txs, ssmToks(ss)))
	e.emit(fmt.Sprintf("exec %s %s", txs, ssmToks(ss)), "ok")
	e.rep.Count("op-exec")
}

func (e *ssmEnv) genRows() ssmRef {
	m := ssmRef{}
	for i := 0; i < e.r.Intn(6); i++ {
		m[1+e.r.Intn(12)] = e.r.Intn(1000)
	}
	return m
}

// ssmMakeDB writes a real SQLite database holding rows; WAL- or DELETE-mode.
func ssmMakeDB(t *testing.T, dir string, rows ssmRef, walMode bool) []byte {
	p := filepath.Join(dir, fmt.Sprintf("gen-%d.sqlite", time.Now().UnixNano()))
	defer sql.RemoveFiles(p)
	d, err := sql.Open(p, false, walMode)
	if err != nil {
		t.Fatalf("make db: %v", err)
	}
	qs := []string{ssmCreate}
	for k, v := range rows {
		qs = append(qs, fmt.Sprintf("INSERT INTO kv VALUES(%d,%d)", k, v))
	}
	for _, q := range qs {
		if _, err := d.ExecuteStringStmt(q); err != nil {
			t.Fatalf("make db: %v", err)
		}
	}
	if walMode {
		if _, err := d.Checkpoint(sql.CheckpointTruncate); err != nil {
			t.Fatalf("make db checkpoint: %v", err)
		}
	}
	if err := d.Close(); err != nil {
		t.Fatal(err)
	}
	b, err := os.ReadFile(p)
	if err != nil {
		t.Fatal(err)
	}
	return b
}

// load sends a database file through Store.Load (the LOAD command entry).
func (e *ssmEnv) load(rows ssmRef, walMode bool) {
	b := ssmMakeDB(e.t, e.dir, rows, walMode)
	if err := ssmRetry(e.s, func() error { return e.s.Load(context.Background(), &proto.LoadRequest{Data: b}) }); err != nil {
		if ssmLoadRelated(err) {
			ssmAbandonNow(fmt.Sprintf("load: %v", err))
		}
		e.rep.Fail("valid-load-rejected", fmt.Sprintf("history %v: load of a valid %d-byte database failed: %v", e.hist, len(b), err), map[string]interface{}{"history": e.hist})
		return
	}
	e.want = rows.clone()
	e.hist = append(e.hist, fmt.Sprintf("load(wal=%v %s)", walMode, rows))
	e.emit("load "+rows.String(), "ok")
	e.rep.Count(fmt.Sprintf("op-load-walmode=%v", walMode))
}

// loadText is what /db/load does with a body that is not a SQLite file: one execute
// request holding the whole text, RollbackOnError set.
func (e *ssmEnv) loadText(rows ssmRef) {
	var b strings.Builder
	b.WriteString("DROP TABLE IF EXISTS kv;\n" + ssmCreate + ";\n")
	ks := make([]int, 0, len(rows))
	for k := range rows {
		ks = append(ks, k)
	}
	sort.Ints(ks)
	for _, k := range ks {
		fmt.Fprintf(&b, "INSERT INTO kv VALUES(%d,%d);\n", k, rows[k])
	}
	er := executeRequestFromStrings([]string{b.String()}, false, false)
	er.Request.RollbackOnError = true
	var res []*proto.ExecuteQueryResponse
	err := ssmRetry(e.s, func() error {
		var err error
		res, _, err = e.s.Execute(context.Background(), er)
		return err
	})
	if err != nil {
		e.opFailed("text load", err)
	}
	for _, r := range res {
		if r.GetError() != "" {
			e.t.Fatalf("text load statement error: %s", r.GetError())
		}
	}
	e.want = rows.clone()
	e.hist = append(e.hist, fmt.Sprintf("loadtext(%s)", rows))
	e.emit("exec 0 t:"+rows.String(), "ok")
	e.rep.Count("op-load-sqltext")
}

// ssmBadData returns bytes that carry the SQLite magic but are not a database.
func ssmBadData(t *testing.T, dir string, r *vfRng, kind int) ([]byte, string) {
	switch kind {
	case 0:
		return append([]byte("SQLite format 3\x00"), r.Bytes(3000+r.Intn(3000))...), "magic+garbage"
	case 1:
		good := ssmMakeDB(t, dir, ssmRef{1: 1, 2: 2, 3: 3}, false)
		if r.Bool() && len(good) > 4200 {
			// the first page (header and schema) survives, later pages are cut off
			return good[:4096+r.Intn(len(good)-4096-1)], "truncated-file-first-page-intact"
		}
		return good[:100+r.Intn(len(good)/2)], "truncated-file"
	default:
		good := ssmMakeDB(t, dir, ssmRef{1: 1, 2: 2}, false)
		bad := append([]byte(nil), good...)
		for i := 16; i < 100; i++ {
			bad[i] ^= 0xFF
		}
		return bad, "corrupt-header"
	}
}

// loadBad sends such bytes through Store.Load: it must be rejected and change nothing.
func (e *ssmEnv) loadBad(kind int) {
	b, name := ssmBadData(e.t, e.dir, e.r, kind)
	err := ssmRetry(e.s, func() error { return e.s.Load(context.Background(), &proto.LoadRequest{Data: b}) })
	if err != nil && ssmLoadRelated(err) {
		ssmAbandonNow(fmt.Sprintf("invalid load: %v", err)) // not the rejection under test
	}
	e.hist = append(e.hist, "loadbad("+name+")")
	e.rep.Count("op-loadbad-" + name)
	if err == nil {
		e.rep.Fail("invalid-load-accepted:"+name, fmt.Sprintf("history %v: Load of %s (%d bytes) returned no error", e.hist, name, len(b)), map[string]interface{}{"history": e.hist})
	}
	// what the client got back is compared with the model's `writeR` (rejected = an error came back)
	if err == nil {
		e.emit("loadbad", "ok")
	} else {
		e.emit("loadbad", "rejected")
	}
}

func (e *ssmEnv) boot(rows ssmRef, walMode bool) {
	b := ssmMakeDB(e.t, e.dir, rows, walMode)
	if err := ssmRetry(e.s, func() error { _, err := e.s.ReadFrom(bytes.NewReader(b)); return err }); err != nil {
		if ssmLoadRelated(err) {
			ssmAbandonNow(fmt.Sprintf("boot: %v", err))
		}
		e.rep.Fail("valid-boot-rejected", fmt.Sprintf("history %v: boot failed: %v", e.hist, err), map[string]interface{}{"history": e.hist})
		return
	}
	e.want = rows.clone()
	e.hist = append(e.hist, fmt.Sprintf("boot(wal=%v %s)", walMode, rows))
	e.emit("boot "+rows.String(), "ok")
	e.rep.Count("op-boot")
}

// snapshot takes a user snapshot through raft; returns false when raft had nothing to do.
func (e *ssmEnv) snapshot(trailing int) bool {
	err := ssmRetry(e.s, func() error { return e.s.Snapshot(uint64(trailing)) })
	if err != nil {
		if err == ErrNothingNewToSnapshot || err == ErrNoWALToSnapshot || strings.Contains(err.Error(), "nothing new to snapshot") {
			e.rep.Count("snapshot-nothing-new")
			return false
		}
		e.opFailed("snapshot", err)
	}
	e.hist = append(e.hist, fmt.Sprintf("snap(%d)", trailing))
	mt := trailing
	if mt == 0 {
		mt = 1000000000 // Snapshot(0) keeps the configured (huge) number of trailing logs
	}
	e.emit(fmt.Sprintf("snap %d", mt), "ok")
	e.rep.Count("op-snapshot")
	return true
}

func (e *ssmEnv) closeStore() {
	e.unpark(-1)
	if err := e.s.Close(true); err != nil {
		e.t.Fatalf("close: %v", err)
	}
	e.ln.Close()
	e.hist = append(e.hist, "close")
	e.emit("close 0", "ok")
}

// reopen opens a new Store object on the same directory; forced removes the fingerprint
// first (the rebuild path), otherwise whichever path Open chooses is taken.
func (e *ssmEnv) reopen(forced bool) error {
	e.newStore()
	if forced {
		if err := e.s.ForceSnapshotRestore(); err != nil {
			e.t.Fatal(err)
		}
	}
	if forced {
		e.emit("forcerestore", "ok")
	}
	if err := e.openRetry(); err != nil {
		return err
	}
	e.waitReady()
	e.emit("open", "ok")
	e.hist = append(e.hist, fmt.Sprintf("open(forced=%v,skippedRestore=%d)", forced, e.s.numSnapshotsSkipped.Load()))
	if e.s.numSnapshotsSkipped.Load() > 0 {
		e.rep.Count("open-fast-path")
	} else {
		e.rep.Count("open-rebuild-path")
	}
	return nil
}

type ssmPeer struct {
	id, addr string
	voter    bool
}

func ssmPeersLine(cfg []ssmPeer) string {
	var ps []string
	for _, c := range cfg {
		t := c.id + "@" + c.addr
		if !c.voter {
			t += "/N"
		}
		ps = append(ps, t)
	}
	if len(ps) == 0 {
		return "-"
	}
	return strings.Join(ps, ";")
}

// writePeers writes raft/peers.json with the entries in the given order.
func (e *ssmEnv) writePeers(cfg []ssmPeer) {
	var ps []string
	for _, c := range cfg {
		nv := ""
		if !c.voter {
			nv = `,"non_voter": true`
		}
		ps = append(ps, fmt.Sprintf(`{"id": "%s","address": "%s"%s}`, c.id, c.addr, nv))
	}
	os.MkdirAll(filepath.Join(e.dir, "raft"), 0o755)
	mustWriteFile(filepath.Join(e.dir, "raft/peers.json"), "["+strings.Join(ps, ",")+"]")
}

// ssmRaftConfigList is raft's configuration as an ORDERED list of id@addr[/N].
func ssmRaftConfigList(s *Store) string {
	f := s.raft.GetConfiguration()
	if f.Error() != nil {
		return "ERR"
	}
	var cfg []ssmPeer
	for _, sv := range f.Configuration().Servers {
		cfg = append(cfg, ssmPeer{string(sv.ID), string(sv.Address), sv.Suffrage == raft.Voter})
	}
	return ssmPeersLine(cfg)
}

func ssmCopyDir(t *testing.T, src, dst string) {
	err := filepath.Walk(src, func(p string, info os.FileInfo, err error) error {
		if err != nil {
			if os.IsNotExist(err) {
				return nil
			}
			return err
		}
		rel, _ := filepath.Rel(src, p)
		if info.IsDir() {
			return os.MkdirAll(filepath.Join(dst, rel), 0o755)
		}
		b, err := os.ReadFile(p)
		if err != nil {
			if os.IsNotExist(err) {
				return nil
			}
			return err
		}
		if err := os.WriteFile(filepath.Join(dst, rel), b, info.Mode()); err != nil {
			return err
		}
		return os.Chtimes(filepath.Join(dst, rel), info.ModTime(), info.ModTime())
	})
	if err != nil {
		t.Fatal(err)
	}
}

func ssmRaftConfig(s *Store) string {
	f := s.raft.GetConfiguration()
	if f.Error() != nil {
		return "ERR"
	}
	var ps []string
	for _, sv := range f.Configuration().Servers {
		ps = append(ps, string(sv.ID)+"@"+string(sv.Address))
	}
	sort.Strings(ps)
	return strings.Join(ps, ";")
}

var _ = raft.Voter
var _ = dbsql.ErrNoRows

// ssmRng decorrelates seeds: vfNewRng's streams for seeds k and k+1 are the same sequence
// shifted by one draw, so the state is hashed once before use.
func ssmRng(salt uint64) *vfRng {
	r := vfNewRng(salt)
	r.s = r.U64()*0x2545F4914F6CDD1D + salt
	return r
}

// ssmReaperRace recognises a Store.Open that was refused only because the snapshot store's
// background reaper held its write lock at that instant (raft's List/Open of snapshots use the
// non-blocking read lock): a transient start-up failure, not a statement about any property.
func ssmReaperRace(err error) bool {
	if err == nil {
		return false
	}
	m := err.Error()
	return strings.Contains(m, "MSRW conflict") || strings.Contains(m, "failed to load any existing snapshots") ||
		strings.Contains(m, "acquiring read lock")
}

// ssmAbandon releases what a failed Open left behind (the Bolt file lock above all), so that a
// new Store object can be opened on the same directory.
func ssmAbandon(s *Store) {
	if s.raft != nil {
		s.raft.Shutdown().Error()
	}
	if s.raftTn != nil {
		s.raftTn.Close()
	}
	if s.db != nil {
		s.db.Close()
	}
	if s.boltStore != nil {
		s.boltStore.Close()
	}
	if s.snapshotStore != nil {
		s.snapshotStore.Close()
	}
}

// openRetry opens e.s; a start refused by the reaper race is counted, noted and retried (a few
// times, on a fresh Store object). Any other error, or the race persisting, is returned.
func (e *ssmEnv) openRetry() error {
	var err error
	for attempt := 0; attempt < 6; attempt++ {
		if err = e.s.Open(); err == nil || !ssmReaperRace(err) {
			return err
		}
		e.rep.Count("open-refused-by-concurrent-reap-then-retried")
		e.rep.Note("transient Store.Open failure (snapshot-store reaper held the write lock), retry %d: %v", attempt+1, err)
		ssmAbandon(e.s)
		e.ln.Close()
		time.Sleep(time.Duration(200*(attempt+1)) * time.Millisecond)
		e.newStore()
	}
	return err
}

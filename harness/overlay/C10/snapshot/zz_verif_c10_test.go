package snapshot

// C10 correspondence + spec oracle: real SnapshotStreamer / Sink+FullSink / Restore /
// zstd transport wrappers vs. the Lean model `snapstream` (RqModel/Model/SnapStream.lean).
//
// Snapshot shapes: db only, db + 1..3 WALs; synthetic files that "look like" SQLite (what
// the sink checks) and real SQLite db+WAL files (so Restore's ReplayWAL runs). For every
// shape: the unmutated stream under many write splits (single, per byte, random, around
// every boundary) and through the zstd Compressor/Decompressor; then flip / drop / insert /
// truncate at every byte position, extensions, and header-field mutations (sizes, CRCs,
// version, missing db header, missing payload, incremental payload, unknown fields, WAL
// count), each against the real Sink (random split) and the real Restore.
// protobuf is an external parameter of the model: the harness tells the model how the
// real library decodes the (possibly mutated) header bytes.

import (
	"bytes"
	"encoding/binary"
	"fmt"
	"hash/crc32"
	"io"
	"os"
	"path/filepath"
	"strings"
	"testing"

	"github.com/hashicorp/raft"
	kzstd "github.com/klauspost/compress/zstd"
	"github.com/rqlite/rqlite/v10/db"
	"github.com/rqlite/rqlite/v10/internal/rarchive/zstd"
	"github.com/rqlite/rqlite/v10/snapshot/proto"
	"github.com/rqlite/rqlite/v10/snapshot/sidecar"
)

var c10Castagnoli = crc32.MakeTable(crc32.Castagnoli)

func c10CRC(b []byte) uint32 { return crc32.Checksum(b, c10Castagnoli) }

type c10Shape struct {
	name  string
	db    []byte
	wals  [][]byte
	real  bool // real SQLite files
	hdr   *proto.SnapshotHeader
	hb    []byte // marshalled header
	strm  []byte
	replayed []byte // db after SQLite replays the WALs (real shapes with WALs)
}

func c10FakeDB(r *vfRng, n int) []byte {
	b := append([]byte("SQLite format 3\x00"), r.Bytes(n)...)
	return b
}

func c10FakeWAL(r *vfRng, n int) []byte {
	b := make([]byte, 8)
	binary.BigEndian.PutUint32(b[0:], 0x377f0682+uint32(r.Intn(2)))
	binary.BigEndian.PutUint32(b[4:], 3007000)
	return append(b, r.Bytes(n)...)
}

func c10Header(dbb []byte, wals [][]byte) *proto.SnapshotHeader {
	full := &proto.FullSnapshot{DbHeader: &proto.Header{SizeBytes: uint64(len(dbb)), Crc32: c10CRC(dbb)}}
	for _, w := range wals {
		full.WalHeaders = append(full.WalHeaders, &proto.Header{SizeBytes: uint64(len(w)), Crc32: c10CRC(w)})
	}
	return &proto.SnapshotHeader{FormatVersion: 1, Payload: &proto.SnapshotHeader_Full{Full: full}}
}

func c10Frame(hb []byte, files ...[]byte) []byte {
	var l [4]byte
	binary.BigEndian.PutUint32(l[:], uint32(len(hb)))
	out := append(append([]byte(nil), l[:]...), hb...)
	for _, f := range files {
		out = append(out, f...)
	}
	return out
}

func (s *c10Shape) finish(t *testing.T) {
	s.hdr = c10Header(s.db, s.wals)
	hb, err := marshalSnapshotHeader(s.hdr)
	if err != nil {
		t.Fatal(err)
	}
	s.hb = hb
	s.strm = c10Frame(hb, append([][]byte{s.db}, s.wals...)...)
}

// c10RealFiles makes a small real SQLite database and WAL files taken between checkpoints.
func c10RealFiles(t *testing.T, r *vfRng, dir string, nWals int) ([]byte, [][]byte) {
	path := filepath.Join(dir, fmt.Sprintf("real-%d.db", r.U64()))
	d, err := db.Open(path, false, false)
	if err != nil {
		t.Fatal(err)
	}
	exec := func(d *db.DB, q string) {
		res, err := d.ExecuteStringStmt(q)
		if err != nil || res[0].GetError() != "" {
			t.Fatalf("exec %q: %v %v", q, err, res)
		}
	}
	exec(d, "PRAGMA page_size=512")
	exec(d, "CREATE TABLE foo (id INTEGER PRIMARY KEY, v TEXT)")
	exec(d, "VACUUM")
	d.Close()
	if d, err = db.Open(path, false, true); err != nil {
		t.Fatal(err)
	}
	exec(d, "INSERT INTO foo(v) VALUES('base')")
	if _, err := d.Checkpoint(db.CheckpointTruncate); err != nil {
		t.Fatal(err)
	}
	base, _ := os.ReadFile(path)
	var wals [][]byte
	for i := 0; i < nWals; i++ {
		for j := 0; j <= r.Intn(2); j++ {
			exec(d, fmt.Sprintf("INSERT INTO foo(v) VALUES('w%d-%d-%s')", i, j, strings.Repeat("z", r.Intn(40))))
		}
		w, _ := os.ReadFile(path + "-wal")
		wals = append(wals, w)
		if _, err := d.Checkpoint(db.CheckpointTruncate); err != nil {
			t.Fatal(err)
		}
	}
	d.Close()
	os.Remove(path)
	os.Remove(path + "-wal")
	os.Remove(path + "-shm")
	return base, wals
}

// c10Replay lets SQLite checkpoint the WALs into the database (what Restore does last).
func c10Replay(dir string, dbb []byte, wals [][]byte) ([]byte, error) {
	sub, err := os.MkdirTemp(dir, "replay")
	if err != nil {
		return nil, err
	}
	defer os.RemoveAll(sub)
	p := filepath.Join(sub, "r.db")
	if err := os.WriteFile(p, dbb, 0o644); err != nil {
		return nil, err
	}
	var wps []string
	for i, w := range wals {
		wp := filepath.Join(sub, fmt.Sprintf("w%d", i))
		os.WriteFile(wp, w, 0o644)
		wps = append(wps, wp)
	}
	if len(wps) > 0 {
		if err := db.ReplayWAL(p, wps, false); err != nil {
			return nil, err
		}
	}
	return os.ReadFile(p)
}

// ---- header decoding for the model -------------------------------------------------------

func c10HdrTok(h *proto.SnapshotHeader, err error) string {
	if err != nil || h == nil {
		return "invalid"
	}
	v := h.FormatVersion
	switch p := h.Payload.(type) {
	case *proto.SnapshotHeader_Full:
		dbt := "-"
		var ws []string
		if p.Full != nil {
			if p.Full.DbHeader != nil {
				dbt = fmt.Sprintf("%d:%d", p.Full.DbHeader.SizeBytes, p.Full.DbHeader.Crc32)
			}
			for _, w := range p.Full.WalHeaders {
				ws = append(ws, fmt.Sprintf("%d:%d", w.GetSizeBytes(), w.GetCrc32()))
			}
		}
		wt := "-"
		if len(ws) > 0 {
			wt = strings.Join(ws, ",")
		}
		return fmt.Sprintf("%d/full/%s/%s", v, dbt, wt)
	case *proto.SnapshotHeader_IncrementalFile:
		return fmt.Sprintf("%d/inc/%s", v, vfHex(p.IncrementalFile.GetWalDirPath()))
	}
	return fmt.Sprintf("%d/none", v)
}

// c10HeaderOf returns the header bytes of a stream if they are all present, and what the
// real protobuf library makes of them.
func c10HeaderOf(m []byte) (hb []byte, h *proto.SnapshotHeader, ok bool) {
	if len(m) < 4 {
		return nil, nil, false
	}
	n := int(binary.BigEndian.Uint32(m[:4]))
	if n < 0 || len(m) < 4+n {
		return nil, nil, false
	}
	hb = m[4 : 4+n]
	h, err := UnmarshalSnapshotHeader(hb)
	if err != nil {
		return hb, nil, true
	}
	return hb, h, true
}

// ---- running the real code -----------------------------------------------------------------

func c10ErrTok(err error) string {
	s := err.Error()
	switch {
	case strings.Contains(s, "unmarshal"):
		return "err-header-decode"
	case strings.Contains(s, "format version"):
		return "err-version"
	case strings.Contains(s, ErrHeaderInvalid.Error()):
		return "err-header-invalid"
	case strings.Contains(s, "unrecognized snapshot header payload"):
		return "err-no-payload"
	case strings.Contains(s, "full snapshot needed"):
		return "err-full-needed"
	case strings.Contains(s, "after incremental file header"):
		return "err-after-incremental"
	case strings.Contains(s, ErrUnexpectedData.Error()):
		return "err-unexpected-data"
	case strings.Contains(s, ErrIncomplete.Error()):
		return "err-incomplete"
	case strings.Contains(s, ErrInvalidSQLiteFile.Error()):
		return "err-invalid-db"
	case strings.Contains(s, ErrInvalidWALFile.Error()):
		return "err-invalid-wal"
	case strings.Contains(s, "CRC32 mismatch for DB"):
		return "err-crc-db"
	case strings.Contains(s, "CRC32 mismatch for WAL"):
		return "err-crc-wal"
	case strings.Contains(s, "snapshot has no database"):
		return "err-no-database"
	case strings.Contains(s, "trailing") || strings.Contains(s, "unexpected data after"):
		return "err-trailing-data"
	case strings.Contains(s, "EOF"):
		return "err-short-read"
	}
	return "err-other:" + s
}

var c10Seq int

// c10RunSink feeds the chunks to a real Sink the way raft does (stop and Cancel at the first
// error, else Close) and returns one token per op (writes then close) plus the installed files.
func c10RunSink(root string, chunks [][]byte, dueFull bool) (toks []string, dbb []byte, wals [][]byte) {
	c10Seq++
	id := fmt.Sprintf("2-%d-1", c10Seq)
	meta := &raft.SnapshotMeta{ID: id, Index: uint64(c10Seq), Term: 2, Version: 1}
	sink := NewSink(root, meta, nil, nil) // no type controller: the incremental due-next check is not exercised here
	_ = dueFull
	sink.fatalFn = nil
	if err := sink.Open(); err != nil {
		return []string{"err-other:open:" + err.Error()}, nil, nil
	}
	defer os.RemoveAll(filepath.Join(root, id))
	defer os.RemoveAll(tmpName(filepath.Join(root, id)))
	for _, c := range chunks {
		if _, err := sink.Write(c); err != nil {
			toks = append(toks, c10ErrTok(err))
			sink.Cancel()
			return
		}
		toks = append(toks, "ok")
	}
	if sink.localWALDir != "" {
		toks = append(toks, "incremental "+vfHex(sink.localWALDir))
		sink.Cancel()
		return
	}
	if err := sink.Close(); err != nil {
		toks = append(toks, c10ErrTok(err))
		sink.Cancel()
		return
	}
	dir := filepath.Join(root, id)
	var err error
	if dbb, err = os.ReadFile(filepath.Join(dir, "data.db")); err != nil {
		toks = append(toks, "closed-ok-but-nothing-installed")
		return
	}
	for i := 0; ; i++ {
		w, err := os.ReadFile(filepath.Join(dir, fmt.Sprintf("data-%08d.wal", i)))
		if err != nil {
			break
		}
		wals = append(wals, w)
	}
	ws := "-"
	if len(wals) > 0 {
		var hs []string
		for _, w := range wals {
			hs = append(hs, vfHexB(w))
		}
		ws = strings.Join(hs, ",")
	}
	toks = append(toks, fmt.Sprintf("installed %s %s", vfHexB(dbb), ws))
	return
}

func c10RunRestore(root string, m []byte) (tok string, restored []byte) {
	c10Seq++
	sub := filepath.Join(root, fmt.Sprintf("restore-%d", c10Seq))
	os.MkdirAll(sub, 0o755)
	defer os.RemoveAll(sub)
	dst := filepath.Join(sub, "restored.db")
	var err error
	func() {
		defer func() {
			if p := recover(); p != nil {
				err = fmt.Errorf("PANIC: %v", p)
			}
		}()
		_, err = Restore(bytes.NewReader(m), dst)
	}()
	if err != nil {
		if strings.HasPrefix(err.Error(), "PANIC") {
			return "panic", nil
		}
		if strings.Contains(err.Error(), "checkpointing WALs") {
			return "err-replay", nil
		}
		return c10ErrTok(err), nil
	}
	restored, _ = os.ReadFile(dst)
	return "ok", restored
}

func c10Split(r *vfRng, m []byte, marks []int, mode int) [][]byte {
	var cuts []int
	switch mode {
	case 0: // single write
	case 1: // per byte
		for i := 1; i < len(m); i++ {
			cuts = append(cuts, i)
		}
	case 2: // around every boundary
		for _, k := range marks {
			for _, d := range []int{-1, 0, 1} {
				if k+d > 0 && k+d < len(m) {
					cuts = append(cuts, k+d)
				}
			}
		}
	default:
		n := 1 + r.Intn(6)
		for i := 0; i < n && len(m) > 1; i++ {
			cuts = append(cuts, 1+r.Intn(len(m)-1))
		}
	}
	seen := map[int]bool{}
	var cs []int
	for _, c := range cuts {
		if !seen[c] {
			seen[c] = true
			cs = append(cs, c)
		}
	}
	for i := range cs { // sort
		for j := i + 1; j < len(cs); j++ {
			if cs[j] < cs[i] {
				cs[i], cs[j] = cs[j], cs[i]
			}
		}
	}
	var out [][]byte
	prev := 0
	for _, c := range cs {
		out = append(out, m[prev:c])
		prev = c
	}
	if prev < len(m) || len(m) == 0 {
		out = append(out, m[prev:])
	}
	if len(m) == 0 {
		return nil
	}
	return out
}

type c10Ctx struct {
	t    *testing.T
	rep  *vfReport
	r    *vfRng
	root string
	segOps, segImpl [][]string
	replayCache map[string][]byte
}

func (c *c10Ctx) replay(dbb []byte, wals [][]byte) ([]byte, error) {
	key := fmt.Sprintf("%x|", c10CRC(dbb))
	for _, w := range wals {
		key += fmt.Sprintf("%x|%d|", c10CRC(w), len(w))
	}
	key += fmt.Sprint(len(dbb))
	if v, ok := c.replayCache[key]; ok {
		return v, nil
	}
	v, err := c10Replay(c.root, dbb, wals)
	if err == nil {
		c.replayCache[key] = v
	}
	return v, err
}

// c10Region names where a byte position lies.
func c10Region(s *c10Shape, pos int) string {
	switch {
	case pos < 4:
		return "length-prefix"
	case pos < 4+len(s.hb):
		return "header"
	case pos < 4+len(s.hb)+len(s.db):
		return "db"
	case pos < len(s.strm):
		return "wal"
	}
	return "end"
}

// one (possibly mutated) stream against sink (one split) and restore, model and property
func (c *c10Ctx) one(s *c10Shape, m []byte, mut string, pos int, splitMode int, doRestore bool) {
	rep := c.rep
	ops := []string{}
	impl := []string{}
	hb, h, haveHdr := c10HeaderOf(m)
	if haveHdr {
		var err error
		if h == nil {
			err = fmt.Errorf("invalid")
		}
		ops = append(ops, fmt.Sprintf("hdr %s %s", vfHexB(hb), c10HdrTok(h, err)))
		impl = append(impl, "ok")
	}
	intact := bytes.Equal(m, s.strm)
	region := c10Region(s, pos)
	replayInfo := map[string]interface{}{"shape": s.name, "mutation": mut, "position": pos, "region": region, "stream_hex": fmt.Sprintf("%x", m), "original_hex": fmt.Sprintf("%x", s.strm)}
	what := func() string {
		// how the accepted corrupted stream relates to the original
		if len(m) > len(s.strm) && bytes.Equal(m[:len(s.strm)], s.strm) {
			return "trailing-bytes"
		}
		if haveHdr && h != nil {
			h2 := pbCloneHeader(h)
			h2.FormatVersion = s.hdr.FormatVersion
			if c10HdrTok(h2, nil) == c10HdrTok(s.hdr, nil) && h.FormatVersion != s.hdr.FormatVersion && bytes.Equal(m[4+len(hb):], s.strm[4+len(s.hb):]) {
				return "format-version-differs"
			}
			if c10HdrTok(h, nil) == c10HdrTok(s.hdr, nil) && bytes.Equal(m[4+len(hb):], s.strm[4+len(s.hb):]) {
				return "header-bytes-differ-but-decode-identically"
			}
		}
		return mut + "-in-" + region
	}

	// ---- sink
	marks := []int{4, 4 + len(s.hb), 4 + len(s.hb) + len(s.db)}
	off := 4 + len(s.hb) + len(s.db)
	for _, w := range s.wals {
		off += len(w)
		marks = append(marks, off)
	}
	chunks := c10Split(c.r, m, marks, splitMode)
	toks, idb, iwals := c10RunSink(c.root, chunks, false)
	ops = append(ops, "sink 0")
	impl = append(impl, "ok")
	for i, tk := range toks {
		if i < len(chunks) {
			ops = append(ops, "write "+vfHexB(chunks[i]))
		} else {
			ops = append(ops, "close")
		}
		impl = append(impl, tk)
	}
	last := toks[len(toks)-1]
	installed := strings.HasPrefix(last, "installed ")
	rep.Count("sink-outcome=" + strings.SplitN(last, " ", 2)[0])
	if last == "closed-ok-but-nothing-installed" {
		rep.Fail("sink-close-reports-success-but-installs-nothing:"+what(), fmt.Sprintf("shape %s, %s at %d (%s): every Write and Close returned nil, no snapshot directory", s.name, mut, pos, region), replayInfo)
	}
	if intact {
		if !installed || !bytes.Equal(idb, s.db) || len(iwals) != len(s.wals) {
			rep.Fail("intact-stream-not-installed-exactly", fmt.Sprintf("shape %s split mode %d: %s", s.name, splitMode, last), replayInfo)
		} else {
			for i := range iwals {
				if !bytes.Equal(iwals[i], s.wals[i]) {
					rep.Fail("intact-stream-not-installed-exactly", fmt.Sprintf("shape %s wal %d differs", s.name, i), replayInfo)
				}
			}
		}
	} else if installed {
		same := bytes.Equal(idb, s.db) && len(iwals) == len(s.wals)
		for i := 0; same && i < len(iwals); i++ {
			same = bytes.Equal(iwals[i], s.wals[i])
		}
		if !same {
			rep.Fail("altered-data-installed-by-sink:"+what(), fmt.Sprintf("shape %s, %s at %d (%s)", s.name, mut, pos, region), replayInfo)
		} else {
			rep.Fail("corrupted-stream-accepted-by-sink:"+what(), fmt.Sprintf("shape %s, %s at %d (%s): install succeeded (data identical to the source)", s.name, mut, pos, region), replayInfo)
		}
	}

	// ---- restore
	if doRestore {
		tok, restored := c10RunRestore(c.root, m)
		rep.Count("restore-outcome=" + tok)
		implTok := tok
		if tok == "panic" {
			rep.Fail("restore-panics:"+what(), fmt.Sprintf("shape %s, %s at %d (%s): Restore panicked (nil DbHeader)", s.name, mut, pos, region), replayInfo)
		}
		// what the stream itself says (real header decode + byte ranges)
		var xdb []byte
		var xwals [][]byte
		extracted := false
		if haveHdr && h != nil && h.GetFull() != nil && h.GetFull().DbHeader != nil {
			p := 4 + len(hb)
			f := h.GetFull()
			okx := uint64(len(m)-p) >= f.DbHeader.SizeBytes
			if okx {
				xdb = m[p : p+int(f.DbHeader.SizeBytes)]
				p += int(f.DbHeader.SizeBytes)
				for _, wh := range f.WalHeaders {
					if uint64(len(m)-p) < wh.SizeBytes {
						okx = false
						break
					}
					xwals = append(xwals, m[p:p+int(wh.SizeBytes)])
					p += int(wh.SizeBytes)
				}
			}
			extracted = okx
		}
		if tok == "ok" || tok == "err-replay" {
			if !extracted {
				rep.Fail("restore-succeeded-on-unparseable-stream", fmt.Sprintf("shape %s, %s at %d", s.name, mut, pos), replayInfo)
			} else {
				ws := "-"
				if len(xwals) > 0 {
					var hs []string
					for _, w := range xwals {
						hs = append(hs, vfHexB(w))
					}
					ws = strings.Join(hs, ",")
				}
				implTok = fmt.Sprintf("ok %s %s", vfHexB(xdb), ws)
				if tok == "ok" {
					want := xdb
					if len(xwals) > 0 {
						var err error
						if want, err = c.replay(xdb, xwals); err != nil {
							rep.Fail("restore-succeeded-but-replay-of-same-files-fails", err.Error(), replayInfo)
						}
					}
					if !bytes.Equal(restored, want) {
						rep.Fail("restored-database-differs-from-stream-content", fmt.Sprintf("shape %s, %s at %d", s.name, mut, pos), replayInfo)
					}
				}
			}
		}
		ops = append(ops, "restore "+vfHexB(m))
		impl = append(impl, implTok)
		if intact {
			wantDB := s.db
			if len(s.wals) > 0 {
				wantDB = s.replayed
			}
			if tok != "ok" && !(tok == "err-replay" && !s.real) {
				rep.Fail("intact-stream-not-restored", fmt.Sprintf("shape %s: %s", s.name, tok), replayInfo)
			} else if tok == "ok" && !bytes.Equal(restored, wantDB) {
				rep.Fail("intact-stream-not-restored-exactly", fmt.Sprintf("shape %s", s.name), replayInfo)
			}
		} else if tok == "ok" {
			same := extracted && bytes.Equal(xdb, s.db) && len(xwals) == len(s.wals)
			for i := 0; same && i < len(xwals); i++ {
				same = bytes.Equal(xwals[i], s.wals[i])
			}
			if !same {
				rep.Fail("altered-data-restored:"+what(), fmt.Sprintf("shape %s, %s at %d (%s)", s.name, mut, pos, region), replayInfo)
			} else {
				rep.Fail("corrupted-stream-accepted-by-restore:"+what(), fmt.Sprintf("shape %s, %s at %d (%s): restore succeeded (data identical to the source)", s.name, mut, pos, region), replayInfo)
			}
		}
	}
	c.rep.Case(fmt.Sprintf("%x|%d", m, splitMode), !intact || splitMode != 0)
	c.rep.Count("mutation=" + mut)
	c.segOps = append(c.segOps, ops)
	c.segImpl = append(c.segImpl, impl)
}

func pbCloneHeader(h *proto.SnapshotHeader) *proto.SnapshotHeader {
	b, _ := marshalSnapshotHeader(h)
	h2, _ := UnmarshalSnapshotHeader(b)
	return h2
}

func TestVerifC10(t *testing.T) {
	rep := vfNewReport("C10", "snapshot shapes (db only, db+1..3 WALs; SQLite-looking synthetic files and real SQLite files) × write splits (single, per byte, around every boundary, random) × zstd transport round trip × {flip, drop, insert, truncate} at every byte position, extensions and header-field mutations, each through the real Sink and the real Restore; non-trivial = mutated stream or non-trivial split; distinct by stream bytes + split")
	defer rep.Write()
	r := vfNewRng(10)
	root := t.TempDir()
	c := &c10Ctx{t: t, rep: rep, r: r, root: root, replayCache: map[string][]byte{}}

	var shapes []*c10Shape
	nFake := vfScale(4, 80)
	for i := 0; i < nFake; i++ {
		s := &c10Shape{name: fmt.Sprintf("fake-db+%dwal", i%4), db: c10FakeDB(r, r.Intn(30))}
		for k := 0; k < i%4; k++ {
			s.wals = append(s.wals, c10FakeWAL(r, r.Intn(24)))
		}
		s.finish(t)
		shapes = append(shapes, s)
	}
	for _, nw := range []int{0, 1, 2} {
		if nw == 2 && !vfThorough() {
			continue
		}
		dbb, wals := c10RealFiles(t, r, root, nw)
		s := &c10Shape{name: fmt.Sprintf("sqlite-db+%dwal", nw), db: dbb, wals: wals, real: true}
		s.finish(t)
		if nw > 0 {
			var err error
			if s.replayed, err = c10Replay(root, dbb, wals); err != nil {
				t.Fatalf("replay of generated files failed: %v", err)
			}
		}
		shapes = append(shapes, s)
	}

	for _, s := range shapes {
		rep.Count("shape=" + s.name)
		rep.Sample(map[string]interface{}{"shape": s.name, "stream_bytes": len(s.strm), "header_bytes": len(s.hb), "db_bytes": len(s.db), "wals": len(s.wals)})
		// the real streamer frames exactly like this
		if s.real || len(s.strm) < 400 {
			dir := t.TempDir()
			dbp := filepath.Join(dir, "src.db")
			os.WriteFile(dbp, s.db, 0o644)
			var wps []string
			for i, w := range s.wals {
				wp := filepath.Join(dir, fmt.Sprintf("src-%d.wal", i))
				os.WriteFile(wp, w, 0o644)
				wps = append(wps, wp)
			}
			st, err := NewSnapshotStreamer(dbp, wps...)
			if err != nil {
				t.Fatal(err)
			}
			if err := st.Open(); err != nil {
				t.Fatal(err)
			}
			got, _ := io.ReadAll(st)
			n, _ := st.Len()
			st.Close()
			if !bytes.Equal(got, s.strm) || n != int64(len(s.strm)) {
				rep.Fail("streamer-output-differs-from-framing", fmt.Sprintf("shape %s: %d bytes (Len %d), framing rule gives %d", s.name, len(got), n, len(s.strm)), map[string]interface{}{"shape": s.name})
			}
		}
		small := len(s.strm) < 400
		// intact stream, split patterns
		for mode := 0; mode < 4+vfScale(2, 10); mode++ {
			if mode == 1 && !small && !vfThorough() {
				continue
			}
			c.one(s, s.strm, "none", len(s.strm), mode, mode == 0)
		}
		// intact stream through the transport compression
		for _, bufSz := range []int{1, 7, zstd.DefaultBufferSize} {
			if bufSz == 1 && !small {
				continue
			}
			comp, err := zstd.NewCompressor(bytes.NewReader(s.strm), int64(len(s.strm)), bufSz)
			if err != nil {
				t.Fatal(err)
			}
			wire, err := io.ReadAll(comp)
			comp.Close()
			if err != nil {
				t.Fatal(err)
			}
			back, err := io.ReadAll(zstd.NewDecompressor(iotestOneByte(bytes.NewReader(wire), bufSz == 7)))
			rep.Count("zstd-round-trips")
			if err != nil || !bytes.Equal(back, s.strm) {
				rep.Fail("transport-compression-not-transparent", fmt.Sprintf("shape %s bufSz %d: err=%v equal=%v", s.name, bufSz, err, bytes.Equal(back, s.strm)), map[string]interface{}{"shape": s.name, "stream_hex": fmt.Sprintf("%x", s.strm)})
			} else {
				c.one(s, back, "none", len(back), 3, false)
			}
		}
		// mutations at every byte position
		stride := 1
		if !small {
			stride = vfScale(61, 5)
		} else if !vfThorough() && s != shapes[0] && s != shapes[1] {
			stride = 3 // quick tier: every position for the first two shapes, every third for the rest
		}
		startOff := r.Intn(stride)
		for pos := startOff; pos < len(s.strm); pos += stride {
			// keep the length prefix's top byte flips small (a huge header length only makes the
			// reader wait for / allocate that many bytes)
			bit := uint(r.Intn(8))
			if pos == 0 {
				bit = uint(r.Intn(2))
			}
			m := append([]byte(nil), s.strm...)
			m[pos] ^= 1 << bit
			c.one(s, m, "flip", pos, 3, true)
			if vfThorough() && small {
				m2 := append([]byte(nil), s.strm...)
				m2[pos] ^= 1 << ((bit + 3) % 8)
				if pos != 0 {
					c.one(s, m2, "flip", pos, 3, true)
				}
			}
			drop := append(append([]byte(nil), s.strm[:pos]...), s.strm[pos+1:]...)
			if pos >= 1 { // dropping byte 0 shifts a data byte into the top of the length
				c.one(s, drop, "drop", pos, 3, true)
			}
			if pos >= 1 {
				ins := append(append(append([]byte(nil), s.strm[:pos]...), byte(r.U64())), s.strm[pos:]...)
				c.one(s, ins, "insert", pos, 3, true)
			}
			c.one(s, s.strm[:pos], "truncate", pos, 3, true)
		}
		// directed: a bit above bit 31 of the db CRC varint (protobuf drops it when decoding uint32)
		{
			crc := c10CRC(s.db)
			if crc >= 1<<28 {
				var vb []byte
				for v := uint64(crc); ; v >>= 7 {
					if v < 0x80 {
						vb = append(vb, byte(v))
						break
					}
					vb = append(vb, byte(v)|0x80)
				}
				if i := bytes.Index(s.hb, vb); i >= 0 && len(vb) == 5 {
					m := append([]byte(nil), s.strm...)
					m[4+i+4] ^= 0x10
					c.one(s, m, "flip", 4+i+4, 3, true)
				}
			}
		}
		// extensions
		for _, n := range []int{1, 2, 17} {
			c.one(s, append(append([]byte(nil), s.strm...), r.Bytes(n)...), "extend", len(s.strm), 3, true)
		}
		c.one(s, append(append([]byte(nil), s.strm...), s.strm...), "extend", len(s.strm), 3, true)
		// header-field mutations
		files := append([][]byte{s.db}, s.wals...)
		mutHdr := func(name string, f func(h *proto.SnapshotHeader)) {
			h := pbCloneHeader(s.hdr)
			f(h)
			hb, err := marshalSnapshotHeader(h)
			if err != nil {
				t.Fatal(err)
			}
			c.one(s, c10Frame(hb, files...), "header:"+name, 4, 3, true)
		}
		mutHdr("db-size+1", func(h *proto.SnapshotHeader) { h.GetFull().DbHeader.SizeBytes++ })
		mutHdr("db-size-1", func(h *proto.SnapshotHeader) { h.GetFull().DbHeader.SizeBytes-- })
		mutHdr("db-crc", func(h *proto.SnapshotHeader) { h.GetFull().DbHeader.Crc32 ^= 1 << uint(r.Intn(32)) })
		mutHdr("version-0", func(h *proto.SnapshotHeader) { h.FormatVersion = 0 })
		mutHdr("version-2", func(h *proto.SnapshotHeader) { h.FormatVersion = 2 })
		mutHdr("no-db-header", func(h *proto.SnapshotHeader) { h.GetFull().DbHeader = nil })
		mutHdr("no-payload", func(h *proto.SnapshotHeader) { h.Payload = nil })
		mutHdr("incremental-payload", func(h *proto.SnapshotHeader) {
			h.Payload = &proto.SnapshotHeader_IncrementalFile{IncrementalFile: &proto.IncrementalFileSnapshot{WalDirPath: "/nonexistent/verif"}}
		})
		mutHdr("extra-wal-header", func(h *proto.SnapshotHeader) {
			h.GetFull().WalHeaders = append(h.GetFull().WalHeaders, &proto.Header{SizeBytes: 0, Crc32: 0})
		})
		if len(s.wals) > 0 {
			mutHdr("wal-size+1", func(h *proto.SnapshotHeader) { h.GetFull().WalHeaders[0].SizeBytes++ })
			mutHdr("wal-crc", func(h *proto.SnapshotHeader) { h.GetFull().WalHeaders[len(s.wals)-1].Crc32 ^= 4 })
			mutHdr("one-wal-header-less", func(h *proto.SnapshotHeader) {
				h.GetFull().WalHeaders = h.GetFull().WalHeaders[:len(s.wals)-1]
			})
			mutHdr("sizes-shifted-between-db-and-wal", func(h *proto.SnapshotHeader) {
				h.GetFull().DbHeader.SizeBytes++
				h.GetFull().WalHeaders[0].SizeBytes--
			})
		}
		// an incremental header alone (what a local snapshot writes) and with a due full snapshot
		ih, _ := NewIncrementalFileSnapshotHeader("/nonexistent/verif-dir")
		ihb, _ := marshalSnapshotHeader(ih)
		c.one(s, c10Frame(ihb), "incremental-header-only", 4, 3, true)
	}
	c10StoreToStore(t, c)
	c10Transport(t, c, shapes)
	c10EmptyWriteAfterDone(t, c, shapes[0])
	c10CrashStates(t, c, shapes)
	c10IncrementalInstall(t, c, shapes)
	rep.vfCompareSegments("snapstream", c.segOps, c.segImpl)
}

// c10WriteSnapDir writes one snapshot directory of a store by hand: data file, CRC sidecar
// and meta.json, as the sink / the local snapshot path leave them.
func c10WriteSnapDir(t *testing.T, root string, term, index uint64, ms int, name string, data []byte) string {
	id := fmt.Sprintf("%d-%d-%d", term, index, 1700000000000+ms)
	sd := filepath.Join(root, id)
	if err := os.MkdirAll(sd, 0o755); err != nil {
		t.Fatal(err)
	}
	p := filepath.Join(sd, name)
	if err := os.WriteFile(p, data, 0o644); err != nil {
		t.Fatal(err)
	}
	if err := sidecar.WriteFile(p+crcSuffix, c10CRC(data)); err != nil {
		t.Fatal(err)
	}
	if err := writeMeta(sd, &raft.SnapshotMeta{ID: id, Index: index, Term: term}); err != nil {
		t.Fatal(err)
	}
	return id
}

// c10StoreToStore: the whole path of the property. A full snapshot and a chain of incremental
// snapshots in a source Store (directory names <term>-<index>-<ms> with indexes and terms
// that cross decimal digit-count boundaries, e.g. 8,9,10,11 / 98..101 / term 9 -> 10), opened
// with Store.Open, written into another node's Store through its sink, opened there and
// restored. The stream must be the framing of the chain in (term, index) order and the
// database at the far end must be the source's.
func c10StoreToStore(t *testing.T, c *c10Ctx) {
	rep, r := c.rep, c.r
	type plan struct{ terms, idxs []uint64 }
	plans := []plan{
		{[]uint64{2, 2, 2, 2}, []uint64{8, 9, 10, 11}},
		{[]uint64{2, 2, 2}, []uint64{98, 99, 100}},
		{[]uint64{3, 3, 3, 3, 3}, []uint64{997, 998, 999, 1000, 1001}},
		{[]uint64{9, 9, 10, 10}, []uint64{50, 51, 52, 53}},
		{[]uint64{1, 1, 1}, []uint64{100, 200, 300}},
		{[]uint64{7, 7}, []uint64{9, 10}},
	}
	if vfThorough() {
		for k := 0; k < 20; k++ {
			n := 2 + r.Intn(5)
			base := uint64([]int{7, 8, 9, 97, 98, 99, 996, 9998, 5, 120}[r.Intn(10)])
			var pl plan
			term := uint64(1 + r.Intn(12))
			for j := 0; j < n; j++ {
				if r.Chance(15) {
					term++
				}
				pl.terms = append(pl.terms, term)
				pl.idxs = append(pl.idxs, base+uint64(j)*uint64(1+r.Intn(2)))
			}
			for j := 1; j < n; j++ {
				if pl.idxs[j] <= pl.idxs[j-1] {
					pl.idxs[j] = pl.idxs[j-1] + 1
				}
			}
			plans = append(plans, pl)
		}
	}
	for pi, pl := range plans {
		nw := len(pl.idxs) - 1
		dbb, wals := c10RealFiles(t, r, c.root, nw)
		want, err := c10Replay(c.root, dbb, wals)
		if err != nil {
			t.Fatalf("replay of generated files: %v", err)
		}
		src, _ := os.MkdirTemp(c.root, "src-store")
		dst, _ := os.MkdirTemp(c.root, "dst-store")
		c10WriteSnapDir(t, src, pl.terms[0], pl.idxs[0], 0, dbfileName, dbb)
		newest := ""
		for i, w := range wals {
			newest = c10WriteSnapDir(t, src, pl.terms[i+1], pl.idxs[i+1], i+1, "00000001.wal", w)
		}
		info := map[string]interface{}{"terms": pl.terms, "indexes": pl.idxs, "wals": nw}
		rep.Count("store-to-store-chains")
		rep.Case(fmt.Sprintf("s2s|%d|%v|%v", pi, pl.terms, pl.idxs), true)
		ss, err := NewStore(src)
		if err != nil {
			t.Fatal(err)
		}
		ss.fatalFn = nil
		meta, rc, err := ss.Open(newest)
		if err != nil {
			rep.Fail("store-open-fails-on-intact-chain", err.Error(), info)
			ss.Close()
			continue
		}
		strm, _ := io.ReadAll(rc)
		rc.Close()
		ss.Close()
		// the stream is the framing of the chain in catalog order
		shape := &c10Shape{name: fmt.Sprintf("store-chain-%d", pi), db: dbb, wals: wals, real: true, replayed: want}
		shape.finish(t)
		if !bytes.Equal(strm, shape.strm) || meta.Size != int64(len(strm)) {
			rep.Fail("store-stream-differs-from-framing-of-chain",
				fmt.Sprintf("snapshot dirs terms=%v indexes=%v: Store.Open streams %d bytes; framing the database and the WALs in (term,index) order gives %d bytes; equal=%v", pl.terms, pl.idxs, len(strm), len(shape.strm), bytes.Equal(strm, shape.strm)), info)
		}
		// model + both receivers on the stream the store really produced
		c.one(shape, strm, "none", len(strm), 3, true)
		// into the other node's store, through its sink, and back out
		ds, err := NewStore(dst)
		if err != nil {
			t.Fatal(err)
		}
		ds.fatalFn = nil
		sink, err := ds.Create(1, meta.Index, meta.Term, raft.Configuration{}, 1, nil)
		if err != nil {
			t.Fatal(err)
		}
		if _, err := io.Copy(sink, bytes.NewReader(strm)); err != nil {
			sink.Cancel()
			rep.Fail("store-to-store-install-fails", err.Error(), info)
			ds.Close()
			continue
		}
		if err := sink.Close(); err != nil {
			rep.Fail("store-to-store-install-fails", err.Error(), info)
			ds.Close()
			continue
		}
		_, rc2, err := ds.Open(sink.ID())
		if err != nil {
			rep.Fail("store-to-store-installed-snapshot-does-not-open", err.Error(), info)
			ds.Close()
			continue
		}
		out := filepath.Join(c.root, fmt.Sprintf("s2s-%d.db", pi))
		_, err = Restore(rc2, out)
		rc2.Close()
		got, _ := os.ReadFile(out)
		os.Remove(out)
		ds.Close()
		if err != nil {
			rep.Fail("store-to-store-restore-fails", err.Error(), info)
		} else if !bytes.Equal(got, want) {
			rep.Fail("store-to-store-database-differs-from-source",
				fmt.Sprintf("snapshot dirs terms=%v indexes=%v: the database restored from the receiving store differs from the source's (full + %d WALs replayed in order)", pl.terms, pl.idxs, nw), info)
		}
		os.RemoveAll(src)
		os.RemoveAll(dst)
	}
}

type c10OneByte struct {
	r   io.Reader
	one bool
}

func (o c10OneByte) Read(p []byte) (int, error) {
	if o.one && len(p) > 1 {
		p = p[:1]
	}
	return o.r.Read(p)
}

func iotestOneByte(r io.Reader, one bool) io.Reader { return c10OneByte{r, one} }

// c10EmptyWriteAfterDone: FullSink.Write refuses ANY write once every artifact is complete,
// even an empty one.
func c10EmptyWriteAfterDone(t *testing.T, c *c10Ctx, s *c10Shape) {
	hb, h, _ := c10HeaderOf(s.strm)
	ops := []string{fmt.Sprintf("hdr %s %s", vfHexB(hb), c10HdrTok(h, nil)), "sink 0"}
	impl := []string{"ok", "ok"}
	chunks := [][]byte{s.strm, {}}
	toks, _, _ := c10RunSink(c.root, chunks, false)
	for i, tk := range toks {
		if i < len(chunks) {
			ops = append(ops, "write "+vfHexB(chunks[i]))
		} else {
			ops = append(ops, "close")
		}
		impl = append(impl, tk)
	}
	c.rep.Count("empty-write-after-done")
	c.rep.Case("empty-write-after-done", true)
	c.segOps = append(c.segOps, ops)
	c.segImpl = append(c.segImpl, impl)
}

// c10Transport: the compressing transport between two nodes, byte level. Sender: the real
// Compressor (8-byte size ‖ zstd). Receiver: what raft hands over, io.LimitReader(conn, req.Size),
// wrapped in the real Decompressor. Wire mutations: truncation, size-prefix changes, data beyond
// the declared size, flips in the compressed body; plus a payload that does not compress.
func c10Transport(t *testing.T, c *c10Ctx, shapes []*c10Shape) {
	rep, r := c.rep, c.r
	compress := func(payload []byte, declared int64) []byte {
		comp, err := zstd.NewCompressor(bytes.NewReader(payload), declared, zstd.DefaultBufferSize)
		if err != nil {
			t.Fatal(err)
		}
		w, err := io.ReadAll(comp)
		comp.Close()
		if err != nil {
			t.Fatal(err)
		}
		return w
	}
	recv := func(wire []byte, raftSize int) ([]byte, error) {
		return io.ReadAll(zstd.NewDecompressor(io.LimitReader(bytes.NewReader(wire), int64(raftSize))))
	}
	// an incompressible snapshot: random page content
	inc := &c10Shape{name: "incompressible-db", db: c10FakeDB(r, 3000)}
	inc.finish(t)
	all := append(append([]*c10Shape{}, shapes...), inc)
	for si, s := range all {
		if si >= vfScale(2, 1000) && s != inc && !s.real {
			continue
		}
		payload := s.strm
		wire := compress(payload, int64(len(payload)))
		type mut struct {
			name string
			wire []byte
		}
		muts := []mut{{"none", wire}}
		for _, k := range []int{0, 3, 8, 9, len(wire) / 2, len(wire) - 5, len(wire) - 1} {
			if k >= 0 && k < len(wire) {
				muts = append(muts, mut{"wire-truncated", wire[:k]})
			}
		}
		setSize := func(n uint64) []byte {
			w := append([]byte(nil), wire...)
			binary.BigEndian.PutUint64(w[:8], n)
			return w
		}
		muts = append(muts, mut{"size-prefix+1", setSize(uint64(len(payload)) + 1)}, mut{"size-prefix-1", setSize(uint64(len(payload)) - 1)},
			mut{"size-prefix-doubled", setSize(uint64(len(payload)) * 2)}, mut{"size-prefix-zero", setSize(0)})
		for k := 0; k < 3; k++ {
			w := append([]byte(nil), wire...)
			w[r.Intn(8)] ^= 1 << uint(r.Intn(8))
			muts = append(muts, mut{"size-prefix-bit-flip", w})
		}
		muts = append(muts, mut{"data-beyond-declared-size", compress(append(append([]byte(nil), payload...), r.Bytes(1+r.Intn(40))...), int64(len(payload)))})
		for k := 0; k < vfScale(6, 40); k++ {
			w := append([]byte(nil), wire...)
			w[8+r.Intn(len(w)-8)] ^= 1 << uint(r.Intn(8))
			muts = append(muts, mut{"compressed-body-bit-flip", w})
		}
		for _, m := range muts {
			raftSize := len(payload)
			got, err := recv(m.wire, raftSize)
			raw := m.wire
			if len(raw) > raftSize {
				raw = raw[:raftSize]
			}
			out, clean := []byte{}, false
			if len(raw) >= 8 {
				if dec, derr := kzstd.NewReader(bytes.NewReader(raw[8:]), kzstd.WithDecoderConcurrency(1)); derr == nil {
					var rerr error
					out, rerr = io.ReadAll(dec)
					clean = rerr == nil
					dec.Close()
				}
			}
			tok := "ok "
			if err != nil {
				tok = "err "
			}
			c.segOps = append(c.segOps, []string{fmt.Sprintf("recv %d %s %s %s", raftSize, vfHexB(m.wire), vfHexB(out), map[bool]string{true: "1", false: "0"}[clean])})
			c.segImpl = append(c.segImpl, []string{tok + vfHexB(got)})
			rep.Count("transport-mutation=" + m.name)
			rep.Case(fmt.Sprintf("transport|%x|%s", m.wire, s.name), true)
			info := map[string]interface{}{"shape": s.name, "mutation": m.name, "payload_bytes": len(payload), "wire_bytes": len(m.wire), "wire_hex": fmt.Sprintf("%x", m.wire)}
			delivered := err == nil && len(got) == raftSize
			switch {
			case m.name == "none" && !(delivered && bytes.Equal(got, payload)):
				if len(wire) > len(payload) {
					rep.Fail("transport-compression-cannot-carry-incompressible-snapshot",
						fmt.Sprintf("payload %d bytes compresses to a %d-byte wire form; raft lets the receiver read only req.Size=%d bytes of it: received %d bytes, err=%v", len(payload), len(wire), len(payload), len(got), err), info)
				} else {
					rep.Fail("transport-compression-not-transparent", fmt.Sprintf("shape %s: received %d bytes err=%v", s.name, len(got), err), info)
				}
			case m.name != "none" && delivered && bytes.Equal(got, payload):
				rep.Fail("corrupted-wire-accepted:data-identical:"+m.name, fmt.Sprintf("shape %s: the receiver got the exact payload from a changed wire form", s.name), info)
			case m.name != "none" && delivered:
				// different bytes of the right length reach the sink: it has to refuse them
				c.one(s, got, "transport:"+m.name, 0, 3, false)
			}
		}
	}
}

// c10CrashStates: the directory states a crash can leave during Sink.Close, built by hand
// (k = number of completed steps: 0 data only in <id>.tmp, 1 + sidecars, 2 + meta.json, 3 synced,
// 4.. renamed into place), then a real store start (Store.check) and what it lists.
func c10CrashStates(t *testing.T, c *c10Ctx, shapes []*c10Shape) {
	done := 0
	for _, s := range shapes {
		if !s.real || (done >= 1 && !vfThorough()) {
			continue
		}
		done++
		for k := 0; k <= 6; k++ {
			root, _ := os.MkdirTemp(c.root, "crash")
			id := "2-77-1700000000077"
			dir := filepath.Join(root, id)
			if k < 4 {
				dir = tmpName(dir)
			}
			os.MkdirAll(dir, 0o755)
			files := map[string][]byte{"data.db": s.db}
			for i, w := range s.wals {
				files[fmt.Sprintf("data-%08d.wal", i)] = w
			}
			for name, b := range files {
				os.WriteFile(filepath.Join(dir, name), b, 0o644)
				if k >= 1 {
					sidecar.WriteFile(filepath.Join(dir, name)+crcSuffix, c10CRC(b))
				}
			}
			if k >= 2 {
				writeMeta(dir, &raft.SnapshotMeta{ID: id, Index: 77, Term: 2})
			}
			st, err := NewStore(root)
			tok := "none"
			info := map[string]interface{}{"shape": s.name, "steps_completed": k}
			if err != nil {
				tok = "store-does-not-start:" + err.Error()
			} else {
				st.fatalFn = nil
				metas, lerr := st.List()
				switch {
				case lerr != nil:
					tok = "list-fails:" + lerr.Error()
				case len(metas) == 0:
					if _, serr := os.Stat(tmpName(filepath.Join(root, id))); serr == nil {
						tok = "tmp-directory-left-behind"
					}
				default:
					_, rc, oerr := st.Open(metas[0].ID)
					if oerr != nil {
						tok = "partial:" + oerr.Error()
					} else {
						out := filepath.Join(root, "r.db")
						_, rerr := Restore(rc, out)
						rc.Close()
						got, _ := os.ReadFile(out)
						want := s.db
						if len(s.wals) > 0 {
							want = s.replayed
						}
						if rerr != nil || !bytes.Equal(got, want) {
							tok = fmt.Sprintf("partial:restore err=%v", rerr)
						} else {
							tok = "complete"
						}
					}
				}
				st.Close()
			}
			c.segOps = append(c.segOps, []string{fmt.Sprintf("crash %d", k)})
			c.segImpl = append(c.segImpl, []string{tok})
			c.rep.Count("crash-states")
			c.rep.Case(fmt.Sprintf("crash|%s|%d", s.name, k), true)
			if tok != "none" && tok != "complete" {
				c.rep.Fail("crash-during-close-leaves-partial-snapshot", fmt.Sprintf("shape %s, %d steps of Sink.Close completed: %s", s.name, k, tok), info)
			}
			os.RemoveAll(root)
		}
	}
}

// c10IncrementalInstall: the incremental-file path end to end on the real Sink: a local WAL
// directory (WAL files + sidecars), the header-only stream, Close; the WAL files must end up in
// the snapshot directory byte for byte, with sidecars and meta.json, and the source directory is
// consumed. Data after the header must be refused (already covered by the stream mutations).
func c10IncrementalInstall(t *testing.T, c *c10Ctx, shapes []*c10Shape) {
	for _, s := range shapes {
		if !s.real || len(s.wals) == 0 {
			continue
		}
		root, _ := os.MkdirTemp(c.root, "inc-store")
		walDir := filepath.Join(c.root, fmt.Sprintf("inc-wal-dir-%d", c10Seq))
		c10Seq++
		os.MkdirAll(walDir, 0o755)
		for i, w := range s.wals {
			p := filepath.Join(walDir, fmt.Sprintf("%020d.wal", i+1))
			os.WriteFile(p, w, 0o644)
			sidecar.WriteFile(p+crcSuffix, c10CRC(w))
		}
		hdr, _ := NewIncrementalFileSnapshotHeader(walDir)
		hb, _ := marshalSnapshotHeader(hdr)
		id := "2-88-1700000000088"
		sink := NewSink(root, &raft.SnapshotMeta{ID: id, Index: 88, Term: 2}, nil, nil)
		sink.fatalFn = nil
		sink.Open()
		info := map[string]interface{}{"shape": s.name, "wals": len(s.wals)}
		c.rep.Count("incremental-file-installs")
		c.rep.Case("inc|"+s.name, true)
		if _, err := sink.Write(c10Frame(hb)); err != nil {
			c.rep.Fail("incremental-install-fails", err.Error(), info)
			continue
		}
		if err := sink.Close(); err != nil {
			c.rep.Fail("incremental-install-fails", err.Error(), info)
			continue
		}
		ok := true
		for i, w := range s.wals {
			p := filepath.Join(root, id, fmt.Sprintf("%020d.wal", i+1))
			got, err := os.ReadFile(p)
			if err != nil || !bytes.Equal(got, w) {
				ok = false
			}
			if eq, err := sidecar.CompareFile(p, p+crcSuffix); err != nil || !eq {
				ok = false
			}
		}
		if _, err := os.Stat(metaPath(filepath.Join(root, id))); err != nil {
			ok = false
		}
		if _, err := os.Stat(walDir); err == nil {
			ok = false // the source directory must have been consumed
		}
		if _, err := os.Stat(tmpName(filepath.Join(root, id))); err == nil {
			ok = false
		}
		if !ok {
			c.rep.Fail("incremental-install-not-exact", fmt.Sprintf("shape %s: installed WAL files / sidecars / meta.json / consumed source do not match", s.name), info)
		}
		os.RemoveAll(root)
	}
}

/-
"Nothing else about the statement changes" (C14): the relation `allowed` between a statement
tree and its rewritten form, and the proof that `walk` satisfies it.
-/
import RqModel.Lemmas.Rewrite
namespace RqModel.Rewrite

def isJd (c : Cfg) : Node → Bool
  | .lit k v => k == "jd" && v == c.nowTok
  | _ => false

/-- argument positions holding the time value -/
def timePos : FnKind → Nat → Bool
  | .five, 0 => true
  | .strftime, 1 => true
  | .timediff, 0 => true
  | .timediff, 1 => true
  | _, _ => false

/-- position at which an absent time value is supplied -/
def implicitPos : FnKind → Nat → Bool
  | .five, 0 => true
  | .strftime, 1 => true
  | _, _ => false

/- `allowed c u inp out`: `out` is `inp` except that
  * a random() call outside ORDER BY may have become a `randnum` literal,
  * a randomblob(<signed number literal>) call outside ORDER BY may have become a `randblob` literal of
    exactly the number of bytes SQLite would have produced for that literal (`blobLenOfArgs`),
  * in a time-value position of a date/time-family call a `now` argument may have become the pinned
    literal, and the pinned literal may have been appended where the time value was absent;
everything else - names, operators, literals, identifiers, the number and order of children - is
identical. (`u` = inside an ORDER BY term.) -/
mutual
def allowed (c : Cfg) (u : Bool) : Node → Node → Bool
  | .call name args extra, out =>
    match out with
    | .lit k v =>
      !u && ((decide (classify name = .random) && k == "randnum") ||
        (decide (classify name = .randomblob) && k == "randblob" &&
          ((blobLenOfArgs args).map (fun n => toString n) == some v)))
    | .call name' args' extra' =>
      name == name' && allowedArgs c u (classify name) 0 args args' && allowedList c u extra extra'
    | _ => false
  | .lit k v, out => (match out with | .lit k' v' => k == k' && v == v' | _ => false)
  | .ident n, out => (match out with | .ident n' => n == n' | _ => false)
  | .ord k, out => (match out with | .ord k' => allowedList c true k k' | _ => false)
  | .ret k, out => (match out with | .ret k' => allowedList c u k k' | _ => false)
  | .other t k, out => (match out with | .other t' k' => t == t' && allowedList c u k k' | _ => false)
def allowedList (c : Cfg) (u : Bool) : Nodes → Nodes → Bool
  | .nil, out => (match out with | .nil => true | _ => false)
  | .cons a as, out => (match out with | .cons b bs => allowed c u a b && allowedList c u as bs | _ => false)
def allowedArgs (c : Cfg) (u : Bool) (k : FnKind) (i : Nat) : Nodes → Nodes → Bool
  | .nil, out => (match out with
      | .nil => true
      | .cons b .nil => isJd c b && implicitPos k i
      | _ => false)
  | .cons a as, out => (match out with
      | .cons b bs => ((timePos k i && isNow a && isJd c b) || allowed c u a b) && allowedArgs c u k (i + 1) as bs
      | _ => false)
end

theorem isJd_jd (c : Cfg) : isJd c (jdLit c) = true := by simp [isJd, jdLit]

theorem allowedList_nil_left (c : Cfg) (u : Bool) (out : Nodes) (h : allowedList c u .nil out = true) : out = .nil := by
  cases out <;> simp_all [allowedList]

theorem allowedArgs_of_list (c : Cfg) (u : Bool) (k : FnKind) :
    ∀ (as bs : Nodes) (i : Nat), allowedList c u as bs = true → allowedArgs c u k i as bs = true
  | .nil, bs, i, h => by
    have := allowedList_nil_left c u bs h
    subst this
    simp [allowedArgs]
  | .cons a as, bs, i, h => by
    cases bs with
    | nil => simp [allowedList] at h
    | cons b bs =>
      simp only [allowedList, Bool.and_eq_true] at h
      simp only [allowedArgs, Bool.and_eq_true, Bool.or_eq_true]
      exact ⟨Or.inr h.1, allowedArgs_of_list c u k as bs (i + 1) h.2⟩

theorem visitCall_replace_spec {c : Cfg} {st st1 : St} {name : String} {args : Nodes} {m : Node}
    (h : visitCall c st name args = .replace m st1) :
    st.ordered = 0 ∧
    ((classify name = .random ∧ ∃ v, m = .lit "randnum" v) ∨
     (classify name = .randomblob ∧ ∃ n, blobLenOfArgs args = some n ∧ m = .lit "randblob" (toString n))) := by
  unfold visitCall at h
  cases hk : classify name <;> simp only [hk] at h
  · split at h <;> cases h
  · split at h <;> cases h
  · split at h <;> cases h
  · split at h
    · rename_i hc
      cases h
      simp only [Bool.and_eq_true, beq_iff_eq] at hc
      exact ⟨hc.1, Or.inl ⟨rfl, _, rfl⟩⟩
    · cases h
  · split at h
    · rename_i hc
      simp only [Bool.and_eq_true, beq_iff_eq] at hc
      cases hb : blobLenOfArgs args with
      | none => simp [hb] at h
      | some n =>
        simp only [hb] at h
        cases h
        exact ⟨hc.1, Or.inr ⟨rfl, n, rfl, rfl⟩⟩
    · cases h
  · cases h

theorem visitCall_keep_tr {c : Cfg} {st st1 : St} {name : String} {args : Nodes} {tr : ArgTr}
    (h : visitCall c st name args = .keep tr st1) :
    tr = .none ∨ (tr = .five ∧ classify name = .five) ∨ (tr = .strftime ∧ classify name = .strftime) ∨
    (tr = .timediff ∧ classify name = .timediff) := by
  unfold visitCall at h
  cases hk : classify name <;> simp only [hk] at h
  all_goals (repeat' split at h)
  all_goals first | (cases h; simp) | cases h

theorem allowed_repl (c : Cfg) (u : Bool) (k : FnKind) (i : Nat) (x y : Node)
    (hp : timePos k i = true) (hn : isNow y = isNow x) (ha : allowed c u x y = true) :
    ((timePos k i && isNow x && isJd c (if isNow y then jdLit c else y)) ||
      allowed c u x (if isNow y then jdLit c else y)) = true := by
  by_cases h : isNow y = true
  · simp [h, hp, ← hn, isJd_jd]
  · simp [h, ha]

mutual
theorem walk_allowed (c : Cfg) :
    ∀ (n : Node) (st : St) (u : Bool), u = decide (st.ordered > 0) → allowed c u n (walk c st n).1 = true
  | .call name args extra, st, u, hu => by
    rw [walk]
    cases h : visitCall c st name args with
    | replace m st1 =>
      simp only
      obtain ⟨h0, hm⟩ := visitCall_replace_spec h
      have hu' : u = false := by rw [hu, h0]; rfl
      rcases hm with ⟨hk, v, hv⟩ | ⟨hk, n, hb, hv⟩
      · subst hv; simp [allowed, hu', hk]
      · subst hv; simp [allowed, hu', hk, hb]
    | keep tr st1 =>
      simp only
      have ho := (visitCall_keep_ordered h).1
      have hu1 : u = decide (st1.ordered > 0) := by rw [ho]; exact hu
      have hu2 : u = decide ((walkList c st1 args).2.ordered > 0) := by rw [walkList_ordered]; exact hu1
      have ha := walkList_allowed c args st1 u hu1
      have he := walkList_allowed c extra (walkList c st1 args).2 u hu2
      simp only [allowed, beq_self_eq_true, Bool.true_and, he, Bool.and_true]
      rcases visitCall_keep_tr h with ht | ⟨ht, hk⟩ | ⟨ht, hk⟩ | ⟨ht, hk⟩
      · subst ht
        simpa [applyTr] using allowedArgs_of_list c u _ _ _ 0 ha
      · subst ht
        rw [hk]
        cases args with
        | nil => simp [walkList_nil, applyTr, allowedArgs, isJd_jd, implicitPos]
        | cons x xs =>
          simp only [walkList_cons] at ha ⊢
          simp only [allowedList, Bool.and_eq_true] at ha
          simp only [applyTr, replNow0, allowedArgs, Bool.and_eq_true]
          exact ⟨allowed_repl c u .five 0 x _ rfl (isNow_walk c st1 x) ha.1,
            allowedArgs_of_list c u _ _ _ 1 ha.2⟩
      · subst ht
        rw [hk]
        cases args with
        | nil => simp [walkList_nil, applyTr, replNow1, allowedArgs]
        | cons f xs =>
          cases xs with
          | nil =>
            simp only [walkList_cons, walkList_nil] at ha ⊢
            simp only [allowedList, Bool.and_eq_true] at ha
            simp [applyTr, allowedArgs, ha.1, isJd_jd, implicitPos]
          | cons x xs =>
            simp only [walkList_cons] at ha ⊢
            simp only [allowedList, Bool.and_eq_true] at ha
            simp only [applyTr, replNow1, allowedArgs, Bool.and_eq_true]
            exact ⟨by simp [ha.1], allowed_repl c u .strftime 1 x _ rfl (isNow_walk c _ x) ha.2.1,
              allowedArgs_of_list c u _ _ _ 2 ha.2.2⟩
      · subst ht
        rw [hk]
        cases args with
        | nil => simp [walkList_nil, applyTr, replNow0, replNow1, allowedArgs]
        | cons x xs =>
          cases xs with
          | nil =>
            simp only [walkList_cons, walkList_nil] at ha ⊢
            simp only [allowedList, Bool.and_eq_true] at ha
            simp only [applyTr, replNow0, replNow1, allowedArgs, Bool.and_true]
            exact allowed_repl c u .timediff 0 x _ rfl (isNow_walk c st1 x) ha.1
          | cons y ys =>
            simp only [walkList_cons] at ha ⊢
            simp only [allowedList, Bool.and_eq_true] at ha
            simp only [applyTr, replNow0, replNow1, allowedArgs, Bool.and_eq_true]
            exact ⟨allowed_repl c u .timediff 0 x _ rfl (isNow_walk c st1 x) ha.1,
              allowed_repl c u .timediff 1 y _ rfl (isNow_walk c _ y) ha.2.1,
              allowedArgs_of_list c u _ _ _ 2 ha.2.2⟩
  | .lit _ _, st, u, _ => by simp [walk, allowed]
  | .ident _, st, u, _ => by simp [walk, allowed]
  | .ord kids, st, u, _ => by
    rw [walk]
    simp only [allowed]
    exact walkList_allowed c kids _ true (by simp)
  | .ret kids, st, u, hu => by
    rw [walk]
    simp only [allowed]
    exact walkList_allowed c kids _ u (by simpa using hu)
  | .other _ kids, st, u, hu => by
    rw [walk]
    simp only [allowed, beq_self_eq_true, Bool.true_and]
    exact walkList_allowed c kids _ u hu
theorem walkList_allowed (c : Cfg) :
    ∀ (ns : Nodes) (st : St) (u : Bool), u = decide (st.ordered > 0) →
      allowedList c u ns (walkList c st ns).1 = true
  | .nil, st, u, _ => by simp [walkList_nil, allowedList]
  | .cons n ns, st, u, hu => by
    rw [walkList_cons]
    simp only [allowedList, Bool.and_eq_true]
    exact ⟨walk_allowed c n st u hu, walkList_allowed c ns _ u (by rw [walk_ordered]; exact hu)⟩
end

end RqModel.Rewrite

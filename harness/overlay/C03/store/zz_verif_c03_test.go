package store

// C03: acknowledged writes survive crashes and restarts; a restarted node has exactly
// the state it had applied, on the fast path (fingerprint valid) and on the rebuild path.
//
// Two ways of crashing the REAL store, neither needing hooks inside /repo:
//  * crash images (TestVerifC03): at generated points — between operations and between
//    the steps raft performs for a snapshot (FSM.Snapshot → Persist → sink.Close →
//    fingerprint) — the whole data directory is copied (contents and mtimes, i.e. what a
//    kill -9 at that instant leaves on disk) and a new store is opened on the copy. Its
//    table must equal the acknowledged history; the Lean model `storesm` predicts the same
//    through `save / crash / open / dump / restore`.
//  * kill -9 of a child process (TestVerifC03Kill): the test binary re-executes itself as
//    a child that runs a seeded write/snapshot loop and journals every acknowledged
//    operation; the parent kills it at a generated time, reopens the directory in-process
//    and requires the table to be the result of a prefix of the operation sequence that
//    contains every acknowledged operation (one more, unacknowledged, may be included).

import (
	"bufio"
	"context"
	"fmt"
	"io"
	"os"
	"os/exec"
	"path/filepath"
	"sort"
	"strconv"
	"strings"
	"syscall"
	"testing"
	"time"

	"github.com/hashicorp/raft"
	"github.com/rqlite/rqlite/v10/command/proto"
	"github.com/rqlite/rqlite/v10/snapshot"
	"github.com/rqlite/rqlite/v10/snapshot/plan"
)

// c03Image copies the data directory, opens a store on the copy and checks its table.
func c03Image(e *ssmEnv, point string) { c03ImageWith(e, point, nil) }

// c03ImageWith lets prep change the copy before it is opened (to construct the disk state
// of a crash inside a background activity); prep returns false to skip the image.
func c03ImageWith(e *ssmEnv, point string, prep func(img string) bool) {
	img, err := os.MkdirTemp(ssmTempRoot(), "verif-c03img-")
	if err != nil {
		e.t.Fatal(err)
	}
	defer os.RemoveAll(img)
	ssmCopyDir(e.t, e.dir, img)
	if prep != nil && !prep(img) {
		return
	}
	e.emit("save", "ok")
	e.emit("crash", "ok")
	if prep != nil {
		e.emit("forcerestore", "ok") // prep removed the fingerprint: the snapshot store is what gets read
	}
	s2, ln2 := mustNewStoreAtPathsLn(e.id, img, e.fk)
	defer ln2.Close()
	s2.NoSnapshotOnClose = true
	s2.SnapshotThreshold = 1 << 40
	s2.SnapshotReapThreshold = 1 << 20
	s2.HeartbeatTimeout, s2.ElectionTimeout, s2.LeaderLeaseTimeout = 300*time.Millisecond, 300*time.Millisecond, 300*time.Millisecond
	if err := s2.Open(); err != nil {
		e.rep.Fail("crash-image-cannot-be-opened:"+point, fmt.Sprintf("history %v: %v", e.hist, err), map[string]interface{}{"history": e.hist, "point": point})
		e.emit("restore", "ok")
		e.broken = true
		return
	}
	defer s2.Close(true)
	if _, err := s2.WaitForLeader(60 * time.Second); err != nil {
		ssmAbandonNow(fmt.Sprintf("crash image never elected a leader: %v", err))
	}
	err = fmt.Errorf("no barrier attempted")
	for deadline := time.Now().Add(60 * time.Second); time.Now().Before(deadline); {
		if err = s2.Barrier(); err == nil {
			break
		}
		time.Sleep(50 * time.Millisecond)
	}
	if err != nil { // the log has not been re-applied yet: nothing to judge
		ssmAbandonNow(fmt.Sprintf("crash image: barrier: %v", err))
	}
	e.emit("open", "ok")
	got := ssmQueryDump(s2)
	e.emit("dump", got)
	path := "rebuild"
	if s2.numSnapshotsSkipped.Load() > 0 {
		path = "fast"
	}
	e.rep.Count("image@" + point + ":" + path + "-path")
	if w := e.want.String(); got != w {
		e.rep.Fail("restart-after-crash-differs:"+point+":"+path+"-path",
			fmt.Sprintf("history %v, crash at [%s], restart took the %s path: table is %q, acknowledged writes give %q", e.hist, point, path, got, w),
			map[string]interface{}{"history": e.hist, "point": point, "got": got, "want": w})
		e.broken = true
	}
	e.emit("restore", "ok")
}

// c03ReapCrash builds, in a copy of the data directory, the disk state of a crash at a
// chosen point of the snapshot store's reap plan, using only the real code: a reap is
// started on the copy and made to fail at its first operation (a directory sits where
// the checkpoint's WAL goes), which leaves the REAP_PLAN file behind exactly as a crash
// would; then the first `k` operations are executed by the real plan Executor; for
// inside=true the checkpoint operation is additionally left half done — every WAL but
// the last checkpointed, the last one renamed into place and not yet checkpointed.
func c03ReapCrash(e *ssmEnv, k int, inside bool) {
	point := fmt.Sprintf("reap-after-op-%d", k)
	if inside {
		point = "reap-inside-checkpoint-last-wal-renamed"
	}
	c03ImageWith(e, point, func(img string) bool {
		sdir := filepath.Join(img, snapshotsDirName)
		dbs, _ := filepath.Glob(filepath.Join(sdir, "*", "data.db"))
		if len(dbs) == 0 {
			return false
		}
		sort.Strings(dbs)
		full := dbs[len(dbs)-1]
		if err := os.Mkdir(full+"-wal", 0o755); err != nil {
			e.t.Fatal(err)
		}
		ss, err := snapshot.NewStore(sdir)
		if err != nil {
			e.t.Fatalf("image snapshot store: %v", err)
		}
		_, _, rerr := ss.Reap()
		ss.Close()
		os.Remove(full + "-wal")
		planPath := filepath.Join(sdir, "REAP_PLAN")
		if rerr == nil || !fileExists(planPath) {
			return false // nothing to reap (single snapshot)
		}
		p, err := plan.ReadFromFile(planPath)
		if err != nil {
			e.t.Fatalf("read reap plan: %v", err)
		}
		ex := plan.NewExecutor()
		if inside {
			if len(p.Ops) == 0 || p.Ops[0].Type != plan.OpCheckpoint || len(p.Ops[0].WALs) == 0 {
				return false
			}
			w := p.Ops[0].WALs
			if _, err := ex.Checkpoint(p.Ops[0].DB, w[:len(w)-1]); err != nil {
				e.t.Fatalf("partial checkpoint: %v", err)
			}
			if err := os.Rename(w[len(w)-1], p.Ops[0].DB+"-wal"); err != nil {
				e.t.Fatalf("rename last wal: %v", err)
			}
		} else {
			if k > len(p.Ops) {
				k = len(p.Ops)
			}
			sub := &plan.Plan{Ops: p.Ops[:k]}
			if err := sub.Execute(ex); err != nil {
				e.t.Fatalf("partial reap plan: %v", err)
			}
		}
		os.Remove(filepath.Join(img, cleanSnapshotName))
		e.hist = append(e.hist, point)
		return true
	})
}

func fileExists(p string) bool { _, err := os.Stat(p); return err == nil }

// c03ManualSnapshot performs the steps raft's takeSnapshot performs, with a crash image
// after each of them.
func c03ManualSnapshot(e *ssmEnv) {
	f := NewFSM(e.s)
	snap, err := f.Snapshot()
	if err != nil {
		if err == ErrNoWALToSnapshot {
			return
		}
		e.t.Fatalf("fsm snapshot: %v (history %v)", err, e.hist)
	}
	e.hist = append(e.hist, "snap-steps")
	e.emit("s-ckpt", "ok")
	c03Image(e, "after-checkpoint")
	cf := e.s.raft.GetConfiguration()
	if cf.Error() != nil {
		e.t.Fatal(cf.Error())
	}
	sink, err := e.s.snapshotStore.Create(raft.SnapshotVersionMax, e.s.fsmIdx.Load(), e.s.fsmTerm.Load(), cf.Configuration(), 1, nil)
	if err != nil {
		e.t.Fatalf("create sink: %v", err)
	}
	if err := snap.Persist(sink); err != nil {
		e.t.Fatalf("persist: %v", err)
	}
	e.emit("s-persist", "ok")
	if !e.broken {
		c03Image(e, "after-persist-before-install")
	}
	// when the sink runs the finalizer itself, hold it back so that the point between
	// the install and the fingerprint can be imaged too
	held := false
	if ac, ok := sink.(interface{ SetAfterClose(func() error) }); ok {
		ac.SetAfterClose(func() error { return nil })
		held = true
	}
	if err := sink.Close(); err != nil {
		e.t.Fatalf("sink close: %v", err)
	}
	e.emit("s-install", "ok")
	if held {
		if !e.broken {
			c03Image(e, "after-install-before-fingerprint")
		}
		if err := e.s.createSnapshotFingerprint(); err != nil {
			e.t.Fatalf("fingerprint: %v", err)
		}
	}
	e.emit("s-fp", "ok")
	if !e.broken {
		c03Image(e, "after-fingerprint")
	}
	snap.Release()
	e.rep.Count("op-manual-snapshot")
}

func c03History(t *testing.T, rep *vfReport, r *vfRng, nOps int) (ops, impl []string) {
	var e *ssmEnv
	defer ssmGuard(rep, &e, &ops, &impl)
	e = ssmNewEnv(t, rep, r, "C03", false)
	defer e.cleanup()
	images := 0
	// key 200 is a counter: every write before a snapshot increments it, so an entry
	// applied twice (or not at all) after a restart is always visible
	e.exec(false, []ssmStmt{{"p", 200, 0}})
	for i := 0; i < nOps && !e.broken; i++ {
		switch k := r.Intn(100); {
		case k < 45:
			e.exec(r.Chance(35), e.genStmts())
			if r.Chance(25) {
				c03Image(e, "between-operations")
				images++
			}
		case k < 53:
			e.load(e.genRows(), r.Bool())
			if r.Chance(50) {
				c03Image(e, "after-load")
				images++
			}
		case k < 63:
			e.exec(false, []ssmStmt{{"a", 200, 1}, {"p", 100, r.Intn(1000)}})
			if e.snapshot(r.Intn(3)) && r.Chance(50) {
				c03Image(e, "after-raft-snapshot")
				images++
			}
		case k < 85:
			e.exec(false, []ssmStmt{{"a", 200, 1}, {"p", 100, r.Intn(1000)}})
			c03ManualSnapshot(e)
			images += 4
			if !e.broken {
				c03ReapCrash(e, 0, true)
				images++
			}
			if !e.broken && r.Chance(60) {
				c03ReapCrash(e, r.Intn(7), false)
				images++
			}
		default:
			e.closeStore()
			if err := e.reopen(r.Chance(30)); err != nil {
				rep.Fail("reopen-failed", fmt.Sprintf("history %v: %v", e.hist, err), map[string]interface{}{"history": e.hist})
				e.broken = true
				break
			}
			e.dump("table-wrong-after-clean-restart")
		}
	}
	rep.Case(strings.Join(e.hist, " "), images > 0)
	rep.Sample(map[string]interface{}{"history": strings.Join(e.hist, " ")})
	return e.ops, e.impl
}

// c03BlockedCheckpoints is a directed history for "a restart that rebuilds from the snapshot
// store and log": the table spans several pages; two consecutive snapshots are each blocked
// from truncating the WAL by a read transaction parked at its end (the second reader starts
// before the first ends, so SQLite keeps appending to the same WAL); then an acknowledged write
// to the FIRST leaf page is followed only by writes to the LAST one, one more snapshot, and a
// restart forced to rebuild. Whatever the snapshot store holds of the WAL segments (C06's
// subject), the rebuilt table must be the acknowledged one.
func c03BlockedCheckpoints(t *testing.T, rep *vfReport, r *vfRng) (ops, impl []string) {
	var e *ssmEnv
	defer ssmGuard(rep, &e, &ops, &impl)
	e = ssmNewEnv(t, rep, r, "C03", false)
	defer e.cleanup()
	rows := ssmRef{}
	n := 600 + r.Intn(200)
	for k := 1; k <= n; k++ {
		rows[k] = 1<<40 + r.Intn(1<<30)
	}
	e.load(rows, true)
	e.snapshot(0) // the full snapshot
	walSize := func() int64 {
		st, err := os.Stat(e.s.walPath)
		if err != nil {
			return 0
		}
		return st.Size()
	}
	hi := func() []ssmStmt { return []ssmStmt{{"p", n - r.Intn(20), 1<<40 + r.Intn(1<<30)}} }
	for i := 0; i < 4+r.Intn(4); i++ {
		e.exec(false, hi())
	}
	e.park()
	e.snapshot(0)
	blocked := 0
	if walSize() > 0 {
		blocked++
	}
	for i := 0; i < 2+r.Intn(3); i++ {
		e.exec(false, hi())
	}
	e.park()
	e.unpark(1)
	e.snapshot(0)
	if walSize() > 0 {
		blocked++
	}
	// the acknowledged write to the first leaf page, then many to the last one only
	e.exec(false, []ssmStmt{{"p", 1 + r.Intn(20), 7}})
	for i := 0; i < 15+r.Intn(15); i++ {
		e.exec(false, hi())
	}
	e.unpark(-1)
	e.snapshot(0)
	e.dump("table-wrong-before-restart")
	rep.Count(fmt.Sprintf("directed-blocked-checkpoints:snapshots-with-wal-left=%d", blocked))
	if blocked < 2 {
		rep.Note("directed history: the parked readers did not keep the WAL from being truncated twice")
	}
	e.closeStore()
	if err := e.reopen(true); err != nil {
		rep.Fail("reopen-failed", fmt.Sprintf("history %v: %v", c03Short(e.hist), err), nil)
	} else if got, w := ssmQueryDump(e.s), e.want.String(); got != w {
		e.emit("dump", got)
		rep.Fail("rebuild-after-blocked-checkpoints-loses-acknowledged-write",
			fmt.Sprintf("history %v: after a restart that rebuilds from the snapshot store and log, %s", c03Short(e.hist), c03Diff(e.want, got)),
			map[string]interface{}{"history": c03Short(e.hist)})
	} else {
		e.emit("dump", got)
	}
	rep.Case("directed:blocked-checkpoints "+strings.Join(c03Short(e.hist), " "), true)
	return e.ops, e.impl
}

// c03Short abbreviates the long row lists of the directed history.
func c03Short(h []string) []string {
	out := make([]string, len(h))
	for i, s := range h {
		if len(s) > 60 {
			s = s[:60] + "…"
		}
		out[i] = s
	}
	return out
}

func c03Diff(want ssmRef, got string) string {
	var d []string
	have := map[string]bool{}
	for _, kv := range strings.Split(got, ";") {
		have[kv] = true
	}
	for k, v := range want {
		if kv := fmt.Sprintf("%d=%d", k, v); !have[kv] {
			d = append(d, "acknowledged "+kv+" is missing")
		}
	}
	sort.Strings(d)
	if len(d) > 5 {
		d = append(d[:5], fmt.Sprintf("… (%d rows differ)", len(d)))
	}
	return strings.Join(d, ", ")
}

// c03InstallCrash: the crash point "a snapshot received from the leader is installed in the
// snapshot store (sink closed), the process dies before FSM.Restore ran". What raft's
// installSnapshot does is done by hand on the real store: the stream goes into a sink of the
// snapshot store, the sink is closed; then the data directory is copied (the crash) and a store
// is opened on the copy by a PLAIN restart: it must hold the received database, not the old file
// under the new snapshot's index. Then FSM.Restore completes the install on the original.
func c03InstallCrash(t *testing.T, rep *vfReport, r *vfRng) (ops, impl []string) {
	var e *ssmEnv
	defer ssmGuard(rep, &e, &ops, &impl)
	e = ssmNewEnv(t, rep, r, "C03", false)
	defer e.cleanup()
	for i := 0; i < 1+r.Intn(3); i++ {
		e.exec(r.Chance(30), e.genStmts())
	}
	e.exec(false, []ssmStmt{{"p", 100, r.Intn(1000)}})
	if !e.snapshot(r.Intn(2)) { // the marker now vouches for the file as of THIS snapshot
		return e.ops, e.impl
	}
	for i := 0; i < 1+r.Intn(2); i++ { // the leader's snapshot is ahead of the local one
		e.exec(false, []ssmStmt{{"p", 100, r.Intn(1000)}, {"a", 1 + r.Intn(8), 1}})
	}
	rows := e.genRows()
	rows[777] = 1
	b := ssmMakeDB(e.t, e.dir, rows, false)
	p := filepath.Join(e.dir, "verif-leader-snapshot.db")
	if err := os.WriteFile(p, b, 0o644); err != nil {
		t.Fatal(err)
	}
	defer os.Remove(p)
	cf := e.s.raft.GetConfiguration()
	if err := cf.Error(); err != nil {
		e.opFailed("get configuration", err)
	}
	sink, err := e.s.snapshotStore.Create(1, e.s.raft.AppliedIndex(), e.s.raft.CurrentTerm(), cf.Configuration(), 1, nil)
	if err != nil {
		t.Fatalf("install: create sink: %v", err)
	}
	str, err := snapshot.NewSnapshotStreamer(p)
	if err != nil {
		t.Fatal(err)
	}
	if err := str.Open(); err != nil {
		t.Fatal(err)
	}
	if _, err := io.Copy(sink, str); err != nil {
		t.Fatalf("install: copy: %v", err)
	}
	str.Close()
	if err := sink.Close(); err != nil {
		t.Fatalf("install: close: %v", err)
	}
	os.Remove(p)
	e.hist = append(e.hist, fmt.Sprintf("snapshot-from-leader-installed-in-store(%s)", rows))
	e.emit("recv-snap "+rows.String(), "ok")
	e.want = rows.clone() // what the node stands for from now on
	rep.Count("op-install-sink-closed")
	c03Image(e, "install-sink-closed-before-fsm-restore")
	if e.broken {
		rep.Case("directed:install-crash "+strings.Join(e.hist, " "), true)
		return e.ops, e.impl
	}
	// the second half of the install, on the original
	_, rc, err := e.s.snapshotStore.Open(sink.ID())
	if err != nil {
		t.Fatalf("install: open: %v", err)
	}
	if err := NewFSM(e.s).Restore(rc); err != nil {
		t.Fatalf("install: restore: %v", err)
	}
	e.hist = append(e.hist, "fsm-restore")
	e.emit("recv-restore", "ok")
	e.dump("table-wrong-after-install")
	if !e.broken {
		c03Image(e, "after-install")
	}
	rep.Case("directed:install-crash "+strings.Join(e.hist, " "), true)
	return e.ops, e.impl
}

func TestVerifC03(t *testing.T) {
	rep := vfNewReport("C03", "crash images of real single-node stores: generated histories of write requests (incl. non-idempotent updates), loads, raft-driven snapshots with/without log truncation, step-by-step snapshots (checkpoint / persist / install / fingerprint) and clean restarts, plus one directed history over a multi-page table (two consecutive snapshots whose WAL truncation is blocked by parked read transactions, a write to the first leaf page followed only by writes to the last, snapshot, restart forced to rebuild) and directed histories of the crash point 'snapshot from the leader installed in the store, FSM.Restore not run' followed by a plain restart; at generated points the data directory is copied as a kill -9 would leave it and a new store is opened on the copy; non-trivial = at least one crash image; distinct by history text")
	defer rep.Write()
	r := ssmRng(3)
	n := vfScale(3, 40)
	var allOps, allImpl [][]string
	for h := 0; h < n; h++ {
		ops, impl := c03History(t, rep, r, vfScale(7, 16))
		allOps = append(allOps, ops)
		allImpl = append(allImpl, impl)
	}
	dops, dimpl := c03BlockedCheckpoints(t, rep, r)
	allOps = append(allOps, dops)
	allImpl = append(allImpl, dimpl)
	for i := 0; i < vfScale(1, 8); i++ {
		iops, iimpl := c03InstallCrash(t, rep, r)
		allOps = append(allOps, iops)
		allImpl = append(allImpl, iimpl)
	}
	ssmFloor(rep)
	rep.vfCompareSegments("storesm", allOps, allImpl)
}

// ---- kill -9 of a child process ------------------------------------------------

// c03Op is the i-th operation of the seeded child workload.
func c03Op(seed uint64, i int) (tx bool, ss []ssmStmt, snapAfter int) {
	r := &vfRng{s: seed*0x9E3779B97F4A7C15 + uint64(i)*0xD1B54A32D192ED03 + 7}
	n := 1 + r.Intn(3)
	for j := 0; j < n; j++ {
		k := 1 + r.Intn(6)
		switch x := r.Intn(100); {
		case x < 30:
			ss = append(ss, ssmStmt{"p", k, r.Intn(1000)})
		case x < 50:
			ss = append(ss, ssmStmt{"i", k, r.Intn(1000)})
		case x < 60:
			ss = append(ss, ssmStmt{"d", k, 0})
		default:
			ss = append(ss, ssmStmt{"a", k, 1 + r.Intn(5)})
		}
	}
	snapAfter = -1
	if r.Chance(30) {
		snapAfter = r.Intn(3)
	}
	return r.Chance(30), ss, snapAfter
}

func TestVerifC03Child(t *testing.T) {
	dir := os.Getenv("VERIF_C03_CHILD_DIR")
	if dir == "" {
		t.Skip("child process body of TestVerifC03Kill")
	}
	seed, _ := strconv.ParseUint(os.Getenv("VERIF_C03_CHILD_SEED"), 10, 64)
	from, _ := strconv.Atoi(os.Getenv("VERIF_C03_CHILD_FROM"))
	id := os.Getenv("VERIF_C03_CHILD_ID")
	s, ln := mustNewStoreAtPathsLn(id, dir, false)
	defer ln.Close()
	s.NoSnapshotOnClose = true
	s.SnapshotThreshold = 1 << 40
	s.SnapshotReapThreshold = 1 << 20
	s.HeartbeatTimeout, s.ElectionTimeout, s.LeaderLeaseTimeout = 300*time.Millisecond, 300*time.Millisecond, 300*time.Millisecond
	if err := s.Open(); err != nil {
		t.Fatalf("child open: %v", err)
	}
	if from == 0 {
		if err := s.Bootstrap(NewServer(s.ID(), s.Addr(), true)); err != nil {
			t.Fatal(err)
		}
	}
	if _, err := s.WaitForLeader(120 * time.Second); err != nil {
		os.Exit(0) // loaded machine: the parent sees "never ready" and abandons the round
	}
	for deadline := time.Now().Add(60 * time.Second); time.Now().Before(deadline); {
		if err := s.Barrier(); err == nil {
			break
		}
		time.Sleep(50 * time.Millisecond)
	}
	if from == 0 {
		if err := ssmRetry(s, func() error {
			_, _, err := s.Execute(context.Background(), executeRequestFromStrings([]string{ssmCreate}, false, false))
			return err
		}); err != nil {
			os.Exit(0)
		}
	}
	j, err := os.OpenFile(filepath.Join(dir, "verif-ack-journal"), os.O_CREATE|os.O_WRONLY|os.O_APPEND, 0o644)
	if err != nil {
		t.Fatal(err)
	}
	fmt.Fprintf(j, "ready %d\n", from)
	j.Sync()
	for i := from; ; i++ {
		tx, ss, snapAfter := c03Op(seed, i)
		var qs []string
		for _, st := range ss {
			qs = append(qs, st.sql())
		}
		if err := ssmRetry(s, func() error {
			_, _, err := s.Execute(context.Background(), executeRequestFromStrings(qs, false, tx))
			return err
		}); err != nil {
			if ssmLoadRelated(err) {
				os.Exit(0) // outcome unknown, not acknowledged: for the parent this is where the process died
			}
			t.Fatalf("child execute: %v", err)
		}
		fmt.Fprintf(j, "ack %d\n", i)
		j.Sync()
		if snapAfter >= 0 {
			s.Snapshot(uint64(snapAfter)) // errors (nothing new, …) do not matter
			fmt.Fprintf(j, "snap %d\n", i)
			j.Sync()
		}
	}
}

func c03ReadJournal(dir string) (ready bool, acked int, snaps int) {
	acked = -1
	f, err := os.Open(filepath.Join(dir, "verif-ack-journal"))
	if err != nil {
		return
	}
	defer f.Close()
	sc := bufio.NewScanner(f)
	for sc.Scan() {
		fs := strings.Fields(sc.Text())
		if len(fs) != 2 {
			continue
		}
		n, _ := strconv.Atoi(fs[1])
		switch fs[0] {
		case "ready":
			ready = true
		case "ack":
			acked = n
		case "snap":
			snaps++
		}
	}
	return
}

func TestVerifC03Kill(t *testing.T) {
	rep := vfNewReport("C03", "kill -9 of a child rqlite store process running a seeded loop of write requests (plain/transaction, incl. non-idempotent updates) with snapshots after ~30% of them, killed 100-2500 ms after it reported ready, then reopened in-process; two kill/reopen rounds per directory; non-trivial = at least one acknowledged write before the kill; distinct by (seed, kill delay, acknowledged count)")
	defer rep.Write()
	r := ssmRng(303)
	n := vfScale(2, 25)
	var allOps, allImpl [][]string
	for h := 0; h < n; h++ {
		dir, err := os.MkdirTemp(ssmTempRoot(), "verif-c03kill-")
		if err != nil {
			t.Fatal(err)
		}
		seed := r.U64() % 1000000
		id := fmt.Sprintf("k%d", seed)
		applied := 0 // operations known to be in the table
		for round := 0; round < 2; round++ {
			cmd := exec.Command(os.Args[0], "-test.run=^TestVerifC03Child$", "-test.timeout=10m")
			cmd.Env = append(os.Environ(), "VERIF_C03_CHILD_DIR="+dir, fmt.Sprintf("VERIF_C03_CHILD_SEED=%d", seed),
				fmt.Sprintf("VERIF_C03_CHILD_FROM=%d", applied), "VERIF_C03_CHILD_ID="+id, "VERIF_OUT=/dev/null")
			if err := cmd.Start(); err != nil {
				t.Fatal(err)
			}
			os.Remove(filepath.Join(dir, "verif-ack-journal"))
			deadline := time.Now().Add(180 * time.Second)
			neverReady := false
			for {
				if ready, _, _ := c03ReadJournal(dir); ready {
					break
				}
				if time.Now().After(deadline) {
					neverReady = true
					break
				}
				time.Sleep(20 * time.Millisecond)
			}
			ssmCasesStarted++
			if neverReady {
				cmd.Process.Kill()
				cmd.Wait()
				ssmCasesAbandoned++
				rep.Count("case-abandoned:machine-load")
				rep.Note("kill -9 round abandoned (machine load, not judged): the child did not become ready within 180 s")
				break
			}
			delay := time.Duration(100+r.Intn(2400)) * time.Millisecond
			time.Sleep(delay)
			cmd.Process.Signal(syscall.SIGKILL)
			cmd.Wait()
			_, acked, snaps := c03ReadJournal(dir)
			ackedCount := applied
			if acked >= 0 {
				ackedCount = acked + 1
			}
			rep.CountN("acknowledged-writes-before-kill", ackedCount-applied)
			rep.CountN("snapshots-before-kill", snaps)
			// reopen in-process
			s, ln := mustNewStoreAtPathsLn(id, dir, false)
			s.NoSnapshotOnClose = true
			s.SnapshotThreshold = 1 << 40
	s.SnapshotReapThreshold = 1 << 20
			s.HeartbeatTimeout, s.ElectionTimeout, s.LeaderLeaseTimeout = 300*time.Millisecond, 300*time.Millisecond, 300*time.Millisecond
			hist := fmt.Sprintf("seed=%d round=%d from=%d kill-after=%s acked=%d snapshots=%d", seed, round, applied, delay, ackedCount, snaps)
			if err := s.Open(); err != nil {
				rep.Fail("store-cannot-reopen-after-kill9", hist+": "+err.Error(), map[string]interface{}{"history": hist})
				ln.Close()
				break
			}
			_, lerr := s.WaitForLeader(60 * time.Second)
			if lerr == nil {
				lerr = fmt.Errorf("no barrier attempted")
				for deadline := time.Now().Add(60 * time.Second); time.Now().Before(deadline); {
					if lerr = s.Barrier(); lerr == nil {
						break
					}
					time.Sleep(50 * time.Millisecond)
				}
			}
			if lerr != nil { // the log has not been re-applied: nothing to judge
				ssmCasesAbandoned++
				rep.Count("case-abandoned:machine-load")
				rep.Note("kill -9 round abandoned (machine load, not judged): reopened store not ready within 60 s: %v", lerr)
				s.Close(true)
				ln.Close()
				break
			}
			got := ssmQueryDump(s)
			path := "rebuild"
			if s.numSnapshotsSkipped.Load() > 0 {
				path = "fast"
			}
			rep.Count("reopen-" + path + "-path")
			s.Close(true)
			ln.Close()
			// reference: prefix with exactly the acknowledged operations, or one more
			ref := ssmRef{}
			ops := []string{"reset"}
			impl := []string{"ok"}
			match := -1
			for i := 0; i <= ackedCount; i++ {
				if i >= ackedCount-0 && ref.String() == got && i >= ackedCount {
					match = i
					break
				}
				tx, ss, _ := c03Op(seed, i)
				ref = ref.exec(tx, ss)
				txs := "0"
				if tx {
					txs = "1"
				}
				ops = append(ops, fmt.Sprintf("exec %s %s", txs, ssmToks(ss)))
				impl = append(impl, "ok")
				if i+1 >= ackedCount && ref.String() == got {
					match = i + 1
					break
				}
			}
			rep.Case(hist, ackedCount > 0)
			if match < 0 {
				// what does the table correspond to, if anything?
				ref2 := ssmRef{}
				note := "no prefix of the workload produces it"
				for i := 0; i < ackedCount+2; i++ {
					if ref2.String() == got {
						note = fmt.Sprintf("it is the state after only %d operations", i)
						break
					}
					tx, ss, _ := c03Op(seed, i)
					ref2 = ref2.exec(tx, ss)
				}
				rep.Fail("restart-after-kill9-differs:"+path+"-path", fmt.Sprintf("%s: table %q is not the result of the %d acknowledged operations (nor one more); %s", hist, got, ackedCount, note),
					map[string]interface{}{"history": hist, "got": got})
				break
			}
			ops = append(ops, "crash", "open", "dump")
			impl = append(impl, "ok", "ok", got)
			allOps = append(allOps, ops)
			allImpl = append(allImpl, impl)
			applied = match
		}
		os.RemoveAll(dir)
	}
	ssmFloor(rep)
	rep.vfCompareSegments("storesm", allOps, allImpl)
	_ = proto.ConsistencyLevel_NONE
}

package main

// CdcPipe (C25): syntactic facts about cdc/service.go the pipeline model relies on.
//
//   syncDrainsHandoff   writeToBatcher: the `case ch := <-s.snapshotCh` clause contains, before
//                       the flush marker is written, a select with a receive from s.in and a
//                       default clause (the hand-off channel is drained before the flush)
//   leaderKeepsUnsent   leaderLoop: the event taken from s.fifo.C is stored in s.unsent and the
//                       retry loop's stop branch returns without clearing it
//   flateDecompressStmts  internal/rarchive/flate.Decompress: its statements, verbatim (the model
//                       assumes Decompress inverts Compress for inputs of ANY size: no limit
//                       reader, no size error)
//   flateCompressStmts  the same for Compress
//   leaderDecodeFailure what the leader loop does when flate.Decompress fails (the model's DROP)

import (
	"go/ast"
	"strings"
)

func init() {
	register("CdcPipe", func(x *X) {
		x.Comment("cdc/service.go (*Service).writeToBatcher: the snapshot-sync case drains s.in first")
		if fd := x.Func("cdc", "Service", "writeToBatcher"); fd != nil {
			found, seen := false, false
			ast.Inspect(fd.Body, func(n ast.Node) bool {
				cc, ok := n.(*ast.CommClause)
				if !ok || cc.Comm == nil || !strings.Contains(x.Src(cc.Comm), "<-s.snapshotCh") {
					return true
				}
				seen = true
				// position of the flush marker write
				var flushPos = cc.End()
				for _, c := range x.Calls(cc, "WriteOne") {
					if c.Pos() < flushPos {
						flushPos = c.Pos()
					}
				}
				ast.Inspect(cc, func(m ast.Node) bool {
					sel, ok := m.(*ast.SelectStmt)
					if !ok || sel.Pos() > flushPos {
						return true
					}
					recv, def := false, false
					for _, st := range sel.Body.List {
						c := st.(*ast.CommClause)
						if c.Comm == nil {
							def = true
						} else if strings.Contains(x.Src(c.Comm), "<-s.in") {
							recv = true
						}
					}
					if recv && def {
						found = true
					}
					return true
				})
				return true
			})
			x.DefOptBool("syncDrainsHandoff", found, seen)
		} else {
			x.DefOptBool("syncDrainsHandoff", false, false)
		}

		x.Comment("cdc/service.go (*Service).leaderLoop: the event read from the FIFO is kept in s.unsent across a stop")
		if fd := x.Func("cdc", "Service", "leaderLoop"); fd != nil {
			src := x.Src(fd.Body)
			keeps := strings.Contains(src, "s.unsent = ev") && strings.Contains(src, "ev := s.unsent")
			x.DefOptBool("leaderKeepsUnsent", keeps, true)
			// the statements executed when Decompress fails
			var onFail []string
			ast.Inspect(fd.Body, func(n ast.Node) bool {
				bl, ok := n.(*ast.BlockStmt)
				if !ok {
					return true
				}
				for i, st := range bl.List {
					as, ok := st.(*ast.AssignStmt)
					if !ok || !strings.Contains(x.Src(as), "flate.Decompress(ev.Data)") || i+1 >= len(bl.List) {
						continue
					}
					if is, ok := bl.List[i+1].(*ast.IfStmt); ok && x.Src(is.Cond) == "err != nil" {
						for _, b := range is.Body.List {
							t := x.Src(b)
							if strings.HasPrefix(t, "s.logger.") || strings.HasPrefix(t, "stats.") {
								continue
							}
							onFail = append(onFail, t)
						}
					}
				}
				return true
			})
			x.DefStrings("leaderDecodeFailure", onFail)
		} else {
			x.DefOptBool("leaderKeepsUnsent", false, false)
			x.DefStrings("leaderDecodeFailure", nil)
		}

		x.Comment("cdc/service.go leaderLoop: every condition tested inside the retry loop around s.sink.Write (what can end the retrying)")
		var conds []string
		if fd := x.Func("cdc", "Service", "leaderLoop"); fd != nil {
			ast.Inspect(fd.Body, func(n ast.Node) bool {
				fs, ok := n.(*ast.ForStmt)
				if !ok || !strings.Contains(x.Src(fs.Body), "s.sink.Write(") {
					return true
				}
				inner := false
				ast.Inspect(fs.Body, func(m ast.Node) bool {
					if f2, ok := m.(*ast.ForStmt); ok && strings.Contains(x.Src(f2.Body), "s.sink.Write(") {
						inner = true
					}
					return true
				})
				if inner {
					return true // the outer loop: look inside
				}
				ast.Inspect(fs.Body, func(m ast.Node) bool {
					switch t := m.(type) {
					case *ast.IfStmt:
						conds = append(conds, "if "+x.Src(t.Cond))
					case *ast.CommClause:
						if t.Comm != nil {
							conds = append(conds, "case "+x.Src(t.Comm))
						}
					case *ast.SwitchStmt, *ast.TypeSwitchStmt:
						conds = append(conds, "switch")
					}
					return true
				})
				return false
			})
		}
		x.DefStrings("leaderRetryLoopConds", conds)
		x.Comment("cdc/sink.go (*HTTPSink).Write: every condition it tests")
		var sconds []string
		if fd := x.Func("cdc", "HTTPSink", "Write"); fd != nil {
			ast.Inspect(fd.Body, func(m ast.Node) bool {
				switch t := m.(type) {
				case *ast.IfStmt:
					sconds = append(sconds, "if "+x.Src(t.Cond))
				case *ast.SwitchStmt, *ast.TypeSwitchStmt:
					sconds = append(sconds, "switch")
				}
				return true
			})
		}
		x.DefStrings("httpSinkWriteConds", sconds)

		x.Comment("internal/rarchive/flate: Compress / Decompress, statement by statement")
		for _, fn := range []struct{ name, def string }{{"Compress", "flateCompressStmts"}, {"Decompress", "flateDecompressStmts"}} {
			var stmts []string
			if fd := x.Func("internal/rarchive/flate", "", fn.name); fd != nil && fd.Body != nil {
				for _, st := range fd.Body.List {
					stmts = append(stmts, x.Src(st))
				}
			}
			x.DefStrings(fn.def, stmts)
		}
		x.Comment("cdc/service.go: the import path behind the identifier `flate`")
		imp := ""
		for name, f := range x.Pkg("cdc") {
			if !strings.HasSuffix(name, "service.go") {
				continue
			}
			for _, is := range f.Imports {
				if strings.HasSuffix(is.Path.Value, "/flate\"") {
					imp = strings.Trim(is.Path.Value, "\"")
				}
			}
		}
		x.DefString("cdcFlateImport", imp)
	})
}

/-
Helper lemmas about the membership model (Model/Membership.lean).
-/
import RqModel.Model.Membership
namespace RqModel.Membership

def ids (c : Config) : List String := c.map (·.id)
def addrs (c : Config) : List String := c.map (·.addr)

/-- no two entries share an id or an address -/
def Unique (c : Config) : Prop := (ids c).Nodup ∧ (addrs c).Nodup

/-- what raft's `checkConfiguration` establishes -/
structure WellFormed (c : Config) : Prop where
  unique : Unique c
  nonempty_fields : ∀ s ∈ c, s.id ≠ "" ∧ s.addr ≠ ""
  has_voter : ∃ s ∈ c, s.suf = .voter

/-! ### checkConfiguration is sound for `WellFormed` -/

theorem checkLoop_sound (c : Config) (is as : List String) (v : Nat)
    (h : checkLoop c is as v = true) :
    (ids c).Nodup ∧ (addrs c).Nodup ∧ (∀ s ∈ c, s.id ∉ is ∧ s.addr ∉ as ∧ s.id ≠ "" ∧ s.addr ≠ "") ∧
    (v = 0 → ∃ s ∈ c, s.suf = .voter) := by
  induction c generalizing is as v with
  | nil =>
    simp only [checkLoop, bne_iff_ne, ne_eq] at h
    simp [ids, addrs]; exact h
  | cons s rest ih =>
    unfold checkLoop at h
    split at h
    · exact absurd h (by simp)
    rename_i h1
    split at h
    · exact absurd h (by simp)
    rename_i h2
    split at h
    · exact absurd h (by simp)
    rename_i h3
    split at h
    · exact absurd h (by simp)
    rename_i h4
    obtain ⟨i1, i2, i3, i4⟩ := ih _ _ _ h
    have h3' : s.id ∉ is := by simpa using h3
    have h4' : s.addr ∉ as := by simpa using h4
    refine ⟨?_, ?_, ?_, ?_⟩
    · simp only [ids, List.map_cons, List.nodup_cons]
      refine ⟨?_, i1⟩
      intro hm
      obtain ⟨t, ht, hte⟩ := List.mem_map.1 hm
      have := (i3 t ht).1
      apply this; rw [hte]; simp
    · simp only [addrs, List.map_cons, List.nodup_cons]
      refine ⟨?_, i2⟩
      intro hm
      obtain ⟨t, ht, hte⟩ := List.mem_map.1 hm
      have := (i3 t ht).2.1
      apply this; rw [hte]; simp
    · intro t ht
      rcases List.mem_cons.1 ht with rfl | ht
      · exact ⟨h3', h4', h1, h2⟩
      · obtain ⟨a, b, c', d⟩ := i3 t ht
        refine ⟨?_, ?_, c', d⟩
        · intro hm; apply a; simp [hm]
        · intro hm; apply b; simp [hm]
    · intro hv
      by_cases hs : s.suf = .voter
      · exact ⟨s, by simp, hs⟩
      · simp only [hs, if_false] at i4
        obtain ⟨t, ht, htv⟩ := i4 hv
        exact ⟨t, by simp [ht], htv⟩

theorem check_sound (c : Config) (h : checkConfiguration c = true) : WellFormed c := by
  obtain ⟨a, b, c', d⟩ := checkLoop_sound c [] [] 0 h
  exact ⟨⟨a, b⟩, fun s hs => ⟨(c' s hs).2.2.1, (c' s hs).2.2.2⟩, d rfl⟩

/-! ### checkConfiguration is complete for `WellFormed` -/

theorem checkLoop_complete (c : Config) (is as : List String) (v : Nat)
    (h1 : (ids c).Nodup) (h2 : (addrs c).Nodup)
    (h3 : ∀ s ∈ c, s.id ∉ is ∧ s.addr ∉ as ∧ s.id ≠ "" ∧ s.addr ≠ "")
    (h4 : v ≠ 0 ∨ ∃ s ∈ c, s.suf = .voter) :
    checkLoop c is as v = true := by
  induction c generalizing is as v with
  | nil =>
    rcases h4 with h | ⟨s, hs, _⟩
    · simp [checkLoop, h]
    · simp at hs
  | cons s rest ih =>
    obtain ⟨a, b, c', d⟩ := h3 s (by simp)
    unfold checkLoop
    have a' : is.contains s.id = false := by simpa using a
    have b' : as.contains s.addr = false := by simpa using b
    simp only [c', d, a', b', if_false, Bool.false_eq_true]
    simp only [ids, List.map_cons, List.nodup_cons] at h1
    simp only [addrs, List.map_cons, List.nodup_cons] at h2
    apply ih _ _ _ h1.2 h2.2
    · intro t ht
      obtain ⟨x, y, z, w⟩ := h3 t (by simp [ht])
      refine ⟨?_, ?_, z, w⟩
      · intro hm
        rcases List.mem_cons.1 hm with he | hm
        · apply h1.1; rw [← he]; exact List.mem_map.2 ⟨t, ht, rfl⟩
        · exact x hm
      · intro hm
        rcases List.mem_cons.1 hm with he | hm
        · apply h2.1; rw [← he]; exact List.mem_map.2 ⟨t, ht, rfl⟩
        · exact y hm
    · by_cases hs : s.suf = .voter
      · left; simp [hs]
      · rcases h4 with h | ⟨t, ht, htv⟩
        · left; simp [hs, h]
        · rcases List.mem_cons.1 ht with rfl | ht
          · exact absurd htv hs
          · right; exact ⟨t, ht, htv⟩

theorem check_complete (c : Config) (h : WellFormed c) : checkConfiguration c = true :=
  checkLoop_complete c [] [] 0 h.unique.1 h.unique.2
    (fun s hs => ⟨by simp, by simp, (h.nonempty_fields s hs).1, (h.nonempty_fields s hs).2⟩)
    (Or.inr h.has_voter)

/-! ### removeGo -/

theorem removeGo_sublist (id : String) (c : Config) : (removeGo id c).Sublist c := by
  induction c with
  | nil => simp [removeGo]
  | cons s rest ih =>
    unfold removeGo
    by_cases h : s.id = id
    · simp [h]
    · simp only [h, if_false]; exact ih.cons_cons s

theorem removeGo_mem_of_ne (id : String) (c : Config) (s : Server) (hs : s ∈ c) (hne : s.id ≠ id) :
    s ∈ removeGo id c := by
  induction c with
  | nil => simp at hs
  | cons t rest ih =>
    unfold removeGo
    by_cases h : t.id = id
    · simp only [h, if_true]
      rcases List.mem_cons.1 hs with rfl | hs
      · exact absurd h hne
      · exact hs
    · simp only [h, if_false]
      rcases List.mem_cons.1 hs with rfl | hs
      · simp
      · simp [ih hs]

theorem removeGo_not_mem (id : String) (c : Config) (h : (ids c).Nodup) : id ∉ ids (removeGo id c) := by
  induction c with
  | nil => simp [removeGo, ids]
  | cons t rest ih =>
    simp only [ids, List.map_cons, List.nodup_cons] at h
    unfold removeGo
    by_cases ht : t.id = id
    · simp only [ht, if_true]; rw [← ht]; exact h.1
    · simp only [ht, if_false, ids, List.map_cons, List.mem_cons, not_or]
      exact ⟨fun e => ht e.symm, ih h.2⟩

theorem ids_sublist {c c' : Config} (h : c'.Sublist c) : (ids c').Sublist (ids c) := h.map _
theorem addrs_sublist {c c' : Config} (h : c'.Sublist c) : (addrs c').Sublist (addrs c) := h.map _

theorem unique_sublist {c c' : Config} (h : c'.Sublist c) (hu : Unique c) : Unique c' :=
  ⟨(ids_sublist h).nodup hu.1, (addrs_sublist h).nodup hu.2⟩

theorem removeGo_ids_not_mem_of_not_mem (id x : String) (c : Config) (h : x ∉ ids c) : x ∉ ids (removeGo id c) :=
  fun hm => h ((ids_sublist (removeGo_sublist id c)).subset hm)

/-! ### nextConfiguration -/

theorem next_some (c : Config) (ch : Change) (c' : Config) (h : nextConfiguration c ch = some c') :
    c' = applyChange c ch ∧ checkConfiguration c' = true := by
  unfold nextConfiguration at h
  simp only at h
  split at h
  · rename_i hc
    cases h
    exact ⟨rfl, hc⟩
  · cases h

/-- "the configuration did not change, or it passed checkConfiguration" -/
def Good (c c' : Config) : Prop := c' = c ∨ checkConfiguration c' = true

theorem Good.refl (c : Config) : Good c c := Or.inl rfl

theorem Good.trans {a b c : Config} (h1 : Good a b) (h2 : Good b c) : Good a c := by
  rcases h2 with rfl | h
  · exact h1
  · exact Or.inr h

/-! ### the Join loop -/

theorem joinLoop_good (id addr : String) (v : Bool) (snap cur : Config) :
    (∀ r o, joinLoop id addr v snap cur = .inl (r, o) → Good cur r) ∧
    (∀ r, joinLoop id addr v snap cur = .inr r → Good cur r) := by
  induction snap generalizing cur with
  | nil => constructor <;> intro r <;> simp [joinLoop] <;> intros <;> simp_all [Good]
  | cons srv rest ih =>
    unfold joinLoop
    by_cases hm : srv.id = id ∨ srv.addr = addr
    · simp only [hm, if_true]
      by_cases hi : srv.addr = addr ∧ srv.id = id ∧ decide (srv.suf = .voter) = v
      · simp only [hi, and_self, if_true]
        constructor
        · intro r o h; cases h; exact Good.refl _
        · intro r h; cases h
      · simp only [hi, if_false]
        cases hn : nextConfiguration cur (.removeServer id) with
        | none =>
          constructor
          · intro r o h; cases h; exact Good.refl _
          · intro r h; cases h
        | some c' =>
          have hg : Good cur c' := Or.inr (next_some _ _ _ hn).2
          constructor
          · intro r o h; exact hg.trans ((ih c').1 r o h)
          · intro r h; exact hg.trans ((ih c').2 r h)
    · simp only [hm, if_false]
      exact ih cur

/-- if the loop runs to completion, the joining id is no longer in the configuration -/
theorem joinLoop_inr_id_absent (id addr : String) (v : Bool) (snap cur r : Config)
    (h : joinLoop id addr v snap cur = .inr r)
    (hn : (ids cur).Nodup) (hcov : id ∈ ids cur → ∃ srv ∈ snap, srv.id = id) :
    id ∉ ids r := by
  induction snap generalizing cur with
  | nil =>
    simp only [joinLoop] at h
    cases h
    intro hm
    obtain ⟨_, hs, _⟩ := hcov hm
    simp at hs
  | cons srv rest ih =>
    unfold joinLoop at h
    by_cases hm : srv.id = id ∨ srv.addr = addr
    · simp only [hm, if_true] at h
      by_cases hi : srv.addr = addr ∧ srv.id = id ∧ decide (srv.suf = .voter) = v
      · simp only [hi, and_self, if_true] at h; cases h
      · simp only [hi, if_false] at h
        cases hnx : nextConfiguration cur (.removeServer id) with
        | none => simp [hnx] at h
        | some c' =>
          simp only [hnx] at h
          have hc' : c' = removeGo id cur := (next_some _ _ _ hnx).1
          have hab : id ∉ ids c' := by rw [hc']; exact removeGo_not_mem id cur hn
          have hn' : (ids c').Nodup := by
            rw [hc']; exact (ids_sublist (removeGo_sublist id cur)).nodup hn
          exact ih c' h hn' (fun hmem => absurd hmem hab)
    · simp only [hm, if_false] at h
      apply ih cur h hn
      intro hmem
      obtain ⟨s, hs, hse⟩ := hcov hmem
      rcases List.mem_cons.1 hs with rfl | hs
      · exact absurd (Or.inl hse) hm
      · exact ⟨s, hs, hse⟩

/-- the loop reports `ignored` only for the very same node with the requested suffrage -/
theorem joinLoop_ignored (id addr : String) (v : Bool) (snap cur r : Config)
    (h : joinLoop id addr v snap cur = .inl (r, .ignored)) :
    ∃ srv ∈ snap, srv.id = id ∧ srv.addr = addr ∧ decide (srv.suf = .voter) = v := by
  induction snap generalizing cur with
  | nil => simp [joinLoop] at h
  | cons srv rest ih =>
    unfold joinLoop at h
    by_cases hm : srv.id = id ∨ srv.addr = addr
    · simp only [hm, if_true] at h
      by_cases hi : srv.addr = addr ∧ srv.id = id ∧ decide (srv.suf = .voter) = v
      · exact ⟨srv, by simp, hi.2.1, hi.1, hi.2.2⟩
      · simp only [hi, if_false] at h
        cases hnx : nextConfiguration cur (.removeServer id) with
        | none => simp [hnx] at h
        | some c' =>
          simp only [hnx] at h
          obtain ⟨s, hs, hp⟩ := ih c' h
          exact ⟨s, by simp [hs], hp⟩
    · simp only [hm, if_false] at h
      obtain ⟨s, hs, hp⟩ := ih cur h
      exact ⟨s, by simp [hs], hp⟩

/-- servers that match neither the id nor the address do not affect the loop -/
theorem joinLoop_skip_prefix (id addr : String) (v : Bool) (pre rest cur : Config)
    (h : ∀ s ∈ pre, ¬ (s.id = id ∨ s.addr = addr)) :
    joinLoop id addr v (pre ++ rest) cur = joinLoop id addr v rest cur := by
  induction pre with
  | nil => rfl
  | cons s pre ih =>
    have hs := h s (by simp)
    simp only [List.cons_append, joinLoop, hs, if_false]
    exact ih (fun t ht => h t (by simp [ht]))

/-! ### the add step -/

theorem addVoterGo_spec (id addr : String) (c : Config) :
    ∃ s ∈ (addVoterGo id addr c).getD (c ++ [⟨id, addr, .voter⟩]),
      s.id = id ∧ s.addr = addr ∧ s.suf = .voter := by
  induction c with
  | nil => exact ⟨⟨id, addr, .voter⟩, by simp [addVoterGo], rfl, rfl, rfl⟩
  | cons t rest ih =>
    unfold addVoterGo
    by_cases ht : t.id = id
    · simp only [ht, if_true, Option.getD_some]
      by_cases hv : t.suf = .voter
      · exact ⟨{ t with addr := addr }, by rw [if_pos hv]; exact List.mem_cons.2 (Or.inl (by simp [ht])), ht, rfl, hv⟩
      · exact ⟨⟨id, addr, .voter⟩, by rw [if_neg hv]; exact List.mem_cons.2 (Or.inl rfl), rfl, rfl, rfl⟩
    · simp only [ht, if_false]
      obtain ⟨s, hs, hp⟩ := ih
      cases hg : addVoterGo id addr rest with
      | none =>
        simp only [hg, Option.getD_none] at hs
        simp only [Option.map_none, Option.getD_none]
        exact ⟨s, by simp only [List.cons_append, List.mem_cons]; right; exact hs, hp⟩
      | some r =>
        simp only [hg, Option.getD_some] at hs
        simp only [Option.map_some, Option.getD_some]
        exact ⟨s, by simp [hs], hp⟩

theorem addNonvoterGo_none_of_absent (id addr : String) (c : Config) (h : id ∉ ids c) :
    addNonvoterGo id addr c = none := by
  induction c with
  | nil => rfl
  | cons t rest ih =>
    simp only [ids, List.map_cons, List.mem_cons, not_or] at h
    unfold addNonvoterGo
    have : ¬ t.id = id := fun e => h.1 e.symm
    simp only [this, if_false]
    rw [ih h.2]; rfl

theorem addVoterGo_none_of_absent (id addr : String) (c : Config) (h : id ∉ ids c) :
    addVoterGo id addr c = none := by
  induction c with
  | nil => rfl
  | cons t rest ih =>
    simp only [ids, List.map_cons, List.mem_cons, not_or] at h
    unfold addVoterGo
    have : ¬ t.id = id := fun e => h.1 e.symm
    simp only [this, if_false]
    rw [ih h.2]; rfl

def roleOf (v : Bool) : Suffrage := if v then .voter else .nonvoter

theorem applyChange_add_absent (cur : Config) (id addr : String) (v : Bool) (h : id ∉ ids cur) :
    applyChange cur (addChange id addr v) = cur ++ [⟨id, addr, roleOf v⟩] := by
  cases v
  · simp [addChange, applyChange, addNonvoterGo_none_of_absent id addr cur h, roleOf]
  · simp [addChange, applyChange, addVoterGo_none_of_absent id addr cur h, roleOf]

/-- no server of `l` has the joining id or address: the loop leaves `cur` alone -/
theorem joinLoop_nomatch (id addr : String) (v : Bool) (l cur : Config)
    (h : ∀ s ∈ l, ¬ (s.id = id ∨ s.addr = addr)) : joinLoop id addr v l cur = .inr cur := by
  have := joinLoop_skip_prefix id addr v l [] cur h
  simpa [joinLoop] using this


end RqModel.Membership

/-
Model of what the inter-node port does with raw bytes before any command is
interpreted (C35):

* `tcp/mux.go (*Mux).handleConn`: the first byte selects a registered listener;
  an unregistered byte closes the connection;
* `cluster/service.go (*Service).handleConn`: the frame reader. A frame is an
  8-byte little-endian length followed by that many payload bytes. The model
  consumes the connection's byte stream one byte at a time (the finest possible
  delivery schedule) and carries an explicit counter `cap` of the bytes allocated
  for the payload buffer of the frame being read.

Two reader strategies are modelled:
* `eager = true`  — `p := make([]byte, sz); io.ReadFull(conn, p)`: the buffer is
  allocated from the client-chosen length before any payload byte arrives (the
  code before the `fix:` commit; kept for the witness theorems);
* `eager = false` — `io.ReadAll(io.LimitReader(conn, int64(sz)))` after rejecting
  `sz > math.MaxInt64`: a 512-byte buffer that `append` grows when it is full.
  Which one the source uses is a regenerated fact (`Gen.ClusterCmds.frameReader`).

Go's `append` growth is a parameter `grow` with the assumed law
`c < grow c ≤ 2*c + slack` (validated against the real runtime by the harness).
Core Lean only.
-/
import RqModel.Model.Util
namespace RqModel.Frame
open RqModel.Util

/-! ## mux -/

inductive MuxOut where
  | waiting                                   -- no byte yet (read deadline running)
  | closed                                    -- unregistered header byte
  | handler (h : Nat) (rest : List Nat)       -- connection handed to listener `h`, which reads `rest`
deriving DecidableEq, Repr

def muxRoute (registered : List Nat) : List Nat → MuxOut
  | [] => .waiting
  | h :: rest => if registered.contains h then .handler h rest else .closed

/-! ## frame reader -/

structure Cfg where
  eager   : Bool
  lenSize : Nat := 8
  initCap : Nat := 512
  slack   : Nat := 8192
  maxLen  : Nat := 2^63 - 1          -- math.MaxInt64
  maxMake : Nat := 2^47              -- largest `make([]byte, n)` the runtime can satisfy at all
  grow    : Nat → Nat := fun c => 2 * c

inductive Phase where
  | header (got : List Nat)
  | payload (need : Nat) (buf : List Nat)
  | closed                           -- connection closed by the service
  | crashed                          -- process died (makeslice panic / out of memory)
deriving DecidableEq, Repr

structure RState where
  phase    : Phase := .header []
  cap      : Nat := 0                -- bytes allocated for the payload buffer of the current frame
  received : Nat := 0                -- bytes consumed from the connection so far
  frames   : List (List Nat) := []   -- payloads handed to pb.Unmarshal, oldest first
deriving DecidableEq, Repr

def leValue : List Nat → Nat
  | [] => 0
  | b :: r => b + 256 * leValue r

def leBytes : Nat → Nat → List Nat
  | 0, _ => []
  | k + 1, n => n % 256 :: leBytes k (n / 256)

/-- a complete frame for a payload -/
def encode (p : List Nat) : List Nat := leBytes 8 p.length ++ p

def deliver (st : RState) (p : List Nat) : RState :=
  { st with phase := .header [], cap := 0, frames := st.frames ++ [p] }

/-- after the length prefix has been read -/
def startPayload (cfg : Cfg) (st : RState) (sz : Nat) : RState :=
  if cfg.eager then
    if sz > cfg.maxMake then { st with phase := .crashed, cap := sz }
    else if sz = 0 then deliver { st with cap := 0 } []
    else { st with phase := .payload sz [], cap := sz }
  else
    if sz > cfg.maxLen then { st with phase := .closed }
    else if sz = 0 then deliver st []
    else { st with phase := .payload sz [], cap := cfg.initCap }

def feed (cfg : Cfg) (st : RState) (b : Nat) : RState :=
  match st.phase with
  | .closed => st
  | .crashed => st
  | .header got =>
    let st := { st with received := st.received + 1 }
    let got' := got ++ [b]
    if got'.length < cfg.lenSize then { st with phase := .header got' }
    else startPayload cfg st (leValue got')
  | .payload need buf =>
    let st := { st with received := st.received + 1 }
    let buf' := buf ++ [b]
    if buf'.length ≥ need then deliver st buf'
    else
      let cap' := if !cfg.eager && buf'.length ≥ st.cap then cfg.grow st.cap else st.cap
      { st with phase := .payload need buf', cap := cap' }

def feedAll (cfg : Cfg) (st : RState) (bs : List Nat) : RState := bs.foldl (feed cfg) st

/-- number of payload bytes buffered for the current frame -/
def buffered (st : RState) : Nat :=
  match st.phase with
  | .payload _ buf => buf.length
  | _ => 0

/-! ## line protocol
`mux <registered,…|-> <bytes hex>` → `waiting` | `closed` | `handler <h> <n bytes left>`
`read <eager|incr> <bytes hex>` → `frames=<lens,…|-> phase=<header:k|payload:need:got|closed|crashed> cap=<n> received=<n>`
-/
structure DState where
  unit : Unit := ()

def natsStr (xs : List Nat) : String :=
  if xs.isEmpty then "-" else joinWith "," (xs.map toString)

def phaseStr : Phase → String
  | .header got => s!"header:{got.length}"
  | .payload need buf => s!"payload:{need}:{buf.length}"
  | .closed => "closed"
  | .crashed => "crashed"

def step (d : DState) (line : String) : DState × String :=
  match words line with
  | ["mux", reg, bs] =>
    match natList reg, tokBytes bs with
    | some reg, some bs =>
      match muxRoute reg (bs.map (·.toNat)) with
      | .waiting => (d, "waiting")
      | .closed => (d, "closed")
      | .handler h rest => (d, s!"handler {h} {rest.length}")
    | _, _ => (d, "bad-op")
  | ["read", mode, bs] =>
    match tokBytes bs with
    | some bs =>
      if mode != "eager" && mode != "incr" then (d, "bad-op") else
      let cfg : Cfg := { eager := mode == "eager" }
      let st := feedAll cfg {} (bs.map (·.toNat))
      (d, s!"frames={natsStr (st.frames.map (·.length))} phase={phaseStr st.phase} cap={st.cap} received={st.received}")
    | none => (d, "bad-op")
  | _ => (d, "bad-op")

def init : DState := {}

end RqModel.Frame
--! driver: frame RqModel.Frame

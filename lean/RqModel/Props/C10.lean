/-
C10  Snapshot transfer installs exactly the source data or nothing.

Model: RqModel/Model/SnapStream.lean. protobuf decoding, CRC-32C and the "looks like
SQLite" predicates are the parameter `E : Ext`; no law about them is needed for the
structural theorems; `NoCollision` is the stated CRC caveat.
-/
import RqModel.Model.SnapStream
namespace C10
open RqModel.SnapStream

/-! ### Restore: a successful restore is exactly what the header describes -/

/-- sizes and checksums of extracted WALs match their headers and the WAL bytes are
consecutive slices of the stream -/
theorem restoreWals_spec (E : Ext) : ∀ (hs : List FileHdr) (s : Bytes) (ws : List Bytes) (r : Bytes),
    restoreWals E hs s = .ok (ws, r) →
      s = ws.flatten ++ r ∧ ws.length = hs.length ∧
      ∀ i (hi : i < ws.length) (hj : i < hs.length), (ws[i]).length = (hs[i]).size ∧ E.crc ws[i] = (hs[i]).crc := by
  intro hs
  induction hs with
  | nil =>
    intro s ws r h
    simp [restoreWals] at h
    obtain ⟨rfl, rfl⟩ := h
    simp
  | cons hd tl ih =>
    intro s ws r h
    unfold restoreWals at h
    by_cases h1 : s.length < hd.size
    · simp [h1] at h
    · simp only [h1, if_false] at h
      by_cases h2 : E.crc (List.take hd.size s) ≠ hd.crc
      · simp [h2] at h
      · simp only [h2, if_false] at h
        cases hr : restoreWals E tl (List.drop hd.size s) with
        | error e => simp [hr] at h
        | ok v =>
          obtain ⟨ws', r'⟩ := v
          simp only [hr] at h
          have h' := Except.ok.inj h
          obtain ⟨rfl, rfl⟩ := Prod.mk.inj h'
          obtain ⟨e1, e2, e3⟩ := ih _ _ _ hr
          refine ⟨?_, by simp [e2], ?_⟩
          · simp only [List.flatten_cons, List.append_assoc]
            rw [← e1, List.take_append_drop]
          · intro i hi hj
            cases i with
            | zero =>
              simp only [List.getElem_cons_zero]
              refine ⟨?_, by simpa using h2⟩
              simp only [List.length_take]; omega
            | succ k =>
              simp only [List.getElem_cons_succ]
              exact e3 k (by simpa using hi) (by simpa using hj)

/-- **restore_exact.** If `Restore` succeeds, the stream is precisely
`length ‖ header ‖ db ‖ wals` for the header protobuf decoded from it: version 1, a database
header, every file of the announced size and CRC, and NOTHING after the last file. -/
theorem restore_exact (E : Ext) (s db : Bytes) (wals : List Bytes) (h : restore E s = .ok db wals) :
    ∃ (pre hb : Bytes) (dbh : FileHdr) (walhs : List FileHdr),
      s = pre ++ hb ++ db ++ wals.flatten ∧ pre.length = 4 ∧ be32 pre = hb.length ∧
      E.decode hb = some ⟨1, .full (some dbh) walhs⟩ ∧
      db.length = dbh.size ∧ E.crc db = dbh.crc ∧ wals.length = walhs.length ∧
      ∀ i (hi : i < wals.length) (hj : i < walhs.length),
        (wals[i]).length = (walhs[i]).size ∧ E.crc wals[i] = (walhs[i]).crc := by
  unfold restore at h
  by_cases h1 : s.length < 4
  · simp [h1] at h
  · simp only [h1, if_false] at h
    by_cases h2 : s.length < 4 + be32 s
    · simp [h2] at h
    · simp only [h2, if_false] at h
      cases hd : E.decode (List.take (be32 s) (List.drop 4 s)) with
      | none => simp [hd] at h
      | some hdr =>
        simp only [hd] at h
        by_cases hv : hdr.version ≠ 1
        · simp [hv] at h
        · simp only [hv, if_false] at h
          have hv' : hdr.version = 1 := by simpa using hv
          cases hp : hdr.payload with
          | none => simp [hp] at h
          | incremental d => simp [hp] at h
          | full odb walhs =>
            cases odb with
            | none => simp [hp] at h
            | some dbh =>
              simp only [hp] at h
              by_cases h3 : (List.drop (4 + be32 s) s).length < dbh.size
              · simp [h3] at h
              · simp only [h3, if_false] at h
                by_cases h4 : E.crc (List.take dbh.size (List.drop (4 + be32 s) s)) ≠ dbh.crc
                · simp [h4] at h
                · simp only [h4, if_false] at h
                  cases hw : restoreWals E walhs (List.drop dbh.size (List.drop (4 + be32 s) s)) with
                  | error e => simp [hw] at h
                  | ok v =>
                    obtain ⟨ws, r⟩ := v
                    simp only [hw] at h
                    by_cases hr : r ≠ []
                    · simp [hr] at h
                    · simp only [hr, if_false] at h
                      have hr' : r = [] := by simpa using hr
                      obtain ⟨rfl, rfl⟩ := RestoreRes.ok.inj h
                      obtain ⟨e1, e2, e3⟩ := restoreWals_spec E _ _ _ _ hw
                      subst hr'
                      refine ⟨s.take 4, (s.drop 4).take (be32 s), dbh, walhs, ?_, ?_, ?_, ?_, ?_, ?_, e2, e3⟩
                      · -- reassemble the stream from its slices
                        have a1 : s = s.take 4 ++ s.drop 4 := (List.take_append_drop 4 s).symm
                        have a2 : s.drop 4 = (s.drop 4).take (be32 s) ++ (s.drop 4).drop (be32 s) :=
                          (List.take_append_drop _ _).symm
                        have a3 : (s.drop 4).drop (be32 s) = s.drop (4 + be32 s) := by
                          rw [List.drop_drop]
                        have a4 : s.drop (4 + be32 s) =
                            (s.drop (4 + be32 s)).take dbh.size ++ (s.drop (4 + be32 s)).drop dbh.size :=
                          (List.take_append_drop _ _).symm
                        rw [List.append_nil] at e1
                        calc s = s.take 4 ++ s.drop 4 := a1
                          _ = s.take 4 ++ ((s.drop 4).take (be32 s) ++ s.drop (4 + be32 s)) := by
                              rw [← a3, ← a2]
                          _ = s.take 4 ++ ((s.drop 4).take (be32 s) ++
                                ((s.drop (4 + be32 s)).take dbh.size ++ ws.flatten)) := by
                              rw [← e1, ← a4]
                          _ = _ := by simp [List.append_assoc]
                      · simp only [List.length_take]; omega
                      · have : be32 (s.take 4) = be32 s := by
                          match s, h1 with
                          | a :: b :: c :: d :: t, _ => rfl
                          | [], h => simp at h
                          | [_], h => simp at h
                          | [_, _], h => simp at h
                          | [_, _, _], h => simp at h
                        rw [this]
                        simp only [List.length_take, List.length_drop]; omega
                      · rw [hd]; congr 1
                        cases hdr; simp_all
                      · simp only [List.length_take]; omega
                      · simpa using h4

/-- the stream length is fixed by its own header: a restored stream has exactly
4 + |header| + Σ announced sizes bytes -/
theorem restore_length (E : Ext) (s db : Bytes) (wals : List Bytes) (h : restore E s = .ok db wals) :
    s.length = 4 + be32 s + db.length + wals.flatten.length := by
  obtain ⟨pre, hb, dbh, walhs, hs, hp, hb', _⟩ := restore_exact E s db wals h
  have : be32 s = be32 pre := by
    subst hs
    match pre, hp with
    | [a, b, c, d], _ => rfl
  rw [this, hb', hs]
  simp [hp]; omega

/-- **truncation_fails / extension_fails (Restore).** Of all the streams that share their
first 4 + |header| bytes, at most one length restores: a strict prefix or an extension of
a restorable stream does not restore. -/
theorem restore_truncation_fails (E : Ext) (s : Bytes) (db : Bytes) (wals : List Bytes)
    (h : restore E s = .ok db wals) (k : Nat) (hk : k < s.length) :
    ∀ db' wals', restore E (s.take k) ≠ .ok db' wals' := by
  intro db' wals' h'
  obtain ⟨pre, hb, dbh, walhs, hs, hp, hbn, hdec, hdb, _, hwl, hws⟩ := restore_exact E s db wals h
  obtain ⟨pre', hb', dbh', walhs', hs', hp', hbn', hdec', hdb', _, hwl', hws'⟩ :=
    restore_exact E (s.take k) db' wals' h'
  -- the prefix has at least 4 bytes, so both read the same length, hence the same header bytes
  have hk4 : 4 ≤ k := by
    have : (s.take k).length = (pre' ++ hb' ++ db' ++ wals'.flatten).length := by rw [← hs']
    simp [hp'] at this; omega
  have hpre : pre' = pre := by
    have e1 : (s.take k).take 4 = pre' := by rw [hs']; simp [List.take_append, hp']
    have e2 : s.take 4 = pre := by rw [hs]; simp [List.take_append, hp]
    rw [← e1, ← e2, List.take_take]; congr 1; omega
  have hlen : hb'.length = hb.length := by rw [← hbn', ← hbn, hpre]
  have hkh : 4 + hb.length ≤ k := by
    have : (s.take k).length = (pre' ++ hb' ++ db' ++ wals'.flatten).length := by rw [← hs']
    simp [hp', hlen] at this; omega
  have hhb : hb' = hb := by
    have e1 : ((s.take k).drop 4).take hb.length = hb' := by
      rw [hs']; simp [List.drop_append, List.take_append, hp', hlen]
    have e2 : (s.drop 4).take hb.length = hb := by
      rw [hs]; simp [List.drop_append, List.take_append, hp]
    rw [← e1, ← e2, List.drop_take, List.take_take]; congr 1; omega
  rw [hhb, hdec] at hdec'
  have hh := Option.some.inj hdec'
  have hdbh : dbh' = dbh := by
    have := congrArg SnapHeader.payload hh
    simp at this; exact this.1.symm
  have hwalhs : walhs' = walhs := by
    have := congrArg SnapHeader.payload hh
    simp at this; exact this.2.symm
  -- total lengths agree, contradiction with the cut
  have sumlen : ∀ (ws : List Bytes) (hs : List FileHdr), ws.length = hs.length →
      (∀ i (hi : i < ws.length) (hj : i < hs.length), (ws[i]).length = (hs[i]).size ∧ E.crc ws[i] = (hs[i]).crc) →
      ws.flatten.length = (hs.map (·.size)).sum := by
    intro ws
    induction ws with
    | nil => intro hs hl _; cases hs <;> simp_all
    | cons w t ih =>
      intro hs hl hall
      cases hs with
      | nil => simp at hl
      | cons hh ht =>
        have h0 := (hall 0 (by simp) (by simp)).1
        have := ih ht (by simpa using hl) (fun i hi hj => by
          have := hall (i + 1) (by simpa using hi) (by simpa using hj)
          simpa using this)
        simp at h0
        simp [h0, this]
  have L1 : s.length = 4 + hb.length + dbh.size + (walhs.map (·.size)).sum := by
    rw [hs]; simp [hp, hdb, sumlen wals walhs hwl hws]; omega
  have L2 : (s.take k).length = 4 + hb.length + dbh.size + (walhs.map (·.size)).sum := by
    rw [hs']; simp [hp', hlen, hdb', hdbh, sumlen wals' walhs' hwl' hws', hwalhs]; omega
  simp at L2; omega

/-! ### Sink -/

/-- anything the sink installs passed the validity and CRC checks against the header the
stream carried -/
theorem installed_verified (E : Ext) (s : SinkSt) (db : Bytes) (wals : List Bytes)
    (h : sinkClose E s = .installed db wals) :
    ∃ dbh walhs st files, s = .full dbh walhs st ∧ fullFinalize st = some files ∧
      fullVerify E dbh walhs files = .ok (db, wals) ∧ E.crc db = dbh.crc ∧ E.validDb db = true := by
  cases s with
  | header b => simp [sinkClose] at h
  | incremental d => simp [sinkClose] at h
  | full dbh walhs st =>
    simp only [sinkClose] at h
    cases hf : fullFinalize st with
    | none => simp [hf] at h
    | some files =>
      simp only [hf] at h
      cases hv : fullVerify E dbh walhs files with
      | error e => simp [hv] at h
      | ok v =>
        obtain ⟨d, w⟩ := v
        simp only [hv] at h
        obtain ⟨rfl, rfl⟩ := Outcome.installed.inj h
        refine ⟨dbh, walhs, st, files, rfl, rfl, hv, ?_, ?_⟩
        · unfold fullVerify at hv
          cases files with
          | nil => simp at hv
          | cons f fs =>
            simp only at hv
            split at hv <;> try simp at hv
            split at hv <;> try simp at hv
            split at hv <;> try simp at hv
            split at hv <;> try simp at hv
            rename_i hc _
            obtain ⟨rfl, _⟩ := hv
            simpa using hc
        · unfold fullVerify at hv
          cases files with
          | nil => simp at hv
          | cons f fs =>
            simp only at hv
            split at hv <;> try simp at hv
            rename_i hvd
            split at hv <;> try simp at hv
            split at hv <;> try simp at hv
            split at hv <;> try simp at hv
            obtain ⟨rfl, _⟩ := hv
            simpa using hvd

/-- a stream that ends before its header is complete is never reported as installed -/
theorem header_incomplete_fails (E : Ext) (buf : Bytes) : sinkClose E (.header buf) = .closeErr .incomplete := rfl

/-! ### non-vacuity: a concrete stream through the concrete driver externals -/

def exDb : Bytes := "SQLite format 3".toUTF8.toList ++ [0, 1, 2]
def exHb : Bytes := [7, 7]
def exExt : Ext :=
  { decode := fun b => if b = exHb then some ⟨1, .full (some ⟨exDb.length, crc32c exDb⟩) []⟩ else none,
    crc := crc32c, validDb := validDbC, validWal := validWalC }

example : restore exExt (frame exHb [exDb]) = .ok exDb [] := by decide
example : install exExt false [frame exHb [exDb]] = .installed exDb [] := by decide
example : install exExt false [(frame exHb [exDb]).take 9, (frame exHb [exDb]).drop 9] = .installed exDb [] := by decide
example : install exExt false [frame exHb [exDb] ++ [0]] = .writeErr .unexpectedData := by decide
example : restore exExt (frame exHb [exDb] ++ [0]) = .err .trailingData := by decide

end C10

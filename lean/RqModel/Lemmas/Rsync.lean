/-
Client-protocol transition systems over the rsync primitives
(RqModel/Model/Rsync.lean) and their invariants. Used by Props/C34 (and C11).

Ghost state records which clients currently hold what. The protocol assumption
is the usual one: a client calls `End`/`EndRead`/`EndWrite`/`UpgradeToWriter`
only while it holds the corresponding lock, and passes a non-empty owner name.
A step that violates the protocol is a stutter in these systems.
-/
import RqModel.Model.Rsync
namespace RqModel.Rsync

/-! ### CheckAndSet -/

structure CasSys where
  c : Cas := {}
  holders : List Nat := []
deriving Repr

inductive CasStep where
  | begin (client : Nat) (owner : String)
  | end_ (client : Nat)
deriving Repr, DecidableEq

def casStep (s : CasSys) : CasStep → CasSys
  | .begin cl o =>
    match s.c.begin o with
    | (c', .ok) => ⟨c', cl :: s.holders⟩
    | (c', _) => ⟨c', s.holders⟩
  | .end_ cl => if cl ∈ s.holders then ⟨s.c.end_, s.holders.erase cl⟩ else s

def casRun (s : CasSys) (steps : List CasStep) : CasSys := steps.foldl casStep s

def CasInv (s : CasSys) : Prop :=
  s.holders.length ≤ 1 ∧ (s.c.state = true ↔ s.holders.length = 1)

theorem casStep_inv (s : CasSys) (st : CasStep) (h : CasInv s) : CasInv (casStep s st) := by
  obtain ⟨h1, h2⟩ := h
  cases st with
  | begin cl o =>
    simp only [casStep, Cas.begin]
    by_cases hs : s.c.state = true
    · simp only [hs, if_true]; exact ⟨h1, h2⟩
    · have hs' : s.c.state = false := by simpa using hs
      have hl : s.holders.length = 0 := by
        have : ¬ s.holders.length = 1 := fun e => hs (h2.2 e)
        omega
      simp only [hs', Bool.false_eq_true, if_false]
      exact ⟨by simp [hl], by simp [hl]⟩
  | end_ cl =>
    simp only [casStep]
    split
    · rename_i hm
      have hl : s.holders.length = 1 := by
        have : 0 < s.holders.length := List.length_pos_of_mem hm
        omega
      refine ⟨by simp [List.length_erase_of_mem hm, hl], ?_⟩
      simp [Cas.end_, List.length_erase_of_mem hm, hl]
    · exact ⟨h1, h2⟩

theorem casRun_inv (s : CasSys) (steps : List CasStep) (h : CasInv s) : CasInv (casRun s steps) := by
  induction steps generalizing s with
  | nil => exact h
  | cons st steps ih => exact ih _ (casStep_inv s st h)

/-! ### MultiRSW -/

structure MSys where
  m : Mrsw := {}
  readers : List Nat := []
  writers : List Nat := []
  panicked : Bool := false
deriving Repr

inductive MStep where
  | beginRead (c : Nat)
  | beginReadBlocking (c : Nat)
  | endRead (c : Nat)
  | beginWrite (c : Nat) (o : String)
  | beginWriteBlocking (c : Nat) (o : String)
  | endWrite (c : Nat)
  | upgrade (c : Nat) (o : String)
deriving Repr, DecidableEq

def notePanic (s : MSys) (r : Res) : MSys := if r = .panic then { s with panicked := true } else s

def mStep (s : MSys) : MStep → MSys
  | .beginRead c =>
    match s.m.beginRead with
    | (m', .ok) => { s with m := m', readers := c :: s.readers }
    | (m', r) => notePanic { s with m := m' } r
  | .beginReadBlocking c =>
    match s.m.beginReadBlocking with
    | some m' => { s with m := m', readers := c :: s.readers }
    | none => s
  | .endRead c =>
    if c ∈ s.readers then
      let (m', r) := s.m.endRead
      notePanic { s with m := m', readers := s.readers.erase c } r
    else s
  | .beginWrite c o =>
    if o = "" then s else
    match s.m.beginWrite o with
    | (m', .ok) => { s with m := m', writers := c :: s.writers }
    | (m', r) => notePanic { s with m := m' } r
  | .beginWriteBlocking c o =>
    if o = "" then s else
    match s.m.beginWriteBlocking o with
    | some (m', .ok) => { s with m := m', writers := c :: s.writers }
    | some (m', r) => notePanic { s with m := m' } r
    | none => s
  | .endWrite c =>
    if c ∈ s.writers then
      let (m', r) := s.m.endWrite
      notePanic { s with m := m', writers := s.writers.erase c } r
    else s
  | .upgrade c o =>
    if o = "" ∨ c ∉ s.readers then s else
    match s.m.upgrade o with
    | (m', .ok) => { s with m := m', readers := s.readers.erase c, writers := c :: s.writers }
    | (m', r) => notePanic { s with m := m' } r

def mRun (s : MSys) (steps : List MStep) : MSys := steps.foldl mStep s

structure MInv (s : MSys) : Prop where
  count : s.m.numReaders = (s.readers.length : Int)
  owner : s.m.owner ≠ "" ↔ s.writers.length = 1
  one : s.writers.length ≤ 1
  excl : s.writers ≠ [] → s.readers = []
  noPanic : s.panicked = false

theorem mStep_inv (s : MSys) (st : MStep) (h : MInv s) : MInv (mStep s st) := by
  obtain ⟨hc, ho, h1, hx, hp⟩ := h
  have hw0 : s.m.owner = "" → s.writers = [] := by
    intro e
    have : ¬ s.writers.length = 1 := fun l => (ho.2 l) e
    cases hw : s.writers with
    | nil => rfl
    | cons a t => rw [hw] at this h1; simp only [List.length_cons] at this h1; omega
  cases st with
  | beginRead c =>
    simp only [mStep, Mrsw.beginRead]
    by_cases hown : s.m.owner = ""
    · simp only [hown, ne_eq, not_true_eq_false, if_false]
      have := hw0 hown
      exact ⟨by simp [hc], by simp [hown, this], by simp [this], by simp [this], hp⟩
    · simp only [ne_eq, hown, not_false_eq_true, if_true, notePanic]
      simp only [reduceCtorEq, if_false]
      exact ⟨hc, ho, h1, hx, hp⟩
  | beginReadBlocking c =>
    simp only [mStep, Mrsw.beginReadBlocking, Mrsw.readEnabled]
    by_cases hown : s.m.owner = ""
    · simp only [hown, beq_self_eq_true, if_true]
      have := hw0 hown
      exact ⟨by simp [hc], by simp [hown, this], by simp [this], by simp [this], hp⟩
    · have : (s.m.owner == "") = false := by simpa using hown
      simp only [this, Bool.false_eq_true, if_false]
      exact ⟨hc, ho, h1, hx, hp⟩
  | endRead c =>
    simp only [mStep]
    split
    · rename_i hm
      have hpos : 0 < s.readers.length := List.length_pos_of_mem hm
      have hwn : s.writers = [] := by
        cases hw : s.writers with
        | nil => rfl
        | cons a t => have := hx (by simp [hw]); rw [this] at hm; cases hm
      have hn : ¬ (s.m.numReaders - 1 < 0) := by omega
      simp only [Mrsw.endRead, hn, if_false, notePanic, reduceCtorEq]
      refine ⟨?_, ho, h1, ?_, hp⟩
      · simp only [List.length_erase_of_mem hm]; omega
      · intro hne; exact absurd hwn hne
    · exact ⟨hc, ho, h1, hx, hp⟩
  | beginWrite c o =>
    simp only [mStep]
    split
    · exact ⟨hc, ho, h1, hx, hp⟩
    · rename_i ho'
      simp only [Mrsw.beginWrite, ho', if_false]
      by_cases hown : s.m.owner = ""
      · simp only [hown, ne_eq, not_true_eq_false, if_false]
        have hwn := hw0 hown
        by_cases hr : s.m.numReaders > 0
        · simp only [hr, if_true, notePanic, reduceCtorEq, if_false]
          exact ⟨hc, ho, h1, hx, hp⟩
        · simp only [hr, if_false]
          have hrl : s.readers = [] := by
            cases hrr : s.readers with
            | nil => rfl
            | cons a t => simp [hrr] at hc; omega
          exact ⟨hc, by simp [ho', hwn], by simp [hwn], fun _ => hrl, hp⟩
      · simp only [ne_eq, hown, not_false_eq_true, if_true, notePanic, reduceCtorEq, if_false]
        exact ⟨hc, ho, h1, hx, hp⟩
  | beginWriteBlocking c o =>
    simp only [mStep]
    split
    · exact ⟨hc, ho, h1, hx, hp⟩
    · rename_i ho'
      simp only [Mrsw.beginWriteBlocking, ho', if_false]
      by_cases hen : s.m.writeEnabled = true
      · simp only [hen, if_true]
        simp only [Mrsw.writeEnabled, Bool.and_eq_true, beq_iff_eq, decide_eq_true_eq] at hen
        have hwn := hw0 hen.1
        have hrl : s.readers = [] := by
          cases hrr : s.readers with
          | nil => rfl
          | cons a t => simp [hrr] at hc; omega
        exact ⟨hc, by simp [ho', hwn], by simp [hwn], fun _ => hrl, hp⟩
      · simp only [hen, if_false]
        exact ⟨hc, ho, h1, hx, hp⟩
  | endWrite c =>
    simp only [mStep]
    split
    · rename_i hm
      have hl : s.writers.length = 1 := by
        have : 0 < s.writers.length := List.length_pos_of_mem hm
        omega
      have hown : s.m.owner ≠ "" := ho.2 hl
      simp only [Mrsw.endWrite, hown, if_false, notePanic, reduceCtorEq]
      have hel : (s.writers.erase c).length = 0 := by simp [List.length_erase_of_mem hm, hl]
      have hen : s.writers.erase c = [] := List.eq_nil_of_length_eq_zero hel
      exact ⟨hc, by simp [hen], by simp [hen], fun hne => absurd hen hne, hp⟩
    · exact ⟨hc, ho, h1, hx, hp⟩
  | upgrade c o =>
    simp only [mStep]
    split
    · exact ⟨hc, ho, h1, hx, hp⟩
    · rename_i hcond
      have ho' : o ≠ "" := fun e => hcond (Or.inl e)
      have hm : c ∈ s.readers := by
        by_cases hm : c ∈ s.readers
        · exact hm
        · exact absurd (Or.inr hm) hcond
      have hpos : 0 < s.readers.length := List.length_pos_of_mem hm
      simp only [Mrsw.upgrade]
      by_cases hown : s.m.owner = ""
      · simp only [hown, ne_eq, not_true_eq_false, if_false]
        have hwn := hw0 hown
        by_cases hr : s.m.numReaders > 1
        · simp only [hr, if_true, notePanic, reduceCtorEq, if_false]
          exact ⟨hc, ho, h1, hx, hp⟩
        · have h0 : ¬ s.m.numReaders = 0 := by omega
          simp only [hr, if_false, h0]
          have hl : s.readers.length = 1 := by omega
          have hel : (s.readers.erase c).length = 0 := by simp [List.length_erase_of_mem hm, hl]
          have hen : s.readers.erase c = [] := List.eq_nil_of_length_eq_zero hel
          exact ⟨by simp [hen], by simp [ho', hwn], by simp [hwn], fun _ => hen, hp⟩
      · simp only [ne_eq, hown, not_false_eq_true, if_true, notePanic, reduceCtorEq, if_false]
        exact ⟨hc, ho, h1, hx, hp⟩

theorem mRun_inv (s : MSys) (steps : List MStep) (h : MInv s) : MInv (mRun s steps) := by
  induction steps generalizing s with
  | nil => exact h
  | cons st steps ih => exact ih _ (mStep_inv s st h)

theorem mInit_inv : MInv {} := ⟨rfl, by simp, by simp, by simp, rfl⟩

/-- release steps only -/
def IsRelease : MStep → Bool
  | .endRead _ => true
  | .endWrite _ => true
  | _ => false

theorem release_step_lists (s : MSys) (st : MStep) (h : IsRelease st = true) :
    (mStep s st).readers = (match st with | .endRead c => s.readers.erase c | _ => s.readers) ∧
    (mStep s st).writers = (match st with | .endWrite c => s.writers.erase c | _ => s.writers) := by
  cases st with
  | endRead c =>
    simp only [mStep]
    split
    · simp only [notePanic]; split <;> exact ⟨rfl, rfl⟩
    · rename_i hm; exact ⟨(List.erase_of_not_mem hm).symm, rfl⟩
  | endWrite c =>
    simp only [mStep]
    split
    · simp only [notePanic]; split <;> exact ⟨rfl, rfl⟩
    · rename_i hm; exact ⟨rfl, (List.erase_of_not_mem hm).symm⟩
  | beginRead c => simp [IsRelease] at h
  | beginReadBlocking c => simp [IsRelease] at h
  | beginWrite c o => simp [IsRelease] at h
  | beginWriteBlocking c o => simp [IsRelease] at h
  | upgrade c o => simp [IsRelease] at h

theorem run_releases (sched : List MStep) (s : MSys) (hrel : ∀ st ∈ sched, IsRelease st = true)
    (hr : ∀ c, s.readers.count c ≤ sched.count (.endRead c))
    (hw : ∀ c, s.writers.count c ≤ sched.count (.endWrite c)) :
    (mRun s sched).readers = [] ∧ (mRun s sched).writers = [] := by
  induction sched generalizing s with
  | nil =>
    simp only [List.count_nil, Nat.le_zero_eq] at hr hw
    show s.readers = [] ∧ s.writers = []
    exact ⟨List.eq_nil_iff_forall_not_mem.2 (fun c hc => by have := List.count_pos_iff.2 hc; have := hr c; omega),
           List.eq_nil_iff_forall_not_mem.2 (fun c hc => by have := List.count_pos_iff.2 hc; have := hw c; omega)⟩
  | cons st rest ih =>
    simp only [mRun, List.foldl_cons]
    obtain ⟨e1, e2⟩ := release_step_lists s st (hrel st List.mem_cons_self)
    apply ih _ (fun x hx => hrel x (List.mem_cons_of_mem _ hx))
    · intro c
      rw [e1]
      have := hr c
      cases st with
      | endRead d =>
        simp only [List.count_cons] at this
        by_cases hcd : d = c
        · subst hcd
          simp only [List.count_erase_self]
          simp at this; omega
        · have hne : (MStep.endRead d == MStep.endRead c) = false := by simp [hcd]
          simp only [hne] at this
          rw [List.count_erase_of_ne (Ne.symm hcd)]
          simpa using this
      | endWrite d => simp only [List.count_cons] at this; simpa using this
      | beginRead d => simp [IsRelease] at hrel
      | beginReadBlocking d => simp [IsRelease] at hrel
      | beginWrite d o => simp [IsRelease] at hrel
      | beginWriteBlocking d o => simp [IsRelease] at hrel
      | upgrade d o => simp [IsRelease] at hrel
    · intro c
      rw [e2]
      have := hw c
      cases st with
      | endWrite d =>
        simp only [List.count_cons] at this
        by_cases hcd : d = c
        · subst hcd
          simp only [List.count_erase_self]
          simp at this; omega
        · have hne : (MStep.endWrite d == MStep.endWrite c) = false := by simp [hcd]
          simp only [hne] at this
          rw [List.count_erase_of_ne (Ne.symm hcd)]
          simpa using this
      | endRead d => simp only [List.count_cons] at this; simpa using this
      | beginRead d => simp [IsRelease] at hrel
      | beginReadBlocking d => simp [IsRelease] at hrel
      | beginWrite d o => simp [IsRelease] at hrel
      | beginWriteBlocking d o => simp [IsRelease] at hrel
      | upgrade d o => simp [IsRelease] at hrel


/-! ### ReadyTarget -/

structure RtSys where
  r : Rt := {}
  live : List Sub := []     -- subscriptions made since the last Reset and not unsubscribed
  ever : List Sub := []     -- subscriptions ever made and not unsubscribed (Reset does not clear this)
deriving Repr

inductive RtStep where
  | subscribe (t : Nat)
  | unsubscribe (id : Nat)
  | signal (idx : Nat)
  | reset
deriving Repr, DecidableEq

def rtStep (s : RtSys) : RtStep → RtSys
  | .subscribe t => ⟨(s.r.subscribe t).1, s.live ++ [⟨(s.r.subscribe t).2, t⟩], s.ever ++ [⟨(s.r.subscribe t).2, t⟩]⟩
  | .unsubscribe id => ⟨s.r.unsubscribe id, s.live.filter (fun l => l.id != id), s.ever.filter (fun l => l.id != id)⟩
  | .signal idx => ⟨s.r.signal idx, s.live, s.ever⟩
  | .reset => ⟨s.r.reset, [], s.ever⟩

def rtRun (s : RtSys) (steps : List RtStep) : RtSys := steps.foldl rtStep s

theorem isClosed_iff (r : Rt) (id : Nat) : r.isClosed id = true ↔ ∃ c ∈ r.closed, c.id = id := by
  simp [Rt.isClosed, List.any_eq_true]

theorem isClosed_false_iff (r : Rt) (id : Nat) : r.isClosed id = false ↔ ∀ c ∈ r.closed, c.id ≠ id := by
  rw [← Bool.not_eq_true, isClosed_iff]; simp

theorem mem_eraseFirst_of_ne (id : Nat) (l : List Sub) (x : Sub) (hx : x ∈ l) (hne : x.id ≠ id) :
    x ∈ eraseFirst id l := by
  induction l with
  | nil => cases hx
  | cons a t ih =>
    simp only [eraseFirst]
    rcases List.mem_cons.1 hx with rfl | hx
    · simp [hne]
    · split
      · exact hx
      · exact List.mem_cons_of_mem _ (ih hx)

theorem eraseFirst_sublist (id : Nat) (l : List Sub) : (eraseFirst id l).Sublist l := by
  induction l with
  | nil => exact List.Sublist.slnil
  | cons a t ih =>
    simp only [eraseFirst]
    split
    · exact List.sublist_cons_self _ _
    · exact ih.cons_cons _

theorem eq_of_nodup_map_id (l : List Sub) (h : (l.map (·.id)).Nodup) (x y : Sub)
    (hx : x ∈ l) (hy : y ∈ l) (e : x.id = y.id) : x = y := by
  induction l with
  | nil => cases hx
  | cons a t ih =>
    simp only [List.map_cons, List.nodup_cons] at h
    rcases List.mem_cons.1 hx with hxa | hxt
    · rcases List.mem_cons.1 hy with hya | hyt
      · rw [hxa, hya]
      · have : a.id ∈ t.map (·.id) := List.mem_map.2 ⟨y, hyt, by rw [← e, hxa]⟩
        exact absurd this h.1
    · rcases List.mem_cons.1 hy with hya | hyt
      · have : a.id ∈ t.map (·.id) := List.mem_map.2 ⟨x, hxt, by rw [e, hya]⟩
        exact absurd this h.1
      · exact ih h.2 hxt hyt

structure RtInv (s : RtSys) : Prop where
  never : ∀ c ∈ s.r.closed, c.target ≤ c.at_
  pending : ∀ x ∈ s.r.subs, s.r.current < x.target
  freshS : ∀ x ∈ s.r.subs, x.id < s.r.nextId
  freshC : ∀ c ∈ s.r.closed, c.id < s.r.nextId
  freshL : ∀ l ∈ s.live, l.id < s.r.nextId
  nodup : (s.r.subs.map (·.id)).Nodup
  subsOpen : ∀ x ∈ s.r.subs, s.r.isClosed x.id = false
  liveInv : ∀ l ∈ s.live, (l.target ≤ s.r.current → s.r.isClosed l.id = true) ∧
    (s.r.current < l.target → l ∈ s.r.subs)

theorem rtInit_inv : RtInv {} := by
  refine ⟨?_, ?_, ?_, ?_, ?_, ?_, ?_, ?_⟩ <;> simp

theorem rtStep_inv (s : RtSys) (st : RtStep) (h : RtInv s) : RtInv (rtStep s st) := by
  obtain ⟨hn, hp, hfs, hfc, hfl, hnd, hso, hl⟩ := h
  cases st with
  | subscribe t =>
    simp only [rtStep, Rt.subscribe]
    by_cases ht : t ≤ s.r.current
    · simp only [ht, if_true]
      refine ⟨?_, hp, ?_, ?_, ?_, hnd, ?_, ?_⟩
      · intro c hc
        rcases List.mem_append.1 hc with hc | hc
        · exact hn c hc
        · simp only [List.mem_singleton] at hc; subst hc; exact ht
      · intro x hx; have := hfs x hx; simp only; omega
      · intro c hc
        rcases List.mem_append.1 hc with hc | hc
        · have := hfc c hc; simp only; omega
        · simp only [List.mem_singleton] at hc; subst hc; simp
      · intro l hl'
        rcases List.mem_append.1 hl' with hl' | hl'
        · have := hfl l hl'; simp only; omega
        · simp only [List.mem_singleton] at hl'; subst hl'; simp
      · intro x hx
        rw [isClosed_false_iff]
        intro c hc
        rcases List.mem_append.1 hc with hc | hc
        · exact (isClosed_false_iff _ _).1 (hso x hx) c hc
        · simp only [List.mem_singleton] at hc; subst hc
          have := hfs x hx; simp only; omega
      · intro l hl'
        rcases List.mem_append.1 hl' with hl' | hl'
        · refine ⟨fun hle => ?_, (hl l hl').2⟩
          obtain ⟨c, hc, e⟩ := (isClosed_iff _ _).1 ((hl l hl').1 hle)
          exact (isClosed_iff _ _).2 ⟨c, List.mem_append_left _ hc, e⟩
        · simp only [List.mem_singleton] at hl'; subst hl'
          refine ⟨fun _ => ?_, fun hlt => ?_⟩
          · exact (isClosed_iff _ _).2 ⟨_, List.mem_append_right _ (List.mem_singleton.2 rfl), rfl⟩
          · simp only at hlt; omega
    · simp only [ht, if_false]
      refine ⟨hn, ?_, ?_, ?_, ?_, ?_, ?_, ?_⟩
      · intro x hx
        rcases List.mem_append.1 hx with hx | hx
        · exact hp x hx
        · simp only [List.mem_singleton] at hx; subst hx; simp only; omega
      · intro x hx
        rcases List.mem_append.1 hx with hx | hx
        · have := hfs x hx; simp only; omega
        · simp only [List.mem_singleton] at hx; subst hx; simp
      · intro c hc; have := hfc c hc; simp only; omega
      · intro l hl'
        rcases List.mem_append.1 hl' with hl' | hl'
        · have := hfl l hl'; simp only; omega
        · simp only [List.mem_singleton] at hl'; subst hl'; simp
      · simp only [List.map_append, List.map_cons, List.map_nil]
        rw [List.nodup_append]
        refine ⟨hnd, by simp, ?_⟩
        intro a ha b hb
        simp only [List.mem_singleton] at hb
        obtain ⟨x, hx, rfl⟩ := List.mem_map.1 ha
        have := hfs x hx
        omega
      · intro x hx
        rcases List.mem_append.1 hx with hx | hx
        · exact hso x hx
        · simp only [List.mem_singleton] at hx; subst hx
          rw [isClosed_false_iff]
          intro c hc
          have := hfc c hc
          simp only; omega
      · intro l hl'
        rcases List.mem_append.1 hl' with hl' | hl'
        · exact ⟨(hl l hl').1, fun hlt => List.mem_append_left _ ((hl l hl').2 hlt)⟩
        · simp only [List.mem_singleton] at hl'; subst hl'
          exact ⟨fun hle => by simp only at hle; omega, fun _ => List.mem_append_right _ (List.mem_singleton.2 rfl)⟩
  | unsubscribe id =>
    simp only [rtStep, Rt.unsubscribe]
    have hsub := eraseFirst_sublist id s.r.subs
    refine ⟨hn, fun x hx => hp x (hsub.subset hx), fun x hx => hfs x (hsub.subset hx), hfc, ?_, ?_, ?_, ?_⟩
    · intro l hl'; exact hfl l (List.mem_filter.1 hl').1
    · exact (hsub.map _).nodup hnd
    · intro x hx; exact hso x (hsub.subset hx)
    · intro l hl'
      obtain ⟨hm, hne⟩ := List.mem_filter.1 hl'
      have hne' : l.id ≠ id := by simpa using hne
      exact ⟨(hl l hm).1, fun hlt => mem_eraseFirst_of_ne _ _ _ ((hl l hm).2 hlt) hne'⟩
  | signal idx =>
    simp only [rtStep, Rt.signal]
    by_cases hi : idx ≤ s.r.current
    · simp only [hi, if_true]
      exact ⟨hn, hp, hfs, hfc, hfl, hnd, hso, hl⟩
    · simp only [hi, if_false]
      have hgt : s.r.current < idx := by omega
      refine ⟨?_, ?_, ?_, ?_, hfl, ?_, ?_, ?_⟩
      · intro c hc
        rcases List.mem_append.1 hc with hc | hc
        · exact hn c hc
        · obtain ⟨x, hx, rfl⟩ := List.mem_map.1 hc
          have := (List.mem_filter.1 hx).2
          simp only [ge_iff_le, decide_eq_true_eq] at this
          exact this
      · intro x hx
        have := (List.mem_filter.1 hx).2
        simp only [ge_iff_le, Bool.not_eq_eq_eq_not, Bool.not_true, decide_eq_false_iff_not, Nat.not_le] at this
        exact this
      · intro x hx; exact hfs x (List.mem_filter.1 hx).1
      · intro c hc
        rcases List.mem_append.1 hc with hc | hc
        · exact hfc c hc
        · obtain ⟨x, hx, rfl⟩ := List.mem_map.1 hc
          exact hfs x (List.mem_filter.1 hx).1
      · exact (List.filter_sublist.map _).nodup hnd
      · intro x hx
        obtain ⟨hxm, hxf⟩ := List.mem_filter.1 hx
        simp only [ge_iff_le, Bool.not_eq_eq_eq_not, Bool.not_true, decide_eq_false_iff_not, Nat.not_le] at hxf
        rw [isClosed_false_iff]
        intro c hc
        rcases List.mem_append.1 hc with hc | hc
        · exact (isClosed_false_iff _ _).1 (hso x hxm) c hc
        · obtain ⟨y, hy, rfl⟩ := List.mem_map.1 hc
          obtain ⟨hym, hyf⟩ := List.mem_filter.1 hy
          simp only [ge_iff_le, decide_eq_true_eq] at hyf
          intro e
          simp only at e
          -- same id in a nodup id list means the same subscriber
          have : y = x := eq_of_nodup_map_id _ hnd y x hym hxm e
          subst this
          omega
      · intro l hl'
        obtain ⟨ha, hb⟩ := hl l hl'
        constructor
        · intro hle
          simp only at hle
          by_cases hold : l.target ≤ s.r.current
          · obtain ⟨c, hc, e⟩ := (isClosed_iff _ _).1 (ha hold)
            exact (isClosed_iff _ _).2 ⟨c, List.mem_append_left _ hc, e⟩
          · have hm := hb (by omega)
            refine (isClosed_iff _ _).2 ⟨⟨l.id, l.target, idx⟩, List.mem_append_right _ ?_, rfl⟩
            exact List.mem_map.2 ⟨l, List.mem_filter.2 ⟨hm, by simpa using hle⟩, rfl⟩
        · intro hlt
          simp only at hlt
          have hm := hb (by omega)
          exact List.mem_filter.2 ⟨hm, by simpa using hlt⟩
  | reset =>
    simp only [rtStep, Rt.reset]
    refine ⟨hn, by simp, by simp, hfc, by simp, by simp, by simp, by simp⟩

theorem rtRun_inv (s : RtSys) (steps : List RtStep) (h : RtInv s) : RtInv (rtRun s steps) := by
  induction steps generalizing s with
  | nil => exact h
  | cons st steps ih => exact ih _ (rtStep_inv s st h)


/-- without a `Reset`, "ever subscribed" and "live" are the same set -/
theorem ever_eq_live (steps : List RtStep) (s : RtSys) (h0 : s.ever = s.live)
    (hnr : ∀ st ∈ steps, st ≠ RtStep.reset) : (rtRun s steps).ever = (rtRun s steps).live := by
  induction steps generalizing s with
  | nil => exact h0
  | cons st steps ih =>
    simp only [rtRun, List.foldl_cons]
    apply ih
    · cases st with
      | subscribe t => simp [rtStep, h0]
      | unsubscribe id => simp [rtStep, h0]
      | signal idx => simp [rtStep, h0]
      | reset => exact absurd rfl (hnr _ List.mem_cons_self)
    · intro st' hm; exact hnr st' (List.mem_cons_of_mem _ hm)

end RqModel.Rsync

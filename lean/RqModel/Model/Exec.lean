/-
Model of the statement loops of db/db.go (C13):

* `executeWithConn`      (the /db/execute path, `db.Execute`)
* `RequestWithContext`   (the unified /db/request path, `db.Request`)

over an abstract SQLite connection with explicit transaction state.

Statements are abstracted to what decides the control flow of the two loops:
  ok δ         a write that succeeds, effect token δ (harness: INSERT of a row tagged δ)
  returning δ f  a write with a RETURNING clause; `f` = Statement.ForceQuery
  execFail     prepares, fails when stepped (constraint violation); statement-atomic, no effect
  prepFail     does not prepare (syntax error, missing table/column)
  empty        Sql == ""
  query f      a read-only statement that succeeds; `f` = ForceQuery
  queryFail    a read-only statement that prepares but fails when stepped
  partialFail δ  a statement that is NOT atomic on its own and fails part-way, leaving effect δ
               behind unless an enclosing transaction is rolled back: a text holding several
               commands (`INSERT δ; <failing insert>`, go-sqlite3 executes them in turn) or a
               multi-row `INSERT OR FAIL` whose later row violates a constraint
  startFail prep ro  a statement run through the QUERY helper (ForceQuery / RETURNING, or a read-only
               statement on the unified path) whose `QueryContext` fails to START: the statement does
               not prepare (`prep = false`: missing table or column) or has too few parameters
               (`prep = true`; `ro` = SQLite classifies it read-only). queryStmtWithConn returns the
               rows carrying the error AND the error, so the loops treat it as any other failure.
  timeout      a slow READ during which the request's context expires (deadline or cancellation): it is
               interrupted and fails, changes nothing, and SQLite does NOT roll an open transaction back.
               From then on the request's context is dead (`expires`).
  autoRollback a write that fails AND makes SQLite roll the open transaction back by itself:
               `INSERT OR ROLLBACK` hitting a constraint, `RAISE(ROLLBACK, …)` in a trigger. Outside a
               transaction it is an ordinary failing statement.
  begin / commit / rollback   explicit transaction control

The SQLite side (`sqlRun`) is the assumed semantics of one connection in WAL
mode: `committed` is what other connections see, `open_` the working copy of
the connection's open transaction. It is exercised against real SQLite by the
C13 correspondence run. The database/sql `Tx` wrapper is BEGIN / COMMIT /
ROLLBACK on the same connection (go-sqlite3 `SQLiteTx`), its failed `Commit`
issues a ROLLBACK.

`request` models the code AFTER the `fix:` commit "unified request aborts a
transaction on a prepare error and honours RollbackOnError": before it, a
statement whose prepare failed was recorded and skipped (`continue`) without
aborting the transaction, and `RollbackOnError` was ignored on this path.
-/
import RqModel.Model.Util
namespace RqModel.Exec
open RqModel.Util

inductive Stmt where
  | ok (d : Nat)
  | returning (d : Nat) (force : Bool)
  | execFail
  | prepFail
  | empty
  | query (force : Bool)
  | queryFail
  | partialFail (d : Nat)
  | startFail (prep ro : Bool)
  | autoRollback
  | timeout
  | begin
  | commit
  | rollback
deriving Repr, DecidableEq

structure Db where
  committed : List Nat := []
  open_ : Option (List Nat) := none
deriving Repr, DecidableEq

/-- what the connection itself reads -/
def Db.view (db : Db) : List Nat := db.open_.getD db.committed

def Db.write (db : Db) (d : Nat) : Db :=
  match db.open_ with
  | some w => { db with open_ := some (w ++ [d]) }
  | none => { db with committed := db.committed ++ [d] }

/-- SQLite: effect of preparing and stepping one statement to completion on the
connection; `none` = the statement fails and changes nothing. -/
def sqlRun (db : Db) : Stmt → Option Db
  | .ok d => some (db.write d)
  | .returning d _ => some (db.write d)
  | .execFail => none
  | .prepFail => none
  | .empty => some db
  | .query _ => some db
  | .queryFail => none
  | .partialFail _ => none
  | .startFail _ _ => none
  | .autoRollback => none
  | .timeout => none
  | .begin =>
    match db.open_ with
    | some _ => none
    | none => some { db with open_ := some db.committed }
  | .commit =>
    match db.open_ with
    | some w => some { committed := w, open_ := none }
    | none => none
  | .rollback =>
    match db.open_ with
    | some _ => some { db with open_ := none }
    | none => none

/-- what a FAILING statement leaves behind on the connection (nothing, except `partialFail`) -/
def failEffect (db : Db) : Stmt → Db
  | .partialFail d => db.write d
  | .autoRollback => { db with open_ := none }   -- SQLite has rolled the transaction back itself
  | _ => db

/-- `sqlite3_prepare` succeeds -/
def prepares : Stmt → Bool
  | .prepFail => false
  | .startFail prep _ => prep
  | _ => true

/-- `sqlite3_stmt_readonly` of a statement that prepares. Transaction control
statements are read-only as far as SQLite is concerned. -/
def readOnly : Stmt → Bool
  | .query _ => true
  | .queryFail => true
  | .timeout => true
  | .startFail _ ro => ro
  | .begin => true
  | .commit => true
  | .rollback => true
  | _ => false

def forced : Stmt → Bool
  | .returning _ f => f
  | .query f => f
  | .startFail _ _ => true
  | _ => false

inductive Res where
  | e (rowid : Nat)     -- ExecuteResult of a write: last_insert_id (rows_affected = 1)
  | eStale              -- ExecuteResult of a statement that writes nothing (numbers are the connection's stale values)
  | q (rows : List Nat) -- QueryRows
  | err
deriving Repr, DecidableEq

/-- rows a successful `QueryContext` yields; `db` is the state before the statement -/
def rowsOf (db : Db) : Stmt → List Nat
  | .returning d _ => [d]
  | .query _ => db.view
  | _ => []

/-- result of a successful `ExecContext` -/
def execRes (db : Db) : Stmt → Res
  | .ok _ => .e (db.view.length + 1)
  | .returning _ _ => .e (db.view.length + 1)
  | _ => .eStale

/-- `executeStmtWithConn`: (new db, result, error?) -/
def executeStmt (db : Db) (s : Stmt) : Db × Res × Bool :=
  match sqlRun db s with
  | none => (failEffect db s, .err, true)
  | some db' => (db', if forced s then .q (rowsOf db s) else execRes db s, false)

/-- `queryStmtWithConn` wrapped by `createEQQueryResponse` -/
def queryStmt (db : Db) (s : Stmt) : Db × Res × Bool :=
  match sqlRun db s with
  | none => (failEffect db s, .err, true)
  | some db' => (db', .q (rowsOf db s), false)

/-- `tx.Rollback()` / `ROLLBACK` whose error is ignored -/
def rollbackIgnore (db : Db) : Db := (sqlRun db .rollback).getD db

/-- the context a statement is handed to the driver with -/
inductive Ctx where
  | request      -- the caller's context (deadline, cancellation)
  | background   -- `context.Background()`: never expires
deriving Repr, DecidableEq

/-- the request's context is dead after this (failing) statement -/
def expires : Stmt → Bool
  | .timeout => true
  | _ => false

/-- a `ROLLBACK` handed over on context `c`: on a context that has expired it may never reach SQLite
(nothing obliges the driver, or the code before it, to run a statement that is out of time) - the
transaction then stays open; on the background context it always runs -/
def rollbackOn (c : Ctx) (expired : Bool) (db : Db) : Db :=
  if c = .request ∧ expired = true then db else rollbackIgnore db

/-- the context `handleError` / `abortOnError` issue the RollbackOnError `ROLLBACK` with (regenerated
from the sources: `Gen.RollbackCtx`) -/
def rollbackCtx : Ctx := .background

/-- the `ROLLBACK` of a RollbackOnError request after statement `s` has failed -/
def rollbackAfter (s : Stmt) (db : Db) : Db := rollbackOn rollbackCtx (expires s) db

@[simp] theorem rollbackAfter_eq (s : Stmt) (db : Db) : rollbackAfter s db = rollbackIgnore db := by
  simp [rollbackAfter, rollbackOn, rollbackCtx]

structure Req where
  tx : Bool
  rb : Bool
  stmts : List Stmt
deriving Repr

structure Out where
  db : Db
  results : List Res
  err : Bool
deriving Repr, DecidableEq

/-- the `for _, stmt := range req.Statements` loop of `executeWithConn`;
`tx` = "the local variable tx is non-nil". Returns (db, results, tx still non-nil). -/
def execLoop (rb : Bool) : Bool → Db → List Stmt → Db × List Res × Bool
  | tx, db, [] => (db, [], tx)
  | tx, db, s :: rest =>
    if s = .empty then execLoop rb tx db rest
    else
      match executeStmt db s with
      | (db', r, false) =>
        let (d, rs, t) := execLoop rb tx db' rest
        (d, r :: rs, t)
      | (db', r, true) =>
        -- handleError
        if tx then (rollbackIgnore db', [r], false)
        else if rb then (rollbackAfter s db', [r], false)
        else
          let (d, rs, t) := execLoop rb tx db' rest
          (d, r :: rs, t)

/-- `tx.Commit()`: go-sqlite3 issues ROLLBACK when COMMIT fails -/
def commitTx (db : Db) (rs : List Res) : Out :=
  match sqlRun db .commit with
  | some db' => ⟨db', rs, false⟩
  | none => ⟨rollbackIgnore db, rs, true⟩

def execute (db : Db) (r : Req) : Out :=
  if r.tx then
    match sqlRun db .begin with
    | none => ⟨db, [], true⟩
    | some db0 =>
      let (db1, rs, live) := execLoop r.rb true db0 r.stmts
      if live then commitTx db1 rs else ⟨db1, rs, false⟩
  else
    let (db1, rs, _) := execLoop r.rb false db r.stmts
    ⟨db1, rs, false⟩

/-- `abortOnError` of `RequestWithContext` (after the fix): `some db` = break -/
def abortOnError (rb tx : Bool) (s : Stmt) (db : Db) : Option Db :=
  if tx then some (rollbackIgnore db)
  else if rb then some (rollbackAfter s db)
  else none

/-- the statement loop of `RequestWithContext` -/
def reqLoop (rb : Bool) : Bool → Db → List Stmt → Db × List Res × Bool
  | tx, db, [] => (db, [], tx)
  | tx, db, s :: rest =>
    if s = .empty then reqLoop rb tx db rest
    else if !prepares s then
      -- StmtReadOnlyWithConn returned an error
      match abortOnError rb tx s db with
      | some d => (d, [.err], false)
      | none =>
        let (d, rs, t) := reqLoop rb tx db rest
        (d, .err :: rs, t)
    else
      let (db', r, e) := if readOnly s then queryStmt db s else executeStmt db s
      if e then
        match abortOnError rb tx s db' with
        | some d => (d, [r], false)
        | none =>
          let (d, rs, t) := reqLoop rb tx db' rest
          (d, r :: rs, t)
      else
        let (d, rs, t) := reqLoop rb tx db' rest
        (d, r :: rs, t)

def request (db : Db) (r : Req) : Out :=
  if r.tx then
    match sqlRun db .begin with
    | none => ⟨db, [], true⟩
    | some db0 =>
      let (db1, rs, live) := reqLoop r.rb true db0 r.stmts
      if live then commitTx db1 rs else ⟨db1, rs, false⟩
  else
    let (db1, rs, _) := reqLoop r.rb false db r.stmts
    ⟨db1, rs, false⟩

/-! ### line protocol
`reset` → `ok`
`req <exec|request> <tx 0|1> <rb 0|1> <stmt,stmt,…|->` →
   `<res;res;…|-> <committed> <open|-> <err 0|1>`
statement tokens: `w<δ>` ok, `r<δ>` returning, `R<δ>` returning+ForceQuery, `xf` execFail,
`pf` prepFail, `e` empty, `q` query, `Q` query+ForceQuery, `qf` queryFail, `p<δ>` partialFail,
`ar` autoRollback, `to` timeout, `sp` startFail (does not prepare), `sa` startFail (write, too few parameters), `sq` startFail (read-only, too few parameters), `b`, `c`, `rb`.
result tokens: `E<rowid>`, `E*`, `Q<ids .-separated>`, `err`. Lists of ids are `.`-separated, `-` when empty. -/

structure DState where
  db : Db := {}

def parseStmt (t : String) : Option Stmt :=
  match t.toList with
  | ['x', 'f'] => some .execFail
  | ['p', 'f'] => some .prepFail
  | ['e'] => some .empty
  | ['q'] => some (.query false)
  | ['Q'] => some (.query true)
  | ['q', 'f'] => some .queryFail
  | ['a', 'r'] => some .autoRollback
  | ['t', 'o'] => some .timeout
  | ['s', 'p'] => some (.startFail false false)
  | ['s', 'a'] => some (.startFail true false)
  | ['s', 'q'] => some (.startFail true true)
  | ['b'] => some .begin
  | ['c'] => some .commit
  | ['r', 'b'] => some .rollback
  | 'w' :: ds => (String.ofList ds).toNat?.map .ok
  | 'p' :: ds => (String.ofList ds).toNat?.map .partialFail
  | 'r' :: ds => (String.ofList ds).toNat?.map (.returning · false)
  | 'R' :: ds => (String.ofList ds).toNat?.map (.returning · true)
  | _ => none

def idsStr (xs : List Nat) : String :=
  if xs.isEmpty then "-" else ".".intercalate (xs.map toString)

def resStr : Res → String
  | .e n => "E" ++ toString n
  | .eStale => "E*"
  | .q rows => "Q" ++ idsStr rows
  | .err => "err"

def outStr (o : Out) : String :=
  (if o.results.isEmpty then "-" else ";".intercalate (o.results.map resStr)) ++ " " ++
  idsStr o.db.committed ++ " " ++
  (match o.db.open_ with | some w => "open:" ++ idsStr w | none => "-") ++ " " ++
  (if o.err then "1" else "0")

def parseBit (t : String) : Option Bool :=
  if t == "1" then some true else if t == "0" then some false else none

def step (d : DState) (line : String) : DState × String :=
  match words line with
  | ["reset"] => ({}, "ok")
  | ["req", path, tx, rb, stmts] =>
    match parseBit tx, parseBit rb, (if stmts == "-" then some [] else (splitComma stmts).mapM parseStmt) with
    | some tx, some rb, some ss =>
      if path == "exec" then
        let o := execute d.db ⟨tx, rb, ss⟩
        ({ db := o.db }, outStr o)
      else if path == "request" then
        let o := request d.db ⟨tx, rb, ss⟩
        ({ db := o.db }, outStr o)
      else (d, "bad-op")
    | _, _, _ => (d, "bad-op")
  | _ => (d, "bad-op")

def init : DState := {}

end RqModel.Exec
--! driver: exec RqModel.Exec

package main

// SnapVerify: call-order facts for snapshot integrity checking (C12): every consumer of
// snapshot data runs the one-time verification before it touches the files.

import (
	"go/ast"
	"go/token"
	"strings"
)

// orderedCalls lists, in source order, the callee names (last selector component) of calls in
// body that are in the wanted set.
func snapverifyOrderedCalls(x *X, body ast.Node, want map[string]bool) []string {
	type pc struct {
		pos  token.Pos
		name string
	}
	var cs []pc
	if body == nil {
		return nil
	}
	ast.Inspect(body, func(n ast.Node) bool {
		if c, ok := n.(*ast.CallExpr); ok {
			if nm := calleeName(c); want[nm] {
				cs = append(cs, pc{c.Pos(), nm})
			}
		}
		return true
	})
	for i := range cs {
		for j := i + 1; j < len(cs); j++ {
			if cs[j].pos < cs[i].pos {
				cs[i], cs[j] = cs[j], cs[i]
			}
		}
	}
	var out []string
	for _, c := range cs {
		out = append(out, c.name)
	}
	return out
}

func snapverifySet(names ...string) map[string]bool {
	m := map[string]bool{}
	for _, n := range names {
		m[n] = true
	}
	return m
}

func init() {
	register("SnapVerify", func(x *X) {
		x.Comment("snapshot/store.go (*Store).Open: selected calls in source order")
		var openCalls []string
		if fd := x.Func("snapshot", "Store", "Open"); fd != nil {
			openCalls = snapverifyOrderedCalls(x, fd.Body, snapverifySet("BeginRead", "ensureVerified", "getSnapshots", "ResolveFiles", "NewChecksummedSnapshotStreamer", "NewSnapshotStreamer"))
		}
		x.DefStrings("openCalls", openCalls)

		x.Comment("(*Store).reapInternal: selected calls in source order")
		var reapCalls []string
		if fd := x.Func("snapshot", "Store", "reapInternal"); fd != nil {
			reapCalls = snapverifyOrderedCalls(x, fd.Body, snapverifySet("FileExists", "executeReapPlan", "ensureVerified", "getSnapshots", "Check", "AddCheckpoint", "AddCalcCRC32", "WriteToFile"))
		}
		x.DefStrings("reapCalls", reapCalls)

		x.Comment("(*Store).reapInternal: WHAT is handed to the pre-consolidation checker - each `inputs.Add(arg)` as `arg @ <range expression of the innermost enclosing for, or - >`, in source order")
		var reapInputs []string
		if fd := x.Func("snapshot", "Store", "reapInternal"); fd != nil {
			var walk func(n ast.Node, rng string)
			walk = func(n ast.Node, rng string) {
				ast.Inspect(n, func(m ast.Node) bool {
					if m == n {
						return true
					}
					switch t := m.(type) {
					case *ast.RangeStmt:
						walk(t.Body, x.Src(t.X))
						return false
					case *ast.CallExpr:
						if x.Src(t.Fun) == "inputs.Add" && len(t.Args) == 1 {
							reapInputs = append(reapInputs, x.Src(t.Args[0])+" @ "+rng)
						}
					}
					return true
				})
			}
			walk(fd.Body, "-")
		}
		x.DefStrings("reapInputs", reapInputs)

		x.Comment("(*Store).EnsureVerify and ensureVerified")
		var evCalls, onceCalls []string
		if fd := x.Func("snapshot", "Store", "EnsureVerify"); fd != nil {
			evCalls = snapverifyOrderedCalls(x, fd.Body, snapverifySet("BeginReadBlocking", "ensureVerified", "checkCRCs"))
		}
		if fd := x.Func("snapshot", "Store", "ensureVerified"); fd != nil {
			onceCalls = snapverifyOrderedCalls(x, fd.Body, snapverifySet("Do", "checkCRCs", "fatalFn"))
		}
		x.DefStrings("ensureVerifyCalls", evCalls)
		x.DefStrings("ensureVerifiedCalls", onceCalls)

		x.Comment("(*Store).checkCRCs: scan, then every db file and every wal file is added to the checker")
		var crcCalls []string
		if fd := x.Func("snapshot", "Store", "checkCRCs"); fd != nil {
			crcCalls = snapverifyOrderedCalls(x, fd.Body, snapverifySet("Scan", "NewCRCChecker", "Add", "Check"))
		}
		x.DefStrings("checkCRCsCalls", crcCalls)

		x.Comment("NewHeaderFromChecksummedFile: the header CRC starts from the RECORDED value")
		recorded := false
		if fd := x.Func("snapshot", "", "NewHeaderFromChecksummedFile"); fd != nil {
			ast.Inspect(fd.Body, func(n ast.Node) bool {
				if as, ok := n.(*ast.AssignStmt); ok && x.Src(as) == "crc := hf.CRC32" {
					recorded = true
				}
				return true
			})
		}
		x.DefBool("headerUsesRecordedCRC", recorded)

		x.Comment("store/store.go (*Store).Open: EnsureVerify is guarded by the restore-on-start condition and precedes raft.NewRaft")
		guard := ""
		before := false
		found := false
		if fd := x.Func("store", "Store", "Open"); fd != nil {
			var evPos, nrPos token.Pos
			ast.Inspect(fd.Body, func(n ast.Node) bool {
				switch t := n.(type) {
				case *ast.IfStmt:
					if len(x.Calls(t.Body, "EnsureVerify")) > 0 && guard == "" {
						guard = x.Src(t.Cond)
					}
				case *ast.CallExpr:
					p := x.CalleePath(t)
					if strings.HasSuffix(p, ".EnsureVerify") && evPos == 0 {
						evPos = t.Pos()
					}
					if p == "raft.NewRaft" && nrPos == 0 {
						nrPos = t.Pos()
					}
				}
				return true
			})
			found = evPos != 0 && nrPos != 0
			before = found && evPos < nrPos
		}
		x.DefString("startupVerifyGuard", guard)
		x.DefOptBool("startupVerifyBeforeNewRaft", before, found)
	})
}

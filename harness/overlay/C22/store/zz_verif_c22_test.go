package store

// C22: loads and boots replace the database everywhere, durably; invalid loads change
// nothing. Real single-node stores are driven through generated histories mixing
// writes, loads of generated databases (WAL- and DELETE-mode files), SQL-text loads,
// boots, loads of invalid data, snapshots (with and without log truncation) and
// restarts (fast path and forced rebuild from the snapshot store); at the end of a
// history a second node joins and must receive the same database. After EVERY step the
// table is compared with the Lean model `storesm` and with the Go reference of the
// acknowledged history (the property statement).

import (
	"bytes"
	"fmt"
	"strings"
	"testing"
	"time"
)

func c22History(t *testing.T, rep *vfReport, r *vfRng, nOps int, join, voter bool) (ops, impl []string) {
	var e *ssmEnv
	defer ssmGuard(rep, &e, &ops, &impl)
	e = ssmNewEnv(t, rep, r, "C22", false)
	defer e.cleanup()
	loads, bads, restarts := 0, 0, 0
	for i := 0; i < nOps && !e.broken; i++ {
		switch k := r.Intn(100); {
		case k < 38:
			e.exec(r.Chance(35), e.genStmts())
			e.dump("table-wrong-after-write")
		case k < 52:
			e.load(e.genRows(), r.Bool())
			loads++
			e.dump("table-wrong-after-load")
			if due, err := e.s.snapshotStore.DueNext(); err == nil {
				e.emit("fullneeded", fmt.Sprint(due.IsFull()))
				if !due.IsFull() {
					rep.Fail("load-did-not-request-full-snapshot", fmt.Sprintf("history %v", e.hist), map[string]interface{}{"history": e.hist})
				}
			}
		case k < 58:
			e.loadText(e.genRows())
			loads++
			e.dump("table-wrong-after-sqltext-load")
		case k < 68:
			e.loadBad(r.Intn(3))
			bads++
			e.dump("invalid-load-changed-database")
		case k < 73:
			e.boot(e.genRows(), r.Bool())
			loads++
			e.dump("table-wrong-after-boot")
		case k < 86:
			// raft only snapshots when there is a new entry
			e.exec(false, []ssmStmt{{"p", 100, r.Intn(1000)}})
			tr := 0
			if r.Chance(60) {
				tr = 1 + r.Intn(2)
			}
			if e.snapshot(tr) {
				e.dump("table-wrong-after-snapshot")
			}
		default:
			e.closeStore()
			forced := r.Chance(50)
			if err := e.reopen(forced); err != nil {
				rep.Fail("reopen-failed", fmt.Sprintf("history %v: %v", e.hist, err), map[string]interface{}{"history": e.hist})
				rep.Case(strings.Join(e.hist, " "), true)
				return e.ops, e.impl
			}
			restarts++
			e.dump("table-wrong-after-restart")
		}
	}
	if join && !e.broken {
		c22Join(t, rep, e, voter)
	}
	rep.Case(strings.Join(e.hist, " "), loads > 0 && (restarts > 0 || bads > 0))
	rep.Sample(map[string]interface{}{"history": strings.Join(e.hist, " "), "final": e.want.String()})
	return e.ops, e.impl
}

// c22Join adds a second node to the cluster; it must end up with the same table,
// whether it is brought up to date from the log or by a snapshot transfer.
func c22Join(t *testing.T, rep *vfReport, e *ssmEnv, voter bool) {
	s1, ln1 := mustNewStore(t)
	defer ln1.Close()
	s1.HeartbeatTimeout, s1.ElectionTimeout, s1.LeaderLeaseTimeout = 300*time.Millisecond, 300*time.Millisecond, 300*time.Millisecond
	if err := s1.Open(); err != nil {
		t.Fatalf("open joiner: %v", err)
	}
	defer s1.Close(true)
	if err := ssmRetry(e.s, func() error { return e.s.Join(joinRequest(s1.ID(), s1.Addr(), voter)) }); err != nil {
		e.opFailed("join", err)
	}
	kind := "voter"
	if !voter {
		kind = "read-only-node"
	}
	if _, err := s1.WaitForLeader(60 * time.Second); err != nil {
		ssmAbandonNow(fmt.Sprintf("joiner never saw a leader: %v", err))
	}
	want := e.want.String()
	got := ""
	for i := 0; i < 1200; i++ {
		if got = ssmQueryDump(s1); got == want {
			break
		}
		time.Sleep(50 * time.Millisecond)
	}
	if got != want && s1.AppliedIndex() < e.s.AppliedIndex() {
		ssmAbandonNow("joiner did not reach the leader's applied index within 60 s")
	}
	e.hist = append(e.hist, "join("+kind+")")
	rep.Count("op-join-" + kind)
	e.emit("join", got) // the model's `joinFrom`: newest snapshot + log suffix, nothing local
	if got != want {
		rep.Fail("joining-node-has-different-database", fmt.Sprintf("history %v: joiner has %q, leader's acknowledged state is %q", e.hist, got, want),
			map[string]interface{}{"history": e.hist, "got": got, "want": want})
	}
	if got != want {
		return
	}
	// the cluster now has two nodes: both apply the same entries. A load, an invalid load and a
	// write through the leader must leave BOTH with the same table (the follower applies the
	// LOAD entry itself).
	follow := func(what string) {
		want := e.want.String()
		got := ""
		for i := 0; i < 1200; i++ {
			if got = ssmQueryDump(s1); got == want && s1.AppliedIndex() >= e.s.AppliedIndex() {
				break
			}
			time.Sleep(50 * time.Millisecond)
		}
		if got != want && s1.AppliedIndex() < e.s.AppliedIndex() {
			ssmAbandonNow("follower did not reach the leader's applied index within 60 s after " + what)
		}
		rep.Count("follower-checked-after-" + what)
		e.emit("join", got)
		if got != want {
			rep.Fail("follower-has-different-database-after-"+what, fmt.Sprintf("history %v: follower has %q, leader's acknowledged state is %q", e.hist, got, want),
				map[string]interface{}{"history": e.hist, "got": got, "want": want})
			e.broken = true
		}
	}
	// A boot bypasses the log and reaches other nodes only by snapshot transfer, which a
	// caught-up member never gets: with ANY other server attached (voter or read-only) the
	// boot must be refused and change nothing, on either node.
	{
		rows := e.genRows()
		b := ssmMakeDB(e.t, e.dir, rows, e.r.Bool())
		e.emit("setconfig "+ssmRaftConfigList(e.s), "ok")
		err := ssmRetry(e.s, func() error { _, err := e.s.ReadFrom(bytes.NewReader(b)); return err }) // "not leader" is checked first and is not the refusal under test
		e.hist = append(e.hist, fmt.Sprintf("boot-attempt(%s)", rows))
		rep.Count("boot-attempt-with-" + kind + "-attached")
		if err == nil {
			e.emit("boot "+rows.String(), "ok")
			got := ssmQueryDump(s1)
			rep.Fail("boot-accepted-with-"+kind+"-attached", fmt.Sprintf("history %v: ReadFrom succeeded on a cluster of %s; leader now has %q, the attached node %q",
				e.hist, ssmRaftConfigList(e.s), ssmQueryDump(e.s), got), map[string]interface{}{"history": e.hist})
			e.broken = true
			return
		}
		if err != ErrNotSingleNode && ssmLoadRelated(err) {
			ssmAbandonNow(fmt.Sprintf("boot attempt: %v", err))
		}
		if err != ErrNotSingleNode {
			rep.Fail("boot-attempt-unexpected-error", fmt.Sprintf("history %v: %v", e.hist, err), map[string]interface{}{"history": e.hist})
		}
		e.emit("boot "+rows.String(), "refused")
		e.dump("table-changed-by-refused-boot")
		follow("refused-boot")
		if e.broken {
			return
		}
	}
	e.load(e.genRows(), e.r.Bool())
	e.dump("table-wrong-after-load-with-follower")
	follow("load")
	if e.broken {
		return
	}
	e.loadBad(e.r.Intn(3))
	e.dump("table-wrong-after-invalid-load-with-follower")
	follow("invalid-load")
	if e.broken {
		return
	}
	e.exec(false, e.genStmts())
	e.dump("table-wrong-after-write-with-follower")
	follow("write")
}

func TestVerifC22(t *testing.T) {
	rep := vfNewReport("C22", "generated histories on real single-node stores over {write requests (plain/transaction; put, insert, delete, add, failing statement), load of a generated database file (WAL- or DELETE-mode), SQL-text load, load of invalid data carrying the SQLite magic (garbage, truncated file, corrupt header), boot, snapshot with/without log truncation, restart (fast path or forced rebuild)}, then (every second history) a second node joins as a voter or as a read-only node and must hold the same table; a boot attempted now must be refused and change nothing on either node (model: boot is enabled only on a configuration of one server) (also compared with the model's joinFrom), and a load, an invalid load and a write are then applied by both nodes and compared; the client-visible outcome of every load (ok / rejected) is compared with the model; the table is checked after every step; non-trivial = at least one load/boot and at least one restart or invalid load; distinct by history text")
	defer rep.Write()
	r := ssmRng(22)
	n := vfScale(5, 60)
	var allOps, allImpl [][]string
	for h := 0; h < n; h++ {
		ops, impl := c22History(t, rep, r, vfScale(10, 30), h%2 == 0, h%4 == 0)
		allOps = append(allOps, ops)
		allImpl = append(allImpl, impl)
	}
	ssmFloor(rep)
	rep.vfCompareSegments("storesm", allOps, allImpl)
}

/-
C07  Reaping snapshots is crash-safe.

Model: RqModel/Model/SnapFS.lean (store.go reapInternal/check, plan/plan.go, executor.go,
checker.go, snapshot.go Scan/ResolveFiles). Lemmas: RqModel/Lemmas/SnapFS.lean.

Crash model: an interrupted reap is `reapCrash … cut` for ANY `cut : ReapCut` (before /
after the plan file is in place, after any number of operations, inside a non-atomic
operation: after j WALs of the multi-WAL checkpoint, after the rename of a WAL into
place, after the checkpoint but before the WAL file is removed, partial RemoveAll with
any surviving subset of files, truncated meta.json / CRC sidecar); an interrupted start is
`recCrash … cut` for ANY `cut : RecCut`. SQLite is the parameter `c.A` with the laws
`DbLaws` (re-checkpointing the same WAL is a no-op; the zero-length WAL is a no-op).
-/
import RqModel.Lemmas.SnapFSFields
import RqModel.Lemmas.SnapFSRemoveOnly
import RqModel.Lemmas.SnapFSComplete
import RqModel.Gen.PlanShapes
namespace C07
open RqModel.SnapFS

variable {D : Type}

/-- The consolidating reap (the newest full snapshot has WALs of its own or incrementals
after it, and it is not the only snapshot): whatever point the reap is interrupted at,
and whatever points any number of following starts are interrupted at, one uninterrupted
start (`check`) succeeds, leaves no plan file and no temporary directory, and the catalog
it leaves has the same newest (index, term) and restores to the same database as before
the reap. -/
theorem reap_crash_safe {c : Ctx D} {s0 : FS D} {dw0 : Option Nat} (w : WF c s0 dw0)
    (hW : c.W ≠ []) (hm : c.olds ≠ [] ∨ c.newers ≠ [])
    (cut : ReapCut) (cuts : List RecCut) :
    ∃ s3 snaps3,
      check c.A (cuts.foldl (recCrash c.A) (reapCrash c.A s0 c.newName c.verify cut)) = .ok s3 ∧
      scan s3 = .ok snaps3 ∧
      observe c.A snaps3 = observe c.A c.snaps ∧
      s3.plan = none ∧ s3.planTmp = false ∧
      (∀ n d, s3.dir n = some d → d.tmp = false) ∧
      (∀ x ∈ snaps3, x.db.isSome → x.crc = x.db ∨ snaps3 = c.snaps) := by
  have g := w.good
  have hreach := foldl_recCrash_reach g cuts (reapCrash_reach w hW hm cut)
  obtain ⟨p, hp, hc⟩ := check_reach g hreach
  have htmp : ∀ n d, (mk c noOth p none false).dir n = some d → d.tmp = false := by
    intro n d hd
    rcases mkDir_cases c p n with h | ⟨_, h2⟩
    · have : (mk c noOth p none false).dir n = none := h noOth
      rw [this] at hd; cases hd
    · exact h2 noOth d hd
  rcases hp with rfl | ⟨dw, _, rfl⟩
  · refine ⟨_, c.snaps, hc, scan_p0 w, rfl, rfl, rfl, htmp, fun _ _ _ => Or.inr rfl⟩
  · refine ⟨_, [finalSnap c], hc, scan_final g dw, ?_, rfl, rfl, htmp, ?_⟩
    · rw [observe_final, observe_snaps w.fullDb w.newersInc]
    · intro x hx _
      simp only [List.mem_singleton] at hx
      subst hx
      exact Or.inl rfl

/-- The same for reapInternal as it is now, with its verification steps (`ensureVerified`, and
`inputs.Check` before a consolidating plan is built — `fix:` 65f298a): whatever their outcome and
wherever the reap is interrupted. They only read, and they come before the plan is written, so a
failed verification is the reap stopped before its plan. -/
theorem reap_crash_safe_with_verification {c : Ctx D} {s0 : FS D} {dw0 : Option Nat} (w : WF c s0 dw0)
    (hW : c.W ≠ []) (hm : c.olds ≠ [] ∨ c.newers ≠ []) (verifiedOK inputsOK : Bool)
    (cut : ReapCut) (cuts : List RecCut) :
    ∃ s3 snaps3,
      check c.A (cuts.foldl (recCrash c.A)
        (reapCrashChecked c.A s0 c.newName c.verify verifiedOK inputsOK cut)) = .ok s3 ∧
      scan s3 = .ok snaps3 ∧
      observe c.A snaps3 = observe c.A c.snaps ∧
      s3.plan = none ∧ s3.planTmp = false ∧
      (∀ n d, s3.dir n = some d → d.tmp = false) ∧
      (∀ x ∈ snaps3, x.db.isSome → x.crc = x.db ∨ snaps3 = c.snaps) := by
  obtain ⟨cut', e⟩ := reapCrashChecked_eq c.A w.noPlanTmp c.newName c.verify verifiedOK inputsOK cut
  rw [e]
  exact reap_crash_safe w hW hm cut' cuts

/-- The check before an interrupted plan is resumed (`verifyPlanInputs`, `fix:` 34030d3; run by
`reapInternal` and by `Store.check` at every start): in every state an interrupted reap and any
number of interrupted recoveries can leave, its database-file check never raises a false alarm —
it is made only while NO source WAL has been consumed and none sits next to the database, when the
file is still the one its sidecar describes. (`hcrc`: before the reap the full snapshot's sidecar,
if present, matches its database. The WAL-file half of the check is C12's: checksums of files that
have not been touched.) -/
theorem resume_verification_never_false_alarm {c : Ctx D} {s0 : FS D} {dw0 : Option Nat} (w : WF c s0 dw0)
    (hW : c.W ≠ []) (hm : c.olds ≠ [] ∨ c.newers ≠ []) (hcrc : ∀ y, c.full.crc = some y → y = c.d0)
    (cut : ReapCut) (cuts : List RecCut) :
    let s := cuts.foldl (recCrash c.A) (reapCrash c.A s0 c.newName c.verify cut)
    ∀ p, s.plan = some p → ∀ n W, Op.checkpoint n W ∈ p → DbCheckPasses dbUntouched s n W :=
  dbCheck_reach w.good hcrc (foldl_recCrash_reach w.good cuts (reapCrash_reach w hW hm cut))

/-- a reap that passes its verification is the reap of the plan model; one that does not returns
an error and (returning no state) has written nothing -/
theorem reap_verification_passes_or_touches_nothing (A : DbAlg D) (s : FS D) (nn : Nat) (v vok iok : Bool) :
    (∃ e, reapChecked A s nn v vok iok = .error e) ∨ reapChecked A s nn v vok iok = reap A s nn v := by
  unfold reapChecked
  cases reapGate s vok iok with
  | error e => exact Or.inl ⟨e, rfl⟩
  | ok u => exact Or.inr rfl

/-- The remove-only reap (the newest full snapshot has no WALs and nothing after it; older
snapshots exist): the same statement. The full snapshot is never touched; whatever point the
removal of the older directories is interrupted at, the next start finishes it. -/
theorem reap_crash_safe_remove_only {c : Ctx D} {s0 : FS D} {dw0 : Option Nat} (w : WF c s0 dw0)
    (o : RmOnly c) (hcrc : c.full.crc.isSome) (hmem : c.full.name ∈ c.names)
    (cut : ReapCut) (cuts : List RecCut) :
    ∃ s3 snaps3,
      check c.A (cuts.foldl (recCrash c.A) (reapCrash c.A s0 c.newName c.verify cut)) = .ok s3 ∧
      scan s3 = .ok snaps3 ∧
      observe c.A snaps3 = observe c.A c.snaps ∧
      s3.plan = none ∧ s3.planTmp = false ∧
      (∀ n d, s3.dir n = some d → d.tmp = false) := by
  have g := w.good
  have hreach := foldl_recCrash_reach1 g o cuts (reapCrash_reach1 w o cut)
  have htmp : ∀ p n d, (mk c noOth p none false).dir n = some d → d.tmp = false := by
    intro p n d hd
    rcases mkDir_cases c p n with h | ⟨_, h2⟩
    · have : (mk c noOth p none false).dir n = none := h noOth
      rw [this] at hd; cases hd
    · exact h2 noOth d hd
  have hobs : observe c.A c.snaps = some (c.full.mt.index, c.full.mt.term, some c.d0) := by
    rw [observe_snaps w.fullDb w.newersInc]
    simp [Ctx.newest, o.noNewers, rmOnly_dF o]
  rcases check_reach1 g o hreach with hc | hc
  · obtain ⟨x, hx, hmt, hdb, hw⟩ := scan_final1 g o hcrc w.fullDb hmem w.good.namesNodup dw0
    refine ⟨_, [x], hc, hx, ?_, rfl, rfl, htmp _⟩
    rw [hobs]
    simp [observe, resolveNewest, resolveRev, hmt, hdb, hw]
  · refine ⟨_, c.snaps, hc, ?_, rfl, rfl, rfl, htmp _⟩
    rw [← rmOnly_p0 o]
    exact scan_p0 w

/-- When there is nothing to reap (a single snapshot, an empty store, …) a reap interrupted
anywhere has not changed anything but possibly left REAP_PLAN.tmp. -/
theorem reap_nothing_to_do (A : DbAlg D) (s0 : FS D) (newName : Nat) (verify : Bool) (snaps : List (Snap D))
    (hs : scan s0 = .ok snaps) (hp : mkReapPlan snaps newName verify = .ok none) (cut : ReapCut) :
    reapCrash A s0 newName verify cut = s0 := by
  simp [reapCrash, hs, hp]

/-- Re-running the plan from ANY state a crash can leave (short of the final rename, after
which `LastOpDone` skips execution) gives the same final state as an uninterrupted run:
every operation is idempotent in the context of the plan. -/
theorem reap_idempotent {c : Ctx D} (g : Good c) (oth : Nat → Option (Dir D)) (pl : Option (List Op)) (pt : Bool)
    (p : Prog D) (hp : ProgOK c p) (hr : p.isRenamed = false) :
    execOps c.A c.plan (mk c oth p pl pt) = .ok (mk c oth (.renamed (finalDw c)) pl pt) :=
  exec_plan g oth pl pt p hp hr

/-- `Store.Reap()` on a running store that still has a REAP_PLAN (an earlier reap in this process
stopped with an error) resumes it through reapInternal, without the `LastOpDone` shortcut: from any
state short of the final rename that completes the reap and removes the plan. (Once the rename is
done, this path fails on the CRC step until the next start, where `check` removes the plan — see
`reap_crash_safe`; it does not damage anything: `execOp … (.calcCrc …)` fails before writing.) -/
theorem reap_resumes_interrupted_plan {c : Ctx D} (g : Good c) (oth : Nat → Option (Dir D)) (pt : Bool)
    (p : Prog D) (hp : ProgOK c p) (hr : p.isRenamed = false) (nn : Nat) (v : Bool) :
    reap c.A (mk c oth p (some c.plan) pt) nn v = .ok (mk c oth (.renamed (finalDw c)) none pt) := by
  have h1 : (mk c oth p (some c.plan) pt).plan = some c.plan := rfl
  simp only [reap, h1, exec_plan g oth _ pt p hp hr]
  rfl

/-- … and a second reap of the consolidated store is a no-op. -/
theorem reap_again_noop {c : Ctx D} (g : Good c) (dw : Option Nat) (newName' : Nat) (verify' : Bool) :
    reap c.A (mk c noOth (.renamed dw) none false) newName' verify' = .ok (mk c noOth (.renamed dw) none false) := by
  have h1 : (mk c noOth (.renamed dw) none false).plan = none := rfl
  simp [reap, h1, scan_final g dw, mkReapPlan, splitLastFull, finalSnap]

theorem runCut_plan_field (A : DbAlg D) (ops : List Op) (cut : OpCut) (k : Nat) (s : FS D) :
    (runCut A ops k cut s).plan = s.plan := (runCut_same A ops cut k s).1

/-- The plan file is in place before anything is changed: in every state an interrupted reap can
leave, either REAP_PLAN holds the complete plan, or no directory has been touched, or the reap
has run to completion. -/
theorem plan_written_before_mutation (A : DbAlg D) (s0 : FS D) (newName : Nat) (verify : Bool) (cut : ReapCut) :
    (∃ snaps p, scan s0 = .ok snaps ∧ mkReapPlan snaps newName verify = .ok (some p) ∧
        (reapCrash A s0 newName verify cut).plan = some p) ∨
    ((reapCrash A s0 newName verify cut).dir = s0.dir ∧ (reapCrash A s0 newName verify cut).names = s0.names) ∨
    (∃ snaps p s', scan s0 = .ok snaps ∧ mkReapPlan snaps newName verify = .ok (some p) ∧
        execOps A p { s0 with plan := some p } = .ok s' ∧
        reapCrash A s0 newName verify cut = { s' with plan := none }) := by
  unfold reapCrash
  cases hsc : scan s0 with
  | error e => exact Or.inr (Or.inl ⟨rfl, rfl⟩)
  | ok snaps =>
    dsimp only
    cases hp : mkReapPlan snaps newName verify with
    | error e => exact Or.inr (Or.inl ⟨rfl, rfl⟩)
    | ok op =>
      cases op with
      | none => exact Or.inr (Or.inl ⟨rfl, rfl⟩)
      | some p =>
        dsimp only
        cases cut with
        | beforePlan t => exact Or.inr (Or.inl ⟨rfl, rfl⟩)
        | inPlan k oc => exact Or.inl ⟨snaps, p, rfl, hp, by simp only [runCut_plan_field]⟩
        | planDone => exact Or.inl ⟨snaps, p, rfl, hp, by simp only [runCut_plan_field]⟩
        | complete =>
          dsimp only
          cases he : execOps A p { s0 with plan := some p } with
          | ok s' => exact Or.inr (Or.inr ⟨snaps, p, s', rfl, hp, he, rfl⟩)
          | error e => exact Or.inl ⟨snaps, p, rfl, hp, by simp only [runCut_plan_field]⟩

/-! ### tie to the source: order of the p.AddXxx calls in reapInternal (regenerated on every run) -/

def opKind : Op → String
  | .checkpoint _ _ => "AddCheckpoint"
  | .calcCrc _ => "AddCalcCRC32"
  | .removeAll _ => "AddRemoveAll"
  | .writeMeta _ _ => "AddWriteMeta"
  | .verifyDb _ => "AddVerifyDB"
  | .rename _ _ => "AddRename"

/-- the model's plan, as the sequence of plan-builder calls -/
theorem plan_kinds (c : Ctx D) :
    c.plan.map opKind =
      ["AddCheckpoint", "AddCalcCRC32"] ++ List.replicate c.newers.length "AddRemoveAll"
        ++ List.replicate c.olds.length "AddRemoveAll" ++ ["AddWriteMeta"]
        ++ (if c.verify then ["AddVerifyDB"] else []) ++ ["AddRename"] := by
  have h : ∀ l : List (Snap D), (l.map fun x => Op.removeAll x.name).map opKind = List.replicate l.length "AddRemoveAll" := by
    intro l; induction l with
    | nil => rfl
    | cons a l ih => simp [opKind, List.replicate_succ] at ih ⊢; exact ih
  simp only [Ctx.plan, List.map_append, h]
  cases c.verify <;> simp [opKind]

/-- reapInternal's consolidating branch adds, in source order: checkpoint, CRC, RemoveAll in a
loop over newerSet, RemoveAll in a loop over olderSet, write-meta, verify (under the noVerifyDB
guard), rename; the remove-only branch a RemoveAll loop over olderSet; the plan is written to disk
before it is executed — on EVERY path: reapInternal starts executing a plan in exactly two places,
the resume branch (the plan was just read from REAP_PLAN) and the final return after the top-level
WriteToFile; no branch (in particular not the remove-only one) executes a plan that is not on disk.
The verification steps of `reapGate` are where the model puts them: ensureVerified in the else
branch of the resume test, inputs.Check under `len(walFiles) > 0` after the scan and before the
plan is written. The resume path's check (`dbUntouched`) has the condition of the source text, and
both places that resume a plan (reapInternal, Store.check) run it before executing. -/
theorem plan_shape_from_source :
    RqModel.Gen.PlanShapes.reapConsolidate =
      [("AddCheckpoint", ""), ("AddCalcCRC32", ""), ("AddRemoveAll", "newerSet"), ("AddRemoveAll", "olderSet"),
       ("AddWriteMeta", ""), ("AddVerifyDB", "if"), ("AddRename", "")] ∧
    RqModel.Gen.PlanShapes.reapRemoveOnly = [("AddRemoveAll", "olderSet")] ∧
    RqModel.Gen.PlanShapes.reapWriteBeforeExecute = some true ∧
    RqModel.Gen.PlanShapes.reapExecuteSites = ["resumes-plan-read-from-file", "after-plan-written"] ∧
    RqModel.Gen.PlanShapes.reapFreshPathSteps =
      ["ensureVerified", "getSnapshots", "inputs.Check", "plan.WriteToFile", "executeReapPlan"] ∧
    RqModel.Gen.PlanShapes.reapVerifiesOnlyWhenNotResuming = true ∧
    RqModel.Gen.PlanShapes.reapInputsCheckGuard = "len(walFiles) > 0" ∧
    RqModel.Gen.PlanShapes.resumeDbCheckCondition =
      ["untouched := len(op.WALs) > 0 && !fsutil.FileExists(op.DB+\"-wal\")",
       "for w in op.WALs: if !fsutil.FileExists(w) { untouched = false }",
       "if untouched { check(op.DB) }"] ∧
    RqModel.Gen.PlanShapes.resumeChecksBeforeExecuting = true := by decide

/-! ### non-vacuity: a concrete store satisfying every hypothesis -/
section Example

def exA : DbAlg Nat := ⟨fun d w => max d w⟩

theorem exLaws : DbLaws exA := ⟨fun d w => by simp [exA], fun d => by simp [exA]⟩

def exOld : Snap Nat := { name := 1, mt := ⟨1, 10, 1⟩, db := some 1, crc := some 1, wals := [] }
def exFull : Snap Nat := { name := 2, mt := ⟨2, 30, 1⟩, db := some 2, crc := some 2, wals := [3] }
def exInc : Snap Nat := { name := 3, mt := ⟨3, 50, 2⟩, db := none, crc := none, wals := [4, 5] }

def exCtx : Ctx Nat :=
  { A := exA, names := [1, 2, 3, 7], olds := [exOld], full := exFull, newers := [exInc], d0 := 2,
    newName := 99, verify := true, fullNeeded := false }

def exS0 : FS Nat :=
  { names := [1, 2, 3, 7]
    dir := fun n =>
      if n = 1 then some (dirOf exOld) else if n = 2 then some (dirOf exFull)
      else if n = 3 then some (dirOf exInc) else if n = 7 then some { tmp := true } else none }

theorem exWF : WF exCtx exS0 none where
  good := { laws := exLaws, nodup := by decide, fresh := by decide, freshNames := by decide,
            namesNodup := by decide, wNodup := by decide }
  names := rfl
  noPlan := rfl
  noPlanTmp := rfl
  fn := rfl
  scan := by
    simp [scan, liveDirs, exS0, loadAll, loadSnap, dirOf, exOld, exFull, exInc, exCtx, Ctx.snaps, List.mergeSort, snapLe]
  fullDb := rfl
  dwOk := Or.inl rfl
  fullDir := rfl
  newerDir := by intro y hy; simp [exCtx] at hy; subst hy; rfl
  oldDir := by intro y hy; simp [exCtx] at hy; subst hy; rfl
  others := by
    intro n hn d hd
    simp only [exS0] at hd
    simp [exCtx, Ctx.snaps, exOld, exFull, exInc] at hn
    obtain ⟨h1, h2, h3⟩ := hn
    simp only [h1, h2, h3, if_false] at hd
    split at hd
    · cases hd; rfl
    · cases hd
  newDir := rfl
  newersInc := by intro y hy; simp [exCtx] at hy; subst hy; rfl

/-- the main theorem applies to it, for a crash between the two incremental WALs followed by a
crash inside the recovery's RemoveAll -/
example : ∃ s3 snaps3,
    check exA ([RecCut.inPlan 2 (.rm ⟨true, false, false, false, []⟩)].foldl (recCrash exA)
      (reapCrash exA exS0 99 true (.inPlan 0 (.ckpt false 2 1)))) = .ok s3 ∧ scan s3 = .ok snaps3 ∧
    observe exA snaps3 = observe exA exCtx.snaps :=
  let ⟨s3, snaps3, h1, h2, h3, _⟩ := reap_crash_safe exWF (by decide) (Or.inl (by decide))
    (.inPlan 0 (.ckpt false 2 1)) [RecCut.inPlan 2 (.rm ⟨true, false, false, false, []⟩)]
  ⟨s3, snaps3, h1, h2, h3⟩

example : observe exA exCtx.snaps = some (50, 2, some 5) := by decide

/-- Why the condition must be "no source WAL consumed" and not "some source WAL pending": the state
after a crash BETWEEN two WAL checkpoints of the example's three-WAL reap (the first WAL fully
checkpointed and removed, the second not yet renamed). The database has legitimately been rewritten
(2 → 3) while its sidecar is still the pre-reap one; the correct condition does not check it, the
weaker one raises a false CRC alarm — at every start. -/
def exBetween : FS Nat := mk exCtx noOth (.ckpt [(2, 3)] 3 none) (some exCtx.plan) false

theorem resume_check_between_wals_witness :
    dbUntouched exBetween 2 exCtx.W = false ∧ dbUntouchedWrong exBetween 2 exCtx.W = true ∧
    ¬ DbCheckPasses dbUntouchedWrong exBetween 2 exCtx.W ∧
    DbCheckPasses dbUntouched exBetween 2 exCtx.W := by
  have h1 : dbUntouched exBetween 2 exCtx.W = false := by decide
  have h2 : dbUntouchedWrong exBetween 2 exCtx.W = true := by decide
  refine ⟨h1, h2, ?_, ?_⟩
  · intro h
    have hd : exBetween.dir 2 = some { tmp := false, mt := some ⟨2, 30, 1⟩, db := some 3, crc := some 2, dbWal := none, wals := [] } := by
      rfl
    have := h h2 _ hd 3 2 rfl rfl
    exact absurd this (by decide)
  · intro h; rw [h1] at h; cases h

end Example

end C07

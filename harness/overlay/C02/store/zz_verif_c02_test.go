package store

// C02: writes and linearizable/strong reads form a linearizable history.
//
// A live 3-node (thorough: 5-node) in-process cluster whose nodes talk through the
// harness-owned fault-injecting Layer (clu8Layer: cut / heal / isolate links). Several
// clients issue keyed writes (unique values), strong reads and linearizable reads to ANY
// node; a node that answers ErrNotLeader makes the client go to the node it names as
// leader (what proxy.Proxy does). A seeded fault schedule runs meanwhile: leader isolated,
// follower isolated, leader + one follower cut off from the rest, leader stepdown, node
// stop / restart. Every operation is stamped with a global logical clock at invocation
// and at response; a write whose outcome the client does not learn is kept as "possibly
// applied".
//
// The recorded history is then searched for a linearization order (WGL-style search with
// memoisation, written here because porcupine is not a dependency of rqlite), and the ORDER
// FOUND is handed to the Lean-verified checker (`rqdrv linz`, RqModel/Model/Linz.lean,
// C02.checkWitness_sound). No order => the property fails on the implementation
// (rep.Fail with the history); an order the verified checker rejects => disagreement.

import (
	"context"
	"errors"
	"fmt"
	"net"
	"os"
	"os/exec"
	"sort"
	"strings"
	"sync"
	"sync/atomic"
	"testing"
	"time"

	"github.com/hashicorp/raft"
	"github.com/rqlite/rqlite/v10/cluster"
	"github.com/rqlite/rqlite/v10/command/proto"
)

type c02Op struct {
	client int
	kind   string // "w", "strong", "lin"
	key    int
	val    int64 // written value, or value read (-1 = no row)
	inv    int64
	resp   int64 // 0 = unknown outcome
	node   string
	via    string
	level  string
}

type c02Run struct {
	c     *clu8Cluster
	mu    sync.RWMutex // guards node.S / node.Up against restarts
	clock atomic.Int64
	hmu   sync.Mutex
	hist  []c02Op
	rep   *vfReport
	stop  atomic.Bool
	nextV atomic.Int64
	// an out-of-process member (kill -9 scenario): raft address -> inter-node service address
	remoteRaft, remoteSvc string
	rclient               *cluster.Client
}

// remoteDo performs the operation on the out-of-process node through cluster.Client/Service.
func (r *c02Run) remoteDo(op *c02Op, k int) (ok, definite bool, err error) {
	ctx, cancel := context.WithTimeout(context.Background(), 15*time.Second)
	defer cancel()
	notLeader := func(e error) bool { return e != nil && strings.Contains(e.Error(), "not leader") }
	if op.kind == "w" {
		er := executeRequestFromString(fmt.Sprintf("INSERT OR REPLACE INTO kv(k, v) VALUES(%d, %d)", k, op.val), false, false)
		res, _, err := r.rclient.Execute(ctx, er, r.remoteSvc, nil, 10*time.Second, 0)
		if err != nil {
			// cluster.Client.retry re-sends the command once on a fresh connection after any
			// non-timeout error, so the error we see may belong to the SECOND attempt while the
			// first was executed: every failed remote write has an unknown outcome
			_ = notLeader
			return false, false, err
		}
		for _, x := range res {
			if e := x.GetE(); (e != nil && e.Error != "") || x.GetError() != "" {
				return false, false, fmt.Errorf("remote statement error")
			}
		}
		return true, false, nil
	}
	qr := queryRequestFromString(fmt.Sprintf("SELECT v FROM kv WHERE k=%d", k), false, false, false)
	qr.Level = proto.ConsistencyLevel_LINEARIZABLE
	if op.kind == "strong" {
		qr.Level = proto.ConsistencyLevel_STRONG
	}
	rows, _, err := r.rclient.Query(ctx, qr, r.remoteSvc, nil, 10*time.Second, 0)
	if err != nil {
		return false, true, err
	}
	if len(rows) != 1 || rows[0].Error != "" {
		return false, true, fmt.Errorf("bad rows %v", rows)
	}
	op.val, op.level = -1, "REMOTE"
	if len(rows[0].Values) > 0 {
		op.val = rows[0].Values[0].Parameters[0].GetI()
	}
	return true, true, nil
}

func (r *c02Run) snapshot(i int) (*Store, string, bool) {
	r.mu.RLock()
	defer r.mu.RUnlock()
	n := r.c.Nodes[i]
	return n.S, n.Name, n.Up
}

func (r *c02Run) byAddr(addr string) (*Store, string, bool) {
	r.mu.RLock()
	defer r.mu.RUnlock()
	for _, n := range r.c.Nodes {
		if n.Addr == addr && n.Up {
			return n.S, n.Name, true
		}
	}
	return nil, "", false
}

func c02Definite(err error) bool {
	return errors.Is(err, ErrNotLeader) || errors.Is(err, ErrNotOpen) || errors.Is(err, ErrNotReady)
}

// write returns (acked, definitelyNotApplied)
func c02Write(s *Store, k int, v int64) (bool, bool, error) {
	er := executeRequestFromString(fmt.Sprintf("INSERT OR REPLACE INTO kv(k, v) VALUES(%d, %d)", k, v), false, false)
	ctx, cancel := context.WithTimeout(context.Background(), 15*time.Second)
	defer cancel()
	resp, _, err := s.Execute(ctx, er)
	if err != nil {
		return false, c02Definite(err), err
	}
	for _, x := range resp {
		if e := x.GetE(); e != nil && e.Error != "" {
			return false, false, errors.New(e.Error)
		}
		if x.GetError() != "" {
			return false, false, errors.New(x.GetError())
		}
	}
	return true, false, nil
}

func c02Read(s *Store, k int, lvl proto.ConsistencyLevel) (int64, proto.ConsistencyLevel, error) {
	qr := queryRequestFromString(fmt.Sprintf("SELECT v FROM kv WHERE k=%d", k), false, false, false)
	qr.Level = lvl
	ctx, cancel := context.WithTimeout(context.Background(), 15*time.Second)
	defer cancel()
	rows, eff, _, err := s.Query(ctx, qr)
	if err != nil {
		return 0, eff, err
	}
	if len(rows) != 1 || rows[0].Error != "" {
		return 0, eff, fmt.Errorf("bad rows: %v", rows)
	}
	if len(rows[0].Values) == 0 {
		return -1, eff, nil
	}
	return rows[0].Values[0].Parameters[0].GetI(), eff, nil
}

func (r *c02Run) client(id int, rng *vfRng, keys int, wg *sync.WaitGroup) {
	defer wg.Done()
	for !r.stop.Load() {
		time.Sleep(time.Duration(20+rng.Intn(60)) * time.Millisecond)
		target := rng.Intn(len(r.c.Nodes))
		s, name, up := r.snapshot(target)
		if !up {
			r.rep.Count("client:target-down")
			continue
		}
		k := rng.Intn(keys)
		op := c02Op{client: id, key: k, node: name}
		x := rng.Intn(100)
		switch {
		case x < 40:
			op.kind = "w"
			op.val = r.nextV.Add(1)
		case x < 65:
			op.kind = "strong"
		default:
			op.kind = "lin"
		}
		do := func(s *Store) (ok, definite bool, err error) {
			switch op.kind {
			case "w":
				return c02Write(s, k, op.val)
			case "strong":
				v, eff, err := c02Read(s, k, proto.ConsistencyLevel_STRONG)
				op.val, op.level = v, eff.String()
				return err == nil, true, err
			default:
				v, eff, err := c02Read(s, k, proto.ConsistencyLevel_LINEARIZABLE)
				op.val, op.level = v, eff.String()
				return err == nil, true, err
			}
		}
		op.inv = r.clock.Add(1)
		ok, definite, err := do(s)
		if !ok && errors.Is(err, ErrNotLeader) {
			// go to the leader this node names (one hop, as proxy.Proxy does)
			if addr, _ := s.LeaderAddr(); addr != "" {
				if ls, lname, lup := r.byAddr(addr); lup && lname != name {
					op.via = lname
					r.rep.Count("client:forwarded")
					ok, definite, err = do(ls)
					if ok {
						r.rep.Count("client:forwarded:ok")
					} else {
						r.rep.Count("client:forwarded:failed:" + c02ErrClass(err))
					}
				} else if r.rclient != nil && addr == r.remoteRaft {
					op.via = "child (cluster.Client)"
					r.rep.Count("client:forwarded-to-child-process")
					ok, definite, err = r.remoteDo(&op, k)
					if ok {
						r.rep.Count("client:forwarded-to-child-process:ok")
					} else {
						r.rep.Count("client:forwarded-to-child-process:failed:" + c02ErrClass(err))
					}
				} else {
					r.rep.Count("client:leader-named-is-self-or-down")
				}
			} else {
				r.rep.Count("client:no-leader-known")
			}
		}
		if ok {
			op.resp = r.clock.Add(1)
		}
		switch {
		case ok:
			r.rep.Count("op:" + op.kind + ":ok")
		case op.kind == "w" && !definite:
			r.rep.Count("op:w:unknown-outcome")
			r.rep.Count("op:w:unknown:" + c02ErrClass(err))
		default:
			r.rep.Count("op:" + op.kind + ":failed:" + c02ErrClass(err))
			continue // reads that failed and writes that certainly did not happen are not part of the history
		}
		r.hmu.Lock()
		r.hist = append(r.hist, op)
		r.hmu.Unlock()
	}
}

func c02ErrClass(err error) string {
	if err == nil {
		return "none"
	}
	s := err.Error()
	for _, k := range []string{"not leader", "leadership lost", "timeout waiting for fsm", "stale read", "not open", "not ready", "timed out", "deadline", "shutdown", "verify leader"} {
		if strings.Contains(s, k) {
			return strings.ReplaceAll(k, " ", "-")
		}
	}
	return "other"
}

// ---- fault schedule -----------------------------------------------------------------

func (r *c02Run) faults(rng *vfRng, n int, log *[]string) {
	kinds := []string{"isolate-leader", "isolate-follower", "minority-leader", "stepdown", "restart-follower", "restart-leader", "isolate-leader", "stepdown"}
	for i := 0; i < n; i++ {
		time.Sleep(time.Duration(600+rng.Intn(900)) * time.Millisecond)
		l := r.c.Leader(30 * time.Second)
		if l == nil {
			*log = append(*log, "no leader within 30s; healing")
			r.c.Net.HealAll()
			continue
		}
		var followers []*clu8Node
		for _, x := range r.c.Nodes {
			if x != l && x.Up {
				followers = append(followers, x)
			}
		}
		kind := kinds[rng.Intn(len(kinds))]
		hold := time.Duration(900+rng.Intn(1500)) * time.Millisecond
		r.rep.Count("fault:" + kind)
		*log = append(*log, fmt.Sprintf("%s (leader %s, %s)", kind, l.Name, hold))
		switch kind {
		case "isolate-leader":
			r.c.Net.Isolate(l.Name)
			time.Sleep(hold)
			r.c.Net.HealAll()
		case "isolate-follower":
			if len(followers) > 0 {
				r.c.Net.Isolate(followers[rng.Intn(len(followers))].Name)
				time.Sleep(hold)
				r.c.Net.HealAll()
			}
		case "minority-leader":
			// leader keeps exactly one follower when there are 5 nodes, none when there are 3
			keep := (len(r.c.Nodes) - 1) / 2
			if keep > 0 {
				keep--
			}
			for i, f := range followers {
				if i >= keep {
					r.c.Net.Cut(l.Name, f.Name)
				}
			}
			for i, f := range followers {
				for j, g := range followers {
					if i < keep && j >= keep {
						r.c.Net.Cut(f.Name, g.Name)
					}
				}
			}
			time.Sleep(hold)
			r.c.Net.HealAll()
		case "stepdown":
			l.S.Stepdown(false, "")
		case "restart-follower", "restart-leader":
			victim := l
			if kind == "restart-follower" && len(followers) > 0 {
				victim = followers[rng.Intn(len(followers))]
			}
			r.mu.Lock()
			r.c.Stop(victim)
			r.mu.Unlock()
			time.Sleep(hold / 2)
			r.mu.Lock()
			err := r.c.Restart(victim)
			r.mu.Unlock()
			if err != nil {
				*log = append(*log, "restart failed: "+err.Error())
			}
		}
	}
	r.c.Net.HealAll()
}

// ---- linearization search -----------------------------------------------------------

type c02Searcher struct {
	ops   []c02Op
	n     int
	keys  int
	memo  map[string]bool
	order []int
	steps int
	limit int
}

const c02Inf = int64(1) << 62

func (s *c02Searcher) respOf(i int) int64 {
	if s.ops[i].resp == 0 {
		return c02Inf
	}
	return s.ops[i].resp
}

// search tries to linearize the remaining operations; done[i] marks linearized ones.
func (s *c02Searcher) search(done []bool, state []int64, remainingKnown int) bool {
	if remainingKnown == 0 {
		return true
	}
	s.steps++
	if s.steps > s.limit {
		return false
	}
	key := c02Key(done, state)
	if s.memo[key] {
		return false
	}
	// the earliest response among operations not yet linearized bounds the candidates
	minResp := c02Inf
	for i := 0; i < s.n; i++ {
		if !done[i] && s.respOf(i) < minResp {
			minResp = s.respOf(i)
		}
	}
	for i := 0; i < s.n; i++ {
		if done[i] || s.ops[i].inv > minResp {
			continue
		}
		op := s.ops[i]
		if op.kind != "w" && state[op.key] != op.val {
			continue
		}
		old := state[op.key]
		if op.kind == "w" {
			state[op.key] = op.val
		}
		done[i] = true
		s.order = append(s.order, i)
		rk := remainingKnown
		if op.resp != 0 {
			rk--
		}
		if s.search(done, state, rk) {
			return true
		}
		s.order = s.order[:len(s.order)-1]
		done[i] = false
		state[op.key] = old
	}
	s.memo[key] = true
	return false
}

func c02Key(done []bool, state []int64) string {
	var b strings.Builder
	var cur byte
	for i, d := range done {
		if d {
			cur |= 1 << uint(i%8)
		}
		if i%8 == 7 {
			b.WriteByte(cur)
			cur = 0
		}
	}
	b.WriteByte(cur)
	for _, v := range state {
		fmt.Fprintf(&b, "|%d", v)
	}
	return b.String()
}

func c02Linearize(ops []c02Op, keys int) ([]int, bool, int) {
	s := &c02Searcher{ops: ops, n: len(ops), keys: keys, memo: map[string]bool{}, limit: 20000000}
	state := make([]int64, keys)
	for i := range state {
		state[i] = -1
	}
	known := 0
	for _, o := range ops {
		if o.resp != 0 {
			known++
		}
	}
	// a write whose outcome is unknown and whose value no read ever returned can be left out of
	// the linearization (that is always allowed for it, and removing a never-observed write
	// keeps every read legal): mark it done from the start so that it is never a candidate
	seen := map[[2]int64]bool{}
	for _, o := range ops {
		if o.kind != "w" {
			seen[[2]int64{int64(o.key), o.val}] = true
		}
	}
	done := make([]bool, len(ops))
	for i, o := range ops {
		if o.kind == "w" && o.resp == 0 && !seen[[2]int64{int64(o.key), o.val}] {
			done[i] = true
		}
	}
	ok := s.search(done, state, known)
	return s.order, ok, s.steps
}

func c02Lines(ops []c02Op) []string {
	var lines []string
	for _, o := range ops {
		resp := "-"
		if o.resp != 0 {
			resp = fmt.Sprint(o.resp)
		}
		if o.kind == "w" {
			lines = append(lines, fmt.Sprintf("w %d %s %d %d", o.inv, resp, o.key, o.val))
		} else {
			v := "-"
			if o.val >= 0 {
				v = fmt.Sprint(o.val)
			}
			lines = append(lines, fmt.Sprintf("r %d %s %d %s", o.inv, resp, o.key, v))
		}
	}
	return lines
}

func c02Describe(ops []c02Op) []string {
	var out []string
	for i, o := range ops {
		out = append(out, fmt.Sprintf("#%d c%d %s k%d v=%d inv=%d resp=%d node=%s via=%s lvl=%s", i, o.client, o.kind, o.key, o.val, o.inv, o.resp, o.node, o.via, o.level))
	}
	return out
}

func c02OneRun(t *testing.T, rep *vfReport, seedSalt uint64, nNodes, nClients, nFaults, keys int) {
	rng := vfNewRng(200 + seedSalt)
	c := clu8NewCluster(t)
	c.FastRaft = true // leader changes within the fault windows are the point; everything here tolerates them
	defer c.Close()
	r := &c02Run{c: c, rep: rep}
	n0, err := c.NewNode()
	if err != nil {
		clu8Skip("C02 harness: %v", err)
	}
	if err := c.Bootstrap(n0); err != nil {
		clu8Skip("C02 harness: bootstrap: %v", err)
	}
	for i := 1; i < nNodes; i++ {
		n, err := c.NewNode()
		if err != nil {
			clu8Skip("C02 harness: %v", err)
		}
		if err := clu8JoinRetry(c, n, true, 90*time.Second); err != nil {
			clu8Skip("C02 harness: join: %v", err)
		}
		if _, err := n.S.WaitForLeader(60 * time.Second); err != nil {
			clu8Skip("C02 harness: %s sees no leader", n.Name)
		}
	}
	if err := clu8ExecLeader(c, 90*time.Second, "CREATE TABLE IF NOT EXISTS kv (k INTEGER PRIMARY KEY, v INTEGER)"); err != nil {
		clu8Skip("C02 harness: %v", err)
	}
	var wg sync.WaitGroup
	for i := 0; i < nClients; i++ {
		wg.Add(1)
		go r.client(i, vfNewRng(1000+seedSalt*100+uint64(i)), keys, &wg)
	}
	var flog []string
	r.faults(rng, nFaults, &flog)
	// a quiet tail so that every client sees a healthy cluster again
	time.Sleep(1500 * time.Millisecond)
	r.stop.Store(true)
	wg.Wait()
	// final linearizable read of every key on the leader (part of the history)
	if l := c.Leader(60 * time.Second); l != nil {
		for k := 0; k < keys; k++ {
			op := c02Op{client: -1, kind: "lin", key: k, node: l.Name}
			op.inv = r.clock.Add(1)
			v, eff, err := c02Read(l.S, k, proto.ConsistencyLevel_LINEARIZABLE)
			if err == nil {
				op.val, op.level = v, eff.String()
				op.resp = r.clock.Add(1)
				r.hist = append(r.hist, op)
			}
		}
	}
	ops := append([]c02Op(nil), r.hist...)
	sort.SliceStable(ops, func(i, j int) bool { return ops[i].inv < ops[j].inv })
	nW, nS, nL, nU, nUp := 0, 0, 0, 0, 0
	for _, o := range ops {
		switch {
		case o.kind == "w" && o.resp == 0:
			nU++
		case o.kind == "w":
			nW++
		case o.kind == "strong":
			nS++
		default:
			nL++
			if o.level == "STRONG" {
				nUp++
			}
		}
	}
	rep.CountN("history:acked-writes", nW)
	rep.CountN("history:unknown-writes", nU)
	rep.CountN("history:strong-reads", nS)
	rep.CountN("history:linearizable-reads", nL)
	rep.CountN("history:linearizable-reads-upgraded-to-strong", nUp)
	rep.Case(fmt.Sprintf("run%d|%d ops|%v", seedSalt, len(ops), flog), nW > 0 && nL > 0 && nS > 0 && len(flog) > 0)
	rep.Sample(map[string]interface{}{"nodes": nNodes, "clients": nClients, "faults": flog, "ops": len(ops), "acked_writes": nW, "unknown_writes": nU, "strong_reads": nS, "linearizable_reads": nL})
	c02Verdict(t, rep, "history-not-linearizable", ops, keys, fmt.Sprintf("%d acked writes, %d unknown, %d strong reads, %d linearizable reads, faults %v", nW, nU, nS, nL, flog))
}

// c02Verdict searches a linearization of ops; none => the property fails on the implementation
// (signature sig); one => it is handed to the Lean-verified checker.
func c02Verdict(t *testing.T, rep *vfReport, sig string, ops []c02Op, keys int, what string) {
	order, ok, steps := c02Linearize(ops, keys)
	rep.CountN("search-steps", steps)
	if !ok && steps > 20000000 {
		// the search gave up: that is a limit of the harness, not a verdict on the history
		t.Fatalf("C02 harness: linearization search exceeded its step budget on a history of %d operations", len(ops))
	}
	if !ok {
		rep.Fail(sig, fmt.Sprintf("no linearization order exists for the recorded history of %d operations (%s)", len(ops), what),
			map[string]interface{}{"what": what, "history": c02Describe(ops), "model_ops": c02Lines(ops)})
		return
	}
	// hand the order found to the Lean-verified checker
	lines := append([]string{"reset"}, c02Lines(ops)...)
	want := make([]string, len(lines))
	for i := range want {
		want[i] = "ok"
	}
	var toks []string
	for _, i := range order {
		toks = append(toks, fmt.Sprint(i))
	}
	ord := "-"
	if len(toks) > 0 {
		ord = strings.Join(toks, ",")
	}
	lines = append(lines, "len", "check "+ord)
	want = append(want, fmt.Sprint(len(ops)), "true")
	rep.vfCompare("linz", lines, want, nil)
	rep.Count("witness-orders-checked-by-lean")
}

// c02FreshLeaderWindow drives the cluster into the one window the first read of a new leader
// is about: a write W is acknowledged by the old leader, the followers hold W but have not
// been told it is committed, the old leader dies, a follower is elected but CANNOT replicate
// (its AppendEntries that carry entries are refused by the harness through the Store's own
// NodeTransport hook, heartbeats pass, so VerifyLeader succeeds) — its term no-op, hence W,
// is not committed at the new leader. Two linearizable reads of W's key are then issued
// concurrently on the new leader; replication is released a little later. Both reads must
// reflect W (they are invoked after W was acknowledged).
func c02FreshLeaderWindow(t *testing.T, rep *vfReport) {
	c := clu8NewCluster(t)
	defer c.Close()
	n0, err := c.NewNode()
	if err != nil {
		clu8Skip("C02 harness: %v", err)
	}
	if err := c.Bootstrap(n0); err != nil {
		clu8Skip("C02 harness: %v", err)
	}
	var fol []*clu8Node
	for i := 0; i < 2; i++ {
		n, err := c.NewNode()
		if err != nil {
			clu8Skip("C02 harness: %v", err)
		}
		if err := clu8JoinRetry(c, n, true, 90*time.Second); err != nil {
			clu8Skip("C02 harness: join: %v", err)
		}
		if _, err := n.S.WaitForLeader(60 * time.Second); err != nil {
			clu8Skip("C02 harness: no leader on %s", n.Name)
		}
		fol = append(fol, n)
	}
	if err := clu8ExecLeader(c, 90*time.Second, "CREATE TABLE IF NOT EXISTS kv (k INTEGER PRIMARY KEY, v INTEGER)", "INSERT OR REPLACE INTO kv(k, v) VALUES(0, 1)"); err != nil {
		clu8Skip("C02 harness: %v", err)
	}
	for _, n := range append([]*clu8Node{n0}, fol...) {
		if !clu8Quiesce(n, 90*time.Second) {
			rep.Note("fresh-leader window: %s did not quiesce; scenario skipped", n.Name)
			return
		}
	}
	if !n0.S.IsLeader() {
		rep.Note("fresh-leader window: leadership moved during setup; scenario skipped")
		return
	}
	var clock atomic.Int64
	var ops []c02Op
	ops = append(ops, c02Op{kind: "w", key: 0, val: 1, inv: clock.Add(1), resp: clock.Add(1), node: n0.Name})
	// the followers may replicate W but must not learn that it is committed
	widx := n0.S.raft.LastIndex() + 1
	// (the followers' own receive hook lowers the commit index announced by the old leader: this
	// also covers the replication pipeline, which bypasses the send hook)
	var blocked atomic.Bool
	blocked.Store(true)
	for _, f := range fol {
		f.S.raftTn.SetAppendEntriesRxHandler(func(req *raft.AppendEntriesRequest) error {
			if blocked.Load() && req.LeaderCommitIndex >= widx {
				req.LeaderCommitIndex = widx - 1
				rep.Count("fresh-leader-window:commit-notification-withheld")
			}
			return nil
		})
		// a future leader among the followers will not be able to replicate, only to heartbeat
		// (a heartbeat carries neither entries nor a previous-entry index)
		f.S.raftTn.SetAppendEntriesTxHandler(func(req *raft.AppendEntriesRequest) error {
			if os.Getenv("C02_DEBUG") != "" {
				fmt.Printf("C02DBG AE from term=%d entries=%d prev=%d commit=%d blocked=%v\n", req.Term, len(req.Entries), req.PrevLogEntry, req.LeaderCommitIndex, blocked.Load())
			}
			if blocked.Load() && (len(req.Entries) > 0 || req.PrevLogEntry > 0) {
				rep.Count("fresh-leader-window:replication-withheld")
				return errors.New("c02: replication withheld")
			}
			rep.Count("fresh-leader-window:heartbeats-passed")
			return nil
		})
	}
	w := c02Op{kind: "w", key: 0, val: 2, inv: clock.Add(1), node: n0.Name}
	ok, _, werr := c02Write(n0.S, 0, 2)
	if !ok {
		rep.Note("fresh-leader window: the write was not acknowledged (%v); scenario skipped", werr)
		return
	}
	w.resp = clock.Add(1)
	ops = append(ops, w)
	c.Stop(n0)
	// wait for a new leader among the followers
	var nl *clu8Node
	deadline := time.Now().Add(60 * time.Second)
	for nl == nil && time.Now().Before(deadline) {
		for _, f := range fol {
			if f.S.IsLeader() {
				nl = f
			}
		}
		time.Sleep(10 * time.Millisecond)
	}
	if nl == nil {
		rep.Note("fresh-leader window: no new leader within 60 s; scenario skipped")
		return
	}
	rep.Note("fresh-leader window: widx=%d new leader %s commit=%d last=%d term=%d", widx, nl.Name, nl.S.raft.CommitIndex(), nl.S.raft.LastIndex(), nl.S.raft.CurrentTerm())
	inWindow := nl.S.raft.CommitIndex() < widx
	rep.Count(fmt.Sprintf("fresh-leader-window:new-leader-commit-behind-acked-write=%v", inWindow))
	type res struct {
		op  c02Op
		err error
	}
	ch := make(chan res, 2)
	read := func(id int) {
		op := c02Op{client: id, kind: "lin", key: 0, node: nl.Name}
		op.inv = clock.Add(1)
		v, eff, err := c02Read(nl.S, 0, proto.ConsistencyLevel_LINEARIZABLE)
		if err == nil {
			op.val, op.level = v, eff.String()
			op.resp = clock.Add(1)
		}
		ch <- res{op, err}
	}
	go read(1)
	time.Sleep(300 * time.Millisecond)
	go read(2)
	time.Sleep(1500 * time.Millisecond)
	blocked.Store(false) // replication may proceed: the no-op, W and the upgraded strong read commit
	got := 0
	for i := 0; i < 2; i++ {
		select {
		case r := <-ch:
			if r.err == nil {
				ops = append(ops, r.op)
				got++
				rep.Count("fresh-leader-window:read-ok:" + r.op.level)
			} else {
				rep.Count("fresh-leader-window:read-failed:" + c02ErrClass(r.err))
			}
		case <-time.After(60 * time.Second):
			rep.Note("fresh-leader window: a read did not return within 60 s")
		}
	}
	rep.Case(fmt.Sprintf("fresh-leader-window|in-window=%v|reads=%d", inWindow, got), inWindow && got > 0)
	rep.Sample(map[string]interface{}{"scenario": "fresh-leader-window", "new_leader": nl.Name, "commit_behind_acked_write": inWindow, "history": c02Describe(ops)})
	sort.SliceStable(ops, func(i, j int) bool { return ops[i].inv < ops[j].inv })
	c02Verdict(t, rep, "first-reads-of-new-leader-miss-acked-write", ops, 1,
		fmt.Sprintf("write k0=2 acknowledged by the old leader, old leader stopped, two concurrent linearizable reads on the new leader %s while its term no-op could not be replicated", nl.Name))
}

// c02DeposedLeader: a leader that has been deposed but has not noticed must not serve a
// linearizable read. All nodes run the same (long: 4 s) heartbeat / election / leader-lease
// timeouts so that the window "deposed but still believes it is leader" is wide. The leader L
// serves a strong and a linearizable read, is then cut off from the other two; node B is told
// to start an election at once (a TimeoutNow RPC, what a leadership transfer sends), wins with
// the third node's vote, commits and acknowledges a write; then a linearizable read is sent to
// L. It must fail (VerifyLeader cannot reach a quorum) or return the new value.
func c02DeposedLeader(t *testing.T, rep *vfReport) bool {
	c := clu8NewCluster(t)
	const to = 4 * time.Second
	c.Tune = func(s *Store) { s.HeartbeatTimeout, s.ElectionTimeout, s.LeaderLeaseTimeout = to, to, to }
	defer c.Close()
	n0, err := c.NewNode()
	if err != nil {
		clu8Skip("C02 harness: %v", err)
	}
	if err := c.Bootstrap(n0); err != nil {
		clu8Skip("C02 harness: %v", err)
	}
	var fol []*clu8Node
	for i := 0; i < 2; i++ {
		n, err := c.NewNode()
		if err != nil {
			clu8Skip("C02 harness: %v", err)
		}
		if err := clu8JoinRetry(c, n, true, 90*time.Second); err != nil {
			clu8Skip("C02 harness: join: %v", err)
		}
		if _, err := n.S.WaitForLeader(60 * time.Second); err != nil {
			clu8Skip("C02 harness: no leader on %s", n.Name)
		}
		fol = append(fol, n)
	}
	if err := clu8ExecLeader(c, 90*time.Second, "CREATE TABLE IF NOT EXISTS kv (k INTEGER PRIMARY KEY, v INTEGER)"); err != nil {
		clu8Skip("C02 harness: %v", err)
	}
	if !n0.S.IsLeader() {
		rep.Count("deposed-leader:aborted:leadership-moved-during-setup")
		return false
	}
	var clock atomic.Int64
	var ops []c02Op
	add := func(kind string, s *Store, name string, val int64, lvl proto.ConsistencyLevel) (bool, error) {
		op := c02Op{kind: kind, key: 0, val: val, node: name, inv: clock.Add(1)}
		if kind == "w" {
			ok, _, err := c02Write(s, 0, val)
			if !ok {
				return false, err
			}
		} else {
			v, eff, err := c02Read(s, 0, lvl)
			if err != nil {
				return false, err
			}
			op.val, op.level = v, eff.String()
		}
		op.resp = clock.Add(1)
		ops = append(ops, op)
		return true, nil
	}
	if ok, err := add("w", n0.S, n0.Name, 1, 0); !ok {
		rep.Note("deposed leader: first write failed: %v", err)
		return false
	}
	for _, f := range fol {
		deadline := time.Now().Add(60 * time.Second)
		for f.S.fsmIdx.Load() < n0.S.fsmIdx.Load() && time.Now().Before(deadline) {
			time.Sleep(10 * time.Millisecond)
		}
	}
	if ok, err := add("strong", n0.S, n0.Name, 0, proto.ConsistencyLevel_STRONG); !ok {
		rep.Note("deposed leader: strong read failed: %v", err)
		return false
	}
	if ok, err := add("lin", n0.S, n0.Name, 0, proto.ConsistencyLevel_LINEARIZABLE); !ok {
		rep.Note("deposed leader: linearizable read on the healthy leader failed: %v", err)
		return false
	}
	tCut := time.Now()
	c.Net.Isolate(n0.Name)
	b, third := fol[0], fol[1]
	var resp raft.TimeoutNowResponse
	if err := third.S.raftTn.TimeoutNow(raft.ServerID(b.Name), raft.ServerAddress(b.Addr), &raft.TimeoutNowRequest{RPCHeader: raft.RPCHeader{
		ProtocolVersion: raft.ProtocolVersionMax, ID: []byte(third.Name), Addr: []byte(third.Addr)}}, &resp); err != nil {
		rep.Note("deposed leader: TimeoutNow could not be delivered: %v", err)
		return false
	}
	deadline := time.Now().Add(3 * time.Second)
	for !b.S.IsLeader() && time.Now().Before(deadline) {
		time.Sleep(5 * time.Millisecond)
	}
	if !b.S.IsLeader() {
		rep.Note("deposed leader: %s did not win the immediate election", b.Name)
		return false
	}
	if ok, err := add("w", b.S, b.Name, 2, 0); !ok {
		rep.Note("deposed leader: write on the new leader failed: %v", err)
		return false
	}
	stillBelieves := n0.S.IsLeader()
	elapsed := time.Since(tCut)
	rep.Count(fmt.Sprintf("deposed-leader:old-leader-still-believes-it-leads=%v", stillBelieves))
	okRead, rerr := add("lin", n0.S, n0.Name, 0, proto.ConsistencyLevel_LINEARIZABLE)
	if okRead {
		rep.Count("deposed-leader:read-on-deposed-leader-served")
	} else {
		rep.Count("deposed-leader:read-on-deposed-leader-refused:" + c02ErrClass(rerr))
	}
	c.Net.HealAll()
	rep.Case(fmt.Sprintf("deposed-leader|believes=%v|served=%v", stillBelieves, okRead), stillBelieves)
	rep.Sample(map[string]interface{}{"scenario": "deposed-leader", "new_leader": b.Name, "old_leader_believed_it_led": stillBelieves,
		"write_acked_after_cut": elapsed.Round(time.Millisecond).String(), "read_on_old_leader": fmt.Sprint(rerr), "history": c02Describe(ops)})
	c02Verdict(t, rep, "deposed-leader-serves-linearizable-read", ops, 1,
		fmt.Sprintf("leader %s served a strong and a linearizable read, was cut off, %s was elected at once (TimeoutNow) and acknowledged write k0=2 %s after the cut; a linearizable read was then sent to %s, which still believed it was leader: %v",
			n0.Name, b.Name, elapsed.Round(time.Millisecond), n0.Name, stillBelieves))
	return stillBelieves
}

type c02Dialer struct{}

func (c02Dialer) Dial(addr string, timeout time.Duration) (net.Conn, error) {
	return net.DialTimeout("tcp", addr, timeout)
}

// c02ForwardedPath sends reads to a FOLLOWER and forwards them to the leader through the real
// inter-node path: cluster.Client (connection pool, per-request timeout) -> TCP ->
// cluster.Service -> the leader's Store, the way proxy.Proxy does after ErrNotLeader.
// One forwarded read is slow on the leader and runs into the client's timeout; later, after a
// further acknowledged write, more reads are forwarded by the same client. Every forwarded
// read must return ITS OWN reply: the history (acknowledged writes, forwarded reads) is
// checked like any other.
func c02ForwardedPath(t *testing.T, rep *vfReport) bool {
	c := clu8NewCluster(t)
	defer c.Close()
	n0, err := c.NewNode()
	if err != nil {
		clu8Skip("C02 harness: %v", err)
	}
	if err := c.Bootstrap(n0); err != nil {
		clu8Skip("C02 harness: %v", err)
	}
	f, err := c.NewNode()
	if err != nil {
		clu8Skip("C02 harness: %v", err)
	}
	if err := clu8JoinRetry(c, f, true, 90*time.Second); err != nil {
		clu8Skip("C02 harness: join: %v", err)
	}
	if _, err := f.S.WaitForLeader(60 * time.Second); err != nil {
		clu8Skip("C02 harness: no leader on follower")
	}
	if err := clu8ExecLeader(c, 90*time.Second, "CREATE TABLE IF NOT EXISTS kv (k INTEGER PRIMARY KEY, v INTEGER)"); err != nil {
		clu8Skip("C02 harness: %v", err)
	}
	if !n0.S.IsLeader() {
		rep.Note("forwarded path: leadership moved during setup [%s]", fmt.Sprint(n0.S.raft.State()))
		rep.Count("forwarded-path:aborted:leadership-moved-during-setup")
		return false
	}
	// the leader's inter-node service and the follower's client
	ln, err := net.Listen("tcp", "127.0.0.1:0")
	if err != nil {
		clu8Skip("C02 harness: %v", err)
	}
	svc := cluster.New(ln, n0.S, n0.S, nil)
	if err := svc.Open(); err != nil {
		clu8Skip("C02 harness: cluster service: %v", err)
	}
	defer svc.Close()
	client := cluster.NewClient(c02Dialer{}, 5*time.Second)
	var clock atomic.Int64
	var ops []c02Op
	term0 := n0.S.raft.CurrentTerm()
	diag := func() string {
		return fmt.Sprintf("n0: state=%v term=%d (was %d) lastContact-of-follower=%s ago; follower: state=%v term=%d leader=%q",
			n0.S.raft.State(), n0.S.raft.CurrentTerm(), term0, time.Since(f.S.raft.LastContact()).Round(time.Millisecond), f.S.raft.State(), f.S.raft.CurrentTerm(), func() string { a, _ := f.S.LeaderAddr(); return a }())
	}
	write := func(v int64) bool {
		op := c02Op{kind: "w", key: 0, val: v, inv: clock.Add(1), node: n0.Name}
		ok, _, err := c02Write(n0.S, 0, v)
		if !ok {
			rep.Note("forwarded path: write failed: %v [%s]", err, diag())
			return false
		}
		op.resp = clock.Add(1)
		ops = append(ops, op)
		return true
	}
	// forwarded read: the follower's Store refuses (ErrNotLeader), the request goes to the leader
	// over the real client/service pair
	fwdRead := func(sql string, lvl proto.ConsistencyLevel, timeout time.Duration, kind string) (int64, error) {
		qr := queryRequestFromString(sql, false, false, false)
		qr.Level = lvl
		if _, _, _, err := f.S.Query(context.Background(), qr); !errors.Is(err, ErrNotLeader) {
			return 0, fmt.Errorf("follower did not answer ErrNotLeader: %v", err)
		}
		op := c02Op{client: 1, kind: kind, key: 0, node: f.Name, via: n0.Name + " (cluster.Client)"}
		op.inv = clock.Add(1)
		rows, _, err := client.Query(context.Background(), qr, svc.Addr(), nil, timeout, 0)
		if err != nil {
			return 0, err
		}
		if len(rows) != 1 || rows[0].Error != "" {
			return 0, fmt.Errorf("bad rows %v", rows)
		}
		op.val = -1
		if len(rows[0].Values) > 0 {
			op.val = rows[0].Values[0].Parameters[0].GetI()
		}
		op.resp = clock.Add(1)
		ops = append(ops, op)
		return op.val, nil
	}
	if !write(1) {
		return false
	}
	if _, err := fwdRead("SELECT v FROM kv WHERE k=0", proto.ConsistencyLevel_STRONG, 10*time.Second, "strong"); err != nil {
		rep.Note("forwarded path: first forwarded read failed: %v", err)
		return false
	}
	// a read of the same key that is slow on the leader; the client gives up after 300 ms
	slow := "SELECT v FROM kv WHERE k=0 AND (SELECT count(*) FROM (WITH RECURSIVE c(x) AS (SELECT 1 UNION ALL SELECT x+1 FROM c WHERE x < 6000000) SELECT x FROM c)) > 0"
	t0 := time.Now()
	_, serr := fwdRead(slow, proto.ConsistencyLevel_STRONG, 300*time.Millisecond, "strong")
	timedOut := serr != nil && errors.Is(serr, os.ErrDeadlineExceeded)
	rep.Count(fmt.Sprintf("forwarded-path:slow-read-timed-out=%v", timedOut))
	// let the leader finish (and write its late reply onto the abandoned connection)
	time.Sleep(time.Since(t0)*0 + 100*time.Millisecond)
	if err := clu8Exec(n0.S, "SELECT 1"); err != nil {
		_ = err
	}
	// a strong read straight on the leader queues behind the slow one in the FSM: when it returns,
	// the slow one has been answered
	if _, _, err := clu8Query(n0.S, "SELECT 1", proto.ConsistencyLevel_STRONG, 0); err != nil {
		rep.Note("forwarded path: barrier read failed: %v [%s]", err, diag())
	}
	time.Sleep(200 * time.Millisecond)
	if !write(2) {
		return false
	}
	for i := 0; i < 3; i++ {
		lvl, kind := proto.ConsistencyLevel_LINEARIZABLE, "lin"
		if i == 1 {
			lvl, kind = proto.ConsistencyLevel_STRONG, "strong"
		}
		v, err := fwdRead("SELECT v FROM kv WHERE k=0", lvl, 10*time.Second, kind)
		if err != nil {
			rep.Count("forwarded-path:read-after-timeout-failed:" + c02ErrClass(err))
			continue
		}
		rep.Count(fmt.Sprintf("forwarded-path:read-after-timeout-returned=%d", v))
	}
	rep.Case(fmt.Sprintf("forwarded-path|timed-out=%v|ops=%d", timedOut, len(ops)), timedOut)
	rep.Sample(map[string]interface{}{"scenario": "forwarded-path", "slow_read_timed_out": timedOut, "history": c02Describe(ops)})
	c02Verdict(t, rep, "forwarded-read-returns-another-requests-reply", ops, 1,
		"reads forwarded from a follower through cluster.Client/cluster.Service; one forwarded read timed out at the client while the leader was still executing it; write k0=2 acknowledged; later forwarded reads by the same client")
	return timedOut
}

// ---- kill -9 of a real process (thorough tier) -------------------------------------------
//
// TestVerifC02Child is the child: a Store plus its inter-node service in a process of its own
// (the test binary re-executed). The parent kills it with SIGKILL — no Close, no snapshot on
// close, no flush — and starts it again on the same directory and addresses.
func TestVerifC02Child(t *testing.T) {
	dir := os.Getenv("C02_CHILD_DIR")
	if dir == "" {
		t.Skip()
	}
	ly := mustMockLayer(os.Getenv("C02_CHILD_RAFT"))
	s := New(&Config{DBConf: NewDBConfig(), Dir: dir, ID: "child"}, ly)
	if err := s.Open(); err != nil {
		fmt.Println("C02CHILD open failed:", err)
		os.Exit(3)
	}
	ln, err := net.Listen("tcp", os.Getenv("C02_CHILD_SVC"))
	if err != nil {
		fmt.Println("C02CHILD listen failed:", err)
		os.Exit(3)
	}
	svc := cluster.New(ln, s, s, nil)
	if err := svc.Open(); err != nil {
		os.Exit(3)
	}
	fmt.Println("C02CHILD READY")
	select {}
}

func c02FreePort() string {
	ln, err := net.Listen("tcp", "127.0.0.1:0")
	if err != nil {
		return "127.0.0.1:0"
	}
	defer ln.Close()
	return ln.Addr().String()
}

func c02KillRun(t *testing.T, rep *vfReport, seedSalt uint64) {
	rng := vfNewRng(700 + seedSalt)
	c := clu8NewCluster(t)
	defer c.Close()
	r := &c02Run{c: c, rep: rep}
	n0, err := c.NewNode()
	if err != nil {
		clu8Skip("C02 harness: %v", err)
	}
	if err := c.Bootstrap(n0); err != nil {
		clu8Skip("C02 harness: %v", err)
	}
	n1, err := c.NewNode()
	if err != nil {
		clu8Skip("C02 harness: %v", err)
	}
	if err := clu8JoinRetry(c, n1, true, 90*time.Second); err != nil {
		clu8Skip("C02 harness: %v", err)
	}
	dir, err := os.MkdirTemp("", "c02-child-")
	if err != nil {
		clu8Skip("C02 harness: %v", err)
	}
	defer os.RemoveAll(dir)
	r.remoteRaft, r.remoteSvc = c02FreePort(), c02FreePort()
	r.rclient = cluster.NewClient(c02Dialer{}, 5*time.Second)
	var child *exec.Cmd
	start := func() bool {
		child = exec.Command(os.Args[0], "-test.run", "^TestVerifC02Child$", "-test.timeout", "60m")
		child.Env = append(os.Environ(), "C02_CHILD_DIR="+dir, "C02_CHILD_RAFT="+r.remoteRaft, "C02_CHILD_SVC="+r.remoteSvc, "VERIF_OUT=")
		if err := child.Start(); err != nil {
			rep.Note("kill -9 run: cannot start child: %v", err)
			return false
		}
		deadline := time.Now().Add(60 * time.Second)
		for time.Now().Before(deadline) {
			if cn, err := net.DialTimeout("tcp", r.remoteSvc, time.Second); err == nil {
				cn.Close()
				return true
			}
			time.Sleep(50 * time.Millisecond)
		}
		rep.Note("kill -9 run: child did not come up")
		return false
	}
	kill := func() {
		if child != nil && child.Process != nil {
			child.Process.Kill() // SIGKILL
			child.Wait()
		}
	}
	defer kill()
	if !start() {
		return
	}
	if err := n0.S.Join(joinRequest("child", r.remoteRaft, true)); err != nil {
		rep.Note("kill -9 run: join of the child failed: %v", err)
		return
	}
	if err := clu8ExecLeader(c, 90*time.Second, "CREATE TABLE IF NOT EXISTS kv (k INTEGER PRIMARY KEY, v INTEGER)"); err != nil {
		clu8Skip("C02 harness: %v", err)
	}
	keys := 4
	var wg sync.WaitGroup
	for i := 0; i < 4; i++ {
		wg.Add(1)
		go r.client(i, vfNewRng(7000+seedSalt*100+uint64(i)), keys, &wg)
	}
	var flog []string
	for round := 0; round < 5; round++ {
		time.Sleep(time.Duration(800+rng.Intn(800)) * time.Millisecond)
		// hand leadership to the child, let it serve for a moment, then SIGKILL it
		if l := c.Leader(30 * time.Second); l != nil {
			if err := l.S.Stepdown(true, "child"); err == nil {
				flog = append(flog, "leadership transferred to the child process")
				rep.Count("kill9:leadership-to-child")
			}
		}
		time.Sleep(time.Duration(500+rng.Intn(1000)) * time.Millisecond)
		kill()
		flog = append(flog, "child process killed with SIGKILL")
		rep.Count("kill9:sigkill")
		time.Sleep(time.Duration(1000+rng.Intn(1000)) * time.Millisecond)
		if !start() {
			break
		}
		flog = append(flog, "child process restarted")
	}
	time.Sleep(2 * time.Second)
	r.stop.Store(true)
	wg.Wait()
	if l := c.Leader(60 * time.Second); l != nil {
		for k := 0; k < keys; k++ {
			op := c02Op{client: -1, kind: "lin", key: k, node: l.Name}
			op.inv = r.clock.Add(1)
			v, eff, err := c02Read(l.S, k, proto.ConsistencyLevel_LINEARIZABLE)
			if err == nil {
				op.val, op.level = v, eff.String()
				op.resp = r.clock.Add(1)
				r.hist = append(r.hist, op)
			}
		}
	}
	ops := append([]c02Op(nil), r.hist...)
	sort.SliceStable(ops, func(i, j int) bool { return ops[i].inv < ops[j].inv })
	remote := 0
	for _, o := range ops {
		if strings.HasPrefix(o.via, "child") {
			remote++
		}
	}
	rep.CountN("kill9:ops-served-by-the-child-process", remote)
	rep.Case(fmt.Sprintf("kill9-run%d|%d ops|%v", seedSalt, len(ops), flog), remote > 0)
	rep.Sample(map[string]interface{}{"scenario": "kill -9", "faults": flog, "ops": len(ops), "served_by_child": remote})
	c02Verdict(t, rep, "history-not-linearizable:kill-9", ops, keys, fmt.Sprintf("two in-process nodes + one member in a process of its own that repeatedly becomes leader and is killed with SIGKILL: %v", flog))
}

// c02SelfTest makes sure the search and the verified checker reject what they must: a
// history with a stale read has no order, and a wrong order is refused by Lean.
func c02SelfTest(t *testing.T, rep *vfReport) {
	stale := []c02Op{
		{kind: "w", key: 0, val: 1, inv: 1, resp: 2},
		{kind: "w", key: 0, val: 2, inv: 3, resp: 4},
		{kind: "lin", key: 0, val: 1, inv: 5, resp: 6},
	}
	if _, ok, _ := c02Linearize(stale, 1); ok {
		t.Fatalf("C02 harness: search linearized a history with a stale read")
	}
	good := []c02Op{
		{kind: "w", key: 0, val: 1, inv: 1, resp: 4},
		{kind: "w", key: 0, val: 2, inv: 2, resp: 0},
		{kind: "lin", key: 0, val: 2, inv: 5, resp: 6},
		{kind: "strong", key: 1, val: -1, inv: 5, resp: 7},
	}
	order, ok, _ := c02Linearize(good, 2)
	if !ok {
		t.Fatalf("C02 harness: search failed on a linearizable history")
	}
	var toks []string
	for _, i := range order {
		toks = append(toks, fmt.Sprint(i))
	}
	lines := append([]string{"reset"}, c02Lines(good)...)
	lines = append(lines, "check "+strings.Join(toks, ","), "check 1,0,2,3", "check 0,2,3", "reset")
	lines = append(lines, c02Lines(stale)...)
	lines = append(lines, "check 0,1,2", "check 1,0,2")
	want := []string{"ok", "ok", "ok", "ok", "ok", "true", "false", "false", "ok", "ok", "ok", "ok", "false", "false"}
	rep.vfCompare("linz", lines, want, nil)
}

// TestVerifC02KillOnly runs just the kill -9 scenario (diagnostic; run by hand)
func TestVerifC02KillOnly(t *testing.T) {
	if os.Getenv("C02_KILL_ONLY") == "" {
		t.Skip()
	}
	rep := vfNewReport("C02", "kill -9 only")
	defer rep.Write()
	c02KillRun(t, rep, 0)
}

// TestVerifC02FwdLoop repeats the forwarded-path scenario (diagnostic; run by hand)
func TestVerifC02FwdLoop(t *testing.T) {
	if os.Getenv("C02_FWD_LOOP") == "" {
		t.Skip()
	}
	rep := vfNewReport("C02", "diagnostic loop")
	defer rep.Write()
	for i := 0; i < 25; i++ {
		ok := c02ForwardedPath(t, rep)
		fmt.Printf("C02FWD run %d -> %v\n", i, ok)
	}
}

func TestVerifC02(t *testing.T) {
	rep := vfNewReport("C02", "directed scenarios (forwarded path through cluster.Client/Service with a client-side timeout; fresh-leader window; a member in a process of its own that becomes leader and is killed with SIGKILL, 5 times per run) and live 3-node (thorough: also 5-node) clusters behind a fault-injecting transport layer; 4-6 concurrent clients issuing keyed writes (unique values), strong reads and linearizable reads to any node with one-hop forwarding to the named leader; seeded fault schedules (leader isolated, follower isolated, leader in a minority, stepdown, follower/leader stop+restart); one case per run = one recorded history; non-trivial when it contains acked writes, strong and linearizable reads and at least one fault; the linearization order found by search is re-checked by the Lean-verified checkWitness")
	defer rep.Write()
	tPhase := time.Now()
	phase := func(name string) {
		rep.Count(fmt.Sprintf("phase-seconds:%s=%d", name, int(time.Since(tPhase).Seconds())))
		tPhase = time.Now()
	}
	defer func() { phase("random-runs"); clu8Floor(t, rep) }()
	c02SelfTest(t, rep)
	for attempt := 0; attempt < 3; attempt++ {
		done := false
		clu8Case(rep, "forwarded-path", 10*time.Minute, func() { done = c02ForwardedPath(t, rep) })
		if done {
			break
		}
	}
	phase("forwarded-path")
	for attempt := 0; attempt < 2; attempt++ {
		done := false
		clu8Case(rep, "deposed-leader", 10*time.Minute, func() { done = c02DeposedLeader(t, rep) })
		if done {
			break
		}
	}
	phase("deposed-leader")
	for i := 0; i < vfScale(1, 4); i++ {
		clu8Case(rep, "fresh-leader-window", 10*time.Minute, func() { c02FreshLeaderWindow(t, rep) })
	}
	phase("fresh-leader-window")
	for i := 0; i < vfScale(0, 4); i++ { // thorough tier only (keeps the quick tier within its time budget)
		clu8Case(rep, "kill-9", 15*time.Minute, func() { c02KillRun(t, rep, uint64(i)) })
	}
	runs := vfScale(2, 10)
	for i := 0; i < runs; i++ {
		nodes := 3
		if vfThorough() && i%3 == 2 {
			nodes = 5
		}
		clu8Case(rep, "random-run", 20*time.Minute, func() { c02OneRun(t, rep, uint64(i), nodes, vfScale(4, 6), vfScale(7, 20), 4) })
	}
}

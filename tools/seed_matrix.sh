#!/bin/bash
# tools/seed_matrix.sh [tier] [jobs] — run every seeded change against the check of its property
# (and, if listed in meta.json "also_detected_by", against those checks too); write seeded/RESULTS.md
cd "$(dirname "$0")/.."
tier=${1:-quick}; jobs=${2:-3}
out=${SEED_RESULTS:-seeded/RESULTS.md}
rows=.build/seedrows; rm -rf $rows; mkdir -p $rows
one() {
  name=$1; tier=$2; d=seeded/$name
  prop=$(python3 -c "import json;print(json.load(open('$d/meta.json'))['property'])")
  obs=$(python3 -c "import json;print(json.load(open('$d/meta.json')).get('obsolete','')[:200])")
  also=$(python3 -c "import json;print(' '.join(json.load(open('$d/meta.json')).get('also_detected_by',[])))")
  if [ -n "$obs" ]; then echo "| $name | $prop | OBSOLETE (no longer breaks the property on HEAD) | $obs |" > .build/seedrows/$name; echo "OBSOLETE $name"; return; fi
  if [ ! -f checks/$prop.json ]; then echo "| $name | $prop | no check | |" > .build/seedrows/$name; return; fi
  r=$(tools/run_seeded.sh $name $tier $prop $also 2>&1)
  res=""
  for id in $prop $also; do
    line=$(echo "$r" | grep -E "(DETECTED|MISSED|PATCH-DOES-NOT-APPLY) $name( by $id)?" | grep -E "by $id|PATCH" | head -1)
    st=${line%% *}; nf=$(echo "$line" | grep -o 'no-failing-input-found')
    res="$res $id:${st:-?}${nf:+(fact/correspondence only)}"
  done
  how=$(echo "$r" | grep '^\[check\] property fails' | head -1 | cut -c1-260 | sed 's/|/\\|/g')
  [ -z "$how" ] && how=$(echo "$r" | grep '^\[check\] broken' | head -1 | cut -c1-200 | sed 's/|/\\|/g')
  echo "| $name | $prop |$res | $how |" > .build/seedrows/$name
  echo "$name:$res"
}
export -f one
ls seeded | grep -v RESULTS | grep -E "${SEED_FILTER:-.}" | xargs -P $jobs -I{} bash -c "one {} $tier"
{
echo "# Seeded changes vs. checks ($tier tier, $(date -u +%FT%TZ), /repo $(git -C /repo rev-parse --short HEAD), /verif $(git rev-parse --short HEAD))"
echo
echo "| seed | property | result per check (property's own check first) | how it was reported |"
echo "|---|---|---|---|"
for f in $(ls $rows | sort); do cat $rows/$f; done
} > $out
git checkout -- evidence 2>/dev/null || true

/-
C29  Commands survive encoding into the log unchanged.

Model: RqModel/Model/Marshal.lean. protobuf and gzip are parameters with round-trip
laws (`Codecs.Lawful`). Thresholds, comparison operators, envelope construction sites
and the decoding switch are regenerated from the source into RqModel/Gen/Marshal.lean
on every run and connected to the model here.
-/
import RqModel.Model.Marshal
import RqModel.Gen.Marshal
import RqModel.Gen.Gunzip
import RqModel.Lemmas.MarshalInst
namespace C29
open RqModel.Marshal

/-! ### round trip -/

theorem unmarshalSub_marshalReq {α : Type} (m : Marshaler) (G : Gz) (hG : G.Lawful) (P : Pb α)
    (hP : P.Lawful) (req : α → Option Request) (r : α) (t : Nat) :
    unmarshalSub G P ⟨t, (marshalReq m G P req r).1, (marshalReq m G P req r).2⟩ = some r := by
  unfold marshalReq unmarshalSub
  by_cases h : decision m (sqlLens (req r)) (P.ser r).length (G.comp (P.ser r)).length = true
  · simp [h, hG (P.ser r), hP r]
  · simp [h, hP r]

/-- **unmarshal_marshal_id.** For every command type, every request (any statements,
parameters, flags), every marshaler configuration (any thresholds, forced or not):
what `Process` decodes from the log entry is the request that was encoded. -/
theorem unmarshal_marshal_id (m : Marshaler) (C : Codecs) (hC : C.Lawful) (c : Cmd) :
    decode C (encode m C c) = some c := by
  unfold decode encode
  rw [hC.cmd]
  cases c with
  | query q =>
    simp only [Option.bind_some, decodeEnvelope, envelope, tQuery, if_true]
    rw [unmarshalSub_marshalReq m C.gz hC.gz C.query hC.query]; rfl
  | execute e =>
    simp only [Option.bind_some, decodeEnvelope, envelope, tQuery, tExecute]
    rw [if_neg (by decide), if_pos trivial, unmarshalSub_marshalReq m C.gz hC.gz C.execute hC.execute]; rfl
  | executeQuery e =>
    simp only [Option.bind_some, decodeEnvelope, envelope, tQuery, tExecute, tExecuteQuery]
    rw [if_neg (by decide), if_neg (by decide), if_pos trivial,
      unmarshalSub_marshalReq m C.gz hC.gz C.executeQuery hC.executeQuery]; rfl
  | load l =>
    simp [decodeEnvelope, envelope, tQuery, tExecute, tExecuteQuery, tLoad, hC.gz _, hC.load l]
  | loadChunk c =>
    simp [decodeEnvelope, envelope, tQuery, tExecute, tExecuteQuery, tLoad, tLoadChunk, hC.loadChunk c]
  | noop n =>
    simp [decodeEnvelope, envelope, tQuery, tExecute, tExecuteQuery, tLoad, tLoadChunk, tNoop, hC.noop n]

/-- decoding does not depend on the decoder's own marshaler settings: an entry written
under thresholds `m` is read back identically by any node (`decode` has no `Marshaler`
argument), and two leaders with different settings produce entries that decode equal -/
theorem settings_independent (m₁ m₂ : Marshaler) (C : Codecs) (hC : C.Lawful) (c : Cmd) :
    decode C (encode m₁ C c) = decode C (encode m₂ C c) := by
  rw [unmarshal_marshal_id m₁ C hC, unmarshal_marshal_id m₂ C hC]

/-- **Marshal's result is a value.** Encoding a whole batch of commands and only afterwards
decoding each entry gives back the batch: no entry is affected by the encoding of the
others (in the model an entry is a byte list, so this is `map`; the harness holds the real
byte slices of a batch, and of concurrent marshals, before decoding them, which is where an
implementation that hands out shared buffers breaks). -/
theorem batch_unmarshal_marshal_id (m : Marshaler) (C : Codecs) (hC : C.Lawful) (cs : List Cmd) :
    (cs.map (encode m C)).map (decode C) = cs.map some := by
  simp [List.map_map, Function.comp_def, unmarshal_marshal_id m C hC]

/-- the i-th entry of a batch is the entry of the i-th command alone, whatever else is in
the batch and in whatever order the batch is encoded -/
theorem batch_entries_independent (m : Marshaler) (C : Codecs) (cs : List Cmd) (i : Nat) (h : i < cs.length) :
    (cs.map (encode m C))[i]'(by simpa using h) = encode m C cs[i] := by
  simp

/-! ### the gzip law is unbounded

`Gz.Lawful` says `uncomp (comp b) = some b` for EVERY `b`: there is no bound on how much a
compressed entry may inflate to. A decoder that caps the output at `ratio × compressed size`
is not lawful as soon as some payload compresses better than that (DEFLATE reaches about
1032:1; Go's compress/flate passes 1000:1 on long uniform runs). -/

/-- `gzUncompress` with an inflation cap: at most `ratio × len(b)` bytes are read -/
def capGz (G : Gz) (ratio : Nat) : Gz :=
  { comp := G.comp, uncomp := fun b => (G.uncomp b).map (fun u => u.take (ratio * b.length)) }

/-- **ratio_cap_breaks_law.** Any inflation cap turns a lawful gzip into an unlawful one on every
payload that compresses better than the cap: such an entry would be truncated on decode. -/
theorem ratio_cap_breaks_law (G : Gz) (hG : G.Lawful) (ratio : Nat) (x : Bytes)
    (hx : ratio * (G.comp x).length < x.length) : ¬ (capGz G ratio).Lawful := by
  intro h
  have := h x
  simp only [capGz, hG x, Option.map_some, Option.some.injEq] at this
  have hl := congrArg List.length this
  simp only [List.length_take] at hl
  omega

open RqModel.Gen.Gunzip in
/-- **gunzip_unbounded_fact.** In the CURRENT source `gzUncompress` applies `io.ReadAll` directly to
the gzip reader: no `io.LimitReader` / `CopyN` caps the inflated size. -/
theorem gunzip_unbounded_fact :
    gzUncompressCalls = ["NewReader", "NewReader", "ReadAll", "Close"] ∧
    gzUncompressReadAllArg = "gz" ∧ gzUncompressHasLimit = false := by decide

/-! ### compression rule -/

/-- **compressed_only_if_smaller_or_forced.** If the entry is marked compressed then a
threshold was reached AND (the stored bytes are strictly fewer than the uncompressed
protobuf bytes OR compression is forced). -/
theorem compressed_only_if_smaller_or_forced {α : Type} (m : Marshaler) (G : Gz) (P : Pb α)
    (req : α → Option Request) (r : α) (h : (marshalReq m G P req r).2 = true) :
    wantCompress m (sqlLens (req r)) = true ∧
    ((marshalReq m G P req r).1.length < (P.ser r).length ∨ m.force = true) := by
  unfold marshalReq at h ⊢
  by_cases hd : decision m (sqlLens (req r)) (P.ser r).length (G.comp (P.ser r)).length = true
  · simp only [hd, if_true]
    unfold decision at hd
    simp only [Bool.and_eq_true, Bool.or_eq_true, decide_eq_true_eq] at hd
    exact ⟨hd.1, hd.2⟩
  · simp [hd] at h

/-- unforced marshalling never makes an entry larger than its plain protobuf form -/
theorem never_larger_unless_forced {α : Type} (m : Marshaler) (G : Gz) (P : Pb α)
    (req : α → Option Request) (r : α) (hf : m.force = false) :
    (marshalReq m G P req r).1.length ≤ (P.ser r).length := by
  unfold marshalReq
  by_cases hd : decision m (sqlLens (req r)) (P.ser r).length (G.comp (P.ser r)).length = true
  · simp only [hd, if_true]
    unfold decision at hd
    simp [hf] at hd
    omega
  · simp [hd]

/-- **threshold_rule.** Compression is attempted exactly when the statement count reaches
the batch threshold or some SQL text reaches the size threshold (both inclusive). -/
theorem threshold_rule (m : Marshaler) (lens : List Nat) :
    wantCompress m lens = true ↔ ((lens.length : Int) ≥ m.batch ∨ ∃ l ∈ lens, (l : Int) ≥ m.size) := by
  simp [wantCompress]

/-- below both thresholds the entry is stored uncompressed, whatever gzip would give,
even when compression is "forced" -/
theorem below_thresholds_plain {α : Type} (m : Marshaler) (G : Gz) (P : Pb α)
    (req : α → Option Request) (r : α)
    (h1 : ((sqlLens (req r)).length : Int) < m.batch) (h2 : ∀ l ∈ sqlLens (req r), (l : Int) < m.size) :
    marshalReq m G P req r = (P.ser r, false) := by
  have : wantCompress m (sqlLens (req r)) = false := by
    cases hw : wantCompress m (sqlLens (req r)) with
    | false => rfl
    | true =>
      rcases (threshold_rule m _).1 hw with h | ⟨l, hl, h⟩
      · omega
      · have := h2 l hl; omega
  simp [marshalReq, decision, this]

/-- at or above a threshold, gzip is kept iff strictly smaller or forced -/
theorem at_threshold_rule {α : Type} (m : Marshaler) (G : Gz) (P : Pb α)
    (req : α → Option Request) (r : α) (hw : wantCompress m (sqlLens (req r)) = true) :
    (marshalReq m G P req r).2 = (decide ((G.comp (P.ser r)).length < (P.ser r).length) || m.force) := by
  unfold marshalReq decision
  rw [hw]
  simp only [Bool.true_and]
  by_cases h : (decide ((P.ser r).length > (G.comp (P.ser r)).length) || m.force) = true
  · rw [if_pos h]; simpa using h
  · rw [if_neg h]
    have : (decide ((P.ser r).length > (G.comp (P.ser r)).length) || m.force) = false := by simpa using h
    simpa using this.symm

/-! ### regenerated facts tie the model's constants, operators and dispatch to the source -/
open RqModel.Gen.Marshal in
theorem thresholds_fact :
    defaultBatchThreshold = some 512 ∧ defaultSizeThreshold = some 4096 ∧
    newMarshalerBatch = some (({} : Marshaler).batch) ∧ newMarshalerSize = some (({} : Marshaler).size) ∧
    newMarshalerForce = some (({} : Marshaler).force) := by decide

open RqModel.Gen.Marshal in
/-- the comparison operators of `Marshal` (`>=`, `>=`, `>` … `||`) are the model's -/
theorem marshal_conditions_fact :
    marshalConds = ["len(stmts) >= m.BatchThreshold", "len(stmts[i].Sql) >= m.SizeThreshold",
      "err != nil", "compress", "err != nil", "ubz > len(gzData) || m.ForceCompression"] ∧
    unmarshalSubGuard = "c.Compressed" := by decide

open RqModel.Gen.Marshal in
theorem command_types_fact :
    commandTypes = [("QUERY", tQuery), ("EXECUTE", tExecute), ("NOOP", tNoop), ("LOAD", tLoad),
      ("JOIN", tJoin), ("EXECUTE_QUERY", tExecuteQuery), ("LOAD_CHUNK", tLoadChunk)] := by decide

open RqModel.Gen.Marshal in
/-- every envelope the store builds pairs the type with the encoder the model uses, and
`Process` decodes each type with the matching decoder -/
theorem dispatch_fact :
    storeEnvelopes = [("execute", "EXECUTE", "compressed", ["tryCompress", "Marshal"]),
      ("Query", "QUERY", "compressed", ["tryCompress", "Marshal"]),
      ("Request", "EXECUTE_QUERY", "compressed", ["tryCompress", "Marshal"]),
      ("load", "LOAD", "", ["MarshalLoadRequest", "Marshal"]),
      ("Noop", "NOOP", "", ["MarshalNoop", "Marshal"])] ∧
    processCases = [("QUERY", ["UnmarshalSubCommand"]), ("EXECUTE", ["UnmarshalSubCommand"]),
      ("EXECUTE_QUERY", ["UnmarshalSubCommand"]), ("LOAD", ["UnmarshalLoadRequest"]),
      ("LOAD_CHUNK", ["UnmarshalLoadChunkRequest"]), ("NOOP", []), ("default", [])] ∧
    calls_MarshalLoadRequest = ["pb.Marshal", "gzCompress"] ∧
    calls_UnmarshalLoadRequest = ["gzUncompress", "pb.Unmarshal"] ∧
    calls_MarshalLoadChunkRequest = ["pb.Marshal"] ∧ calls_UnmarshalLoadChunkRequest = ["pb.Unmarshal"] ∧
    calls_MarshalNoop = ["pb.Marshal"] ∧ calls_UnmarshalNoop = ["pb.Unmarshal"] ∧
    calls_Marshal = ["pb.Marshal"] ∧ calls_Unmarshal = ["pb.Unmarshal"] := by decide

/-! ### non-vacuity (1): the codec laws are satisfiable

`concreteCodecs` (Lemmas/MarshalInst.lean) is a family of real, prefix-free serialisers for every
message type with an identity "gzip"; it satisfies every law of `Codecs.Lawful`, so the round-trip
theorems above are not vacuous. -/

theorem codecs_lawful_inhabited : ∃ C : Codecs, C.Lawful := ⟨concreteCodecs, concreteCodecs_lawful⟩

example (m : Marshaler) (c : Cmd) : decode concreteCodecs (encode m concreteCodecs c) = some c :=
  unmarshal_marshal_id m concreteCodecs concreteCodecs_lawful c

/-- with compression forced and the batch threshold at 0 the entry really takes the compressed path -/
example :
    (envelope { batch := 0, force := true } concreteCodecs (.execute ⟨some { statements := [⟨"x", [], false, false, false⟩] }, true⟩)).compressed = true := by
  simp [envelope, marshalReq, decision, wantCompress, sqlLens]

/-! ### non-vacuity (2): a concrete lawful codec family and requests on both sides of a threshold -/

/-- toy codecs: protobuf = a one-byte-per-statement stand-in is not injective, so the
examples below use the decision functions directly, which is where the hypotheses live -/
example :
    let m : Marshaler := { batch := 3, size := 10 }
    wantCompress m [1, 2] = false ∧ wantCompress m [1, 2, 3] = true ∧ wantCompress m [10] = true ∧
    wantCompress m [9] = false ∧
    decision m [10] 100 99 = true ∧ decision m [10] 100 100 = false ∧
    decision { m with force := true } [10] 100 200 = true ∧
    decision { m with force := true } [9] 100 50 = false := by decide

example : wantCompress { batch := 0, size := 4096 } [] = true := by decide

end C29

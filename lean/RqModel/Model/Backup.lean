/-
Model for C21 (backups are complete, point-in-time consistent copies).

Three parts, each modelling the code that exists:

1. `Db` / `Ev`: store/store.go `Backup` (binary, no vacuum) and `fsmSnapshot` over the
   snapshot gate (`rsync.CheckAndSet`): committed transactions live in the WAL until a
   checkpoint moves them into the main file; checkpoints run only inside `fsmSnapshot`
   while it holds the gate; `Backup` takes the gate ("backup") and copies the MAIN FILE in
   chunks while writes keep landing in the WAL.

2. `dump`: db/db.go `Dump` (SQL format): one connection, one SELECT per table. Inside a
   read transaction every SELECT sees the same committed state; without one every SELECT
   sees the state committed at its own time.

3. `clientBackup`: cluster/client.go `Backup` + cluster/service.go BACKUP_STREAM:
   response frame, then the ALWAYS gzip-compressed backup until the connection closes; the
   stream may be cut at any byte. gzip is a parameter with assumed laws (`GzipLaw`).
-/
import RqModel.Model.Util
namespace RqModel.Backup
open RqModel.Util

/-! ### 1. gate + main file / WAL -/

inductive Owner where
  | free | snapshot | backup
deriving Repr, DecidableEq

/-- `n` transactions have committed; the main file holds the first `main` of them (the
rest are in the WAL); `copied` = versions of the main file the running backup has read,
one per chunk. -/
structure Db where
  n      : Nat := 0
  main   : Nat := 0
  gate   : Owner := .free
  copied : List Nat := []
  /-- version of the main file when the running backup took the gate -/
  began  : Nat := 0
  /-- finished binary backups: (main-file version when the gate was taken, chunk versions) -/
  done   : List (Nat × List Nat) := []
deriving Repr, DecidableEq

inductive Ev where
  | write                -- a transaction commits (goes to the WAL)
  | snapBegin            -- fsmSnapshot: snapshotCAS.Begin("snapshot")
  | checkpoint (k : Nat) -- inside fsmSnapshot: the main file advances to min (main+k+1) n
  | snapEnd
  | backupBegin          -- Backup: snapshotCAS.BeginWithRetry("backup")
  | copyChunk            -- io.Copy reads the next chunk of the main file
  | backupEnd
deriving Repr, DecidableEq

/-- a step that is not enabled leaves the state unchanged (the real call fails or waits) -/
def stepDb (d : Db) : Ev → Db
  | .write => { d with n := d.n + 1 }
  | .snapBegin => if d.gate = .free then { d with gate := .snapshot } else d
  | .checkpoint k => if d.gate = .snapshot then { d with main := min (d.main + k + 1) d.n } else d
  | .snapEnd => if d.gate = .snapshot then { d with gate := .free } else d
  | .backupBegin => if d.gate = .free then { d with gate := .backup, copied := [], began := d.main } else d
  | .copyChunk => if d.gate = .backup then { d with copied := d.copied ++ [d.main] } else d
  | .backupEnd => if d.gate = .backup then { d with gate := .free, done := d.done ++ [(d.began, d.copied)], copied := [] } else d

def runDb (d : Db) : List Ev → Db
  | [] => d
  | e :: rest => runDb (stepDb d e) rest

/-! ### 2. SQL dump over several tables -/

/-- `states[i]` = the committed state (transaction count) current when the i-th table's
SELECT runs; with a read transaction all SELECTs see the state of the first one. -/
def dump (inReadTx : Bool) (states : List Nat) : List Nat :=
  match states with
  | [] => []
  | s0 :: rest => if inReadTx then s0 :: rest.map (fun _ => s0) else s0 :: rest

/-! ### 3. relay of a backup through another node -/

/-- assumed laws of gzip (compress/gzip Writer + Reader with Multistream(false)) -/
structure GzipLaw where
  enc : List UInt8 → List UInt8
  dec : List UInt8 → Option (List UInt8)
  round : ∀ x, dec (enc x) = some x
  /-- a strict prefix of a compressed stream never decodes (header, body or trailer cut) -/
  cut : ∀ x p, p < (enc x).length → dec ((enc x).take p) = none
  /-- what a gzip writer has emitted for input `x` when it is abandoned WITHOUT `Close`
  (no final block, no trailer) -/
  open_ : List UInt8 → List UInt8
  /-- neither that nor any prefix of it decodes -/
  open_cut : ∀ x p, dec ((open_ x).take p) = none

inductive Res where
  | error
  | ok (bytes : List UInt8)
deriving Repr, DecidableEq

/-- `Client.Backup` reading `frame ++ gz` from the connection, of which `cut` bytes arrive.
`frame` = length-prefixed CommandBackupResponse; `respErr` = it carries an error;
`validate` = does the compress=true branch check the stream (false: raw `io.Copy` until EOF). -/
def clientStream (G : GzipLaw) (validate compress : Bool) (frame : List UInt8) (respErr : Bool)
    (gz : List UInt8) (cut : Nat) : Res :=
  let got := (frame ++ gz).take cut
  if got.length < frame.length then .error          -- readResponse: short read
  else if respErr then .error
  else
    let body := got.drop frame.length
    if compress then
      (if validate then (match G.dec body with | some _ => .ok body | none => .error) else .ok body)
    else match G.dec body with
      | some x => .ok x
      | none => .error

/-- the serving node's backup ran to completion: it wrote `G.enc payload` -/
def clientBackup (G : GzipLaw) (validate compress : Bool) (frame : List UInt8) (respErr : Bool)
    (payload : List UInt8) (cut : Nat) : Res :=
  clientStream G validate compress frame respErr (G.enc payload) cut

/-- what `Store.Backup` (compress forced on by the serving node) has written to the
connection when its source yielded `produced` and then `ok` says whether it completed.
`closeOnErr` = the gzip writer is closed (trailer written) even after a failure — the tree
before the `fix:` commit; now it is closed only on success. -/
def served (G : GzipLaw) (closeOnErr : Bool) (produced : List UInt8) (ok : Bool) : List UInt8 :=
  if ok || closeOnErr then G.enc produced else G.open_ produced

/-- a relayed backup whose production on the serving node may fail part way -/
def relayed (G : GzipLaw) (closeOnErr validate compress : Bool) (frame : List UInt8)
    (produced : List UInt8) (ok : Bool) (cut : Nat) : Res :=
  clientStream G validate compress frame false (served G closeOnErr produced ok) cut

/-! ### 4. the HTTP surface: GET /db/backup streams into the response -/

/-- what the HTTP client observes: status, body bytes, and whether the response ended
normally (false = the connection was broken: a transport error while reading the body) -/
structure HttpSeen where
  status : Nat
  body   : Nat
  clean  : Bool
deriving Repr, DecidableEq

/-- `handleBackup`: the backup writes `k` bytes and then either completes (`failed=false`,
k = the whole backup) or fails. `abort` = a failure after the first byte aborts the response
(`http.ErrAbortHandler`); before the `fix:` commit the error text was appended and the
response ended normally. `errLen` = length of that text. -/
def httpBackup (abort : Bool) (k : Nat) (failed : Bool) (errLen : Nat) : HttpSeen :=
  if !failed then ⟨200, k, true⟩
  else if k = 0 then ⟨500, errLen, true⟩
  else if abort then ⟨200, k, false⟩
  else ⟨200, k + errLen, true⟩

def httpClientSeesError (r : HttpSeen) : Bool := r.status != 200 || !r.clean

/-- the same at the level of lengths (what the driver executes; gzip abstracted by its law:
the body decodes iff it is complete) -/
inductive LRes where
  | error | complete | truncated (bodyBytes : Nat)
deriving Repr, DecidableEq

def clientBackupLen (validate compress : Bool) (frameLen gzLen : Nat) (respErr : Bool) (cut : Nat) : LRes :=
  let got := min cut (frameLen + gzLen)
  if got < frameLen then .error
  else if respErr then .error
  else
    let body := got - frameLen
    if body = gzLen then .complete
    else if compress && !validate then .truncated body
    else .error

/-! ### line protocol
`db <ev> <ev> ...` with ev ∈ w | sb | cp<k> | se | bb | cc | be → `n=<n> main=<m> done=<v,v|->;<...>`
`dump <0|1> <s,s,...>` → `<s,s,...>`
`relay <validate 0|1> <compress 0|1> <frameLen> <gzLen> <respErr 0|1> <cut>` → `error` | `complete` | `truncated <n>`
`servefail <closeOnErr 0|1> <validate 0|1> <compress 0|1>` → `error` | `ok-partial`   (the serving node's backup
   fails part way and the whole of what it wrote arrives)
`http <abort 0|1> <k> <failed 0|1>` → `status=<n> clean=<b> error-visible=<b>`
-/

structure DState where
  unit : Unit := ()

def evTok (t : String) : Option Ev :=
  if t == "w" then some .write
  else if t == "sb" then some .snapBegin
  else if t == "se" then some .snapEnd
  else if t == "bb" then some .backupBegin
  else if t == "cc" then some .copyChunk
  else if t == "be" then some .backupEnd
  else if t.startsWith "cp" then ((t.drop 2).toString.toNat?).map .checkpoint
  else none

def bit (t : String) : Option Bool :=
  if t == "1" then some true else if t == "0" then some false else none

def natsStr (l : List Nat) : String := if l.isEmpty then "-" else joinWith "," (l.map toString)

def step (d : DState) (line : String) : DState × String :=
  match words line with
  | "db" :: evs =>
    match evs.mapM evTok with
    | some evs =>
      let r := runDb {} evs
      (d, s!"n={r.n} main={r.main} done={joinWith ";" (r.done.map fun x => natsStr x.2)}")
    | none => (d, "bad-op")
  | ["dump", tx, st] =>
    match bit tx, natList st with
    | some tx, some st => (d, natsStr (dump tx st))
    | _, _ => (d, "bad-op")
  | ["relay", v, c, fl, gl, re, cut] =>
    match bit v, bit c, fl.toNat?, gl.toNat?, bit re, cut.toNat? with
    | some v, some c, some fl, some gl, some re, some cut =>
      (d, match clientBackupLen v c fl gl re cut with
          | .error => "error"
          | .complete => "complete"
          | .truncated n => s!"truncated {n}")
    | _, _, _, _, _, _ => (d, "bad-op")
  | ["servefail", ce, v, c] =>
    match bit ce, bit v, bit c with
    | some ce, some v, some c =>
      -- by the laws: a closed stream decodes (to the partial data), an abandoned one never does
      (d, if ce then "ok-partial" else if c && !v then "ok-partial" else "error")
    | _, _, _ => (d, "bad-op")
  | ["http", a, k, f] =>
    match bit a, k.toNat?, bit f with
    | some a, some k, some f =>
      let r := httpBackup a k f 30
      -- (an aborted response may break before or after the status line reached the client)
      let st := if r.clean then toString r.status else "-"
      (d, s!"status={st} clean={boolStr r.clean} error-visible={boolStr (httpClientSeesError r)}")
    | _, _, _ => (d, "bad-op")
  | _ => (d, "bad-op")

def init : DState := {}

end RqModel.Backup
--! driver: backup RqModel.Backup

import RqModel.Model.SnapCat
namespace C09
theorem wip : True := trivial
end C09

/-
Shared helpers for the line protocol between the Go harness and the model
driver `rqdrv`. Core Lean only (no Mathlib) so that the driver links.

Conventions of the protocol:
* one operation per input line, one result per output line;
* tokens are separated by single spaces;
* arbitrary strings / byte strings travel hex-encoded with an `x` prefix
  (`x` alone is the empty string), so tokens never contain spaces;
* `-` stands for "absent".
-/
namespace RqModel.Util

def words (line : String) : List String :=
  (line.splitOn " ").filter (fun s => s != "")

def hexVal (c : Char) : Option Nat :=
  if '0' ≤ c ∧ c ≤ '9' then some (c.toNat - '0'.toNat)
  else if 'a' ≤ c ∧ c ≤ 'f' then some (c.toNat - 'a'.toNat + 10)
  else if 'A' ≤ c ∧ c ≤ 'F' then some (c.toNat - 'A'.toNat + 10)
  else none

def unhexBytes : List Char → Option (List UInt8)
  | [] => some []
  | [_] => none
  | a :: b :: rest => do
    let h ← hexVal a
    let l ← hexVal b
    let tl ← unhexBytes rest
    pure ((h * 16 + l).toUInt8 :: tl)

/-- decode an `x…` token into bytes -/
def tokBytes (t : String) : Option (List UInt8) :=
  match t.toList with
  | 'x' :: cs => unhexBytes cs
  | _ => none

/-- decode an `x…` token into a string (bytes are taken as UTF-8; the harness
only sends valid UTF-8 through this path) -/
def tokString (t : String) : Option String := do
  let bs ← tokBytes t
  String.fromUTF8? (ByteArray.mk bs.toArray)

def hexDigit (n : Nat) : Char :=
  if n < 10 then Char.ofNat (n + '0'.toNat) else Char.ofNat (n - 10 + 'a'.toNat)

def hexOfBytes (bs : List UInt8) : String :=
  String.ofList ('x' :: (bs.flatMap fun b => [hexDigit (b.toNat / 16), hexDigit (b.toNat % 16)]))

def hexOfString (s : String) : String := hexOfBytes s.toUTF8.toList

def boolStr (b : Bool) : String := if b then "true" else "false"

/-- comma separated list token; `-` is the empty list marker used by callers -/
def splitComma (t : String) : List String :=
  if t == "" then [] else t.splitOn ","

def natList (t : String) : Option (List Nat) :=
  if t == "-" then some [] else (t.splitOn ",").mapM String.toNat?

def joinWith (sep : String) (xs : List String) : String := sep.intercalate xs

end RqModel.Util

/-
C38  Linearizable reads complete on a healthy leader without further writes.

Model: RqModel/Model/LinRead.lean (typed raft log, commit index, FSM goroutine,
`fsmWaitIndex` scan, `waitForLinearizableRead`). Lemmas: RqModel/Lemmas/LinRead.lean.

The statement was FALSE of the unchanged tree (the wait target was the raw read
index = commit index, which the FSM index never reaches when the latest committed
entry is a configuration change or a barrier); `old_target_witness` and
`old_target_stuck` keep that visible. After the `fix:` commit the wait target is the
latest command entry at or below the read index and the full statement is proved
over all histories of the entry-type model.
-/
import RqModel.Lemmas.LinRead
import RqModel.Gen.ReadPath
import RqModel.Expect.ReadPath
namespace C38
open RqModel.LinRead
open RqModel

/-- **Main theorem.** Take ANY history `es` of one node's log/FSM events from the empty
node (appends of command / configuration / no-op / barrier entries, follower
truncations, commit advances, FSM steps, snapshot installs, log compactions, in any
order and number, disabled events being skipped). A linearizable read that takes its
read index there (`readIndex = commit index`) subscribes to `target n`. After ANY
continuation `es'` — in particular one that appends nothing at all — as soon as the
FSM goroutine has processed the entries that were committed when the read started
(`n.commit ≤ n2.handed`), the subscription has fired. No further write is needed,
whatever the type of the latest committed entries. -/
theorem lin_read_completes_when_healthy (es es' : List Ev) :
    let n := run {} es
    let n2 := run n es'
    n.commit ≤ n2.handed → reached n2 (target n) = true := by
  intro n n2 hh
  have hinv : Inv n := inv_run _ es inv_init
  have hA := scan_spec_A n n.commit hinv.commit_le_len
  have hp : Pending n (target n) := by
    rcases hA with h | ⟨h, hc⟩
    · exact Or.inl h
    · by_cases hr : target n ≤ n.fsmIdx
      · exact Or.inl hr
      · right
        refine ⟨?_, h, hc⟩
        apply Nat.lt_of_not_le
        intro hle
        exact hr (hinv.cmd_reached _ hle hc)
  have hp2 : Pending n2 (target n) := pending_run n es' hinv _ hp
  rcases hp2 with h | ⟨ha, hb, _⟩
  · simp [reached, h]
  · have hA' : target n ≤ n.commit ∨ target n ≤ n.fsmIdx := by
      rcases hA with h | ⟨h, _⟩
      · exact Or.inr h
      · exact Or.inl h
    have hm := mono_run n es'
    have := hinv.fsm_le_handed
    have := hinv.handed_le_commit
    exfalso
    change n.handed ≤ n2.handed ∧ n.commit ≤ n2.commit ∧ n.fsmIdx ≤ n2.fsmIdx at hm
    rcases hA' with h | h <;> omega

/-- Draining is exactly `commit - handed` FSM steps, each of them enabled, and it is all
that a healthy leader needs: the read completes with no event other than the FSM
goroutine catching up. -/
theorem lin_read_completes_after_drain (es : List Ev) :
    let n := run {} es
    (drain n).handed = n.commit ∧ reached (drain n) (target n) = true := by
  intro n
  have hinv : Inv n := inv_run _ es inv_init
  have hd := drain_handed n hinv.handed_le_commit
  refine ⟨hd, ?_⟩
  have := lin_read_completes_when_healthy es (List.replicate (n.commit - n.handed) Ev.fsm)
  simp only at this
  apply this
  change n.commit ≤ (drain n).handed
  omega

/-- `waitForLinearizableRead` as a whole: on a leader that has done a strong read in
the current term, is ready, confirms leadership with a quorum and whose term did not
change, the call returns `ok` (never `timeout`) once the FSM goroutine has caught up
with the commit index taken at the start, for every reachable log. -/
theorem wait_returns_ok_when_healthy (es es' : List Ev) (term : Nat) :
    let n := run {} es
    let n2 := run n es'
    n.commit ≤ n2.handed →
    waitLin ⟨term, term, true, true, n, true, term, n2⟩ = .ok := by
  intro n n2 hh
  have := lin_read_completes_when_healthy es es' hh
  simp only [waitLin, ne_eq, not_true_eq_false, if_false, Bool.not_true, Bool.false_eq_true]
  change reached n2 (target n) = true at this
  rw [this]; rfl

/-- The read never waits for more than the commit index it took, and never for an entry
that is not a command: the target is a command entry at or below the read index, or
is already reached. -/
theorem target_is_command_or_reached (es : List Ev) :
    let n := run {} es
    target n ≤ n.fsmIdx ∨ (target n ≤ n.commit ∧ n.typeAt (target n) = some (some .command)) := by
  intro n
  exact scan_spec_A n n.commit (inv_run _ es inv_init).commit_le_len

/-! ### tie to the source: regenerated facts (harness/extract/facts_readpath.go) -/

/-- `waitForLinearizableRead` in the current source has exactly the guard/step structure
the model transcribes -/
theorem waitLin_source_shape : Gen.ReadPath.waitLin = Expect.ReadPath.waitLin := by decide

/-- its calls, in evaluation order, are the model's step list (commit index is read,
then the wait index is computed by `fsmWaitIndex`, and THAT is what is subscribed to) -/
theorem waitLin_step_order : Expect.ReadPath.callsOf Gen.ReadPath.waitLin = stepNames := by decide

theorem waitLin_exit_order : Expect.ReadPath.retsOf Gen.ReadPath.waitLin = retNames := by decide

/-- `fsmWaitIndex` in the current source is the loop that `scan` transcribes -/
theorem fsmWaitIndex_source_shape : Gen.ReadPath.fsmWaitIndex = Expect.ReadPath.fsmWaitIndex := by decide

/-- `fsmApply` stores the FSM index and signals the target in its deferred block, i.e.
for every entry handed to `FSM.Apply` (command entries) and for nothing else -/
theorem fsmApply_signals :
    (Gen.ReadPath.fsmApply.take 3) = [("defer", ""), ("call", "s.fsmIdx.Store"), ("call", "s.fsmTarget.Signal")] := by
  decide

/-! ### the behaviour before the fix (kept visible) -/

/-- the history of the confirmed defect: a command, then a configuration change
(`Join`), everything committed and processed by the FSM goroutine -/
def witnessHistory : List Ev :=
  [.append .command, .commit 1, .fsm, .append .config, .commit 2, .fsm]

/-- With the old wait target (the read index itself) the read of `witnessHistory` is not
satisfied although the node is completely caught up; with the new target it is. -/
theorem old_target_witness :
    let n := run {} witnessHistory
    drain n = n ∧ n.handed = n.commit ∧
    reached n (targetOld n) = false ∧ reached n (target n) = true := by decide

/-- ... and it stays unsatisfied under every continuation that appends no command entry
and installs no snapshot: the old code needed a further write. -/
theorem old_target_stuck (es' : List Ev)
    (h : ∀ e ∈ es', e ≠ .append .command ∧ ∀ i, e ≠ .restore i) :
    let n := run {} witnessHistory
    reached (run n es') (targetOld n) = false := by
  intro n
  -- invariant: fsmIdx = 1, handed ≥ 2, commit ≥ 2, no command entry at an index ≥ 2
  have key : ∀ (es' : List Ev) (m : Node),
      (∀ e ∈ es', e ≠ .append .command ∧ ∀ i, e ≠ .restore i) →
      m.fsmIdx = 1 → 2 ≤ m.handed → m.handed ≤ m.commit →
      (∀ j, 2 ≤ j → typeAtL m.log j ≠ some (some .command)) →
      (run m es').fsmIdx = 1 := by
    intro es'
    induction es' with
    | nil => intro m _ h1 _ _ _; exact h1
    | cons e es' ih =>
      intro m hall h1 h2 h3 h4
      have he := hall e (by simp)
      have hrest : ∀ e ∈ es', e ≠ .append .command ∧ ∀ i, e ≠ .restore i :=
        fun e' he' => hall e' (by simp [he'])
      simp only [run, List.foldl_cons]
      unfold applyEv
      by_cases hen : e.enabled m = true
      · rw [if_pos hen]
        cases e with
        | append t =>
          apply ih _ hrest <;> simp only [applyRaw]
          · exact h1
          · exact h2
          · exact h3
          · intro j hj hc
            by_cases hle : j ≤ m.log.length
            · rw [typeAtL_append_le _ _ _ hle] at hc; exact h4 j hj hc
            · have hb := typeAtL_some_pos _ _ _ hc
              simp only [List.length_append, List.length_singleton] at hb
              have : j = m.log.length + 1 := by omega
              subst this
              rw [typeAtL_append_new] at hc
              cases t <;> simp_all
        | trunc k =>
          simp only [Ev.enabled, decide_eq_true_eq] at hen
          apply ih _ hrest <;> simp only [applyRaw]
          · exact h1
          · exact h2
          · exact h3
          · intro j hj hc
            by_cases hle : j ≤ k
            · rw [typeAtL_take_le _ _ _ hle] at hc; exact h4 j hj hc
            · rw [typeAtL_take_gt _ _ _ (by omega)] at hc; cases hc
        | commit c =>
          simp only [Ev.enabled, decide_eq_true_eq] at hen
          apply ih _ hrest <;> simp only [applyRaw]
          · exact h1
          · exact h2
          · omega
          · exact h4
        | fsm =>
          simp only [Ev.enabled, decide_eq_true_eq] at hen
          simp only [applyRaw]
          rcases applyFsm_cases m with ⟨hty, _⟩ | ⟨_, heq⟩
          · exact absurd hty (h4 _ (by omega))
          · rw [heq]
            apply ih _ hrest <;> simp only
            · exact h1
            · omega
            · omega
            · exact h4
        | restore i => exact absurd rfl (he.2 i)
        | compact k =>
          simp only [Ev.enabled, decide_eq_true_eq] at hen
          apply ih _ hrest <;> simp only [applyRaw]
          · exact h1
          · exact h2
          · exact h3
          · intro j hj hc
            by_cases hjk : j ≤ k
            · have hb := typeAtL_some_pos _ _ _ hc
              rw [compactLog_length] at hb
              rw [typeAtL_compact_le _ _ _ hb.1 hjk hb.2] at hc
              cases hc
            · rw [typeAtL_compact_gt _ _ _ (by omega)] at hc
              exact h4 j hj hc
      · rw [if_neg hen]; exact ih m hrest h1 h2 h3 h4
  have hn : n = ⟨[some .command, some .config], 2, 2, 1⟩ := by decide
  have hf := key es' n h (by rw [hn]) (by rw [hn]; decide) (by rw [hn]; decide) (by
    intro j hj
    rw [hn]
    simp only [typeAtL]
    rw [if_neg (by omega)]
    match j, hj with
    | 2, _ => decide
    | j + 3, _ => simp)
  simp only [reached, targetOld]
  rw [hf, hn]; decide

/-! ### non-vacuity: concrete histories with non-command tails -/

-- join → barrier → join (three non-command entries after the last command), read completes
example :
    let n := run {} [.append .noop, .append .command, .commit 2, .fsm, .fsm,
                     .append .config, .append .barrier, .append .config, .commit 5]
    n.handed = 2 ∧ n.commit = 5 ∧ target n = 2 ∧ reached n (target n) = true := by decide

-- a command that is committed but not yet applied is still waited for
example :
    let n := run {} [.append .command, .commit 1, .fsm, .append .command, .append .config, .commit 3]
    target n = 2 ∧ reached n (target n) = false ∧ reached (drain n) (target n) = true := by decide

-- compacted tail after a snapshot: nothing to wait for
example :
    let n := run {} [.append .command, .append .config, .append .config, .commit 3, .fsm, .fsm, .fsm, .compact 2]
    n.fsmIdx = 1 ∧ target n = 1 ∧ reached n (target n) = true := by decide

-- a snapshot install followed by a configuration entry
example :
    let n := run {} [.restore 7, .append .config, .commit 8, .fsm]
    n.fsmIdx = 7 ∧ target n = 7 ∧ waitLin ⟨3, 3, true, true, n, true, 3, n⟩ = .ok := by decide

end C38

/-
Model of command/chunking/chunker.go and dechunker.go (C28).

Reader. The `io.Reader` handed to `NewChunker` is a *trace*: the list of results
its `Read` calls return, in call order; each result is the bytes delivered and a
status (`nil`, `io.EOF`, another error). When the trace is exhausted every
further `Read` returns `(0, io.EOF)`. Any reader behaviour on any buffer size is
some trace, so quantifying over traces quantifies over byte strings AND read
patterns (short reads, zero-length reads, EOF delivered with or after the last
bytes).

Chunker.Next, line by line:
* `if c.finished { return nil, io.EOF }`
* loop `for totalRead < c.chunkSize`: one `Read`; the bytes go to the gzip writer.
  NOTE `_, err = gw.Write(...)` ASSIGNS the reader's `err`, so whenever n > 0 the
  reader's status is replaced by the gzip writer's (nil): an EOF or an error that
  comes together with data is not seen in that iteration. Only a read with n = 0
  can end the stream (EOF → finished, break) or fail `Next` (other error).
  The loop does not cap a read at `chunkSize - totalRead`, so a chunk may carry
  more than `chunkSize` bytes.
* `totalRead == 0`: `io.EOF` if no chunk was sent, otherwise an empty chunk with
  `IsLast` (sequenceNum is not advanced).
* otherwise `sequenceNum++`, `IsLast = totalRead < chunkSize`, `Data = gzip(bytes)`.
  (Since the `fix:` commit the data is copied out of the pooled buffer; before it
  the returned slice aliased a `sync.Pool` buffer that the next `Next` call of any
  Chunker overwrote — found by the C28 check.)

gzip is the parameter `Codec` (`enc`, and `dec` returning what `io.Copy` wrote
before success/failure).

Dechunker.WriteChunk: stream-id check (first chunk sets it), sequence check,
`seqNum` is advanced BEFORE the data is decompressed, `Data == nil` writes nothing.
The manager is a map from stream id to dechunker; `handle` is the LOAD_CHUNK case of
store/command_processor.go (Get, abort → Close+Delete+Remove, last → Close+Delete,
hand the file over, Remove).
-/
import RqModel.Model.Util
namespace RqModel.Chunk
open RqModel.Util

abbrev Bytes := List UInt8

structure Codec where
  enc : Bytes → Bytes
  /-- bytes written to the file before the decoder stopped, and whether it succeeded -/
  dec : Bytes → Bytes × Bool

/-- the assumed round-trip law of gzip -/
def Codec.Lawful (G : Codec) : Prop := ∀ x, G.dec (G.enc x) = (x, true)

inductive Status | ok | eof | fail
deriving DecidableEq, Repr

structure Read where
  bs : Bytes
  st : Status
deriving DecidableEq, Repr

structure Chunk where
  sid   : String
  seq   : Nat
  last  : Bool
  abort : Bool := false
  data  : Option Bytes
deriving DecidableEq, Repr

/-! ### Chunker -/

structure CState where
  tr       : List Read
  seq      : Nat := 0
  finished : Bool := false
deriving DecidableEq, Repr

inductive FillRes
  | done (acc : Bytes) (finished : Bool) (rest : List Read)
  | failed (rest : List Read)
deriving DecidableEq, Repr

/-- the read loop of `Next`; `acc` is what went to the gzip writer, `totalRead = acc.length` -/
def fill (cs : Nat) : List Read → Bytes → FillRes
  | [], acc => if cs ≤ acc.length then .done acc false [] else .done acc true []
  | r :: rest, acc =>
    if cs ≤ acc.length then .done acc false (r :: rest)
    else if r.bs ≠ [] then fill cs rest (acc ++ r.bs)
    else match r.st with
      | .ok => fill cs rest acc
      | .eof => .done acc true rest
      | .fail => .failed rest

inductive NextRes
  | chunk (c : Chunk)
  | eof
  | err
deriving DecidableEq, Repr

def next (G : Codec) (cs : Nat) (sid : String) (s : CState) : NextRes × CState :=
  if s.finished then (.eof, s)
  else match fill cs s.tr [] with
    | .failed rest => (.err, { s with tr := rest })
    | .done acc fin rest =>
      if acc = [] then
        if s.seq = 0 then (.eof, { tr := rest, seq := s.seq, finished := fin })
        else (.chunk { sid := sid, seq := s.seq + 1, last := true, data := none },
              { tr := rest, seq := s.seq, finished := fin })
      else (.chunk { sid := sid, seq := s.seq + 1, last := decide (acc.length < cs), data := some (G.enc acc) },
            { tr := rest, seq := s.seq + 1, finished := fin })

/-- `Chunker.Abort`: the chunk that tells the receiver to drop the stream -/
def abortChunk (sid : String) : Chunk := { sid := sid, seq := 0, last := false, abort := true, data := none }

/-- call `Next` until it returns `io.EOF` (→ `true`) or an error (→ `false`) -/
def runAll (G : Codec) (cs : Nat) (sid : String) : Nat → CState → List Chunk × Bool
  | 0, _ => ([], false)
  | fuel + 1, s =>
    match next G cs sid s with
    | (.eof, _) => ([], true)
    | (.err, _) => ([], false)
    | (.chunk c, s') => let (cs', ok) := runAll G cs sid fuel s'; (c :: cs', ok)

/-- enough fuel for any trace: every `Next` that returns a chunk consumes a read or finishes -/
def chunkAll (G : Codec) (cs : Nat) (sid : String) (tr : List Read) : List Chunk × Bool :=
  runAll G cs sid (tr.length + 2) { tr := tr }

/-- the byte stream a trace denotes: everything delivered before the first read
that returns no bytes together with `io.EOF` -/
def content : List Read → Bytes
  | [] => []
  | r :: rest =>
    if r.bs ≠ [] then r.bs ++ content rest
    else match r.st with
      | .ok => content rest
      | .eof => []
      | .fail => []

/-- no read fails with a non-EOF error and no bytes before the stream ends -/
def noFail : List Read → Bool
  | [] => true
  | r :: rest =>
    if r.bs ≠ [] then noFail rest
    else match r.st with
      | .ok => noFail rest
      | .eof => true
      | .fail => false

def NoFail (tr : List Read) : Prop := noFail tr = true

instance (tr : List Read) : Decidable (NoFail tr) := by unfold NoFail; infer_instance

/-! ### Dechunker -/

structure Dechunker where
  sid  : String := ""
  seq  : Nat := 0
  file : Bytes := []
deriving DecidableEq, Repr

inductive WRes
  | ok (last : Bool)
  | errStream
  | errOrder
  | errCodec
deriving DecidableEq, Repr

def writeChunk (G : Codec) (d : Dechunker) (c : Chunk) : Dechunker × WRes :=
  if d.sid ≠ "" ∧ d.sid ≠ c.sid then (d, .errStream)
  else
    let d1 := { d with sid := c.sid }
    if c.seq ≠ d.seq + 1 then (d1, .errOrder)
    else
      let d2 := { d1 with seq := c.seq }
      match c.data with
      | none => (d2, .ok c.last)
      | some e =>
        let r := G.dec e
        let d3 := { d2 with file := d2.file ++ r.1 }
        if r.2 then (d3, .ok c.last) else (d3, .errCodec)

/-- feed chunks, ignoring rejected ones (what a receiver that reports the error and
carries on does); returns the final dechunker and the results -/
def feed (G : Codec) : Dechunker → List Chunk → Dechunker × List WRes
  | d, [] => (d, [])
  | d, c :: rest =>
    let (d', r) := writeChunk G d c
    let (d'', rs) := feed G d' rest
    (d'', r :: rs)

/-! ### Manager + the LOAD_CHUNK case of the command processor -/

structure Mgr where
  live : List (String × Dechunker) := []
deriving Repr

def lookup (m : List (String × Dechunker)) (k : String) : Option Dechunker :=
  match m with
  | [] => none
  | (k', v) :: rest => if k' = k then some v else lookup rest k

def erase (m : List (String × Dechunker)) (k : String) : List (String × Dechunker) :=
  m.filter (fun p => p.1 ≠ k)

def put (m : List (String × Dechunker)) (k : String) (d : Dechunker) : List (String × Dechunker) :=
  (k, d) :: erase m k

inductive HRes
  | ok
  | installed (file : Bytes)
  | err (e : WRes)
deriving DecidableEq, Repr

def handle (G : Codec) (m : Mgr) (c : Chunk) : Mgr × HRes :=
  let d := (lookup m.live c.sid).getD {}
  if c.abort then ({ live := erase m.live c.sid }, .ok)
  else
    match writeChunk G d c with
    | (d', .ok true) => ({ live := erase m.live c.sid }, .installed d'.file)
    | (d', .ok false) => ({ live := put m.live c.sid d' }, .ok)
    | (d', e) => ({ live := put m.live c.sid d' }, .err e)

/-- `DechunkerManager.Close` (reached from store.RecoverNode's deferred Close): every dechunker's
file is closed, and `delete(d.m, dc.streamID)` removes the entry whose KEY equals that
dechunker's stream id (which is the entry itself when the dechunker was used through the
command processor). The temp files are NOT removed: returns the map left and the number of
temp files still on disk. -/
def Mgr.closeAll (m : Mgr) : Mgr × Nat :=
  ({ live := m.live.filter (fun p => !m.live.any (fun q => q.2.sid == p.1)) }, m.live.length)

/-- temp files present in the manager's directory: one per live dechunker -/
def Mgr.files (m : Mgr) : Nat := m.live.length

/-! ### line protocol (component `chunk`)

The driver's concrete codec tags the payload: `1 :: x` decodes to `(x, true)`,
`0 :: x` to `(x, false)` (a gzip stream that fails after writing `x`), anything
else to `([], false)`. The harness translates real gzip data: `v<hex>` = valid gzip
of hex, `b<hex>` = invalid gzip whose decoder wrote hex first, `-` = nil Data.

`chunker <cs> <sid>` → ok                 new chunker, empty trace
`read <hex> ok|eof|fail` → ok             append a read result to the trace
`next` → `eof` | `err` | `chunk <seq> <last> <data>`
`dnew` → ok;  `write <sid> <seq> <last> <data>` → `ok <last>` | `err-stream|err-order|err-codec`
`dstate` → `<sid> <seq> <filehex>`
`mnew` → ok;  `handle <sid> <seq> <last> <abort> <data>` → `ok` | `installed <hex>` | `err-…`
`mfiles` → count;  `mhas <sid>` → true|false;  `mclose` → `<entries left> <temp files left on disk>`
-/

def drvCodec : Codec where
  enc x := 1 :: x
  dec
    | 1 :: x => (x, true)
    | 0 :: x => (x, false)
    | _ => ([], false)

structure DState where
  cs  : Nat := 1
  sid : String := ""
  c   : CState := { tr := [] }
  d   : Dechunker := {}
  m   : Mgr := {}

def dataTok (t : String) : Option (Option Bytes) :=
  if t == "-" then some none
  else match t.toList with
    | 'v' :: rest => (unhexBytes rest).map (fun b => some (1 :: b))
    | 'b' :: rest => (unhexBytes rest).map (fun b => some (0 :: b))
    | _ => none

def dataStr : Option Bytes → String
  | none => "-"
  | some (1 :: x) => "v" ++ (hexOfBytes x).drop 1
  | some (0 :: x) => "b" ++ (hexOfBytes x).drop 1
  | some _ => "?"

def boolTok (t : String) : Option Bool :=
  if t == "1" then some true else if t == "0" then some false else none

def b01 (b : Bool) : String := if b then "1" else "0"

def statusTok (t : String) : Option Status :=
  if t == "ok" then some .ok else if t == "eof" then some .eof else if t == "fail" then some .fail else none

def wresStr : WRes → String
  | .ok l => "ok " ++ b01 l
  | .errStream => "err-stream"
  | .errOrder => "err-order"
  | .errCodec => "err-codec"

def chunkOfToks (sid seq last abort data : String) : Option Chunk := do
  let sid ← tokString sid
  let seq ← seq.toNat?
  let last ← boolTok last
  let abort ← boolTok abort
  let data ← dataTok data
  pure { sid, seq, last, abort, data }

def step (s : DState) (line : String) : DState × String :=
  match words line with
  | ["chunker", cs, sid] =>
    match cs.toNat?, tokString sid with
    | some cs, some sid => ({ s with cs := cs, sid := sid, c := { tr := [] } }, "ok")
    | _, _ => (s, "bad-op")
  | ["read", bs, st] =>
    match tokBytes bs, statusTok st with
    | some bs, some st => ({ s with c := { s.c with tr := s.c.tr ++ [⟨bs, st⟩] } }, "ok")
    | _, _ => (s, "bad-op")
  | ["next"] =>
    let (r, c') := next drvCodec s.cs s.sid s.c
    ({ s with c := c' },
      match r with
      | .eof => "eof"
      | .err => "err"
      | .chunk c => s!"chunk {c.seq} {b01 c.last} {dataStr c.data}")
  | ["dnew"] => ({ s with d := {} }, "ok")
  | ["write", sid, seq, last, data] =>
    match chunkOfToks sid seq last "0" data with
    | some c => let (d', r) := writeChunk drvCodec s.d c; ({ s with d := d' }, wresStr r)
    | none => (s, "bad-op")
  | ["dstate"] => (s, s!"{hexOfString s.d.sid} {s.d.seq} {hexOfBytes s.d.file}")
  | ["mnew"] => ({ s with m := {} }, "ok")
  | ["handle", sid, seq, last, abort, data] =>
    match chunkOfToks sid seq last abort data with
    | some c =>
      let (m', r) := handle drvCodec s.m c
      ({ s with m := m' },
        match r with
        | .ok => "ok"
        | .installed f => "installed " ++ hexOfBytes f
        | .err e => wresStr e)
    | none => (s, "bad-op")
  | ["mfiles"] => (s, toString s.m.files)
  | ["mclose"] =>
    let r := s.m.closeAll
    ({ s with m := r.1 }, s!"{r.1.live.length} {r.2}")
  | ["mhas", sid] =>
    match tokString sid with
    | some sid => (s, boolStr (lookup s.m.live sid).isSome)
    | none => (s, "bad-op")
  | _ => (s, "bad-op")

def init : DState := {}

end RqModel.Chunk
--! driver: chunk RqModel.Chunk

/-
C10  Snapshot transfer installs exactly the source data or nothing.

Model: RqModel/Model/SnapStream.lean. protobuf decoding, CRC-32C and the "looks like
SQLite" predicates are the parameter `E : Ext`; no law about them is needed for the
structural theorems; `NoCollision` is the stated CRC caveat.
-/
import RqModel.Model.SnapStream
import RqModel.Lemmas.SnapStream
import RqModel.Gen.SinkClose
namespace C10
open RqModel.SnapStream

/-! ### Restore: a successful restore is exactly what the header describes -/

/-- sizes and checksums of extracted WALs match their headers and the WAL bytes are
consecutive slices of the stream -/
theorem restoreWals_spec (E : Ext) : ∀ (hs : List FileHdr) (s : Bytes) (ws : List Bytes) (r : Bytes),
    restoreWals E hs s = .ok (ws, r) →
      s = ws.flatten ++ r ∧ ws.length = hs.length ∧
      ∀ i (hi : i < ws.length) (hj : i < hs.length), (ws[i]).length = (hs[i]).size ∧ E.crc ws[i] = (hs[i]).crc := by
  intro hs
  induction hs with
  | nil =>
    intro s ws r h
    simp [restoreWals] at h
    obtain ⟨rfl, rfl⟩ := h
    simp
  | cons hd tl ih =>
    intro s ws r h
    unfold restoreWals at h
    by_cases h1 : s.length < hd.size
    · simp [h1] at h
    · simp only [h1, if_false] at h
      by_cases h2 : E.crc (List.take hd.size s) ≠ hd.crc
      · simp [h2] at h
      · simp only [h2, if_false] at h
        cases hr : restoreWals E tl (List.drop hd.size s) with
        | error e => simp [hr] at h
        | ok v =>
          obtain ⟨ws', r'⟩ := v
          simp only [hr] at h
          have h' := Except.ok.inj h
          obtain ⟨rfl, rfl⟩ := Prod.mk.inj h'
          obtain ⟨e1, e2, e3⟩ := ih _ _ _ hr
          refine ⟨?_, by simp [e2], ?_⟩
          · simp only [List.flatten_cons, List.append_assoc]
            rw [← e1, List.take_append_drop]
          · intro i hi hj
            cases i with
            | zero =>
              simp only [List.getElem_cons_zero]
              refine ⟨?_, by simpa using h2⟩
              simp only [List.length_take]; omega
            | succ k =>
              simp only [List.getElem_cons_succ]
              exact e3 k (by simpa using hi) (by simpa using hj)

/-- case analysis of a successful `restore` -/
theorem restore_cases (E : Ext) (s db : Bytes) (wals : List Bytes) (h : restore E s = .ok db wals) :
    ∃ (dbh : FileHdr) (walhs : List FileHdr),
      4 ≤ s.length ∧ 4 + be32 s ≤ s.length ∧
      E.decode ((s.drop 4).take (be32 s)) = some ⟨1, .full (some dbh) walhs⟩ ∧
      dbh.size ≤ (s.drop (4 + be32 s)).length ∧
      db = (s.drop (4 + be32 s)).take dbh.size ∧ E.crc db = dbh.crc ∧
      restoreWals E walhs ((s.drop (4 + be32 s)).drop dbh.size) = .ok (wals, []) := by
  simp only [restore] at h
  split at h
  · cases h
  rename_i h1
  split at h
  · cases h
  rename_i h2
  split at h
  · cases h
  rename_i hdr hd
  split at h
  · cases h
  rename_i hv
  split at h
  · cases h
  · cases h
  · cases h
  rename_i dbh walhs hp
  split at h
  · cases h
  rename_i h3
  split at h
  · cases h
  rename_i h4
  split at h
  · cases h
  rename_i ws r hw
  split at h
  · cases h
  rename_i hr
  obtain ⟨rfl, rfl⟩ := RestoreRes.ok.inj h
  have hr' : r = [] := by simpa using hr
  subst hr'
  have hv' : hdr.version = 1 := by simpa using hv
  refine ⟨dbh, walhs, by omega, by omega, ?_, by omega, rfl, by simpa using h4, hw⟩
  rw [hd]; cases hdr; simp_all

/-- **restore_exact.** If `Restore` succeeds, the stream is precisely
`length ‖ header ‖ db ‖ wals` for the header protobuf decoded from it: version 1, a database
header, every file of the announced size and CRC, and NOTHING after the last file. -/
theorem restore_exact (E : Ext) (s db : Bytes) (wals : List Bytes) (h : restore E s = .ok db wals) :
    ∃ (pre hb : Bytes) (dbh : FileHdr) (walhs : List FileHdr),
      s = pre ++ hb ++ db ++ wals.flatten ∧ pre.length = 4 ∧ be32 pre = hb.length ∧
      E.decode hb = some ⟨1, .full (some dbh) walhs⟩ ∧
      db.length = dbh.size ∧ E.crc db = dbh.crc ∧ wals.length = walhs.length ∧
      ∀ i (hi : i < wals.length) (hj : i < walhs.length),
        (wals[i]).length = (walhs[i]).size ∧ E.crc wals[i] = (walhs[i]).crc := by
  obtain ⟨dbh, walhs, h1, h2, hd, h3, hdb, hcrc, hw⟩ := restore_cases E s db wals h
  obtain ⟨e1, e2, e3⟩ := restoreWals_spec E _ _ _ _ hw
  refine ⟨s.take 4, (s.drop 4).take (be32 s), dbh, walhs, ?_, ?_, ?_, hd, ?_, hcrc, e2, e3⟩
  · -- reassemble the stream from its slices
    have a1 : s = s.take 4 ++ s.drop 4 := (List.take_append_drop 4 s).symm
    have a2 : s.drop 4 = (s.drop 4).take (be32 s) ++ (s.drop 4).drop (be32 s) :=
      (List.take_append_drop _ _).symm
    have a3 : (s.drop 4).drop (be32 s) = s.drop (4 + be32 s) := by
      rw [List.drop_drop]
    have a4 : s.drop (4 + be32 s) =
        (s.drop (4 + be32 s)).take dbh.size ++ (s.drop (4 + be32 s)).drop dbh.size :=
      (List.take_append_drop _ _).symm
    rw [List.append_nil] at e1
    calc s = s.take 4 ++ s.drop 4 := a1
      _ = s.take 4 ++ ((s.drop 4).take (be32 s) ++ s.drop (4 + be32 s)) := by
          rw [← a3, ← a2]
      _ = s.take 4 ++ ((s.drop 4).take (be32 s) ++
            ((s.drop (4 + be32 s)).take dbh.size ++ wals.flatten)) := by
          rw [← e1, ← a4]
      _ = _ := by rw [hdb]; simp [List.append_assoc]
  · simp only [List.length_take]; omega
  · have : be32 (s.take 4) = be32 s := by
      match s, h1 with
      | a :: b :: c :: d :: t, _ => rfl
    rw [this]
    simp only [List.length_take, List.length_drop]; omega
  · rw [hdb]; simp only [List.length_take]; omega

theorem restoreWals_length (E : Ext) : ∀ (hs : List FileHdr) (s : Bytes) (ws : List Bytes) (r : Bytes),
    restoreWals E hs s = .ok (ws, r) → s.length = (hs.map (·.size)).sum + r.length := by
  intro hs
  induction hs with
  | nil => intro s ws r h; simp [restoreWals] at h; simp [h.2]
  | cons hd tl ih =>
    intro s ws r h
    simp only [restoreWals] at h
    split at h
    · cases h
    rename_i h1
    split at h
    · cases h
    split at h
    · cases h
    rename_i ws' r' hr
    have := ih _ _ _ hr
    obtain ⟨_, rfl⟩ := Prod.mk.inj (Except.ok.inj h)
    simp only [List.length_drop] at this
    simp only [List.map_cons, List.sum_cons]
    omega

/-- the stream length is fixed by its own first 4 + |header| bytes: a restorable stream has
exactly 4 + |header| + Σ announced sizes bytes -/
theorem restore_length (E : Ext) (s db : Bytes) (wals : List Bytes) (h : restore E s = .ok db wals) :
    ∃ dbh walhs, 4 + be32 s ≤ s.length ∧
      E.decode ((s.drop 4).take (be32 s)) = some ⟨1, .full (some dbh) walhs⟩ ∧
      s.length = 4 + be32 s + dbh.size + (walhs.map (·.size)).sum := by
  obtain ⟨dbh, walhs, h1, h2, hd, h3, _, _, hw⟩ := restore_cases E s db wals h
  refine ⟨dbh, walhs, h2, hd, ?_⟩
  have := restoreWals_length E _ _ _ _ hw
  simp only [List.length_drop, List.length_nil] at this h3
  omega

/-- two restorable streams that agree on their first 4 + |header| bytes have the same length -/
theorem restore_same_header_same_length (E : Ext) (s s' db db' : Bytes) (wals wals' : List Bytes)
    (h : restore E s = .ok db wals) (h' : restore E s' = .ok db' wals')
    (hn : be32 s' = be32 s) (hh : (s'.drop 4).take (be32 s) = (s.drop 4).take (be32 s)) :
    s'.length = s.length := by
  obtain ⟨dbh, walhs, _, hd, hl⟩ := restore_length E s db wals h
  obtain ⟨dbh', walhs', _, hd', hl'⟩ := restore_length E s' db' wals' h'
  rw [hn, hh, hd] at hd'
  have hp := congrArg SnapHeader.payload (Option.some.inj hd')
  simp only [Payload.full.injEq, Option.some.injEq] at hp
  obtain ⟨rfl, rfl⟩ := hp
  omega

/-- **truncation_fails (Restore).** No strict prefix of a restorable stream restores. -/
theorem restore_truncation_fails (E : Ext) (s : Bytes) (db : Bytes) (wals : List Bytes)
    (h : restore E s = .ok db wals) (k : Nat) (hk : k < s.length) :
    ∀ db' wals', restore E (s.take k) ≠ .ok db' wals' := by
  intro db' wals' h'
  obtain ⟨_, _, h2, _, _⟩ := restore_length E s db wals h
  obtain ⟨dbh', walhs', h4, _, _, _, _⟩ := restore_cases E _ db' wals' h'
  have hk4 : 4 ≤ k := by simp only [List.length_take] at h4; omega
  have hn : be32 (s.take k) = be32 s := be32_take s k hk4
  obtain ⟨_, _, h2', _, _⟩ := restore_length E _ db' wals' h'
  rw [hn] at h2'
  have hkn : 4 + be32 s ≤ k := by simp only [List.length_take] at h2'; omega
  have hh : ((s.take k).drop 4).take (be32 s) = (s.drop 4).take (be32 s) := by
    rw [List.drop_take, List.take_take]; congr 1; omega
  have := restore_same_header_same_length E s (s.take k) db db' wals wals' h h' hn hh
  simp only [List.length_take] at this; omega

/-- **extension_fails (Restore).** No proper extension of a restorable stream restores. -/
theorem restore_extension_fails (E : Ext) (s : Bytes) (db : Bytes) (wals : List Bytes)
    (h : restore E s = .ok db wals) (e : Bytes) (he : e ≠ []) :
    ∀ db' wals', restore E (s ++ e) ≠ .ok db' wals' := by
  intro db' wals' h'
  obtain ⟨_, _, h2, _, _⟩ := restore_length E s db wals h
  have hn : be32 (s ++ e) = be32 s := be32_append s e (by omega)
  have hh : ((s ++ e).drop 4).take (be32 s) = (s.drop 4).take (be32 s) := by
    rw [List.drop_append_of_le_length (by omega), List.take_append_of_le_length]
    simp only [List.length_drop]; omega
  have := restore_same_header_same_length E s (s ++ e) db db' wals wals' h h' hn hh
  simp only [List.length_append] at this
  have : e.length = 0 := by omega
  exact he (List.length_eq_zero_iff.1 this)

/-! ### Sink -/

/-- **split_independent.** Any two ways of cutting the same byte stream into non-empty
writes give the same outcome (same installed files, or the same error kind). -/
theorem split_independent (E : Ext) (due : Bool) (ws₁ ws₂ : List Bytes)
    (h₁ : ∀ w ∈ ws₁, w ≠ []) (h₂ : ∀ w ∈ ws₂, w ≠ []) (hf : ws₁.flatten = ws₂.flatten) :
    install E due ws₁ = install E due ws₂ := by
  unfold install
  by_cases e₁ : ws₁ = []
  · subst e₁
    have : ws₂ = [] := by
      cases ws₂ with
      | nil => rfl
      | cons w t =>
        have hw := h₂ w (by simp)
        have : w ++ t.flatten = [] := by simpa using hf.symm
        exact absurd (List.append_eq_nil_iff.1 this).1 hw
    rw [this]
  · have e₂ : ws₂ ≠ [] := by
      intro e; subst e
      cases ws₁ with
      | nil => exact e₁ rfl
      | cons w t =>
        have hw := h₁ w (by simp)
        have : w ++ t.flatten = [] := by simpa using hf
        exact hw (List.append_eq_nil_iff.1 this).1
    rw [runSink_flatten E due _ ws₁ _ rfl e₁ h₁, runSink_flatten E due _ ws₂ _ rfl e₂ h₂, hf]

/-- the sink accepts a stream only if `Restore` accepts it, with the same files, which
moreover look like a SQLite database / WALs -/
theorem install_implies_restore (E : Ext) (due : Bool) (s db : Bytes) (wals : List Bytes)
    (h : install E due [s] = .installed db wals) :
    restore E s = .ok db wals ∧ E.validDb db = true ∧ wals.all E.validWal = true := by
  obtain ⟨dbh, walhs, st, files, h1, h2, hd, hw, hf, hv⟩ := install_cases E due s db wals h
  obtain ⟨rfl, hvd, hvw, hcd, hcw⟩ := verify_ok E dbh walhs files db wals hv
  obtain ⟨fs, e1, e2, e3⟩ := fullWrite_finalize_sound walhs dbh [] [] _ st _ (by simp) hw hf
  simp only [List.nil_append] at e1 e2
  subst e1
  cases e3 with
  | cons hdb hws =>
    refine ⟨?_, hvd, hvw⟩
    simp only [List.flatten_cons] at e2
    have hlen : dbh.size ≤ (s.drop (4 + be32 s)).length := by rw [← e2]; simp; omega
    have htake : (s.drop (4 + be32 s)).take dbh.size = db := by rw [← e2, ← hdb]; simp
    have hdrop : (s.drop (4 + be32 s)).drop dbh.size = wals.flatten := by rw [← e2, ← hdb]; simp
    have hrw := restoreWals_complete E walhs wals [] hws hcw
    simp only [List.append_nil] at hrw
    simp only [restore]
    rw [if_neg (by omega), if_neg (by omega), hd]
    simp only [ne_eq, not_true_eq_false, if_false]
    rw [if_neg (by omega), htake, if_neg (by simpa using hcd), hdrop, hrw]
    simp

/-- a stream `Restore` accepts, whose files look like SQLite files and are non-empty, is
installed by the sink when written in one piece (hence, by `split_independent`, in any pieces) -/
theorem restore_implies_install (E : Ext) (due : Bool) (s db : Bytes) (wals : List Bytes)
    (h : restore E s = .ok db wals) (hvd : E.validDb db = true) (hvw : wals.all E.validWal = true)
    (hne : ∀ w ∈ wals, w ≠ []) :
    install E due [s] = .installed db wals := by
  obtain ⟨dbh, walhs, h1, h2, hd, h3, hdb, hcrc, hw⟩ := restore_cases E s db wals h
  obtain ⟨e1, e2, e3⟩ := restoreWals_sound E _ _ _ _ hw
  simp only [List.append_nil] at e1
  have hdbl : db.length = dbh.size := by rw [hdb]; simp only [List.length_take]; omega
  have hbody : s.drop (4 + be32 s) = db ++ wals.flatten := by
    rw [← e1, hdb, List.take_append_drop]
  obtain ⟨st, f1, f2⟩ := fullWrite_finalize_complete walhs dbh [] db [] wals
    (by simpa using SizesMatch.cons hdbl e2) hne
  simp only [List.nil_append] at f1 f2
  have hver : fullVerify E dbh walhs (db :: wals) = .ok (db, wals) := by
    simp only [fullVerify, hvd, hvw, hcrc]
    simp
    intro x y hxy
    exact e3 (x, y) hxy
  simp only [install, runSink, sinkWrite, List.nil_append]
  rw [if_neg (by omega), if_neg (by omega), hd]
  simp only [ne_eq, not_true_eq_false, if_false, hbody, f1, sinkClose, f2, hver]

/-- **install_exact.** Whatever the split, if the sink installs files then the stream is
exactly `length ‖ header ‖ db ‖ wals` for the header decoded from it (version 1), each
installed file has the announced size and CRC, nothing follows the last file, and the
files pass the SQLite-format checks. A header that does not match the data cannot install. -/
theorem install_exact (E : Ext) (due : Bool) (ws : List Bytes) (hne : ∀ w ∈ ws, w ≠ [])
    (db : Bytes) (wals : List Bytes) (h : install E due ws = .installed db wals) :
    ∃ (pre hb : Bytes) (dbh : FileHdr) (walhs : List FileHdr),
      ws.flatten = pre ++ hb ++ db ++ wals.flatten ∧ pre.length = 4 ∧ be32 pre = hb.length ∧
      E.decode hb = some ⟨1, .full (some dbh) walhs⟩ ∧
      db.length = dbh.size ∧ E.crc db = dbh.crc ∧ wals.length = walhs.length ∧
      (∀ i (hi : i < wals.length) (hj : i < walhs.length),
        (wals[i]).length = (walhs[i]).size ∧ E.crc wals[i] = (walhs[i]).crc) ∧
      E.validDb db = true ∧ wals.all E.validWal = true := by
  have hws : ws ≠ [] := by
    intro e; subst e; simp [install, runSink, sinkClose] at h
  have h1 : install E due [ws.flatten] = .installed db wals := by
    rw [← h]; unfold install
    exact (runSink_flatten E due _ ws _ rfl hws hne).symm
  obtain ⟨hr, hvd, hvw⟩ := install_implies_restore E due _ db wals h1
  obtain ⟨pre, hb, dbh, walhs, a1, a2, a3, a4, a5, a6, a7, a8⟩ := restore_exact E _ db wals hr
  exact ⟨pre, hb, dbh, walhs, a1, a2, a3, a4, a5, a6, a7, a8, hvd, hvw⟩

/-- **truncation_fails.** If a stream installs, no strict prefix of it installs, however
either is split into writes. -/
theorem truncation_fails (E : Ext) (due : Bool) (s : Bytes) (db : Bytes) (wals : List Bytes)
    (h : install E due [s] = .installed db wals) (ws : List Bytes) (hne : ∀ w ∈ ws, w ≠ [])
    (k : Nat) (hk : k < s.length) (hws : ws.flatten = s.take k) :
    ∀ db' wals', install E due ws ≠ .installed db' wals' := by
  intro db' wals' h'
  have hws' : ws ≠ [] := by
    intro e; subst e; simp [install, runSink, sinkClose] at h'
  have h1 : install E due [s.take k] = .installed db' wals' := by
    rw [← h', ← hws]; unfold install
    exact (runSink_flatten E due _ ws _ rfl hws' hne).symm
  exact restore_truncation_fails E s db wals (install_implies_restore E due s db wals h).1 k hk db' wals'
    (install_implies_restore E due _ db' wals' h1).1

/-- **extension_fails.** If a stream installs, no proper extension of it installs. -/
theorem extension_fails (E : Ext) (due : Bool) (s : Bytes) (db : Bytes) (wals : List Bytes)
    (h : install E due [s] = .installed db wals) (ws : List Bytes) (hne : ∀ w ∈ ws, w ≠ [])
    (e : Bytes) (he : e ≠ []) (hws : ws.flatten = s ++ e) :
    ∀ db' wals', install E due ws ≠ .installed db' wals' := by
  intro db' wals' h'
  have hws' : ws ≠ [] := by
    intro e; subst e; simp [install, runSink, sinkClose] at h'
  have h1 : install E due [s ++ e] = .installed db' wals' := by
    rw [← h', ← hws]; unfold install
    exact (runSink_flatten E due _ ws _ rfl hws' hne).symm
  exact restore_extension_fails E s db wals (install_implies_restore E due s db wals h).1 e he db' wals'
    (install_implies_restore E due _ db' wals' h1).1

/-- **streamed_snapshot_installs.** What the streamer emits for a database and WAL files
that look like SQLite files — header built from their sizes and CRCs — is installed, under
ANY split into non-empty writes, and the installed files are exactly the source files. -/
theorem streamed_snapshot_installs (E : Ext) (due : Bool) (hb db : Bytes) (wals : List Bytes)
    (hl : hb.length < 4294967296)
    (hd : E.decode hb = some ⟨1, .full (some (hdrFor E db)) (wals.map (hdrFor E))⟩)
    (hvd : E.validDb db = true) (hvw : wals.all E.validWal = true) (hne : ∀ w ∈ wals, w ≠ [])
    (ws : List Bytes) (hws : ∀ w ∈ ws, w ≠ []) (hf : ws.flatten = frame hb (db :: wals)) :
    install E due ws = .installed db wals ∧ restore E (frame hb (db :: wals)) = .ok db wals := by
  have hr := frame_restores E hb db wals hl hd
  have h1 := restore_implies_install E due _ db wals hr hvd hvw hne
  refine ⟨?_, hr⟩
  have hne' : ws ≠ [] := by
    intro e; subst e
    have : (frame hb (db :: wals)).length = 0 := by rw [← hf]; rfl
    simp [frame, enc32] at this
  rw [← h1, ← hf]; unfold install
  exact runSink_flatten E due _ ws _ rfl hne' hws

/-- the CRC caveat: no two different byte strings of the same length share a CRC. (False
of any 32-bit checksum in general; it is the stated assumption under which "checksum
matches" means "bytes equal".) -/
def NoCollision (E : Ext) : Prop := ∀ x y : Bytes, x.length = y.length → E.crc x = E.crc y → x = y

/-- **header_mismatch_fails / source equality.** If the header of the stream was built from
the source files (their sizes and CRCs) and the stream installs, the installed database IS
the source database, unless the CRC collides. -/
theorem installed_db_is_source (E : Ext) (hc : NoCollision E) (due : Bool) (ws : List Bytes)
    (hne : ∀ w ∈ ws, w ≠ []) (db : Bytes) (wals : List Bytes)
    (h : install E due ws = .installed db wals) (src : Bytes)
    (hsrc : ∀ hb dbh walhs, E.decode hb = some ⟨1, .full (some dbh) walhs⟩ →
      hb.length + 4 ≤ ws.flatten.length → (ws.flatten.drop 4).take hb.length = hb →
      dbh.size = src.length ∧ dbh.crc = E.crc src) :
    db = src := by
  obtain ⟨pre, hb, dbh, walhs, a1, a2, a3, a4, a5, a6, _⟩ := install_exact E due ws hne db wals h
  have := hsrc hb dbh walhs a4 (by rw [a1]; simp [a2]; omega) (by rw [a1]; simp [a2])
  exact hc db src (by omega) (by rw [a6, this.2])

/-! ### bit corruption -/

/-- the bytes the sink hands to protobuf -/
def hdrBytes (s : Bytes) : Bytes := (s.drop 4).take (be32 s)

theorem sizes_crc_eq (E : Ext) (hc : NoCollision E) : ∀ (hs : List FileHdr) (ws ws' : List Bytes),
    SizesMatch ws hs → SizesMatch ws' hs → (∀ p ∈ ws.zip hs, E.crc p.1 = p.2.crc) →
    (∀ p ∈ ws'.zip hs, E.crc p.1 = p.2.crc) → ws' = ws := by
  intro hs
  induction hs with
  | nil => intro ws ws' h h' _ _; cases h; cases h'; rfl
  | cons hd tl ih =>
    intro ws ws' h h' c c'
    match ws, ws', h, h' with
    | f :: fs, f' :: fs', .cons h0 hr, .cons h0' hr' =>
      have a : E.crc f = hd.crc := c (f, hd) (by simp)
      have b : E.crc f' = hd.crc := c' (f', hd) (by simp)
      have e1 : f' = f := hc f' f (by omega) (by rw [a, b])
      have e2 := ih fs fs' hr hr' (fun p hp => c p (by simp [hp])) (fun p hp => c' p (by simp [hp]))
      rw [e1, e2]

/-- the statement one would like: of all equally long streams whose header decodes to the
same SnapshotHeader, only one installs -/
def corruption_fails_full : Prop :=
  ∀ (E : Ext), NoCollision E → ∀ (s s' db : Bytes) (wals : List Bytes),
    install E false [s] = .installed db wals → s'.length = s.length → s' ≠ s →
    be32 s' = be32 s → E.decode (hdrBytes s') = E.decode (hdrBytes s) →
    ∀ db' wals', install E false [s'] ≠ .installed db' wals'

/-- **data_corruption_fails** (the part that holds): if the length prefix and the header BYTES
are intact, any change to the file bytes makes the install fail (no CRC collision assumed). -/
theorem data_corruption_fails (E : Ext) (hc : NoCollision E) (s s' db : Bytes) (wals : List Bytes)
    (h : install E false [s] = .installed db wals) (hne : s' ≠ s)
    (hpre : s'.take (4 + be32 s) = s.take (4 + be32 s)) :
    ∀ db' wals', install E false [s'] ≠ .installed db' wals' := by
  intro db' wals' h'
  obtain ⟨hr, _, _⟩ := install_implies_restore E false s db wals h
  obtain ⟨hr', _, _⟩ := install_implies_restore E false s' db' wals' h'
  obtain ⟨dbh, walhs, h1, h2, hd, h3, hdb, hcrc, hw⟩ := restore_cases E s db wals hr
  obtain ⟨dbh', walhs', h1', h2', hd', h3', hdb', hcrc', hw'⟩ := restore_cases E s' db' wals' hr'
  have hn : be32 s' = be32 s := by
    have a : be32 (s'.take (4 + be32 s)) = be32 s' := be32_take s' _ (by omega)
    have b : be32 (s.take (4 + be32 s)) = be32 s := be32_take s _ (by omega)
    calc be32 s' = be32 (s'.take (4 + be32 s)) := a.symm
      _ = be32 (s.take (4 + be32 s)) := by rw [hpre]
      _ = be32 s := b
  have hhb : (s'.drop 4).take (be32 s) = (s.drop 4).take (be32 s) := by
    have a : (s'.drop 4).take (be32 s) = ((s'.take (4 + be32 s)).drop 4) := by
      rw [List.drop_take]; congr 1; omega
    have b : (s.drop 4).take (be32 s) = ((s.take (4 + be32 s)).drop 4) := by
      rw [List.drop_take]; congr 1; omega
    rw [a, b, hpre]
  rw [hn, hhb, hd] at hd'
  have hp := congrArg SnapHeader.payload (Option.some.inj hd')
  simp only [Payload.full.injEq, Option.some.injEq] at hp
  obtain ⟨rfl, rfl⟩ := hp
  obtain ⟨e1, e2, e3⟩ := restoreWals_sound E _ _ _ _ hw
  obtain ⟨e1', e2', e3'⟩ := restoreWals_sound E _ _ _ _ hw'
  rw [hn] at h3' hdb' e1'
  simp only [List.append_nil] at e1 e1'
  have hdbl : db.length = dbh.size := by rw [hdb]; simp only [List.length_take]; omega
  have hdbl' : db'.length = dbh.size := by rw [hdb']; simp only [List.length_take]; omega
  have edb : db' = db := hc db' db (by omega) (by rw [hcrc, hcrc'])
  have ewals : wals' = wals := sizes_crc_eq E hc walhs wals wals' e2 e2' e3 e3'
  -- both streams are prefix ++ db ++ wals
  have body : s.drop (4 + be32 s) = db ++ wals.flatten := by rw [← e1, hdb, List.take_append_drop]
  have body' : s'.drop (4 + be32 s) = db' ++ wals'.flatten := by rw [← e1', hdb', List.take_append_drop]
  apply hne
  calc s' = s'.take (4 + be32 s) ++ s'.drop (4 + be32 s) := (List.take_append_drop _ _).symm
    _ = s.take (4 + be32 s) ++ s.drop (4 + be32 s) := by rw [hpre, body, body', edb, ewals]
    _ = s := List.take_append_drop _ _

/-! the same facts without any global assumption about the checksum: either the bytes are the
same, or the two byte strings at hand are a concrete CRC collision -/

/-- `a` and `b` are different byte strings of the same length with the same checksum -/
def Collide (E : Ext) (a b : Bytes) : Prop := a.length = b.length ∧ a ≠ b ∧ E.crc a = E.crc b

theorem sizes_crc_eq_or_collide (E : Ext) : ∀ (hs : List FileHdr) (ws ws' : List Bytes),
    SizesMatch ws hs → SizesMatch ws' hs → (∀ p ∈ ws.zip hs, E.crc p.1 = p.2.crc) →
    (∀ p ∈ ws'.zip hs, E.crc p.1 = p.2.crc) →
    ws' = ws ∨ ∃ w' ∈ ws', ∃ w ∈ ws, Collide E w' w := by
  intro hs
  induction hs with
  | nil => intro ws ws' h h' _ _; cases h; cases h'; exact Or.inl rfl
  | cons hd tl ih =>
    intro ws ws' h h' c c'
    match ws, ws', h, h' with
    | f :: fs, f' :: fs', .cons h0 hr, .cons h0' hr' =>
      have a : E.crc f = hd.crc := c (f, hd) (by simp)
      have b : E.crc f' = hd.crc := c' (f', hd) (by simp)
      by_cases e1 : f' = f
      · rcases ih fs fs' hr hr' (fun p hp => c p (by simp [hp])) (fun p hp => c' p (by simp [hp])) with e2 | ⟨w', hw', w, hw, hc⟩
        · left; rw [e1, e2]
        · right; exact ⟨w', by simp [hw'], w, by simp [hw], hc⟩
      · right; exact ⟨f', by simp, f, by simp, by omega, e1, by rw [a, b]⟩

/-- **installed_db_is_source_or_collide.** With a header built from the source database (its size
and CRC), what the sink installs is the source database — or the installed and the source bytes
are a concrete CRC-32C collision of equal length. No assumption about the checksum. -/
theorem installed_db_is_source_or_collide (E : Ext) (due : Bool) (ws : List Bytes)
    (hne : ∀ w ∈ ws, w ≠ []) (db : Bytes) (wals : List Bytes)
    (h : install E due ws = .installed db wals) (src : Bytes)
    (hsrc : ∀ hb dbh walhs, E.decode hb = some ⟨1, .full (some dbh) walhs⟩ →
      hb.length + 4 ≤ ws.flatten.length → (ws.flatten.drop 4).take hb.length = hb →
      dbh.size = src.length ∧ dbh.crc = E.crc src) :
    db = src ∨ Collide E db src := by
  obtain ⟨pre, hb, dbh, walhs, a1, a2, a3, a4, a5, a6, _⟩ := install_exact E due ws hne db wals h
  have := hsrc hb dbh walhs a4 (by rw [a1]; simp [a2]; omega) (by rw [a1]; simp [a2])
  by_cases e : db = src
  · exact Or.inl e
  · exact Or.inr ⟨by omega, e, by rw [a6, this.2]⟩

/-- **data_corruption_collides.** Length prefix and header bytes intact, file bytes changed: if
the changed stream installs at all, then some installed file and the corresponding original
file are a concrete same-length CRC collision. (For CRC-32C this excludes every single-bit
flip and every burst of up to 32 bits.) -/
theorem data_corruption_collides (E : Ext) (s s' db : Bytes) (wals : List Bytes)
    (h : install E false [s] = .installed db wals) (hne : s' ≠ s)
    (hpre : s'.take (4 + be32 s) = s.take (4 + be32 s)) (db' : Bytes) (wals' : List Bytes)
    (h' : install E false [s'] = .installed db' wals') :
    Collide E db' db ∨ ∃ w' ∈ wals', ∃ w ∈ wals, Collide E w' w := by
  obtain ⟨hr, _, _⟩ := install_implies_restore E false s db wals h
  obtain ⟨hr', _, _⟩ := install_implies_restore E false s' db' wals' h'
  obtain ⟨dbh, walhs, h1, h2, hd, h3, hdb, hcrc, hw⟩ := restore_cases E s db wals hr
  obtain ⟨dbh', walhs', h1', h2', hd', h3', hdb', hcrc', hw'⟩ := restore_cases E s' db' wals' hr'
  have hn : be32 s' = be32 s := by
    have a : be32 (s'.take (4 + be32 s)) = be32 s' := be32_take s' _ (by omega)
    have b : be32 (s.take (4 + be32 s)) = be32 s := be32_take s _ (by omega)
    calc be32 s' = be32 (s'.take (4 + be32 s)) := a.symm
      _ = be32 (s.take (4 + be32 s)) := by rw [hpre]
      _ = be32 s := b
  have hhb : (s'.drop 4).take (be32 s) = (s.drop 4).take (be32 s) := by
    have a : (s'.drop 4).take (be32 s) = ((s'.take (4 + be32 s)).drop 4) := by
      rw [List.drop_take]; congr 1; omega
    have b : (s.drop 4).take (be32 s) = ((s.take (4 + be32 s)).drop 4) := by
      rw [List.drop_take]; congr 1; omega
    rw [a, b, hpre]
  rw [hn, hhb, hd] at hd'
  have hp := congrArg SnapHeader.payload (Option.some.inj hd')
  simp only [Payload.full.injEq, Option.some.injEq] at hp
  obtain ⟨rfl, rfl⟩ := hp
  obtain ⟨e1, e2, e3⟩ := restoreWals_sound E _ _ _ _ hw
  obtain ⟨e1', e2', e3'⟩ := restoreWals_sound E _ _ _ _ hw'
  rw [hn] at h3' hdb' e1'
  simp only [List.append_nil] at e1 e1'
  have hdbl : db.length = dbh.size := by rw [hdb]; simp only [List.length_take]; omega
  have hdbl' : db'.length = dbh.size := by rw [hdb']; simp only [List.length_take]; omega
  have body : s.drop (4 + be32 s) = db ++ wals.flatten := by rw [← e1, hdb, List.take_append_drop]
  have body' : s'.drop (4 + be32 s) = db' ++ wals'.flatten := by rw [← e1', hdb', List.take_append_drop]
  by_cases edb : db' = db
  · rcases sizes_crc_eq_or_collide E walhs wals wals' e2 e2' e3 e3' with ewals | hc
    · exfalso; apply hne
      calc s' = s'.take (4 + be32 s) ++ s'.drop (4 + be32 s) := (List.take_append_drop _ _).symm
        _ = s.take (4 + be32 s) ++ s.drop (4 + be32 s) := by rw [hpre, body, body', edb, ewals]
        _ = s := List.take_append_drop _ _
    · exact Or.inr hc
  · exact Or.inl ⟨by omega, edb, by rw [hcrc, hcrc']⟩

/-- toy externals with an injective "checksum" and a decoder that ignores the second byte -/
def byteNat : Bytes → Nat
  | [] => 0
  | x :: t => x.toNat + 256 * byteNat t

theorem byteNat_inj : ∀ x y : Bytes, x.length = y.length → byteNat x = byteNat y → x = y := by
  intro x
  induction x with
  | nil => intro y hl _; cases y <;> simp_all
  | cons a t ih =>
    intro y hl he
    cases y with
    | nil => simp at hl
    | cons b u =>
      simp only [byteNat] at he
      have ha := a.toNat_lt; have hb := b.toNat_lt
      have h1 : a.toNat = b.toNat := by omega
      have h2 : byteNat t = byteNat u := by omega
      rw [ih u (by simpa using hl) h2, UInt8.toNat_inj.1 h1]

def witDb : Bytes := [83, 81, 76]
def witExt : Ext :=
  { decode := fun b => if b.take 1 = [7] then some ⟨1, .full (some ⟨3, byteNat witDb⟩) []⟩ else none,
    crc := byteNat, validDb := fun _ => true, validWal := fun _ => true }

/-- **witness**: two different header byte strings that protobuf decodes to the same header
(e.g. a uint32 varint with a flipped bit above bit 31) both install: a corrupted header
byte can go unnoticed (the installed data is identical) -/
theorem corruption_fails_witness : ¬ corruption_fails_full := by
  intro h
  have := h witExt (fun x y hl he => byteNat_inj x y hl he)
    (frame [7, 7] [witDb]) (frame [7, 8] [witDb]) witDb [] (by decide) (by decide) (by decide)
    (by decide) (by decide) witDb []
  exact this (by decide)

/-! ### single edits of a stream: the true statements, what holds, what does not -/

/-- one flipped byte, one dropped byte, one inserted byte, or a truncation, at byte position `pos`
(the first `pos` bytes are untouched) -/
inductive EditAt : Nat → Bytes → Bytes → Prop
  | flip (pre post : Bytes) (x y : UInt8) : x ≠ y → EditAt pre.length (pre ++ x :: post) (pre ++ y :: post)
  | drop (pre post : Bytes) (x : UInt8) : EditAt pre.length (pre ++ x :: post) (pre ++ post)
  | insert (pre post : Bytes) (y : UInt8) : EditAt pre.length (pre ++ post) (pre ++ y :: post)
  | trunc (s : Bytes) (k : Nat) : k < s.length → EditAt k s (s.take k)

def Edit (s s' : Bytes) : Prop := ∃ pos, EditAt pos s s'

theorem EditAt.ne {pos : Nat} {s s' : Bytes} (e : EditAt pos s s') : s' ≠ s := by
  cases e with
  | flip pre post x y h =>
    intro e
    have : y = x := by simpa using e
    exact h this.symm
  | drop pre post x => intro e; have := congrArg List.length e; simp at this
  | insert pre post y => intro e; have := congrArg List.length e; simp at this
  | trunc s k h => intro e; have := congrArg List.length e; simp at this; omega

theorem EditAt.take_eq {pos : Nat} {s s' : Bytes} (e : EditAt pos s s') : s'.take pos = s.take pos := by
  cases e with
  | flip pre post x y h => simp
  | drop pre post x => simp
  | insert pre post y => simp
  | trunc s k h => rw [List.take_take, Nat.min_self]

/-- the property's letter: any single edit of an installable stream makes the install fail -/
def any_edit_fails_full : Prop :=
  ∀ (E : Ext), NoCollision E → ∀ (s s' db : Bytes) (wals : List Bytes),
    install E false [s] = .installed db wals → Edit s s' → ∀ db' wals', install E false [s'] ≠ .installed db' wals'

/-- the safety reading: any single edit makes the install fail OR what is installed is the
source data -/
def any_edit_safe_full : Prop :=
  ∀ (E : Ext), NoCollision E → ∀ (s s' db : Bytes) (wals : List Bytes),
    install E false [s] = .installed db wals → Edit s s' →
    ∀ db' wals', install E false [s'] = .installed db' wals' → db' = db ∧ wals' = wals

/-- **edit_in_data_fails** (partial 1): an edit that leaves the length prefix and the header
bytes untouched — any flip, drop, insert in the database or WAL bytes, any truncation there —
makes the install fail (no CRC collision assumed). -/
theorem edit_in_data_fails (E : Ext) (hc : NoCollision E) (s s' db : Bytes) (wals : List Bytes)
    (h : install E false [s] = .installed db wals) (pos : Nat) (e : EditAt pos s s') (hpos : 4 + be32 s ≤ pos) :
    ∀ db' wals', install E false [s'] ≠ .installed db' wals' := by
  apply data_corruption_fails E hc s s' db wals h e.ne
  have := e.take_eq
  have h1 : s'.take (4 + be32 s) = (s'.take pos).take (4 + be32 s) := by
    rw [List.take_take]; congr 1; omega
  have h2 : s.take (4 + be32 s) = (s.take pos).take (4 + be32 s) := by
    rw [List.take_take]; congr 1; omega
  rw [h1, h2, this]

/-- **edit_in_data_collides.** Any single edit behind the header bytes: the edited stream fails
to install, or an installed file and its original are a concrete same-length CRC collision. -/
theorem edit_in_data_collides (E : Ext) (s s' db : Bytes) (wals : List Bytes)
    (h : install E false [s] = .installed db wals) (pos : Nat) (e : EditAt pos s s') (hpos : 4 + be32 s ≤ pos)
    (db' : Bytes) (wals' : List Bytes) (h' : install E false [s'] = .installed db' wals') :
    Collide E db' db ∨ ∃ w' ∈ wals', ∃ w ∈ wals, Collide E w' w := by
  apply data_corruption_collides E s s' db wals h e.ne _ db' wals' h'
  have := e.take_eq
  have h1 : s'.take (4 + be32 s) = (s'.take pos).take (4 + be32 s) := by
    rw [List.take_take]; congr 1; omega
  have h2 : s.take (4 + be32 s) = (s.take pos).take (4 + be32 s) := by
    rw [List.take_take]; congr 1; omega
  rw [h1, h2, this]

/-- **truncation anywhere fails** (partial 2), in the edit vocabulary -/
theorem edit_truncation_fails (E : Ext) (s db : Bytes) (wals : List Bytes)
    (h : install E false [s] = .installed db wals) (k : Nat) (hk : k < s.length) :
    ∀ db' wals', install E false [s.take k] ≠ .installed db' wals' := by
  intro db' wals' h'
  exact restore_truncation_fails E s db wals (install_implies_restore E false s db wals h).1 k hk db' wals'
    (install_implies_restore E false _ db' wals' h').1

/-- the receivers read a stream only through its length prefix, the decoded header and the
bytes after the header: two streams that agree on these restore identically -/
theorem restore_depends_on_decoded_header (E : Ext) (s s' : Bytes) (hl : s'.length = s.length)
    (hn : be32 s' = be32 s) (hd : E.decode (hdrBytes s') = E.decode (hdrBytes s))
    (hb : s'.drop (4 + be32 s) = s.drop (4 + be32 s)) : restore E s' = restore E s := by
  simp only [restore, hl, hn]
  simp only [hdrBytes, hn] at hd
  rw [hd, hb]

/-- **edit_decoding_identically_same_data** (partial 3): an edit inside the header bytes that
protobuf decodes to the same header cannot change what is installed (it does NOT make the
install fail: see `any_edit_fails_witness`). -/
theorem edit_decoding_identically_same_data (E : Ext) (s s' db : Bytes) (wals : List Bytes)
    (h : install E false [s] = .installed db wals) (hl : s'.length = s.length)
    (hn : be32 s' = be32 s) (hd : E.decode (hdrBytes s') = E.decode (hdrBytes s))
    (hb : s'.drop (4 + be32 s) = s.drop (4 + be32 s)) :
    ∀ db' wals', install E false [s'] = .installed db' wals' → db' = db ∧ wals' = wals := by
  intro db' wals' h'
  have r := (install_implies_restore E false s db wals h).1
  have r' := (install_implies_restore E false s' db' wals' h').1
  rw [restore_depends_on_decoded_header E s s' hl hn hd hb, r] at r'
  obtain ⟨rfl, rfl⟩ := RestoreRes.ok.inj r'
  exact ⟨rfl, rfl⟩

/-- **witness against the letter**: one flipped header byte that decodes identically installs -/
theorem any_edit_fails_witness : ¬ any_edit_fails_full := by
  intro h
  have hs : frame [7, 7] [witDb] = [0, 0, 0, 2, 7] ++ 7 :: witDb := by decide
  have hs' : frame [7, 8] [witDb] = [0, 0, 0, 2, 7] ++ 8 :: witDb := by decide
  have := h witExt (fun x y hl he => byteNat_inj x y hl he)
    (frame [7, 7] [witDb]) (frame [7, 8] [witDb]) witDb [] (by decide)
    (by rw [hs, hs']; exact ⟨_, EditAt.flip _ _ 7 8 (by decide)⟩) witDb []
  exact this (by decide)

/-- an adversarial header decoder: the second header byte selects how the same three data
bytes are split into files -/
def advExt : Ext :=
  { decode := fun b =>
      if b = [7, 7] then some ⟨1, .full (some ⟨3, byteNat [83, 81, 76]⟩) []⟩
      else if b = [7, 8] then some ⟨1, .full (some ⟨2, byteNat [83, 81]⟩) [⟨1, byteNat [76]⟩]⟩
      else none,
    crc := byteNat, validDb := fun _ => true, validWal := fun _ => true }

/-- **witness against the safety reading for an arbitrary decoder**: `any_edit_safe_full` needs
a fact about the header codec (a single edit does not turn a header into another header that is
consistent with the same bytes); for an abstract decoder it is false. For the real protobuf
codec it is checked by running every single-bit flip, drop, insert and truncation at every
position (no "altered data installed" is ever observed). -/
theorem any_edit_safe_witness : ¬ any_edit_safe_full := by
  intro h
  have hs : frame [7, 7] [[83, 81, 76]] = [0, 0, 0, 2, 7] ++ 7 :: [83, 81, 76] := by decide
  have hs' : frame [7, 8] [[83, 81, 76]] = [0, 0, 0, 2, 7] ++ 8 :: [83, 81, 76] := by decide
  have := h advExt (fun x y hl he => byteNat_inj x y hl he)
    (frame [7, 7] [[83, 81, 76]]) (frame [7, 8] [[83, 81, 76]]) [83, 81, 76] [] (by decide)
    (by rw [hs, hs']; exact ⟨_, EditAt.flip _ _ 7 8 (by decide)⟩) [83, 81] [[76]] (by decide)
  exact absurd this.1 (by decide)

/-! ### transport compression -/

/-- the statement one would like: with compression on, whatever the sender's payload, the
receiver's sink behaves as if it had been written the payload directly -/
def transport_transparent_full : Prop :=
  ∀ (E : Ext) (Z : Zstd), Z.Lawful → ∀ (due : Bool) (p : Bytes), p.length < 9223372036854775808 →
    installVia E Z due p.length (sendWire Z p.length p) = install E due [p]

/-- **transport_transparent_partial**: it holds whenever the wire form (8 bytes + compressed
payload) is not longer than the payload, i.e. fits into the `req.Size` bytes that raft's
`io.LimitReader(conn, req.Size)` lets the receiver read. -/
theorem transport_transparent_partial (E : Ext) (Z : Zstd) (hZ : Z.Lawful) (due : Bool) (p : Bytes)
    (hp : p.length < 9223372036854775808) (hfit : (sendWire Z p.length p).length ≤ p.length) :
    installVia E Z due p.length (sendWire Z p.length p) = install E due [p] := by
  simp [installVia, transport_transparent Z hZ p hp hfit]

/-- what an over-long wire form can do: by the truncation law the receiver gets the whole
payload after all or an error, never other bytes -/
theorem transport_oversize_fails_or_same (Z : Zstd) (hZ : Z.Lawful) (p : Bytes)
    (hp : p.length < 9223372036854775808) (h8 : 8 ≤ p.length)
    (hover : p.length < (sendWire Z p.length p).length) :
    recvWire Z p.length (sendWire Z p.length p) = ⟨p, false⟩ ∨
    (recvWire Z p.length (sendWire Z p.length p)).err = true := recv_oversize Z hZ p hp h8 hover

/-- the size prefix: a larger declared size goes unnoticed (the decoder ends first, cleanly);
a smaller one delivers a prefix, which raft's byte count then rejects -/
theorem size_prefix_larger_unnoticed (Z : Zstd) (hZ : Z.Lawful) (p : Bytes) (n raftSize : Nat)
    (hn : p.length < n) (hn64 : n < 9223372036854775808) (hfit : (sendWire Z n p).length ≤ raftSize) :
    recvWire Z raftSize (sendWire Z n p) = ⟨p, false⟩ := by
  have ht : (sendWire Z n p).take raftSize = sendWire Z n p := List.take_of_length_le hfit
  simp only [recvWire, ht]
  have hne : sendWire Z n p ≠ [] := by simp [sendWire, enc64, enc32]
  have hl8 : ¬ (sendWire Z n p).length < 8 := by simp [sendWire, enc64_length]
  have hb : be64 (sendWire Z n p) = n := be64_enc64_append _ _ (by omega)
  rw [if_neg hne, if_neg hl8, hb, if_neg (by omega)]
  have hd : (sendWire Z n p).drop 8 = Z.comp p := by
    simp only [sendWire]; exact List.drop_left' (enc64_length _)
  have := hZ.roundtrip p []
  simp only [List.append_nil] at this
  rw [hd, this]
  simp; omega

/-- bytes the sender compresses beyond the declared size are dropped silently by the receiver's
`io.LimitReader(dec, n)` (they never reach the sink, and no error is raised) -/
theorem bytes_after_declared_size_dropped (Z : Zstd) (hZ : Z.Lawful) (p extra : Bytes) (raftSize : Nat)
    (hn64 : p.length < 9223372036854775808) (hfit : (sendWire Z p.length (p ++ extra)).length ≤ raftSize) :
    recvWire Z raftSize (sendWire Z p.length (p ++ extra)) = ⟨p, false⟩ := by
  have ht : (sendWire Z p.length (p ++ extra)).take raftSize = sendWire Z p.length (p ++ extra) :=
    List.take_of_length_le hfit
  simp only [recvWire, ht]
  have hne : sendWire Z p.length (p ++ extra) ≠ [] := by simp [sendWire, enc64, enc32]
  have hl8 : ¬ (sendWire Z p.length (p ++ extra)).length < 8 := by simp [sendWire, enc64_length]
  have hb : be64 (sendWire Z p.length (p ++ extra)) = p.length := be64_enc64_append _ _ (by omega)
  rw [if_neg hne, if_neg hl8, hb, if_neg (by omega)]
  have hd : (sendWire Z p.length (p ++ extra)).drop 8 = Z.comp (p ++ extra) := by
    simp only [sendWire]; exact List.drop_left' (enc64_length _)
  have := hZ.roundtrip (p ++ extra) []
  simp only [List.append_nil] at this
  rw [hd, this]
  simp

/-- whatever arrives over the compressing transport is judged by the sink on the delivered
bytes alone: the transport adds no way of getting something installed (so `install_exact`,
`truncation_fails`, `edit_in_data_fails`, … apply to the delivered bytes) -/
theorem transport_adds_no_acceptance (E : Ext) (Z : Zstd) (due : Bool) (raftSize : Nat) (wire db : Bytes)
    (wals : List Bytes) (h : installVia E Z due raftSize wire = .installed db wals) :
    (recvWire Z raftSize wire).err = false ∧ (recvWire Z raftSize wire).delivered.length = raftSize ∧
    install E due [(recvWire Z raftSize wire).delivered] = .installed db wals := by
  unfold installVia at h
  simp only at h
  split at h
  · cases h
  rename_i h1
  split at h
  · cases h
  rename_i h2
  exact ⟨by simpa using h1, by simpa using h2, h⟩

/-- anything the sink installs passed the validity and CRC checks against the header the
stream carried -/
theorem installed_verified (E : Ext) (s : SinkSt) (db : Bytes) (wals : List Bytes)
    (h : sinkClose E s = .installed db wals) :
    ∃ dbh walhs st files, s = .full dbh walhs st ∧ fullFinalize st = some files ∧
      fullVerify E dbh walhs files = .ok (db, wals) := by
  cases s with
  | header b => simp [sinkClose] at h
  | incremental d => simp [sinkClose] at h
  | full dbh walhs st =>
    simp only [sinkClose] at h
    split at h
    · cases h
    rename_i files hf
    split at h
    · cases h
    rename_i d w hv
    obtain ⟨rfl, rfl⟩ := Outcome.installed.inj h
    exact ⟨dbh, walhs, st, files, rfl, hf, hv⟩

/-- a stream that ends before its header is complete is never reported as installed -/
theorem header_incomplete_fails (E : Ext) (buf : Bytes) : sinkClose E (.header buf) = .closeErr .incomplete := rfl

/-! ### the "or nothing" half: a crash during `Sink.Close` -/

/-- **crash_installs_all_or_nothing.** Wherever the process dies during `Sink.Close`, after the
next start the store shows either no trace of the snapshot or the complete snapshot directory
(data files, CRC sidecars and meta.json): the rename into place comes after every write. -/
theorem crash_installs_all_or_nothing (k : Nat) :
    visibleAfterRestart (crashAfter k) = none ∨
    ∃ d, visibleAfterRestart (crashAfter k) = some d ∧ d.complete = true := by
  have h : ∀ j, j ≤ closeSteps.length → (visibleAfterRestart (crashAfter j) = none ∨
      ∃ d, visibleAfterRestart (crashAfter j) = some d ∧ d.complete = true) := by decide
  by_cases hk : k ≤ closeSteps.length
  · exact h k hk
  · have : crashAfter k = crashAfter closeSteps.length := by
      simp only [crashAfter]
      rw [List.take_of_length_le (by omega), List.take_of_length_le (Nat.le_refl _)]
    rw [this]; exact h _ (Nat.le_refl _)

/-- nothing is visible before the rename step, the whole snapshot from it on -/
theorem crash_before_rename_shows_nothing :
    (∀ k, k < 4 → visibleAfterRestart (crashAfter k) = none) ∧
    (∀ k, k < 7 → 4 ≤ k → visibleAfterRestart (crashAfter k) = some ⟨true, true, true⟩) := by decide

/-- **incremental_crash_all_or_nothing.** The incremental-file path: wherever the process dies
during Close, after the restart (tmp directory removed) the WAL files are either still in the
local source directory with nothing installed, or gone from the source with nothing installed
(steps 1-5: the captured WAL data is lost, which is why the code exits hard and a full snapshot
follows), or installed completely with their meta.json; never a partial snapshot directory. -/
theorem incremental_crash_all_or_nothing (k : Nat) (hk : k < 8) :
    (incCrashAfter k).installed = none ∨ (incCrashAfter k).installed = some true := by
  revert k; decide

/-- the window in which the captured WAL files exist nowhere the next start will look -/
theorem incremental_crash_loses_source_between_move_and_rename :
    ∀ k, k < 8 → (((incCrashAfter k).source = false ∧ (incCrashAfter k).installed = none) ↔ (1 ≤ k ∧ k ≤ 5)) := by
  decide

open RqModel.Gen.SinkClose in
/-- **close_order_fact.** In the CURRENT source, after the sink-specific part (`sinkW.Close()`
for a full snapshot; moving the WAL directory in for an incremental one) `Sink.Close` calls
writeMeta, syncs the tmp directory, renames it into place, clears the full-needed flag and
syncs the store directory, in this order; `FullSink.Close` runs the SQLite-format checks before
it writes any sidecar; `Store.check` removes tmp directories. -/
theorem close_order_fact :
    (sinkCloseCalls.drop 5).filterMap closeStepOfCall =
      [.closeFiles, .writeMeta, .syncTmp, .rename, .clearFlag, .syncTmp] ∧
    (sinkCloseCalls.drop 5) = ["Close", "writeMeta", "SyncDirMaybe", "Rename", "ClearFullNeeded", "SyncDirMaybe"] ∧
    sinkCloseCalls.take 5 = ["RemoveAll", "RemoveAll", "Rename", "MoveWALFilesTo", "Remove"] ∧
    fullSinkCloseCalls = ["IsValidSQLiteFile", "IsValidSQLiteWALFile", "WriteFile", "WriteFile"] ∧
    storeCheckCalls = ["isTmpName", "RemoveAll"] := by decide

/-! ### non-vacuity: a concrete stream through concrete (toy) externals -/

def exDb : Bytes := [83, 81, 76, 0, 1, 2]
def exHb : Bytes := [7, 7]
def exSum (b : Bytes) : Nat := (b.map (·.toNat)).sum
def exExt : Ext :=
  { decode := fun b => if b = exHb then some ⟨1, .full (some ⟨6, exSum exDb⟩) []⟩ else none,
    crc := exSum, validDb := fun b => b.take 3 == [83, 81, 76], validWal := fun _ => true }

example : restore exExt (frame exHb [exDb]) = .ok exDb [] := by decide
example : install exExt false [frame exHb [exDb]] = .installed exDb [] := by decide
example : install exExt false [(frame exHb [exDb]).take 9, (frame exHb [exDb]).drop 9] = .installed exDb [] := by decide
example : install exExt false [frame exHb [exDb] ++ [0]] = .writeErr .unexpectedData := by decide
example : restore exExt (frame exHb [exDb] ++ [0]) = .err .trailingData := by decide
example : install exExt false [(frame exHb [exDb]).take 5] = .closeErr .incomplete := by decide

/-- the hypotheses of `streamed_snapshot_installs` are jointly satisfiable -/
example :
    install exExt false [(frame exHb [exDb]).take 9, (frame exHb [exDb]).drop 9] = .installed exDb [] ∧
    restore exExt (frame exHb [exDb]) = .ok exDb [] :=
  streamed_snapshot_installs exExt false exHb exDb [] (by decide) (by decide) (by decide) (by decide)
    (by intro w hw; cases hw) [(frame exHb [exDb]).take 9, (frame exHb [exDb]).drop 9] (by decide) (by decide)

/-- … and so are those of `installed_db_is_source_or_collide` (source = `exDb`) -/
example : exDb = exDb ∨ Collide exExt exDb exDb :=
  installed_db_is_source_or_collide exExt false [frame exHb [exDb]] (by decide) exDb [] (by decide) exDb
    (by
      intro hb dbh walhs hd _ _
      simp only [exExt] at hd
      split at hd
      · have := congrArg SnapHeader.payload (Option.some.inj hd)
        simp only [Payload.full.injEq, Option.some.injEq] at this
        rw [← this.1]; exact ⟨by decide, rfl⟩
      · cases hd)

/-- **witness, with a LAWFUL codec** (`escZ`: every byte escaped, frame ended by a marker;
`escZ_lawful` proves both laws): the payload does not shrink, raft's LimitReader cuts the wire
form, the decompressor fails and nothing is installed — although nothing was corrupted and the
same bytes written directly to the sink install. -/
theorem transport_transparent_witness : ¬ transport_transparent_full := by
  intro h
  have := h exExt escZ escZ_lawful false (frame exHb [exDb]) (by decide)
  revert this
  decide

/-- the laws are satisfiable together with the "fits" hypothesis (`tinyZ` compresses twenty 7s into
one byte): the partial transparency theorem is not vacuous -/
example (E : Ext) (due : Bool) :
    installVia E tinyZ due sevens.length (sendWire tinyZ sevens.length sevens) = install E due [sevens] :=
  transport_transparent_partial E tinyZ tinyZ_lawful due sevens (by decide) (by decide)

/-- the laws are satisfiable, so the transport theorems are not vacuous -/
example : recvWire escZ 40 (sendWire escZ 5 [1, 2, 3, 4, 5]) = ⟨[1, 2, 3, 4, 5], false⟩ := by decide
example : recvWire escZ 40 (sendWire escZ 9 [1, 2, 3, 4, 5]) = ⟨[1, 2, 3, 4, 5], false⟩ :=
  size_prefix_larger_unnoticed escZ escZ_lawful [1, 2, 3, 4, 5] 9 40 (by decide) (by decide) (by decide)
example : recvWire escZ 40 (sendWire escZ 3 ([1, 2, 3] ++ [4, 5])) = ⟨[1, 2, 3], false⟩ :=
  bytes_after_declared_size_dropped escZ escZ_lawful [1, 2, 3] [4, 5] 40 (by decide) (by decide)

end C10

/-
Helper lemmas for C25: the invariant of the one-node CDC pipeline model
(RqModel/Model/CdcPipe.lean) and its preservation by every operation, for histories in which
every log entry yields at most one event group (single statement, or a transaction).
-/
import RqModel.Model.CdcPipe
import RqModel.Lemmas.Fifo
namespace RqModel.CdcPipe
open RqModel.Fifo

/-- number of statements of an entry that produce events -/
def nonEmptyStmts (l : List Nat) : Nat := (l.filter (fun n => n ≠ 0)).length

/-- the entry yields at most one event group: it runs in a transaction, or at most one of
its statements produces events on a matching table -/
def single (e : Entry) : Bool := e.tx || decide (nonEmptyStmts e.stmts ≤ 1)

/-! ### the streamer on single-group entries -/

theorem streamNonTx_idx_first (k : Nat) (keep : Bool) (label j : Nat) (l : List Nat) :
    ∀ g ∈ (streamNonTx k keep label j l).head?, g.idx = label := by
  induction l generalizing j with
  | nil => simp [streamNonTx]
  | cons n rest ih =>
    unfold streamNonTx
    by_cases h : n = 0
    · simp only [h, if_true]; exact ih (j + 1)
    · simp [h]

theorem streamNonTx_nil_of_zero (k : Nat) (keep : Bool) (label j : Nat) (l : List Nat)
    (h : nonEmptyStmts l = 0) : streamNonTx k keep label j l = [] := by
  induction l generalizing j with
  | nil => simp [streamNonTx]
  | cons n rest ih =>
    unfold streamNonTx
    by_cases hn : n = 0
    · simp only [hn, if_true]
      apply ih
      simpa [nonEmptyStmts, hn] using h
    · simp [nonEmptyStmts, hn] at h

theorem streamNonTx_single (k : Nat) (keep : Bool) (label j : Nat) (l : List Nat)
    (h : nonEmptyStmts l ≤ 1) : ∀ g ∈ streamNonTx k keep label j l, g.idx = label := by
  induction l generalizing j with
  | nil => simp [streamNonTx]
  | cons n rest ih =>
    unfold streamNonTx
    by_cases hn : n = 0
    · simp only [hn, if_true]
      apply ih
      simpa [nonEmptyStmts, hn] using h
    · simp only [hn, if_false]
      have h0 : nonEmptyStmts rest = 0 := by
        simp [nonEmptyStmts, hn] at h
        simp [nonEmptyStmts]
        exact h
      rw [streamNonTx_nil_of_zero _ _ _ _ _ h0]
      simp

/-- every group of a single-group entry carries the entry's index -/
theorem stream_single_idx (keep : Bool) (e : Entry) (hs : single e = true) :
    ∀ g ∈ streamEntryWith keep e, g.idx = e.idx := by
  unfold streamEntryWith
  by_cases htx : e.tx = true
  · simp only [htx, if_true]
    cases changesFrom e.idx 0 e.stmts <;> simp
  · simp only [htx]
    have : nonEmptyStmts e.stmts ≤ 1 := by
      simp [single, htx] at hs; exact hs
    exact streamNonTx_single _ _ _ _ _ this

theorem streamNonTx_length (k : Nat) (keep : Bool) (label j : Nat) (l : List Nat) :
    (streamNonTx k keep label j l).length = nonEmptyStmts l := by
  induction l generalizing label j with
  | nil => simp [streamNonTx, nonEmptyStmts]
  | cons n rest ih =>
    unfold streamNonTx
    by_cases hn : n = 0
    · simp only [hn, if_true]; rw [ih]; simp [nonEmptyStmts]
    · simp only [hn, if_false, List.length_cons]; rw [ih]; simp [nonEmptyStmts, hn]

/-- … and there is at most one -/
theorem stream_single_length (keep : Bool) (e : Entry) (hs : single e = true) :
    (streamEntryWith keep e).length ≤ 1 := by
  unfold streamEntryWith
  by_cases htx : e.tx = true
  · simp only [htx, if_true]
    cases changesFrom e.idx 0 e.stmts <;> simp
  · have htx' : e.tx = false := by simpa using htx
    simp only [htx', Bool.false_eq_true, if_false]
    rw [streamNonTx_length]
    simp [single, htx'] at hs; exact hs

/-! ### the invariant -/

/-- all event groups of the entries applied so far -/
def groups (s : St) : List Group := s.log.flatMap (streamEntryWith s.keepIdx)

/-- delivered to the endpoint, or announced as delivered by another node's HWM broadcast -/
def DoneG (s : St) (g : Group) : Prop := (∃ d ∈ s.delivered, g ∈ d.2) ∨ g.idx ≤ s.maxIn

/-- a FIFO item the leader loop will still emit and not skip -/
def Live (s : St) (it : Nat × Batch) : Prop := s.fifo.nextFrom ≤ it.1 ∧ s.hwm < it.1

def PendG (s : St) (g : Group) : Prop :=
  (∃ it ∈ s.fifo.items, Live s it ∧ g ∈ it.2) ∨
  (∃ it, s.held = some it ∧ s.hwm < it.1 ∧ g ∈ it.2)

def BatchG (s : St) (g : Group) : Prop :=
  g ∈ s.batcher ∧ s.fifo.highest < g.idx ∧ s.hwm < g.idx

/-- everything except coverage; `f` bounds the indexes that have entered the pipeline -/
structure Base (s : St) (f : Nat) : Prop where
  fifo  : Inv s.fifo
  lab   : ∀ it ∈ s.fifo.items, ∀ g ∈ it.2, g.idx ≤ it.1
  heldI : ∀ it, s.held = some it →
            (∀ g ∈ it.2, g.idx ≤ it.1) ∧ it.1 < s.fifo.nextFrom ∧ it.1 ≤ s.fifo.highest ∧
            (it ∈ s.fifo.items ∨ it.1 ≤ s.maxIn) ∧ (s.hwm < it.1 ∨ it.1 ≤ s.maxIn)
  bnd   : s.hwm ≤ max s.fifo.highest s.maxIn ∧ s.fifo.nextFrom ≤ max s.fifo.highest s.maxIn + 1 ∧
            s.fifo.highest ≤ f
  bat   : ∀ g ∈ s.batcher, s.snap < g.idx ∧ g.idx ≤ s.lastFed ∧ 0 < g.idx
  fed   : s.lastFed ≤ f ∧ s.snap ≤ f
  chan  : ∀ n ∈ s.hwmChan, n ≤ s.maxIn
  noLb  : s.loopback = false
  bsz   : 0 < s.batchSz

/-- coverage of every group with index up to `f` -/
def Cov (s : St) (f : Nat) : Prop :=
  ∀ g ∈ groups s, g.idx ≤ f → DoneG s g ∨ PendG s g ∨ BatchG s g

theorem Base.mono {s : St} {f f' : Nat} (h : Base s f) (hf : f ≤ f') : Base s f' :=
  { h with bnd := ⟨h.bnd.1, h.bnd.2.1, Nat.le_trans h.bnd.2.2 hf⟩,
           fed := ⟨Nat.le_trans h.fed.1 hf, Nat.le_trans h.fed.2 hf⟩ }

/-! ### hiIdx of a batch whose indexes increase -/

theorem hiIdx_le_of_all (b : Batch) (m : Nat) (h : ∀ g ∈ b, g.idx ≤ m) : hiIdx b ≤ m := by
  unfold hiIdx
  suffices ∀ (acc : Nat), acc ≤ m → b.foldl (fun m g => max m g.idx) acc ≤ m from this 0 (Nat.zero_le _)
  induction b with
  | nil => intro acc h; simpa using h
  | cons a b ih =>
    intro acc hacc
    simp only [List.foldl_cons]
    apply ih (fun g hg => h g (by simp [hg]))
    have := h a (by simp)
    omega

theorem le_foldl_max (b : Batch) (acc : Nat) : acc ≤ b.foldl (fun m g => max m g.idx) acc := by
  induction b generalizing acc with
  | nil => simp
  | cons a b ih =>
    simp only [List.foldl_cons]
    have := ih (max acc a.idx)
    omega

theorem idx_le_hiIdx (b : Batch) (g : Group) (h : g ∈ b) : g.idx ≤ hiIdx b := by
  unfold hiIdx
  suffices ∀ (acc : Nat), g.idx ≤ b.foldl (fun m g => max m g.idx) acc from this 0
  induction b with
  | nil => simp at h
  | cons a b ih =>
    intro acc
    simp only [List.foldl_cons]
    simp at h
    rcases h with h | h
    · subst h
      have := le_foldl_max b (max acc g.idx)
      omega
    · exact ih h _

/-- the key of a batch ending with `g`, whose other members have smaller indexes, is `g.idx` -/
theorem hiIdx_snoc (b : Batch) (g : Group) (h : ∀ x ∈ b, x.idx < g.idx) : hiIdx (b ++ [g]) = g.idx := by
  apply Nat.le_antisymm
  · apply hiIdx_le_of_all
    intro x hx
    simp at hx
    rcases hx with hx | hx
    · exact Nat.le_of_lt (h x hx)
    · subst hx; exact Nat.le_refl _
  · exact idx_le_hiIdx _ _ (by simp)

theorem foldl_max_mem (b : Batch) (acc : Nat) :
    b.foldl (fun m g => max m g.idx) acc = acc ∨ ∃ g ∈ b, g.idx = b.foldl (fun m g => max m g.idx) acc := by
  induction b generalizing acc with
  | nil => simp
  | cons a b ih =>
    simp only [List.foldl_cons]
    rcases ih (max acc a.idx) with h | ⟨g, hg, hgi⟩
    · by_cases hle : a.idx ≤ acc
      · left; rw [h]; omega
      · right; exact ⟨a, by simp, by rw [h]; omega⟩
    · right; exact ⟨g, by simp [hg], hgi⟩

theorem hiIdx_mem (b : Batch) (h : b ≠ []) : ∃ g ∈ b, g.idx = hiIdx b := by
  rcases foldl_max_mem b 0 with h0 | h0
  · cases b with
    | nil => exact absurd rfl h
    | cons a rest =>
      refine ⟨a, by simp, ?_⟩
      have := idx_le_hiIdx (a :: rest) a (by simp)
      unfold hiIdx at *
      omega
  · exact h0

/-! ### flushing the batcher into the FIFO -/

theorem groups_eq (s t : St) (h1 : t.log = s.log) (h2 : t.keepIdx = s.keepIdx) : groups t = groups s := by
  simp [groups, h1, h2]

theorem flush_good (s : St) (f : Nat) (hb : Base s f) (hc : Cov s f) :
    Base (flushBatcher s) f ∧ Cov (flushBatcher s) f := by
  unfold flushBatcher
  cases hbat : s.batcher with
  | nil => simp only; exact ⟨hb, hc⟩
  | cons a rest =>
    simp only
    have hne : (a :: rest) ≠ [] := by simp
    obtain ⟨gm, hgm, hgmi⟩ := hiIdx_mem (a :: rest) hne
    have hall : ∀ g ∈ (a :: rest), g.idx ≤ hiIdx (a :: rest) := fun g hg => idx_le_hiIdx _ g hg
    have hmf : hiIdx (a :: rest) ≤ f := by
      have := (hb.bat gm (by rw [hbat]; exact hgm)).2.1
      have := hb.fed.1
      omega
    by_cases hm : hiIdx (a :: rest) ≤ s.fifo.highest
    · -- suppressed by the FIFO: every member is already done or pending
      have hq : enqueue s.fifo (hiIdx (a :: rest)) (a :: rest) = s.fifo := by simp [enqueue, hm]
      unfold enqueueBatch
      simp only [hq]
      refine ⟨{ hb with bat := by simp }, ?_⟩
      intro g hg hgf
      rcases hc g hg hgf with h | h | h
      · exact Or.inl h
      · exact Or.inr (Or.inl h)
      · exfalso
        have := hall g (by rw [← hbat]; exact h.1)
        have := h.2.1
        omega
    · have hgt : s.fifo.highest < hiIdx (a :: rest) := by omega
      obtain ⟨hitems, hhigh, hnf⟩ := enqueue_items_of_gt s.fifo (hiIdx (a :: rest)) (a :: rest) hb.fifo hgt
      unfold enqueueBatch
      refine ⟨?_, ?_⟩
      · refine { fifo := inv_enqueue _ _ _ hb.fifo, lab := ?_, heldI := ?_, bnd := ?_, bat := by simp,
                 fed := hb.fed, chan := hb.chan, noLb := hb.noLb, bsz := hb.bsz }
        · intro it hit g hg
          simp only [hitems, List.mem_append, List.mem_singleton] at hit
          rcases hit with hit | hit
          · exact hb.lab it hit g hg
          · subst hit; exact hall g hg
        · intro it hit
          obtain ⟨h1, h2, h3, h4, h5⟩ := hb.heldI it hit
          refine ⟨h1, by simp only [hnf]; exact h2, by simp only [hhigh]; omega, ?_, h5⟩
          rcases h4 with h4 | h4
          · left; simp only [hitems]; simp [h4]
          · exact Or.inr h4
        · simp only [hhigh, hnf]
          have := hb.bnd
          refine ⟨by omega, by omega, hmf⟩
      · intro g hg hgf
        rcases hc g hg hgf with h | h | h
        · exact Or.inl h
        · right; left
          rcases h with ⟨it, hit, hl, hgi⟩ | h
          · left
            refine ⟨it, by simp only [hitems]; simp [hit], ?_, hgi⟩
            unfold Live at *
            simp only [hnf]; exact hl
          · exact Or.inr h
        · -- it was waiting in the batcher: now in the new item, or already announced
          have hgb : g ∈ (a :: rest) := by rw [← hbat]; exact h.1
          by_cases hlive : s.fifo.nextFrom ≤ hiIdx (a :: rest)
          · right; left; left
            refine ⟨(hiIdx (a :: rest), a :: rest), by simp only [hitems]; simp, ?_, hgb⟩
            unfold Live
            simp only [hnf]
            have := hall g hgb
            have := h.2.2
            exact ⟨hlive, by omega⟩
          · left; right
            have := hb.bnd.2.1
            have := hall g hgb
            simp only
            omega

end RqModel.CdcPipe

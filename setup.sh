#!/bin/bash
# MANIFEST.setup_cmd: build the framework offline from files on disk only.
set -e
cd "$(dirname "$0")"
export GOFLAGS=-mod=mod GOPROXY=off GOSUMDB=off GOTOOLCHAIN=local
python3 tools/gen_main.py
mkdir -p harness/bin evidence replays .build
if [ -d harness/extract ]; then (cd harness/extract && go1.26 build -o ../bin/extract .); harness/bin/extract -repo /repo -out lean/RqModel/Gen; fi
(cd lean && lake build)
# warm the Go build cache (cgo SQLite) so the first check is not the slow one
[ -n "$VERIF_SETUP_LIGHT" ] || (cd /repo && go1.26 build -tags verif ./... && go1.26 test -tags verif -vet=off -count=1 -run '^$' ./... >/dev/null 2>&1 || true)
echo setup done

/-
C25  CDC delivers every committed change at least once with its log index.

Model: RqModel/Model/Cdc.lean (one node's pipeline: streamer → HWM filter → batcher →
FIFO → leader loop → endpoint; HWM broadcast/prune; snapshot sync; restart with raft
replay), tied to the real cdc.Service + db.CDCStreamer + Bolt FIFO + HTTP sink by the C25
correspondence run.
-/
import RqModel.Model.Cdc
namespace C25
open RqModel.Cdc RqModel.Fifo

/-- change `c` of entry `k` has reached the endpoint in a group labelled `k` -/
def deliveredB (s : St) (c : Change) : Bool :=
  s.delivered.any fun d => d.2.any fun g => g.idx == c.1 && g.chg.contains c

/-- all changes of the entries applied in a history -/
def changesOf (ops : List Op) : List Change :=
  ops.flatMap fun
    | .entry e => changesFrom e.idx 0 e.stmts
    | _ => []

/-- the healing suffix: the endpoint works, this node leads, the batcher's timer fires -/
def heal : List Op := [.endpoint true, .leader true, .timer]

/-- THE FULL STATEMENT (false of the faithful model, see the witnesses): after any history
followed by `heal`, every change of every applied entry has been delivered, labelled with
its entry's index. -/
def at_least_once_full : Prop :=
  ∀ (b : Nat) (ops : List Op), 0 < b →
    ∀ c ∈ changesOf ops, deliveredB (run { batchSz := b } (ops ++ heal)) c = true

/-- the streamer loses the index after the first commit inside one log entry -/
theorem streamer_index_witness :
    streamEntry ⟨77, false, [1, 1, 1]⟩ = [⟨77, [(77, 0)]⟩, ⟨0, [(77, 1)]⟩, ⟨0, [(77, 2)]⟩] := by decide

/-- batch size 3: statements 2 and 3 arrive labelled 0 -/
theorem at_least_once_witness_mislabelled :
    (run { batchSz := 3 } ([.leader true, .entry ⟨77, false, [1, 1, 1]⟩] ++ heal)).delivered =
      [(77, [⟨77, [(77, 0)]⟩, ⟨0, [(77, 1)]⟩, ⟨0, [(77, 2)]⟩])] := by decide

/-- batch size 1: statements 2 and 3 never arrive (enqueued at FIFO key 0, suppressed) -/
theorem at_least_once_witness :
    ¬ at_least_once_full := by
  intro h
  have := h 1 [.leader true, .entry ⟨77, false, [1, 1, 1]⟩] (by decide) (77, 1) (by decide)
  revert this
  decide

/-- keeping the index in the streamer is not enough: with batch size 1 the second batch has
the same highest index as the first and is suppressed by the FIFO -/
theorem keep_index_not_enough_witness :
    deliveredB (run { batchSz := 1, keepIdx := true } ([.leader true, .entry ⟨77, false, [1, 1, 1]⟩] ++ heal)) (77, 1) = false := by
  decide

end C25

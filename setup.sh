#!/bin/bash
# MANIFEST.setup_cmd: build the framework offline from files on disk only.
set -e
cd "$(dirname "$0")"
export GOFLAGS=-mod=mod GOPROXY=off GOSUMDB=off GOTOOLCHAIN=local
python3 tools/gen_main.py
mkdir -p harness/bin evidence replays .build
if [ -d harness/extract ]; then (cd harness/extract && go1.26 build -o ../bin/extract .); harness/bin/extract -repo /repo -out lean/RqModel/Gen; fi
# build the driver and every module a registered check needs (work-in-progress modules without a
# checks/<ID>.json entry are not allowed to break setup)
mods=$(python3 -c "
import glob,json
ms=set()
for p in glob.glob('checks/C*.json'):
    c=json.load(open(p)); ms.update(c.get('lean_modules',['RqModel.Props.'+c['id']]))
print(' '.join(sorted(ms)))")
(cd lean && lake build rqdrv $mods)
# warm the Go build cache (cgo SQLite) so the first check is not the slow one
[ -n "$VERIF_SETUP_LIGHT" ] || (cd /repo && go1.26 build -tags verif ./... && go1.26 test -tags verif -vet=off -count=1 -run '^$' ./... >/dev/null 2>&1 || true)
echo setup done

/-
C38  Linearizable reads complete on a healthy leader without further writes.

Model: RqModel/Model/LinRead.lean (typed raft log, commit index, FSM goroutine,
`fsmWaitIndex` scan, `waitForLinearizableRead`). Lemmas: RqModel/Lemmas/LinRead.lean.

The statement was FALSE of the unchanged tree (the wait target was the raw read
index = commit index, which the FSM index never reaches when the latest committed
entry is a configuration change or a barrier); `old_target_witness` and
`old_target_stuck` keep that visible. After the `fix:` commit the wait target is the
latest command entry at or below the read index and the full statement is proved
over all histories of the entry-type model.
-/
import RqModel.Lemmas.LinRead
import RqModel.Gen.ReadPath
import RqModel.Expect.ReadPath
namespace C38
open RqModel.LinRead
open RqModel

/-- **Main theorem.** Take ANY history `es` of one node's log/FSM events from the empty
node (appends of command / configuration / no-op / barrier entries, follower
truncations, commit advances, FSM steps, snapshot installs, log compactions, process
restarts, in any order and number, disabled events being skipped). A linearizable read
takes its read index there (`readIndex = n.commit`); after any further events `es1`
(VerifyLeader, the term re-check) `fsmWaitIndex` scans the log in state `n1` and the read
subscribes to `targetAt n1 readIndex`. After ANY continuation `es2` — in particular one
that appends nothing at all — as soon as the FSM goroutine has processed the entries that
were committed when the read started (`n.commit ≤ n2.handed`), the subscription has
fired. No further write is needed, whatever the type of the latest committed entries.
Hypotheses: the process is not restarted while the read is in flight, and the
ReadyTarget agrees with the FSM index at the scan (`Synced n1`, see `synced_by_strong_read`:
guaranteed by the strong-read guard of `waitForLinearizableRead`). This is the PARTIAL
statement of `C38_full` (below), restricted by exactly these two hypotheses. -/
theorem lin_read_completes_when_healthy (es es1 es2 : List Ev) :
    let n := run {} es
    let n1 := run n es1
    let n2 := run n1 es2
    NoReopen es1 → NoReopen es2 → Synced n1 →
    n.commit ≤ n2.handed → reached n2 (targetAt n1 n.commit) = true := by
  intro n n1 n2 hno1 hno2 hsync hh
  have hinv : Inv n := inv_run _ es inv_init
  have hinv1 : Inv n1 := inv_run _ es1 hinv
  have hm1 := mono_run n hinv es1 hno1
  have hri : n.commit ≤ n1.log.length := by
    have := hinv1.commit_le_len
    change n.handed ≤ n1.handed ∧ n.commit ≤ n1.commit ∧ _ at hm1
    omega
  have hA := scan_spec_A n1 n.commit hri
  have hp : Pending n1 (targetAt n1 n.commit) := by
    unfold targetAt
    rcases hA with h | ⟨h, hc⟩
    · left; unfold Synced at hsync; omega
    · by_cases hr : scan n1 n.commit ≤ n1.fsmIdx
      · left; unfold Synced at hsync; omega
      · right
        refine ⟨?_, ?_, hc⟩
        · apply Nat.lt_of_not_le
          intro hle
          exact hr (hinv1.cmd_reached _ hle hc)
        · change n.handed ≤ n1.handed ∧ n.commit ≤ n1.commit ∧ _ at hm1
          omega
  have hp2 : Pending n2 (targetAt n1 n.commit) := pending_run n1 es2 hinv1 hno2 _ hp
  rcases hp2 with h | ⟨ha, _, _⟩
  · simp [reached, h]
  · exfalso
    have hle : targetAt n1 n.commit ≤ n.commit ∨ targetAt n1 n.commit ≤ n1.fsmIdx := by
      unfold targetAt
      rcases hA with h | ⟨h, _⟩
      · exact Or.inr h
      · exact Or.inl h
    have hm2 := mono_run n1 hinv1 es2 hno2
    have := hinv1.fsm_le_handed
    change n1.handed ≤ n2.handed ∧ _ at hm2
    rcases hle with h | h <;> omega

/-- The strong-read guard is what makes `Synced` hold at the scan: once the FSM has applied a
command entry in this process (the strong read that `waitForLinearizableRead` insists on
before it does anything), the ReadyTarget and the FSM index agree, and stay so until the
process restarts. -/
theorem synced_by_strong_read (es0 es1 : List Ev) :
    let m := run {} es0
    Ev.fsm.enabled m = true → m.typeAt (m.handed + 1) = some (some .command) → NoReopen es1 →
    Synced (run (applyEv m .fsm) es1) := by
  intro m hen hc hno
  have hinv : Inv m := inv_run _ es0 inv_init
  exact synced_run _ (inv_step m .fsm hinv) es1 hno (synced_after_command m hinv hen hc)

/-- The statement WITHOUT the two hypotheses (kept visible): false, because after a fast
restart `Open` sets the FSM index to the snapshot index without signalling the
ReadyTarget. The real code never gets there: `strongReadTerm` is reset by `Open`, so a
strong read (an `fsmApply`, which signals) always precedes the wait. -/
def C38_full : Prop :=
  ∀ es es1 es2 : List Ev,
    let n := run {} es
    let n1 := run n es1
    let n2 := run n1 es2
    n.commit ≤ n2.handed → reached n2 (targetAt n1 n.commit) = true

theorem C38_full_witness : ¬ C38_full := by
  intro h
  have := h [.append .command, .commit 1, .fsm, .reopen 1, .append .config, .commit 2, .fsm] [] []
  revert this
  decide

/-- Draining is exactly `commit - handed` FSM steps, each of them enabled, and it is all
that a healthy leader needs: the read completes with no event other than the FSM
goroutine catching up. -/
theorem lin_read_completes_after_drain (es : List Ev) :
    let n := run {} es
    Synced n → (drain n).handed = n.commit ∧ reached (drain n) (target n) = true := by
  intro n hs
  have hinv : Inv n := inv_run _ es inv_init
  have hd := drain_handed n hinv.handed_le_commit
  refine ⟨hd, ?_⟩
  have := lin_read_completes_when_healthy es [] (List.replicate (n.commit - n.handed) Ev.fsm)
  simp only at this
  apply this (fun _ h => by simp at h) (noReopen_replicate_fsm _) hs
  change n.commit ≤ (drain n).handed
  omega

/-- `waitForLinearizableRead` as a whole: on a leader that has done a strong read in
the current term, is ready, confirms leadership with a quorum and whose term did not
change, the call returns `ok` (never `timeout`) once the FSM goroutine has caught up
with the commit index taken at the start, for every reachable log. -/
theorem wait_returns_ok_when_healthy (es es1 es2 : List Ev) (term : Nat) :
    let n := run {} es
    let n1 := run n es1
    let n2 := run n1 es2
    NoReopen es1 → NoReopen es2 → Synced n1 → n.commit ≤ n2.handed →
    waitLin ⟨term, term, true, true, n, true, term, n1, n2⟩ = .ok := by
  intro n n1 n2 h1 h2 hs hh
  have := lin_read_completes_when_healthy es es1 es2 h1 h2 hs hh
  simp only [waitLin, ne_eq, not_true_eq_false, if_false, Bool.not_true, Bool.false_eq_true]
  change reached n2 (targetAt n1 n.commit) = true at this
  rw [this]; rfl

theorem run_append (n : Node) (a b : List Ev) : run n (a ++ b) = run (run n a) b := by
  simp [run, List.foldl_append]

theorem noReopen_append {a b : List Ev} (ha : NoReopen a) (hb : NoReopen b) : NoReopen (a ++ b) := by
  intro e he li
  rcases List.mem_append.1 he with h | h
  · exact ha e h li
  · exact hb e h li

/-- **The whole function, with `Synced` DERIVED from the guard.** `waitForLinearizableRead` gets
past its first guard only if `strongReadTerm` equals the current term; `strongReadTerm` is 0
after `Open` and is otherwise written only after a strong read went through the log
(`strongReadTerm_writers`), i.e. after the FSM of THIS process applied a command entry. So
the history up to the commit-index read has the shape: anything (`es0`), then an FSM step
that applies a command entry (the strong read), then anything without a restart (`esA`).
From there on — scan after `esB`, decision after `es2`, no restart in flight — the call
returns `ok` once the FSM has caught up with the commit index taken at the start. -/
theorem wait_returns_ok_after_strong_read (es0 esA esB es2 : List Ev) (term : Nat) :
    let m := run {} es0
    let n := run (applyEv m .fsm) esA
    let n1 := run n esB
    let n2 := run n1 es2
    Ev.fsm.enabled m = true → m.typeAt (m.handed + 1) = some (some .command) →
    NoReopen esA → NoReopen esB → NoReopen es2 → n.commit ≤ n2.handed →
    waitLin ⟨term, term, true, true, n, true, term, n1, n2⟩ = .ok := by
  intro m n n1 n2 hen hc hA hB h2 hh
  have hs : Synced n1 := by
    have := synced_by_strong_read es0 (esA ++ esB) hen hc (noReopen_append hA hB)
    rw [run_append] at this
    exact this
  -- `n` is a reachable state: the run of `es0 ++ [fsm] ++ esA`
  have hn : n = run {} (es0 ++ [Ev.fsm] ++ esA) := by
    simp only [n, m, run_append]; rfl
  have := wait_returns_ok_when_healthy (es0 ++ [Ev.fsm] ++ esA) esB es2 term
  simp only at this
  rw [← hn] at this
  exact this hB h2 hs hh

/-- every writer of `strongReadTerm`: `Open` resets it, `Query` and `Request` store the term
after a strong read went through `raft.Apply` — the premise of the derivation above -/
theorem strongReadTerm_writers :
    Gen.ReadPath.strongReadTermStores =
      ["Open: s.strongReadTerm.Store(0)", "Query: s.strongReadTerm.Store(readTerm)",
       "Request: s.strongReadTerm.Store(readTerm)"] := by decide

/-- in the state of `C38_full_witness` (right after a restart) the real function does not wait at
all: `strongReadTerm` is 0 and the term of a leader is not, so the read is upgraded -/
theorem after_reopen_read_is_upgraded (le : LinEnv) (h0 : le.strongReadTerm = 0) (ht : le.readTerm ≠ 0) :
    waitLin le = .strongNeeded := by
  unfold waitLin
  rw [if_pos (by rw [h0]; exact ht)]

/-- The read never waits for more than the commit index it took, and never for an entry
that is not a command: the target is a command entry at or below the read index, or
is already at or below the FSM index. -/
theorem target_is_command_or_reached (es es1 : List Ev) (hno : NoReopen es1) :
    let n := run {} es
    let n1 := run n es1
    targetAt n1 n.commit ≤ n1.fsmIdx ∨
      (targetAt n1 n.commit ≤ n.commit ∧ n1.typeAt (targetAt n1 n.commit) = some (some .command)) := by
  intro n n1
  have hinv : Inv n := inv_run _ es inv_init
  have hinv1 : Inv n1 := inv_run _ es1 hinv
  have hm1 := mono_run n hinv es1 hno
  have := hinv1.commit_le_len
  change n.handed ≤ n1.handed ∧ n.commit ≤ n1.commit ∧ _ at hm1
  exact scan_spec_A n1 n.commit (by omega)

/-! ### tie to the source: regenerated facts (harness/extract/facts_readpath.go) -/

/-- `waitForLinearizableRead` in the current source has exactly the guard/step structure
the model transcribes -/
theorem waitLin_source_shape : Gen.ReadPath.waitLin = Expect.ReadPath.waitLin := by decide

/-- its calls, in evaluation order, are the model's step list (commit index is read,
then the wait index is computed by `fsmWaitIndex`, and THAT is what is subscribed to) -/
theorem waitLin_step_order : Expect.ReadPath.callsOf Gen.ReadPath.waitLin = stepNames := by decide

theorem waitLin_exit_order : Expect.ReadPath.retsOf Gen.ReadPath.waitLin = retNames := by decide

/-- `fsmWaitIndex` in the current source is the loop that `scan` transcribes -/
theorem fsmWaitIndex_source_shape : Gen.ReadPath.fsmWaitIndex = Expect.ReadPath.fsmWaitIndex := by decide

/-- `fsmApply` stores the FSM index and signals the target in its deferred block, i.e.
for every entry handed to `FSM.Apply` (command entries) and for nothing else -/
theorem fsmApply_signals :
    (Gen.ReadPath.fsmApply.take 3) = [("defer", ""), ("call", "s.fsmIdx.Store"), ("call", "s.fsmTarget.Signal")] := by
  decide

/-- `fsmRestore` stores the snapshot index and signals the target, in that order (the model's
`restore` event) -/
theorem fsmRestore_signals :
    (Expect.ReadPath.callsOf Gen.ReadPath.fsmRestore).filter (fun c => c = "s.fsmIdx.Store" ∨ c = "s.fsmTarget.Signal") =
      ["s.fsmIdx.Store", "s.fsmTarget.Signal"] := by decide

/-! ### the behaviour before the fix (kept visible) -/

/-- the history of the confirmed defect: a command, then a configuration change
(`Join`), everything committed and processed by the FSM goroutine -/
def witnessHistory : List Ev :=
  [.append .command, .commit 1, .fsm, .append .config, .commit 2, .fsm]

/-- With the old wait target (the read index itself) the read of `witnessHistory` is not
satisfied although the node is completely caught up; with the new target it is. -/
theorem old_target_witness :
    let n := run {} witnessHistory
    drain n = n ∧ n.handed = n.commit ∧
    reached n (targetOld n) = false ∧ reached n (target n) = true := by decide

/-- ... and it stays unsatisfied under every continuation that appends no command entry
and installs no snapshot: the old code needed a further write. -/
theorem old_target_stuck (es' : List Ev)
    (h : ∀ e ∈ es', e ≠ .append .command ∧ (∀ i, e ≠ .restore i) ∧ ∀ i, e ≠ .reopen i) :
    let n := run {} witnessHistory
    reached (run n es') (targetOld n) = false := by
  intro n
  -- invariant: fsmIdx = 1, handed ≥ 2, commit ≥ 2, no command entry at an index ≥ 2
  have key : ∀ (es' : List Ev) (m : Node),
      (∀ e ∈ es', e ≠ .append .command ∧ (∀ i, e ≠ .restore i) ∧ ∀ i, e ≠ .reopen i) →
      m.tgt = 1 → 2 ≤ m.handed → m.handed ≤ m.commit →
      (∀ j, 2 ≤ j → typeAtL m.log j ≠ some (some .command)) →
      (run m es').tgt = 1 := by
    intro es'
    induction es' with
    | nil => intro m _ h1 _ _ _; exact h1
    | cons e es' ih =>
      intro m hall h1 h2 h3 h4
      have he := hall e (by simp)
      have hrest : ∀ e ∈ es', e ≠ .append .command ∧ (∀ i, e ≠ .restore i) ∧ ∀ i, e ≠ .reopen i :=
        fun e' he' => hall e' (by simp [he'])
      simp only [run, List.foldl_cons]
      unfold applyEv
      by_cases hen : e.enabled m = true
      · rw [if_pos hen]
        cases e with
        | append t =>
          apply ih _ hrest <;> simp only [applyRaw]
          · exact h1
          · exact h2
          · exact h3
          · intro j hj hc
            by_cases hle : j ≤ m.log.length
            · rw [typeAtL_append_le _ _ _ hle] at hc; exact h4 j hj hc
            · have hb := typeAtL_some_pos _ _ _ hc
              simp only [List.length_append, List.length_singleton] at hb
              have : j = m.log.length + 1 := by omega
              subst this
              rw [typeAtL_append_new] at hc
              cases t <;> simp_all
        | trunc k =>
          simp only [Ev.enabled, decide_eq_true_eq] at hen
          apply ih _ hrest <;> simp only [applyRaw]
          · exact h1
          · exact h2
          · exact h3
          · intro j hj hc
            by_cases hle : j ≤ k
            · rw [typeAtL_take_le _ _ _ hle] at hc; exact h4 j hj hc
            · rw [typeAtL_take_gt _ _ _ (by omega)] at hc; cases hc
        | commit c =>
          simp only [Ev.enabled, decide_eq_true_eq] at hen
          apply ih _ hrest <;> simp only [applyRaw]
          · exact h1
          · exact h2
          · omega
          · exact h4
        | fsm =>
          simp only [Ev.enabled, decide_eq_true_eq] at hen
          simp only [applyRaw]
          rcases applyFsm_cases m with ⟨hty, _⟩ | ⟨_, heq⟩
          · exact absurd hty (h4 _ (by omega))
          · rw [heq]
            apply ih _ hrest <;> simp only
            · exact h1
            · omega
            · omega
            · exact h4
        | restore i => exact absurd rfl (he.2.1 i)
        | reopen i => exact absurd rfl (he.2.2 i)
        | compact k =>
          simp only [Ev.enabled, decide_eq_true_eq] at hen
          apply ih _ hrest <;> simp only [applyRaw]
          · exact h1
          · exact h2
          · exact h3
          · intro j hj hc
            by_cases hjk : j ≤ k
            · have hb := typeAtL_some_pos _ _ _ hc
              rw [compactLog_length] at hb
              rw [typeAtL_compact_le _ _ _ hb.1 hjk hb.2] at hc
              cases hc
            · rw [typeAtL_compact_gt _ _ _ (by omega)] at hc
              exact h4 j hj hc
      · rw [if_neg hen]; exact ih m hrest h1 h2 h3 h4
  have hn : n = ⟨[some .command, some .config], 2, 2, 1, 1⟩ := by decide
  have hf := key es' n h (by rw [hn]) (by rw [hn]; decide) (by rw [hn]; decide) (by
    intro j hj
    rw [hn]
    simp only [typeAtL]
    rw [if_neg (by omega)]
    match j, hj with
    | 2, _ => decide
    | j + 3, _ => simp)
  simp only [reached, targetOld]
  rw [hf, hn]; decide

/-! ### non-vacuity: concrete histories with non-command tails -/

-- join → barrier → join (three non-command entries after the last command), read completes
example :
    let n := run {} [.append .noop, .append .command, .commit 2, .fsm, .fsm,
                     .append .config, .append .barrier, .append .config, .commit 5]
    n.handed = 2 ∧ n.commit = 5 ∧ target n = 2 ∧ reached n (target n) = true := by decide

-- a command that is committed but not yet applied is still waited for
example :
    let n := run {} [.append .command, .commit 1, .fsm, .append .command, .append .config, .commit 3]
    target n = 2 ∧ reached n (target n) = false ∧ reached (drain n) (target n) = true := by decide

-- compacted tail after a snapshot: nothing to wait for
example :
    let n := run {} [.append .command, .append .config, .append .config, .commit 3, .fsm, .fsm, .fsm, .compact 2]
    n.fsmIdx = 1 ∧ Synced n ∧ target n = 1 ∧ reached n (target n) = true := by decide

-- a snapshot install followed by a configuration entry
example :
    let n := run {} [.restore 7, .append .config, .commit 8, .fsm]
    n.fsmIdx = 7 ∧ Synced n ∧ target n = 7 ∧ waitLin ⟨3, 3, true, true, n, true, 3, n, n⟩ = .ok := by decide

-- the scan runs later than the commit-index read: a command applied in between is seen
example :
    let n := run {} [.append .command, .commit 1, .fsm, .append .command, .append .config, .commit 3]
    let n1 := run n [.fsm]
    targetAt n 3 = 2 ∧ targetAt n1 n.commit = 2 ∧ reached n1 (targetAt n1 n.commit) = true := by decide

-- after a fast restart the two indexes differ until a command is applied
example :
    let n := run {} [.append .command, .commit 1, .fsm, .reopen 1]
    n.fsmIdx = 1 ∧ n.tgt = 0 ∧ ¬ Synced n ∧
    Synced (run n [.append .command, .commit 2, .fsm]) := by decide

end C38

/-
C20  Forwarding to the leader is transparent and never local.

Property theorems only. Model: RqModel/Model/Proxy.lean (proxy/proxy.go) plus the
regenerated guard order of store.Store.Execute/Query/Request
(RqModel/Gen/StoreGuards.lean): on a node that is not the leader the store returns
ErrNotLeader before any call that touches the local database or the Raft log.
-/
import RqModel.Model.Proxy
import RqModel.Model.ClientPool
import RqModel.Gen.ClientConns
import RqModel.Gen.ProxyFacts
import RqModel.Gen.StoreGuards
namespace C20
open RqModel RqModel.Proxy

/-! ### the store refuses before touching anything (regenerated facts) -/

def hasGuard (g : String) (s : String × String × List String) : Bool := s.2.2.contains g

def sinkOf (fn callee : String) : Option (String × String × List String) :=
  Gen.StoreGuards.sinks.find? (fun s => s.1 == fn && s.2.1 == callee)

/-- fact obligation (leader check precedes any database access / raft.Apply):
* Execute: its only sink, the apply helper, is dominated by the leader check;
* Query: the Raft append of a STRONG read is dominated by the leader check, and the
  local read is dominated by the leader check for level WEAK (level NONE reads are
  local by design; LINEARIZABLE either upgrades to STRONG or verifies leadership in
  waitForLinearizableRead);
* Request: the Raft append (any write, or level STRONG) is dominated by the leader
  check; the local read happens only inside `nRW == 0 && Level != STRONG`;
* these are all the sinks there are, and the apply helper only appends to the log. -/
theorem store_leader_guards :
    Gen.StoreGuards.sinks.map (fun s => (s.1, s.2.1)) =
      [("Execute", "s.execute"), ("Query", "s.raft.Apply"), ("Query", "s.db.QueryWithContext"),
       ("Request", "s.db.QueryWithContext"), ("Request", "s.raft.Apply")] ∧
    (sinkOf "Execute" "s.execute").any (hasGuard "guard:s.raft.State() != raft.Leader => ErrNotLeader") = true ∧
    (sinkOf "Query" "s.raft.Apply").any (fun s =>
      hasGuard "in:level == proto.ConsistencyLevel_STRONG" s &&
      hasGuard "guard:s.raft.State() != raft.Leader => ErrNotLeader" s) = true ∧
    (sinkOf "Query" "s.db.QueryWithContext").any (fun s =>
      hasGuard "guard:level == proto.ConsistencyLevel_WEAK && s.raft.State() != raft.Leader => ErrNotLeader" s &&
      hasGuard "guard:level == proto.ConsistencyLevel_STRONG => r.error" s) = true ∧
    (sinkOf "Request" "s.raft.Apply").any (hasGuard "guard:!isLeader => ErrNotLeader") = true ∧
    (sinkOf "Request" "s.db.QueryWithContext").any
      (hasGuard "in:nRW == 0 && eqr.Level != proto.ConsistencyLevel_STRONG") = true ∧
    Gen.StoreGuards.executeHelperSinks = ["s.raft.Apply"] := by decide

/-! ### the proxy -/

/-- the local store is always asked first, exactly once, with the caller's request -/
theorem local_called_once_first (i : Input) :
    (run i).1.head? = some (.localStore i.kind i.req) ∧
    ((run i).1.filter (fun c => match c with | .localStore _ _ => true | _ => false)).length = 1 := by
  unfold run
  cases i.localOut <;> simp
  split
  · simp
  · cases i.addrOut <;> simp
    cases i.remoteOut <;> simp

/-- ∀ request kind and inputs: when the local store says "not leader" (which, by
`store_leader_guards`, it says before touching its database), the proxy never
returns a local result: the outcome is the leader's answer or an error. -/
theorem never_local_on_follower (i : Input) (h : i.localOut = .notLeader) :
    (∀ r x s, (run i).2 ≠ .localOK r x s) ∧ (∀ e s, (run i).2 ≠ .localErr e s) := by
  unfold run
  rw [h]
  constructor
  · intro r x s
    simp only
    split
    · simp
    · cases i.addrOut <;> simp
      cases i.remoteOut <;> simp
  · intro e s
    simp only
    split
    · simp
    · cases i.addrOut <;> simp
      cases i.remoteOut <;> simp

/-- ∀ request kind and inputs: on "not leader", without `noForward`, with a known
leader address, the PROXY makes exactly one call to the cluster client (how often the
client then sends it is `executed_once_partial` below): to that address, with the
same request, the caller's own credentials and timeout (and retries where the
cluster call has them) — after the local attempt and the address lookup. -/
theorem proxy_forwards_once_with_callers_creds (i : Input) (a : String)
    (h : i.localOut = .notLeader) (hf : i.noForward = false) (ha : i.addrOut = .addr a) :
    (run i).1 = [.localStore i.kind i.req, .leaderAddr,
      .remote i.kind i.req a i.creds i.timeout (if passesRetries i.kind then i.retries else 0)] := by
  unfold run
  rw [h]
  simp only [hf, Bool.false_eq_true, if_false, ha]
  cases i.remoteOut <;> simp

/-- ∀ inputs: whatever the leader answered is returned unchanged — results, raft
index, and the leader's address as the serving node. -/
theorem results_and_index_unchanged (i : Input) (a : String) (res idx : Nat)
    (h : i.localOut = .notLeader) (hf : i.noForward = false) (ha : i.addrOut = .addr a)
    (hr : i.remoteOut = .ok res idx) :
    (run i).2 = .forwarded res idx a := by
  unfold run
  rw [h]
  simp [hf, ha, hr]

/-- ∀ inputs: the proxy answers ErrNotLeader (which the HTTP layer turns into a
redirect to the leader) exactly when the client asked for redirects and the node is
not the leader; in that case nothing is forwarded. -/
theorem redirect_iff_requested (i : Input) :
    ((run i).2 = .errNotLeader ↔ (i.localOut = .notLeader ∧ i.noForward = true)) ∧
    (i.noForward = true → ∀ k r a c t n, Call.remote k r a c t n ∉ (run i).1) := by
  unfold run
  constructor
  · cases hl : i.localOut <;> simp
    cases hn : i.noForward <;> simp
    cases i.addrOut <;> simp
    cases i.remoteOut <;> simp
  · intro hn k r a c t n
    cases hl : i.localOut <;> simp [hn]

/-- ∀ inputs: the HTTP answer is a redirect only for ErrNotLeader with a known
leader API address, when redirects were requested -/
theorem http_redirect_only_when_requested (i : Input) (known : Bool) :
    httpOut (run i).2 i.noForward known = .redirect301 ↔
      (i.localOut = .notLeader ∧ i.noForward = true ∧ known = true) := by
  have h := (redirect_iff_requested i).1
  constructor
  · intro hh
    unfold httpOut at hh
    split at hh
    · rename_i he
      have hne := h.1 he
      rw [hne.2] at hh
      cases known <;> simp at hh
      exact ⟨hne.1, hne.2, rfl⟩
    all_goals simp at hh
  · rintro ⟨h1, h2, rfl⟩
    rw [h.2 ⟨h1, h2⟩, h2]
    simp [httpOut]

/-- ∀ request kind and inputs (in particular: the node forwarded to answers "not
leader" because leadership moved while the request was in flight): the handler never
returns without writing a response — every request is answered with a redirect, an
error status, or a body carrying results or an error. The handlers call
`DoRedirect` and ignore its result, so this rests on the proxy producing ErrNotLeader
only when redirects were requested. -/
theorem http_always_answers (i : Input) (known : Bool) :
    httpOut (run i).2 i.noForward known ≠ .nothing := by
  intro hh
  unfold httpOut at hh
  split at hh
  · rename_i he
    have hne := ((redirect_iff_requested i).1).1 he
    rw [hne.2] at hh
    cases known <;> simp at hh
  all_goals simp at hh

/-- the remote node's "not leader" reaches the caller as an error, not as the sentinel -/
theorem remote_not_leader_is_reported (i : Input) (a : String)
    (h : i.localOut = .notLeader) (hf : i.noForward = false) (ha : i.addrOut = .addr a)
    (hr : i.remoteOut = .notLeader) :
    (run i).2 = .errRemoteNotLeader ∧ httpOut (run i).2 i.noForward true = .body := by
  have : (run i).2 = .errRemoteNotLeader := by
    unfold run
    rw [h]
    simp [hf, ha, hr]
  exact ⟨this, by rw [this]; simp [httpOut]⟩

/-- fact obligation: in proxy/proxy.go every statement that produces ErrNotLeader sits
under `if noForward`, the only function applied to a forwarding error is
wrapIfUnauthorized and it maps nothing but "unauthorized"; in http/*.go every
ErrNotLeader branch is `s.DoRedirect(w, r, qp); return`. -/
theorem not_leader_only_under_redirect_flag :
    Gen.ProxyFacts.notLeaderSources.map (·.1) =
      ["Execute", "Query", "Request", "Backup", "Load", "Remove", "Stepdown"] ∧
    Gen.ProxyFacts.notLeaderSources.all (fun s =>
      s.2.2 == ["errors.Is(err, store.ErrNotLeader)", "noForward"]) = true ∧
    Gen.ProxyFacts.remoteErrorWrappers = ["wrapIfUnauthorized"] ∧
    Gen.ProxyFacts.wrapIfUnauthorizedBody =
      ["if err == nil { return nil }", "if err.Error() == \"unauthorized\" { return ErrUnauthorized }", "return err"] ∧
    Gen.ProxyFacts.httpNotLeaderBranches.all (fun b =>
      b.2 == ["s.DoRedirect(w, r, qp)", "return"] || b.2 == ["s.DoRedirect(w, r, qp)", "return true"]) = true ∧
    Gen.ProxyFacts.httpNotLeaderBranches.length = 7 := by decide

/-- ∀ inputs: on the leader (or on any local error other than "not leader") nothing
is forwarded and the local answer is passed through -/
theorem leader_serves_locally (i : Input) (h : i.localOut ≠ .notLeader) :
    (run i).1 = [.localStore i.kind i.req] ∧
    (match i.localOut with
     | .ok r x => (run i).2 = .localOK r x i.apiAddr
     | .err e => (run i).2 = .localErr e i.apiAddr
     | .notLeader => False) := by
  unfold run
  cases hl : i.localOut <;> simp_all

/-- errors of the forwarding path: unknown leader and refused credentials are
reported as such, never masked as success -/
theorem forward_errors_reported (i : Input) (h : i.localOut = .notLeader) (hf : i.noForward = false) :
    (i.addrOut = .empty → (run i).2 = .errLeaderNotFound) ∧
    (∀ a, i.addrOut = .addr a → i.remoteOut = .unauthorized → (run i).2 = .errUnauthorized) := by
  unfold run
  rw [h]
  constructor
  · intro ha; simp [hf, ha]
  · intro a ha hr; simp [hf, ha, hr]

/-! ### pooled inter-node connections: the answer belongs to the request, and the leader
executes a request once -/

section Pool
open RqModel.ClientPool

/-- every pooled connection has nothing outstanding on it -/
def Clean (st : PState) : Prop := ∀ c ∈ st.pool, c = []

def answersOwn : List Op → List Res → Bool
  | [], [] => true
  | op :: ops, r :: rs => (r == .timeout || r == .ok op.tag) && answersOwn ops rs
  | _, _ => false

/-- number of times the command is written (= executed by the leader) for a plan -/
def sends (op : Op) (pl : List Bool) : Nat := if fails op then pl.length else min 1 pl.length

theorem clean_putBack_nil (rest : List (List Nat)) (h : ∀ x ∈ rest, x = []) :
    ∀ x ∈ rest ++ [[]], x = [] := by
  intro x hx
  simp only [List.mem_append, List.mem_singleton] at hx
  rcases hx with hx | hx
  · exact h x hx
  · exact hx

theorem takeConn_clean (fresh : Bool) (pool : List (List Nat)) (h : ∀ c ∈ pool, c = []) :
    (takeConn fresh pool).1 = [] ∧ ∀ x ∈ (takeConn fresh pool).2, x = [] := by
  unfold takeConn
  cases fresh
  · cases pool with
    | nil => simp
    | cons c r => exact ⟨h c (by simp), fun x hx => h x (by simp at hx; simp [hx])⟩
  · exact ⟨rfl, h⟩

theorem runAttempts_clean (op : Op) (pl : List Bool) : ∀ st : PState, Clean st →
    ((runAttempts false op pl st).1 = .timeout ∨ (runAttempts false op pl st).1 = .ok op.tag) ∧
    Clean (runAttempts false op pl st).2 ∧
    (runAttempts false op pl st).2.executed = st.executed ++ List.replicate (sends op pl) op.tag := by
  induction pl with
  | nil => intro st h; simp [runAttempts, sends, h]
  | cons fresh more ih =>
    intro st h
    obtain ⟨hc1, hc2⟩ := takeConn_clean fresh st.pool h
    unfold runAttempts
    generalize takeConn fresh st.pool = cr at hc1 hc2
    obtain ⟨c, rest⟩ := cr
    simp only at hc1 hc2
    subst hc1
    simp only [attempt]
    cases hs : fails op
    · -- answered in time
      simp only [Bool.false_eq_true, if_false, putBack, sends, hs, List.length_cons]
      refine ⟨by simp, clean_putBack_nil _ hc2, ?_⟩
      have : min 1 (more.length + 1) = 1 := by omega
      simp [this]
    · simp only [if_true, Bool.false_and, Bool.false_eq_true, if_false, putBack]
      cases hm : more with
      | nil =>
        simp only [List.isEmpty_nil, if_true, sends, hs, List.length_cons, List.length_nil]
        exact ⟨by simp, hc2, by simp⟩
      | cons f2 m2 =>
        simp only [List.isEmpty_cons, Bool.false_eq_true, if_false]
        have hst' : Clean { pool := rest, executed := st.executed ++ [op.tag] } := hc2
        obtain ⟨h1, h2, h3⟩ := ih _ hst'
        rw [hm] at h1 h2 h3
        refine ⟨h1, h2, ?_⟩
        rw [h3]
        simp only [sends, hs, if_true, List.length_cons, List.append_assoc]
        simp [List.replicate_succ]

/-- ∀ sequences of forwarded requests and broadcasts (any mix of requests the leader
answers in time and requests that time out, any `retries`), starting from a pool with
nothing outstanding: every answer the client returns is the answer to the request it
was returned for, or a timeout error — never the answer to another request. -/
theorem responses_belong_to_requests (resend : Bool) (ops : List Op) :
    ∀ st : PState, Clean st → answersOwn ops (runOps false resend st ops).1 = true := by
  induction ops with
  | nil => intro st _; rfl
  | cons op ops ih =>
    intro st h
    obtain ⟨h1, h2, _⟩ := runAttempts_clean op (plan resend op) st h
    simp only [runOps, doOp, answersOwn, Bool.and_eq_true, Bool.or_eq_true, beq_iff_eq]
    exact ⟨by rcases h1 with h1 | h1 <;> simp [h1], ih _ h2⟩

/-- why discarding matters: if a timed-out connection went back to the pool, the next
request would be handed the previous request's answer -/
theorem keep_on_timeout_witness :
    (runOps true false {} [⟨1, true, false, 0, false⟩, ⟨2, false, false, 0, false⟩, ⟨3, false, false, 0, false⟩]).1 = [.timeout, .ok 1, .ok 2] ∧
    (runOps true false {} [⟨1, true, true, 0, false⟩, ⟨2, false, false, 0, false⟩]).1 = [.timeout, .ok 1] := by decide

/-- The resend policy of the code, read off the regenerated retry loop: a failed
attempt with `retries <= 0` is followed by another one UNLESS the loop returns first
on a deadline error. This is the model's `resendAfterTimeout` parameter. -/
def codeResendAfterTimeout : Bool :=
  !(Gen.ClientConns.retryLoopFound &&
    Gen.ClientConns.retryGuardsBeforeResend.contains
      "if maxRetries <= 0 && errors.Is(errOuter, os.ErrDeadlineExceeded) { return nil, nRetries, errOuter }" &&
    Gen.ClientConns.effectiveRetriesDef == "effectiveRetries := max(1, maxRetries)")

/-- fact obligation: the code does not re-send after a timeout when no retries were
requested (fix 6ed9058); removing that early return makes this, and with it
`executed_once_by_the_code`, fail. -/
theorem code_does_not_resend_after_timeout : codeResendAfterTimeout = false := by decide

/-- full statement of "executed once on the leader" for the inter-node client: whatever
the requests, the leader executes exactly the requests forwarded, each once, in order.
FALSE of the code: a caller that asks for retries gets the request re-sent after a
timeout, and the leader executes it again. -/
def executed_once_full : Prop :=
  ∀ (ops : List Op) (st : PState), Clean st →
    (runOps false false st ops).2.executed = st.executed ++ ops.map (·.tag)

/-- ∀ sequences of forwarded requests in which no caller asked for retries (the HTTP
API's default) and no connection breaks between the leader receiving a command and
answering it, answered in time or not: the leader executes each request exactly
once, in the order forwarded. -/
theorem executed_once_partial (ops : List Op) (hr : ∀ op ∈ ops, op.retries = 0 ∧ op.reset = false) :
    ∀ st : PState, Clean st →
      (runOps false false st ops).2.executed = st.executed ++ ops.map (·.tag) := by
  induction ops with
  | nil => intro st _; simp [runOps]
  | cons op ops ih =>
    intro st h
    obtain ⟨_, h2, h3⟩ := runAttempts_clean op (plan false op) st h
    simp only [runOps, doOp]
    rw [ih (fun o ho => hr o (by simp [ho])) _ h2, h3]
    have hone : sends op (plan false op) = 1 := by
      have := hr op (by simp)
      unfold sends plan
      cases op.broadcast <;> cases fails op <;> simp [this.1, this.2]
    simp [hone]

/-- the same, for the policy the regenerated source actually has -/
theorem executed_once_by_the_code (ops : List Op) (hr : ∀ op ∈ ops, op.retries = 0 ∧ op.reset = false) (st : PState)
    (h : Clean st) :
    (runOps false codeResendAfterTimeout st ops).2.executed = st.executed ++ ops.map (·.tag) ∧
    answersOwn ops (runOps false codeResendAfterTimeout st ops).1 = true := by
  rw [code_does_not_resend_after_timeout]
  exact ⟨executed_once_partial ops hr st h, responses_belong_to_requests false ops st h⟩

/-- witness: one request with `retries = 1` whose answer is late is executed twice -/
theorem executed_once_witness : ¬ executed_once_full := by
  intro h
  have := h [⟨1, true, false, 1, false⟩] {} (by intro c hc; simp at hc)
  revert this
  decide

/-- witness (not repaired, recorded as known): with `retries = 0`, a connection that
breaks after the leader received the command and before its answer is not a deadline
error, so the forced-new attempt re-sends the command and the leader executes it twice -/
theorem executed_once_reset_witness :
    (runOps false false {} [⟨1, false, false, 0, true⟩]).2.executed = [1, 1] ∧ ¬ executed_once_full := by
  refine ⟨by decide, ?_⟩
  intro h
  have := h [⟨1, false, false, 0, true⟩] {} (by intro c hc; simp at hc)
  revert this
  decide

/-- the behaviour before the `fix:` commit: even with `retries = 0` a request whose
answer was late was sent again on a new connection and executed twice -/
theorem resend_after_timeout_witness :
    (runOps false true {} [⟨1, true, false, 0, false⟩]).2.executed = [1, 1] := by decide

/-! ### concurrent requests through one client -/

def CInv (st : CState) : Prop :=
  (∀ c ∈ st.pool, c = []) ∧ (∀ x ∈ st.inflight, x.2 = []) ∧
  (∀ r ∈ st.results, r.2 = .timeout ∨ r.2 = .ok r.1)

theorem cstep_inv (st : CState) (h : CInv st) (ev : CEv) : CInv (cstep false st ev) := by
  obtain ⟨hp, hi, hr⟩ := h
  cases ev with
  | «begin» op =>
    obtain ⟨hc1, hc2⟩ := takeConn_clean false st.pool hp
    simp only [cstep]
    refine ⟨hc2, ?_, hr⟩
    intro x hx
    simp only [List.mem_append, List.mem_singleton] at hx
    rcases hx with hx | hx
    · exact hi x hx
    · rw [hx]; exact hc1
  | finish tag =>
    simp only [cstep]
    cases hf : st.inflight.find? (fun x => x.1.tag == tag) with
    | none => exact ⟨hp, hi, hr⟩
    | some oc =>
      obtain ⟨op, c⟩ := oc
      have hmem : (op, c) ∈ st.inflight := List.mem_of_find?_eq_some hf
      have hc : c = [] := hi _ hmem
      have htag : op.tag = tag := by
        have := List.find?_some hf
        simpa using this
      subst hc
      simp only [attempt]
      refine ⟨?_, ?_, ?_⟩
      · cases hs : fails op
        · simp only [hs, Bool.false_eq_true, if_false, putBack]
          exact clean_putBack_nil _ hp
        · simp only [hs, if_true, Bool.false_and, Bool.false_eq_true, if_false, putBack]
          exact hp
      · intro x hx
        exact hi x (List.mem_filter.1 hx).1
      · intro r hr'
        simp only [List.mem_append, List.mem_singleton] at hr'
        rcases hr' with hr' | hr'
        · exact hr r hr'
        · rw [hr']
          cases hs : fails op <;> simp [htag]

/-- ∀ interleavings of `begin` and `finish` events of any number of concurrent
requests (any of which may time out) through one client, starting with nothing
outstanding: every caller gets its own request's answer or a timeout, and the leader
executes exactly the requests begun, each once, in the order they were sent. -/
theorem concurrent_answers_belong_and_execute_once (evs : List CEv) :
    ∀ st : CState, CInv st →
      CInv (crun false st evs) ∧
      (crun false st evs).executed =
        st.executed ++ evs.filterMap (fun e => match e with | .begin op => some op.tag | .finish _ => none) := by
  induction evs with
  | nil => intro st h; exact ⟨h, by simp [crun]⟩
  | cons ev evs ih =>
    intro st h
    have h1 := cstep_inv st h ev
    obtain ⟨h2, h3⟩ := ih _ h1
    have hrun : crun false st (ev :: evs) = crun false (cstep false st ev) evs := by simp [crun]
    rw [hrun]
    refine ⟨h2, ?_⟩
    rw [h3]
    cases ev with
    | «begin» op => simp [cstep]
    | finish tag =>
      simp only [cstep]
      cases hf : st.inflight.find? (fun x => x.1.tag == tag) with
      | none => simp
      | some oc => obtain ⟨op, c⟩ := oc; simp

/-- non-vacuity: two requests overlap, the first times out, a third reuses the pool -/
example :
    (crun false {} [.begin ⟨1, true, false, 0, false⟩, .begin ⟨2, false, false, 0, false⟩, .finish 2, .finish 1,
                    .begin ⟨3, false, false, 0, false⟩, .finish 3]).results = [(2, .ok 2), (1, .timeout), (3, .ok 3)] := by
  decide

/-- with the keep-on-timeout policy the same interleaving hands request 3 another answer -/
example :
    (crun true {} [.begin ⟨1, true, false, 0, false⟩, .finish 1, .begin ⟨3, false, false, 0, false⟩, .finish 3]).results
      = [(1, .timeout), (3, .ok 1)] := by decide

end Pool

/-- fact obligation: in cluster/client.go every error branch that follows a write to
or a read from a pooled connection starts by marking the connection unusable, and
`handleConnError` does so unconditionally. -/
theorem client_discards_connection_on_any_error :
    Gen.ClientConns.errorBranches.map (fun b => (b.1, b.2.1)) =
      [("Backup", "writeCommand"), ("Backup", "readResponse"), ("RemoveNode", "writeCommand"),
       ("RemoveNode", "readResponse"), ("Stepdown", "writeCommand"), ("Stepdown", "readResponse"),
       ("Notify", "writeCommand"), ("Notify", "readResponse"), ("Join", "writeCommand"),
       ("Join", "readResponse"), ("BroadcastHWM", "writeCommand"), ("BroadcastHWM", "readResponse"),
       ("retry", "writeCommandReadResponse"), ("retry", "writeCommandReadResponse")] ∧
    -- nothing stands between the i/o and its error test (in particular no conn.Close(), which
    -- would hand the connection back to the pool before it is marked), and the branch marks first
    Gen.ClientConns.errorBranches.all (fun b => b.2.2.1 == [] && b.2.2.2 == "handleConnError(conn)") = true ∧
    Gen.ClientConns.handleConnErrorBody = ["if pc, ok := conn.(*pool.Conn); ok { pc.MarkUnusable() }"] := by
  decide

/-! ### non-vacuity -/
def exForward : Input where
  kind := .execute
  req := 9
  creds := some 8
  timeout := 11
  retries := 2
  noForward := false
  localOut := .notLeader
  addrOut := .addr "leader:4002"
  remoteOut := .ok 5 6
  apiAddr := "me:4001"

example :
    run exForward = ([.localStore .execute 9, .leaderAddr, .remote .execute 9 "leader:4002" (some 8) 11 2],
             .forwarded 5 6 "leader:4002") := by decide

def exRedirect : Input := { exForward with kind := .backup, creds := none, noForward := true }

example :
    run exRedirect = ([.localStore .backup 9], .errNotLeader) ∧
    httpOut (run exRedirect).2 true true = .redirect301 := by decide

end C20

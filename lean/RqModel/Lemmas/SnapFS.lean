/-
Helper lemmas for C07 (reap crash safety) over RqModel/Model/SnapFS.lean.

The proof idea: every state a crashed reap / crashed recovery can leave is of the
form `mk c oth p pl pt` for a *progress descriptor* `p : Prog` (how far the plan
got, including the partial effects of non-atomic operations), the plan file `pl`
and arbitrary temporary directories `oth`. Executing any operation of the plan,
completely or partially, maps such a state to another such state; executing the
whole plan from any of them ends in the one final state.
-/
import RqModel.Model.SnapFS
set_option linter.unusedSimpArgs false
set_option linter.unusedVariables false
namespace RqModel.SnapFS

variable {D : Type}

/-- the assumed laws of SQLite's checkpoint -/
structure DbLaws (A : DbAlg D) : Prop where
  /-- re-checkpointing the WAL that was just checkpointed changes nothing -/
  idem : ∀ d w, A.apply (A.apply d w) w = A.apply d w
  /-- segment 0 is the zero-length WAL -/
  zero : ∀ d, A.apply d 0 = d

/-- the directory a loaded snapshot came from (clean: no data.db-wal) -/
def dirOf (x : Snap D) : Dir D :=
  { tmp := false, mt := some x.mt, db := x.db, crc := x.crc, dbWal := none, wals := x.wals }

/-- everything the reap plan is built from -/
structure Ctx (D : Type) where
  A : DbAlg D
  names : List Nat
  olds : List (Snap D)
  full : Snap D
  newers : List (Snap D)
  d0 : D
  newName : Nat
  verify : Bool
  fullNeeded : Bool
  /-- the data.db-wal of an older snapshot's directory (an earlier consolidating reap leaves a
  zero-length one); older directories are only ever removed, so it never matters -/
  oldDw : Nat → Option Nat := fun _ => none

namespace Ctx
variable (c : Ctx D)

def W : List (Nat × Nat) := walPaths c.full ++ c.newers.flatMap walPaths
def R : List Nat := c.newers.map (·.name) ++ c.olds.map (·.name)
def fold (ps : List (Nat × Nat)) : D := (ps.map Prod.snd).foldl c.A.apply c.d0
def dF : D := c.fold c.W
def newest : Snap D := c.newers.getLast?.getD c.full
def newMeta : Meta := { id := c.newName, index := c.newest.mt.index, term := c.newest.mt.term }
def plan : List Op :=
  [Op.checkpoint c.full.name c.W, Op.calcCrc c.full.name]
    ++ c.newers.map (fun x => Op.removeAll x.name)
    ++ c.olds.map (fun x => Op.removeAll x.name)
    ++ [Op.writeMeta c.full.name c.newMeta]
    ++ (if c.verify then [Op.verifyDb c.full.name] else [])
    ++ [Op.rename c.full.name c.newName]
def snaps : List (Snap D) := c.olds ++ c.full :: c.newers
end Ctx

def findSnap (l : List (Snap D)) (n : Nat) : Option (Snap D) := l.find? (fun x => x.name == n)

/-- the directory of an older snapshot -/
def oldDirOf (c : Ctx D) (y : Snap D) : Dir D :=
  { tmp := false, mt := some y.mt, db := y.db, crc := y.crc, dbWal := c.oldDw y.name, wals := y.wals }

/-- progress of the plan -/
inductive Prog (D : Type) where
  /-- inside the checkpoint operation: WAL paths consumed so far, content of data.db, data.db-wal -/
  | ckpt (cons : List (Nat × Nat)) (x : D) (dw : Option Nat)
  /-- checkpoint finished: CRC sidecar, removal progress (first `k` of `R` gone, `R[k]` cut to
  `sel`), meta.json of the full directory, data.db-wal -/
  | post (crc : Option D) (k : Nat) (sel : Option Sel) (m : Option Meta) (dw : Option Nat)
  | renamed (dw : Option Nat)

def rmView (c : Ctx D) (k : Nat) (sel : Option Sel) (n : Nat) (base : Dir D) : Option (Dir D) :=
  if c.R.idxOf n < k then none
  else if c.R.idxOf n = k then
    match sel with
    | some sl => some (sl.apply base)
    | none => some base
  else some base

def mkDir (c : Ctx D) (oth : Nat → Option (Dir D)) : Prog D → Nat → Option (Dir D)
  | .ckpt cons x dw, n =>
    if n = c.full.name then
      some { tmp := false, mt := some c.full.mt, db := some x, crc := c.full.crc, dbWal := dw,
             wals := c.full.wals.filter (fun w => !cons.contains (n, w)) }
    else
      match findSnap c.newers n with
      | some y => some { tmp := false, mt := some y.mt, db := y.db, crc := y.crc, dbWal := none,
                         wals := y.wals.filter (fun w => !cons.contains (n, w)) }
      | none =>
        match findSnap c.olds n with
        | some y => some (oldDirOf c y)
        | none => if n = c.newName then none else oth n
  | .post crc k sel m dw, n =>
    if n = c.full.name then
      some { tmp := false, mt := m, db := some c.dF, crc := crc, dbWal := dw, wals := [] }
    else
      match findSnap c.newers n with
      | some y => rmView c k sel n { tmp := false, mt := some y.mt, db := y.db, crc := y.crc, dbWal := none, wals := [] }
      | none =>
        match findSnap c.olds n with
        | some y => rmView c k sel n (oldDirOf c y)
        | none => if n = c.newName then none else oth n
  | .renamed dw, n =>
    if n = c.full.name then none
    else
      match findSnap c.newers n with
      | some _ => none
      | none =>
        match findSnap c.olds n with
        | some _ => none
        | none =>
          if n = c.newName then
            some { tmp := false, mt := some c.newMeta, db := some c.dF, crc := some c.dF, dbWal := dw, wals := [] }
          else oth n

def mkNames (c : Ctx D) : Prog D → List Nat
  | .renamed _ => c.names ++ [c.newName]
  | _ => c.names

def mk (c : Ctx D) (oth : Nat → Option (Dir D)) (p : Prog D) (pl : Option (List Op)) (pt : Bool) : FS D :=
  { names := mkNames c p, dir := mkDir c oth p, plan := pl, planTmp := pt, fullNeeded := c.fullNeeded }

/-- static well-formedness of the context -/
structure Good (c : Ctx D) : Prop where
  laws : DbLaws c.A
  nodup : (c.snaps.map (·.name)).Nodup
  fresh : c.newName ∉ c.snaps.map (·.name)
  freshNames : c.newName ∉ c.names
  namesNodup : c.names.Nodup
  wNodup : c.W.Nodup

theorem mk_ext (c : Ctx D) (oth) (p q : Prog D) (pl pt)
    (hn : mkNames c p = mkNames c q) (hd : ∀ n, mkDir c oth p n = mkDir c oth q n) :
    mk c oth p pl pt = mk c oth q pl pt := by
  unfold mk
  have : mkDir c oth p = mkDir c oth q := funext hd
  rw [hn, this]

/-! ### lookup facts -/

theorem findSnap_mem {l : List (Snap D)} {n : Nat} {y : Snap D} (h : findSnap l n = some y) :
    y ∈ l ∧ y.name = n := by
  unfold findSnap at h
  have h1 := List.mem_of_find?_eq_some h
  have h2 := List.find?_some h
  exact ⟨h1, by simpa using h2⟩

theorem findSnap_none {l : List (Snap D)} {n : Nat} (h : findSnap l n = none) :
    ∀ y ∈ l, y.name ≠ n := by
  unfold findSnap at h
  intro y hy
  have := List.find?_eq_none.1 h y hy
  simpa using this

theorem findSnap_of_mem {l : List (Snap D)} (hnd : (l.map (·.name)).Nodup) {y : Snap D} (hy : y ∈ l) :
    findSnap l y.name = some y := by
  induction l with
  | nil => cases hy
  | cons a l ih =>
    simp only [List.map_cons, List.nodup_cons] at hnd
    unfold findSnap
    rw [List.find?_cons]
    by_cases ha : a.name = y.name
    · rcases List.mem_cons.1 hy with rfl | hy'
      · simp
      · exact absurd (List.mem_map.2 ⟨y, hy', ha.symm⟩) hnd.1
    · rcases List.mem_cons.1 hy with rfl | hy'
      · exact absurd rfl ha
      · have : (a.name == y.name) = false := by simpa using ha
        simp only [this]
        exact ih hnd.2 hy'

/-! ### operations on `post` states -/

theorem FS.ext' {s t : FS D} (h1 : s.names = t.names) (h2 : ∀ n, s.dir n = t.dir n)
    (h3 : s.plan = t.plan) (h4 : s.planTmp = t.planTmp) (h5 : s.fullNeeded = t.fullNeeded) : s = t := by
  cases s; cases t
  simp only [FS.mk.injEq] at *
  exact ⟨h1, funext h2, h3, h4, h5⟩

theorem exec_wm (c : Ctx D) (oth crc k sel m dw pl pt) (nm : Meta) :
    execOp c.A (mk c oth (.post crc k sel m dw) pl pt) (.writeMeta c.full.name nm)
      = .ok (mk c oth (.post crc k sel (some nm) dw) pl pt) := by
  simp only [execOp, FS.modify, mk, mkDir, if_true]
  congr 1
  apply FS.ext' <;> simp [FS.set, mkNames, mkDir]
  intro n
  by_cases h : n = c.full.name <;> simp [h]

theorem exec_vf (c : Ctx D) (oth crc k sel m dw pl pt) :
    execOp c.A (mk c oth (.post crc k sel m dw) pl pt) (.verifyDb c.full.name)
      = .ok (mk c oth (.post crc k sel m (some (dw.getD 0))) pl pt) := by
  simp only [execOp, hasDb, FS.modify, mk, mkDir, if_true]
  simp only [Option.isSome_some, if_true]
  congr 1
  apply FS.ext' <;> simp [FS.set, mkNames, mkDir]
  intro n
  by_cases h : n = c.full.name <;> simp [h]

/-- facts about names in `R` -/
theorem mem_R_iff (c : Ctx D) (n : Nat) :
    n ∈ c.R ↔ (∃ y ∈ c.newers, y.name = n) ∨ (∃ y ∈ c.olds, y.name = n) := by
  simp [Ctx.R, List.mem_append, List.mem_map]

theorem Good.R_nodup {c : Ctx D} (g : Good c) : c.R.Nodup := by
  have := g.nodup
  simp only [Ctx.snaps, List.map_append, List.map_cons] at this
  unfold Ctx.R
  rw [List.nodup_append] at this ⊢
  obtain ⟨h1, h2, h3⟩ := this
  rw [List.nodup_cons] at h2
  refine ⟨h2.2, h1, ?_⟩
  intro a ha b hb
  exact fun e => h3 b hb a (List.mem_cons_of_mem _ ha) e.symm

theorem Good.full_not_R {c : Ctx D} (g : Good c) : c.full.name ∉ c.R := by
  have := g.nodup
  simp only [Ctx.snaps, List.map_append, List.map_cons] at this
  rw [List.nodup_append] at this
  obtain ⟨h1, h2, h3⟩ := this
  rw [List.nodup_cons] at h2
  unfold Ctx.R
  intro h
  rcases List.mem_append.1 h with h | h
  · exact h2.1 h
  · exact h3 _ h _ (List.mem_cons_self) rfl

theorem Good.new_not_R {c : Ctx D} (g : Good c) : c.newName ∉ c.R := by
  have := g.fresh
  simp only [Ctx.snaps, List.map_append, List.map_cons, List.mem_append, List.mem_cons, not_or] at this
  unfold Ctx.R
  simp only [List.mem_append, not_or]
  exact ⟨this.2.2, this.1⟩

theorem Good.new_ne_full {c : Ctx D} (g : Good c) : c.newName ≠ c.full.name := by
  have := g.fresh
  simp only [Ctx.snaps, List.map_append, List.map_cons, List.mem_append, List.mem_cons, not_or] at this
  exact this.2.1

/-- a name not in `R` is not found among newers/olds -/
theorem find_not_R {c : Ctx D} {n : Nat} (h : n ∉ c.R) : findSnap c.newers n = none ∧ findSnap c.olds n = none := by
  rw [mem_R_iff] at h
  simp only [not_or, not_exists, not_and] at h
  constructor
  · cases hf : findSnap c.newers n with
    | none => rfl
    | some y => exact absurd (findSnap_mem hf).2 (h.1 y (findSnap_mem hf).1)
  · cases hf : findSnap c.olds n with
    | none => rfl
    | some y => exact absurd (findSnap_mem hf).2 (h.2 y (findSnap_mem hf).1)

/-- in `post`, a name of `R` maps to `rmView` of some base -/
theorem post_R {c : Ctx D} (g : Good c) (oth crc k sel m dw) {n : Nat} (h : n ∈ c.R) :
    ∃ base, mkDir c oth (.post crc k sel m dw) n = rmView c k sel n base := by
  have hf : n ≠ c.full.name := fun e => g.full_not_R (e ▸ h)
  simp only [mkDir, hf, if_false]
  cases h1 : findSnap c.newers n with
  | some y => exact ⟨_, rfl⟩
  | none =>
    cases h2 : findSnap c.olds n with
    | some y => exact ⟨_, rfl⟩
    | none =>
      exfalso
      rw [mem_R_iff] at h
      rcases h with ⟨y, hy, e⟩ | ⟨y, hy, e⟩
      · exact findSnap_none h1 y hy e
      · exact findSnap_none h2 y hy e

theorem exec_crc (c : Ctx D) (oth crc k sel m dw pl pt) :
    execOp c.A (mk c oth (.post crc k sel m dw) pl pt) (.calcCrc c.full.name)
      = .ok (mk c oth (.post (some c.dF) k sel m dw) pl pt) := by
  simp only [execOp, mk, mkDir, if_true]
  congr 1
  apply FS.ext' <;> simp [FS.set, mkNames, mkDir]
  intro n
  by_cases h : n = c.full.name <;> simp [h]



theorem idxOf_inj {l : List Nat} {a b : Nat} (ha : a ∈ l) (h : l.idxOf a = l.idxOf b) : a = b := by
  have h1 : l.idxOf a < l.length := List.idxOf_lt_length_iff.2 ha
  have h2 : l.idxOf b < l.length := h ▸ h1
  have e1 := List.getElem_idxOf h1
  have e2 := List.getElem_idxOf h2
  simp only [h] at e1
  exact e1.symm.trans e2

/-- RemoveAll of a directory that is already gone -/
theorem exec_rm_gone {c : Ctx D} (g : Good c) (oth crc k sel m dw pl pt) {n : Nat} (hn : n ∈ c.R)
    (hk : c.R.idxOf n < k) :
    execOp c.A (mk c oth (.post crc k sel m dw) pl pt) (.removeAll n)
      = .ok (mk c oth (.post crc k sel m dw) pl pt) := by
  simp only [execOp]
  congr 1
  apply FS.ext' <;> simp [FS.set, mk]
  obtain ⟨base, hb⟩ := post_R g oth crc k sel m dw hn
  simp [hb, rmView, hk]

/-- RemoveAll of the directory removal has reached -/
theorem exec_rm_at {c : Ctx D} (g : Good c) (oth crc k sel m dw pl pt) {n : Nat} (hn : n ∈ c.R)
    (hk : c.R.idxOf n = k) :
    execOp c.A (mk c oth (.post crc k sel m dw) pl pt) (.removeAll n)
      = .ok (mk c oth (.post crc (k + 1) none m dw) pl pt) := by
  simp only [execOp]
  congr 1
  apply FS.ext' <;> simp [FS.set, mk, mkNames]
  intro n'
  by_cases h : n' = n
  · subst h
    obtain ⟨base, hb⟩ := post_R g oth crc (k+1) none m dw hn
    simp [hb, rmView, hk]
  · simp only [h, if_false]
    by_cases hf : n' = c.full.name
    · simp [mkDir, hf]
    · have hne : c.R.idxOf n' ≠ k := by
        intro e
        exact h (idxOf_inj hn (hk.trans e.symm)).symm
      simp only [mkDir, hf, if_false, rmView]
      cases findSnap c.newers n' with
      | some y =>
        simp only
        by_cases h1 : c.R.idxOf n' < k
        · have : c.R.idxOf n' < k + 1 := by omega
          simp [h1, this]
        · have h2 : ¬ c.R.idxOf n' < k + 1 := by omega
          simp [h1, h2, hne]
      | none =>
        simp only
        cases findSnap c.olds n' with
        | some y =>
          simp only
          by_cases h1 : c.R.idxOf n' < k
          · have : c.R.idxOf n' < k + 1 := by omega
            simp [h1, this]
          · have h2 : ¬ c.R.idxOf n' < k + 1 := by omega
            simp [h1, h2, hne]
        | none => rfl

/-- once removal is complete the cut no longer matters -/
theorem post_norm {c : Ctx D} (oth crc k sel m dw pl pt) (hk : c.R.length ≤ k) :
    mk c oth (.post crc k sel m dw) pl pt = mk c oth (.post crc c.R.length none m dw) pl pt := by
  apply mk_ext
  · rfl
  · intro n
    by_cases hf : n = c.full.name
    · simp [mkDir, hf]
    · simp only [mkDir, hf, if_false]
      have key : ∀ base : Dir D, n ∈ c.R → rmView c k sel n base = rmView c c.R.length none n base := by
        intro base hn
        have h1 : c.R.idxOf n < c.R.length := List.idxOf_lt_length_iff.2 hn
        have h2 : c.R.idxOf n < k := by omega
        simp [rmView, h1, h2]
      cases h1 : findSnap c.newers n with
      | some y =>
        exact key _ ((mem_R_iff c n).2 (Or.inl ⟨y, (findSnap_mem h1).1, (findSnap_mem h1).2⟩))
      | none =>
        cases h2 : findSnap c.olds n with
        | some y =>
          exact key _ ((mem_R_iff c n).2 (Or.inr ⟨y, (findSnap_mem h2).1, (findSnap_mem h2).2⟩))
        | none => rfl

theorem exec_mv {c : Ctx D} (g : Good c) (oth k sel dw pl pt) (hk : c.R.length ≤ k) :
    execOp c.A (mk c oth (.post (some c.dF) k sel (some c.newMeta) dw) pl pt) (.rename c.full.name c.newName)
      = .ok (mk c oth (.renamed dw) pl pt) := by
  have hnf := g.new_ne_full
  have hnR := find_not_R g.new_not_R
  have e1 : (mk c oth (.post (some c.dF) k sel (some c.newMeta) dw) pl pt).dir c.full.name
      = some { tmp := false, mt := some c.newMeta, db := some c.dF, crc := some c.dF, dbWal := dw, wals := [] } := by
    simp [mk, mkDir]
  have e2 : (mk c oth (.post (some c.dF) k sel (some c.newMeta) dw) pl pt).dir c.newName = none := by
    simp [mk, mkDir, hnf, hnR.1, hnR.2]
  simp only [execOp, e1, e2]
  congr 1
  apply FS.ext'
  · simp [mk, mkNames, addName, g.freshNames]
  · intro n
    simp only [FS.set, mk]
    by_cases h1 : n = c.newName
    · subst h1
      simp [mkDir, hnf, hnR.1, hnR.2]
    · simp only [h1, if_false]
      by_cases h2 : n = c.full.name
      · simp [h2, mkDir]
      · simp only [h2, if_false, mkDir, h1]
        have key : ∀ base : Dir D, n ∈ c.R → rmView c k sel n base = none := by
          intro base hn
          have h1 : c.R.idxOf n < c.R.length := List.idxOf_lt_length_iff.2 hn
          have h2 : c.R.idxOf n < k := by omega
          simp [rmView, h2]
        cases h3 : findSnap c.newers n with
        | some y =>
          exact key _ ((mem_R_iff c n).2 (Or.inl ⟨y, (findSnap_mem h3).1, (findSnap_mem h3).2⟩))
        | none =>
          cases h4 : findSnap c.olds n with
          | some y =>
            exact key _ ((mem_R_iff c n).2 (Or.inr ⟨y, (findSnap_mem h4).1, (findSnap_mem h4).2⟩))
          | none => rfl
  · rfl
  · rfl
  · rfl


/-! ### the checkpoint operation -/

theorem mem_W (c : Ctx D) (p : Nat × Nat) :
    p ∈ c.W ↔ (p.1 = c.full.name ∧ p.2 ∈ c.full.wals) ∨ ∃ y ∈ c.newers, p.1 = y.name ∧ p.2 ∈ y.wals := by
  obtain ⟨a, b⟩ := p
  simp only [Ctx.W, walPaths, List.mem_append, List.mem_map, List.mem_flatMap, Prod.mk.injEq]
  constructor
  · rintro (⟨w, hw, rfl, rfl⟩ | ⟨y, hy, w, hw, rfl, rfl⟩)
    · exact Or.inl ⟨rfl, hw⟩
    · exact Or.inr ⟨y, hy, rfl, hw⟩
  · rintro (⟨rfl, hw⟩ | ⟨y, hy, rfl, hw⟩)
    · exact Or.inl ⟨b, hw, rfl, rfl⟩
    · exact Or.inr ⟨y, hy, b, hw, rfl, rfl⟩

theorem Good.newer_facts {c : Ctx D} (g : Good c) {y : Snap D} (hy : y ∈ c.newers) :
    y.name ≠ c.full.name ∧ findSnap c.newers y.name = some y := by
  have := g.nodup
  simp only [Ctx.snaps, List.map_append, List.map_cons] at this
  rw [List.nodup_append] at this
  obtain ⟨h1, h2, h3⟩ := this
  rw [List.nodup_cons] at h2
  refine ⟨?_, findSnap_of_mem h2.2 hy⟩
  intro e
  exact h2.1 (e ▸ List.mem_map.2 ⟨y, hy, rfl⟩)

/-- on a checkpoint-phase state a WAL of the plan exists iff it has not been consumed -/
theorem walExists_ckpt {c : Ctx D} (g : Good c) (oth cons x dw pl pt) {p : Nat × Nat} (hp : p ∈ c.W) :
    walExists (mk c oth (.ckpt cons x dw) pl pt) p = !cons.contains p := by
  rcases (mem_W c p).1 hp with ⟨h1, h2⟩ | ⟨y, hy, h1, h2⟩
  · simp only [walExists, mk, mkDir, h1, if_true]
    have : (p.1, p.2) = p := rfl
    simp [List.mem_filter, h2, ← h1]
  · obtain ⟨hne, hf⟩ := g.newer_facts hy
    simp only [walExists, mk, mkDir, h1, hne, if_false, hf]
    simp [List.mem_filter, h2, ← h1]

theorem ckpt_filter {c : Ctx D} (g : Good c) (oth cons rest x dw pl pt) (hW : c.W = cons ++ rest) :
    c.W.filter (walExists (mk c oth (.ckpt cons x dw) pl pt)) = rest := by
  have hnd := g.wNodup
  have : c.W.filter (walExists (mk c oth (.ckpt cons x dw) pl pt)) = c.W.filter (fun p => !cons.contains p) := by
    apply List.filter_congr
    intro p hp
    exact walExists_ckpt g oth cons x dw pl pt hp
  rw [this, hW, List.filter_append]
  rw [hW, List.nodup_append] at hnd
  have h1 : cons.filter (fun p => !cons.contains p) = [] := by
    rw [List.filter_eq_nil_iff]
    intro a ha
    simp [ha]
  have h2 : rest.filter (fun p => !cons.contains p) = rest := by
    rw [List.filter_eq_self]
    intro a ha
    have : a ∉ cons := fun hc => hnd.2.2 a hc a ha rfl
    simp [this]
  rw [h1, h2, List.nil_append]



theorem ckptRemove_ckpt (c : Ctx D) (oth cons x w pl pt) :
    ckptRemove c.A (mk c oth (.ckpt cons x (some w)) pl pt) c.full.name
      = .ok (mk c oth (.ckpt cons (c.A.apply x w) none) pl pt) := by
  simp only [ckptRemove, mk, mkDir, if_true]
  congr 1
  apply FS.ext' <;> simp [FS.set, mkNames]
  intro n
  by_cases h : n = c.full.name <;> simp [h, mkDir]

theorem ckptApplyOnly_ckpt (c : Ctx D) (oth cons x w pl pt) :
    ckptApplyOnly c.A (mk c oth (.ckpt cons x (some w)) pl pt) c.full.name
      = mk c oth (.ckpt cons (c.A.apply x w) (some w)) pl pt := by
  simp only [ckptApplyOnly, FS.modify, mk, mkDir, if_true]
  apply FS.ext' <;> simp [FS.set, mkNames]
  intro n
  by_cases h : n = c.full.name <;> simp [h, mkDir]


theorem filter_snoc_same (l : List Nat) (cons : List (Nat × Nat)) (p : Nat × Nat) :
    (l.filter (fun w => !cons.contains (p.1, w))).filter (fun w => w != p.2)
      = l.filter (fun w => !(cons ++ [p]).contains (p.1, w)) := by
  rw [List.filter_filter]
  apply List.filter_congr
  intro w _
  obtain ⟨a, b⟩ := p
  by_cases hw : w = b
  · subst hw; simp
  · simp [hw]

theorem filter_snoc_other (l : List Nat) (cons : List (Nat × Nat)) (p : Nat × Nat) (n : Nat) (h : n ≠ p.1) :
    l.filter (fun w => !cons.contains (n, w)) = l.filter (fun w => !(cons ++ [p]).contains (n, w)) := by
  apply List.filter_congr
  intro w _
  obtain ⟨a, b⟩ := p
  have : ¬ (n = a) := h
  simp [this]

/-- the file-system effect of `moveWal` on the directory function -/
theorem moveWal_dir (s : FS D) (p : Nat × Nat) (f : Nat) (n : Nat) :
    (moveWal s p f).dir n =
      match s.dir n with
      | none => none
      | some d =>
        let d1 : Dir D := if n = p.1 then { d with wals := d.wals.filter fun w => w != p.2 } else d
        some (if n = f then { d1 with dbWal := some p.2 } else d1) := by
  unfold moveWal FS.modify
  cases h1 : s.dir p.1 with
  | none =>
    simp only
    cases h2 : s.dir f with
    | none =>
      simp only
      cases h3 : s.dir n with
      | none => rfl
      | some d =>
        have e1 : n ≠ p.1 := fun e => by rw [e, h1] at h3; cases h3
        have e2 : n ≠ f := fun e => by rw [e, h2] at h3; cases h3
        simp [e1, e2]
    | some d2 =>
      simp only [FS.set]
      by_cases e2 : n = f
      · subst e2
        have e1 : n ≠ p.1 := fun e => by rw [e, h1] at h2; cases h2
        simp [h2, e1]
      · simp only [e2, if_false]
        cases h3 : s.dir n with
        | none => rfl
        | some d =>
          have e1 : n ≠ p.1 := fun e => by rw [e, h1] at h3; cases h3
          simp [e1]
  | some d1 =>
    simp only [FS.set]
    by_cases e0 : f = p.1
    · simp only [e0, if_true]
      by_cases e1 : n = p.1
      · simp [e1, h1]
      · simp only [e1, if_false]
        cases h3 : s.dir n with
        | none => rfl
        | some d => simp
    · simp only [e0, if_false]
      cases h2 : s.dir f with
      | none =>
        simp only
        by_cases e1 : n = p.1
        · have e2 : n ≠ f := fun e => e0 (e ▸ e1)
          simp [e1, h1, Ne.symm e0]
        · simp only [e1, if_false]
          cases h3 : s.dir n with
          | none => rfl
          | some d =>
            have e2 : n ≠ f := fun e => by rw [e, h2] at h3; cases h3
            simp [e2]
      | some d2 =>
        simp only
        by_cases e2 : n = f
        · subst e2
          simp [h2, e0]
        · simp only [e2, if_false]
          by_cases e1 : n = p.1
          · simp [e1, h1]
          · simp only [e1, if_false]
            cases h3 : s.dir n with
            | none => rfl
            | some d => simp



theorem moveWal_fields (s : FS D) (p : Nat × Nat) (f : Nat) :
    (moveWal s p f).names = s.names ∧ (moveWal s p f).plan = s.plan ∧
    (moveWal s p f).planTmp = s.planTmp ∧ (moveWal s p f).fullNeeded = s.fullNeeded := by
  unfold moveWal FS.modify
  cases h1 : s.dir p.1 <;> simp only [FS.set]
  · cases h2 : s.dir f <;> simp
  · split <;> simp

theorem moveWal_ckpt {c : Ctx D} (g : Good c) (oth cons x dw pl pt) {p : Nat × Nat} (hp : p ∈ c.W) :
    moveWal (mk c oth (.ckpt cons x dw) pl pt) p c.full.name
      = mk c oth (.ckpt (cons ++ [p]) x (some p.2)) pl pt := by
  obtain ⟨f1, f2, f3, f4⟩ := moveWal_fields (mk c oth (.ckpt cons x dw) pl pt) p c.full.name
  refine FS.ext' (f1.trans rfl) ?_ (f2.trans rfl) (f3.trans rfl) (f4.trans rfl)
  intro n
  rw [moveWal_dir]
  rcases (mem_W c p).1 hp with ⟨h1, h2⟩ | ⟨y, hy, h1, h2⟩
  · by_cases h : n = c.full.name
    · subst h
      simp only [mk, mkDir, if_true, h1]
      rw [← h1, filter_snoc_same]
    · have hp1 : n ≠ p.1 := h1 ▸ h
      simp only [mk, mkDir, h, if_false, hp1]
      cases findSnap c.newers n with
      | some y => simp only; rw [filter_snoc_other _ cons p n hp1]
      | none =>
        simp only
        cases findSnap c.olds n with
        | some y => simp [h, hp1]
        | none =>
          simp only
          generalize (if n = c.newName then none else oth n) = v
          cases v <;> simp [h, hp1]
  · obtain ⟨hne, hf⟩ := g.newer_facts hy
    by_cases h : n = c.full.name
    · subst h
      have hp1 : c.full.name ≠ p.1 := fun e => hne (h1 ▸ e.symm)
      simp only [mk, mkDir, if_true, hp1, if_false]
      rw [filter_snoc_other _ cons p _ hp1]
    · simp only [mk, mkDir, h, if_false]
      by_cases h' : n = p.1
      · rw [h', h1, hf]
        simp only [if_true]
        rw [← h1, filter_snoc_same]
      · simp only [h', if_false]
        cases findSnap c.newers n with
        | some y' => simp only; rw [filter_snoc_other _ cons p n h']
        | none =>
          simp only
          cases findSnap c.olds n with
          | some y => simp [h, h']
          | none =>
            simp only
            generalize (if n = c.newName then none else oth n) = v
            cases v <;> simp [h, h']



theorem fold_snoc (c : Ctx D) (cons : List (Nat × Nat)) (p : Nat × Nat) :
    c.fold (cons ++ [p]) = c.A.apply (c.fold cons) p.2 := by
  simp [Ctx.fold, List.foldl_append]

theorem ckptLoop_ckpt {c : Ctx D} (g : Good c) (oth pl pt) :
    ∀ (rest cons : List (Nat × Nat)), c.W = cons ++ rest →
      ckptLoop c.A c.full.name rest (mk c oth (.ckpt cons (c.fold cons) none) pl pt)
        = .ok (mk c oth (.ckpt c.W c.dF none) pl pt) := by
  intro rest
  induction rest with
  | nil =>
    intro cons h
    simp only [List.append_nil] at h
    simp [ckptLoop, h, Ctx.dF]
  | cons p r ih =>
    intro cons h
    have hp : p ∈ c.W := by rw [h]; simp
    simp only [ckptLoop]
    rw [moveWal_ckpt g oth cons _ none pl pt hp, ckptRemove_ckpt]
    simp only
    rw [← fold_snoc]
    apply ih
    rw [h]; simp

/-- a checkpoint-phase state is consistent when finishing the in-flight WAL gives the fold -/
def CkOK (c : Ctx D) (cons : List (Nat × Nat)) (x : D) (dw : Option Nat) : Prop :=
  (∃ rest, c.W = cons ++ rest) ∧
    match dw with
    | none => x = c.fold cons
    | some w => c.A.apply x w = c.fold cons

theorem hasLeftover_ckpt (c : Ctx D) (oth cons x dw pl pt) :
    hasLeftover (mk c oth (.ckpt cons x dw) pl pt) c.full.name = dw.isSome := by
  simp [hasLeftover, mk, mkDir]

theorem hasDb_ckpt (c : Ctx D) (oth cons x dw pl pt) :
    hasDb (mk c oth (.ckpt cons x dw) pl pt) c.full.name = true := by
  simp [hasDb, mk, mkDir]

theorem exec_ck_ckpt {c : Ctx D} (g : Good c) (oth cons x dw pl pt) (h : CkOK c cons x dw) :
    execOp c.A (mk c oth (.ckpt cons x dw) pl pt) (.checkpoint c.full.name c.W)
      = .ok (mk c oth (.ckpt c.W c.dF none) pl pt) := by
  obtain ⟨⟨rest, hW⟩, hx⟩ := h
  simp only [execOp, execCheckpoint, hasLeftover_ckpt]
  have key : ∀ s1, s1 = mk c oth (.ckpt cons (c.fold cons) none) pl pt →
      (let ex := c.W.filter (walExists s1)
       if ex.isEmpty then Except.ok s1 else if !hasDb s1 c.full.name then Except.error "ckpt-nodb"
       else ckptLoop c.A c.full.name ex s1) = .ok (mk c oth (.ckpt c.W c.dF none) pl pt) := by
    intro s1 hs1
    subst hs1
    simp only [ckpt_filter g oth cons rest _ none pl pt hW, hasDb_ckpt]
    cases rest with
    | nil =>
      simp only [List.append_nil] at hW
      simp [hW, Ctx.dF]
    | cons p r =>
      simp only [List.isEmpty_cons, Bool.false_eq_true, if_false, Bool.not_true]
      exact ckptLoop_ckpt g oth pl pt (p :: r) cons hW
  cases dw with
  | none =>
    simp only [Option.isSome_none, Bool.false_eq_true, if_false]
    simp only at hx
    exact key _ (by rw [hx])
  | some w =>
    simp only [Option.isSome_some, if_true, ckptRemove_ckpt]
    simp only at hx
    exact key _ (by rw [hx])



theorem filter_W_full (c : Ctx D) : c.full.wals.filter (fun w => !c.W.contains (c.full.name, w)) = [] := by
  rw [List.filter_eq_nil_iff]
  intro w hw
  have : (c.full.name, w) ∈ c.W := (mem_W c _).2 (Or.inl ⟨rfl, hw⟩)
  simp [this]

theorem filter_W_newer (c : Ctx D) {y : Snap D} (hy : y ∈ c.newers) :
    y.wals.filter (fun w => !c.W.contains (y.name, w)) = [] := by
  rw [List.filter_eq_nil_iff]
  intro w hw
  have : (y.name, w) ∈ c.W := (mem_W c _).2 (Or.inr ⟨y, hy, rfl, hw⟩)
  simp [this]

theorem rmView_zero (c : Ctx D) (n : Nat) (base : Dir D) : rmView c 0 none n base = some base := by
  simp [rmView]

/-- the end of the checkpoint phase is the start of the post phase -/
theorem ckpt_eq_post (c : Ctx D) (oth dw pl pt) :
    mk c oth (.ckpt c.W c.dF dw) pl pt = mk c oth (.post c.full.crc 0 none (some c.full.mt) dw) pl pt := by
  apply mk_ext
  · rfl
  · intro n
    by_cases hf : n = c.full.name
    · subst hf
      simp only [mkDir, if_true, filter_W_full]
    · simp only [mkDir, hf, if_false, rmView_zero]
      cases h1 : findSnap c.newers n with
      | some y =>
        obtain ⟨hy, rfl⟩ := findSnap_mem h1
        simp only [filter_W_newer c hy]
      | none => rfl

theorem rmView_wals_nil (c : Ctx D) (k sel n) (base : Dir D) (hb : base.wals = []) {d : Dir D}
    (h : rmView c k sel n base = some d) : d.wals = [] := by
  unfold rmView at h
  split at h
  · cases h
  · split at h
    · cases sel with
      | none => simp only [Option.some.injEq] at h; rw [← h, hb]
      | some sl => simp only [Option.some.injEq] at h; rw [← h]; simp [Sel.apply, hb]
    · simp only [Option.some.injEq] at h; rw [← h, hb]

theorem walExists_post {c : Ctx D} (g : Good c) (oth crc k sel m dw pl pt) {p : Nat × Nat} (hp : p ∈ c.W) :
    walExists (mk c oth (.post crc k sel m dw) pl pt) p = false := by
  rcases (mem_W c p).1 hp with ⟨h1, h2⟩ | ⟨y, hy, h1, h2⟩
  · simp [walExists, mk, mkDir, h1]
  · obtain ⟨hne, hf⟩ := g.newer_facts hy
    simp only [walExists, mk, mkDir, h1, hne, if_false, hf]
    cases hv : rmView c k sel y.name { tmp := false, mt := some y.mt, db := y.db, crc := y.crc, dbWal := none, wals := [] } with
    | none => rfl
    | some d =>
      have : d.wals = [] := rmView_wals_nil c k sel y.name _ rfl hv
      simp [this]

theorem exec_ck_post {c : Ctx D} (g : Good c) (oth crc k sel m dw pl pt) (hdw : dw = none ∨ dw = some 0) :
    execOp c.A (mk c oth (.post crc k sel m dw) pl pt) (.checkpoint c.full.name c.W)
      = .ok (mk c oth (.post crc k sel m none) pl pt) := by
  have hl : hasLeftover (mk c oth (.post crc k sel m dw) pl pt) c.full.name = dw.isSome := by
    simp [hasLeftover, mk, mkDir]
  have key : (let ex := c.W.filter (walExists (mk c oth (.post crc k sel m none) pl pt))
       if ex.isEmpty then Except.ok (mk c oth (.post crc k sel m none) pl pt)
       else if !hasDb (mk c oth (.post crc k sel m none) pl pt) c.full.name then Except.error "ckpt-nodb"
       else ckptLoop c.A c.full.name ex (mk c oth (.post crc k sel m none) pl pt))
       = .ok (mk c oth (.post crc k sel m none) pl pt) := by
    have : c.W.filter (walExists (mk c oth (.post crc k sel m none) pl pt)) = [] := by
      rw [List.filter_eq_nil_iff]
      intro p hp
      simp [walExists_post g oth crc k sel m none pl pt hp]
    simp [this]
  simp only [execOp, execCheckpoint, hl]
  rcases hdw with rfl | rfl
  · simp only [Option.isSome_none, Bool.false_eq_true, if_false]
    exact key
  · have : ckptRemove c.A (mk c oth (.post crc k sel m (some 0)) pl pt) c.full.name
        = .ok (mk c oth (.post crc k sel m none) pl pt) := by
      simp only [ckptRemove, mk, mkDir, if_true, g.laws.zero]
      congr 1
      apply FS.ext' <;> simp [FS.set, mkNames]
      intro n
      by_cases h : n = c.full.name <;> simp [h, mkDir]
    simp only [Option.isSome_some, if_true, this]
    exact key


/-! ### the whole plan -/

/-- executing the RemoveAll operations for `R[i..]` when removal has reached `k ≥ i` -/
theorem exec_rms {c : Ctx D} (g : Good c) (oth crc m dw pl pt) :
    ∀ (l : List Nat) (i k : Nat) (sel : Option Sel), c.R.drop i = l → i ≤ k →
      execOps c.A (l.map Op.removeAll) (mk c oth (.post crc k sel m dw) pl pt)
        = .ok (mk c oth (.post crc c.R.length none m dw) pl pt) := by
  intro l
  induction l with
  | nil =>
    intro i k sel hd hik
    have : c.R.length ≤ i := by
      rcases Nat.lt_or_ge i c.R.length with h | h
      · rw [List.drop_eq_getElem_cons h] at hd; cases hd
      · exact h
    simp only [List.map_nil, execOps]
    rw [post_norm oth crc k sel m dw pl pt (by omega)]
  | cons n l ih =>
    intro i k sel hd hik
    have hi : i < c.R.length := by
      rcases Nat.lt_or_ge i c.R.length with h | h
      · exact h
      · rw [List.drop_eq_nil_of_le h] at hd; cases hd
    rw [List.drop_eq_getElem_cons hi] at hd
    simp only [List.cons.injEq] at hd
    obtain ⟨hn, hl⟩ := hd
    have hmem : n ∈ c.R := hn ▸ List.getElem_mem hi
    have hidx : c.R.idxOf n = i := hn ▸ List.Nodup.idxOf_getElem g.R_nodup i hi
    simp only [List.map_cons, execOps]
    rcases Nat.lt_or_ge i k with h | h
    · rw [exec_rm_gone g oth crc k sel m dw pl pt hmem (hidx ▸ h)]
      exact ih (i + 1) k sel hl (by omega)
    · have : i = k := by omega
      rw [exec_rm_at g oth crc k sel m dw pl pt hmem (hidx.trans this)]
      exact ih (i + 1) (k + 1) none hl (by omega)

def ProgOK (c : Ctx D) : Prog D → Prop
  | .ckpt cons x dw => CkOK c cons x dw
  | .post _ _ _ _ dw => dw = none ∨ dw = some 0
  | .renamed dw => dw = none ∨ dw = some 0

def Prog.isRenamed : Prog D → Bool
  | .renamed _ => true
  | _ => false

theorem execOps_append (A : DbAlg D) (a b : List Op) (s : FS D) :
    execOps A (a ++ b) s = match execOps A a s with
      | .ok s' => execOps A b s'
      | .error e => .error e := by
  induction a generalizing s with
  | nil => rfl
  | cons o a ih =>
    simp only [List.cons_append, execOps]
    cases execOp A s o with
    | ok s' => exact ih s'
    | error e => rfl

def finalDw (c : Ctx D) : Option Nat := if c.verify then some 0 else none

theorem R_map (c : Ctx D) :
    c.newers.map (fun x => Op.removeAll x.name) ++ c.olds.map (fun x => Op.removeAll x.name)
      = c.R.map Op.removeAll := by
  simp [Ctx.R, List.map_append, List.map_map, Function.comp_def]

/-- the tail of the plan from any post-checkpoint state -/
theorem exec_tail {c : Ctx D} (g : Good c) (oth crc k sel m pl pt) :
    execOps c.A ([Op.calcCrc c.full.name] ++ c.R.map Op.removeAll ++ [Op.writeMeta c.full.name c.newMeta]
        ++ (if c.verify then [Op.verifyDb c.full.name] else []) ++ [Op.rename c.full.name c.newName])
      (mk c oth (.post crc k sel m none) pl pt) = .ok (mk c oth (.renamed (finalDw c)) pl pt) := by
  simp only [execOps_append, List.singleton_append, execOps, exec_crc]
  have hr := exec_rms g oth (some c.dF) m none pl pt c.R 0 k sel rfl (Nat.zero_le _)
  rw [hr]
  simp only [exec_wm]
  unfold finalDw
  cases c.verify with
  | false =>
    simp only [Bool.false_eq_true, if_false, execOps]
    rw [exec_mv g oth _ _ _ pl pt (Nat.le_refl _)]
  | true =>
    simp only [if_true, execOps, exec_vf]
    rw [exec_mv g oth _ _ _ pl pt (Nat.le_refl _)]
    rfl

theorem plan_eq (c : Ctx D) :
    c.plan = [Op.checkpoint c.full.name c.W] ++ ([Op.calcCrc c.full.name] ++ c.R.map Op.removeAll
        ++ [Op.writeMeta c.full.name c.newMeta]
        ++ (if c.verify then [Op.verifyDb c.full.name] else []) ++ [Op.rename c.full.name c.newName]) := by
  simp [Ctx.plan, ← R_map]

/-- T1: from every consistent progress state short of the rename, the plan runs to the final state -/
theorem exec_plan {c : Ctx D} (g : Good c) (oth pl pt) (p : Prog D) (hp : ProgOK c p) (hr : p.isRenamed = false) :
    execOps c.A c.plan (mk c oth p pl pt) = .ok (mk c oth (.renamed (finalDw c)) pl pt) := by
  rw [plan_eq, execOps_append]
  cases p with
  | ckpt cons x dw =>
    simp only [List.singleton_append, execOps, exec_ck_ckpt g oth cons x dw pl pt hp, ckpt_eq_post]
    exact exec_tail g oth _ _ _ _ pl pt
  | post crc k sel m dw =>
    simp only [List.singleton_append, execOps, exec_ck_post g oth crc k sel m dw pl pt hp]
    exact exec_tail g oth _ _ _ _ pl pt
  | renamed dw => cases hr


/-! ### interrupted operations -/

/-- the family of states: some consistent progress descriptor -/
def InFam (c : Ctx D) (oth : Nat → Option (Dir D)) (pl : Option (List Op)) (pt : Bool) (s : FS D) : Prop :=
  ∃ p, s = mk c oth p pl pt ∧ ProgOK c p

theorem inFam_mk {c : Ctx D} {oth pl pt} (p : Prog D) (h : ProgOK c p) : InFam c oth pl pt (mk c oth p pl pt) :=
  ⟨p, rfl, h⟩

theorem ckptLoopCut_ckpt {c : Ctx D} (g : Good c) (oth pl pt) (stage : Nat) :
    ∀ (rest cons : List (Nat × Nat)) (j : Nat), c.W = cons ++ rest →
      InFam c oth pl pt (ckptLoopCut c.A c.full.name rest j stage (mk c oth (.ckpt cons (c.fold cons) none) pl pt)) := by
  intro rest
  induction rest with
  | nil =>
    intro cons j h
    simp only [ckptLoopCut]
    exact inFam_mk _ ⟨⟨[], h⟩, rfl⟩
  | cons p r ih =>
    intro cons j h
    have hp : p ∈ c.W := by rw [h]; simp
    have hW' : c.W = (cons ++ [p]) ++ r := by rw [h]; simp
    cases j with
    | zero =>
      simp only [ckptLoopCut]
      split
      · exact inFam_mk _ ⟨⟨p :: r, h⟩, rfl⟩
      · split
        · rw [moveWal_ckpt g oth cons _ none pl pt hp]
          exact inFam_mk _ ⟨⟨r, hW'⟩, (fold_snoc c cons p).symm⟩
        · rw [moveWal_ckpt g oth cons _ none pl pt hp, ckptApplyOnly_ckpt]
          refine inFam_mk _ ⟨⟨r, hW'⟩, ?_⟩
          show c.A.apply (c.A.apply (c.fold cons) p.2) p.2 = c.fold (cons ++ [p])
          rw [g.laws.idem, fold_snoc]
    | succ j =>
      simp only [ckptLoopCut]
      rw [moveWal_ckpt g oth cons _ none pl pt hp, ckptRemove_ckpt]
      simp only
      rw [← fold_snoc]
      exact ih (cons ++ [p]) j hW'

theorem partial_ck_ckpt {c : Ctx D} (g : Good c) (oth cons x dw pl pt) (h : CkOK c cons x dw) (cut : OpCut) :
    InFam c oth pl pt (partialOp c.A (mk c oth (.ckpt cons x dw) pl pt) (.checkpoint c.full.name c.W) cut) := by
  cases cut with
  | none => exact inFam_mk _ h
  | rm sel => exact inFam_mk _ h
  | trunc => exact inFam_mk _ h
  | ckpt lo j stage =>
    obtain ⟨⟨rest, hW⟩, hx⟩ := h
    simp only [partialOp, hasLeftover_ckpt]
    have key : InFam c oth pl pt
        (let ex := c.W.filter (walExists (mk c oth (.ckpt cons (c.fold cons) none) pl pt))
         if ex.isEmpty then mk c oth (.ckpt cons (c.fold cons) none) pl pt
         else if !hasDb (mk c oth (.ckpt cons (c.fold cons) none) pl pt) c.full.name then
           mk c oth (.ckpt cons (c.fold cons) none) pl pt
         else ckptLoopCut c.A c.full.name ex j stage (mk c oth (.ckpt cons (c.fold cons) none) pl pt)) := by
      simp only [ckpt_filter g oth cons rest _ none pl pt hW, hasDb_ckpt]
      cases rest with
      | nil => exact inFam_mk _ ⟨⟨[], hW⟩, rfl⟩
      | cons p r =>
        simp only [List.isEmpty_cons, Bool.false_eq_true, if_false, Bool.not_true]
        exact ckptLoopCut_ckpt g oth pl pt stage (p :: r) cons j hW
    cases dw with
    | none =>
      simp only [Option.isSome_none, Bool.false_and, Bool.false_eq_true, if_false]
      simp only at hx
      rw [hx]
      exact key
    | some w =>
      simp only at hx
      cases lo with
      | true =>
        simp only [Option.isSome_some, Bool.and_self, if_true, ckptApplyOnly_ckpt]
        refine inFam_mk _ ⟨⟨rest, hW⟩, ?_⟩
        show c.A.apply (c.A.apply x w) w = c.fold cons
        rw [g.laws.idem, hx]
      | false =>
        simp only [Option.isSome_some, Bool.and_false, Bool.false_eq_true, if_false, if_true, ckptRemove_ckpt, hx]
        exact key



theorem partial_ck_post {c : Ctx D} (g : Good c) (oth crc k sel m dw pl pt) (hdw : dw = none ∨ dw = some 0)
    (cut : OpCut) :
    InFam c oth pl pt (partialOp c.A (mk c oth (.post crc k sel m dw) pl pt) (.checkpoint c.full.name c.W) cut) := by
  cases cut with
  | none => exact inFam_mk _ hdw
  | rm sel => exact inFam_mk _ hdw
  | trunc => exact inFam_mk _ hdw
  | ckpt lo j stage =>
    have hl : hasLeftover (mk c oth (.post crc k sel m dw) pl pt) c.full.name = dw.isSome := by
      simp [hasLeftover, mk, mkDir]
    have hfil : c.W.filter (walExists (mk c oth (.post crc k sel m none) pl pt)) = [] := by
      rw [List.filter_eq_nil_iff]
      intro p hp
      simp [walExists_post g oth crc k sel m none pl pt hp]
    simp only [partialOp, hl]
    rcases hdw with rfl | rfl
    · simp only [Option.isSome_none, Bool.false_and, Bool.false_eq_true, if_false, hfil, List.isEmpty_nil, if_true]
      exact inFam_mk _ (Or.inl rfl)
    · have hrm : ckptRemove c.A (mk c oth (.post crc k sel m (some 0)) pl pt) c.full.name
          = .ok (mk c oth (.post crc k sel m none) pl pt) := by
        simp only [ckptRemove, mk, mkDir, if_true, g.laws.zero]
        congr 1
        apply FS.ext' <;> simp [FS.set, mkNames]
        intro n
        by_cases h : n = c.full.name <;> simp [h, mkDir]
      have hap : ckptApplyOnly c.A (mk c oth (.post crc k sel m (some 0)) pl pt) c.full.name
          = mk c oth (.post crc k sel m (some 0)) pl pt := by
        simp only [ckptApplyOnly, FS.modify, mk, mkDir, if_true, g.laws.zero]
        apply FS.ext' <;> simp [FS.set, mkNames]
        simp [mkDir]
      cases lo with
      | true =>
        simp only [Option.isSome_some, Bool.and_self, if_true, hap]
        exact inFam_mk _ (Or.inr rfl)
      | false =>
        simp only [Option.isSome_some, Bool.and_false, Bool.false_eq_true, if_false, if_true, hrm, hfil,
          List.isEmpty_nil]
        exact inFam_mk _ (Or.inl rfl)

theorem partial_crc_post {c : Ctx D} (oth crc k sel m dw pl pt) (hdw : dw = none ∨ dw = some 0) (cut : OpCut) :
    InFam c oth pl pt (partialOp c.A (mk c oth (.post crc k sel m dw) pl pt) (.calcCrc c.full.name) cut) := by
  cases cut with
  | none => exact inFam_mk _ hdw
  | rm sel => exact inFam_mk _ hdw
  | ckpt _ _ _ => exact inFam_mk _ hdw
  | trunc =>
    have : partialOp c.A (mk c oth (.post crc k sel m dw) pl pt) (.calcCrc c.full.name) .trunc
        = mk c oth (.post none k sel m dw) pl pt := by
      simp only [partialOp, FS.modify, mk, mkDir, if_true]
      apply FS.ext' <;> simp [FS.set, mkNames]
      intro n
      by_cases h : n = c.full.name <;> simp [h, mkDir]
    rw [this]
    exact inFam_mk (.post none k sel m dw) hdw

theorem partial_wm_post {c : Ctx D} (oth crc k sel m dw pl pt) (nm : Meta) (hdw : dw = none ∨ dw = some 0)
    (cut : OpCut) :
    InFam c oth pl pt (partialOp c.A (mk c oth (.post crc k sel m dw) pl pt) (.writeMeta c.full.name nm) cut) := by
  cases cut with
  | none => exact inFam_mk _ hdw
  | rm sel => exact inFam_mk _ hdw
  | ckpt _ _ _ => exact inFam_mk _ hdw
  | trunc =>
    have : partialOp c.A (mk c oth (.post crc k sel m dw) pl pt) (.writeMeta c.full.name nm) .trunc
        = mk c oth (.post crc k sel none dw) pl pt := by
      simp only [partialOp, FS.modify, mk, mkDir, if_true]
      apply FS.ext' <;> simp [FS.set, mkNames]
      intro n
      by_cases h : n = c.full.name <;> simp [h, mkDir]
    rw [this]
    exact inFam_mk (.post crc k sel none dw) hdw

/-- composition of two interrupted RemoveAlls -/
def Sel.comp (a b : Sel) : Sel :=
  { mt := a.mt && b.mt, db := a.db && b.db, crc := a.crc && b.crc, dbWal := a.dbWal && b.dbWal,
    wals := b.wals.filter fun w => a.wals.contains w }

theorem Sel.apply_apply (a b : Sel) (d : Dir D) : a.apply (b.apply d) = (Sel.comp a b).apply d := by
  obtain ⟨a1, a2, a3, a4, a5⟩ := a
  obtain ⟨b1, b2, b3, b4, b5⟩ := b
  simp only [Sel.apply, Sel.comp]
  congr 1
  · cases a1 <;> cases b1 <;> rfl
  · cases a2 <;> cases b2 <;> rfl
  · cases a3 <;> cases b3 <;> rfl
  · cases a4 <;> cases b4 <;> rfl
  · rw [List.filter_filter]
    apply List.filter_congr
    intro w _
    simp [List.mem_filter, Bool.and_comm]

/-- in `post`, a name of `R` maps to `rmView` of a base that does not depend on the progress -/
theorem post_R' {c : Ctx D} (g : Good c) (oth) {n : Nat} (h : n ∈ c.R) :
    ∃ base, ∀ crc k sel m dw, mkDir c oth (.post crc k sel m dw) n = rmView c k sel n base := by
  have hf : n ≠ c.full.name := fun e => g.full_not_R (e ▸ h)
  cases h1 : findSnap c.newers n with
  | some y =>
    exact ⟨{ tmp := false, mt := some y.mt, db := y.db, crc := y.crc, dbWal := none, wals := [] },
      fun crc k sel m dw => by simp only [mkDir, hf, if_false, h1]⟩
  | none =>
    cases h2 : findSnap c.olds n with
    | some y => exact ⟨oldDirOf c y, fun crc k sel m dw => by simp only [mkDir, hf, if_false, h1, h2]⟩
    | none =>
      exfalso
      rw [mem_R_iff] at h
      rcases h with ⟨y, hy, e⟩ | ⟨y, hy, e⟩
      · exact findSnap_none h1 y hy e
      · exact findSnap_none h2 y hy e

/-- names other than `n` do not see a change of the cut at `n`'s position -/
theorem post_other {c : Ctx D} (oth crc k sel sel' m dw) {n n' : Nat} (hn : n ∈ c.R) (hk : c.R.idxOf n = k)
    (hne : n' ≠ n) :
    mkDir c oth (.post crc k sel m dw) n' = mkDir c oth (.post crc k sel' m dw) n' := by
  by_cases hf : n' = c.full.name
  · simp [mkDir, hf]
  · have hne' : c.R.idxOf n' ≠ k := by
      intro e
      exact hne (idxOf_inj hn (hk.trans e.symm)).symm
    simp only [mkDir, hf, if_false, rmView, hne']

theorem partial_rm_post {c : Ctx D} (g : Good c) (oth crc k sel m dw pl pt) (hdw : dw = none ∨ dw = some 0)
    {n : Nat} (hn : n ∈ c.R) (hk : c.R.idxOf n ≤ k) (cut : OpCut) :
    InFam c oth pl pt (partialOp c.A (mk c oth (.post crc k sel m dw) pl pt) (.removeAll n) cut) := by
  cases cut with
  | none => exact inFam_mk _ hdw
  | trunc => exact inFam_mk _ hdw
  | ckpt _ _ _ => exact inFam_mk _ hdw
  | rm sl =>
    simp only [partialOp, FS.modify]
    obtain ⟨base, hb⟩ := post_R' g oth hn
    rcases Nat.lt_or_ge (c.R.idxOf n) k with h | h
    · have : (mk c oth (.post crc k sel m dw) pl pt).dir n = none := by
        simp [mk, hb, rmView, h]
      simp only [this]
      exact inFam_mk _ hdw
    · have hke : c.R.idxOf n = k := by omega
      cases sel with
      | none =>
        have hdir : (mk c oth (.post crc k none m dw) pl pt).dir n = some base := by
          simp [mk, hb, rmView, hke]
        simp only [hdir]
        have : (mk c oth (.post crc k none m dw) pl pt).set n (some (sl.apply base))
            = mk c oth (.post crc k (some sl) m dw) pl pt := by
          apply FS.ext' <;> simp [FS.set, mk, mkNames]
          intro n'
          by_cases h' : n' = n
          · subst h'; simp [hb, rmView, hke]
          · simp only [h', if_false]
            exact post_other oth crc k none (some sl) m dw hn hke h'
        rw [this]
        exact inFam_mk (.post crc k (some sl) m dw) hdw
      | some s0 =>
        have hdir : (mk c oth (.post crc k (some s0) m dw) pl pt).dir n = some (s0.apply base) := by
          simp [mk, hb, rmView, hke]
        simp only [hdir]
        have : (mk c oth (.post crc k (some s0) m dw) pl pt).set n (some (sl.apply (s0.apply base)))
            = mk c oth (.post crc k (some (Sel.comp sl s0)) m dw) pl pt := by
          apply FS.ext' <;> simp [FS.set, mk, mkNames]
          intro n'
          by_cases h' : n' = n
          · subst h'; simp [hb, rmView, hke, Sel.apply_apply]
          · simp only [h', if_false]
            exact post_other oth crc k (some s0) (some (Sel.comp sl s0)) m dw hn hke h'
        rw [this]
        exact inFam_mk (.post crc k (some (Sel.comp sl s0)) m dw) hdw


/-! ### crash inside the plan -/

theorem runCut_append_ok (A : DbAlg D) (a b : List Op) (cut : OpCut) :
    ∀ (k : Nat) (s s' : FS D), execOps A a s = .ok s' →
      runCut A (a ++ b) k cut s = if k < a.length then runCut A a k cut s else runCut A b (k - a.length) cut s' := by
  induction a with
  | nil =>
    intro k s s' h
    simp only [execOps, Except.ok.injEq] at h
    simp [h]
  | cons o a ih =>
    intro k s s' h
    simp only [execOps] at h
    cases h1 : execOp A s o with
    | error e => rw [h1] at h; cases h
    | ok s1 =>
      rw [h1] at h
      cases k with
      | zero => simp [runCut]
      | succ k =>
        simp only [List.cons_append, runCut, h1, List.length_cons, Nat.add_lt_add_iff_right, Nat.add_sub_add_right]
        exact ih k s1 s' h

theorem runCut_nil (A : DbAlg D) (k cut) (s : FS D) : runCut A [] k cut s = s := by
  cases k <;> rfl

theorem runCut_rms {c : Ctx D} (g : Good c) (oth crc m dw pl pt) (hdw : dw = none ∨ dw = some 0) (cut : OpCut) :
    ∀ (l : List Nat) (i k : Nat) (sel : Option Sel) (j : Nat), c.R.drop i = l → i ≤ k →
      InFam c oth pl pt (runCut c.A (l.map Op.removeAll) j cut (mk c oth (.post crc k sel m dw) pl pt)) := by
  intro l
  induction l with
  | nil =>
    intro i k sel j _ _
    simp only [List.map_nil, runCut_nil]
    exact inFam_mk _ hdw
  | cons n l ih =>
    intro i k sel j hd hik
    have hi : i < c.R.length := by
      rcases Nat.lt_or_ge i c.R.length with h | h
      · exact h
      · rw [List.drop_eq_nil_of_le h] at hd; cases hd
    rw [List.drop_eq_getElem_cons hi] at hd
    simp only [List.cons.injEq] at hd
    obtain ⟨hn, hl⟩ := hd
    have hmem : n ∈ c.R := hn ▸ List.getElem_mem hi
    have hidx : c.R.idxOf n = i := hn ▸ List.Nodup.idxOf_getElem g.R_nodup i hi
    cases j with
    | zero =>
      simp only [List.map_cons, runCut]
      exact partial_rm_post g oth crc k sel m dw pl pt hdw hmem (by omega) cut
    | succ j =>
      simp only [List.map_cons, runCut]
      rcases Nat.lt_or_ge i k with h | h
      · rw [exec_rm_gone g oth crc k sel m dw pl pt hmem (hidx ▸ h)]
        exact ih (i + 1) k sel j hl (by omega)
      · have : i = k := by omega
        rw [exec_rm_at g oth crc k sel m dw pl pt hmem (hidx.trans this)]
        exact ih (i + 1) (k + 1) none j hl (by omega)

/-- T2 (tail): crash anywhere in the plan after the checkpoint operation -/
theorem runCut_tail {c : Ctx D} (g : Good c) (oth crc k sel m pl pt) (j : Nat) (cut : OpCut) :
    InFam c oth pl pt (runCut c.A ([Op.calcCrc c.full.name] ++ (c.R.map Op.removeAll ++ ([Op.writeMeta c.full.name c.newMeta]
        ++ ((if c.verify then [Op.verifyDb c.full.name] else []) ++ [Op.rename c.full.name c.newName]))))
      j cut (mk c oth (.post crc k sel m none) pl pt)) := by
  have hn : (none : Option Nat) = none ∨ (none : Option Nat) = some 0 := Or.inl rfl
  rw [runCut_append_ok _ _ _ _ _ _ _ (by simp only [execOps, exec_crc]; rfl)]
  split
  · -- inside CalcCRC32
    rename_i hj
    have : j = 0 := by simpa using hj
    subst this
    simp only [runCut]
    exact partial_crc_post oth crc k sel m none pl pt hn cut
  · rw [runCut_append_ok _ _ _ _ _ _ _ (exec_rms g oth (some c.dF) m none pl pt c.R 0 k sel rfl (Nat.zero_le _))]
    split
    · exact runCut_rms g oth (some c.dF) m none pl pt hn cut c.R 0 k sel _ rfl (Nat.zero_le _)
    · rw [runCut_append_ok _ _ _ _ _ _ _ (by simp only [execOps, exec_wm]; rfl)]
      split
      · rename_i hj
        have : j - [Op.calcCrc c.full.name].length - (c.R.map Op.removeAll).length = 0 := by simpa using hj
        rw [this]
        simp only [runCut]
        exact partial_wm_post oth _ _ _ _ none pl pt _ hn cut
      · cases hv : c.verify with
        | false =>
          simp only [Bool.false_eq_true, if_false, List.nil_append]
          generalize j - [Op.calcCrc c.full.name].length - (c.R.map Op.removeAll).length
            - [Op.writeMeta c.full.name c.newMeta].length = j'
          cases j' with
          | zero =>
            simp only [runCut]
            cases cut <;> exact inFam_mk _ hn
          | succ j' =>
            simp only [runCut, exec_mv g oth _ _ _ pl pt (Nat.le_refl _), runCut_nil]
            exact inFam_mk (.renamed none) hn
        | true =>
          simp only [if_true, List.singleton_append]
          generalize j - [Op.calcCrc c.full.name].length - (c.R.map Op.removeAll).length
            - [Op.writeMeta c.full.name c.newMeta].length = j'
          cases j' with
          | zero =>
            simp only [runCut]
            cases cut <;> exact inFam_mk _ hn
          | succ j' =>
            simp only [runCut, exec_vf]
            cases j' with
            | zero =>
              simp only [runCut]
              cases cut <;> exact inFam_mk (.post _ _ _ _ (some 0)) (Or.inr rfl)
            | succ j' =>
              simp only [runCut, exec_mv g oth _ _ _ pl pt (Nat.le_refl _), runCut_nil]
              exact inFam_mk (.renamed (some 0)) (Or.inr rfl)



theorem plan_eq' (c : Ctx D) :
    c.plan = [Op.checkpoint c.full.name c.W] ++ ([Op.calcCrc c.full.name] ++ (c.R.map Op.removeAll
        ++ ([Op.writeMeta c.full.name c.newMeta]
        ++ ((if c.verify then [Op.verifyDb c.full.name] else []) ++ [Op.rename c.full.name c.newName])))) := by
  simp [Ctx.plan, ← R_map]

/-- T2: a crash anywhere in the plan, started from any consistent progress state, leaves a
consistent progress state -/
theorem runCut_plan {c : Ctx D} (g : Good c) (oth pl pt) (p : Prog D) (hp : ProgOK c p) (hr : p.isRenamed = false)
    (j : Nat) (cut : OpCut) :
    InFam c oth pl pt (runCut c.A c.plan j cut (mk c oth p pl pt)) := by
  rw [plan_eq']
  cases p with
  | renamed dw => cases hr
  | ckpt cons x dw =>
    rw [runCut_append_ok _ _ _ _ _ _ _ (by simp only [execOps, exec_ck_ckpt g oth cons x dw pl pt hp]; rfl)]
    split
    · rename_i hj
      have : j = 0 := by simpa using hj
      subst this
      simp only [runCut]
      exact partial_ck_ckpt g oth cons x dw pl pt hp cut
    · rw [ckpt_eq_post]
      exact runCut_tail g oth _ _ _ _ pl pt _ cut
  | post crc k sel m dw =>
    rw [runCut_append_ok _ _ _ _ _ _ _ (by simp only [execOps, exec_ck_post g oth crc k sel m dw pl pt hp]; rfl)]
    split
    · rename_i hj
      have : j = 0 := by simpa using hj
      subst this
      simp only [runCut]
      exact partial_ck_post g oth crc k sel m dw pl pt hp cut
    · exact runCut_tail g oth _ _ _ _ pl pt _ cut

theorem getLast?_append_singleton {α} (l : List α) (a : α) : (l ++ [a]).getLast? = some a := by
  simp

theorem plan_getLast (c : Ctx D) : c.plan.getLast? = some (Op.rename c.full.name c.newName) := by
  unfold Ctx.plan
  exact getLast?_append_singleton _ _

theorem lastOpDone_plan {c : Ctx D} (g : Good c) (oth pl pt) (p : Prog D) :
    lastOpDone (mk c oth p pl pt) c.plan = p.isRenamed := by
  have hnf := g.new_ne_full
  have hnR := find_not_R g.new_not_R
  simp only [lastOpDone, plan_getLast, opDone, mk]
  cases p with
  | ckpt cons x dw => simp [mkDir, Prog.isRenamed]
  | post crc k sel m dw => simp [mkDir, Prog.isRenamed]
  | renamed dw => simp [mkDir, Prog.isRenamed, hnf, hnR.1, hnR.2]

/-- every directory that is not a snapshot of the catalog is temporary -/
def TmpOnly (oth : Nat → Option (Dir D)) : Prop := ∀ n d, oth n = some d → d.tmp = true

theorem rmView_tmp (c : Ctx D) (k sel n) (base : Dir D) (hb : base.tmp = false) {d : Dir D}
    (h : rmView c k sel n base = some d) : d.tmp = false := by
  unfold rmView at h
  split at h
  · cases h
  · split at h
    · cases sel with
      | none => simp only [Option.some.injEq] at h; rw [← h, hb]
      | some sl => simp only [Option.some.injEq] at h; rw [← h]; simp [Sel.apply, hb]
    · simp only [Option.some.injEq] at h; rw [← h, hb]

/-- a name either belongs to `oth` in every progress state, or to the catalog (never temporary) -/
theorem mkDir_cases (c : Ctx D) (p : Prog D) (n : Nat) :
    (∀ oth, mkDir c oth p n = oth n) ∨
    ((∀ oth oth', mkDir c oth p n = mkDir c oth' p n) ∧ ∀ oth d, mkDir c oth p n = some d → d.tmp = false) := by
  by_cases hf : n = c.full.name
  · right
    refine ⟨fun oth oth' => by cases p <;> simp [mkDir, hf], ?_⟩
    intro oth d hd
    cases p <;> simp only [mkDir, hf, if_true] at hd
    · cases hd; rfl
    · cases hd; rfl
    · cases hd
  · cases p with
    | ckpt cons x dw =>
      simp only [mkDir, hf, if_false]
      cases findSnap c.newers n with
      | some y => right; exact ⟨fun _ _ => rfl, fun _ d hd => by cases hd; rfl⟩
      | none =>
        cases findSnap c.olds n with
        | some y => right; exact ⟨fun _ _ => rfl, fun _ d hd => by cases hd; rfl⟩
        | none =>
          by_cases hn : n = c.newName
          · right; exact ⟨fun _ _ => by simp [hn], fun _ d hd => by simp [hn] at hd⟩
          · left; intro oth; simp [hn]
    | post crc k sel m dw =>
      simp only [mkDir, hf, if_false]
      cases findSnap c.newers n with
      | some y => right; exact ⟨fun _ _ => rfl, fun _ d hd => rmView_tmp c k sel n _ rfl hd⟩
      | none =>
        cases findSnap c.olds n with
        | some y => right; exact ⟨fun _ _ => rfl, fun _ d hd => rmView_tmp c k sel n _ rfl hd⟩
        | none =>
          by_cases hn : n = c.newName
          · right; exact ⟨fun _ _ => by simp [hn], fun _ d hd => by simp [hn] at hd⟩
          · left; intro oth; simp [hn]
    | renamed dw =>
      simp only [mkDir, hf, if_false]
      cases findSnap c.newers n with
      | some y => right; exact ⟨fun _ _ => rfl, fun _ d hd => by cases hd⟩
      | none =>
        cases findSnap c.olds n with
        | some y => right; exact ⟨fun _ _ => rfl, fun _ d hd => by cases hd⟩
        | none =>
          by_cases hn : n = c.newName
          · right
            exact ⟨fun _ _ => by simp [hn], fun _ d hd => by simp only [hn, if_true] at hd; cases hd; rfl⟩
          · left; intro oth; simp [hn]

def noOth : Nat → Option (Dir D) := fun _ => none

theorem rmTmpDirs_mk (c : Ctx D) (oth pl pt) (p : Prog D) (ht : TmpOnly oth) :
    rmTmpDirs (mk c oth p pl pt) = mk c noOth p pl pt := by
  apply FS.ext' <;> simp [rmTmpDirs, mk]
  intro n
  rcases mkDir_cases c p n with h | ⟨h1, h2⟩
  · rw [h oth, h noOth]
    cases ho : oth n with
    | none => rfl
    | some d => simp [ht n d ho, noOth]
  · rw [h1 noOth oth]
    cases hm : mkDir c oth p n with
    | none => rfl
    | some d => simp [h2 oth d hm]

/-- the temporary directories after an interrupted clean-up -/
def cutOth (oth : Nat → Option (Dir D)) (gone : List Nat) (pn : Nat) (sel : Sel) : Nat → Option (Dir D) :=
  fun n =>
    match oth n with
    | some d => if gone.contains n then none else if n = pn then some (sel.apply d) else some d
    | none => none

theorem cutOth_tmpOnly {oth : Nat → Option (Dir D)} (ht : TmpOnly oth) (gone pn sel) :
    TmpOnly (cutOth oth gone pn sel) := by
  intro n d hd
  unfold cutOth at hd
  cases ho : oth n with
  | none => simp [ho] at hd
  | some d0 =>
    have := ht n d0 ho
    simp only [ho] at hd
    split at hd
    · cases hd
    · split at hd
      · cases hd; simp [Sel.apply, this]
      · cases hd; exact this

theorem rmTmpDirsCut_mk (c : Ctx D) (oth pl pt) (p : Prog D) (ht : TmpOnly oth) (gone pn sel) :
    rmTmpDirsCut (mk c oth p pl pt) gone pn sel = mk c (cutOth oth gone pn sel) p pl pt := by
  apply FS.ext' <;> simp [rmTmpDirsCut, mk]
  intro n
  rcases mkDir_cases c p n with h | ⟨h1, h2⟩
  · rw [h oth, h (cutOth oth gone pn sel)]
    unfold cutOth
    cases ho : oth n with
    | none => rfl
    | some d => simp [ht n d ho]
  · rw [h1 (cutOth oth gone pn sel) oth]
    cases hm : mkDir c oth p n with
    | none => rfl
    | some d => simp [h2 oth d hm]

def dwOK (dw : Option Nat) : Prop := dw = none ∨ dw = some 0

theorem check_mk (c : Ctx D) (oth pl pt) (p : Prog D) :
    check c.A (mk c oth p pl pt) =
      match pl with
      | none => .ok (rmTmpDirs (mk c oth p none false))
      | some q =>
        if lastOpDone (mk c oth p (some q) false) q then .ok (rmTmpDirs (mk c oth p none false))
        else
          match execOps c.A q (mk c oth p (some q) false) with
          | .ok s' => .ok (rmTmpDirs { s' with plan := none })
          | .error e => .error e := by
  cases pl <;> rfl

/-- T3: an uninterrupted recovery from any consistent progress state -/
theorem check_fam {c : Ctx D} (g : Good c) (oth pt) (p : Prog D) (hp : ProgOK c p) (ht : TmpOnly oth) :
    ∃ dw, dwOK dw ∧ check c.A (mk c oth p (some c.plan) pt) = .ok (mk c noOth (.renamed dw) none false) := by
  rw [check_mk]
  simp only [lastOpDone_plan g]
  cases hr : p.isRenamed with
  | true =>
    cases p with
    | renamed dw =>
      refine ⟨dw, hp, ?_⟩
      simp only [if_true]
      rw [rmTmpDirs_mk _ _ _ _ _ ht]
    | ckpt _ _ _ => cases hr
    | post _ _ _ _ _ => cases hr
  | false =>
    refine ⟨finalDw c, by unfold finalDw dwOK; cases c.verify <;> simp, ?_⟩
    simp only [Bool.false_eq_true, if_false, exec_plan g oth _ _ p hp hr]
    have : ({ mk c oth (.renamed (finalDw c)) (some c.plan) false with plan := none } : FS D)
        = mk c oth (.renamed (finalDw c)) none false := rfl
    rw [this, rmTmpDirs_mk _ _ _ _ _ ht]

theorem check_noplan (c : Ctx D) (oth pt) (p : Prog D) (ht : TmpOnly oth) :
    check c.A (mk c oth p none pt) = .ok (mk c noOth p none false) := by
  rw [check_mk]
  simp only [rmTmpDirs_mk _ _ _ _ _ ht]


/-! ### reachable states -/

/-- the states a crashed reap followed by crashed recoveries can leave (p0: the state before the reap) -/
inductive Reach (c : Ctx D) (p0 : Prog D) : FS D → Prop
  | fam (oth pt p) : TmpOnly oth → ProgOK c p → Reach c p0 (mk c oth p (some c.plan) pt)
  | noplan (oth pt p) : TmpOnly oth → (p = p0 ∨ ∃ dw, dwOK dw ∧ p = .renamed dw) → Reach c p0 (mk c oth p none pt)

theorem inFam_reach {c : Ctx D} {p0 : Prog D} {oth pt s} (ht : TmpOnly oth) (h : InFam c oth (some c.plan) pt s) :
    Reach c p0 s := by
  obtain ⟨p, rfl, hp⟩ := h
  exact .fam oth pt p ht hp

theorem recCrash_mk (c : Ctx D) (oth pl pt) (p : Prog D) (cut : RecCut) :
    recCrash c.A (mk c oth p pl pt) cut =
      match cut with
      | .atStart => mk c oth p pl pt
      | .tmpRemoved => mk c oth p pl false
      | .inPlan k oc =>
        match pl with
        | none => mk c oth p none false
        | some q => if lastOpDone (mk c oth p (some q) false) q then mk c oth p (some q) false
                    else runCut c.A q k oc (mk c oth p (some q) false)
      | .planDone =>
        match pl with
        | none => mk c oth p none false
        | some q => if lastOpDone (mk c oth p (some q) false) q then mk c oth p (some q) false
                    else runCut c.A q q.length .none (mk c oth p (some q) false)
      | .tmpDirs gone pn sel =>
        match check c.A (mk c oth p pl pt) with
        | .error _ => mk c oth p pl pt
        | .ok _ =>
          rmTmpDirsCut
            (match pl with
             | none => mk c oth p none false
             | some q =>
               if lastOpDone (mk c oth p (some q) false) q then mk c oth p none false
               else
                 match execOps c.A q (mk c oth p (some q) false) with
                 | .ok s' => { s' with plan := none }
                 | .error _ => mk c oth p (some q) false) gone pn sel := by
  cases cut <;> cases pl <;> rfl

/-- T4: an interrupted recovery keeps the state in the family -/
theorem recCrash_reach {c : Ctx D} (g : Good c) {p0 : Prog D} {s : FS D} (h : Reach c p0 s) (cut : RecCut) :
    Reach c p0 (recCrash c.A s cut) := by
  cases h with
  | fam oth pt p ht hp =>
    rw [recCrash_mk]
    cases cut with
    | atStart => exact .fam oth pt p ht hp
    | tmpRemoved => exact .fam oth false p ht hp
    | inPlan k oc =>
      simp only [lastOpDone_plan g]
      cases hr : p.isRenamed with
      | true => simp only [if_true]; exact .fam oth false p ht hp
      | false =>
        simp only [Bool.false_eq_true, if_false]
        exact inFam_reach ht (runCut_plan g oth _ _ p hp hr k oc)
    | planDone =>
      simp only [lastOpDone_plan g]
      cases hr : p.isRenamed with
      | true => simp only [if_true]; exact .fam oth false p ht hp
      | false =>
        simp only [Bool.false_eq_true, if_false]
        exact inFam_reach ht (runCut_plan g oth _ _ p hp hr _ _)
    | tmpDirs gone pn sel =>
      obtain ⟨dw, hdw, hc⟩ := check_fam g oth pt p hp ht
      simp only [hc, lastOpDone_plan g]
      cases hr : p.isRenamed with
      | true =>
        simp only [if_true]
        rw [rmTmpDirsCut_mk _ _ _ _ _ ht]
        cases p with
        | renamed dw' => exact .noplan _ false _ (cutOth_tmpOnly ht _ _ _) (Or.inr ⟨dw', hp, rfl⟩)
        | ckpt _ _ _ => cases hr
        | post _ _ _ _ _ => cases hr
      | false =>
        simp only [Bool.false_eq_true, if_false, exec_plan g oth _ _ p hp hr]
        have : ({ mk c oth (.renamed (finalDw c)) (some c.plan) false with plan := none } : FS D)
            = mk c oth (.renamed (finalDw c)) none false := rfl
        rw [this, rmTmpDirsCut_mk _ _ _ _ _ ht]
        refine .noplan _ false _ (cutOth_tmpOnly ht _ _ _) (Or.inr ⟨finalDw c, ?_, rfl⟩)
        unfold finalDw dwOK; cases c.verify <;> simp
  | noplan oth pt p ht hp =>
    rw [recCrash_mk]
    cases cut with
    | atStart => exact .noplan oth pt p ht hp
    | tmpRemoved => exact .noplan oth false p ht hp
    | inPlan k oc => exact .noplan oth false p ht hp
    | planDone => exact .noplan oth false p ht hp
    | tmpDirs gone pn sel =>
      simp only [check_noplan c oth pt p ht]
      rw [rmTmpDirsCut_mk _ _ _ _ _ ht]
      exact .noplan _ false p (cutOth_tmpOnly ht _ _ _) hp

theorem noOth_tmpOnly : TmpOnly (noOth : Nat → Option (Dir D)) := by
  intro n d h; cases h

/-- the uninterrupted recovery from any reachable state -/
theorem check_reach {c : Ctx D} (g : Good c) {p0 : Prog D} {s : FS D} (h : Reach c p0 s) :
    ∃ p, (p = p0 ∨ ∃ dw, dwOK dw ∧ p = .renamed dw) ∧ check c.A s = .ok (mk c noOth p none false) := by
  cases h with
  | fam oth pt p ht hp =>
    obtain ⟨dw, hdw, hc⟩ := check_fam g oth pt p hp ht
    exact ⟨.renamed dw, Or.inr ⟨dw, hdw, rfl⟩, hc⟩
  | noplan oth pt p ht hp => exact ⟨p, hp, check_noplan c oth pt p ht⟩

theorem foldl_recCrash_reach {c : Ctx D} (g : Good c) {p0 : Prog D} (cuts : List RecCut) :
    ∀ {s : FS D}, Reach c p0 s → Reach c p0 (cuts.foldl (recCrash c.A) s) := by
  induction cuts with
  | nil => intro s h; exact h
  | cons cut cuts ih => intro s h; exact ih (recCrash_reach g h cut)


/-! ### the store before the reap -/

theorem splitLastFull_inc (l : List (Snap D)) (h : ∀ y ∈ l, y.db = none) : splitLastFull l = none := by
  induction l with
  | nil => rfl
  | cons a l ih =>
    have h1 := ih (fun y hy => h y (List.mem_cons_of_mem _ hy))
    have h2 := h a List.mem_cons_self
    simp [splitLastFull, h1, h2]

theorem splitLastFull_split (olds : List (Snap D)) (full : Snap D) (newers : List (Snap D))
    (hf : full.db.isSome) (hn : ∀ y ∈ newers, y.db = none) :
    splitLastFull (olds ++ full :: newers) = some (olds, full, newers) := by
  induction olds with
  | nil => simp [splitLastFull, splitLastFull_inc newers hn, hf]
  | cons a l ih => simp [splitLastFull, ih]

/-- the store before the reap, in plain terms -/
structure WF (c : Ctx D) (s0 : FS D) (dw0 : Option Nat) : Prop where
  good : Good c
  names : s0.names = c.names
  noPlan : s0.plan = none
  noPlanTmp : s0.planTmp = false
  fn : s0.fullNeeded = c.fullNeeded
  scan : scan s0 = .ok c.snaps
  fullDb : c.full.db = some c.d0
  dwOk : dwOK dw0
  fullDir : s0.dir c.full.name = some { tmp := false, mt := some c.full.mt, db := some c.d0, crc := c.full.crc,
                                        dbWal := dw0, wals := c.full.wals }
  newerDir : ∀ y ∈ c.newers, s0.dir y.name = some (dirOf y)
  oldDir : ∀ y ∈ c.olds, s0.dir y.name = some (oldDirOf c y)
  others : ∀ n, n ∉ c.snaps.map (·.name) → ∀ d, s0.dir n = some d → d.tmp = true
  newDir : s0.dir c.newName = none
  newersInc : ∀ y ∈ c.newers, y.db = none

def othOf (c : Ctx D) (s0 : FS D) : Nat → Option (Dir D) :=
  fun n => if n ∈ c.snaps.map (·.name) then none else s0.dir n

def p0 (c : Ctx D) (dw0 : Option Nat) : Prog D := .ckpt [] c.d0 dw0

theorem othOf_tmpOnly {c : Ctx D} {s0 : FS D} {dw0} (w : WF c s0 dw0) : TmpOnly (othOf c s0) := by
  intro n d h
  unfold othOf at h
  split at h
  · cases h
  · exact w.others n ‹_› d h

theorem mem_snaps_iff (c : Ctx D) (n : Nat) :
    n ∈ c.snaps.map (·.name) ↔ n = c.full.name ∨ n ∈ c.R := by
  simp only [Ctx.snaps, Ctx.R, List.map_append, List.map_cons, List.mem_append, List.mem_cons]
  constructor
  · rintro (h | h | h)
    · exact Or.inr (Or.inr h)
    · exact Or.inl h
    · exact Or.inr (Or.inl h)
  · rintro (h | h | h)
    · exact Or.inr (Or.inl h)
    · exact Or.inr (Or.inr h)
    · exact Or.inl h

theorem filter_const_true (l : List Nat) : l.filter (fun _ => true) = l := by
  induction l with
  | nil => rfl
  | cons a l ih => simp [List.filter, ih]

theorem s0_eq {c : Ctx D} {s0 : FS D} {dw0} (w : WF c s0 dw0) :
    s0 = mk c (othOf c s0) (p0 c dw0) none false := by
  apply FS.ext' w.names _ w.noPlan w.noPlanTmp w.fn
  intro n
  by_cases hf : n = c.full.name
  · subst hf
    simp [mk, mkDir, p0, w.fullDir, filter_const_true]
  · simp only [mk, mkDir, p0, hf, if_false]
    cases h1 : findSnap c.newers n with
    | some y =>
      obtain ⟨hy, rfl⟩ := findSnap_mem h1
      simp [w.newerDir y hy, dirOf, filter_const_true]
    | none =>
      cases h2 : findSnap c.olds n with
      | some y =>
        obtain ⟨hy, rfl⟩ := findSnap_mem h2
        simp [w.oldDir y hy]
      | none =>
        by_cases hn : n = c.newName
        · simp [hn, w.newDir]
        · have : n ∉ c.snaps.map (·.name) := by
            rw [mem_snaps_iff, mem_R_iff]
            rintro (h | ⟨y, hy, e⟩ | ⟨y, hy, e⟩)
            · exact hf h
            · exact findSnap_none h1 y hy e
            · exact findSnap_none h2 y hy e
          simp [hn, othOf, this]

theorem p0_ok {c : Ctx D} {dw0} (g : Good c) (h : dwOK dw0) : ProgOK c (p0 c dw0) := by
  refine ⟨⟨c.W, by simp⟩, ?_⟩
  rcases h with rfl | rfl
  · simp [Ctx.fold]
  · simp [Ctx.fold, g.laws.zero]

theorem mkReapPlan_eq {c : Ctx D} (hf : c.full.db = some c.d0) (hn : ∀ y ∈ c.newers, y.db = none)
    (hW : c.W ≠ []) (hm : c.olds ≠ [] ∨ c.newers ≠ []) :
    mkReapPlan c.snaps c.newName c.verify = .ok (some c.plan) := by
  have h1 : c.snaps.isEmpty = false := by simp [Ctx.snaps]
  have h2 : (c.snaps.length == 1) = false := by
    simp only [Ctx.snaps, List.length_append, List.length_cons, beq_eq_false_iff_ne]
    rcases hm with h | h
    · cases ho : c.olds with
      | nil => exact absurd ho h
      | cons a l => simp; omega
    · cases hn' : c.newers with
      | nil => exact absurd hn' h
      | cons a l => simp; omega
  have h3 : splitLastFull c.snaps = some (c.olds, c.full, c.newers) :=
    splitLastFull_split _ _ _ (by simp [hf]) hn
  have h4 : (walPaths c.full ++ c.newers.flatMap walPaths).isEmpty = false := by
    cases h : (walPaths c.full ++ c.newers.flatMap walPaths) with
    | nil => exact absurd h hW
    | cons a l => rfl
  simp only [mkReapPlan, h1, h3, h2, h4, Bool.false_eq_true, if_false, Bool.and_false, Bool.not_false, if_true]
  rfl



/-- T5: whatever point a reap is interrupted at, the state is in the family -/
theorem reapCrash_reach {c : Ctx D} {s0 : FS D} {dw0} (w : WF c s0 dw0) (hW : c.W ≠ [])
    (hm : c.olds ≠ [] ∨ c.newers ≠ []) (cut : ReapCut) :
    Reach c (p0 c dw0) (reapCrash c.A s0 c.newName c.verify cut) := by
  have g := w.good
  have ht := othOf_tmpOnly w
  have hp := p0_ok g w.dwOk
  have hplan := mkReapPlan_eq w.fullDb w.newersInc hW hm
  have hs := s0_eq w
  have e1 : ∀ t, ({ s0 with planTmp := t } : FS D) = mk c (othOf c s0) (p0 c dw0) none t := by
    intro t
    exact (congrArg (fun s : FS D => ({ s with planTmp := t } : FS D)) hs).trans rfl
  have e2 : ({ s0 with plan := some c.plan } : FS D) = mk c (othOf c s0) (p0 c dw0) (some c.plan) false := by
    exact (congrArg (fun s : FS D => ({ s with plan := some c.plan } : FS D)) hs).trans rfl
  simp only [reapCrash, w.scan, hplan]
  cases cut with
  | beforePlan t =>
    simp only [e1]
    exact .noplan _ t _ ht (Or.inl rfl)
  | inPlan k oc =>
    simp only [e2]
    exact inFam_reach ht (runCut_plan g _ _ _ _ hp rfl k oc)
  | planDone =>
    simp only [e2]
    exact inFam_reach ht (runCut_plan g _ _ _ _ hp rfl _ _)
  | complete =>
    simp only [e2, exec_plan g _ _ _ _ hp rfl]
    have : ({ mk c (othOf c s0) (.renamed (finalDw c)) (some c.plan) false with plan := none } : FS D)
        = mk c (othOf c s0) (.renamed (finalDw c)) none false := rfl
    rw [this]
    refine .noplan _ false _ ht (Or.inr ⟨finalDw c, ?_, rfl⟩)
    unfold finalDw dwOK; cases c.verify <;> simp

/-! ### what a restart observes -/

theorem resolveRev_inc (full : Snap D) (d0 : D) (hf : full.db = some d0) (rest : List (Snap D)) :
    ∀ (r : List (Snap D)), (∀ y ∈ r, y.db = none) →
      resolveRev (r ++ full :: rest) = some (d0, full.wals ++ r.reverse.flatMap (·.wals)) := by
  intro r
  induction r with
  | nil => intro _; simp [resolveRev, hf]
  | cons a r ih =>
    intro h
    have ha := h a List.mem_cons_self
    have := ih (fun y hy => h y (List.mem_cons_of_mem _ hy))
    simp [resolveRev, ha, this, List.flatMap_append]

theorem W_snd (c : Ctx D) : c.W.map Prod.snd = c.full.wals ++ c.newers.flatMap (·.wals) := by
  simp only [Ctx.W, walPaths, List.map_append, List.map_map, List.map_flatMap]
  congr 1
  · simp [Function.comp_def]
  · congr 1
    funext y
    simp [Function.comp_def]

theorem observe_snaps {c : Ctx D} (hf : c.full.db = some c.d0) (hn : ∀ y ∈ c.newers, y.db = none) :
    observe c.A c.snaps = some (c.newest.mt.index, c.newest.mt.term, some c.dF) := by
  have h1 : c.snaps.getLast? = some c.newest := by
    simp only [Ctx.snaps, Ctx.newest]
    cases hnw : c.newers.getLast? with
    | none =>
      have : c.newers = [] := List.getLast?_eq_none_iff.1 hnw
      simp [this]
    | some y =>
      rw [List.getLast?_append, List.getLast?_cons, hnw]
      simp
  have h2 : resolveNewest c.A c.snaps = some c.dF := by
    simp only [resolveNewest, Ctx.snaps, List.reverse_append, List.reverse_cons, List.append_assoc,
      List.singleton_append]
    rw [resolveRev_inc c.full c.d0 hf _ c.newers.reverse (by simpa using hn)]
    simp [Ctx.dF, Ctx.fold, W_snd]
  simp [observe, h1, h2]

def finalSnap (c : Ctx D) : Snap D :=
  { name := c.newName, mt := c.newMeta, db := some c.dF, crc := some c.dF, wals := [] }

theorem filterMap_none {α β} (l : List α) (f : α → Option β) (h : ∀ a ∈ l, f a = none) : l.filterMap f = [] := by
  induction l with
  | nil => rfl
  | cons a l ih =>
    simp [List.filterMap_cons, h a List.mem_cons_self, ih (fun b hb => h b (List.mem_cons_of_mem _ hb))]

theorem scan_final {c : Ctx D} (g : Good c) (dw) :
    scan (mk c noOth (.renamed dw) none false) = .ok [finalSnap c] := by
  have hnf := g.new_ne_full
  have hnR := find_not_R g.new_not_R
  have hl : liveDirs (mk c noOth (.renamed dw) none false)
      = [(c.newName, { tmp := false, mt := some c.newMeta, db := some c.dF, crc := some c.dF, dbWal := dw, wals := [] })] := by
    simp only [liveDirs, mk, mkNames, List.filterMap_append]
    rw [filterMap_none]
    · simp [mkDir, hnf, hnR.1, hnR.2]
    · intro n hn
      have hne : n ≠ c.newName := fun e => g.freshNames (e ▸ hn)
      rcases mkDir_cases c (.renamed dw) n with h | ⟨_, _⟩
      · simp [h noOth, noOth]
      · by_cases hf : n = c.full.name
        · simp [mkDir, hf]
        · simp only [mkDir, hf, if_false, hne]
          cases findSnap c.newers n <;> simp only
          cases findSnap c.olds n <;> simp [noOth]
  simp [scan, hl, loadAll, loadSnap, finalSnap]

theorem observe_final (c : Ctx D) :
    observe c.A [finalSnap c] = some (c.newest.mt.index, c.newest.mt.term, some c.dF) := by
  simp [observe, resolveNewest, resolveRev, finalSnap, Ctx.newMeta]

theorem filterMap_congr' {α β} (l : List α) (f g : α → Option β) (h : ∀ a ∈ l, f a = g a) :
    l.filterMap f = l.filterMap g := by
  induction l with
  | nil => rfl
  | cons a l ih =>
    simp [List.filterMap_cons, h a List.mem_cons_self, ih (fun b hb => h b (List.mem_cons_of_mem _ hb))]

/-- the catalog does not depend on temporary directories, the plan files or the zero-length WAL -/
theorem liveDirs_oth (c : Ctx D) (p : Prog D) {oth oth' : Nat → Option (Dir D)} (h : TmpOnly oth) (h' : TmpOnly oth')
    (pl pl' pt pt') : liveDirs (mk c oth p pl pt) = liveDirs (mk c oth' p pl' pt') := by
  simp only [liveDirs, mk]
  apply filterMap_congr'
  intro n _
  rcases mkDir_cases c p n with hh | ⟨h1, _⟩
  · rw [hh oth, hh oth']
    cases ho : oth n with
    | none =>
      cases ho' : oth' n with
      | none => rfl
      | some d' => simp [h' n d' ho']
    | some d =>
      cases ho' : oth' n with
      | none => simp [h n d ho]
      | some d' => simp [h n d ho, h' n d' ho']
  · rw [h1 oth oth']

theorem scan_p0 {c : Ctx D} {s0 : FS D} {dw0} (w : WF c s0 dw0) :
    scan (mk c noOth (p0 c dw0) none false) = .ok c.snaps := by
  have : liveDirs (mk c noOth (p0 c dw0) none false) = liveDirs s0 := by
    conv => rhs; rw [s0_eq w]
    exact liveDirs_oth c _ noOth_tmpOnly (othOf_tmpOnly w) _ _ _ _
  rw [← w.scan]
  simp only [scan, this]


end RqModel.SnapFS

/-
C01  Replicas converge: the same committed log gives the same database on every node,
whichever apply path it took and whenever it ran.

Two layers.
(1) For ANY SQLite semantics `M : Sem D S` whose rewriter obeys the C14 law (a rewritten
    statement does not consult the environment — `Sem.rewritten_indep`, a hypothesis;
    C14/agent a5 models and proves it for the real rewriter) and ANY requests that entered
    through an endpoint that rewrites: every apply path — live, restart replay, install of
    a snapshot taken at any index followed by the log suffix, recovery replay — at any
    apply times and with any random sources, ends in the same database (`converge`).
(2) The store's paths really are such folds: `paths_are_folds` over the node model
    StoreSM (C22/C03/C33 give the restart and recovery legs).
Every write endpoint rewrites (the SQL-text branch of /db/load since fix commit 706f645), so
the statement over ALL write endpoints holds (`converge_all_endpoints`, `C01_full_holds`);
`unrewritten_statement_witness` shows what the repaired defect did: a statement that
reaches the log unrewritten makes a live node and a replaying node differ.
Tied to the code by the end-to-end differential run in package http (real HTTP service →
real store → live / replay / snapshot-install on a joining node / recovery, grammar-
generated SQL with RANDOM(), RANDOMBLOB(), date/time at 'now') and by regenerated facts.
-/
import RqModel.Model.Converge
import RqModel.Props.C03
namespace C01
open RqModel.Converge RqModel.StoreSM

variable {D S : Type}

/-- a logged statement that does not consult the environment -/
def Indep (M : Sem D S) (s : S) : Prop := ∀ e1 e2 d, M.exec e1 d s = M.exec e2 d s

theorem applyFrom_indep (M : Sem D S) (log : List S) (h : ∀ s ∈ log, Indep M s)
    (e1 e2 : Nat → Env) (i j : Nat) (d : D) :
    applyFrom M e1 i d log = applyFrom M e2 j d log := by
  induction log generalizing i j d with
  | nil => rfl
  | cons s ss ih =>
    simp only [applyFrom]
    rw [h s (List.mem_cons_self) (e1 i) (e2 j) d]
    exact ih (fun t ht => h t (List.mem_cons_of_mem _ ht)) (i + 1) (j + 1) _

theorem applyFrom_append (M : Sem D S) (e : Nat → Env) (i : Nat) (d : D) (a b : List S) :
    applyFrom M e i d (a ++ b) = applyFrom M e (i + a.length) (applyFrom M e i d a) b := by
  induction a generalizing i d with
  | nil => simp [applyFrom]
  | cons s ss ih =>
    simp only [List.cons_append, applyFrom, List.length_cons]
    rw [ih]; congr 1; omega

/-- everything an endpoint that rewrites puts into the log is environment independent -/
theorem logged_indep (M : Sem D S) (ep : Endpoint) (hr : rewrites ep = true) (le : Env) (ss : List S) :
    ∀ s ∈ logged M ep le ss, Indep M s := by
  intro s hs
  unfold logged at hs
  rw [if_pos hr] at hs
  obtain ⟨t, _, rfl⟩ := List.mem_map.1 hs
  intro e1 e2 d
  exact M.rewritten_indep le t e1 e2 d

/-- a request as it reaches a leader: endpoint, the leader's environment at that moment,
the statements -/
structure Req (S : Type) where
  ep : Endpoint
  le : Env
  ss : List S

/-- the committed log produced by a sequence of requests -/
def logOf (M : Sem D S) (rs : List (Req S)) : List S := rs.flatMap fun r => logged M r.ep r.le r.ss

/-- **converge.** For every semantics obeying the rewrite law, every sequence of requests
that entered through rewriting endpoints, every snapshot index `k`, every pair of
environment streams: a node that applied the whole log live, a node that replayed it
later, and a node that installed a snapshot of the first `k` entries (taken on yet another
node) and applied the suffix, all hold the same database. -/
theorem converge (M : Sem D S) (rs : List (Req S)) (hr : ∀ r ∈ rs, rewrites r.ep = true)
    (d0 : D) (k : Nat) (live replay snapshotter installer : Nat → Env) :
    let log := logOf M rs
    applyFrom M replay 0 d0 log = applyFrom M live 0 d0 log ∧
    applyFrom M installer k (applyFrom M snapshotter 0 d0 (log.take k)) (log.drop k) = applyFrom M live 0 d0 log := by
  intro log
  have hi : ∀ s ∈ log, Indep M s := by
    intro s hs
    obtain ⟨r, hrm, hsr⟩ := List.mem_flatMap.1 hs
    exact logged_indep M r.ep (hr r hrm) r.le r.ss s hsr
  refine ⟨applyFrom_indep M log hi _ _ 0 0 d0, ?_⟩
  have hsplit : log = log.take k ++ log.drop k := (List.take_append_drop k log).symm
  have hit : ∀ s ∈ log.take k, Indep M s := fun s hs => hi s (List.mem_of_mem_take hs)
  have hid : ∀ s ∈ log.drop k, Indep M s := fun s hs => hi s (List.mem_of_mem_drop hs)
  conv => rhs; rw [hsplit, applyFrom_append]
  rw [applyFrom_indep M (log.take k) hit snapshotter live 0 0 d0]
  exact applyFrom_indep M (log.drop k) hid _ _ _ _ _

theorem all_endpoints_rewrite (ep : Endpoint) : rewrites ep = true := by cases ep <;> rfl

/-- **converge_all_endpoints**: no side condition on the endpoint is left — every write
endpoint runs the rewriter, so every sequence of requests converges on every path -/
theorem converge_all_endpoints (M : Sem D S) (rs : List (Req S))
    (d0 : D) (k : Nat) (live replay snapshotter installer : Nat → Env) :
    let log := logOf M rs
    applyFrom M replay 0 d0 log = applyFrom M live 0 d0 log ∧
    applyFrom M installer k (applyFrom M snapshotter 0 d0 (log.take k)) (log.drop k) = applyFrom M live 0 d0 log :=
  converge M rs (fun r _ => all_endpoints_rewrite r.ep) d0 k live replay snapshotter installer

/-- the property over ALL write endpoints, for the executable instance -/
def C01_full : Prop :=
  ∀ (rs : List (Req XStmt)) (d0 : Db) (live replay : Nat → Env),
    applyFrom miniSem replay 0 d0 (logOf miniSem rs) = applyFrom miniSem live 0 d0 (logOf miniSem rs)

theorem C01_full_holds : C01_full := fun rs d0 live replay =>
  (converge_all_endpoints miniSem rs d0 0 live replay live live).1

/-- **converge_partial** (kept: it is the form that does not depend on the endpoint table):
requests may enter through an endpoint that does NOT rewrite as long as their statements
do not consult the environment by themselves -/
theorem converge_partial (M : Sem D S) (rw : Endpoint → Bool) (rs : List (Req S))
    (hx : ∀ r ∈ rs, rw r.ep = false → ∀ s ∈ r.ss, Indep M s)
    (d0 : D) (live replay : Nat → Env) :
    let log := rs.flatMap fun r => if rw r.ep then r.ss.map (M.rewrite r.le) else r.ss
    applyFrom M replay 0 d0 log = applyFrom M live 0 d0 log := by
  intro log
  apply applyFrom_indep
  intro s hs
  obtain ⟨r, hrm, hsr⟩ := List.mem_flatMap.1 hs
  by_cases hr : rw r.ep = true
  · rw [if_pos hr] at hsr
    obtain ⟨t, _, rfl⟩ := List.mem_map.1 hsr
    intro e1 e2 d
    exact M.rewritten_indep r.le t e1 e2 d
  · rw [if_neg hr] at hsr
    exact hx r hrm (by simpa using hr) s hsr

/-- **unrewritten_statement_witness**: the rewriting is necessary. `INSERT … VALUES(random())`
that reaches the log as written (what /db/load did with SQL text before the repair) gives a
live node and a node replaying later different databases; through a rewriting endpoint the
same request converges. -/
theorem unrewritten_statement_witness :
    applyFrom miniSem (fun _ => ⟨100, 7⟩) 0 [] [XStmt.put 1 .random] = [(1, 7)] ∧
    applyFrom miniSem (fun _ => ⟨160, 9⟩) 0 [] [XStmt.put 1 .random] = [(1, 9)] ∧
    applyFrom miniSem (fun _ => ⟨100, 7⟩) 0 [] (logOf miniSem [⟨.loadText, ⟨100, 7⟩, [.put 1 .random]⟩]) =
      applyFrom miniSem (fun _ => ⟨160, 9⟩) 0 [] (logOf miniSem [⟨.loadText, ⟨100, 7⟩, [.put 1 .random]⟩]) := by
  decide

/-! ### the store's apply paths are these folds -/

/-- For every history, the four ways a node can arrive at its database — applying live,
restarting after a crash at any point (either Open path), being recovered from a peers
file after going down in any way, and installing a snapshot taken at any index followed by
the log suffix — all equal folding `CommandProcessor.Process` over the command log. -/
theorem paths_are_folds (hist : List C22.Op) (pt : C03.Pt) (dn : C33.Down) (peers : Config) (k : Nat) (cs : List Cmd) :
    let n := C22.run {} hist
    n.live = hist.foldl C22.effect [] ∧
    (openNode (crash (C03.stateAt n C03.Pt.rest))).live = n.live ∧
    (openNode (crash (C03.stateAt n pt))).live = C03.expected n.live pt ∧
    (openNode { C33.goDown n dn with peersFile := some peers }).live = n.live ∧
    replay (replay [] (cs.take k)) (cs.drop k) = replay [] cs := by
  intro n
  refine ⟨C22.live_run C22.good_init hist, (C03.restart_exact hist .rest).1, (C03.restart_exact hist pt).1,
    (C33.recover_keeps_applied hist dn peers).1, ?_⟩
  rw [← replay_append, List.take_append_drop]

/-! ### regenerated facts -/

/-- every write endpoint, the SQL-text load included, calls the rewriter before handing the
statements on; `rewrites` is exactly this table -/
theorem code_write_endpoints :
    RqModel.Gen.StoreOrder.execEndpoint = ["s.queuedExecute", "s.execute"] ∧
    RqModel.Gen.StoreOrder.executeEndpoint = ["sql.Process", "s.proxy.Execute"] ∧
    RqModel.Gen.StoreOrder.queuedExecEndpoint = ["sql.Process", "s.stmtQueue.Write"] ∧
    RqModel.Gen.StoreOrder.requestEndpoint = ["sql.Process", "s.proxy.Request"] ∧
    RqModel.Gen.StoreOrder.httpLoadSteps = ["db.IsValidSQLiteData", "s.proxy.Load", "sql.Process", "s.proxy.Execute"] :=
  ⟨rfl, rfl, rfl, rfl, rfl⟩

/-- both code paths that apply log entries to a database go through `CommandProcessor.Process` -/
theorem code_single_apply_function :
    RqModel.Gen.StoreOrder.applyPaths = ["fsmApply:s.cmdProc.Process", "recoverNode:cmdProc.Process"] := rfl

end C01

/-
C27  CDC events describe exactly the rows changed.

Property theorems only. Model: RqModel/Model/Cdc.lean (convertFn of RegisterPreUpdateHook, the
CDCStreamer, the statement loop of a write request over SQLite's hook semantics), tied to
db/db.go and db/cdc.go by the C27 correspondence run against real SQLite with a shadow database.

Recorded defect (known_findings.d/C27.json): events of a statement that fails after touching rows
are delivered with the next commit of the same request. The full statement is kept visible,
refuted by a witness and proved under the explicit exclusion.
-/
import RqModel.Model.Cdc
namespace C27
open RqModel.Cdc

/-- the row changes of a request that end up committed, in order (the specification) -/
def committedChanges (tx : Bool) (stmts : List Stmt) : List Change :=
  if tx then (if stmts.all (·.ok) then stmts.flatMap (·.touched) else [])
  else (stmts.filter (·.ok)).flatMap (·.touched)

def delivered (st : St) : List Event := st.groups.flatten

/-- statements as SQLite produces them: one that opens no write transaction touches no row -/
def WellFormed (stmts : List Stmt) : Prop := ∀ s ∈ stmts, s.writes = false → s.touched = []

/-- THE FULL STATEMENT (false of the code as it is): the events delivered for a write request
describe exactly the committed row changes (of the tables the filter matches), in order. -/
def events_equal_committed_changes_full : Prop :=
  ∀ (c : Cfg) (tx : Bool) (stmts : List Stmt), WellFormed stmts →
    delivered (request c tx stmts) = (committedChanges tx stmts).filterMap (convert c)

/-- the recorded failing inputs: outside a transaction, a statement that fails after touching rows -/
def failsAfterRows (stmts : List Stmt) : Bool := stmts.any fun s => !s.ok && !s.touched.isEmpty

theorem preupdate_eq (c : Cfg) (p : List Event) (g : List (List Event)) (ch : Change) :
    preupdate c ⟨p, g⟩ ch = ⟨p ++ [ch].filterMap (convert c), g⟩ := by
  unfold preupdate
  cases h : convert c ch <;> simp [List.filterMap_cons, h]

theorem preupdates_eq (c : Cfg) (p : List Event) (g : List (List Event)) (chs : List Change) :
    preupdates c ⟨p, g⟩ chs = ⟨p ++ chs.filterMap (convert c), g⟩ := by
  induction chs generalizing p with
  | nil => simp [preupdates]
  | cons ch rest ih =>
    have : preupdates c ⟨p, g⟩ (ch :: rest) = preupdates c (preupdate c ⟨p, g⟩ ch) rest := by
      simp [preupdates]
    rw [this, preupdate_eq, ih]
    cases h : convert c ch <;> simp [List.filterMap_cons, h]

theorem commit_flatten (p : List Event) (g : List (List Event)) :
    (commit ⟨p, g⟩).pending = [] ∧ (commit ⟨p, g⟩).groups.flatten = g.flatten ++ p := by
  unfold commit
  cases p with
  | nil => simp
  | cons e es => simp

theorem runAuto_clean (c : Cfg) (g : List (List Event)) (stmts : List Stmt)
    (hw : WellFormed stmts) (hf : failsAfterRows stmts = false) :
    (runAuto c ⟨[], g⟩ stmts).pending = [] ∧
    (runAuto c ⟨[], g⟩ stmts).groups.flatten =
      g.flatten ++ ((stmts.filter (·.ok)).flatMap (·.touched)).filterMap (convert c) := by
  induction stmts generalizing g with
  | nil => simp [runAuto]
  | cons s rest ih =>
    have hw' : WellFormed rest := fun x hx => hw x (by simp [hx])
    simp only [failsAfterRows, List.any_cons, Bool.or_eq_false_iff] at hf
    have hf' : failsAfterRows rest = false := hf.2
    unfold runAuto
    simp only [preupdates_eq, List.nil_append]
    cases hok : s.ok
    · -- failed: it touched nothing
      have ht : s.touched = [] := by
        have := hf.1
        simp only [hok, Bool.not_false, Bool.true_and, Bool.not_eq_false', List.isEmpty_iff] at this
        exact this
      simp only [Bool.false_eq_true, if_false, ht, List.filterMap_nil]
      have := ih g hw' hf'
      simp [List.filter_cons, hok, this]
    · simp only [if_true]
      cases hwr : s.writes
      · have ht : s.touched = [] := hw s (by simp) hwr
        simp only [Bool.false_eq_true, if_false, ht, List.filterMap_nil]
        have := ih g hw' hf'
        simp [List.filter_cons, hok, ht, this]
      · simp only [if_true]
        obtain ⟨hp, hg⟩ := commit_flatten (s.touched.filterMap (convert c)) g
        have hc : commit ⟨s.touched.filterMap (convert c), g⟩ = ⟨[], (commit ⟨s.touched.filterMap (convert c), g⟩).groups⟩ := by
          cases hcm : commit ⟨s.touched.filterMap (convert c), g⟩ with
          | mk p gg => rw [hcm] at hp; simp at hp; simp [hp]
        rw [hc]
        have := ih (commit ⟨s.touched.filterMap (convert c), g⟩).groups hw' hf'
        rw [this.1, this.2, hg]
        simp [List.filter_cons, hok, List.flatMap_cons, List.filterMap_append, List.append_assoc]

theorem runTx_eq (c : Cfg) (p : List Event) (g : List (List Event)) (stmts : List Stmt) :
    (runTx c ⟨p, g⟩ stmts).2 = stmts.all (·.ok) ∧ (runTx c ⟨p, g⟩ stmts).1.groups = g ∧
    ((runTx c ⟨p, g⟩ stmts).2 = true →
      (runTx c ⟨p, g⟩ stmts).1.pending = p ++ (stmts.flatMap (·.touched)).filterMap (convert c)) := by
  induction stmts generalizing p with
  | nil => simp [runTx]
  | cons s rest ih =>
    unfold runTx
    simp only [preupdates_eq]
    cases hok : s.ok
    · simp [hok]
    · simp only [if_true]
      obtain ⟨h1, h2, h3⟩ := ih (p ++ s.touched.filterMap (convert c))
      refine ⟨by simp [h1, hok], h2, fun hh => ?_⟩
      rw [h3 hh]
      simp [List.flatMap_cons, List.filterMap_append, List.append_assoc]

/-- Under the exclusion - in a transaction request unconditionally, otherwise when no statement
fails after touching rows - the delivered events are exactly the committed row changes of the
matching tables, in order: operation, table, row ids and values are those of the change
(`convert` keeps the change's identity). For every configuration and every statement list. -/
theorem events_equal_committed_changes_partial (c : Cfg) (tx : Bool) (stmts : List Stmt)
    (hw : WellFormed stmts) (hx : tx = true ∨ failsAfterRows stmts = false) :
    delivered (request c tx stmts) = (committedChanges tx stmts).filterMap (convert c) := by
  unfold request delivered committedChanges
  cases tx
  · simp only [Bool.false_eq_true, if_false]
    have hf : failsAfterRows stmts = false := by rcases hx with h | h; cases h; exact h
    have := (runAuto_clean c [] stmts hw hf).2
    simpa using this
  · simp only [if_true]
    obtain ⟨h1, h2, h3⟩ := runTx_eq c [] [] stmts
    cases hall : stmts.all (·.ok)
    · have : (runTx c {} stmts).2 = false := by rw [h1, hall]
      simp only [this, Bool.false_and, Bool.false_eq_true, if_false]
      rw [h2]; simp
    · have hok : (runTx c {} stmts).2 = true := by rw [h1, hall]
      simp only [hok, Bool.true_and, if_true]
      have hp := h3 hok
      simp only [List.nil_append] at hp
      cases hany : stmts.any (fun s => s.writes)
      · -- no statement writes: nothing was touched, nothing is delivered
        have hnil : stmts.flatMap (·.touched) = [] := by
          simp only [List.flatMap_eq_nil_iff]
          intro s hs
          have : s.writes = false := by
            have := List.any_eq_false.mp hany s hs
            simpa using this
          exact hw s hs this
        simp [h2, hnil]
      · simp only [if_true]
        cases hst : runTx c {} stmts with
        | mk st ok =>
          rw [hst] at h2 hp
          simp only at h2 hp
          obtain ⟨_, hg⟩ := commit_flatten st.pending st.groups
          have : st = ⟨st.pending, st.groups⟩ := rfl
          rw [this, hg, h2, hp]
          simp

/-- witness: the failed first statement's row 3 is delivered with the second statement's commit -/
theorem events_phantom_witness :
    delivered (request ⟨false, none⟩ false [⟨[⟨"t", 3⟩], false, true⟩, ⟨[⟨"t", 4⟩], true, true⟩]) =
      [⟨"t", 3, true⟩, ⟨"t", 4, true⟩] ∧
    (committedChanges false [⟨[⟨"t", 3⟩], false, true⟩, ⟨[⟨"t", 4⟩], true, true⟩]).filterMap (convert ⟨false, none⟩) =
      [⟨"t", 4, true⟩] := by decide

theorem events_equal_committed_changes_full_is_false : ¬ events_equal_committed_changes_full := by
  intro h
  have := h ⟨false, none⟩ false [⟨[⟨"t", 3⟩], false, true⟩, ⟨[⟨"t", 4⟩], true, true⟩]
    (by intro s hs hwr; simp at hs; rcases hs with h | h <;> subst h <;> simp at hwr)
  rw [events_phantom_witness.1, events_phantom_witness.2] at this
  simp at this

example : delivered (request ⟨false, some ["t1"]⟩ true
    [⟨[⟨"t1", 1⟩, ⟨"t2", 2⟩], true, true⟩, ⟨[], true, false⟩, ⟨[⟨"t1", 3⟩], true, true⟩]) =
    [⟨"t1", 1, true⟩, ⟨"t1", 3, true⟩] := by decide

/-! ### row-ids-only and the table filter: unconditional -/

/-- every event anywhere in the streamer state comes from `convert` of some change -/
def FromConvert (c : Cfg) (st : St) : Prop :=
  ∀ ev, (ev ∈ st.pending ∨ ev ∈ st.groups.flatten) → ∃ ch, convert c ch = some ev

theorem preupdates_inv (c : Cfg) (st : St) (chs : List Change) (h : FromConvert c st) :
    FromConvert c (preupdates c st chs) := by
  obtain ⟨p, g⟩ := st
  rw [preupdates_eq]
  intro ev hev
  simp only [List.mem_append, List.mem_filterMap] at hev
  rcases hev with (h1 | ⟨ch, _, hc⟩) | h2
  · exact h ev (Or.inl h1)
  · exact ⟨ch, hc⟩
  · exact h ev (Or.inr h2)

theorem commit_inv (c : Cfg) (st : St) (h : FromConvert c st) : FromConvert c (commit st) := by
  obtain ⟨p, g⟩ := st
  obtain ⟨hp, hg⟩ := commit_flatten p g
  intro ev hev
  rw [hp, hg] at hev
  simp only [List.not_mem_nil, false_or, List.mem_append] at hev
  rcases hev with h1 | h1
  · exact h ev (Or.inr h1)
  · exact h ev (Or.inl h1)

theorem runAuto_inv (c : Cfg) (st : St) (stmts : List Stmt) (h : FromConvert c st) :
    FromConvert c (runAuto c st stmts) := by
  induction stmts generalizing st with
  | nil => simpa [runAuto] using h
  | cons s rest ih =>
    unfold runAuto
    simp only
    have h1 := preupdates_inv c st s.touched h
    split
    · split
      · exact ih _ (commit_inv c _ h1)
      · exact ih _ h1
    · exact ih _ h1

theorem runTx_inv (c : Cfg) (st : St) (stmts : List Stmt) (h : FromConvert c st) :
    FromConvert c (runTx c st stmts).1 := by
  induction stmts generalizing st with
  | nil => simpa [runTx] using h
  | cons s rest ih =>
    unfold runTx
    simp only
    have h1 := preupdates_inv c st s.touched h
    split
    · exact ih _ h1
    · exact h1

theorem request_inv (c : Cfg) (tx : Bool) (stmts : List Stmt) : FromConvert c (request c tx stmts) := by
  have h0 : FromConvert c {} := by intro ev hev; simp at hev
  unfold request
  cases tx
  · simpa using runAuto_inv c {} stmts h0
  · simp only [if_true]
    have := runTx_inv c {} stmts h0
    split
    · exact commit_inv c _ this
    · exact this

theorem convert_spec (c : Cfg) (ch : Change) (ev : Event) (h : convert c ch = some ev) :
    ev.table = ch.table ∧ ev.id = ch.id ∧ ev.values = !c.idsOnly ∧
    (∀ ts, c.tables = some ts → ev.table ∈ ts) := by
  unfold convert at h
  cases hc : c.tables with
  | none => simp [hc] at h; subst h; simp
  | some ts =>
    simp only [hc] at h
    split at h
    · rename_i hm
      cases h
      refine ⟨rfl, rfl, rfl, fun ts' hts => ?_⟩
      cases hts
      simpa using hm
    · cases h

/-- In row-ids-only mode no delivered event carries column values - and otherwise every one
does - for every request, failing statements and phantom events included. -/
theorem ids_only_has_no_values (c : Cfg) (tx : Bool) (stmts : List Stmt) :
    ∀ ev ∈ delivered (request c tx stmts), ev.values = !c.idsOnly := by
  intro ev hev
  obtain ⟨ch, hc⟩ := request_inv c tx stmts ev (Or.inr hev)
  exact (convert_spec c ch ev hc).2.2.1

/-- With a table filter only matching tables appear, for every request. -/
theorem filter_only_matching_tables (c : Cfg) (tx : Bool) (stmts : List Stmt) (ts : List String)
    (hf : c.tables = some ts) : ∀ ev ∈ delivered (request c tx stmts), ev.table ∈ ts := by
  intro ev hev
  obtain ⟨ch, hc⟩ := request_inv c tx stmts ev (Or.inr hev)
  exact (convert_spec c ch ev hc).2.2.2 ts hf

/-- … and a matching table's committed change is never filtered out -/
theorem filter_keeps_matching (c : Cfg) (ch : Change)
    (h : ∀ ts, c.tables = some ts → ch.table ∈ ts) : convert c ch = some ⟨ch.table, ch.id, !c.idsOnly⟩ := by
  unfold convert
  cases hc : c.tables with
  | none => rfl
  | some ts => simp [h ts hc]

example : delivered (request ⟨true, some ["t1"]⟩ false [⟨[⟨"t1", 1⟩, ⟨"t2", 2⟩], true, true⟩]) = [⟨"t1", 1, false⟩] := by
  decide

end C27

/-
C07, the remove-only reap plan: the newest full snapshot has no WALs of its own and nothing
after it; the plan is RemoveAll of every older snapshot, in order. Same method as the
consolidating plan, over the `post` progress states of RqModel/Lemmas/SnapFS.lean.
-/
import RqModel.Lemmas.SnapFS
set_option linter.unusedSimpArgs false
set_option linter.unusedVariables false
namespace RqModel.SnapFS
variable {D : Type}

/-- the remove-only plan -/
def Ctx.plan1 (c : Ctx D) : List Op := c.R.map Op.removeAll

/-- the progress states of the remove-only plan: removal reached `k`, cut `sel` -/
def st1 (c : Ctx D) (k : Nat) (sel : Option Sel) (dw : Option Nat) : Prog D :=
  .post c.full.crc k sel (some c.full.mt) dw

/-- the static conditions of the remove-only case -/
structure RmOnly (c : Ctx D) : Prop where
  noNewers : c.newers = []
  noWals : c.full.wals = []
  hasOlds : c.olds ≠ []

theorem rmOnly_W {c : Ctx D} (o : RmOnly c) : c.W = [] := by
  simp [Ctx.W, walPaths, o.noNewers, o.noWals]

theorem rmOnly_dF {c : Ctx D} (o : RmOnly c) : c.dF = c.d0 := by
  simp [Ctx.dF, Ctx.fold, rmOnly_W o]

theorem rmOnly_R_ne {c : Ctx D} (o : RmOnly c) : c.R ≠ [] := by
  have := o.hasOlds
  simp only [Ctx.R, o.noNewers, List.map_nil, List.nil_append]
  intro h
  exact this (List.map_eq_nil_iff.1 h)

theorem rmOnly_p0 {c : Ctx D} (o : RmOnly c) (oth dw pl pt) :
    mk c oth (p0 c dw) pl pt = mk c oth (st1 c 0 none dw) pl pt := by
  have := ckpt_eq_post c oth dw pl pt
  rw [rmOnly_W o, rmOnly_dF o] at this
  exact this

theorem plan1_getLast {c : Ctx D} (g : Good c) (o : RmOnly c) :
    ∃ n, c.plan1.getLast? = some (Op.removeAll n) ∧ n ∈ c.R ∧ c.R.idxOf n + 1 = c.R.length := by
  rcases List.eq_nil_or_concat c.R with h | ⟨l, a, h⟩
  · exact absurd h (rmOnly_R_ne o)
  · rw [List.concat_eq_append] at h
    refine ⟨a, ?_, ?_, ?_⟩
    · simp [Ctx.plan1, h]
    · rw [h]; simp
    · have hnd := g.R_nodup
      rw [h] at hnd ⊢
      have hi : l.length < (l ++ [a]).length := by simp
      have := List.Nodup.idxOf_getElem hnd l.length hi
      simp only [List.getElem_concat_length rfl] at this
      simp [this]

/-- LastOpDone on the remove-only plan: the last older directory is gone iff removal is complete -/
theorem lastOpDone_plan1 {c : Ctx D} (g : Good c) (o : RmOnly c) (oth k sel dw pl pt) :
    lastOpDone (mk c oth (st1 c k sel dw) pl pt) c.plan1 = decide (c.R.length ≤ k) := by
  obtain ⟨n, hl, hn, hidx⟩ := plan1_getLast g o
  obtain ⟨base, hb⟩ := post_R' g oth hn
  simp only [lastOpDone, hl, opDone, mk, st1, hb, rmView]
  by_cases h1 : c.R.idxOf n < k
  · have : c.R.length ≤ k := by omega
    simp [h1, this]
  · have h2 : ¬ c.R.length ≤ k := by omega
    by_cases h3 : c.R.idxOf n = k
    · cases sel <;> simp [h1, h3, h2]
    · simp [h1, h3, h2]

def ProgOK1 (c : Ctx D) (dw : Option Nat) (p : Prog D) : Prop := ∃ k sel, p = st1 c k sel dw

theorem exec_plan1 {c : Ctx D} (g : Good c) (oth k sel dw pl pt) :
    execOps c.A c.plan1 (mk c oth (st1 c k sel dw) pl pt) = .ok (mk c oth (st1 c c.R.length none dw) pl pt) :=
  exec_rms g oth c.full.crc (some c.full.mt) dw pl pt c.R 0 k sel rfl (Nat.zero_le _)

theorem runCut_plan1 {c : Ctx D} (g : Good c) (oth k sel dw pl pt) (j : Nat) (cut : OpCut) :
    ∃ p, ProgOK1 c dw p ∧ runCut c.A c.plan1 j cut (mk c oth (st1 c k sel dw) pl pt) = mk c oth p pl pt := by
  -- `runCut_rms` gives a consistent `post` state; we need its shape, so redo the induction here
  have key : ∀ (l : List Nat) (i k : Nat) (sel : Option Sel) (j : Nat), c.R.drop i = l → i ≤ k →
      ∃ p, ProgOK1 c dw p ∧ runCut c.A (l.map Op.removeAll) j cut (mk c oth (st1 c k sel dw) pl pt) = mk c oth p pl pt := by
    intro l
    induction l with
    | nil =>
      intro i k sel j _ _
      exact ⟨_, ⟨k, sel, rfl⟩, by simp [runCut_nil]⟩
    | cons n l ih =>
      intro i k sel j hd hik
      have hi : i < c.R.length := by
        rcases Nat.lt_or_ge i c.R.length with h | h
        · exact h
        · rw [List.drop_eq_nil_of_le h] at hd; cases hd
      rw [List.drop_eq_getElem_cons hi] at hd
      simp only [List.cons.injEq] at hd
      obtain ⟨hn, hl⟩ := hd
      have hmem : n ∈ c.R := hn ▸ List.getElem_mem hi
      have hidx : c.R.idxOf n = i := hn ▸ List.Nodup.idxOf_getElem g.R_nodup i hi
      cases j with
      | zero =>
        simp only [List.map_cons, runCut]
        -- partial RemoveAll: the shape of the result
        cases cut with
        | none => exact ⟨_, ⟨k, sel, rfl⟩, rfl⟩
        | trunc => exact ⟨_, ⟨k, sel, rfl⟩, rfl⟩
        | ckpt _ _ _ => exact ⟨_, ⟨k, sel, rfl⟩, rfl⟩
        | rm sl =>
          simp only [partialOp, FS.modify]
          obtain ⟨base, hb⟩ := post_R' g oth hmem
          rcases Nat.lt_or_ge (c.R.idxOf n) k with h | h
          · have : (mk c oth (st1 c k sel dw) pl pt).dir n = none := by simp [mk, st1, hb, rmView, h]
            simp only [this]
            exact ⟨_, ⟨k, sel, rfl⟩, rfl⟩
          · have hke : c.R.idxOf n = k := by omega
            cases sel with
            | none =>
              have hdir : (mk c oth (st1 c k none dw) pl pt).dir n = some base := by simp [mk, st1, hb, rmView, hke]
              simp only [hdir]
              refine ⟨st1 c k (some sl) dw, ⟨k, some sl, rfl⟩, ?_⟩
              apply FS.ext' <;> simp [FS.set, mk, mkNames, st1]
              intro n'
              by_cases h' : n' = n
              · subst h'; simp [hb, rmView, hke]
              · simp only [h', if_false]
                exact post_other oth _ k none (some sl) _ dw hmem hke h'
            | some s0 =>
              have hdir : (mk c oth (st1 c k (some s0) dw) pl pt).dir n = some (s0.apply base) := by
                simp [mk, st1, hb, rmView, hke]
              simp only [hdir]
              refine ⟨st1 c k (some (Sel.comp sl s0)) dw, ⟨k, _, rfl⟩, ?_⟩
              apply FS.ext' <;> simp [FS.set, mk, mkNames, st1]
              intro n'
              by_cases h' : n' = n
              · subst h'; simp [hb, rmView, hke, Sel.apply_apply]
              · simp only [h', if_false]
                exact post_other oth _ k (some s0) (some (Sel.comp sl s0)) _ dw hmem hke h'
      | succ j =>
        simp only [List.map_cons, runCut]
        rcases Nat.lt_or_ge i k with h | h
        · have := exec_rm_gone g oth c.full.crc k sel (some c.full.mt) dw pl pt hmem (hidx ▸ h)
          simp only [st1] at this ⊢
          rw [this]
          exact ih (i + 1) k sel j hl (by omega)
        · have hik' : i = k := by omega
          have := exec_rm_at g oth c.full.crc k sel (some c.full.mt) dw pl pt hmem (hidx.trans hik')
          simp only [st1] at this ⊢
          rw [this]
          exact ih (i + 1) (k + 1) none j hl (by omega)
  exact key c.R 0 k sel j rfl (Nat.zero_le _)

/-- states reachable from a crashed remove-only reap and crashed recoveries -/
inductive Reach1 (c : Ctx D) (dw : Option Nat) : FS D → Prop
  | fam (oth pt k sel) : TmpOnly oth → Reach1 c dw (mk c oth (st1 c k sel dw) (some c.plan1) pt)
  | noplan (oth pt k sel) : TmpOnly oth → (k = 0 ∧ sel = none ∨ c.R.length ≤ k) →
      Reach1 c dw (mk c oth (st1 c k sel dw) none pt)

/-- the one final state: every older snapshot gone, the full snapshot untouched -/
def final1 (c : Ctx D) (dw : Option Nat) : FS D := mk c noOth (st1 c c.R.length none dw) none false

theorem check_fam1 {c : Ctx D} (g : Good c) (o : RmOnly c) (oth pt k sel dw) (ht : TmpOnly oth) :
    check c.A (mk c oth (st1 c k sel dw) (some c.plan1) pt) = .ok (final1 c dw) := by
  rw [check_mk]
  simp only [lastOpDone_plan1 g o]
  by_cases h : c.R.length ≤ k
  · simp only [h, decide_true, if_true]
    rw [rmTmpDirs_mk _ _ _ _ _ ht]
    exact congrArg Except.ok (post_norm noOth _ k sel _ dw none false h)
  · simp only [h, decide_false, Bool.false_eq_true, if_false, exec_plan1 g]
    have : ({ mk c oth (st1 c c.R.length none dw) (some c.plan1) false with plan := none } : FS D)
        = mk c oth (st1 c c.R.length none dw) none false := rfl
    rw [this, rmTmpDirs_mk _ _ _ _ _ ht]
    rfl

theorem check_reach1 {c : Ctx D} (g : Good c) (o : RmOnly c) {dw} {s : FS D} (h : Reach1 c dw s) :
    check c.A s = .ok (final1 c dw) ∨ check c.A s = .ok (mk c noOth (st1 c 0 none dw) none false) := by
  cases h with
  | fam oth pt k sel ht => exact Or.inl (check_fam1 g o oth pt k sel dw ht)
  | noplan oth pt k sel ht hk =>
    rw [check_noplan c oth pt _ ht]
    rcases hk with ⟨rfl, rfl⟩ | hk
    · exact Or.inr rfl
    · left
      exact congrArg Except.ok (post_norm noOth _ k sel _ dw none false hk)

theorem recCrash_reach1 {c : Ctx D} (g : Good c) (o : RmOnly c) {dw} {s : FS D} (h : Reach1 c dw s) (cut : RecCut) :
    Reach1 c dw (recCrash c.A s cut) := by
  cases h with
  | fam oth pt k sel ht =>
    rw [recCrash_mk]
    cases cut with
    | atStart => exact .fam oth pt k sel ht
    | tmpRemoved => exact .fam oth false k sel ht
    | inPlan j oc =>
      simp only [lastOpDone_plan1 g o]
      by_cases hk : c.R.length ≤ k
      · simp only [hk, decide_true, if_true]; exact .fam oth false k sel ht
      · simp only [hk, decide_false, Bool.false_eq_true, if_false]
        obtain ⟨p, ⟨k', sel', rfl⟩, he⟩ := runCut_plan1 g oth k sel dw (some c.plan1) false j oc
        rw [he]; exact .fam oth false k' sel' ht
    | planDone =>
      simp only [lastOpDone_plan1 g o]
      by_cases hk : c.R.length ≤ k
      · simp only [hk, decide_true, if_true]; exact .fam oth false k sel ht
      · simp only [hk, decide_false, Bool.false_eq_true, if_false]
        obtain ⟨p, ⟨k', sel', rfl⟩, he⟩ := runCut_plan1 g oth k sel dw (some c.plan1) false c.plan1.length .none
        rw [he]; exact .fam oth false k' sel' ht
    | tmpDirs gone pn sl =>
      simp only [check_fam1 g o oth pt k sel dw ht, lastOpDone_plan1 g o]
      by_cases hk : c.R.length ≤ k
      · simp only [hk, decide_true, if_true]
        rw [rmTmpDirsCut_mk _ _ _ _ _ ht]
        exact .noplan _ false k sel (cutOth_tmpOnly ht _ _ _) (Or.inr hk)
      · simp only [hk, decide_false, Bool.false_eq_true, if_false, exec_plan1 g]
        have : ({ mk c oth (st1 c c.R.length none dw) (some c.plan1) false with plan := none } : FS D)
            = mk c oth (st1 c c.R.length none dw) none false := rfl
        rw [this, rmTmpDirsCut_mk _ _ _ _ _ ht]
        exact .noplan _ false _ none (cutOth_tmpOnly ht _ _ _) (Or.inr (Nat.le_refl _))
  | noplan oth pt k sel ht hk =>
    rw [recCrash_mk]
    cases cut with
    | atStart => exact .noplan oth pt k sel ht hk
    | tmpRemoved => exact .noplan oth false k sel ht hk
    | inPlan j oc => exact .noplan oth false k sel ht hk
    | planDone => exact .noplan oth false k sel ht hk
    | tmpDirs gone pn sl =>
      simp only [check_noplan c oth pt _ ht]
      rw [rmTmpDirsCut_mk _ _ _ _ _ ht]
      exact .noplan _ false k sel (cutOth_tmpOnly ht _ _ _) hk

theorem foldl_recCrash_reach1 {c : Ctx D} (g : Good c) (o : RmOnly c) {dw} (cuts : List RecCut) :
    ∀ {s : FS D}, Reach1 c dw s → Reach1 c dw (cuts.foldl (recCrash c.A) s) := by
  induction cuts with
  | nil => intro s h; exact h
  | cons cut cuts ih => intro s h; exact ih (recCrash_reach1 g o h cut)

theorem mkReapPlan_eq1 {c : Ctx D} (hf : c.full.db = some c.d0) (o : RmOnly c) :
    mkReapPlan c.snaps c.newName c.verify = .ok (some c.plan1) := by
  have h1 : c.snaps.isEmpty = false := by simp [Ctx.snaps]
  have h2 : (c.snaps.length == 1) = false := by
    simp only [Ctx.snaps, List.length_append, List.length_cons, beq_eq_false_iff_ne]
    cases ho : c.olds with
    | nil => exact absurd ho o.hasOlds
    | cons a l => simp; omega
  have h3 : splitLastFull c.snaps = some (c.olds, c.full, c.newers) :=
    splitLastFull_split _ _ _ (by simp [hf]) (by simp [o.noNewers])
  simp only [mkReapPlan, h1, h3, h2, Bool.false_eq_true, if_false]
  simp [o.noNewers, walPaths, o.noWals, Ctx.plan1, Ctx.R, List.map_map, Function.comp_def]

theorem reapCrash_reach1 {c : Ctx D} {s0 : FS D} {dw0} (w : WF c s0 dw0) (o : RmOnly c) (cut : ReapCut) :
    Reach1 c dw0 (reapCrash c.A s0 c.newName c.verify cut) := by
  have g := w.good
  have ht := othOf_tmpOnly w
  have hplan := mkReapPlan_eq1 w.fullDb o
  have hs : s0 = mk c (othOf c s0) (st1 c 0 none dw0) none false := (s0_eq w).trans (rmOnly_p0 o _ _ _ _)
  have e1 : ∀ t, ({ s0 with planTmp := t } : FS D) = mk c (othOf c s0) (st1 c 0 none dw0) none t := by
    intro t
    exact (congrArg (fun s : FS D => ({ s with planTmp := t } : FS D)) hs).trans rfl
  have e2 : ({ s0 with plan := some c.plan1 } : FS D) = mk c (othOf c s0) (st1 c 0 none dw0) (some c.plan1) false := by
    exact (congrArg (fun s : FS D => ({ s with plan := some c.plan1 } : FS D)) hs).trans rfl
  simp only [reapCrash, w.scan, hplan]
  cases cut with
  | beforePlan t =>
    simp only [e1]
    exact .noplan _ t 0 none ht (Or.inl ⟨rfl, rfl⟩)
  | inPlan k oc =>
    simp only [e2]
    obtain ⟨p, ⟨k', sel', rfl⟩, he⟩ := runCut_plan1 g (othOf c s0) 0 none dw0 (some c.plan1) false k oc
    rw [he]; exact .fam _ false k' sel' ht
  | planDone =>
    simp only [e2]
    obtain ⟨p, ⟨k', sel', rfl⟩, he⟩ := runCut_plan1 g (othOf c s0) 0 none dw0 (some c.plan1) false c.plan1.length .none
    rw [he]; exact .fam _ false k' sel' ht
  | complete =>
    simp only [e2, exec_plan1 g]
    have : ({ mk c (othOf c s0) (st1 c c.R.length none dw0) (some c.plan1) false with plan := none } : FS D)
        = mk c (othOf c s0) (st1 c c.R.length none dw0) none false := rfl
    rw [this]
    exact .noplan _ false _ none ht (Or.inr (Nat.le_refl _))

/-- the catalog after the remove-only reap: just the full snapshot -/
theorem scan_final1 {c : Ctx D} (g : Good c) (o : RmOnly c) (hcrc : c.full.crc.isSome) (hdb : c.full.db = some c.d0)
    (hmem : c.full.name ∈ c.names) (hnd : c.names.Nodup) (dw : Option Nat) :
    ∃ x, scan (final1 c dw) = .ok [x] ∧ x.mt = c.full.mt ∧ x.db = some c.d0 ∧ x.wals = [] := by
  have hl : liveDirs (final1 c dw)
      = [(c.full.name, { tmp := false, mt := some c.full.mt, db := some c.dF, crc := c.full.crc, dbWal := dw, wals := [] })] := by
    simp only [liveDirs, final1, mk, mkNames, st1]
    -- only the full directory is left among the names
    have hone : ∀ n ∈ c.names, n ≠ c.full.name →
        (match mkDir c noOth (.post c.full.crc c.R.length none (some c.full.mt) dw) n with
          | some d => if d.tmp then none else some (n, d)
          | none => none) = none := by
      intro n _ hne
      simp only [mkDir, hne, if_false]
      have key : ∀ base : Dir D, n ∈ c.R → rmView c c.R.length none n base = none := by
        intro base hn
        have h1 : c.R.idxOf n < c.R.length := List.idxOf_lt_length_iff.2 hn
        simp [rmView, h1]
      cases h3 : findSnap c.newers n with
      | some y => simp [key _ ((mem_R_iff c n).2 (Or.inl ⟨y, (findSnap_mem h3).1, (findSnap_mem h3).2⟩))]
      | none =>
        cases h4 : findSnap c.olds n with
        | some y => simp [key _ ((mem_R_iff c n).2 (Or.inr ⟨y, (findSnap_mem h4).1, (findSnap_mem h4).2⟩))]
        | none => by_cases hn : n = c.newName <;> simp [hn, noOth]
    -- split the name list around the full snapshot's name
    obtain ⟨l1, l2, hsplit⟩ := List.append_of_mem hmem
    have hnd' := hnd
    rw [hsplit] at hnd' ⊢
    have h1 : c.full.name ∉ l1 := by
      intro h
      have := (List.nodup_append.1 hnd').2.2 _ h _ List.mem_cons_self
      exact this rfl
    have h2 : c.full.name ∉ l2 := by
      have := (List.nodup_append.1 hnd').2.1
      exact (List.nodup_cons.1 this).1
    rw [List.filterMap_append, List.filterMap_cons]
    rw [filterMap_none l1, filterMap_none l2]
    · simp [mkDir]
    · intro n hn
      exact hone n (by rw [hsplit]; simp [hn]) (fun e => h2 (e ▸ hn))
    · intro n hn
      exact hone n (by rw [hsplit]; simp [hn]) (fun e => h1 (e ▸ hn))
  cases hc : c.full.crc with
  | none => simp [hc] at hcrc
  | some cr =>
    refine ⟨{ name := c.full.name, mt := c.full.mt, db := some c.dF, crc := some cr, wals := [] }, ?_, rfl, ?_, rfl⟩
    · simp [scan, hl, loadAll, loadSnap, hc]
    · simp [rmOnly_dF o]

end RqModel.SnapFS

package store

// C15 (store level): SQL texts that change a critical setting on real SQLite are
// sent through every entry point of a real single-node Store that carries SQL
// (Execute, Query at each level, Request at each level; as one statement, as the
// second statement of a request, inside a transaction). Each must be refused with
// an error and the settings of the write connection must be unchanged afterwards.

import (
	"context"
	"fmt"
	"strings"
	"testing"
	"time"

	"github.com/rqlite/rqlite/v10/command/proto"
)

func c15StoreSetting(s *Store, q string) string {
	r, err := s.db.Request(&proto.Request{Statements: []*proto.Statement{{Sql: q}}}, false)
	if err != nil || len(r) != 1 || r[0].GetQ() == nil {
		return "?"
	}
	rows := r[0].GetQ()
	if rows.Error != "" || len(rows.Values) == 0 || len(rows.Values[0].Parameters) == 0 {
		return "?"
	}
	p := rows.Values[0].Parameters[0]
	return fmt.Sprintf("%d%s", p.GetI(), p.GetS())
}

func c15StoreState(s *Store) string {
	return fmt.Sprintf("synchronous=%s query_only=%s wal_autocheckpoint=%s", c15StoreSetting(s, "PRAGMA synchronous"), c15StoreSetting(s, "PRAGMA query_only"), c15StoreSetting(s, "PRAGMA wal_autocheckpoint"))
}

// c15Params: parameters to attach to the statement with the given SQL text (set per case)
var c15Params map[string][]*proto.Parameter

func c15Attach(r *proto.Request) {
	for _, st := range r.Statements {
		if ps, ok := c15Params[st.Sql]; ok {
			st.Parameters = ps
		}
	}
}

func TestVerifC15Store(t *testing.T) {
	rep := vfNewReport("C15", "store level: setting-changing PRAGMA spellings (call syntax, schema prefix, comments, quoting, multi-statement text, EXPLAIN prefix, byte-order mark, case) x entry point (Execute, Query none/weak/strong/linearizable, Request none/strong) x position (only statement, second statement, in a transaction) x statement shape (plain, with a superfluous positional / named / two bound parameters) against a real single-node Store; non-trivial always; distinct by (text, entry point, position)")
	defer rep.Write()
	s, ln := mustNewStore(t)
	defer ln.Close()
	if err := s.Open(); err != nil {
		t.Fatalf("open store: %v", err)
	}
	if err := s.Bootstrap(NewServer(s.ID(), s.Addr(), true)); err != nil {
		t.Fatalf("bootstrap: %v", err)
	}
	defer s.Close(true)
	if _, err := s.WaitForLeader(10 * time.Second); err != nil {
		t.Fatalf("leader: %v", err)
	}
	if _, _, err := s.Execute(context.Background(), executeRequestFromString(`CREATE TABLE foo (id INTEGER NOT NULL PRIMARY KEY, name TEXT)`, false, false)); err != nil {
		t.Fatalf("setup: %v", err)
	}
	base := c15StoreState(s)
	rep.Note("write-connection settings of the store before the run: %s", base)

	texts := []string{
		"PRAGMA synchronous=1", "PRAGMA synchronous(1)", "PRAGMA query_only(1)", "PRAGMA main.wal_autocheckpoint=7", "/* c */ PRAGMA synchronous=2",
		"SELECT 1; PRAGMA synchronous=1", `PRAGMA "synchronous"=3`, "PRAGMA main . synchronous = 2", "PRAGMA/**/wal_checkpoint(TRUNCATE)",
		"EXPLAIN PRAGMA synchronous=1", "EXPLAIN QUERY PLAN PRAGMA query_only=1", "\xef\xbb\xbfPRAGMA synchronous=1", "pragma\tSYNCHRONOUS\n=\r1",
		"PRAGMA [query_only]=1", "PRAGMA 'wal_autocheckpoint'(9)", "PRAGMA temp.query_only=ON", "INSERT INTO foo(name) VALUES('x'); PRAGMA wal_autocheckpoint=3",
		"PRAGMA wal_checkpoint", "PRAGMA journal_mode=DELETE", "-- c\nPRAGMA synchronous = FULL",
	}
	type entry struct {
		name string
		run  func(stmts []string, tx bool) error
	}
	entries := []entry{
		{"Execute", func(st []string, tx bool) error {
			er := executeRequestFromStrings(st, false, tx)
			c15Attach(er.Request)
			_, _, err := s.Execute(context.Background(), er)
			return err
		}},
	}
	for _, lvl := range []proto.ConsistencyLevel{proto.ConsistencyLevel_NONE, proto.ConsistencyLevel_WEAK, proto.ConsistencyLevel_STRONG, proto.ConsistencyLevel_LINEARIZABLE} {
		lvl := lvl
		entries = append(entries, entry{"Query/" + lvl.String(), func(st []string, tx bool) error {
			qr := queryRequestFromStrings(st, false, tx, false)
			qr.Level = lvl
			c15Attach(qr.Request)
			_, _, _, err := s.Query(context.Background(), qr)
			return err
		}})
	}
	for _, lvl := range []proto.ConsistencyLevel{proto.ConsistencyLevel_NONE, proto.ConsistencyLevel_STRONG} {
		lvl := lvl
		entries = append(entries, entry{"Request/" + lvl.String(), func(st []string, tx bool) error {
			eqr := executeQueryRequestFromStrings(st, lvl, false, tx, false)
			c15Attach(eqr.Request)
			_, _, _, err := s.Request(context.Background(), eqr)
			return err
		}})
	}
	// statement shape: how the dangerous text travels inside the request. SQLite ignores bound
	// parameters that the text does not reference, so a PRAGMA may carry superfluous ones.
	shapes := []string{"plain", "positional-parameter", "named-parameter", "two-parameters"}
	c15Params = nil
	for _, sql := range texts {
		for _, e := range entries {
			for pos, mk := range []func() ([]string, bool){
				func() ([]string, bool) { return []string{sql}, false },
				func() ([]string, bool) { return []string{"SELECT 1", sql}, false },
				func() ([]string, bool) { return []string{sql, "SELECT 2"}, true },
			} {
				for _, shape := range shapes {
					if shape != "plain" && pos != 0 && !vfThorough() {
						continue // quick tier: parameterised shapes only as the sole statement
					}
					st, tx := mk()
					c15Params = map[string][]*proto.Parameter{}
					switch shape {
					case "positional-parameter":
						c15Params[sql] = []*proto.Parameter{{Value: &proto.Parameter_I{I: 1}}}
					case "named-parameter":
						c15Params[sql] = []*proto.Parameter{{Value: &proto.Parameter_S{S: "v"}, Name: "x"}}
					case "two-parameters":
						c15Params[sql] = []*proto.Parameter{{Value: &proto.Parameter_I{I: 1}}, {Value: &proto.Parameter_B{B: true}}}
					}
					err := e.run(st, tx)
					c15Params = nil
					after := c15StoreState(s)
					key := fmt.Sprintf("%q (%s) via %s position %d", sql, shape, e.name, pos)
					rep.Count("shape:" + shape)
					rep.Case(key, true)
					rep.Count("entry:" + e.name)
					if err == nil || !strings.Contains(err.Error(), "disallowed pragma") {
						rep.Fail("store-accepts-dangerous-pragma:"+e.name+":"+shape, fmt.Sprintf("%s: expected the request to be refused as a disallowed pragma, got error %v", key, err),
							map[string]interface{}{"sql": sql, "entry": e.name, "statements": st, "tx": tx, "shape": shape, "error": fmt.Sprint(err)})
					}
					if after != base {
						rep.Fail("store-setting-changed:"+e.name+":"+shape, fmt.Sprintf("%s: write-connection settings changed from %s to %s", key, base, after),
							map[string]interface{}{"sql": sql, "entry": e.name, "statements": st, "tx": tx, "shape": shape, "before": base, "after": after})
						base = after
					}
					rep.TracesValidated++
				}
			}
		}
	}
	// harmless statements still pass
	for _, sql := range []string{"PRAGMA synchronous", "PRAGMA foreign_keys", "SELECT 'PRAGMA synchronous=1'", "INSERT INTO foo(name) VALUES('PRAGMA query_only(1)')"} {
		if _, _, err := s.Execute(context.Background(), executeRequestFromString(sql, false, false)); err != nil {
			rep.Fail("store-refuses-harmless-statement", fmt.Sprintf("%q refused: %v", sql, err), map[string]interface{}{"sql": sql})
		}
		rep.Count("harmless-accepted")
	}
	rep.Sample(map[string]interface{}{"texts": len(texts), "entry_points": len(entries), "settings": base})
}

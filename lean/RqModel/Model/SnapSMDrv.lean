/-
Line-protocol driver for the store snapshotting model (component `snapsm`), C04.

  reset                         → ok
  write <id>                    → ok
  noop                          → ok
  snap <ok|notinvoked|failbefore|failafter>   → full | incremental | nowal | full-not-installed | incremental-not-installed
  load <content> / boot <content> / install <content>   → ok     content = ids comma-separated, `e` empty
  reap                          → ok
  restart                       → ok | corrupt
  db                            → content of the applied database
  state                         → staged=<n> snaps=<n> due=<full|incremental>
`…old` variants of every command run the pre-fix code (snapold, bootold, installold).
-/
import RqModel.Model.SnapSM
namespace RqModel.SnapSMDrv
open RqModel.Util RqModel.SnapSM

structure DState where
  s : SM := {}

def init : DState := {}

def contentTok (t : String) : Option C :=
  if t == "e" then some [] else (t.splitOn ",").mapM String.toNat?

def showC (c : C) : String := if c.isEmpty then "e" else ",".intercalate (c.map toString)

def outcomeTok (t : String) : Option Outcome :=
  if t == "ok" then some .ok else if t == "notinvoked" then some .notInvoked
  else if t == "failbefore" then some .failBefore else if t == "failafter" then some .failAfter else none

def stepLine (d : DState) (line : String) : DState × String :=
  let run (fixed : Bool) (op : Op) : DState × String :=
    let (s', o) := step fixed d.s op
    ({ s := s' }, o)
  match words line with
  | ["reset"] => ({}, "ok")
  | ["write", w] => match w.toNat? with
    | some w => run true (.write w)
    | none => (d, "bad-op")
  | ["noop"] => run true .noop
  | ["snap", o] => match outcomeTok o with
    | some o => run true (.snapshot o)
    | none => (d, "bad-op")
  | ["snapold", o] => match outcomeTok o with
    | some o => run false (.snapshot o)
    | none => (d, "bad-op")
  | ["load", c] => match contentTok c with
    | some c => run true (.load c)
    | none => (d, "bad-op")
  | ["boot", c] => match contentTok c with
    | some c => run true (.boot c)
    | none => (d, "bad-op")
  | ["bootold", c] => match contentTok c with
    | some c => run false (.boot c)
    | none => (d, "bad-op")
  | ["install", c] => match contentTok c with
    | some c => run true (.install c)
    | none => (d, "bad-op")
  | ["installold", c] => match contentTok c with
    | some c => run false (.install c)
    | none => (d, "bad-op")
  | ["reap"] => run true .reap
  | ["restart"] => run true .restart
  | ["db"] => (d, showC d.s.db)
  | ["state"] =>
    (d, s!"staged={d.s.staged.length} snaps={d.s.snaps.length} due={if fullDue d.s then "full" else "incremental"}")
  | _ => (d, "bad-op")

def step := stepLine

end RqModel.SnapSMDrv
--! driver: snapsm RqModel.SnapSMDrv

import RqModel.Model.SnapFS
namespace C07
open RqModel.SnapFS
theorem wip : True := trivial
end C07

#!/usr/bin/env python3
"""Regenerate DESIGN.md section 10 ("As built") between the markers
<!-- BEGIN AS-BUILT --> and <!-- END AS-BUILT --> from checks/*.json, the known-findings
files and seeded/RESULTS.md."""
import glob, json, os, re, subprocess
root = os.path.join(os.path.dirname(os.path.abspath(__file__)), "..")
props = {json.loads(l)["id"]: json.loads(l) for l in open(os.path.join(root, "properties.jsonl"))}
find = []
for p in [os.path.join(root, "known_findings.json")] + sorted(glob.glob(os.path.join(root, "known_findings.d", "*.json"))):
    find += json.load(open(p)).get("findings", [])
out = []
out.append("### 10.1 Per property, as built\n")
out.append("Generated from `checks/<ID>.json` (the text each builder wrote for its check). *Theorems* are the names\n"
           "`./check` requires to be present in the compiled `RqModel.Props.<ID>` (deleting one fails the check);\n"
           "each file holds more (helper and corollary theorems, non-vacuity examples).\n")
for pid in sorted(props):
    cp = os.path.join(root, "checks", pid + ".json")
    if not os.path.exists(cp):
        out.append("#### %s %s\nNot claimed.\n" % (pid, props[pid]["title"]))
        continue
    c = json.load(open(cp))
    mods = set()
    def deps(m):
        path = os.path.join(root, "lean", *m.split(".")) + ".lean"
        if m in mods or not os.path.exists(path): return
        mods.add(m)
        for line in open(path):
            mm = re.match(r"\s*import\s+(RqModel\.\S+)", line)
            if mm: deps(mm.group(1))
    for m in c.get("lean_modules", ["RqModel.Props." + pid]): deps(m)
    models = sorted(m.split(".")[-1] for m in mods if ".Model." in m and not m.endswith(".Util"))
    gens = sorted(m.split(".")[-1] for m in mods if ".Gen." in m)
    out.append("#### %s %s" % (pid, props[pid]["title"]))
    out.append("*Models:* %s.%s" % (", ".join("`Model/%s.lean`" % m for m in models) or "-",
               (" *Regenerated facts:* " + ", ".join("`Gen/%s`" % g for g in gens) + ".") if gens else ""))
    out.append("*Required theorems:* " + ", ".join("`%s`" % t.split(".", 1)[-1] for t in c.get("required_theorems", [])) + ".")
    out.append("*Method:* " + c.get("technique", ""))
    out.append("*What it gives:* " + c.get("level_text", ""))
    out.append("*Trusted / modelled, not verified:* " + c.get("level_note", ""))
    if c.get("assumptions"):
        out.append("*Assumptions:* " + "; ".join(c["assumptions"]))
    tests = "; ".join("`%s %s`" % (g["pkg"], g["run"]) for g in c.get("go", []))
    out.append("*Correspondence tests:* " + (tests or "none (facts + theorems only)"))
    fs = [f for f in find if f["property"] == pid]
    for f in fs:
        out.append("* %s%s `%s`: %s" % (f["status"], (" " + f["commit"]) if f.get("commit") else "", f["signature"], f["what"][:300]))
    out.append("")
# 10.2 regenerated facts: Gen module -> extractor file -> properties whose proof modules import it
out.append("### 10.2 Regenerated facts (tie A), as built\n")
out.append("| Gen module | extractor | first lines of the extractor's description | imported by the proofs of |")
out.append("|---|---|---|---|")
users = {}
for pid in sorted(props):
    cp = os.path.join(root, "checks", pid + ".json")
    if not os.path.exists(cp): continue
    c = json.load(open(cp)); seen = set()
    def deps2(m):
        path = os.path.join(root, "lean", *m.split(".")) + ".lean"
        if m in seen: return
        seen.add(m)
        if not os.path.exists(path): return
        for line in open(path):
            mm = re.match(r"\s*import\s+(RqModel\.\S+)", line)
            if mm: deps2(mm.group(1))
    for m in c.get("lean_modules", ["RqModel.Props." + pid]): deps2(m)
    for m in seen:
        if ".Gen." in m: users.setdefault(m.split(".")[-1], []).append(pid)
for fp in sorted(glob.glob(os.path.join(root, "harness", "extract", "facts_*.go"))):
    src = open(fp).read()
    for name in re.findall(r'register\("(\w+)"', src):
        desc = " ".join(l.strip("/ ").strip() for l in src.split("\n") if l.startswith("//"))[:260]
        out.append("| `%s` | `%s` | %s | %s |" % (name, os.path.basename(fp), desc.replace("|", "\\|"), ", ".join(users.get(name, [])) or "-"))
out.append("")
# 10.4 fix commits
out.append("### 10.4 Fix commits in /repo\n")
out.append("Every defect below was first reported by a check on the unchanged (or then-current) tree with a concrete\n"
           "failing input, then repaired by one unguarded `fix:` commit; the model was moved to the repaired behaviour,\n"
           "the full theorem proved, and the finding recorded as `fixed` (it suppresses nothing: the check reports the\n"
           "violation again if it returns). A few commits repair a regression or gap in an earlier fix that a review or a\n"
           "later check found. The pinned suite (guard off) passes with all of them.\n")
out.append("| commit | subject | property (from the findings files) |")
out.append("|---|---|---|")
bycommit = {}
for f in find:
    if f.get("commit"):
        bycommit.setdefault(f["commit"][:7], set()).add(f["property"])
log = subprocess.run(["git", "-C", "/repo", "log", "--reverse", "--format=%h\t%s", "6adfe41..HEAD"], stdout=subprocess.PIPE, text=True).stdout
for l in log.strip().split("\n"):
    if not l.strip(): continue
    h, subj = l.split("\t", 1)
    out.append("| `%s` | %s | %s |" % (h, subj.replace("|", "\\|"), ", ".join(sorted(bycommit.get(h[:7], []))) or "-"))
out.append("")
sr = os.path.join(root, "seeded", "RESULTS.md")
if os.path.exists(sr):
    out.append("### 10.3 Seeded changes: which check catches which change\n")
    out.append("Every `seeded/<name>/` holds an independently written change to rqlite (patch.diff), its demonstration\n"
               "(a test that fails with the change and passes without it), meta.json (what it breaks, what it needs to\n"
               "manifest, what was run) and the logs of our own confirmation. The authors saw only the property text.\n"
               "`tools/run_seeded.sh <name> <tier> [check ids]` applies one to a scratch worktree of /repo and runs the\n"
               "checks against it with VERIF_REPO; `tools/seed_matrix.sh` runs all of them. Last matrix:\n")
    out += [l for l in open(sr).read().split("\n") if not l.startswith("# ")] 
    out.append("")
text = "\n".join(out)
dp = os.path.join(root, "DESIGN.md")
d = open(dp).read()
b, e = "<!-- BEGIN AS-BUILT -->", "<!-- END AS-BUILT -->"
if b not in d:
    d += "\n## 10. As built\n\n" + b + "\n" + e + "\n"
d = d[:d.index(b) + len(b)] + "\n" + text + "\n" + d[d.index(e):]
open(dp, "w").write(d)
print("DESIGN.md section 10 regenerated (%d properties)" % len(props))

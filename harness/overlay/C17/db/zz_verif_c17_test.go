package db

// C17 (db level) correspondence + spec oracle: which connection each path of db.DB uses and
// what a text can do there, on real SQLite, vs. the Lean model `routing`
// (RqModel/Model/Routing.lean: dbQuery / dbRequest / dbExecute, classify).

import (
	"fmt"
	"os"
	"strconv"
	"strings"
	"testing"

	command "github.com/rqlite/rqlite/v10/command/proto"
)

var (
	c17dReads = []string{"SELECT 1", "SELECT count(*) FROM t", "EXPLAIN SELECT * FROM t", "EXPLAIN QUERY PLAN SELECT 1",
		"PRAGMA table_info(t)", "WITH c AS (SELECT 1) SELECT * FROM c", "SELECT ';'", "SELECT v FROM t ORDER BY id LIMIT 1",
		"SELECT 1 /* ; DELETE FROM t */", "VALUES (1)"}
	c17dTemps = []string{"CREATE TEMP TABLE IF NOT EXISTS tt(a)", "CREATE TEMP TABLE IF NOT EXISTS tt2 AS SELECT 1 AS a"}
)

func c17dWrite(n, variant int) string {
	switch variant % 4 {
	case 0:
		return fmt.Sprintf("INSERT INTO t(v) VALUES('k%d')", n)
	case 1:
		return fmt.Sprintf("INSERT INTO t(v) VALUES('k%d') RETURNING id", n)
	case 2:
		return fmt.Sprintf("WITH c AS (SELECT 'k%d' AS v) INSERT INTO t(v) SELECT v FROM c", n)
	default:
		return fmt.Sprintf("INSERT OR REPLACE INTO t(v) VALUES('k%d')", n)
	}
}

// c17dSQL renders an abstract text (`r,w5,t`) as one SQL string holding several statements.
func c17dSQL(text string, salt int) string {
	if text == "e" {
		return ""
	}
	var parts []string
	for i, s := range strings.Split(text, ",") {
		switch {
		case s == "r":
			parts = append(parts, c17dReads[(salt+i)%len(c17dReads)])
		case s == "t":
			parts = append(parts, c17dTemps[(salt+i)%len(c17dTemps)])
		case strings.HasPrefix(s, "w"):
			n, _ := strconv.Atoi(s[1:])
			parts = append(parts, c17dWrite(n, salt+i))
		}
	}
	sep := "; "
	if salt%3 == 0 {
		sep = ";\n"
	}
	return strings.Join(parts, sep)
}

func c17dGenText(r *vfRng, next *int) string {
	if r.Chance(4) {
		return "e"
	}
	n := 1 + r.Intn(4)
	var ss []string
	for i := 0; i < n; i++ {
		switch p := r.Intn(100); {
		case p < 55:
			ss = append(ss, "r")
		case p < 92:
			*next++
			ss = append(ss, "w"+strconv.Itoa(*next))
		default:
			ss = append(ss, "t")
		}
	}
	return strings.Join(ss, ",")
}

func c17dContent(d *DB) string {
	rows, err := d.QueryStringStmt("SELECT v FROM t ORDER BY id")
	if err != nil || len(rows) != 1 || rows[0].Error != "" {
		panic(fmt.Sprintf("c17: cannot read table: %v %v", err, rows))
	}
	var toks []string
	for _, v := range rows[0].Values {
		toks = append(toks, strings.TrimPrefix(v.Parameters[0].GetS(), "k"))
	}
	if len(toks) == 0 {
		return "-"
	}
	return strings.Join(toks, ".")
}

func c17dRunCase(ops []string, rep *vfReport) []string {
	d, path := mustCreateOnDiskDatabaseWAL()
	defer func() {
		d.Close()
		os.Remove(path)
		os.Remove(path + "-wal")
		os.Remove(path + "-shm")
	}()
	mustExecute(d, "CREATE TABLE t (id INTEGER PRIMARY KEY, v TEXT)")
	var out []string
	for i, l := range ops {
		f := strings.Fields(l)
		if l == "reset" {
			out = append(out, "ok")
			continue
		}
		if len(f) != 2 {
			out = append(out, "bad-op")
			continue
		}
		var texts []string
		if f[1] != "-" {
			texts = strings.Split(f[1], "|")
		}
		req := &command.Request{}
		var sqls []string
		for j, tx := range texts {
			s := c17dSQL(tx, i*7+j)
			sqls = append(sqls, s)
			req.Statements = append(req.Statements, &command.Statement{Sql: s})
		}
		before := c17dContent(d)
		var errs []string
		switch f[0] {
		case "dbquery":
			rows, err := d.Query(req, false)
			if err != nil {
				panic(err)
			}
			for _, r := range rows {
				errs = append(errs, c17dBit(r.Error != ""))
			}
		case "dbrequest", "dbexecute":
			var res []*command.ExecuteQueryResponse
			var err error
			if f[0] == "dbrequest" {
				res, err = d.Request(req, false)
			} else {
				res, err = d.Execute(req, false)
			}
			if err != nil {
				panic(err)
			}
			for _, r := range res {
				errs = append(errs, c17dBit(r.GetError() != "" || (r.GetQ() != nil && r.GetQ().Error != "")))
			}
		default:
			out = append(out, "bad-op")
			continue
		}
		after := c17dContent(d)
		e := "-"
		if len(errs) > 0 {
			e = strings.Join(errs, "")
		}
		out = append(out, after+" "+e)
		if rep == nil {
			continue
		}
		// ---- the property, on the observation ----
		replay := map[string]interface{}{"ops": ops[:i+1], "sql": sqls}
		rep.Count("op:" + f[0])
		nontrivial := false
		if f[0] == "dbquery" {
			for _, tx := range texts {
				if strings.Contains(tx, "w") {
					nontrivial = true
				}
			}
			if after != before {
				rep.Fail("query-path-changed-database", fmt.Sprintf("db.Query(%q) changed the table from %s to %s", sqls, before, after), replay)
			}
		}
		if f[0] == "dbrequest" {
			// texts SQLite classifies read-only must contribute nothing
			want := []string{}
			if before != "-" {
				want = strings.Split(before, ".")
			}
			for j, tx := range texts {
				if tx == "e" {
					continue
				}
				ro, err := d.StmtReadOnly(sqls[j])
				modelRO := strings.HasPrefix(tx, "r")
				if err != nil || ro != modelRO {
					rep.Fail("classification-differs", fmt.Sprintf("StmtReadOnly(%q) = %v, %v; the abstraction says %v", sqls[j], ro, err, modelRO), replay)
				}
				if ro {
					rep.Count("text:classified-read-only")
					if strings.Contains(tx, "w") {
						rep.Count("text:classified-read-only-with-writing-tail")
						nontrivial = true
					}
					continue
				}
				rep.Count("text:classified-read-write")
				for _, s := range strings.Split(tx, ",") {
					if strings.HasPrefix(s, "w") {
						want = append(want, s[1:])
					}
				}
			}
			w := "-"
			if len(want) > 0 {
				w = strings.Join(want, ".")
			}
			if after != w {
				rep.Fail("unified-readonly-classified-text-writes:db.Request", fmt.Sprintf("db.Request(%q): a text classified read-only changed the database: table is %s, the texts classified read-write account for %s", sqls, after, w), replay)
			}
		}
		rep.Case(l, nontrivial)
	}
	return out
}

func c17dBit(b bool) string {
	if b {
		return "1"
	}
	return "0"
}

func TestVerifC17(t *testing.T) {
	rep := vfNewReport("C17", "db level: fresh WAL database, 2-5 operations db.Query / db.Request / db.Execute with 0-3 texts of 1-4 statements (reads incl. EXPLAIN, PRAGMA table_info, CTE, comments and strings holding ';'; writes incl. RETURNING, CTE insert, REPLACE; TEMP tables; empty texts), several statements in ONE text; non-trivial = a query-path text containing a write, or a request text classified read-only with a writing tail; distinct by op line")
	defer rep.Write()
	if ops, ok := vfReplayOps(); ok {
		out := c17dRunCase(ops, rep)
		rep.vfCompare("routing", ops, out, func(o []string) []string { return c17dRunCase(o, nil) })
		return
	}
	r := vfNewRng(17)
	corpus := [][]string{
		{"reset", "dbrequest r,w1"},
		{"reset", "dbquery r,w1", "dbexecute w2", "dbquery w3|r"},
		{"reset", "dbrequest w1|r,w2|t,w3|e"},
	}
	var segOps, segImpl [][]string
	for _, c := range corpus {
		segOps = append(segOps, c)
		segImpl = append(segImpl, c17dRunCase(c, rep))
	}
	cases := vfScale(250, 15000)
	for c := 0; c < cases; c++ {
		ops := []string{"reset"}
		next := 0
		for n := 2 + r.Intn(4); n > 0; n-- {
			op := []string{"dbquery", "dbquery", "dbrequest", "dbrequest", "dbexecute"}[r.Intn(5)]
			var texts []string
			for k := r.Intn(4); k > 0; k-- {
				texts = append(texts, c17dGenText(r, &next))
			}
			ts := "-"
			if len(texts) > 0 {
				ts = strings.Join(texts, "|")
			}
			ops = append(ops, op+" "+ts)
		}
		out := c17dRunCase(ops, rep)
		if c < 2 {
			rep.Sample(map[string]interface{}{"ops": ops, "impl": out})
		}
		segOps = append(segOps, ops)
		segImpl = append(segImpl, out)
	}
	rep.vfCompareSegments("routing", segOps, segImpl)
}

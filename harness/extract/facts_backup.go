package main

// Backup (C21): syntactic facts about the code paths the C21 model abstracts.
//
//   clientBackupRawCopy      cluster/client.go (*Client).Backup: is there an io.Copy whose source
//                            is the connection itself (conn / a variable assigned conn), i.e. a
//                            branch that passes the stream on without decoding it?
//   clientBackupGzipReaders  number of gzip.NewReader calls in that function
//   dumpBeginsReadTx         db/db.go (*DB).Dump: a BEGIN (ExecContext "BEGIN" or BeginTx) on the
//                            connection precedes the first query
//   dumpEndsTx               ... and a deferred ROLLBACK/COMMIT/Rollback exists
//   backupCopyUnderGate      store/store.go (*Store).Backup: snapshotCAS.BeginWithRetry("backup", ..)
//                            precedes os.Open(s.dbPath), followed by a deferred snapshotCAS.End()
//   checkpointSites          every call of a method named Checkpoint in store/*.go: "file:func"
//   snapshotCheckpointsUnderGate  in fsmSnapshot, snapshotCAS.Begin("snapshot") (+ deferred End)
//                            precedes the first Checkpoint call
//   serviceForcesCompress    cluster/service.go handleConn: `br.Compress = true` precedes s.db.Backup

import (
	"go/ast"
	"go/token"
	"sort"
	"strings"
)

func posOfCall(x *X, body ast.Node, pred func(c *ast.CallExpr) bool) token.Pos {
	var p token.Pos
	ast.Inspect(body, func(n ast.Node) bool {
		if c, ok := n.(*ast.CallExpr); ok && p == 0 && pred(c) {
			p = c.Pos()
		}
		return true
	})
	return p
}

func hasDeferCall(x *X, body ast.Node, pred func(c *ast.CallExpr) bool) bool {
	found := false
	ast.Inspect(body, func(n ast.Node) bool {
		if d, ok := n.(*ast.DeferStmt); ok && pred(d.Call) {
			found = true
		}
		return true
	})
	return found
}

func init() {
	register("Backup", func(x *X) {
		// ---- cluster/client.go (*Client).Backup
		x.Comment("cluster/client.go (*Client).Backup")
		if fd := x.Func("cluster", "Client", "Backup"); fd != nil {
			// variables that alias the connection
			alias := map[string]bool{"conn": true}
			ast.Inspect(fd.Body, func(n ast.Node) bool {
				if as, ok := n.(*ast.AssignStmt); ok && len(as.Lhs) == 1 && len(as.Rhs) == 1 {
					if r, ok := as.Rhs[0].(*ast.Ident); ok && alias[r.Name] {
						if l, ok := as.Lhs[0].(*ast.Ident); ok {
							alias[l.Name] = true
						}
					}
				}
				return true
			})
			raw := false
			for _, c := range x.Calls(fd.Body, "Copy") {
				if x.CalleePath(c) == "io.Copy" && len(c.Args) == 2 {
					if id, ok := c.Args[1].(*ast.Ident); ok && alias[id.Name] {
						raw = true
					}
				}
			}
			n := 0
			for _, c := range x.Calls(fd.Body, "NewReader") {
				if x.CalleePath(c) == "gzip.NewReader" {
					n++
				}
			}
			x.DefOptBool("clientBackupRawCopy", raw, true)
			x.DefOptInt("clientBackupGzipReaders", int64(n), true)
		} else {
			x.DefOptBool("clientBackupRawCopy", false, false)
			x.DefOptInt("clientBackupGzipReaders", 0, false)
		}

		// ---- db/db.go (*DB).Dump
		x.Comment("db/db.go (*DB).Dump")
		if fd := x.Func("db", "DB", "Dump"); fd != nil {
			isBegin := func(c *ast.CallExpr) bool {
				if calleeName(c) == "BeginTx" {
					return true
				}
				if calleeName(c) == "ExecContext" && len(c.Args) >= 2 {
					return strings.EqualFold(strings.Trim(x.Src(c.Args[1]), "\"`"), "BEGIN")
				}
				return false
			}
			isEnd := func(c *ast.CallExpr) bool {
				if calleeName(c) == "Rollback" || calleeName(c) == "Commit" {
					return true
				}
				if calleeName(c) == "ExecContext" && len(c.Args) >= 2 {
					s := strings.ToUpper(strings.Trim(x.Src(c.Args[1]), "\"`"))
					return s == "ROLLBACK" || s == "COMMIT"
				}
				return false
			}
			b := posOfCall(x, fd.Body, isBegin)
			q := posOfCall(x, fd.Body, func(c *ast.CallExpr) bool { return calleeName(c) == "queryWithConn" })
			x.DefOptBool("dumpBeginsReadTx", b != 0 && q != 0 && b < q, q != 0)
			x.DefOptBool("dumpEndsTx", hasDeferCall(x, fd.Body, isEnd), true)
			// every use of the receiver inside Dump, in source order: "callee/last argument" for a
			// call on db or one of its fields, "passes-db:callee" for a call handed db itself.
			// All reads must go through the ONE connection the transaction was begun on.
			var uses []string
			ast.Inspect(fd.Body, func(n ast.Node) bool {
				c, ok := n.(*ast.CallExpr)
				if !ok {
					return true
				}
				callee := x.Src(c.Fun)
				if strings.HasPrefix(callee, "db.") {
					last := ""
					if len(c.Args) > 0 {
						last = x.Src(c.Args[len(c.Args)-1])
					}
					uses = append(uses, callee+"/"+last)
				}
				for _, a := range c.Args {
					if id, ok := a.(*ast.Ident); ok && id.Name == "db" {
						uses = append(uses, "passes-db:"+callee)
					}
				}
				return true
			})
			x.DefStrings("dumpReceiverUses", uses)
			// how many if-statements in Dump test a result's Error field for being non-empty
			nErr := 0
			ast.Inspect(fd.Body, func(n ast.Node) bool {
				if is, ok := n.(*ast.IfStmt); ok {
					c := x.Src(is.Cond)
					if strings.HasSuffix(c, `.Error != ""`) && strings.Contains(x.Src(is.Body), "return ") {
						nErr++
					}
				}
				return true
			})
			x.DefOptInt("dumpResultErrorChecks", int64(nErr), true)
		} else {
			x.DefOptInt("dumpResultErrorChecks", 0, false)
			x.DefOptBool("dumpBeginsReadTx", false, false)
			x.DefOptBool("dumpEndsTx", false, false)
			x.DefStrings("dumpReceiverUses", nil)
		}

		// ---- store/store.go (*Store).Backup
		x.Comment("store/store.go (*Store).Backup: binary copy of the main file under the snapshot gate")
		if fd := x.Func("store", "Store", "Backup"); fd != nil {
			g := posOfCall(x, fd.Body, func(c *ast.CallExpr) bool {
				return calleeName(c) == "BeginWithRetry" && strings.HasSuffix(x.CalleePath(c), "snapshotCAS.BeginWithRetry") &&
					len(c.Args) > 0 && x.Src(c.Args[0]) == `"backup"`
			})
			o := posOfCall(x, fd.Body, func(c *ast.CallExpr) bool {
				return x.CalleePath(c) == "os.Open" && len(c.Args) == 1 && x.Src(c.Args[0]) == "s.dbPath"
			})
			end := hasDeferCall(x, fd.Body, func(c *ast.CallExpr) bool { return strings.HasSuffix(x.CalleePath(c), "snapshotCAS.End") })
			x.DefOptBool("backupCopyUnderGate", g != 0 && o != 0 && g < o && end, o != 0)
		} else {
			x.DefOptBool("backupCopyUnderGate", false, false)
		}

		// ---- checkpoint call sites in store
		x.Comment("every call of a method named Checkpoint in store/*.go (file:function)")
		var sites []string
		for fn, f := range x.Pkg("store") {
			for _, d := range f.Decls {
				fd, ok := d.(*ast.FuncDecl)
				if !ok || fd.Body == nil {
					continue
				}
				for range x.Calls(fd.Body, "Checkpoint") {
					sites = append(sites, fn+":"+fd.Name.Name)
				}
			}
		}
		sort.Strings(sites)
		x.DefStrings("checkpointSites", sites)
		if fd := x.Func("store", "Store", "fsmSnapshot"); fd != nil {
			g := posOfCall(x, fd.Body, func(c *ast.CallExpr) bool {
				return strings.HasSuffix(x.CalleePath(c), "snapshotCAS.Begin") && len(c.Args) > 0 && x.Src(c.Args[0]) == `"snapshot"`
			})
			cp := posOfCall(x, fd.Body, func(c *ast.CallExpr) bool { return calleeName(c) == "Checkpoint" })
			end := hasDeferCall(x, fd.Body, func(c *ast.CallExpr) bool { return strings.HasSuffix(x.CalleePath(c), "snapshotCAS.End") })
			x.DefOptBool("snapshotCheckpointsUnderGate", g != 0 && cp != 0 && g < cp && end, cp != 0)
		} else {
			x.DefOptBool("snapshotCheckpointsUnderGate", false, false)
		}

		// ---- store/store.go (*Store).Backup: the gzip writer is closed only when the backup succeeded
		x.Comment("store/store.go (*Store).Backup: every deferred closure that calls dstGz.Close() first returns if retErr != nil")
		if fd := x.Func("store", "Store", "Backup"); fd != nil {
			n, guarded := 0, 0
			ast.Inspect(fd.Body, func(nd ast.Node) bool {
				d, ok := nd.(*ast.DeferStmt)
				if !ok {
					return true
				}
				fl, ok := d.Call.Fun.(*ast.FuncLit)
				if !ok || len(x.Calls(fl.Body, "Close")) == 0 || !strings.Contains(x.Src(fl.Body), "dstGz.Close()") {
					return true
				}
				n++
				if len(fl.Body.List) > 0 {
					if is, ok := fl.Body.List[0].(*ast.IfStmt); ok && x.Src(is.Cond) == "retErr != nil" && len(is.Body.List) == 1 {
						if _, ok := is.Body.List[0].(*ast.ReturnStmt); ok {
							guarded++
						}
					}
				}
				return true
			})
			x.DefOptInt("backupGzipCloseSites", int64(n), true)
			x.DefOptBool("backupGzipClosedOnlyOnSuccess", n > 0 && n == guarded, n > 0)
		} else {
			x.DefOptInt("backupGzipCloseSites", 0, false)
			x.DefOptBool("backupGzipClosedOnlyOnSuccess", false, false)
		}

		// ---- http/service.go handleBackup: a failure after the first byte aborts the response
		x.Comment("http/service.go (*Service).handleBackup: the error branch of proxy.Backup panics with http.ErrAbortHandler when the response has started")
		if fd := x.Func("http", "Service", "handleBackup"); fd != nil {
			found := false
			ast.Inspect(fd.Body, func(nd ast.Node) bool {
				is, ok := nd.(*ast.IfStmt)
				if !ok || !strings.HasSuffix(x.Src(is.Cond), ".started") {
					return true
				}
				for _, c := range x.Calls(is.Body, "panic") {
					if len(c.Args) == 1 && x.Src(c.Args[0]) == "http.ErrAbortHandler" {
						found = true
					}
				}
				return true
			})
			x.DefOptBool("httpBackupAbortsStartedResponse", found, true)
		} else {
			x.DefOptBool("httpBackupAbortsStartedResponse", false, false)
		}

		// ---- store/store.go (*Store).Backup: which errors of the pre-backup snapshot are tolerated
		x.Comment("store/store.go (*Store).Backup: condition under which a failed pre-backup Snapshot(0) makes Backup fail")
		cond := ""
		if fd := x.Func("store", "Store", "Backup"); fd != nil {
			ast.Inspect(fd.Body, func(nd ast.Node) bool {
				is, ok := nd.(*ast.IfStmt)
				if !ok {
					return true
				}
				// pre-order walk: the last match is the innermost enclosing if
				if strings.Contains(x.Src(is.Body), "pre-backup snapshot failed") {
					cond = strings.Join(strings.Fields(x.Src(is.Cond)), " ")
					if is.Init != nil {
						cond = "INIT " + strings.Join(strings.Fields(x.Src(is.Init)), " ") + " ; " + cond
					}
				}
				return true
			})
		}
		x.DefString("preBackupSnapshotFailsWhen", cond)

		// ---- http/service.go: methods of the response-writer wrapper used by handleBackup. A ReadFrom
		// or WriterTo method would let io.Copy bypass Write and with it the `started` flag.
		x.Comment("http/service.go: methods declared on backupResponseWriter (sorted)")
		var meths []string
		for _, f := range x.Pkg("http") {
			for _, d := range f.Decls {
				if fd, ok := d.(*ast.FuncDecl); ok && fd.Recv != nil && len(fd.Recv.List) == 1 && recvName(fd.Recv.List[0].Type) == "backupResponseWriter" {
					meths = append(meths, fd.Name.Name)
				}
			}
		}
		sort.Strings(meths)
		x.DefStrings("backupResponseWriterMethods", meths)

		// ---- cluster/service.go handleConn: compression forced on the wire
		x.Comment("cluster/service.go handleConn: br.Compress = true before s.db.Backup(.., br, conn)")
		if fd := x.Func("cluster", "Service", "handleConn"); fd != nil {
			var as token.Pos
			ast.Inspect(fd.Body, func(n ast.Node) bool {
				if a, ok := n.(*ast.AssignStmt); ok && as == 0 && len(a.Lhs) == 1 && len(a.Rhs) == 1 &&
					x.Src(a.Lhs[0]) == "br.Compress" && x.Src(a.Rhs[0]) == "true" {
					as = a.Pos()
				}
				return true
			})
			bk := posOfCall(x, fd.Body, func(c *ast.CallExpr) bool {
				return x.CalleePath(c) == "s.db.Backup" && len(c.Args) == 3 && x.Src(c.Args[2]) == "conn"
			})
			x.DefOptBool("serviceForcesCompress", as != 0 && bk != 0 && as < bk, bk != 0)
		} else {
			x.DefOptBool("serviceForcesCompress", false, false)
		}
	})
}

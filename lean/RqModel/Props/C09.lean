/-
C09  Snapshot catalog stays well-formed and full-needed is honoured.

Model: RqModel/Model/SnapCat.lean (snapshot/store.go Create/List/DueNext/SetDueNext/NewStore,
snapshot/sink.go Open/Write/Close/Cancel as of the `fix:` commits 32ed8a9 and 352e039, sink_full.go) over the
directory model RqModel/Model/SnapFS.lean. Lemmas: RqModel/Lemmas/SnapCat.lean.

Operation sequences are arbitrary lists of `COp` (create, full payload {complete, short, bad CRC},
incremental payload, close, close with a failing final rename, cancel, SetDueNext(Full), reopen,
crash at any of the four points inside Close) subject to `OpOK`: one sink open at a time, created
with a fresh name and a (term, index) not below any listed snapshot, incremental payloads carry at
least one WAL file without duplicates; reap (run to completion; crashes inside it are C07) with no
sink open and a fresh name (`OpOK'`). Lemmas/SnapCatReap.lean bridges the catalog invariant to C07's
well-formedness `WF`, so reap is part of the induction.
-/
import RqModel.Lemmas.SnapCatReap
import RqModel.Gen.SinkShape
import RqModel.Gen.PlanShapes
namespace C09
open RqModel.SnapFS RqModel.SnapCat

variable {D : Type}

/-- After any admissible operation sequence on an empty store — sinks that complete, fail, are
cancelled, or are cut by a crash inside Close, restarts, SetDueNext(Full) AND reaps (consolidating,
remove-only or with nothing to do) —: listing succeeds and shows only directories that completed
the final rename (`Listed`: not temporary, meta.json naming the directory, a database with matching
CRC or at least one WAL file), and every listed incremental has a listed full snapshot at or
before it in (term, index, name) order. -/
theorem catalog_inv (A : DbAlg D) (laws : DbLaws A) (ops : List (COp D)) (hok : OpsOK' A {} ops) :
    let s := runOps A {} ops
    (∃ xs, scan s.fs = .ok xs ∧ ∀ x ∈ xs, Listed s.fs x) ∧
    (∀ n d, Live s.fs n d → d.db = none →
      ∃ n' d', Live s.fs n' d' ∧ d'.db.isSome ∧ keyLe (keyOf n' d') (keyOf n d)) := by
  have hinv := (runOps_inv' A laws ops {} catInv_empty fsInv_empty hok).1
  exact ⟨scan_ok hinv, hinv.based⟩

/-- … the listing is sorted oldest first by (term, index, name), without duplicate names
(List() returns its reverse: newest first) … -/
theorem list_sorted (A : DbAlg D) (laws : DbLaws A) (ops : List (COp D)) (hok : OpsOK' A {} ops)
    (xs : List (Snap D)) (h : scan (runOps A {} ops).fs = .ok xs) :
    xs.Pairwise (fun a b => keyLe (snapKey a) (snapKey b)) ∧ (xs.map (·.name)).Nodup :=
  ⟨scan_sorted h, (scan_names (runOps_inv' A laws ops {} catInv_empty fsInv_empty hok).2 h).1⟩

/-- … and EVERY listed snapshot resolves: walking back from it through the sorted listing reaches a
full snapshot, so ResolveFiles returns one database file followed by the WAL files of the
incrementals after it, in listing order (`resolveRev`). -/
theorem listed_resolves (A : DbAlg D) (laws : DbLaws A) (ops : List (COp D)) (hok : OpsOK' A {} ops)
    (xs : List (Snap D)) (h : scan (runOps A {} ops).fs = .ok xs) (i : Nat) (hi : i < xs.length) :
    (resolveRev (xs.take (i + 1)).reverse).isSome := by
  have hinv := runOps_inv' A laws ops {} catInv_empty fsInv_empty hok
  exact RqModel.SnapCat.listed_resolves hinv.1 hinv.2 h i hi

/-- The catalog invariant gives exactly the hypotheses under which C07 proves reap crash-safe:
before any reap inside an admissible sequence the store is well-formed in C07's sense. -/
theorem reap_precondition_from_invariant (A : DbAlg D) (laws : DbLaws A) (ops : List (COp D)) (hok : OpsOK' A {} ops)
    (nn : Nat) (hreap : OpOK' (runOps A {} ops) (.reap nn)) (xs o : List (Snap D)) (f : Snap D) (n : List (Snap D))
    (hscan : scan (runOps A {} ops).fs = .ok xs) (hsplit : splitLastFull xs = some (o, f, n)) :
    ∃ d0 dw0, WF (reapCtx A (runOps A {} ops) o f n d0 nn) (runOps A {} ops).fs dw0 := by
  have hinv := runOps_inv' A laws ops {} catInv_empty fsInv_empty hok
  exact wf_of_inv A laws hinv.1 hinv.2 hscan hsplit nn hreap.2.1 hreap.2.2

/-- Close never installs an incremental snapshot while a full one is due (FULL_NEEDED set or the
store empty), whenever that came about (before or after the header was accepted). -/
theorem no_incremental_while_full_needed (s : CS D) (h : Nat) (k : Sink D) (wals : List Nat)
    (hk : getSink s h = some k) (ho : k.opened = true) (hi : k.hdr = .inc wals)
    (hok : (close 2 s h).2 = "ok") : fullDue s.fs = false :=
  close_inc_needs_no_full s h k wals hk hi hok ho

/-- … and the header Write refuses it in the first place. -/
theorem incremental_header_refused_when_full_due (s : CS D) (h : Nat) (k : Sink D) (wals : List Nat)
    (hk : getSink s h = some k) (hh : k.hdr = .none) (hf : fullDue s.fs = true) :
    (writeInc s h wals).2 = "err full-needed" := by
  simp [writeInc, hk, hh, hf]

/-- The requirement is cleared only by a Close that returned success (which installs a snapshot):
no other operation, no failed or cancelled sink, no crash, reap or restart clears it … -/
theorem full_needed_cleared_only_by_install (A : DbAlg D) (s : CS D) (op : COp D)
    (h1 : s.fs.fullNeeded = true) (h2 : (stepOp A s op).1.fs.fullNeeded = false) :
    ∃ h, op = .close h ∧ (stepOp A s op).2 = "ok" :=
  fullNeeded_cleared_only_by_close A s op h1 h2

/-- … an incremental snapshot never clears it … -/
theorem incremental_never_clears_requirement (s : CS D) (h : Nat) (k : Sink D) (wals : List Nat)
    (hk : getSink s h = some k) (hi : k.hdr = .inc wals) (ho : k.opened = true) :
    (close 2 s h).1.fs.fullNeeded = s.fs.fullNeeded :=
  close_inc_keeps_requirement s h k wals hk hi ho

/-- … and a full snapshot clears only the requirement that was in force when its sink was
created: one raised afterwards (a load applied while the snapshot is being persisted) survives. -/
theorem requirement_raised_after_capture_survives (s : CS D) (h : Nat) (k : Sink D)
    (hk : getSink s h = some k) (ho : k.opened = true) (hf : s.fs.fullNeeded = true)
    (hlater : k.tok ≠ some s.fnGen) : (close 2 s h).1.fs.fullNeeded = true :=
  close_full_keeps_later_requirement s h k hk ho hf hlater

/-! ### the defects repaired in /repo, as checked counterexamples on the older code levels -/

/-- 32ed8a9 (level 0 → 1): create; full; close; create; incremental header accepted;
SetDueNext(Full); close ⇒ the incremental is installed and the requirement cleared. -/
def witnessInc : CS (List Nat) :=
  let s := create {} 1 1 10 1
  let s := (writeFull s 1 [1] [] .ok).1
  let s := (close 2 s 1).1
  let s := create s 2 2 20 1
  let s := (writeInc s 2 [2]).1
  setFull s

theorem close_before_fix_witness :
    witnessInc.fs.fullNeeded = true ∧
    (close 0 witnessInc 2).2 = "ok" ∧ (close 0 witnessInc 2).1.fs.fullNeeded = false ∧
    ((close 0 witnessInc 2).1.fs.dir 2).isSome = true ∧
    (close 2 witnessInc 2).2 = "err full-needed" ∧ (close 2 witnessInc 2).1.fs.fullNeeded = true := by
  decide

/-- 352e039 (level 1 → 2): a full snapshot whose sink was created before the requirement was
raised (the content is older than the requirement) still cleared it when installed. -/
def witnessFull : CS (List Nat) :=
  let s := create {} 1 1 10 1
  let s := (writeFull s 1 [1] [] .ok).1
  setFull s

theorem full_close_cleared_later_requirement_witness :
    witnessFull.fs.fullNeeded = true ∧
    (close 1 witnessFull 1).2 = "ok" ∧ (close 1 witnessFull 1).1.fs.fullNeeded = false ∧
    (close 2 witnessFull 1).2 = "ok" ∧ (close 2 witnessFull 1).1.fs.fullNeeded = true := by
  decide

/-! ### tie to the source (regenerated on every run) -/

/-- Close re-examines the requirement before consuming anything, clears it only after the final
rename — for a full snapshot carrying a token only, by compare-and-clear under the store's lock —,
and the crash cuts of the model follow the source order of its steps; Write refuses an incremental
header while a full snapshot is due. -/
theorem sink_shape_from_source :
    RqModel.Gen.SinkShape.closeSteps =
      ["recheck-DueNext", "rename-waldir-into-tmp", "move-wal-files", "fullsink-close", "write-meta",
       "rename-tmp-to-final", "clear-captured-requirement"] ∧
    RqModel.Gen.SinkShape.writeGateRefusesIncrementalWhenFullDue = some true ∧
    RqModel.Gen.SinkShape.clearGuard = "s.stc != nil && s.localWALDir == \"\" && s.hasFullNeededToken" ∧
    RqModel.Gen.SinkShape.clearComparesToken = true ∧
    RqModel.Gen.SinkShape.requirementChangesSerialized = true := by decide

/-- `COp` enumerates every mutator of FULL_NEEDED: in the non-test sources nothing calls
SetDueNext with an argument other than Full; the only way down is the sink's compare-and-clear. -/
theorem requirement_mutators_pinned : RqModel.Gen.SinkShape.setDueNextNonFullCallers = [] := by decide

/-- `catalog_inv` admits only COMPLETED reaps; a crash inside one is C07's, whose theorems need the
plan on disk before the first removal. That holds on every path of reapInternal, the remove-only
branch included. -/
theorem reap_plans_before_mutating_from_source :
    RqModel.Gen.PlanShapes.reapWriteBeforeExecute = some true ∧
    RqModel.Gen.PlanShapes.reapExecuteSites = ["resumes-plan-read-from-file", "after-plan-written"] := by decide

/-! ### non-vacuity: an admissible sequence with a failed sink, an incremental and a crash -/

def exOps : List (COp (List Nat)) :=
  [.create 1 1 10 1, .wfull 1 [1] [] .short, .close 1, .cancel 1, .reopen,
   .create 2 2 20 1, .wfull 2 [1, 2] [] .ok, .close 2,
   .create 3 3 30 1, .winc 3 [3], .close 3,
   .setFull, .create 4 4 40 2, .wfull 4 [1, 2, 3, 4] [] .ok, .crashClose 4 .renamed, .reopen]

def exAlg : DbAlg (List Nat) := ⟨fun d w => d ++ [w]⟩

example : ((runOps exAlg {} exOps).fs.dir 3).isSome = true ∧ ((runOps exAlg {} exOps).fs.dir 4).isSome = true ∧
    (runOps exAlg {} exOps).fs.fullNeeded = true := by decide

/-- the side conditions are satisfiable: an admissible sequence (incl. the SetDueNext(Full) between
header and close that the fix makes Close refuse) -/
def exOK : List (COp (List Nat)) :=
  [.create 1 1 10 1, .wfull 1 [1] [] .ok, .close 1, .create 2 2 20 1, .winc 2 [2], .setFull, .close 2, .cancel 2]

example : OpsOK exAlg {} exOK := by
  refine ⟨⟨rfl, ?_, ?_⟩, trivial, trivial, ⟨?_, ?_, ?_⟩, ?_, trivial, trivial, trivial, trivial⟩
  · intro h k hk; simp [getSink] at hk
  · intro n d hl; cases hl.1
  · simp [stepOp, create, writeFull, close, getSink, putSink, finalDir, FS.set]
  · intro h k hk
    simp [stepOp, create, writeFull, close, getSink, putSink, finalDir] at hk
    rw [← hk.2]
  · intro n d hl
    obtain ⟨h1, h2⟩ := hl
    simp [stepOp, create, writeFull, close, getSink, putSink, finalDir, FS.set] at h1
    split at h1
    · cases h1
      rename_i hn
      subst hn
      simp [keyOf, keyLe]
    · cases h1
  · show ([2] : List Nat) ≠ []; simp


/-! ### non-vacuity of the reap-admitting side conditions -/

def exA9 : DbAlg Nat := ⟨fun d w => max d w⟩
theorem exLaws9 : DbLaws exA9 := ⟨fun d w => by simp [exA9], fun d => by simp [exA9]⟩
def exOK9 : List (COp Nat) :=
  [.create 1 1 10 1, .wfull 1 5 [] .ok, .close 1, .create 2 2 20 1, .winc 2 [7], .setFull, .close 2, .cancel 2,
   .create 3 3 30 1, .wfull 3 6 [] .ok, .crashClose 3 .renamed, .reopen,
   .create 4 4 40 2, .winc 4 [8, 9], .close 4, .reap 50]
/-- the side conditions of `catalog_inv` (with a refused incremental, a crash inside Close, a restart and a
consolidating reap) are satisfiable -/
example : OpsOK' exA9 {} exOK9 := opsOKB_sound exA9 exLaws9 _ _ catInv_empty fsInv_empty (by decide)


/-! ### overlapping sinks: the one-sink-at-a-time condition is needed (`catalog_inv` is the `_partial`) -/

def overlapOps : List (COp Nat) :=
  [.create 1 5 50 1, .create 2 9 90 1, .wfull 2 7 [] .ok, .close 2, .winc 1 [3], .close 1]

theorem dir5 : (runOps exA9 {} overlapOps).fs.dir 5 = some { tmp := false, mt := some ⟨5, 50, 1⟩, wals := [3] } := by rfl
theorem dir9 : (runOps exA9 {} overlapOps).fs.dir 9 = some { tmp := false, mt := some ⟨9, 90, 1⟩, db := some 7, crc := some 7, wals := [] } := by rfl
theorem dirOther (n : Nat) (h5 : n ≠ 5) (h9 : n ≠ 9) : (runOps exA9 {} overlapOps).fs.dir n = none := by
  simp [overlapOps, runOps, stepOp, create, writeFull, writeInc, close, getSink, putSink, finalDir, FS.set, fullDue,
    snapshotCount, liveDirs, addName, clearedBy, h5, h9]

/-- the catalog clause of the property without the one-sink-at-a-time condition: every listed
incremental has a listed full snapshot at or before it -/
def Based (s : CS Nat) : Prop :=
  ∀ n d, Live s.fs n d → d.db = none → ∃ n' d', Live s.fs n' d' ∧ d'.db.isSome ∧ keyLe (keyOf n' d') (keyOf n d)

/-- side conditions with overlapping sinks allowed: as `OpOK'`, but a sink may be created while
another one is open (fresh name still required) -/
def OpOKo (s : CS Nat) : COp Nat → Prop
  | .create _ name _ _ => s.fs.dir name = none ∧ name ∉ s.fs.names
  | op => OpOK' s op

def OpsOKo (A : DbAlg Nat) : CS Nat → List (COp Nat) → Prop
  | _, [] => True
  | s, o :: os => OpOKo s o ∧ OpsOKo A (stepOp A s o).1 os

def C09_full : Prop := ∀ ops : List (COp Nat), OpsOKo exA9 {} ops → Based (runOps exA9 {} ops)

/-- Overlapping sinks, which hashicorp/raft permits (installSnapshot is not serialized with a local
snapshot's Persist): a local sink is created at (term 1, index 50); a snapshot from the leader at
index 90 is created, written and installed into the EMPTY store; the local sink then gets an
incremental header — accepted, the store is no longer empty and no full snapshot is due — and is
closed: the catalog lists an incremental at index 50 below the only full snapshot (index 90),
which does not resolve. The store never does this (it takes an incremental only when a full
snapshot at a lower index is already installed: C04); the sink API alone does not prevent it. -/
theorem overlapping_sinks_witness : OpsOKo exA9 {} overlapOps ∧ ¬ Based (runOps exA9 {} overlapOps) := by
  constructor
  · refine ⟨⟨rfl, by simp⟩, ⟨?_, ?_⟩, ?_, trivial, ?_, trivial, trivial⟩
    · rfl
    · simp [stepOp, create, putSink, addName, FS.set]
    · exact List.nodup_nil
    · exact ⟨by simp, by simp⟩
  · intro hb
    obtain ⟨n', d', hl, hfull, hle⟩ := hb 5 _ ⟨dir5, rfl⟩ rfl
    by_cases h5 : n' = 5
    · subst h5
      have := hl.1
      rw [dir5] at this
      cases this
      cases hfull
    · by_cases h9 : n' = 9
      · subst h9
        have := hl.1
        rw [dir9] at this
        cases this
        simp [keyOf, keyLe] at hle
      · have := hl.1
        rw [dirOther n' h5 h9] at this
        cases this

theorem C09_full_fails : ¬ C09_full := fun h => overlapping_sinks_witness.2 (h _ overlapping_sinks_witness.1)


end C09

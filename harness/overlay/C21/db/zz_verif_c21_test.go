package db

// C21 (SQL format, identifiers): db.Dump on databases whose table and column names need
// quoting (double quotes, single quotes, spaces, keywords, punctuation, non-ASCII), with rows
// of every storage class. Oracle: Dump either returns an error, or its output loads into an
// empty database that has the same schema objects and the same rows as the source.
// "A backup that cannot be produced completely is reported as an error."

import (
	"bytes"
	"fmt"
	"os"
	"path/filepath"
	"sort"
	"strings"
	"testing"
)

func c21QuoteIdent(s string) string { return `"` + strings.ReplaceAll(s, `"`, `""`) + `"` }

// c21Contents lists schema objects and, per table, its rows in rowid order.
func c21Contents(d *DB) (schema []string, rows map[string][]string, err error) {
	r, err := d.QueryStringStmt(`SELECT type, name, sql FROM sqlite_master WHERE name NOT LIKE 'sqlite_%'`)
	if err != nil {
		return nil, nil, err
	}
	if r[0].Error != "" {
		return nil, nil, fmt.Errorf("%s", r[0].Error)
	}
	rows = map[string][]string{}
	for _, v := range r[0].Values {
		typ, name := v.Parameters[0].GetS(), v.Parameters[1].GetS()
		schema = append(schema, typ+":"+name+":"+v.Parameters[2].GetS())
		if typ != "table" {
			continue
		}
		q, err := d.QueryStringStmt(`SELECT * FROM ` + c21QuoteIdent(name) + ` ORDER BY rowid`)
		if err != nil {
			return nil, nil, err
		}
		if q[0].Error != "" {
			return nil, nil, fmt.Errorf("%s: %s", name, q[0].Error)
		}
		rows[name] = []string{}
		for _, vv := range q[0].Values {
			rows[name] = append(rows[name], fmt.Sprintf("%v", vv.Parameters))
		}
	}
	sort.Strings(schema)
	return schema, rows, nil
}

func TestVerifC21Dump(t *testing.T) {
	rep := vfNewReport("C21", "db.Dump (the SQL backup format) on generated schemas whose table/column names need quoting, each table holding rows; the dump must either fail or load into an empty database with the same schema objects and rows. A case is non-trivial when a name contains a quote character or a space; distinct by schema text")
	defer rep.Write()
	dir := t.TempDir()
	r := vfNewRng(2121)

	alphabet := []string{"a", "b", "Z", "_", "1", " ", `"`, `'`, "%", ";", "-", ".", "é", "select", "(", ")", ","}
	name := func(prefix string) string {
		n := 1 + r.Intn(4)
		s := prefix
		for i := 0; i < n; i++ {
			s += alphabet[r.Intn(len(alphabet))]
		}
		return s
	}
	type tcase struct {
		tables []string
		cols   [][]string
		extra  []string
	}
	directed := []tcase{
		{tables: []string{"q"}, cols: [][]string{{`a"b`}}},                   // the reported case
		{tables: []string{`it's`}, cols: [][]string{{"x"}}},                  // single quote in a table name
		{tables: []string{`t"1`}, cols: [][]string{{"x", `y z`}}},            // double quote in a table name
		{tables: []string{"plain", `o"dd`}, cols: [][]string{{"x"}, {`c'`}}}, // a good table before a bad one
		{tables: []string{"order"}, cols: [][]string{{"select", "from"}}},    // keywords
	}
	n := vfScale(150, 3000)
	for i := 0; i < len(directed)+n; i++ {
		var tc tcase
		if i < len(directed) {
			tc = directed[i]
		} else {
			nt := 1 + r.Intn(3)
			seenT := map[string]bool{}
			for j := 0; j < nt; j++ {
				tn := name("t")
				if seenT[strings.ToLower(tn)] {
					continue
				}
				seenT[strings.ToLower(tn)] = true
				tc.tables = append(tc.tables, tn)
				var cs []string
				seenC := map[string]bool{}
				for k := 0; k < 1+r.Intn(3); k++ {
					cn := name("c")
					if !seenC[strings.ToLower(cn)] {
						seenC[strings.ToLower(cn)] = true
						cs = append(cs, cn)
					}
				}
				tc.cols = append(tc.cols, cs)
			}
			if r.Intn(2) == 0 {
				tc.extra = append(tc.extra, fmt.Sprintf(`CREATE INDEX %s ON %s(%s)`, c21QuoteIdent(name("i")), c21QuoteIdent(tc.tables[0]), c21QuoteIdent(tc.cols[0][0])))
			}
			if r.Intn(3) == 0 {
				tc.extra = append(tc.extra, fmt.Sprintf(`CREATE VIEW %s AS SELECT %s FROM %s`, c21QuoteIdent(name("v")), c21QuoteIdent(tc.cols[0][0]), c21QuoteIdent(tc.tables[0])))
			}
		}
		var stmts []string
		for j, tn := range tc.tables {
			var cd []string
			for _, c := range tc.cols[j] {
				cd = append(cd, c21QuoteIdent(c))
			}
			stmts = append(stmts, fmt.Sprintf(`CREATE TABLE %s (%s)`, c21QuoteIdent(tn), strings.Join(cd, ", ")))
			for row := 0; row < 1+r.Intn(3); row++ {
				var vals []string
				for range tc.cols[j] {
					switch r.Intn(5) {
					case 0:
						vals = append(vals, "NULL")
					case 1:
						vals = append(vals, fmt.Sprintf("%d", r.Intn(1000)-500))
					case 2:
						vals = append(vals, fmt.Sprintf("%d.5", r.Intn(100)))
					case 3:
						vals = append(vals, `'it''s "text"; --'`)
					default:
						vals = append(vals, `x'00ff27'`)
					}
				}
				stmts = append(stmts, fmt.Sprintf(`INSERT INTO %s VALUES(%s)`, c21QuoteIdent(tn), strings.Join(vals, ", ")))
			}
		}
		stmts = append(stmts, tc.extra...)
		key := strings.Join(stmts, "; ")
		replay := map[string]interface{}{"statements": stmts}

		src := filepath.Join(dir, fmt.Sprintf("src-%d.db", i))
		d, err := Open(src, false, false)
		if err != nil {
			t.Fatalf("open: %v", err)
		}
		bad := ""
		for _, st := range stmts {
			res, err := d.ExecuteStringStmt(st)
			if err != nil {
				bad = err.Error()
				break
			}
			if e := res[0].GetError(); e != "" {
				bad = e
				break
			}
		}
		if bad != "" {
			// SQLite itself refuses the generated schema: not a case
			rep.Count("schemas-refused-by-sqlite")
			d.Close()
			os.Remove(src)
			continue
		}
		wantSchema, wantRows, err := c21Contents(d)
		if err != nil {
			t.Fatalf("reading source: %v", err)
		}
		var buf bytes.Buffer
		derr := d.Dump(&buf)
		d.Close()
		os.Remove(src)
		odd := strings.ContainsAny(strings.Join(append(append([]string{}, tc.tables...), strings.Join(flatten(tc.cols), "")), ""), `"' `)
		rep.Case(key, odd)
		if derr != nil {
			rep.Count("dump-returned-an-error")
			continue
		}
		rep.Count("dump-ok")
		dst := filepath.Join(dir, fmt.Sprintf("dst-%d.db", i))
		l, err := Open(dst, false, false)
		if err != nil {
			t.Fatalf("open: %v", err)
		}
		loadErr := ""
		if res, err := l.ExecuteStringStmt(buf.String()); err != nil {
			loadErr = err.Error()
		} else {
			for _, r := range res {
				if e := r.GetError(); e != "" {
					loadErr = e
					break
				}
			}
		}
		if loadErr != "" {
			rep.Fail("dump:successful-dump-does-not-load", fmt.Sprintf("Dump returned nil; loading its output fails: %s", loadErr), replay)
			l.Close()
			os.Remove(dst)
			continue
		}
		gotSchema, gotRows, err := c21Contents(l)
		l.Close()
		os.Remove(dst)
		if err != nil {
			rep.Fail("dump:successful-dump-does-not-load", fmt.Sprintf("reading the loaded dump: %v", err), replay)
			continue
		}
		if strings.Join(gotSchema, "\n") != strings.Join(wantSchema, "\n") {
			rep.Fail("dump:successful-dump-has-a-different-schema", fmt.Sprintf("source %q, loaded dump %q", wantSchema, gotSchema), replay)
			continue
		}
		for tn, want := range wantRows {
			if got := gotRows[tn]; strings.Join(got, "|") != strings.Join(want, "|") {
				rep.Fail("dump:successful-dump-lacks-rows", fmt.Sprintf("Dump returned nil, but table %q has rows %v in the source and %v in the loaded dump", tn, want, got), replay)
				break
			}
		}
	}
}

func flatten(xs [][]string) []string {
	var out []string
	for _, x := range xs {
		out = append(out, x...)
	}
	return out
}

package http

// C23 correspondence + spec oracle through the REAL http.Service (public
// constructor, real HTTP requests to /db/execute?queue, real queue.Queue, real
// runQueue) with a scripted mock store behind the real proxy.
//
// Concurrent clients post queued requests (with and without `wait`), each statement
// carrying a unique number. The mock store "applies" a batch only when it returns
// success; scripted bursts of ErrLeaderNotFound / ErrNotLeader(+failing or succeeding
// forward) make runQueue retry (1 s per failure: kept few). The property is evaluated
// on what was observed, and a model schedule built from the observation (requests in
// sequence-number order, observed batch cuts, observed failure counts) must be
// accepted and reproduced by the Lean model `queuesvc`. No time value is diffed.

import (
	"net"
	"net/url"
	"encoding/json"
	"errors"
	"fmt"
	"io"
	"net/http"
	"regexp"
	"sort"
	"strconv"
	"strings"
	"sync"
	"sync/atomic"
	"testing"
	"time"

	command "github.com/rqlite/rqlite/v10/command/proto"
	"github.com/rqlite/rqlite/v10/proxy"
	"github.com/rqlite/rqlite/v10/store"
)

var c23ValRe = regexp.MustCompile(`VALUES\s*\(\s*(\d+)\s*\)`)

type c23Req struct {
	client, idx int
	stmts       []int
	wait        bool
	shortWait   bool // waits only 300 ms: expected to get 408 when its batch is stuck behind an outage
	seq         int64
	status      int
	missing     int // statements not yet applied when the wait response arrived
}

type c23Batch struct {
	stmts   []int
	fails   int   // failed attempts before the successful one
	prevSeq int64 // s.seqNum when the successful Execute was called
	tx      bool
}

func c23Ints(xs []int) string {
	if len(xs) == 0 {
		return "-"
	}
	p := make([]string, len(xs))
	for i, x := range xs {
		p[i] = strconv.Itoa(x)
	}
	return strings.Join(p, ",")
}

type c23Run struct {
	cap, batch      int
	timeout         time.Duration
	clients, perCli int
	failAt          map[int]string // Execute call number -> failure kind
	seed            uint64
	bigReqs         bool
	shortWaits      bool // some waiters give up after 300 ms (408 path)
	closeEarly      bool // Service.Close while an outage is in progress
}

func c23Do(rep *vfReport, rn c23Run, runIdx int) (ops, out []string, ok bool) {
	var mu sync.Mutex
	applied := map[int]bool{}
	var batches []c23Batch
	calls, pendingFails := 0, 0
	var svc *Service
	m := &MockStore{leaderAddr: "127.0.0.1:4002"}
	c := &mockClusterService{}
	ids := func(er *command.ExecuteRequest) []int {
		var r []int
		for _, st := range er.Request.Statements {
			mm := c23ValRe.FindStringSubmatch(st.Sql)
			if mm == nil {
				r = append(r, -1)
				continue
			}
			v, _ := strconv.Atoi(mm[1])
			r = append(r, v)
		}
		return r
	}
	apply := func(er *command.ExecuteRequest) {
		b := c23Batch{stmts: ids(er), fails: pendingFails, prevSeq: atomic.LoadInt64(&svc.seqNum), tx: er.Request.Transaction}
		pendingFails = 0
		for _, s := range b.stmts {
			applied[s] = true
		}
		batches = append(batches, b)
	}
	forwardFail := false
	m.executeFn = func(er *command.ExecuteRequest) ([]*command.ExecuteQueryResponse, uint64, error) {
		mu.Lock()
		defer mu.Unlock()
		calls++
		switch rn.failAt[calls] {
		case "leader-not-found":
			pendingFails++
			return nil, 0, store.ErrLeaderNotFound
		case "not-leader-forward-fails":
			forwardFail = true
			return nil, 0, store.ErrNotLeader
		case "not-leader-forward-ok":
			forwardFail = false
			return nil, 0, store.ErrNotLeader
		case "other-error":
			pendingFails++
			return nil, 0, errors.New("leadership lost while committing log")
		case "unknown-error-conn-refused":
			pendingFails++
			return nil, 0, errors.New("dial tcp 127.0.0.1:4002: connect: connection refused")
		case "unknown-error-not-open":
			pendingFails++
			return nil, 0, store.ErrNotOpen
		case "unknown-error-timeout":
			pendingFails++
			return nil, 0, errors.New("read tcp 127.0.0.1:51234->127.0.0.1:4002: i/o timeout")
		}
		apply(er)
		return nil, 0, nil
	}
	c.executeFn = func(er *command.ExecuteRequest, addr string, t time.Duration) ([]*command.ExecuteQueryResponse, uint64, error) {
		mu.Lock()
		defer mu.Unlock()
		if forwardFail {
			pendingFails++
			return nil, 0, errors.New("not leader")
		}
		apply(er) // applied by the (remote) leader
		return nil, 0, nil
	}
	svc = New("127.0.0.1:0", m, c, proxy.New(m, c), nil)
	svc.DefaultQueueCap = rn.cap
	svc.DefaultQueueBatchSz = rn.batch
	svc.DefaultQueueTimeout = rn.timeout
	svc.logger.SetOutput(io.Discard)
	if err := svc.Start(); err != nil {
		rep.Note("service start failed: %v", err)
		return nil, nil, false
	}
	defer svc.Close()
	host := fmt.Sprintf("http://%s", svc.Addr().String())
	var reqs []*c23Req
	var rmu sync.Mutex
	var wg sync.WaitGroup
	for cl := 0; cl < rn.clients; cl++ {
		wg.Add(1)
		go func(cl int) {
			defer wg.Done()
			pr := &vfRng{s: rn.seed + uint64(cl)*7919}
			client := &http.Client{Timeout: 120 * time.Second}
			for i := 0; i < rn.perCli; i++ {
				n := 1 + pr.Intn(3)
				if rn.bigReqs && pr.Chance(12) {
					n = 40 + pr.Intn(260) // a large request must stay together too
				}
				rq := &c23Req{client: cl, idx: i, wait: pr.Chance(40)}
				var parts []string
				for k := 0; k < n; k++ {
					id := cl*10000000 + i*1000 + k
					rq.stmts = append(rq.stmts, id)
					parts = append(parts, fmt.Sprintf(`"INSERT INTO t(v) VALUES(%d)"`, id))
				}
				url := host + "/db/execute?queue"
				if rq.wait && rn.shortWaits && pr.Chance(50) {
					rq.shortWait = true
					url += "&wait&timeout=300ms"
				} else if rq.wait {
					url += "&wait&timeout=20s"
				}
				resp, err := client.Post(url, "application/json", strings.NewReader("["+strings.Join(parts, ",")+"]"))
				if err != nil {
					rq.status = -1
				} else {
					body, _ := io.ReadAll(resp.Body)
					resp.Body.Close()
					rq.status = resp.StatusCode
					var v struct {
						Seq int64 `json:"sequence_number"`
					}
					_ = json.Unmarshal(body, &v)
					rq.seq = v.Seq
					if rq.wait && resp.StatusCode == 200 {
						mu.Lock()
						for _, s := range rq.stmts {
							if !applied[s] {
								rq.missing++
							}
						}
						mu.Unlock()
					}
				}
				rmu.Lock()
				reqs = append(reqs, rq)
				rmu.Unlock()
				if pr.Chance(25) {
					time.Sleep(time.Duration(pr.Intn(3000)) * time.Microsecond)
				}
			}
		}(cl)
	}
	wg.Wait()
	total := 0
	for _, rq := range reqs {
		if rq.status == 200 || (rq.status == 408 && rq.shortWait) {
			total += len(rq.stmts)
		}
	}
	deadline := time.Now().Add(60 * time.Second)
	for time.Now().Before(deadline) {
		mu.Lock()
		n := len(applied)
		mu.Unlock()
		if n >= total {
			break
		}
		time.Sleep(2 * time.Millisecond)
	}
	time.Sleep(5 * time.Millisecond) // a spurious extra apply would show up now
	mu.Lock()
	bs := append([]c23Batch(nil), batches...)
	mu.Unlock()

	replay := map[string]interface{}{"run": runIdx, "seed": vfSeed(), "cap": rn.cap, "batch_size": rn.batch, "timeout_ns": int64(rn.timeout), "clients": rn.clients, "requests_per_client": rn.perCli, "fail_at_calls": fmt.Sprint(rn.failAt)}
	ok = true
	fail := func(sig, detail string) {
		ok = false
		rep.Fail(sig, detail, replay)
	}
	var acc, timedOutReqs []*c23Req
	var strandedIDs []int // statements of waiters that got 408 after the full 20 s: reported above, kept out of the order comparison
	for _, rq := range reqs {
		if rq.status == 408 && rq.shortWait {
			// The waiter gave up; its statements stay accepted. Its sequence number is not in the
			// 408 body, so it is placed by where its statements were applied: they must be there,
			// exactly once, contiguous and in order.
			timedOutReqs = append(timedOutReqs, rq)
			continue
		}
		if rq.status == 408 && rq.wait {
			// the statements were accepted (Write succeeded) but the batch containing them was not
			// applied within 20 s although Execute was succeeding again long before
			stranded := 0
			mu.Lock()
			for _, st := range rq.stmts {
				if !applied[st] {
					stranded++
				}
			}
			mu.Unlock()
			strandedIDs = append(strandedIDs, rq.stmts...)
			fail("wait-timed-out-statements-stranded", fmt.Sprintf("client %d request %d (wait, %d statements) got 408 after 20 s; %d of its statements are still not applied although the store has been accepting Execute calls", rq.client, rq.idx, len(rq.stmts), stranded))
			continue
		}
		if rq.status != 200 {
			fail("queued-request-rejected", fmt.Sprintf("client %d request %d got status %d", rq.client, rq.idx, rq.status))
			continue
		}
		acc = append(acc, rq)
		if rq.missing > 0 {
			fail("wait-returned-before-apply", fmt.Sprintf("client %d request %d (wait) got 200 while %d of its %d statements had not been applied", rq.client, rq.idx, rq.missing, len(rq.stmts)))
		}
	}
	sort.Slice(acc, func(i, j int) bool { return acc[i].seq < acc[j].seq })
	for i := 1; i < len(acc); i++ {
		if acc[i].seq == acc[i-1].seq {
			fail("duplicate-sequence-number", fmt.Sprint(acc[i].seq))
		}
	}
	var want, got []int
	for _, rq := range acc {
		want = append(want, rq.stmts...)
	}
	for _, b := range bs {
		got = append(got, b.stmts...)
	}
	if len(strandedIDs) > 0 {
		skip := map[int]bool{}
		for _, x := range strandedIDs {
			skip[x] = true
		}
		var g2 []int
		for _, x := range got {
			if !skip[x] {
				g2 = append(g2, x)
			}
		}
		got = g2
	}
	if len(timedOutReqs) > 0 {
		// take the timed-out waiters' statements out of the applied stream after checking them
		pos := map[int]int{}
		for i, x := range got {
			if _, dup := pos[x]; dup {
				fail("statements-applied-twice", fmt.Sprintf("statement %d applied more than once", x))
			}
			pos[x] = i
		}
		drop := map[int]bool{}
		for _, rq := range timedOutReqs {
			for k, st := range rq.stmts {
				p, okp := pos[st]
				if !okp {
					fail("timed-out-waiter-statements-dropped", fmt.Sprintf("client %d request %d got 408 (its own 300 ms wait limit) and its statement %d was never applied afterwards", rq.client, rq.idx, st))
					break
				}
				if k > 0 && p != pos[rq.stmts[k-1]]+1 {
					fail("request-statements-not-contiguous", fmt.Sprintf("client %d request %d: statements %d and %d are not adjacent in the applied stream", rq.client, rq.idx, rq.stmts[k-1], st))
				}
				drop[st] = true
			}
		}
		var g2 []int
		for _, x := range got {
			if !drop[x] {
				g2 = append(g2, x)
			}
		}
		got = g2
		rep.CountN("wait-timeouts-408-then-applied", len(timedOutReqs))
	}
	if c23Ints(want) != c23Ints(got) {
		// classify
		wm := map[int]int{}
		for _, x := range got {
			wm[x]++
		}
		dropped, dup := 0, 0
		for _, x := range want {
			if wm[x] == 0 {
				dropped++
			} else if wm[x] > 1 {
				dup++
			}
		}
		switch {
		case dropped > 0:
			fail("accepted-statements-dropped", fmt.Sprintf("%d accepted statements were never applied (accepted %s, applied %s)", dropped, c23Ints(want), c23Ints(got)))
		case dup > 0:
			fail("statements-applied-twice", fmt.Sprintf("%d statements applied more than once", dup))
		default:
			fail("applied-out-of-acceptance-order", fmt.Sprintf("accepted order %s, applied order %s", c23Ints(want), c23Ints(got)))
		}
	}
	if !ok {
		return nil, nil, false
	}
	if len(timedOutReqs) > 0 {
		rep.Case(fmt.Sprintf("408:%d", runIdx), true)
		return nil, nil, false // judged by the oracle only: a 408 carries no sequence number to place it in the model schedule
	}
	// model schedule from the observation
	ops = []string{fmt.Sprintf("new %d %d %d", rn.cap, rn.batch, int64(rn.timeout))}
	out = []string{"ok"}
	ri := 0
	base := acc[0].seq - 1
	var closed []int
	totalFails := 0
	for _, b := range bs {
		n := 0
		remaining := len(b.stmts)
		for remaining > 0 && ri < len(acc) {
			rq := acc[ri]
			ftok := "-"
			if rq.wait {
				ftok = strconv.Itoa(ri)
				closed = append(closed, ri)
			}
			ops = append(ops, fmt.Sprintf("write %s %s", c23Ints(rq.stmts), ftok), "recv")
			out = append(out, strconv.FormatInt(rq.seq-base, 10), "ok")
			remaining -= len(rq.stmts)
			ri++
			n++
		}
		if n != rn.batch {
			ops = append(ops, "fire")
			out = append(out, "ok")
		}
		ops = append(ops, "send", "take")
		out = append(out, "ok", "ok")
		for k := 0; k < b.fails; k++ {
			ops = append(ops, "execfail")
			out = append(out, "ok")
		}
		totalFails += b.fails
		ops = append(ops, "execok")
		out = append(out, "ok")
	}
	var ab []string
	for _, b := range bs {
		ab = append(ab, c23Ints(b.stmts))
	}
	ops = append(ops, "applied", "closedflush", "failed", "lastseq")
	out = append(out, strings.Join(ab, "|"), c23Ints(closed), strconv.Itoa(totalFails), strconv.FormatInt(atomic.LoadInt64(&svc.seqNum)-base, 10))
	sizes := map[int]bool{}
	for _, b := range bs {
		sizes[len(b.stmts)] = true
	}
	rep.Case(strings.Join(ab, "|"), len(bs) >= 2 && len(sizes) >= 2)
	rep.CountN("requests", len(acc))
	rep.CountN("batches-applied", len(bs))
	rep.CountN("execute-failures-injected", totalFails)
	return ops, out, true
}

func TestVerifC23(t *testing.T) {
	rep := vfNewReport("C23", "real http.Service with a scripted mock store: 2-4 concurrent clients x 6-14 queued requests of 1-3 uniquely numbered statements (40% with wait), queue capacity 4-32, batch size 1-6, timeout 3-15 ms, up to 3 injected Execute failures per service and one service with an outage of 5 consecutive failures (ErrLeaderNotFound, ErrNotLeader with failing or succeeding forward, leadership lost, and errors runQueue does not recognise: connection refused, store not open, i/o timeout); a third of the services also get requests of 40-300 statements; non-trivial when at least two batches of different sizes were applied")
	defer rep.Write()
	r := vfNewRng(23)
	n := vfScale(8, 600)
	par := 8
	kinds := []string{"leader-not-found", "not-leader-forward-fails", "not-leader-forward-ok", "other-error",
		"unknown-error-conn-refused", "unknown-error-not-open", "unknown-error-timeout"}
	var mu sync.Mutex
	var allOps, allImpl [][]string
	sem := make(chan struct{}, par)
	var wg sync.WaitGroup
	for i := 0; i < n; i++ {
		rn := c23Run{cap: 4 + r.Intn(29), batch: 1 + r.Intn(6), timeout: time.Duration(3+r.Intn(13)) * time.Millisecond,
			clients: 2 + r.Intn(3), perCli: 6 + r.Intn(9), failAt: map[int]string{}, seed: r.U64()}
		nf := r.Intn(4)
		if i%4 == 0 {
			nf = 0
		}
		rn.bigReqs = i%3 == 1
		rn.shortWaits = i%4 == 1
		at := 1 + r.Intn(4)
		longBurst := i == 1 || (vfThorough() && i%20 == 1)
		if longBurst {
			nf = 5 // one long outage: the same batch must be retried until it succeeds
		}
		for k := 0; k < nf; k++ {
			rn.failAt[at] = r.Pick(kinds)
			if longBurst {
				rn.failAt[at] = []string{kinds[0], kinds[4], kinds[1], kinds[5], kinds[6]}[k%5] // recognised and unrecognised errors; never a forward that succeeds
			}
			if longBurst || r.Chance(60) {
				at++ // burst
			} else {
				at += 2 + r.Intn(4)
			}
		}
		wg.Add(1)
		sem <- struct{}{}
		go func(i int, rn c23Run) {
			defer wg.Done()
			defer func() { <-sem }()
			ops, out, ok := c23Do(rep, rn, i)
			if ok {
				mu.Lock()
				allOps = append(allOps, ops)
				allImpl = append(allImpl, out)
				mu.Unlock()
			}
			rep.Count(fmt.Sprintf("injected-failures=%d", len(rn.failAt)))
			if i == 0 {
				rep.Sample(map[string]interface{}{"cap": rn.cap, "batch_size": rn.batch, "ops": vfTrunc(ops), "impl": vfTrunc(out)})
			}
		}(i, rn)
	}
	wg.Wait()
	c23CloseDuringOutage(rep, 2)
	c23CloseDuringOutage(rep, 5)
	c23StalledConsumer(rep)
	if ops, out := c23LostAck(rep); ops != nil {
		allOps = append(allOps, ops)
		allImpl = append(allImpl, out)
	}
	rep.vfCompareSegments("queuesvc", allOps, allImpl)
}

// c23CloseDuringOutage documents the boundary of the property: a node that is being shut
// down (Service.Close) while Execute keeps failing does NOT apply what is still queued. That
// is outside "while the node keeps running"; what must still hold is that nothing is applied
// out of order or after Close has returned, and that Close returns.
func c23CloseDuringOutage(rep *vfReport, nReq int) {
	var mu sync.Mutex
	var appliedStmts []int
	closed := false
	appliedAfterClose := 0
	m := &MockStore{leaderAddr: "127.0.0.1:4002"}
	c := &mockClusterService{}
	outage := true
	m.executeFn = func(er *command.ExecuteRequest) ([]*command.ExecuteQueryResponse, uint64, error) {
		mu.Lock()
		defer mu.Unlock()
		if outage {
			return nil, 0, store.ErrLeaderNotFound
		}
		if closed {
			appliedAfterClose++
		}
		for _, st := range er.Request.Statements {
			if mm := c23ValRe.FindStringSubmatch(st.Sql); mm != nil {
				v, _ := strconv.Atoi(mm[1])
				appliedStmts = append(appliedStmts, v)
			}
		}
		return nil, 0, nil
	}
	svc := New("127.0.0.1:0", m, c, proxy.New(m, c), nil)
	svc.DefaultQueueCap, svc.DefaultQueueBatchSz, svc.DefaultQueueTimeout = 16, 2, 2*time.Millisecond
	svc.logger.SetOutput(io.Discard)
	if err := svc.Start(); err != nil {
		rep.Note("close scenario: start failed: %v", err)
		return
	}
	host := fmt.Sprintf("http://%s", svc.Addr().String())
	accepted := 0
	for i := 0; i < nReq; i++ {
		resp, err := http.Post(host+"/db/execute?queue", "application/json", strings.NewReader(fmt.Sprintf(`["INSERT INTO t(v) VALUES(%d)"]`, i)))
		if err == nil {
			if resp.StatusCode == 200 {
				accepted++
			}
			resp.Body.Close()
		}
	}
	time.Sleep(50 * time.Millisecond) // the consumer is now retrying the first batch
	done := make(chan struct{})
	go func() { svc.Close(); close(done) }()
	if nReq <= 2 {
		// one batch, in the consumer's hands: Close must get through although Execute keeps failing
		select {
		case <-done:
		case <-time.After(30 * time.Second):
			rep.Fail("service-close-hangs-during-outage", "Service.Close did not return within 30 s while Execute was failing (one batch pending)", map[string]interface{}{"accepted": accepted})
			return
		}
	} else {
		// three batches pending: one with the consumer, one in the queue's output slot, one that
		// the queue loop is blocked sending. queue.Close waits for that loop, and Service.Close
		// signals runQueue only afterwards, so Close blocks until the outage ends. This is a
		// shutdown-liveness observation OUTSIDE C23 (nothing is applied out of order or lost
		// while running); it is recorded, not judged.
		select {
		case <-done:
			rep.Count("close-during-outage:close-returned-with-3-batches-pending")
		case <-time.After(3 * time.Second):
			rep.Note("observation (outside C23): with 3+ batches pending during an outage Service.Close blocks (queue.Close waits for the run loop, which is blocked sending to the full output slot; runQueue is told to stop only after queue.Close returns)")
			rep.Count("close-during-outage:close-blocked-until-outage-ended")
			mu.Lock()
			outage = false
			mu.Unlock()
			select {
			case <-done:
			case <-time.After(30 * time.Second):
				rep.Fail("service-close-never-returns", "Service.Close did not return within 30 s after Execute started succeeding again", map[string]interface{}{"accepted": accepted})
				return
			}
			mu.Lock()
			closed = true
			mu.Unlock()
			time.Sleep(50 * time.Millisecond)
			mu.Lock()
			defer mu.Unlock()
			for i, v := range appliedStmts {
				if v != i {
					rep.Fail("applied-out-of-acceptance-order", fmt.Sprintf("close scenario: applied %v", appliedStmts), nil)
					break
				}
			}
			rep.Case("close-during-outage-3-batches", true)
			return
		}
	}
	mu.Lock()
	closed, outage = true, false // the leader is back, but the node has been shut down
	mu.Unlock()
	time.Sleep(1200 * time.Millisecond) // longer than runQueue's retry delay
	mu.Lock()
	defer mu.Unlock()
	if appliedAfterClose > 0 {
		rep.Fail("applied-after-service-close", fmt.Sprintf("%d Execute calls succeeded after Service.Close had returned", appliedAfterClose), map[string]interface{}{"accepted": accepted})
	}
	for i, v := range appliedStmts {
		if v != i {
			rep.Fail("applied-out-of-acceptance-order", fmt.Sprintf("close scenario: applied %v", appliedStmts), nil)
			break
		}
	}
	rep.Case("close-during-outage", true)
	rep.CountN("close-during-outage:accepted", accepted)
	rep.CountN("close-during-outage:left-unapplied-by-shutdown(outside-property)", accepted-len(appliedStmts))
}

// c23StalledConsumer (directed): during an outage the consumer is stuck retrying request 1,
// request 2 waits in the queue's one-slot output channel, and request 3 (with wait) is a
// partial batch whose timer expires while that slot is full. When the outage ends all three
// must be applied, in order, and the waiter must get 200 - nothing may be stranded.
func c23StalledConsumer(rep *vfReport) {
	var mu sync.Mutex
	var appliedStmts []int
	calls := 0
	m := &MockStore{leaderAddr: "127.0.0.1:4002"}
	c := &mockClusterService{}
	m.executeFn = func(er *command.ExecuteRequest) ([]*command.ExecuteQueryResponse, uint64, error) {
		mu.Lock()
		defer mu.Unlock()
		calls++
		if calls == 1 {
			return nil, 0, store.ErrLeaderNotFound // ~2 s outage (runQueue sleeps 1 s per failure)
		}
		if calls == 2 {
			return nil, 0, errors.New("dial tcp 127.0.0.1:4002: connect: connection refused") // an error runQueue has no name for
		}
		for _, st := range er.Request.Statements {
			if mm := c23ValRe.FindStringSubmatch(st.Sql); mm != nil {
				v, _ := strconv.Atoi(mm[1])
				appliedStmts = append(appliedStmts, v)
			}
		}
		return nil, 0, nil
	}
	svc := New("127.0.0.1:0", m, c, proxy.New(m, c), nil)
	svc.DefaultQueueCap, svc.DefaultQueueBatchSz, svc.DefaultQueueTimeout = 16, 8, 5*time.Millisecond
	svc.logger.SetOutput(io.Discard)
	if err := svc.Start(); err != nil {
		rep.Note("stalled-consumer scenario: start failed: %v", err)
		return
	}
	defer svc.Close()
	host := fmt.Sprintf("http://%s", svc.Addr().String())
	post := func(q string, id int) int {
		resp, err := http.Post(host+"/db/execute?queue"+q, "application/json", strings.NewReader(fmt.Sprintf(`["INSERT INTO t(v) VALUES(%d)"]`, id)))
		if err != nil {
			return -1
		}
		resp.Body.Close()
		return resp.StatusCode
	}
	replay := map[string]interface{}{"scenario": "batch size 8, timeout 5 ms; Execute fails twice (ErrLeaderNotFound, then connection refused; 2 s); request 1, 40 ms, request 2, 40 ms, request 3 with wait (10 s); no further requests"}
	s1 := post("", 1)
	time.Sleep(40 * time.Millisecond) // its timer fires; the consumer takes it and starts failing
	s2 := post("", 2)
	time.Sleep(40 * time.Millisecond) // its timer fires; it sits in the output slot
	s3 := post("&wait&timeout=10s", 3) // partial batch; its timer expires while the slot is full
	mu.Lock()
	got := append([]int(nil), appliedStmts...)
	mu.Unlock()
	if s1 != 200 || s2 != 200 {
		rep.Fail("queued-request-rejected", fmt.Sprintf("statuses %d %d", s1, s2), replay)
		return
	}
	if s3 == 408 {
		time.Sleep(1500 * time.Millisecond)
		mu.Lock()
		got = append([]int(nil), appliedStmts...)
		mu.Unlock()
		rep.Fail("wait-timed-out-statements-stranded", fmt.Sprintf("the waiter of request 3 got 408 after 10 s although Execute has been succeeding since ~2 s; applied so far: %s", c23Ints(got)), replay)
		return
	}
	if s3 != 200 {
		rep.Fail("queued-request-rejected", fmt.Sprintf("status %d", s3), replay)
		return
	}
	if len(got) < 3 {
		rep.Fail("accepted-statements-dropped", fmt.Sprintf("stalled-consumer scenario (Execute failed with ErrLeaderNotFound, then with \"connection refused\", then succeeded): the waiter of request 3 got 200 but only %s of 1,2,3 were applied", c23Ints(got)), replay)
	} else if c23Ints(got) != "1,2,3" {
		rep.Fail("applied-out-of-acceptance-order", fmt.Sprintf("stalled-consumer scenario: applied %s when the waiter returned, want 1,2,3", c23Ints(got)), replay)
	}
	rep.Case("stalled-consumer", true)
	rep.Count("stalled-consumer-scenario")
}

// c23LostAck: Execute applies the batch but reports raft's "leadership lost while committing
// log" (an error that does not say whether the entry was committed). runQueue retries on every
// error, so the batch reaches the database a second time. The property text does not promise
// exactly-once, so this is recorded as an observation (and an ASSUMPTION of the order/
// contiguity theorems: lostAcks = 0), not as a failure; the trace is diffed with the model's
// `execfailcommitted` step so that the model keeps describing what the code does.
func c23LostAck(rep *vfReport) (ops, out []string) {
	var mu sync.Mutex
	var appliedBatches [][]int
	calls := 0
	m := &MockStore{leaderAddr: "127.0.0.1:4002"}
	c := &mockClusterService{}
	m.executeFn = func(er *command.ExecuteRequest) ([]*command.ExecuteQueryResponse, uint64, error) {
		mu.Lock()
		defer mu.Unlock()
		calls++
		var ids []int
		for _, st := range er.Request.Statements {
			if mm := c23ValRe.FindStringSubmatch(st.Sql); mm != nil {
				v, _ := strconv.Atoi(mm[1])
				ids = append(ids, v)
			}
		}
		appliedBatches = append(appliedBatches, ids) // the entry is committed and applied ...
		if calls == 1 {
			return nil, 0, errors.New("leadership lost while committing log") // ... but the caller is told otherwise
		}
		return nil, 0, nil
	}
	svc := New("127.0.0.1:0", m, c, proxy.New(m, c), nil)
	svc.DefaultQueueCap, svc.DefaultQueueBatchSz, svc.DefaultQueueTimeout = 16, 4, 2*time.Millisecond
	svc.logger.SetOutput(io.Discard)
	if err := svc.Start(); err != nil {
		rep.Note("lost-ack scenario: start failed: %v", err)
		return nil, nil
	}
	defer svc.Close()
	host := fmt.Sprintf("http://%s", svc.Addr().String())
	resp, err := http.Post(host+"/db/execute?queue&wait&timeout=20s", "application/json", strings.NewReader(`["INSERT INTO t(v) VALUES(7)","INSERT INTO t(v) VALUES(8)"]`))
	if err != nil {
		rep.Note("lost-ack scenario: request failed: %v", err)
		return nil, nil
	}
	resp.Body.Close()
	time.Sleep(20 * time.Millisecond)
	mu.Lock()
	defer mu.Unlock()
	var ab []string
	for _, b := range appliedBatches {
		ab = append(ab, c23Ints(b))
	}
	if len(appliedBatches) > 1 {
		rep.Note("observation (assumption of the exactly-once reading, not judged): Execute applied the batch but returned \"leadership lost while committing log\"; runQueue retried and the batch was applied %d times: %s", len(appliedBatches), strings.Join(ab, "|"))
		rep.Count("lost-ack:batch-applied-more-than-once")
	}
	rep.Case("lost-ack", true)
	ops = []string{"new 16 4 2000000", "write 7,8 0", "recv", "fire", "send", "take", "execfailcommitted", "execok", "applied", "closedflush", "failed"}
	out = []string{"ok", "1", "ok", "ok", "ok", "ok", "ok", "ok", strings.Join(ab, "|"), "0", fmt.Sprint(calls - 1)}
	return
}

// ---- live: real store.Store behind the real http.Service ------------------------------------

type c23Layer struct{ net.Listener }

func (l *c23Layer) Dial(addr string, timeout time.Duration) (net.Conn, error) {
	return net.DialTimeout("tcp", addr, timeout)
}

func c23QueryInts(host, q string) ([]int, error) {
	resp, err := http.Get(host + "/db/query?level=strong&q=" + url.QueryEscape(q))
	if err != nil {
		return nil, err
	}
	defer resp.Body.Close()
	var v struct {
		Results []struct {
			Values [][]interface{} `json:"values"`
			Error  string          `json:"error"`
		} `json:"results"`
	}
	if err := json.NewDecoder(resp.Body).Decode(&v); err != nil {
		return nil, err
	}
	if len(v.Results) != 1 || v.Results[0].Error != "" {
		return nil, fmt.Errorf("query %q: %+v", q, v)
	}
	var out []int
	for _, row := range v.Results[0].Values {
		if f, ok := row[0].(float64); ok {
			out = append(out, int(f))
		}
	}
	return out, nil
}

// TestVerifC23Live: concurrent queued requests through the real http.Service into a real,
// bootstrapped single-node store.Store; the rows' insertion order (AUTOINCREMENT id) is
// compared with the acceptance order (sequence numbers), and a wait response must find
// its rows in the database.
func TestVerifC23Live(t *testing.T) {
	rep := vfNewReport("C23", "live: real single-node store.Store behind the real http.Service: 3-4 concurrent clients x 8-20 queued requests of 1-3 sequence-tagged INSERTs (40% with wait), batch size 1-6, timeout 3-12 ms; rows read back ORDER BY id vs. acceptance order")
	defer rep.Write()
	r := vfNewRng(2323)
	ln, err := net.Listen("tcp", "127.0.0.1:0")
	if err != nil {
		t.Fatalf("listen: %v", err)
	}
	st := store.New(&store.Config{DBConf: store.NewDBConfig(), Dir: t.TempDir(), ID: "n1"}, &c23Layer{ln})
	if err := st.Open(); err != nil {
		t.Fatalf("open: %v", err)
	}
	defer st.Close(true)
	if err := st.Bootstrap(store.NewServer(st.ID(), st.Addr(), true)); err != nil {
		t.Fatalf("bootstrap: %v", err)
	}
	if _, err := st.WaitForLeader(30 * time.Second); err != nil {
		t.Fatalf("leader: %v", err)
	}
	c := &mockClusterService{}
	rounds := vfScale(2, 12)
	for round := 0; round < rounds; round++ {
		svc := New("127.0.0.1:0", st, c, proxy.New(st, c), nil)
		svc.DefaultQueueCap, svc.DefaultQueueBatchSz, svc.DefaultQueueTimeout = 8+r.Intn(24), 1+r.Intn(6), time.Duration(3+r.Intn(10))*time.Millisecond
		svc.logger.SetOutput(io.Discard)
		if err := svc.Start(); err != nil {
			t.Fatalf("start: %v", err)
		}
		host := fmt.Sprintf("http://%s", svc.Addr().String())
		table := fmt.Sprintf("t%d", round)
		resp, err := http.Post(host+"/db/execute", "application/json", strings.NewReader(fmt.Sprintf(`["CREATE TABLE %s (id INTEGER PRIMARY KEY AUTOINCREMENT, v INTEGER)"]`, table)))
		if err != nil || resp.StatusCode != 200 {
			t.Fatalf("create table: %v", err)
		}
		resp.Body.Close()
		type lreq struct {
			seq   int64
			stmts []int
		}
		var mu sync.Mutex
		var reqs []lreq
		var waitMissing atomic.Int64
		var wg sync.WaitGroup
		clients := 3 + r.Intn(2)
		per := 8 + r.Intn(13)
		for cl := 0; cl < clients; cl++ {
			seed := r.U64()
			wg.Add(1)
			go func(cl int) {
				defer wg.Done()
				pr := &vfRng{s: seed}
				for i := 0; i < per; i++ {
					n := 1 + pr.Intn(3)
					var ids []int
					var parts []string
					for k := 0; k < n; k++ {
						id := cl*100000 + i*10 + k
						ids = append(ids, id)
						parts = append(parts, fmt.Sprintf(`"INSERT INTO %s(v) VALUES(%d)"`, table, id))
					}
					u := host + "/db/execute?queue"
					wait := pr.Chance(40)
					if wait {
						u += "&wait&timeout=30s"
					}
					resp, err := http.Post(u, "application/json", strings.NewReader("["+strings.Join(parts, ",")+"]"))
					if err != nil {
						rep.Fail("live:queued-request-failed", err.Error(), nil)
						return
					}
					body, _ := io.ReadAll(resp.Body)
					resp.Body.Close()
					var v struct {
						Seq int64 `json:"sequence_number"`
					}
					_ = json.Unmarshal(body, &v)
					if resp.StatusCode != 200 {
						rep.Fail("live:queued-request-rejected", fmt.Sprintf("status %d: %s", resp.StatusCode, body), nil)
						return
					}
					if wait {
						got, qerr := c23QueryInts(host, fmt.Sprintf("SELECT v FROM %s WHERE v >= %d AND v <= %d", table, ids[0], ids[len(ids)-1]))
						if qerr == nil && len(got) != len(ids) {
							waitMissing.Add(1)
						}
					}
					mu.Lock()
					reqs = append(reqs, lreq{v.Seq, ids})
					mu.Unlock()
				}
			}(cl)
		}
		wg.Wait()
		total := 0
		for _, q := range reqs {
			total += len(q.stmts)
		}
		var rows []int
		for dl := time.Now().Add(60 * time.Second); time.Now().Before(dl); time.Sleep(5 * time.Millisecond) {
			rows, err = c23QueryInts(host, fmt.Sprintf("SELECT v FROM %s ORDER BY id", table))
			if err == nil && len(rows) >= total {
				break
			}
		}
		sort.Slice(reqs, func(i, j int) bool { return reqs[i].seq < reqs[j].seq })
		var want []int
		for _, q := range reqs {
			want = append(want, q.stmts...)
		}
		replay := map[string]interface{}{"round": round, "seed": vfSeed(), "clients": clients, "requests_per_client": per, "batch_size": svc.DefaultQueueBatchSz, "timeout_ns": int64(svc.DefaultQueueTimeout)}
		if c23Ints(want) != c23Ints(rows) {
			sig := "live:rows-not-in-acceptance-order"
			if len(rows) < len(want) {
				sig = "live:accepted-statements-missing-from-database"
			}
			rep.Fail(sig, fmt.Sprintf("accepted (by sequence number) %s, rows by id %s", c23Ints(want), c23Ints(rows)), replay)
		}
		if waitMissing.Load() > 0 {
			rep.Fail("live:wait-returned-before-rows-visible", fmt.Sprintf("%d wait responses arrived before their rows were in the database", waitMissing.Load()), replay)
		}
		svc.Close()
		rep.Case(fmt.Sprintf("live:%d:%s", round, c23Ints(rows)), len(rows) > 10)
		rep.CountN("live:requests", len(reqs))
		rep.CountN("live:rows", len(rows))
	}
}

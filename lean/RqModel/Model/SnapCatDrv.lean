/-
Line-protocol driver for the snapshot-store API model (component `snapcat`), C09.
Databases are lists of applied segments as in SnapFSDrv.

  reset                                   → ok
  create <h> <name> <index> <term>        → ok
  wfull <h> <db> <wals|-> <ok|short|badcrc>  → ok | err <kind>
  winc <h> <wals>                         → ok | err <kind>
  close <h> | close@0 <h> | close@1 <h>   → ok | err <kind>     (close: current source; @0/@1 older levels)
  closerf <h>                             → err <kind>   (Close whose final rename fails)
  cancel <h>                              → ok
  setfull                                 → ok
  reap <newName>                          → ok | err <kind>
  reopen                                  → ok | err <kind>
  crashclose <h> <w|f|m|r>                → ok
  list                                    → ok <name:index:term:F|I …newest first> | err <kind>
  due                                     → full | incremental
  ls                                      → names, `t` suffix for temporary
  open <name>                             → <db> | err <kind>
  admissible <op …>                       → yes | no     (is the operation inside the side conditions `OpOK'` of C09's theorems?)
-/
import RqModel.Model.SnapCat
import RqModel.Model.SnapFSDrv
namespace RqModel.SnapCatDrv
open RqModel.Util RqModel.SnapFS RqModel.SnapCat RqModel.SnapFSDrv

structure DState where
  s : CS DB := {}

def init : DState := {}

def verdictTok (t : String) : Option Verdict :=
  if t == "ok" then some .ok else if t == "short" then some .short else if t == "badcrc" then some .badcrc else none

def cutTok (t : String) : Option CloseCut :=
  if t == "w" then some .walDirMoved else if t == "f" then some .filesInPlace
  else if t == "m" then some .metaWritten else if t == "r" then some .renamed else none

/-- resolve the snapshot named `n` of an oldest-first catalog -/
def resolveAt (snaps : List (Snap DB)) (n : Nat) : Option DB :=
  match snaps.findIdx? (·.name == n) with
  | none => none
  | some i => resolveNewest alg (snaps.take (i + 1))

def lsStr (fs : FS DB) : String :=
  let ns := (sortNats fs.names.eraseDups).filterMap fun n =>
    (fs.dir n).map fun d => s!"{n}{if d.tmp then "t" else ""}"
  if ns.isEmpty then "-" else " ".intercalate ns

def parseOp : List String → Option (COp DB)
  | ["create", h, n, i, t] =>
    match h.toNat?, n.toNat?, i.toNat?, t.toNat? with
    | some h, some n, some i, some t => some (.create h n i t)
    | _, _, _, _ => none
  | ["wfull", h, db, ws, v] =>
    match h.toNat?, optDbTok db, natsTok ws, verdictTok v with
    | some h, some (some db), some ws, some v => some (.wfull h db ws v)
    | _, _, _, _ => none
  | ["winc", h, ws] =>
    match h.toNat?, natsTok ws with
    | some h, some ws => some (.winc h ws)
    | _, _ => none
  | ["crashclose", h, c] =>
    match h.toNat?, cutTok c with
    | some h, some c => some (.crashClose h c)
    | _, _ => none
  | ["reap", nn] => nn.toNat?.map .reap
  | _ => none

def step (d : DState) (line : String) : DState × String :=
  match words line with
  | "admissible" :: rest =>
    match parseOp rest with
    | some op => (d, if okB d.s op then "yes" else "no")
    | none => (d, "bad-op")
  | ["reset"] => ({}, "ok")
  | ["create", h, n, i, t] =>
    match h.toNat?, n.toNat?, i.toNat?, t.toNat? with
    | some h, some n, some i, some t => ({ s := create d.s h n i t }, "ok")
    | _, _, _, _ => (d, "bad-op")
  | ["wfull", h, db, ws, v] =>
    match h.toNat?, optDbTok db, natsTok ws, verdictTok v with
    | some h, some (some db), some ws, some v =>
      let (s', o) := writeFull d.s h db ws v
      ({ s := s' }, o)
    | _, _, _, _ => (d, "bad-op")
  | ["winc", h, ws] =>
    match h.toNat?, natsTok ws with
    | some h, some ws =>
      let (s', o) := writeInc d.s h ws
      ({ s := s' }, o)
    | _, _ => (d, "bad-op")
  | ["close", h] =>
    match h.toNat? with
    | some h => let (s', o) := close 2 d.s h; ({ s := s' }, o)
    | none => (d, "bad-op")
  | ["close@0", h] =>
    match h.toNat? with
    | some h => let (s', o) := close 0 d.s h; ({ s := s' }, o)
    | none => (d, "bad-op")
  | ["close@1", h] =>
    match h.toNat? with
    | some h => let (s', o) := close 1 d.s h; ({ s := s' }, o)
    | none => (d, "bad-op")
  | ["closerf", h] =>
    match h.toNat? with
    | some h => let (s', o) := closeRenameFails d.s h; ({ s := s' }, o)
    | none => (d, "bad-op")
  | ["cancel", h] =>
    match h.toNat? with
    | some h => let (s', o) := cancel d.s h; ({ s := s' }, o)
    | none => (d, "bad-op")
  | ["setfull"] => ({ s := setFull d.s }, "ok")
  | ["reap", nn] =>
    match nn.toNat? with
    | some nn => let (s', o) := reapOp alg d.s nn; ({ s := s' }, o)
    | none => (d, "bad-op")
  | ["reopen"] => let (s', o) := reopen alg d.s; ({ s := s' }, o)
  | ["crashclose", h, c] =>
    match h.toNat?, cutTok c with
    | some h, some c => ({ s := crashClose d.s h c }, "ok")
    | _, _ => (d, "bad-op")
  | ["list"] =>
    match scan d.s.fs with
    | .ok xs => (d, "ok " ++ (if xs.isEmpty then "-" else " ".intercalate (xs.reverse.map fun x =>
        s!"{x.mt.id}:{x.mt.index}:{x.mt.term}:{if x.db.isSome then "F" else "I"}")))
    | .error e => (d, "err " ++ e)
  | ["due"] => (d, if fullDue d.s.fs then "full" else "incremental")
  | ["flag"] => (d, if d.s.fs.fullNeeded then "set" else "clear")
  | ["ls"] => (d, lsStr d.s.fs)
  | ["open", n] =>
    match n.toNat? with
    | some n =>
      match scan d.s.fs with
      | .ok xs =>
        match resolveAt xs n with
        | some db => (d, optNatsStr (some db))
        | none => (d, "err resolve")
      | .error e => (d, "err " ++ e)
    | none => (d, "bad-op")
  | _ => (d, "bad-op")

end RqModel.SnapCatDrv
--! driver: snapcat RqModel.SnapCatDrv

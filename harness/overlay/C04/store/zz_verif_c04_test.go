package store

// C04 correspondence + spec oracle: histories on a real single-node Store — write batches (small
// and page-heavy), snapshots through raft (persisted by the real snapshot sink), snapshots whose
// Persist is not invoked or fails before the staged WAL is consumed, database loads (raft LOAD
// entries), boots, a follower-style snapshot install (real sink + real fsmRestore), reaps and
// restarts with a forced restore from the snapshot store — compared after every step with the
// Lean model `snapsm` (RqModel/Model/SnapSM.lean). The property itself is evaluated at every
// restart: the node must open and hold exactly the rows it had applied.

import (
	"context"
	"fmt"
	"io"
	"os"
	"path/filepath"
	"reflect"
	"strconv"
	"strings"
	"testing"
	"time"
	"unsafe"

	"github.com/hashicorp/raft"
	"github.com/rqlite/rqlite/v10/db"
	"github.com/rqlite/rqlite/v10/snapshot"
)

type c04Env struct {
	t                 *testing.T
	s                 *Store
	ops               []string
	impl              []string
	hist              []string
	nextID            int
	stale             bool // a staged WAL existed when the base database changed
	rep               *vfReport
	dead              bool
	lvl               string // "" = current source; "@1" … an older model level (experiments)
	pend              raftFSMSnapshot
	pendIdx           uint64
	pendTerm          uint64
	loadDuringPersist bool
	pendSuperseded    bool   // a snapshot was installed after the pending one was captured
	srcDB             *db.DB // a second connection to the database file, for parked read transactions
	parked            []context.CancelFunc
}

// park starts a long-running read on a second connection: it holds a read transaction at the
// current end of the WAL, so that a checkpoint can move every page but cannot truncate the WAL.
// This is invisible at the level of the model (the snapshot is an ordinary incremental one).
func (e *c04Env) park() {
	if e.srcDB == nil {
		d, err := db.Open(e.s.dbPath, false, true)
		if err != nil {
			e.t.Fatalf("park: %v", err)
		}
		e.srcDB = d
	}
	ctx, cancel := context.WithCancel(context.Background())
	d := e.srcDB
	go func() { d.QueryWithContext(ctx, mustCreateRequest(`SELECT * FROM bulk`), false) }()
	time.Sleep(700 * time.Millisecond)
	e.parked = append(e.parked, cancel)
}

func (e *c04Env) unpark() {
	for _, c := range e.parked {
		c()
	}
	if len(e.parked) > 0 {
		time.Sleep(400 * time.Millisecond)
	}
	e.parked = nil
}

func (e *c04Env) closeReaders() {
	e.unpark()
	if e.srcDB != nil {
		e.srcDB.Close()
		e.srcDB = nil
	}
}

// Load-related failures (a node that lost or has not yet regained leadership on an overloaded
// machine, an operation that timed out in a queue) are not findings: the case is abandoned and
// counted; the run fails as "harness could not run" only if more than half the cases end so.
type c04Abandon struct{ why string }

func c04Transient(err error) bool {
	if err == nil {
		return false
	}
	m := strings.ToLower(err.Error())
	for _, t := range []string{"not leader", "leadership lost", "timeout waiting for leader", "timed out enqueuing", "leadership transfer in progress", "timeout waiting for", "context deadline exceeded"} {
		if strings.Contains(m, t) {
			return true
		}
	}
	return false
}

// must: nil = fine; a load-related error abandons the case; anything else is a broken harness
func (e *c04Env) must(what string, err error) {
	if err == nil {
		return
	}
	if c04Transient(err) {
		panic(c04Abandon{what + ": " + err.Error()})
	}
	e.t.Fatalf("%s: %v (history %v)", what, err, e.hist)
}

func (e *c04Env) exec(qs []string) {
	rows, _, err := e.s.Execute(context.Background(), executeRequestFromStrings(qs, false, false))
	e.must("execute", err)
	for _, r := range rows {
		if r.GetError() != "" {
			e.t.Fatalf("execute: %s (history %v)", r.GetError(), e.hist)
		}
	}
}

// c04CatchFatal replaces the sink's "exit the process" function (an unexported field of
// snapshot.Sink) by one that records the call, so that the run can continue with what the
// exit amounts to: a restart.
func c04CatchFatal(sink raft.SnapshotSink, called *bool) {
	v := reflect.ValueOf(sink)
	if v.Kind() != reflect.Ptr || v.Elem().Kind() != reflect.Struct {
		return
	}
	f := v.Elem().FieldByName("fatalFn")
	if !f.IsValid() {
		return
	}
	fn := func(error) { *called = true }
	reflect.NewAt(f.Type(), unsafe.Pointer(f.UnsafeAddr())).Elem().Set(reflect.ValueOf(fn))
}

type raftFSMSnapshot interface {
	Persist(sink raft.SnapshotSink) error
	Release()
}

func (e *c04Env) emit(op, res string) { e.ops = append(e.ops, op); e.impl = append(e.impl, res) }

func (e *c04Env) content() string {
	rows, _, _, err := e.s.Query(context.Background(), queryRequestFromString("SELECT id FROM t ORDER BY id", false, false, false))
	if err != nil {
		return "err " + err.Error()
	}
	if len(rows) != 1 || rows[0].Error != "" {
		if len(rows) == 1 && strings.Contains(rows[0].Error, "no such table") {
			return "e"
		}
		return "err " + fmt.Sprint(rows)
	}
	var ids []string
	for _, v := range rows[0].Values {
		ids = append(ids, strconv.FormatInt(v.GetParameters()[0].GetI(), 10))
	}
	if len(ids) == 0 {
		return "e"
	}
	return strings.Join(ids, ",")
}

// fullContent is what the restart oracle compares: rows of t, size of bulk, integrity
func (e *c04Env) fullContent() string {
	rows, _, _, err := e.s.Query(context.Background(), queryRequestFromString("SELECT count(*), coalesce(sum(length(pad)),0) FROM bulk", false, false, false))
	bulk := "?"
	if err == nil && len(rows) == 1 && rows[0].Error == "" {
		bulk = fmt.Sprintf("%d/%d", rows[0].Values[0].GetParameters()[0].GetI(), rows[0].Values[0].GetParameters()[1].GetI())
	} else if err == nil && len(rows) == 1 {
		bulk = "err " + rows[0].Error
	}
	integ := "?"
	rows, _, _, err = e.s.Query(context.Background(), queryRequestFromString("PRAGMA integrity_check", false, false, false))
	if err == nil && len(rows) == 1 && rows[0].Error == "" && len(rows[0].Values) == 1 {
		integ = rows[0].Values[0].GetParameters()[0].GetS()
	} else if err == nil && len(rows) == 1 {
		integ = "err " + rows[0].Error
	}
	tables := "?"
	rows, _, _, err = e.s.Query(context.Background(), queryRequestFromString("SELECT group_concat(name) FROM (SELECT name FROM sqlite_master WHERE type='table' ORDER BY name)", false, false, false))
	if err == nil && len(rows) == 1 && rows[0].Error == "" && len(rows[0].Values) == 1 {
		tables = rows[0].Values[0].GetParameters()[0].GetS()
	}
	return e.content() + " bulk=" + bulk + " tables=" + tables + " integrity=" + integ
}

func (e *c04Env) state() string {
	wals, _ := e.s.StagedWALs()
	st, _ := e.s.snapshotStore.Stats()
	n := 0
	if ids, ok := st["snapshots"].([]string); ok {
		n = len(ids)
	}
	dn, _ := e.s.snapshotStore.DueNext()
	return fmt.Sprintf("staged=%d snaps=%d due=%s", len(wals), n, dn)
}

// restartProc stops the node, forces a restore from the snapshot store, starts it again and
// evaluates the property: it must open and hold exactly what it had applied.
func (e *c04Env) restartProc() string { return e.restartWith(true, "") }

// restartWith: force = remove the clean-snapshot marker first (restore from the snapshot store);
// want != "" = the rows the node must hold afterwards (otherwise: what it held before).
func (e *c04Env) restartWith(force bool, want string) string {
	s := e.s
	e.closeReaders()
	before := e.fullContent()
	if err := s.Close(true); err != nil {
		e.t.Fatalf("close: %v", err)
	}
	if force {
		if err := s.ForceSnapshotRestore(); err != nil {
			e.t.Fatal(err)
		}
		e.hist = append(e.hist, "restart(forced restore)")
	} else {
		e.hist = append(e.hist, "restart")
	}
	sig := ""
	if e.stale {
		sig = ":staged-wal-survived-base-change"
	} else if e.loadDuringPersist {
		sig = ":load-applied-while-snapshot-persisted"
	}
	if err := s.Open(); err != nil {
		e.rep.Fail("restart-from-snapshot-fails"+sig, fmt.Sprintf("history %v: Open: %v", e.hist, err), map[string]interface{}{"history": e.hist})
		e.dead = true
		return "corrupt"
	}
	if _, err := s.WaitForLeader(120 * time.Second); err != nil {
		panic(c04Abandon{"no leader after restart: " + err.Error()})
	}
	// wait until the FSM has applied the whole replayed log
	if err := s.raft.Barrier(120 * time.Second).Error(); err != nil {
		panic(c04Abandon{"barrier after restart: " + err.Error()})
	}
	after := e.fullContent()
	if want != "" {
		if got := e.content(); got != want {
			e.rep.Fail("restart-after-interrupted-install-keeps-old-database", fmt.Sprintf("history %v: the newest snapshot holds rows %q, the restarted node holds %q (it had %q before the install began)", e.hist, want, got, before),
				map[string]interface{}{"history": e.hist, "want": want, "got": got})
		}
		return "ok"
	}
	if after != before {
		e.rep.Fail("restored-state-differs"+sig, fmt.Sprintf("history %v: applied rows %q, after restoring the newest snapshot and replaying the log %q", e.hist, before, after),
			map[string]interface{}{"history": e.hist, "before": before, "after": after})
	}
	return "ok"
}

func (e *c04Env) observe() {
	if e.dead {
		return
	}
	e.emit("db", e.content())
	e.emit("state", e.state())
}

// mkLoadFile builds a SQLite file holding table t with the single row id.
func (e *c04Env) mkLoadFile(id int, wal bool) string {
	p := filepath.Join(e.t.TempDir(), fmt.Sprintf("load_%d.sqlite", id))
	d, err := db.Open(p, false, wal)
	if err != nil {
		e.t.Fatal(err)
	}
	// every loaded database is laid out differently (its own marker table first, a few pages of
	// filler), so that WAL pages cut from one database do not happen to fit another
	qs := []string{fmt.Sprintf("CREATE TABLE m%d (x TEXT)", id)}
	for i := 0; i < id%5+2; i++ {
		qs = append(qs, fmt.Sprintf("INSERT INTO m%d(x) VALUES('%s')", id, strings.Repeat("m", 1500)))
	}
	qs = append(qs, "CREATE TABLE t (id INTEGER PRIMARY KEY, v TEXT)", "CREATE TABLE bulk (k INTEGER PRIMARY KEY, pad TEXT)",
		fmt.Sprintf("INSERT INTO t(id, v) VALUES(%d, 'loaded')", id))
	for _, q := range qs {
		if rs, err := d.ExecuteStringStmt(q); err != nil || rs[0].GetError() != "" {
			e.t.Fatalf("building load file: %v %v", err, rs)
		}
	}
	if wal {
		// a leader's snapshot database: WAL mode, fully checkpointed
		if _, err := d.Checkpoint(db.CheckpointTruncate); err != nil {
			e.t.Fatal(err)
		}
	}
	if err := d.Close(); err != nil {
		e.t.Fatal(err)
	}
	os.Remove(p + "-wal")
	os.Remove(p + "-shm")
	return p
}

func (e *c04Env) noteBaseChange() {
	if wals, _ := e.s.StagedWALs(); len(wals) > 0 {
		e.stale = true
	}
}

func (e *c04Env) snapKind(fullBefore int, incBefore uint64) string {
	if e.s.numFullSnapshots > fullBefore {
		return "full"
	}
	if e.s.numIncSnapshots.Load() > incBefore {
		return "incremental"
	}
	return "unknown"
}

func (e *c04Env) do(op string, r *vfRng) {
	s := e.s
	switch {
	case op == "write":
		e.nextID++
		pad := strings.Repeat("p", 20)
		if r.Chance(35) {
			pad = strings.Repeat("P", 3000+r.Intn(9000)) // page-heavy
		}
		e.exec([]string{fmt.Sprintf("INSERT INTO t(id, v) VALUES(%d, '%s')", e.nextID, pad)})
		e.emit(fmt.Sprintf("write %d", e.nextID), "ok")
		e.hist = append(e.hist, "write")
	case op == "bigwrite":
		// one raft entry touching many pages
		e.nextID++
		qs := []string{fmt.Sprintf("INSERT INTO t(id, v) VALUES(%d, 'big')", e.nextID)}
		for i := 0; i < 120; i++ {
			qs = append(qs, fmt.Sprintf("INSERT INTO bulk(pad) VALUES('%s')", strings.Repeat("B", 1200+r.Intn(600))))
		}
		e.exec(qs)
		e.emit(fmt.Sprintf("write %d", e.nextID), "ok")
		e.hist = append(e.hist, "write(120 rows)")
	case op == "park":
		e.park()
		e.hist = append(e.hist, "reader parked at the end of the WAL")
	case op == "unpark":
		e.unpark()
		e.hist = append(e.hist, "readers released")
	case op == "repark":
		old := e.parked
		e.parked = nil
		for _, c := range old {
			c()
		}
		time.Sleep(400 * time.Millisecond)
		e.park()
		e.hist = append(e.hist, "reader replaced by one at the new end of the WAL")
	case op == "noop":
		af, err := s.Noop("verif")
		e.must("noop", err)
		e.must("noop", af.Error())
		e.emit("noop", "ok")
		e.hist = append(e.hist, "noop")
	case op == "snapbegin":
		// FSM.Snapshot() as raft's FSM goroutine calls it; Persist/Close happen later (snapend)
		if e.pend != nil {
			e.t.Fatal("harness: snapbegin while a snapshot is pending")
		}
		fb, ib := s.numFullSnapshots, s.numIncSnapshots.Load()
		if dn, _ := s.snapshotDueNext(); dn == snapshot.Full {
			e.noteBaseChange()
		}
		idx, term := s.raft.AppliedIndex(), s.raft.CurrentTerm()
		f, err := NewFSM(s).Snapshot()
		res := ""
		if err == ErrNoWALToSnapshot {
			res = "nowal"
		} else if err != nil {
			res = "err " + err.Error()
		} else {
			e.pend, e.pendIdx, e.pendTerm = f, idx, term
			res = e.snapKind(fb, ib)
		}
		e.emit("snapbegin"+e.lvl, res)
		e.hist = append(e.hist, "FSM.Snapshot():"+res)
	case op == "snapbeginfail":
		// FSM.Snapshot() whose checkpoint succeeds and whose WAL cannot be staged: while it runs, a
		// watcher turns the CRC sidecar path of the WAL file being written into a directory, so that
		// walWriter.Close fails. If the watcher loses the race this is an ordinary FSM.Snapshot().
		if e.pend != nil {
			e.t.Fatal("harness: snapbeginfail while a snapshot is pending")
		}
		fb, ib := s.numFullSnapshots, s.numIncSnapshots.Load()
		if dn, _ := s.snapshotDueNext(); dn == snapshot.Full {
			e.noteBaseChange()
		}
		idx, term := s.raft.AppliedIndex(), s.raft.CurrentTerm()
		stop, done := make(chan struct{}), make(chan struct{})
		// only the WAL file this call creates is a target: files staged earlier are left alone (the
		// full-snapshot path removes the whole staging directory; touching it there would make
		// that removal fail, which is not the failure meant here)
		old := map[string]bool{}
		if ms, _ := filepath.Glob(filepath.Join(s.walStagingDir, "*.wal")); len(ms) > 0 {
			for _, m := range ms {
				old[m] = true
			}
		}
		go func() {
			defer close(done)
			for {
				select {
				case <-stop:
					return
				default:
				}
				if ms, _ := filepath.Glob(filepath.Join(s.walStagingDir, "*.wal")); len(ms) > 0 {
					for _, m := range ms {
						if old[m] {
							continue
						}
						if _, err := os.Stat(m + ".crc32"); err != nil {
							os.Mkdir(m+".crc32", 0o755)
						}
					}
				}
			}
		}()
		f, err := NewFSM(s).Snapshot()
		close(stop)
		<-done
		switch {
		case err == ErrNoWALToSnapshot:
			e.emit("snapbeginfail"+e.lvl, "nowal")
			e.hist = append(e.hist, "FSM.Snapshot():nowal")
		case err != nil && !strings.Contains(err.Error(), "CRC32 sum file"):
			e.t.Fatalf("snapbeginfail: FSM.Snapshot() failed with something other than the provoked staging failure: %v (history %v)", err, e.hist)
		case err != nil:
			e.emit("snapbeginfail"+e.lvl, "err-stage")
			e.hist = append(e.hist, "FSM.Snapshot() fails staging the checkpointed WAL: "+err.Error())
		default:
			e.pend, e.pendIdx, e.pendTerm = f, idx, term
			res := e.snapKind(fb, ib)
			if res == "full" {
				e.emit("snapbeginfail"+e.lvl, res)
			} else {
				e.emit("snapbegin"+e.lvl, res) // the watcher was too late
			}
			e.hist = append(e.hist, "FSM.Snapshot():"+res)
		}
	case strings.HasPrefix(op, "snapend "):
		outcome := strings.TrimPrefix(op, "snapend ")
		if e.pend == nil {
			e.emit(op, "nopending")
			break
		}
		res := "not-installed"
		switch outcome {
		case "ok":
			// what raft's takeSnapshot does after FSM.Snapshot(): create the sink, Persist, Close
			cf := s.raft.GetConfiguration()
			if err := cf.Error(); err != nil {
				e.t.Fatal(err)
			}
			sink, err := s.snapshotStore.Create(1, e.pendIdx, e.pendTerm, cf.Configuration(), 1, nil)
			if err != nil {
				e.t.Fatalf("snapend: create sink: %v", err)
			}
			fatal := false
			c04CatchFatal(sink, &fatal)
			if err := e.pend.Persist(sink); err != nil {
				sink.Cancel()
			} else if err := sink.Close(); err == nil {
				res = "installed"
			}
			if fatal {
				// Sink.Close took its fatal exit: the process ends here and is started again
				e.pend.Release()
				e.pend, e.pendSuperseded = nil, false
				e.hist = append(e.hist, "Persist+Close(ok):process exit (Sink.Close fatal)")
				if r := e.restartProc(); r == "ok" {
					e.emit(op, "fatal-exit")
				} else {
					e.emit(op, r)
				}
				return
			}
		case "failbefore":
			if perr := e.pend.Persist(&mockSnapshotSink{nil, fmt.Errorf("verif: sink write error"), nil}); perr == nil {
				e.t.Fatal("mock sink did not fail")
			}
		case "failafter":
			// Sink.Close fails at its final rename (the snapshot's name is taken by a plain file,
			// which the catalog ignores): for an incremental snapshot that is after the staging
			// directory has been consumed, and the sink exits the process
			cf := s.raft.GetConfiguration()
			if err := cf.Error(); err != nil {
				e.t.Fatal(err)
			}
			sink, err := s.snapshotStore.Create(1, e.pendIdx, e.pendTerm, cf.Configuration(), 1, nil)
			if err != nil {
				e.t.Fatalf("snapend: create sink: %v", err)
			}
			fatal := false
			c04CatchFatal(sink, &fatal)
			blocker := filepath.Join(s.snapshotDir, sink.ID())
			if err := e.pend.Persist(sink); err != nil {
				sink.Cancel()
			} else {
				if err := os.WriteFile(blocker, []byte("verif"), 0o644); err != nil {
					e.t.Fatal(err)
				}
				if err := sink.Close(); err == nil {
					e.t.Fatal("harness: Close succeeded although its final name is taken")
				}
				os.Remove(blocker)
			}
			if fatal {
				e.pend.Release()
				e.pend, e.pendSuperseded = nil, false
				e.hist = append(e.hist, "Persist+Close(final rename fails):process exit (Sink.Close fatal)")
				if r := e.restartProc(); r == "ok" {
					e.emit(op, "fatal-exit")
				} else {
					e.emit(op, r)
				}
				return
			}
		}
		e.pend.Release()
		e.pend, e.pendSuperseded = nil, false
		e.emit(op, res)
		e.hist = append(e.hist, "Persist+Close("+outcome+"):"+res)
	case strings.HasPrefix(op, "snap "):
		outcome := strings.TrimPrefix(op, "snap ")
		fb, ib := s.numFullSnapshots, s.numIncSnapshots.Load()
		if dn, _ := s.snapshotStore.DueNext(); dn == snapshot.Full {
			e.noteBaseChange()
		}
		res := ""
		switch outcome {
		case "ok":
			err := s.Snapshot(0)
			if c04Transient(err) {
				panic(c04Abandon{"snapshot: " + err.Error()})
			}
			switch {
			case err == nil:
				res = e.snapKind(fb, ib)
			case err == ErrNothingNewToSnapshot:
				res = "nothing"
			case err == ErrNoWALToSnapshot:
				res = "nowal"
			default:
				res = "err " + err.Error()
			}
		default:
			f, err := NewFSM(s).Snapshot()
			if err == ErrNoWALToSnapshot {
				res = "nowal"
			} else if err != nil {
				res = "err " + err.Error()
			} else {
				if outcome == "failbefore" {
					if perr := f.Persist(&mockSnapshotSink{nil, fmt.Errorf("verif: sink write error"), nil}); perr == nil {
						e.t.Fatal("mock sink did not fail")
					}
				}
				f.Release()
				res = e.snapKind(fb, ib) + "-not-installed"
			}
		}
		e.emit("snap"+e.lvl+" "+outcome, res)
		e.hist = append(e.hist, "snapshot("+outcome+"):"+res)
	case op == "load":
		e.nextID++
		e.noteBaseChange()
		if e.pend != nil {
			e.loadDuringPersist = true
		}
		p := e.mkLoadFile(e.nextID, false)
		e.must("load", s.Load(context.Background(), loadRequestFromFile(p)))
		e.emit(fmt.Sprintf("load %d", e.nextID), "ok")
		e.hist = append(e.hist, "load")
	case op == "boot":
		e.nextID++
		e.noteBaseChange()
		f, err := os.Open(e.mkLoadFile(e.nextID, r.Bool()))
		if err != nil {
			e.t.Fatal(err)
		}
		_, err = s.ReadFrom(f)
		f.Close()
		e.must("boot", err)
		e.emit(fmt.Sprintf("boot%s %d", e.lvl, e.nextID), "ok")
		e.hist = append(e.hist, "boot")
	case op == "install":
		// what raft's installSnapshot does on a follower: stream the leader's snapshot into a sink of
		// the local snapshot store, close it, then hand the stored snapshot to FSM.Restore
		if e.pend != nil {
			// raft does not serialize installSnapshot with a local snapshot in flight. The leader's
			// snapshot is ahead of anything captured locally: take one more log index first.
			af, err := s.Noop("verif")
			e.must("noop before install", err)
			e.must("noop before install", af.Error())
			e.emit("noop", "ok")
			e.pendSuperseded = true
			e.hist = append(e.hist, "(local snapshot in flight)")
		}
		e.nextID++
		e.noteBaseChange()
		p := e.mkLoadFile(e.nextID, true)
		cf := s.raft.GetConfiguration()
		if err := cf.Error(); err != nil {
			e.t.Fatal(err)
		}
		idx := s.raft.AppliedIndex()
		sink, err := s.snapshotStore.Create(1, idx, s.raft.CurrentTerm(), cf.Configuration(), 1 /* the bootstrap configuration entry; GetConfiguration's future does not carry the index */, nil)
		if err != nil {
			e.t.Fatalf("install: create sink: %v", err)
		}
		str, err := snapshot.NewSnapshotStreamer(p)
		if err != nil {
			e.t.Fatal(err)
		}
		if err := str.Open(); err != nil {
			e.t.Fatal(err)
		}
		if _, err := io.Copy(sink, str); err != nil {
			e.t.Fatalf("install: copy: %v", err)
		}
		str.Close()
		if err := sink.Close(); err != nil {
			e.t.Fatalf("install: close: %v", err)
		}
		_, rc, err := s.snapshotStore.Open(sink.ID())
		if err != nil {
			e.t.Fatalf("install: open: %v", err)
		}
		if err := NewFSM(s).Restore(rc); err != nil {
			e.t.Fatalf("install: restore: %v", err)
		}
		e.emit(fmt.Sprintf("install%s %d", e.lvl, e.nextID), "ok")
		e.hist = append(e.hist, "install")
	case op == "installcrash":
		// raft's installSnapshot on a follower, interrupted: the leader's snapshot is streamed into a
		// sink of the local snapshot store and the sink is closed; the process dies before FSM.Restore
		// has replaced the database. The restart is an ordinary one (the clean-snapshot marker is left
		// as it is): the node must come up with the database of its newest snapshot.
		if e.pend != nil {
			e.pend.Release()
			e.pend, e.pendSuperseded = nil, false
		}
		af, nerr := s.Noop("verif")
		e.must("noop before install", nerr)
		e.must("noop before install", af.Error())
		e.emit("noop", "ok")
		e.nextID++
		e.noteBaseChange()
		p := e.mkLoadFile(e.nextID, true)
		cf := s.raft.GetConfiguration()
		if err := cf.Error(); err != nil {
			e.t.Fatal(err)
		}
		sink, err := s.snapshotStore.Create(1, s.raft.AppliedIndex(), s.raft.CurrentTerm(), cf.Configuration(), 1, nil)
		if err != nil {
			e.t.Fatalf("installcrash: create sink: %v", err)
		}
		str, err := snapshot.NewSnapshotStreamer(p)
		if err != nil {
			e.t.Fatal(err)
		}
		if err := str.Open(); err != nil {
			e.t.Fatal(err)
		}
		if _, err := io.Copy(sink, str); err != nil {
			e.t.Fatalf("installcrash: copy: %v", err)
		}
		str.Close()
		if err := sink.Close(); err != nil {
			e.t.Fatalf("installcrash: close: %v", err)
		}
		e.hist = append(e.hist, "install: snapshot stored, process dies before FSM.Restore")
		r := e.restartWith(false, strconv.Itoa(e.nextID))
		e.emit(fmt.Sprintf("installcrash%s %d", e.lvl, e.nextID), r)
	case op == "reap":
		if _, _, err := s.snapshotStore.Reap(); err != nil {
			e.emit("reap", "err "+err.Error())
			e.rep.Fail("reap-fails", fmt.Sprintf("history %v: %v", e.hist, err), map[string]interface{}{"history": e.hist})
		} else {
			e.emit("reap", "ok")
		}
		e.hist = append(e.hist, "reap")
	case op == "restart":
		if e.pend != nil {
			e.pend.Release()
			e.pend, e.pendSuperseded = nil, false
		}
		if r := e.restartProc(); r != "" {
			e.emit("restart", r)
		}
	default:
		e.t.Fatalf("unknown op %s", op)
	}
}

func c04NewEnv(t *testing.T, rep *vfReport) *c04Env {
	s, ln := mustNewStore(t)
	t.Cleanup(func() { ln.Close() })
	s.SnapshotReapThreshold = 100000
	s.NoSnapshotOnClose = true
	// a single node: short raft timeouts only shorten the election after every (re)start
	s.HeartbeatTimeout, s.ElectionTimeout, s.LeaderLeaseTimeout = 200*time.Millisecond, 200*time.Millisecond, 200*time.Millisecond
	if err := s.Open(); err != nil {
		t.Fatalf("open: %v", err)
	}
	if err := s.Bootstrap(NewServer(s.ID(), s.Addr(), true)); err != nil {
		t.Fatalf("bootstrap: %v", err)
	}
	if _, err := s.WaitForLeader(120 * time.Second); err != nil {
		t.Fatalf("leader: %v", err)
	}
	e := &c04Env{t: t, s: s, rep: rep, lvl: os.Getenv("VERIF_C04_LVL")}
	e.emit("reset", "ok")
	mustExecute(t, s, []string{"CREATE TABLE t (id INTEGER PRIMARY KEY, v TEXT)", "CREATE TABLE bulk (k INTEGER PRIMARY KEY, pad TEXT)"})
	e.emit("noop", "ok")
	return e
}

// runOps performs the operations of one case (skipping those that do not apply in the state reached)
func (e *c04Env) runOps(ops []string, r *vfRng) {
	for _, op := range ops {
		if e.dead {
			break
		}
		if e.pend != nil && (op == "boot" || op == "snapbegin" || strings.HasPrefix(op, "snap ")) {
			continue // raft takes one snapshot at a time (a boot goes through the same goroutine)
		}
		if e.pend == nil && strings.HasPrefix(op, "snapend ") {
			continue
		}
		if e.pend != nil && op == "snapbeginfail" {
			continue
		}
		if e.pendSuperseded && op == "snapend failafter" {
			op = "snapend ok" // the staging directory is already gone: Close fails before its final rename
		}
		e.do(op, r)
		e.observe()
	}
}

func TestVerifC04(t *testing.T) {
	rep := vfNewReport("C04", "histories on a real single-node Store (8-16 steps [thorough 12-40]): write batches (35% page-heavy), snapshot via raft + real sink, FSM.Snapshot() and Persist+Close driven separately with applies or a snapshot install in between, snapshot with Persist not invoked / failing before the staged WAL is consumed / Close failing at its final rename (the sink's process exit is caught and followed by a restart), FSM.Snapshot() failing to stage the checkpointed WAL, load (raft LOAD entry), boot, follower-style install (real sink + FSM.Restore), reap, restart with forced restore; first 17 directed histories (every confirmed defect shape, every interleaving around a snapshot in flight, snapshots whose WAL truncation is blocked twice by parked read transactions), then generated ones biased towards 'staged WAL present when the base database changes'; after every step rows of the table, number of staged WALs, number of snapshots and DueNext compared with the model; at every restart the node must open and hold the rows it had applied; non-trivial: at least one snapshot is not installed and one restart happens; distinct by op text")
	defer rep.Write()
	r := vfNewRng(4)
	var allOps, allImpl [][]string
	nCases, nAbandoned := 0, 0
	run := func(ops []string) {
		nCases++
		e := c04NewEnv(t, rep)
		abandoned := false
		func() {
			defer func() {
				if x := recover(); x != nil {
					a, ok := x.(c04Abandon)
					if !ok {
						panic(x)
					}
					abandoned = true
					nAbandoned++
					rep.Count("abandoned-under-load")
					t.Logf("C04: case abandoned (%s) after %v", a.why, e.hist)
				}
			}()
			e.runOps(ops, r)
		}()
		if abandoned {
			e.closeReaders()
			if e.pend != nil {
				e.pend.Release()
			}
			e.s.Close(true)
			return
		}
		if e.pend != nil {
			e.pend.Release()
			e.pend = nil
		}
		e.closeReaders()
		if !e.dead {
			e.s.Close(true)
		}
		skipped, restarts := false, false
		for _, o := range ops {
			if o == "snap notinvoked" || o == "snap failbefore" || o == "snapend notinvoked" || o == "snapend failbefore" ||
				o == "snapend failafter" || o == "snapbeginfail" {
				skipped = true
			}
			if o == "restart" {
				restarts = true
			}
		}
		if os.Getenv("VERIF_DEBUG") != "" {
			for i := range e.ops {
				fmt.Printf("C04DBG %s => %s\n", e.ops[i], e.impl[i])
			}
		}
		rep.Case(strings.Join(e.ops, ";"), skipped && restarts)
		if len(rep.Samples) < 3 {
			rep.Sample(map[string]interface{}{"history": e.hist})
		}
		allOps = append(allOps, e.ops)
		allImpl = append(allImpl, e.impl)
	}
	if h := os.Getenv("VERIF_C04_HISTORY"); h != "" {
		run(strings.Split(h, ","))
		return
	}
	// A fixed set of short directed histories, run in every tier: each shape of a defect that was
	// confirmed on the real code (and repaired), plus the interleavings raft permits around a
	// snapshot in flight.
	for _, h := range [][]string{
		// 6482ad3: a snapshot whose persist is skipped / fails leaves a staged WAL; the base database then
		// changes (load, install, boot); full; incremental; restore
		{"write", "snap ok", "bigwrite", "bigwrite", "snap notinvoked", "load", "bigwrite", "snap ok", "write", "snap ok", "restart"},
		{"write", "snap ok", "bigwrite", "snap failbefore", "install", "bigwrite", "snap ok", "restart", "write", "snap ok", "restart"},
		{"write", "snap ok", "bigwrite", "snap notinvoked", "boot", "bigwrite", "snap ok", "restart"},
		// the seeded interleaving: FSM.Snapshot() [full of A]; Load(B) applied before Persist/Close;
		// Persist+Close install full(A); writes; next snapshot; forced-restore restart
		{"write", "snapbegin", "load", "snapend ok", "bigwrite", "snap ok", "restart"},
		// bb0a5c5: … then a full snapshot that is not persisted, then an ordinary snapshot
		{"write", "snapbegin", "load", "snapend ok", "bigwrite", "snapbegin", "snapend notinvoked", "bigwrite", "snap ok", "restart"},
		{"write", "snap ok", "bigwrite", "snapbegin", "load", "snapend ok", "bigwrite", "snap ok", "bigwrite", "snap ok", "restart"},
		// a snapshot from the leader installed while a local snapshot is in flight: an incremental
		// (its Close then takes the sink's fatal exit: restart), a full one, ones that are not persisted
		{"write", "snap ok", "bigwrite", "snapbegin", "install", "snapend ok", "write", "snap ok", "restart"},
		{"write", "snapbegin", "install", "snapend ok", "bigwrite", "snap ok", "restart", "write", "snap ok", "restart"},
		{"write", "snap ok", "bigwrite", "snapbegin", "install", "snapend failbefore", "bigwrite", "snap ok", "write", "snap ok", "restart"},
		{"write", "snap ok", "bigwrite", "snapbegin", "install", "snapend notinvoked", "bigwrite", "snap ok", "restart"},
		// 4670e70: the checkpoint succeeds, staging its WAL fails; write; snapshot; restore
		{"write", "snap ok", "bigwrite", "snapbeginfail", "snapend ok", "bigwrite", "snap ok", "restart"},
		// Sink.Close failing at its final rename: after the staged WAL was consumed (fatal exit), and for a full snapshot
		{"write", "snap ok", "bigwrite", "snapbegin", "snapend failafter", "bigwrite", "snap ok", "restart"},
		{"write", "snapbegin", "snapend failafter", "bigwrite", "snap ok", "restart"},
		// snapshots whose WAL truncation is blocked by parked readers, twice in a row with the WAL appended
		// to in between (the content of the segments is C06's; end to end it must still rebuild)
		{"write", "snap ok", "bigwrite", "park", "snap ok", "bigwrite", "repark", "snap ok", "bigwrite", "unpark", "snap ok", "restart"},
		// an install interrupted between "snapshot stored" and FSM.Restore, ordinary restart (the
		// clean-snapshot marker still describes the old database file), then more work and a forced restore
		{"write", "snap ok", "write", "installcrash", "write", "snap ok", "restart"},
		{"write", "snap ok", "bigwrite", "snap ok", "installcrash", "bigwrite", "snap ok", "write", "snap ok", "restart"},
		// a chain of incrementals, reap, more, restore
		{"write", "snap ok", "bigwrite", "snap ok", "write", "snap ok", "reap", "write", "snap ok", "restart"},
	} {
		for _, o := range h {
			rep.Count("op:" + strings.SplitN(o, " ", 2)[0])
		}
		run(h)
	}
	nSeq := vfScale(20, 120)
	for i := 0; i < nSeq; i++ {
		n := vfScale(8, 12) + r.Intn(vfScale(9, 29))
		ops := []string{"write", "snap ok"}
		for len(ops) < n {
			switch c := r.Intn(20); {
			case c < 4:
				ops = append(ops, "write")
			case c < 6:
				ops = append(ops, "bigwrite")
			case c < 7:
				ops = append(ops, "noop")
			case c < 10:
				ops = append(ops, "write", "snap ok")
			case c < 11:
				ops = append(ops, "bigwrite", "snap notinvoked")
			case c < 12:
				ops = append(ops, "bigwrite", "snapbegin", []string{"write", "load", "bigwrite", "noop", "install"}[r.Intn(5)], "snapend "+[]string{"ok", "ok", "notinvoked", "failbefore"}[r.Intn(4)])
			case c < 13:
				switch r.Intn(4) {
				case 0:
					ops = append(ops, "bigwrite", "snapbeginfail", "snapend ok")
				case 1:
					ops = append(ops, "bigwrite", "snapbegin", "snapend failafter")
				default:
					ops = append(ops, "write", "snap failbefore")
				}
			case c < 14:
				ops = append(ops, "snap ok")
			case c < 15:
				ops = append(ops, "load")
			case c < 16:
				ops = append(ops, "boot")
			case c < 17:
				if r.Intn(3) == 0 {
					ops = append(ops, "installcrash")
				} else {
					ops = append(ops, "install")
				}
			case c < 18:
				ops = append(ops, "reap")
			default:
				ops = append(ops, "restart")
			}
		}
		ops = append(ops, "write", "snap ok", "restart")
		for _, o := range ops {
			rep.Count("op:" + strings.SplitN(o, " ", 2)[0])
		}
		run(ops)
	}
	if nAbandoned*2 > nCases {
		t.Fatalf("C04: harness could not run: %d of %d cases abandoned because of load-related failures", nAbandoned, nCases)
	}
	rep.vfCompareSegments("snapsm", allOps, allImpl)
}

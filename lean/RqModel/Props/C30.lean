/-
C30  Values round-trip through the HTTP API without loss.

Property theorems only. Model: RqModel/Model/Values.lean (makeParameter, ParseHex,
parametersToValues/bindParam, the driver's value types, normalizeRowParameters, the JSON
encoder), tied to http/request_parser.go, db/db.go, db/state.go and
command/encoding/json.go by the C30 correspondence run.

The read path has a recorded defect (known_findings.d/C30.json): the full statement
`readback_lossless_full` is kept visible, proved false at concrete inputs
(`…_witness`), and proved under the explicit exclusion (`…_partial`).
-/
import RqModel.Model.Values
namespace C30
open RqModel.Values RqModel.Util

/-! ### parameters are bound with the same type and value -/

/-- what SQLite must receive for a JSON parameter (the specification) -/
def expected : JParam → Option SqlVal
  | .num lit tok =>
    match parseInt10 lit with
    | some z => some (.integer z)
    | none => if floatOverflows lit then none else some (.real (.fin tok))
  | .bool b => some (.integer (if b then 1 else 0))
  | .null => some .null
  | .str s => some (match parseHex s with | some bs => .blob bs | none => .text s)
  | .arr elems =>
    (elems.mapM fun (e : Option Int) =>
      match e with
      | some z => if 0 ≤ z ∧ z ≤ 255 then some z.toNat.toUInt8 else none
      | none => none).map .blob
  | .obj => none

/-- (`expected` is a DISPATCH TABLE with the shape of `makeParameter`'s cases; the specification proper
is the harness oracle, which knows class and value of every generated parameter independently and
checks them against typeof/hex/quote on real SQLite.)
Every JSON parameter is bound to SQLite with the same type and value: 64-bit integers as
INTEGER with the same number (full range), other numbers as REAL with the same double,
booleans as INTEGER 1/0, null as NULL, strings as TEXT with the same characters unless
`ParseHex` accepts them (then BLOB with the decoded bytes), arrays of 0..255 as BLOB with
exactly those bytes (the empty array as the empty blob); anything else is rejected. -/
theorem bind_preserves_type_and_value (j : JParam) :
    (makeParameter j).map bindParam = expected j := by
  cases j with
  | num lit tok =>
    simp only [makeParameter, expected]
    cases parseInt10 lit with
    | some z => simp [bindParam]
    | none => simp only; split <;> simp [bindParam]
  | bool b => simp [makeParameter, expected, bindParam]
  | null => simp [makeParameter, expected, bindParam]
  | str s =>
    simp only [makeParameter, expected]
    cases h : parseHex s <;> simp [bindParam]
  | arr elems =>
    simp only [makeParameter, expected, Option.map_map]
    rfl
  | obj => simp [makeParameter, expected]

/-- binding never confuses two parameters: apart from a boolean and the integer it is stored
as, different parameters reach SQLite as different values -/
theorem bind_injective (p q : Param) (hp : ∀ b, p ≠ .b b) (hq : ∀ b, q ≠ .b b)
    (hp' : ∀ bs, p ≠ .sBytes bs) (hq' : ∀ bs, q ≠ .sBytes bs) (h : bindParam p = bindParam q) : p = q := by
  cases p <;> cases q <;> simp_all [bindParam]

example : (makeParameter (.num "9223372036854775807" "t")).map bindParam = some (.integer 9223372036854775807) ∧
    (makeParameter (.arr [])).map bindParam = some (.blob []) ∧
    (makeParameter (.arr [some 1, some 256])).map bindParam = none := by decide

/-! ### json.Number: 64-bit integers and floats -/

/-- JSON's only sign -/
def splitMinus : List Char → Bool × List Char
  | [] => (false, [])
  | c :: r => if c = '-' then (true, r) else (false, c :: r)

/-- the mathematical value of an integer literal as JSON writes it: an optional `-`, then digits -/
def intLiteralValue (lit : String) : Option Int :=
  (decDigits (splitMinus lit.toList).2).map fun n =>
    if (splitMinus lit.toList).1 then -(n : Int) else (n : Int)

def digitStep (acc : Option Nat) (ch : Char) : Option Nat := do
  let a ← acc
  if '0' ≤ ch ∧ ch ≤ '9' then pure (a * 10 + (ch.toNat - '0'.toNat)) else none

theorem foldl_digitStep_none (l : List Char) : l.foldl digitStep none = none := by
  induction l with
  | nil => rfl
  | cons a l ih => simpa [List.foldl_cons, digitStep] using ih

theorem foldl_digits (cs : List Char) (acc : Option Nat) (n : Nat) (h : cs.foldl digitStep acc = some n) :
    ∀ ch ∈ cs, '0' ≤ ch ∧ ch ≤ '9' := by
  induction cs generalizing acc with
  | nil => intro ch hch; cases hch
  | cons c cs ih =>
    simp only [List.foldl_cons] at h
    intro ch hch
    by_cases hd : '0' ≤ c ∧ c ≤ '9'
    · simp only [List.mem_cons] at hch
      rcases hch with rfl | hch
      · exact hd
      · exact ih _ h ch hch
    · exfalso
      have : digitStep acc c = none := by
        cases acc <;> simp [digitStep, hd]
      rw [this, foldl_digitStep_none] at h
      cases h

theorem decDigits_all_digits (cs : List Char) (n : Nat) (h : decDigits cs = some n) :
    ∀ ch ∈ cs, '0' ≤ ch ∧ ch ≤ '9' := by
  unfold decDigits at h
  split at h
  · cases h
  · exact foldl_digits cs (some 0) n h

theorem splitSign_eq_splitMinus (cs : List Char) (n : Nat) (h : decDigits (splitMinus cs).2 = some n) :
    splitSign cs = splitMinus cs := by
  cases cs with
  | nil => rfl
  | cons c r =>
    by_cases hm : c = '-'
    · simp [splitSign, splitMinus, hm]
    · by_cases hp : c = '+'
      · exfalso
        simp only [splitMinus, hm, if_false] at h
        have := decDigits_all_digits _ n h c (by simp)
        rw [hp] at this
        exact absurd this (by decide)
      · simp [splitSign, splitMinus, hm, hp]

/-- Full 64-bit integers are bound exactly: an integer literal whose value lies in the int64 range is
bound as INTEGER with exactly that value (both extremes included). -/
theorem int64_literals_bound_exactly (lit tok : String) (z : Int) (hv : intLiteralValue lit = some z)
    (hr : int64Min ≤ z ∧ z ≤ int64Max) : (makeParameter (.num lit tok)).map bindParam = some (.integer z) := by
  unfold intLiteralValue at hv
  cases hd : decDigits (splitMinus lit.toList).2 with
  | none => simp [hd] at hv
  | some n =>
    have hs := splitSign_eq_splitMinus lit.toList n hd
    simp [hd] at hv
    have hp : parseInt10 lit = some z := by
      unfold parseInt10
      rw [hs, hd]
      simp only [hv]
      rw [if_pos hr]
    simp [makeParameter, hp, bindParam]

/-- THE FULL STATEMENT over all integer literals (false outside int64) -/
def integer_literals_bound_as_integers_full : Prop :=
  ∀ (lit tok : String) (z : Int), intLiteralValue lit = some z →
    (makeParameter (.num lit tok)).map bindParam = some (.integer z)

set_option exponentiation.threshold 5000 in
/-- just outside the range an integer literal is bound as the nearest DOUBLE (a REAL), not an integer.
The double is `tok`, computed by Go (`json.Number.Float64`) and opaque here: 2^63 and 2^63+1 round to
the same double (Go prints both as 9.223372036854776e+18), so the two DIFFERENT integers reach SQLite
as the SAME value - the integer sent is not what is stored. (A literal too large for any double is
rejected: `floatOverflows`.) -/
theorem integer_literal_outside_int64_witness :
    (makeParameter (.num "9223372036854775808" "9.223372036854776e+18")).map bindParam
      = some (.real (.fin "9.223372036854776e+18")) ∧
    (makeParameter (.num "9223372036854775809" "9.223372036854776e+18")).map bindParam
      = some (.real (.fin "9.223372036854776e+18")) ∧
    intLiteralValue "9223372036854775808" = some 9223372036854775808 ∧
    intLiteralValue "9223372036854775809" = some 9223372036854775809 ∧
    (makeParameter (.num "-9223372036854775809" "t")).map bindParam = some (.real (.fin "t")) := by decide

set_option exponentiation.threshold 5000 in
set_option maxRecDepth 20000 in
/-- an integer literal too large for any double (1 followed by 309 zeros) is rejected -/
theorem integer_literal_beyond_double_rejected_witness :
    makeParameter (.num ("1" ++ String.ofList (List.replicate 309 '0')) "inf") = none := by decide

theorem integer_literals_bound_as_integers_full_is_false : ¬ integer_literals_bound_as_integers_full := by
  intro h
  have := h "9223372036854775808" "9.223372036854776e+18" 9223372036854775808 integer_literal_outside_int64_witness.2.2.1
  rw [integer_literal_outside_int64_witness.1] at this
  cases this

/-- a number written with a fraction or an exponent is never bound as an integer (1.0 and 1e3 are
REALs) -/
theorem non_integer_literal_is_never_integer (lit tok : String)
    (h : '.' ∈ lit.toList ∨ 'e' ∈ lit.toList ∨ 'E' ∈ lit.toList) :
    ∀ z, makeParameter (.num lit tok) ≠ some (.i z) := by
  intro z hz
  have hnone : parseInt10 lit = none := by
    unfold parseInt10
    cases hd : decDigits (splitSign lit.toList).2 with
    | none => rfl
    | some n =>
      exfalso
      have hall := decDigits_all_digits _ n hd
      -- the sign, if any, is the first character; '.', 'e', 'E' are not signs, so they are among the digits
      have hin : ∀ ch, ch ∈ lit.toList → ch ≠ '-' → ch ≠ '+' → ch ∈ (splitSign lit.toList).2 := by
        intro ch hch h1 h2
        cases hcs : lit.toList with
        | nil => rw [hcs] at hch; cases hch
        | cons c r =>
          rw [hcs] at hch
          simp only [List.mem_cons] at hch
          by_cases hm : c = '-'
          · rcases hch with rfl | hch
            · exact absurd hm h1
            · simp [splitSign, hm, hch]
          · by_cases hp : c = '+'
            · rcases hch with rfl | hch
              · exact absurd hp h2
              · simp [splitSign, hm, hp, hch]
            · simp only [splitSign, hm, hp, if_false, List.mem_cons]
              exact hch
      rcases h with h | h | h
      · exact absurd (hall _ (hin _ h (by decide) (by decide))) (by decide)
      · exact absurd (hall _ (hin _ h (by decide) (by decide))) (by decide)
      · exact absurd (hall _ (hin _ h (by decide) (by decide))) (by decide)
  simp only [makeParameter, hnone] at hz
  split at hz <;> cases hz

set_option exponentiation.threshold 5000 in
/-- boundary values: both int64 extremes are integers; -0 is the integer 0; a literal whose magnitude
rounds to infinity is REJECTED (json.Number.Float64 fails), the largest finite double is accepted -/
example :
    makeParameter (.num "9223372036854775807" "t") = some (.i 9223372036854775807) ∧
    makeParameter (.num "-9223372036854775808" "t") = some (.i (-9223372036854775808)) ∧
    makeParameter (.num "-0" "t") = some (.i 0) ∧
    makeParameter (.num "1e3" "t") = some (.d (.fin "t")) ∧ makeParameter (.num "1.0" "t") = some (.d (.fin "t")) ∧
    makeParameter (.num "1E400" "t") = none ∧ makeParameter (.num "-1e400" "t") = none ∧
    makeParameter (.num "1.7976931348623158e308" "t") = some (.d (.fin "t")) ∧
    makeParameter (.num "1.7976931348623159e308" "t") = none ∧
    makeParameter (.num "1e-400" "t") = some (.d (.fin "t")) := by decide

theorem mapM_named (ms : List (String × JParam)) (ps : List (String × Param))
    (h : ms.mapM (fun (kv : String × JParam) => (makeParameter kv.2).map fun p => (kv.1, p)) = some ps) :
    ps.map (·.1) = ms.map (·.1) ∧
    ∀ kp ∈ ms.zip ps, makeParameter kp.1.2 = some kp.2.2 := by
  induction ms generalizing ps with
  | nil => simp at h; subst h; simp
  | cons kv ms ih =>
    simp only [List.mapM_cons, Option.bind_eq_bind, Option.pure_def] at h
    cases hm : makeParameter kv.2 with
    | none => simp [hm] at h
    | some p =>
      simp only [hm, Option.map_some, Option.bind_some] at h
      cases hr : ms.mapM (fun (kv : String × JParam) => (makeParameter kv.2).map fun p => (kv.1, p)) with
      | none => simp [hr] at h
      | some rest =>
        simp only [hr, Option.bind_some, Option.some.injEq] at h
        subst h
        obtain ⟨i1, i2⟩ := ih rest (by simp [hr])
        refine ⟨by simp [i1], ?_⟩
        intro kp hkp
        simp only [List.zip_cons_cons, List.mem_cons] at hkp
        rcases hkp with h1 | h1
        · subst h1; exact hm
        · exact i2 kp h1

theorem dedupLast_sub (ms : List (String × JParam)) : ∀ kv ∈ dedupLast ms, kv ∈ ms := by
  induction ms with
  | nil => intro kv h; cases h
  | cons a rest ih =>
    intro kv h
    unfold dedupLast at h
    split at h
    · exact List.mem_cons_of_mem _ (ih kv h)
    · simp only [List.mem_cons] at h
      rcases h with rfl | h
      · simp
      · exact List.mem_cons_of_mem _ (ih kv h)

theorem dedupLast_nodup (ms : List (String × JParam)) : ((dedupLast ms).map (·.1)).Nodup := by
  induction ms with
  | nil => simp [dedupLast]
  | cons a rest ih =>
    unfold dedupLast
    split
    · exact ih
    · rename_i hn
      simp only [List.map_cons, List.nodup_cons]
      refine ⟨?_, ih⟩
      intro hmem
      simp only [List.mem_map] at hmem
      obtain ⟨kv, hkv, hk⟩ := hmem
      apply hn
      simp only [List.any_eq_true, beq_iff_eq]
      exact ⟨kv, dedupLast_sub rest kv hkv, hk⟩

/-- the member that survives for a key is the LAST one written with that key -/
theorem dedupLast_keeps_last (ms : List (String × JParam)) (kv : String × JParam) (h : kv ∈ dedupLast ms) :
    (ms.reverse.find? fun o => o.1 == kv.1) = some kv := by
  induction ms with
  | nil => cases h
  | cons a rest ih =>
    unfold dedupLast at h
    simp only [List.reverse_cons, List.find?_append]
    split at h
    · rw [ih h]; rfl
    · rename_i hn
      simp only [List.mem_cons] at h
      rcases h with rfl | h
      · have : (rest.reverse.find? fun o => o.1 == kv.1) = none := by
          rw [List.find?_eq_none]
          intro o ho hok
          apply hn
          simp only [List.any_eq_true]
          exact ⟨o, List.mem_reverse.mp ho, hok⟩
        simp [this]
      · rw [ih h]; rfl

/-- Named parameters (members of a JSON object): every produced parameter carries the name of a member
and the value `makeParameter` gives that member's value; no name is produced twice; for a key written
more than once the LAST member is the one used (Go's decoder has dropped the others - they are not
even validated). The order of the parameters of one object is not defined in Go (map iteration); the
model lists them in the order of the surviving members and the correspondence run compares them
sorted by name. -/
theorem named_parameters_keep_name_and_value (ms : List (String × JParam)) (ps : List (String × Param))
    (h : parseArgs [.named ms] = some ps) :
    ps.map (·.1) = (dedupLast ms).map (·.1) ∧ (ps.map (·.1)).Nodup ∧
    (∀ kp ∈ (dedupLast ms).zip ps, makeParameter kp.1.2 = some kp.2.2 ∧
      (ms.reverse.find? fun o => o.1 == kp.1.1) = some kp.1) := by
  have h' : (dedupLast ms).mapM (fun (kv : String × JParam) => (makeParameter kv.2).map fun p => (kv.1, p)) = some ps := by
    simp only [parseArgs, List.mapM_cons, List.mapM_nil, parseArg, Option.bind_eq_bind, Option.pure_def] at h
    cases hm : (dedupLast ms).mapM (fun (kv : String × JParam) => (makeParameter kv.2).map fun p => (kv.1, p)) with
    | none => simp [hm] at h
    | some g => simp [hm] at h; rw [h]
  obtain ⟨i1, i2⟩ := mapM_named (dedupLast ms) ps h'
  refine ⟨i1, by rw [i1]; exact dedupLast_nodup ms, ?_⟩
  intro kp hkp
  exact ⟨i2 kp hkp, dedupLast_keeps_last ms kp.1 (List.of_mem_zip hkp).1⟩

/-- items keep their order: the parameters of a request are those of its first item followed by those
of the rest (go-sqlite3 numbers positional parameters by their place in this list) -/
theorem parseArgs_cons (a : Arg) (rest : List Arg) :
    parseArgs (a :: rest) = (parseArg a).bind fun g => (parseArgs rest).map fun ps => g ++ ps := by
  simp only [parseArgs, List.mapM_cons, Option.bind_eq_bind, Option.pure_def]
  cases parseArg a with
  | none => rfl
  | some g =>
    cases List.mapM parseArg rest with
    | none => rfl
    | some gs => rfl

/-- a rejected member rejects the request - unless a later member with the same key replaces it -/
example : parseArgs [.named [("a", .num "1" "1"), ("b", .obj)]] = none ∧
    parseArgs [.named [("a", .obj), ("b", .null), ("a", .num "3" "3")]] = some [("b", .null), ("a", .i 3)] ∧
    parseArgs [.pos (.num "1" "1"), .named [("a", .str "x'00'")], .pos .null] = some [("", .i 1), ("a", .y [0]), ("", .null)] := by decide

/-! ### the hex literal rule, stated explicitly -/

/-- a string parameter is a blob exactly when `ParseHex` accepts it, and then it is the decoded
bytes; otherwise it is text with exactly the characters sent -/
theorem hex_literal_rule (s : String) :
    (∀ bs, parseHex s = some bs → makeParameter (.str s) = some (.y bs)) ∧
    (parseHex s = none → makeParameter (.str s) = some (.s s)) := by
  constructor
  · intro bs h; simp [makeParameter, h]
  · intro h; simp [makeParameter, h]

def hexChars (bs : List UInt8) : List Char :=
  bs.flatMap fun b => [hexDigit (b.toNat / 16), hexDigit (b.toNat % 16)]

theorem hexVal_hexDigit : ∀ n : Fin 16, hexVal (hexDigit n.val) = some n.val := by decide

theorem hexDecode_hexChars (bs : List UInt8) : hexDecode (hexChars bs) = some bs := by
  induction bs with
  | nil => rfl
  | cons b bs ih =>
    have h1 := hexVal_hexDigit ⟨b.toNat / 16, by have := b.toNat_lt; omega⟩
    have h2 := hexVal_hexDigit ⟨b.toNat % 16, by omega⟩
    simp only at h1 h2
    show hexDecode (hexDigit (b.toNat / 16) :: hexDigit (b.toNat % 16) :: hexChars bs) = _
    simp only [hexDecode, h1, h2, ih, Option.bind_eq_bind, Option.bind_some, Option.pure_def, Option.some.injEq,
      List.cons.injEq, and_true]
    have : b.toNat / 16 * 16 + b.toNat % 16 = b.toNat := by omega
    rw [this]
    simp

theorem hexChars_not_space (bs : List UInt8) : ∀ c ∈ hexChars bs, isSpace c = false := by
  intro c hc
  simp only [hexChars, List.mem_flatMap, List.mem_cons, List.mem_nil_iff, or_false] at hc
  obtain ⟨b, _, h | h⟩ := hc
  · have : ∀ n : Fin 16, isSpace (hexDigit n.val) = false := by decide
    rw [h]; exact this ⟨b.toNat / 16, by have := b.toNat_lt; omega⟩
  · have : ∀ n : Fin 16, isSpace (hexDigit n.val) = false := by decide
    rw [h]; exact this ⟨b.toNat % 16, by omega⟩

/-- every blob can be sent as a hex literal string: `x'<hex digits>'` is accepted and decodes
to exactly the bytes -/
theorem hex_literal_expresses_every_blob (bs : List UInt8) :
    parseHex (String.ofList ('x' :: '\'' :: (hexChars bs ++ ['\'']))) = some bs := by
  unfold parseHex
  simp only [String.toList_ofList]
  have htrim : trimSpace ('x' :: '\'' :: (hexChars bs ++ ['\''])) = 'x' :: '\'' :: (hexChars bs ++ ['\'']) := by
    unfold trimSpace
    have h1 : isSpace 'x' = false := by decide
    rw [List.dropWhile_cons_of_neg (by simp [h1])]
    have : ('x' :: '\'' :: (hexChars bs ++ ['\''])).reverse = '\'' :: ((hexChars bs).reverse ++ ['\'', 'x']) := by
      simp
    rw [this, List.dropWhile_cons_of_neg (by decide)]
    simp
  rw [htrim]
  have hlen : ¬ (('x' :: '\'' :: (hexChars bs ++ ['\''])).length < 3) := by simp
  simp only [hlen, if_false]
  have hx : (('x' : Char) != 'X' && ('x' : Char) != 'x') = false := by decide
  simp only [hx, Bool.false_eq_true, if_false]
  have hrev : ('\'' :: (hexChars bs ++ ['\''])).reverse = '\'' :: ((hexChars bs).reverse ++ ['\'']) := by simp
  rw [hrev]
  simp only [List.drop_succ_cons, List.drop_zero, List.length_cons, List.length_append, List.length_nil]
  have : (hexChars bs ++ ['\'']).take ((hexChars bs).length + (0 + 1) + 1 - 2) = hexChars bs := by
    have : (hexChars bs).length + (0 + 1) + 1 - 2 = (hexChars bs).length := by omega
    rw [this, List.take_left']
    rfl
  rw [this]
  exact hexDecode_hexChars bs

/-- a string that does not begin (after white space) with x or X is never taken for a blob -/
theorem not_hex_looking_stays_text (s : String)
    (h : ∀ c rest, trimSpace s.toList = c :: rest → c ≠ 'x' ∧ c ≠ 'X') :
    makeParameter (.str s) = some (.s s) := by
  have hp : parseHex s = none := by
    unfold parseHex
    simp only
    split
    · rfl
    · cases ht : trimSpace s.toList with
      | nil => rfl
      | cons c rest =>
        obtain ⟨h1, h2⟩ := h c rest ht
        simp [h1, h2]
  simp [makeParameter, hp]

example : parseHex " x'00ff41' " = some [0, 255, 65] ∧ parseHex "x'abc'" = none ∧ parseHex "x'zz'" = none ∧
    parseHex "x''" = some [] ∧ parseHex "0xAB" = none := by decide

/-! ### values read back are returned without loss -/

/-- what a client recovers from a response value (a blob arrives as base64 or, with blob_array,
as an array of integers) -/
def decode : JOut → Option SqlVal
  | .num z => some (.integer z)
  | .fnum tok => some (.real (.fin tok))
  | .str t => some (.text t)
  | .b64 bs => some (.blob bs)
  | .arr bs => some (.blob bs)
  | .null => some .null
  | .bool _ => none
  | .lossyStr bs => if bs = [] then some (.blob []) else none  -- "" is also base64 of the empty blob

/-- THE FULL STATEMENT (false of the code as it is, see the witnesses): whatever SQLite holds in a
column of any declared type in scope (`Decl.plain`: untyped, INTEGER, REAL, TEXT, BLOB, …,
expressions; `textTyped` = the declared type is text-like or empty) is returned, in both blob
encodings, as a JSON value from which exactly that value is recovered. -/
def readback_lossless_full : Prop :=
  ∀ (textTyped blobArray : Bool) (v : SqlVal),
    ∃ j, readback .plain textTyped blobArray v = some j ∧ decode j = some v

/-- the recorded failing inputs: a non-empty BLOB in a column whose declared type is text-like or
empty, and an infinite REAL -/
def excluded (textTyped : Bool) : SqlVal → Bool
  | .blob bs => textTyped && !bs.isEmpty
  | .real (.inf _) => true
  | _ => false

theorem readback_lossless_partial (textTyped blobArray : Bool) (v : SqlVal)
    (h : excluded textTyped v = false) :
    ∃ j, readback .plain textTyped blobArray v = some j ∧ decode j = some v := by
  cases v with
  | integer z => exact ⟨_, rfl, rfl⟩
  | real f =>
    cases f with
    | fin tok => exact ⟨_, rfl, rfl⟩
    | inf n => simp [excluded] at h
  | text t => exact ⟨_, rfl, rfl⟩
  | blob bs =>
    cases textTyped
    · cases blobArray <;> exact ⟨_, rfl, rfl⟩
    · simp only [excluded, Bool.true_and, Bool.not_eq_false', List.isEmpty_iff] at h
      subst h
      exact ⟨_, rfl, rfl⟩
  | null => exact ⟨_, rfl, rfl⟩

/-- the exclusion is EXACT: every excluded input really is lossy - no JSON value is returned from which
the stored value is recovered (so `readback_lossless_partial` cannot be strengthened) -/
theorem excluded_exact (textTyped blobArray : Bool) (v : SqlVal) (h : excluded textTyped v = true) :
    ¬ ∃ j, readback .plain textTyped blobArray v = some j ∧ decode j = some v := by
  rintro ⟨j, h1, h2⟩
  cases v with
  | integer z => simp [excluded] at h
  | text t => simp [excluded] at h
  | null => simp [excluded] at h
  | real f =>
    cases f with
    | fin tok => simp [excluded] at h
    | inf n => simp [readback, drv, normalize, encode] at h1
  | blob bs =>
    simp only [excluded, Bool.and_eq_true, Bool.not_eq_true', List.isEmpty_eq_false_iff] at h
    obtain ⟨ht, hne⟩ := h
    subst ht
    simp only [readback, drv, normalize, encode, if_true, Option.some.injEq] at h1
    subst h1
    simp [decode, hne] at h2

/-- per storage class and declared type: integers (full 64-bit range and beyond), finite reals,
text and NULL are lossless from EVERY column type; blobs from every column whose declared type
is not text-like (INTEGER, REAL, BLOB, NUMERIC, …), in both blob encodings -/
theorem readback_lossless_per_class (textTyped blobArray : Bool) :
    (∀ z, (readback .plain textTyped blobArray (.integer z)).bind decode = some (.integer z)) ∧
    (∀ tok, (readback .plain textTyped blobArray (.real (.fin tok))).bind decode = some (.real (.fin tok))) ∧
    (∀ t, (readback .plain textTyped blobArray (.text t)).bind decode = some (.text t)) ∧
    ((readback .plain textTyped blobArray .null).bind decode = some .null) ∧
    (∀ bs, (readback .plain false blobArray (.blob bs)).bind decode = some (.blob bs)) := by
  refine ⟨fun _ => rfl, fun _ => rfl, fun _ => rfl, rfl, fun bs => ?_⟩
  cases blobArray <;> rfl

theorem readback_blob_witness :
    readback .plain true false (.blob [0, 255, 65]) = some (.lossyStr [0, 255, 65]) ∧
    decode (.lossyStr [0, 255, 65]) = none := by decide

theorem readback_infinity_witness : readback .plain false false (.real (.inf false)) = none := by decide

theorem readback_lossless_full_is_false : ¬ readback_lossless_full := by
  intro h
  obtain ⟨j, h1, h2⟩ := h true false (.blob [0, 255, 65])
  have := readback_blob_witness
  rw [this.1] at h1
  cases h1
  rw [this.2] at h2
  cases h2

/-! ### multi-row results: the column's type string moves after the first row -/

/-- the type string in force for the rows after the first -/
def laterType (t : ColType) (first : SqlVal) : ColType :=
  populate t (normalize (isTextTy t) (drv .plain first))

/-- every row of a column is lossless unless it is excluded WITH THE TYPE IN FORCE FOR THAT ROW: the
declared one for the first row, the populated one afterwards -/
theorem readColumn_lossless_partial (t : ColType) (blobArray : Bool) (first : SqlVal) (rest : List SqlVal)
    (h1 : excluded (isTextTy t) first = false)
    (h2 : ∀ w ∈ rest, excluded (isTextTy (laterType t first)) w = false) :
    ∀ p ∈ (first :: rest).zip (readColumn .plain t blobArray (first :: rest)),
      ∃ j, p.2 = some j ∧ decode j = some p.1 := by
  intro p hp
  simp only [readColumn, List.zip_cons_cons, List.mem_cons] at hp
  rcases hp with hp | hp
  · subst hp
    exact readback_lossless_partial (isTextTy t) blobArray first h1
  · rw [List.zip_map_right] at hp
    simp only [List.mem_map] at hp
    obtain ⟨⟨a, b⟩, hab, rfl⟩ := hp
    have hmem := List.of_mem_zip hab
    have : a = b := by
      have := List.mem_iff_get.mp hab
      obtain ⟨i, hi⟩ := this
      simp only [List.get_eq_getElem, List.getElem_zip, Prod.mk.injEq] at hi
      rw [← hi.1, ← hi.2]
    subst this
    exact readback_lossless_partial (isTextTy (laterType t first)) blobArray a (h2 a hmem.1)

theorem excluded_mono (t : ColType) (first w : SqlVal) (h : excluded (isTextTy t) w = false) :
    excluded (isTextTy (laterType t first)) w = false := by
  cases w with
  | blob bs =>
    cases t with
    | empty =>
      simp only [isTextTy, excluded, Bool.true_and] at h
      simp [excluded, h]
    | textLike => simpa [laterType, populate] using h
    | other => simp [laterType, populate, isTextTy, excluded]
  | real f => cases f <;> simp_all [excluded]
  | integer z => rfl
  | text s => rfl
  | null => rfl

/-- stated with the column's DECLARED type alone: rows not excluded by the declared type are lossless in
every row (the first-row rule only ever helps: `untyped_numeric_first_row_keeps_later_blobs`) -/
theorem readColumn_lossless_declared (t : ColType) (blobArray : Bool) (first : SqlVal) (rest : List SqlVal)
    (h : ∀ v ∈ first :: rest, excluded (isTextTy t) v = false) :
    ∀ p ∈ (first :: rest).zip (readColumn .plain t blobArray (first :: rest)),
      ∃ j, p.2 = some j ∧ decode j = some p.1 :=
  readColumn_lossless_partial t blobArray first rest (h first (by simp))
    (fun w hw => excluded_mono t first w (h w (by simp [hw])))

/-- In a column WITHOUT declared type (untyped column, expression) whose first row holds an INTEGER or
a REAL, every later BLOB is returned as a blob, losslessly: the type string has become "integer" /
"real". This is the code that exists (populateEmptyTypes + the per-value isTextType check). -/
theorem untyped_numeric_first_row_keeps_later_blobs (blobArray : Bool) (first : SqlVal)
    (hnum : (∃ z, first = .integer z) ∨ (∃ f, first = .real f)) (bs : List UInt8) (rest : List SqlVal)
    (hb : SqlVal.blob bs ∈ rest) :
    some (if blobArray then JOut.arr bs else JOut.b64 bs) ∈
      (readColumn .plain .empty blobArray (first :: rest)).tail := by
  have ht : isTextTy (laterType .empty first) = false := by
    rcases hnum with ⟨z, rfl⟩ | ⟨f, rfl⟩
    · rfl
    · cases f <;> rfl
  simp only [readColumn, List.tail_cons, List.mem_map]
  refine ⟨.blob bs, hb, ?_⟩
  have : populate ColType.empty (normalize (isTextTy ColType.empty) (drv Decl.plain first)) = laterType .empty first := rfl
  rw [this, ht]
  cases blobArray <;> rfl

/-- … whereas after a NULL, TEXT or BLOB first row the later blob goes through string(val) (the
recorded known finding); after a NULL the type string stays empty for good -/
theorem untyped_other_first_row_witness :
    readColumn .plain .empty false [.null, .blob [0, 255, 65]] = [some .null, some (.lossyStr [0, 255, 65])] ∧
    readColumn .plain .empty false [.text "a", .blob [104, 105]] = [some (.str "a"), some (.lossyStr [104, 105])] ∧
    readColumn .plain .empty false [.blob [1], .blob [2]] = [some (.lossyStr [1]), some (.lossyStr [2])] ∧
    readColumn .plain .empty false [.integer 7, .blob [0, 255, 65]] = [some (.num 7), some (.b64 [0, 255, 65])] := by
  decide

/-- THE FULL STATEMENT "the column's declared type alone decides how every row is read" (false: the type
string of an untyped column moves after the first row) -/
def readColumn_uses_declared_type_only_full : Prop :=
  ∀ (t : ColType) (blobArray : Bool) (vals : List SqlVal),
    readColumn .plain t blobArray vals = vals.map (readback .plain (isTextTy t) blobArray)

theorem readColumn_uses_declared_type_only_full_is_false : ¬ readColumn_uses_declared_type_only_full := by
  intro h
  have := h .empty false [.integer 7, .blob [0, 255, 65]]
  revert this
  decide

/-! ### the associative form -/

theorem find_last_nodup (cols : List String) (vals : List JOut) (i : Nat) (hn : cols.Nodup)
    (hl : vals.length = cols.length) (hi : i < cols.length) :
    assocGet cols vals cols[i] = some (vals[i]'(by omega)) := by
  induction cols generalizing vals i with
  | nil => simp at hi
  | cons c cs ih =>
    cases vals with
    | nil => simp at hl
    | cons v vs =>
      simp only [List.length_cons, Nat.add_right_cancel_iff] at hl
      simp only [List.nodup_cons] at hn
      unfold assocGet
      simp only [List.zip_cons_cons, List.reverse_cons, List.find?_append]
      cases i with
      | zero =>
        simp only [List.getElem_cons_zero]
        have : (cs.zip vs).reverse.find? (fun kv => kv.1 == c) = none := by
          rw [List.find?_eq_none]
          intro kv hkv
          have : kv.1 ∈ cs := by
            have := List.mem_reverse.mp hkv
            exact (List.of_mem_zip this).1
          intro heq
          simp only [beq_iff_eq] at heq
          exact hn.1 (heq ▸ this)
        simp [this]
      | succ j =>
        simp only [List.getElem_cons_succ]
        have hj : j < cs.length := by simpa using hi
        have := ih vs j hn.2 hl hj
        unfold assocGet at this
        cases hf : (cs.zip vs).reverse.find? (fun kv => kv.1 == cs[j]) with
        | none => simp [hf] at this
        | some kv => simp [hf] at this ⊢; exact this

/-- With distinct column names the associative form holds, for every column, exactly the value the
array form holds at that column's position. -/
theorem associative_equals_array (cols : List String) (vals : List JOut) (hn : cols.Nodup)
    (hl : vals.length = cols.length) :
    ∀ i (hi : i < cols.length), assocGet cols vals cols[i] = some (vals[i]'(by omega)) :=
  fun i hi => find_last_nodup cols vals i hn hl hi

/-- THE FULL STATEMENT without the distinctness condition (false: `associative_duplicate_witness`) -/
def associative_equals_array_full : Prop :=
  ∀ (cols : List String) (vals : List JOut) (_ : vals.length = cols.length) (i : Nat) (hi : i < cols.length),
    assocGet cols vals cols[i] = vals[i]?

/-- a repeated column name loses the earlier column's value in the associative form (a JSON object
cannot hold both) - `SELECT 1 AS a, 2 AS a` -/
theorem associative_duplicate_witness :
    assocGet ["a", "a"] [.num 1, .num 2] "a" = some (.num 2) := by decide

/-- the associative form composed with the read path: when the array form of a row holds `outs`
(`readback` of each cell, `cells[i].1` = the column is text-typed), the column names are distinct and
no cell is one of the recorded failing inputs, then the value the associative row holds under each
column's name decodes to exactly what SQLite holds in that column -/
theorem associative_row_lossless (cols : List String) (cells : List (Bool × SqlVal)) (outs : List JOut)
    (blobArray : Bool) (hn : cols.Nodup) (hl : cells.length = cols.length) (ho : outs.length = cols.length)
    (hr : ∀ i (hi : i < cols.length),
      readback .plain (cells[i]'(by omega)).1 blobArray (cells[i]'(by omega)).2 = some (outs[i]'(by omega)))
    (hx : ∀ c ∈ cells, excluded c.1 c.2 = false) :
    ∀ i (hi : i < cols.length), ∃ j, assocGet cols outs cols[i] = some j ∧
      decode j = some (cells[i]'(by omega)).2 := by
  intro i hi
  refine ⟨outs[i]'(by omega), associative_equals_array cols outs hn ho i hi, ?_⟩
  have hc : cells[i]'(by omega) ∈ cells := List.getElem_mem _
  obtain ⟨j, h1, h2⟩ := readback_lossless_partial (cells[i]'(by omega)).1 blobArray (cells[i]'(by omega)).2 (hx _ hc)
  rw [hr i hi] at h1
  cases h1
  exact h2

theorem associative_equals_array_full_is_false : ¬ associative_equals_array_full := by
  intro h
  have := h ["a", "a"] [.num 1, .num 2] rfl 0 (by decide)
  revert this
  decide

/-! ### the encoder's result is a value -/

/-- In the model an encoded result is a VALUE: what a batch of values encodes to is, position by
position, what each of them encodes to on its own - whatever is encoded before or after it. The real
encoder returns a byte slice; that the slice is not memory the encoder goes on to reuse (so that a
response body cannot be overwritten by the next response encoded anywhere in the process) is what
the run checks by holding EVERY marshalled result while the others are marshalled - sequentially,
from 8 goroutines, and through the HTTP service with 8 concurrent clients. -/
theorem encoded_results_are_values (ba : Bool) (before after : List Param) (p : Param) :
    ((before ++ p :: after).map (encode ba))[before.length]? = some (encode ba p) := by
  simp

/-! ### the whole way: JSON parameter in, JSON value out -/

/-- a number literal that is no 64-bit integer and whose magnitude rounds to infinity is REJECTED
(`json.Number.Float64` fails): this - not the shape of `Flt` - is why no infinite REAL comes from a parameter -/
theorem overflowing_literal_rejected (lit tok : String) (h1 : parseInt10 lit = none)
    (h2 : floatOverflows lit = true) : makeParameter (.num lit tok) = none := by
  simp [makeParameter, h1, h2]

/-- `makeParameter` never produces an infinite REAL. In the model this holds by construction (the only
float a parameter yields is `.fin tok`); the fact behind it is `overflowing_literal_rejected`, and that
Go's `Float64` never RETURNS an infinity without an error is checked by the run (1E400, -1e400,
1.7976931348623159e308, a 310-digit integer). -/
theorem makeParameter_never_infinite (j : JParam) (p : Param) (hp : makeParameter j = some p) (n : Bool) :
    bindParam p ≠ .real (.inf n) := by
  cases j with
  | num lit tok =>
    simp only [makeParameter] at hp
    split at hp
    · cases hp; simp [bindParam]
    · split at hp
      · cases hp
      · cases hp; simp [bindParam]
  | bool b => cases hp; simp [bindParam]
  | null => cases hp; simp [bindParam]
  | str s =>
    simp only [makeParameter] at hp
    split at hp <;> (cases hp; simp [bindParam])
  | arr elems =>
    simp only [makeParameter, Option.map_eq_some_iff] at hp
    obtain ⟨bs, _, rfl⟩ := hp
    simp [bindParam]
  | obj => cases hp

/-- The composition `makeParameter → bindParam → readback → decode`: a JSON parameter that is accepted
and read straight back - from an expression (`SELECT ?`) or a column that stores it as bound - yields
a JSON value from which the client recovers exactly the value the specification `expected` assigns to
the parameter SENT (the integer, the double, the characters, the bytes, NULL), in both blob encodings.
The one exclusion: a non-empty blob read from a text-typed/untyped column or an expression (the
recorded finding) - an infinite REAL cannot arise from a parameter. Assumed, and checked on every run
against real SQLite: the value bound is the value held (no column affinity conversion). -/
theorem roundtrip_parameter_to_response (j : JParam) (p : Param) (textTyped blobArray : Bool)
    (hp : makeParameter j = some p)
    (hx : ∀ bs, bindParam p = .blob bs → textTyped = true → bs = []) :
    ∃ o, readback .plain textTyped blobArray (bindParam p) = some o ∧ decode o = expected j := by
  have hspec : expected j = some (bindParam p) := by
    rw [← bind_preserves_type_and_value, hp]; rfl
  have hex : excluded textTyped (bindParam p) = false := by
    cases hv : bindParam p with
    | blob bs =>
      cases textTyped
      · rfl
      · simp [excluded, hx bs hv rfl]
    | real f =>
      cases f with
      | fin tok => rfl
      | inf n => exact absurd hv (makeParameter_never_infinite j p hp n)
    | integer z => rfl
    | text t => rfl
    | null => rfl
  rw [hspec]
  exact readback_lossless_partial textTyped blobArray (bindParam p) hex

/-- the excluded case at a concrete input: the blob [0,255,65] sent as a byte array and read back
through `SELECT ?` comes back as a string with U+FFFD in it -/
theorem roundtrip_blob_through_expression_witness :
    makeParameter (.arr [some 0, some 255, some 65]) = some (.y [0, 255, 65]) ∧
    readback .plain true false (bindParam (.y [0, 255, 65])) = some (.lossyStr [0, 255, 65]) ∧
    decode (.lossyStr [0, 255, 65]) = none := by decide

example : excluded true (.blob [1]) = true ∧ excluded false (.blob [1]) = false ∧
    excluded true (.integer 9223372036854775807) = false := by decide

end C30

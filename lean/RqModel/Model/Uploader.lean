/-
Model of auto/backup/uploader.go `(*Uploader).upload` (one upload round) and of
store/provider.go `(*Provider).Provide` (the retry loop around `Store.Backup`).   (C37)

`upload` (uploader.go:141), line by line:
  li, err = dataProvider.LastIndex()     -- read BEFORE the backup is produced
  err → return err
  li <= u.lastIndex → skipped
  Provide(fd) fails → return err          -- nothing recorded
  if u.lastIndex == 0:                    -- first upload since this Uploader was created
      currID, err = CurrentID()           -- ONLY called in this case, after Provide
      err → log, carry on;  currID == FormatUint(li) → skipped (lastIndex stays 0)
  Upload(fd, FormatUint(li)) fails → return err   -- lastIndex unchanged
  u.lastIndex = li

The remote id is a string compared with the decimal rendering of `li`; the model keeps
`IdRes.other` for any string that is not the canonical decimal of a number.
-/
import RqModel.Model.Util
namespace RqModel.Uploader
open RqModel.Util

/-- result of `StorageClient.CurrentID` (if it were called) -/
inductive IdRes where
  | err                 -- returned an error
  | other               -- some id that is not a canonical decimal number (incl. "")
  | id (n : Nat)        -- the decimal rendering of n
deriving Repr, DecidableEq

/-- everything one round reads from its environment -/
structure RoundIn where
  /-- `LastIndex()`; `none` = it returned an error -/
  li       : Option Nat
  /-- `Provide(fd)`: `none` = error, `some c` = a backup was written whose newest
      contained change is log index `c` -/
  provide  : Option Nat
  cur      : IdRes
  uploadOk : Bool
deriving Repr, DecidableEq

inductive RoundOut where
  | errLastIndex
  | skipped
  | errProvide
  | skippedId
  | uploaded (label content : Nat)
  | errUpload (label : Nat)
deriving Repr, DecidableEq

/-- was `CurrentID` called in this round? (observable on the storage client) -/
def calledCurrentID (last : Nat) (r : RoundIn) : Bool :=
  match r.li, r.provide with
  | some li, some _ => decide (last < li) && decide (last = 0)
  | _, _ => false

/-- `(*Uploader).upload`: new `lastIndex` and what happened -/
def upload (last : Nat) (r : RoundIn) : Nat × RoundOut :=
  match r.li with
  | none => (last, .errLastIndex)
  | some li =>
    if li ≤ last then (last, .skipped)
    else match r.provide with
      | none => (last, .errProvide)
      | some c =>
        if last = 0 ∧ r.cur = .id li then (last, .skippedId)
        else if r.uploadOk then (li, .uploaded li c)
        else (last, .errUpload li)

/-! ### `Provider.Provide`: retry loop; the destination is rewound and, when it can be, truncated -/

/-- one `Store.Backup(w)` attempt: the bytes it wrote to `w` before returning, and
whether it returned nil -/
structure Attempt where
  written : List UInt8
  ok      : Bool
deriving Repr, DecidableEq

/-- `w.Seek(0, SeekStart)` followed by writing `b`: overwrite in place, keep the tail -/
def overwrite (file b : List UInt8) : List UInt8 := b ++ file.drop b.length

/-- the `for` loop of `Provide`. `budget` = number of attempts still allowed
(`p.nRetries + 1` at the start); attempts beyond the scripted list do not happen.
`trunc` = the destination has a `Truncate(int64) error` method (an *os.File, which is what
the Uploader passes): every attempt then starts with `Seek(0)` + `Truncate(0)`; otherwise
it is only rewound and an attempt overwrites in place.
Returns the destination content, whether `Provide` returned nil, and the attempts used. -/
def provideLoop (trunc : Bool) : Nat → List Attempt → List UInt8 → Nat → List UInt8 × Bool × Nat
  | 0, _, file, used => (file, false, used)
  | _, [], file, used => (file, false, used)
  | budget + 1, a :: rest, file, used =>
    let file' := if trunc then a.written else overwrite file a.written
    if a.ok then (file', true, used + 1)
    else provideLoop trunc budget rest file' (used + 1)

def provide (trunc : Bool) (nRetries : Nat) (attempts : List Attempt) : List UInt8 × Bool × Nat :=
  provideLoop trunc (nRetries + 1) attempts [] 0

/-! ### a history of writes, rounds and uploader restarts against one remote object -/

structure Sys where
  /-- the store's DBAppliedIndex -/
  db     : Nat := 0
  /-- `u.lastIndex` of the current Uploader value -/
  last   : Nat := 0
  /-- the object in the storage service: (label, newest change contained) -/
  remote : Option (Nat × Nat) := none
deriving Repr, DecidableEq

inductive Ev where
  /-- a write is applied: the index advances by `n+1` -/
  | write (n : Nat)
  /-- one upload round. `during` log entries are applied between `LastIndex()` and the
  end of the round; the backup `Provide` writes contains changes up to index `c`. -/
  | round (during c : Nat) (provideOk cidErr uploadOk : Bool)
  /-- the process restarts: a new Uploader (lastIndex 0); the remote object stays -/
  | restart
deriving Repr, DecidableEq

def curOf (s : Sys) (cidErr : Bool) : IdRes :=
  if cidErr then .err else
  match s.remote with
  | none => .other
  | some (l, _) => .id l

def roundIn (s : Sys) (c : Nat) (provideOk cidErr uploadOk : Bool) : RoundIn :=
  { li := some s.db, provide := if provideOk then some c else none,
    cur := curOf s cidErr, uploadOk := uploadOk }

/-- a successful `Upload` replaces the remote object; nothing else touches it -/
def remoteAfter (rem : Option (Nat × Nat)) : RoundOut → Option (Nat × Nat)
  | .uploaded l c => some (l, c)
  | _ => rem

def stepEv (s : Sys) : Ev → Sys × Option RoundOut
  | .write n => ({ s with db := s.db + n + 1 }, none)
  | .restart => ({ s with last := 0 }, none)
  | .round during c pOk cErr uOk =>
    let u := upload s.last (roundIn s c pOk cErr uOk)
    ({ db := s.db + during, last := u.1, remote := remoteAfter s.remote u.2 }, some u.2)

def runEv (s : Sys) : List Ev → Sys
  | [] => s
  | e :: rest => runEv (stepEv s e).1 rest

/-- all round outcomes of a history, in order -/
def outcomes (s : Sys) : List Ev → List RoundOut
  | [] => []
  | e :: rest =>
    match (stepEv s e).2 with
    | some o => o :: outcomes (stepEv s e).1 rest
    | none => outcomes (stepEv s e).1 rest

/-! ### line protocol
`new` → `ok`  (a new Uploader value: lastIndex 0)
`round <li|E> <c|F> <E|O|n> <ok|fail>` →
   `err-lastindex` | `skipped` | `err-provide` | `skipped-id` | `uploaded <label> <c>` | `err-upload <label>`
   followed by ` cid=<0|1> last=<n>`
`provide <truncatable 0|1> <nRetries> <xbytes>:<ok|fail> ...` → `<ok|fail> <xfile> attempts=<n>`
-/

structure DState where
  last : Nat := 0

def outStr : RoundOut → String
  | .errLastIndex => "err-lastindex"
  | .skipped => "skipped"
  | .errProvide => "err-provide"
  | .skippedId => "skipped-id"
  | .uploaded l c => s!"uploaded {l} {c}"
  | .errUpload l => s!"err-upload {l}"

def natOrTok (bad : String) (t : String) : Option (Option Nat) :=
  if t == bad then some none else (t.toNat?).map some

def curTok (t : String) : Option IdRes :=
  if t == "E" then some .err
  else if t == "O" then some .other
  else (t.toNat?).map .id

def okTok (t : String) : Option Bool :=
  if t == "ok" then some true else if t == "fail" then some false else none

def attemptTok (t : String) : Option Attempt :=
  match t.splitOn ":" with
  | [b, r] =>
    match tokBytes b, okTok r with
    | some b, some r => some ⟨b, r⟩
    | _, _ => none
  | _ => none

def step (d : DState) (line : String) : DState × String :=
  match words line with
  | ["new"] => ({}, "ok")
  | ["round", li, p, c, u] =>
    match natOrTok "E" li, natOrTok "F" p, curTok c, okTok u with
    | some li, some p, some c, some u =>
      let r : RoundIn := ⟨li, p, c, u⟩
      let (last', out) := upload d.last r
      ({ last := last' }, s!"{outStr out} cid={if calledCurrentID d.last r then 1 else 0} last={last'}")
    | _, _, _, _ => (d, "bad-op")
  | "provide" :: t :: n :: atts =>
    match (if t == "1" then some true else if t == "0" then some false else none), n.toNat?, atts.mapM attemptTok with
    | some t, some n, some atts =>
      let (file, ok, used) := provide t n atts
      (d, s!"{if ok then "ok" else "fail"} {hexOfBytes file} attempts={used}")
    | _, _, _ => (d, "bad-op")
  | _ => (d, "bad-op")

def init : DState := {}

end RqModel.Uploader
--! driver: uploader RqModel.Uploader

/-
C12  Corrupt snapshot data is detected before it is used.

Model: RqModel/Model/SnapVerify.lean. CRC-32C, the SQLite-format predicates and SQLite's
checkpoint (`replay`) are the parameter `E : XExt`. What the receiving side does with a
stream (recompute every CRC and compare with the header) is `receiverAccepts`; that the
real Sink and Restore do exactly this is C10 (`install_exact`, `restore_exact`).
-/
import RqModel.Model.SnapVerify
import RqModel.Props.C10
import RqModel.Gen.SnapVerify
namespace C12
open RqModel.SnapStream RqModel.SnapVerify

/-- the consuming operations of the store -/
inductive Consumer
  | ensure   -- startup with restore: EnsureVerify
  | open     -- Open for restore or transfer
  | reap
deriving DecidableEq, Repr

/-- run one consumer; `true` = it went ahead and used the data -/
def consume (E : XExt) (s : Store) : Consumer → Store × Bool
  | .ensure => ensureVerified E s
  | .open => let r := openNewest E s; (r.1, r.2.isSome)
  | .reap => let r := reap E s; (r.1, r.2 != .err)

/-! ### corruption present when the store is opened -/

theorem ensure_sets_verdict (E : XExt) (s : Store) :
    (ensureVerified E s).1.verdict = some (ensureVerified E s).2 ∧
    (ensureVerified E s).1.files = s.files := by
  unfold ensureVerified
  cases h : s.verdict with
  | none => simp
  | some v => simp [h]

/-- once the verdict is bad, every consumer refuses, and the verdict and files stay as
they are (nothing is rewritten) -/
theorem bad_verdict_refuses (E : XExt) (s : Store) (h : s.verdict = some false) (c : Consumer) :
    (consume E s c).2 = false ∧ (consume E s c).1 = s := by
  cases c <;> simp [consume, ensureVerified, openNewest, reap, h]

/-- **corrupt_at_open_detected.** If, when the store is created (no verification has run
yet), some data file does not match its recorded checksum, or a sidecar is unreadable, or a
file does not look like SQLite data, then whichever consumer runs first refuses, before
using any byte, and leaves the files untouched with a bad verdict cached. -/
theorem corrupt_at_open_detected (E : XExt) (s : Store) (hv : s.verdict = none)
    (hc : checkOk E s.files = false) (c : Consumer) :
    (consume E s c).2 = false ∧ (consume E s c).1.verdict = some false ∧ (consume E s c).1.files = s.files := by
  cases c <;> simp [consume, ensureVerified, openNewest, reap, hv, hc]

/-- … and so does every later consumer, in any number and order (sticky verdict) -/
theorem corrupt_at_open_sticky (E : XExt) (s : Store) (hv : s.verdict = none)
    (hc : checkOk E s.files = false) (c : Consumer) (cs : List Consumer) :
    ∀ c' ∈ cs, (consume E (cs.foldl (fun st k => (consume E st k).1) (consume E s c).1) c').2 = false := by
  have h1 := corrupt_at_open_detected E s hv hc c
  have inv : ∀ (l : List Consumer) (st : Store), st.verdict = some false →
      (l.foldl (fun st k => (consume E st k).1) st).verdict = some false := by
    intro l
    induction l with
    | nil => intro st h; exact h
    | cons k t ih =>
      intro st h
      simp only [List.foldl_cons]
      exact ih _ (by rw [(bad_verdict_refuses E st h k).2]; exact h)
  intro c' _
  exact (bad_verdict_refuses E _ (inv cs _ h1.2.1) c').1

/-- a good verdict really means every checksummed file matched at that moment -/
theorem good_verdict_means_match (E : XExt) (s : Store) (hv : s.verdict = none)
    (h : (ensureVerified E s).2 = true) :
    ∀ f ∈ s.files, ∀ n, f.side = .crc n → E.crc f.content = n := by
  simp only [ensureVerified, hv] at h
  intro f hf n hs
  simp only [checkOk, Bool.and_eq_true, List.all_eq_true] at h
  have := h.2 f hf
  simpa [fileCrcOk, hs] using this

/-! ### from "the bytes changed" to "the check fails" (the CRC law) -/

/-- `a` and `b` are different byte strings with the same checksum: a concrete CRC collision.
No 32-bit checksum is collision free, so nothing below ASSUMES the absence of collisions; each
statement ends in "… or these two byte strings collide". -/
def Collide (E : XExt) (a b : Bytes) : Prop := a ≠ b ∧ E.crc a = E.crc b

/-- **corrupted_data_fails_check.** If a data file's bytes differ from the content its sidecar
was computed from, the store-wide check fails — or the current and the original bytes are a
concrete CRC collision. -/
theorem corrupted_data_fails_check (E : XExt) (fs : List DataFile) (f : DataFile)
    (hf : f ∈ fs) (n : Nat) (hs : f.side = .crc n) (orig : Bytes) (ho : E.crc orig = n)
    (hne : f.content ≠ orig) : checkOk E fs = false ∨ Collide E f.content orig := by
  by_cases hcr : E.crc f.content = n
  · exact Or.inr ⟨hne, by rw [hcr, ho]⟩
  · left
    have hbad : fileCrcOk E f = false := by
      simp only [fileCrcOk, hs]; simpa using hcr
    cases hk : checkOk E fs with
    | false => rfl
    | true =>
      simp only [checkOk, Bool.and_eq_true, List.all_eq_true] at hk
      have := hk.2 f hf
      rw [hbad] at this; cases this

/-- **corrupted_sidecar_fails_check.** If a sidecar is unreadable, or records a checksum other
than that of the (intact) data file, the store-wide check fails. -/
theorem corrupted_sidecar_fails_check (E : XExt) (fs : List DataFile) (f : DataFile) (hf : f ∈ fs)
    (h : f.side = .bad ∨ ∃ n, f.side = .crc n ∧ n ≠ E.crc f.content) : checkOk E fs = false := by
  have hbad : fileCrcOk E f = false := by
    rcases h with h | ⟨n, h, hn⟩
    · simp [fileCrcOk, h]
    · simp only [fileCrcOk, h]
      have : E.crc f.content ≠ n := fun e => hn e.symm
      simpa using this
  cases hk : checkOk E fs with
  | false => rfl
  | true =>
    simp only [checkOk, Bool.and_eq_true, List.all_eq_true] at hk
    have := hk.2 f hf
    rw [hbad] at this; cases this

/-- **corrupt_data_at_start_detected.** A changed byte in any data file, present when the store
is created, makes whichever consumer runs first refuse without touching a file — or the changed
and the original bytes collide under the CRC. -/
theorem corrupt_data_at_start_detected (E : XExt) (s : Store) (hv : s.verdict = none)
    (f : DataFile) (hf : f ∈ s.files) (n : Nat) (hs : f.side = .crc n) (orig : Bytes) (ho : E.crc orig = n)
    (hne : f.content ≠ orig) (c : Consumer) :
    ((consume E s c).2 = false ∧ (consume E s c).1.files = s.files) ∨ Collide E f.content orig := by
  rcases corrupted_data_fails_check E s.files f hf n hs orig ho hne with h | h
  · have := corrupt_at_open_detected E s hv h c
    exact Or.inl ⟨this.1, this.2.2⟩
  · exact Or.inr h

/-- **corrupt_sidecar_at_start_detected.** An unreadable sidecar, or one that records a checksum
other than that of the (intact) data file, present when the store is created, makes whichever
consumer runs first refuse without touching a file. -/
theorem corrupt_sidecar_at_start_detected (E : XExt) (s : Store) (hv : s.verdict = none)
    (f : DataFile) (hf : f ∈ s.files)
    (h : f.side = .bad ∨ ∃ n, f.side = .crc n ∧ n ≠ E.crc f.content) (c : Consumer) :
    (consume E s c).2 = false ∧ (consume E s c).1.files = s.files :=
  let r := corrupt_at_open_detected E s hv (corrupted_sidecar_fails_check E s.files f hf h) c
  ⟨r.1, r.2.2⟩

/-- the restated lemma at the real checksum: CRC-32C (the driver's bitwise implementation) -/
def exFile : DataFile := ⟨[83, 81, 76, 1], .crc (RqModel.SnapStream.crc32c [83, 81, 76, 0]), true, true, 0⟩

example : checkOk (drvX []) [exFile] = false ∨ Collide (drvX []) exFile.content [83, 81, 76, 0] :=
  corrupted_data_fails_check (drvX []) [exFile] exFile (List.mem_singleton.2 rfl)
    (RqModel.SnapStream.crc32c [83, 81, 76, 0]) rfl [83, 81, 76, 0] rfl (by decide)

/-! ### the consumers are the programs the source executes -/

theorem openNewest_is_program (E : XExt) (s : Store) :
    openNewest E s = ((runProgram E openProgram s).s,
      if (runProgram E openProgram s).failed then none else (runProgram E openProgram s).out) := by
  simp only [openNewest, runProgram, openProgram, List.foldl, stepRun]
  cases h1 : (ensureVerified E s).2 <;> simp [h1]
  cases h2 : scanOk E (ensureVerified E s).1.files <;> simp [h2]

theorem reap_is_program (E : XExt) (s : Store) :
    reap E s = ((runProgram E reapProgram s).s,
      if (runProgram E reapProgram s).failed then .err else (runProgram E reapProgram s).res) := by
  simp only [reap, runProgram, reapProgram, List.foldl, stepRun]
  cases h1 : (ensureVerified E s).2 <;> simp [h1]
  cases h2 : scanOk E (ensureVerified E s).1.files <;> simp [h2]
  cases h3 : chainFiles (ensureVerified E s).1 with
  | nil => by_cases h4 : (ensureVerified E s).1.files = [] <;> simp [h3, h4]
  | cons db wals =>
    simp only [h3]
    by_cases h5 : snapCount (ensureVerified E s).1.files ≤ 1
    · simp [h5, h3]
    · by_cases h6 : wals = []
      · simp [h5, h6, h3]
      · by_cases hc : fileCrcOk E db = false ∨ ∃ x, x ∈ wals ∧ fileCrcOk E x = false <;>
          simp [h5, h6, h3, hc]

open RqModel.Gen.SnapVerify in
/-- **call_order_fact.** In the CURRENT source, `Store.Open` calls `ensureVerified`, then the
catalog scan, then builds the streamer; `reapInternal` calls `ensureVerified`, the scan, the
input check and only then plans the checkpoint; `EnsureVerify` calls `ensureVerified`;
`ensureVerified` runs `checkCRCs` under the `sync.Once`; the stream header starts from the
recorded CRC; the startup verification is guarded by "restore on start" and precedes
`raft.NewRaft`. The step lists are the programs the model interprets. -/
theorem call_order_fact :
    openCalls.filterMap stepOfCall = openProgram ∧
    (reapCalls.filterMap stepOfCall) = reapProgram ∧
    reapCalls.take 2 = ["FileExists", "executeReapPlan"] ∧
    ensureVerifyCalls.filterMap stepOfCall = ensureProgram ∧
    ensureVerifiedCalls = ["Do", "checkCRCs", "fatalFn"] ∧
    checkCRCsCalls = ["Scan", "NewCRCChecker", "Add", "Add", "Check"] ∧
    headerUsesRecordedCRC = true ∧
    startupVerifyGuard = "!raftConfig.NoSnapshotRestoreOnStart" ∧
    startupVerifyBeforeNewRaft = some true := by decide

open RqModel.Gen.SnapVerify in
/-- **reap_inputs_fact.** In the CURRENT source the checker that `reapInternal` runs just before it
consolidates is handed the full snapshot's DATABASE file, every WAL file of the full snapshot and
every WAL file of every newer snapshot - i.e. every file the checkpoint consumes, which is what
`checkInputs` means in `reapProgram` and what `reap_never_launders` relies on. (`call_order_fact`
pins the ORDER of the calls only; the seeded change C12d dropped the database file from this set
without changing the order.) -/
theorem reap_inputs_fact :
    reapInputs = ["full.dbFile @ -", "wf @ full.walFiles", "wf @ snap.walFiles"] := by decide

/-! ### the receiver of C12 is the `Restore` of C10 -/

/-- the C10 externals that go with the C12 ones, for a given header decoder -/
def toExt (X : XExt) (decode : Bytes → Option SnapHeader) : Ext :=
  { decode := decode, crc := X.crc, validDb := X.validDb, validWal := X.validWal }

theorem restoreWals_files (E : Ext) : ∀ (hs : List FileHdr) (ws : List Bytes),
    SizesMatch ws hs →
    (restoreWals E hs ws.flatten = .ok (ws, []) ↔ ∀ p ∈ ws.zip hs, E.crc p.1 = p.2.crc) := by
  intro hs ws hsz
  constructor
  · intro h
    exact (restoreWals_sound E hs _ ws [] h).2.2
  · intro h
    have := restoreWals_complete E hs ws [] hsz h
    simpa using this

/-- **receiver_is_restore.** For the stream `Open` produces (framing of the chain files under a
header that announces their current sizes and the given CRCs), C10's `restore` succeeds
exactly when C12's `receiverAccepts` says so. -/
theorem receiver_is_restore (X : XExt) (decode : Bytes → Option SnapHeader) (hb db : Bytes) (wals : List Bytes)
    (dbh : FileHdr) (walhs : List FileHdr) (hl : hb.length < 4294967296)
    (hd : decode hb = some ⟨1, .full (some dbh) walhs⟩)
    (hsz : db.length = dbh.size) (hws : SizesMatch wals walhs) :
    restore (toExt X decode) (frame hb (db :: wals)) = .ok db wals ↔
      receiverAccepts X (dbh :: walhs) (db :: wals) = true := by
  constructor
  · intro h
    obtain ⟨pre, hb', dbh', walhs', hs, hp, hbn, hdec, hdb, hcrc, hwl, hwc⟩ :=
      C10.restore_exact (toExt X decode) _ db wals h
    -- the stream is the framing: same prefix, hence same header bytes
    have hfr : frame hb (db :: wals) = enc32 hb.length ++ (hb ++ (db ++ wals.flatten)) := by
      simp [frame, List.append_assoc]
    have hpre : pre = enc32 hb.length := by
      have a : (frame hb (db :: wals)).take 4 = pre := by rw [hs]; simp [hp]
      have b : (frame hb (db :: wals)).take 4 = enc32 hb.length := by rw [hfr]; simp [enc32]
      rw [← a, b]
    have hlen : hb'.length = hb.length := by
      rw [← hbn, hpre]
      have := be32_enc32_append' hb.length [] hl
      simpa using this
    have hhb : hb' = hb := by
      have a : ((frame hb (db :: wals)).drop 4).take hb.length = hb' := by
        rw [hs]; simp [hp, hlen]
      have b : ((frame hb (db :: wals)).drop 4).take hb.length = hb := by
        rw [hfr]; simp [enc32]
      rw [← a, b]
    rw [hhb] at hdec
    have hdec' : decode hb = some ⟨1, .full (some dbh') walhs'⟩ := hdec
    rw [hd] at hdec'
    have hpay := congrArg SnapHeader.payload (Option.some.inj hdec')
    simp only [Payload.full.injEq, Option.some.injEq] at hpay
    obtain ⟨rfl, rfl⟩ := hpay
    simp only [receiverAccepts, List.zip_cons_cons, List.all_cons, Bool.and_eq_true, beq_iff_eq,
      List.all_eq_true]
    refine ⟨by simpa [toExt] using hcrc, ?_⟩
    intro p hpm
    obtain ⟨i, hi, hpi⟩ := List.mem_iff_getElem.1 hpm
    have hi1 : i < wals.length := by simp at hi; omega
    have hi2 : i < walhs.length := by simp at hi; omega
    have := (hwc i hi1 hi2).2
    simp only [List.getElem_zip] at hpi
    rw [← hpi]; simpa [toExt] using this
  · intro h
    simp only [receiverAccepts, List.zip_cons_cons, List.all_cons, Bool.and_eq_true, beq_iff_eq,
      List.all_eq_true] at h
    exact frame_restores_gen (toExt X decode) hb db wals dbh walhs hl hd hsz h.1 hws
      (fun p hp => by have := h.2 p hp; simpa [toExt] using this)

/-! ### corruption that arises later -/

theorem accepts_iff (E : XExt) : ∀ (fs : List DataFile),
    receiverAccepts E (fs.map (headerOf E)) (fs.map (·.content)) = true →
    ∀ f ∈ fs, E.crc f.content = (headerOf E f).crc := by
  intro fs
  induction fs with
  | nil => intro _ f hf; simp at hf
  | cons a t ih =>
    intro h f hf
    simp only [receiverAccepts, List.map_cons, List.zip_cons_cons, List.all_cons, Bool.and_eq_true,
      beq_iff_eq] at h
    rcases List.mem_cons.1 hf with rfl | hf'
    · exact h.1
    · exact ih (by simpa [receiverAccepts] using h.2) f hf'

/-- **late_corruption_never_installed.** Whatever happened to the files and sidecars since the
store was created — any corruption, before or after the one-time verification, any verdict
cached — if `Open` produces a stream and the receiver accepts it, then every transferred
file whose sidecar records a CRC has exactly that CRC; so it is, or collides under the CRC with, byte for
byte the content `orig` that the record was computed from. Altered bytes are not installed
or restored. -/
theorem late_corruption_never_installed (E : XExt) (s : Store)
    (hdrs : List FileHdr) (files : List Bytes)
    (ho : (openNewest E s).2 = some (hdrs, files)) (ha : receiverAccepts E hdrs files = true) :
    ∀ f ∈ chainFiles s, ∀ n, f.side = .crc n → ∀ orig, E.crc orig = n →
      f.content = orig ∨ Collide E f.content orig := by
  have hfiles : (ensureVerified E s).1.files = s.files := (ensure_sets_verdict E s).2
  unfold openNewest at ho
  simp only at ho
  split at ho
  · cases ho
  split at ho
  · cases ho
  simp only [Option.some.injEq, Prod.mk.injEq] at ho
  obtain ⟨rfl, rfl⟩ := ho
  have hch : chainFiles (ensureVerified E s).1 = chainFiles s := by simp [chainFiles, hfiles]
  rw [hch] at ha
  intro f hf n hs orig ho
  have := accepts_iff E _ ha f hf
  simp only [headerOf, hs] at this
  by_cases e : f.content = orig
  · exact Or.inl e
  · exact Or.inr ⟨e, by rw [this, ho]⟩

/-- the files `Open` streams are the chain files' current bytes, and the header carries the
RECORDED checksum, not one recomputed from the current bytes -/
theorem open_header_is_recorded (E : XExt) (s : Store) (hdrs : List FileHdr) (files : List Bytes)
    (ho : (openNewest E s).2 = some (hdrs, files)) :
    hdrs = (chainFiles s).map (headerOf E) ∧ files = (chainFiles s).map (·.content) := by
  have hfiles : (ensureVerified E s).1.files = s.files := (ensure_sets_verdict E s).2
  unfold openNewest at ho
  simp only at ho
  split at ho
  · cases ho
  split at ho
  · cases ho
  simp only [Option.some.injEq, Prod.mk.injEq] at ho
  obtain ⟨rfl, rfl⟩ := ho
  simp [chainFiles, hfiles]

theorem sizesMatch_headerOf (E : XExt) : ∀ fs : List DataFile,
    SizesMatch (fs.map (·.content)) (fs.map (headerOf E)) := by
  intro fs
  induction fs with
  | nil => exact .nil
  | cons f t ih => exact .cons rfl ih

/-- **late_corruption_never_restored.** The same fact stated against C10's `restore`: whatever
happened to the store, if `Open` yields a stream — the framing of the chain files under a
header `hb` that protobuf decodes to the sizes and RECORDED checksums — and C10's `Restore`
accepts that stream, then every transferred file with a recorded CRC is byte for byte the
content the record was computed from. -/
theorem late_corruption_never_restored (X : XExt) (s : Store)
    (decode : Bytes → Option SnapHeader) (hb : Bytes) (hl : hb.length < 4294967296)
    (dbf : DataFile) (walfs : List DataFile) (hchain : chainFiles s = dbf :: walfs)
    (ho : (openNewest X s).2.isSome = true)
    (hd : decode hb = some ⟨1, .full (some (headerOf X dbf)) (walfs.map (headerOf X))⟩)
    (hr : restore (toExt X decode) (frame hb (dbf.content :: walfs.map (·.content))) =
      .ok dbf.content (walfs.map (·.content))) :
    ∀ f ∈ chainFiles s, ∀ n, f.side = .crc n → ∀ orig, X.crc orig = n →
      f.content = orig ∨ Collide X f.content orig := by
  have hacc := (receiver_is_restore X decode hb dbf.content (walfs.map (·.content)) (headerOf X dbf)
    (walfs.map (headerOf X)) hl hd rfl (sizesMatch_headerOf X walfs)).1 hr
  cases hopen : (openNewest X s).2 with
  | none => rw [hopen] at ho; cases ho
  | some v =>
    obtain ⟨hdrs, files⟩ := v
    have hof := open_header_is_recorded X s hdrs files hopen
    apply late_corruption_never_installed X s hdrs files hopen
    rw [hof.1, hof.2, hchain]
    simpa using hacc

/-- **late_corruption_never_installed_by_sink.** The follower does not run `Restore` but the
Sink: the same statement for C10's `install` (any split into non-empty writes reduces to the
single write by `C10.split_independent`), through `C10.install_implies_restore`. -/
theorem late_corruption_never_installed_by_sink (X : XExt) (s : Store)
    (decode : Bytes → Option SnapHeader) (hb : Bytes) (hl : hb.length < 4294967296)
    (dbf : DataFile) (walfs : List DataFile) (hchain : chainFiles s = dbf :: walfs)
    (ho : (openNewest X s).2.isSome = true)
    (hd : decode hb = some ⟨1, .full (some (headerOf X dbf)) (walfs.map (headerOf X))⟩) (due : Bool)
    (hi : install (toExt X decode) due [frame hb (dbf.content :: walfs.map (·.content))] =
      .installed dbf.content (walfs.map (·.content))) :
    ∀ f ∈ chainFiles s, ∀ n, f.side = .crc n → ∀ orig, X.crc orig = n →
      f.content = orig ∨ Collide X f.content orig :=
  late_corruption_never_restored X s decode hb hl dbf walfs hchain ho hd
    (C10.install_implies_restore (toExt X decode) due _ _ _ hi).1

/-- **reap_never_launders.** A reap that consolidates WAL files (and therefore writes a fresh
checksum) only does so after every file it consumes matched its recorded checksum at that
moment; with a stale good verdict and a file corrupted since, the reap refuses. -/
theorem reap_never_launders (E : XExt) (s : Store) (h : (reap E s).2 = .ok)
    (hmany : 2 ≤ (chainFiles s).length) :
    ∀ f ∈ chainFiles s, ∀ n, f.side = .crc n → E.crc f.content = n := by
  have hfiles : (ensureVerified E s).1.files = s.files := (ensure_sets_verdict E s).2
  have hch : chainFiles (ensureVerified E s).1 = chainFiles s := by simp [chainFiles, hfiles]
  unfold reap at h
  simp only at h
  split at h
  · cases h
  split at h
  · cases h
  rw [hch] at h
  split at h
  · rename_i e; rw [e] at hmany; simp at hmany
  · rename_i db wals e
    split at h
    · cases h
    split at h
    · rename_i hw; rw [e, hw] at hmany; simp at hmany
    split at h
    · cases h
    rename_i hall
    intro f hf n hs
    rw [e] at hf
    have hall' : ((db :: wals).all (fileCrcOk E)) = true := by simpa using hall
    have := (List.all_eq_true.1 hall') f hf
    simpa [fileCrcOk, hs] using this

/-- the conditions under which a reap consolidates, and what it leaves -/
theorem reap_ok_cases (E : XExt) (s : Store) (h : (reap E s).2 = .ok) (hmany : 2 ≤ (chainFiles s).length) :
    ∃ db wals, chainFiles s = db :: wals ∧ wals ≠ [] ∧ (ensureVerified E s).2 = true ∧
      scanOk E s.files = true ∧ ¬ snapCount s.files ≤ 1 ∧ (db :: wals).all (fileCrcOk E) = true := by
  have hfiles : (ensureVerified E s).1.files = s.files := (ensure_sets_verdict E s).2
  have hch : chainFiles (ensureVerified E s).1 = chainFiles s := by simp [chainFiles, hfiles]
  unfold reap at h
  simp only at h
  split at h
  · cases h
  rename_i h1
  split at h
  · cases h
  rename_i h2
  rw [hch] at h
  split at h
  · rename_i e; rw [e] at hmany; simp at hmany
  · rename_i db wals e
    split at h
    · cases h
    rename_i h3
    split at h
    · rename_i hw; rw [e, hw] at hmany; simp at hmany
    rename_i h4
    split at h
    · cases h
    rename_i hall
    rw [hfiles] at h2 h3
    exact ⟨db, wals, e, h4, by simpa using h1, by simpa using h2, h3, by simpa using hall⟩

/-- what a successful consolidating reap leaves: one database whose sidecar is the checksum
of exactly the bytes written -/
theorem reap_result_consistent (E : XExt) (s : Store) (h : (reap E s).2 = .ok)
    (hmany : 2 ≤ (chainFiles s).length) :
    ∃ f, (reap E s).1.files = [f] ∧ f.side = .crc (E.crc f.content) := by
  obtain ⟨db, wals, e, hw, hv, hsc, hcnt, hall⟩ := reap_ok_cases E s h hmany
  have hfiles : (ensureVerified E s).1.files = s.files := (ensure_sets_verdict E s).2
  have hch : chainFiles (ensureVerified E s).1 = chainFiles s := by simp [chainFiles, hfiles]
  refine ⟨{ content := E.replay db.content (wals.map (·.content)),
            side := .crc (E.crc (E.replay db.content (wals.map (·.content)))), isDb := true, snap := db.snap }, ?_, rfl⟩
  unfold reap
  simp only [hv, hfiles, hsc, hch, e, hcnt, hw, hall, Bool.not_true, Bool.false_eq_true, if_false]

/-- a store with a single snapshot directory is never rewritten by a reap -/
theorem reap_single_snapshot_noop (E : XExt) (s : Store) (h1 : snapCount s.files ≤ 1) :
    (reap E s).2 ≠ .ok := by
  have hfiles : (ensureVerified E s).1.files = s.files := (ensure_sets_verdict E s).2
  unfold reap
  simp only
  split
  · simp
  split
  · simp
  split
  · split <;> simp
  · rw [hfiles]; simp [h1]

def exE : XExt := { crc := fun b => (b.map (·.toNat)).sum, validDb := fun _ => true, validWal := fun _ => true,
                    replay := fun d ws => d ++ ws.flatten }


/-! ### resuming an interrupted reap plan -/

/-- **resume_checks_remaining_wals.** A resumed plan consolidates only after every WAL file it
has yet to consume matched its recorded checksum: corruption of those files present when the
node starts is detected before the resumed reap folds them in. -/
theorem resume_checks_remaining_wals (E : XExt) (s : Store) (k : Nat) (hp : s.plan = some k)
    (db : DataFile) (wals : List DataFile) (hc : chainFiles s = db :: wals)
    (h : (resumePlan E s).2 = .ok) :
    ∀ f ∈ wals, ∀ n, f.side = .crc n → E.crc f.content = n := by
  simp only [resumePlan, hp, hc] at h
  have hall' : (if k = 0 then db :: wals else wals).all (fileCrcOk E) = true := by
    cases hb : (if k = 0 then db :: wals else wals).all (fileCrcOk E) with
    | true => rfl
    | false => rw [hb] at h; simp at h
  intro f hf n hs
  have hmem : f ∈ (if k = 0 then db :: wals else wals) := by
    split
    · exact List.mem_cons_of_mem _ hf
    · exact hf
  have := (List.all_eq_true.1 hall') f hmem
  simpa [fileCrcOk, hs] using this

/-- the statement one would like for the database file as well -/
def resume_checks_db_full : Prop :=
  ∀ (E : XExt) (s : Store) (k : Nat) (db : DataFile) (wals : List DataFile), s.plan = some k →
    chainFiles s = db :: wals → (resumePlan E s).2 = .ok → ∀ n, db.side = .crc n → E.crc db.content = n

/-- it holds while the interrupted run had not started the checkpoint (nothing consumed) -/
theorem resume_checks_db_partial (E : XExt) (s : Store) (db : DataFile) (wals : List DataFile)
    (hp : s.plan = some 0) (hc : chainFiles s = db :: wals) (h : (resumePlan E s).2 = .ok) :
    ∀ n, db.side = .crc n → E.crc db.content = n := by
  simp only [resumePlan, hp, hc, if_true] at h
  have hall' : (db :: wals).all (fileCrcOk E) = true := by
    cases hb : (db :: wals).all (fileCrcOk E) with
    | true => rfl
    | false => rw [hb] at h; simp at h
  intro n hs
  have := (List.all_eq_true.1 hall') db (by simp)
  simpa [fileCrcOk, hs] using this

/-- **witness**: once the interrupted run has checkpointed a WAL into the database, the
database no longer matches any record (its sidecar is rewritten only at the end of the plan),
so the resume cannot tell a half-checkpointed database from a corrupted one and goes ahead -/
theorem resume_checks_db_witness : ¬ resume_checks_db_full := by
  intro h
  have := h exE { files := [⟨[9, 9], .crc 3, true, true, 0⟩, ⟨[4], .crc 4, false, true, 1⟩], plan := some 1 }
    1 ⟨[9, 9], .crc 3, true, true, 0⟩ [⟨[4], .crc 4, false, true, 1⟩] rfl (by decide) (by decide) 3 rfl
  revert this
  decide

/-! ### non-vacuity -/
example :
    let good : Store := { files := [⟨[1, 2], .crc 3, true, true, 0⟩, ⟨[4], .crc 4, false, true, 1⟩] }
    let bad : Store := { files := [⟨[1, 3], .crc 3, true, true, 0⟩, ⟨[4], .crc 4, false, true, 1⟩] }
    (consume exE good .open).2 = true ∧ (consume exE bad .open).2 = false ∧
    (consume exE bad .reap).2 = false ∧ (reap exE good).2 = .ok ∧
    -- late corruption: verified, then altered, then opened: a stream is produced but the receiver refuses
    (let s1 := (ensureVerified exE good).1
     let s2 : Store := { s1 with files := [⟨[1, 9], .crc 3, true, true, 0⟩, ⟨[4], .crc 4, false, true, 1⟩] }
     (openNewest exE s2).2 = some ([⟨2, 3⟩, ⟨1, 4⟩], [[1, 9], [4]]) ∧
     receiverAccepts exE [⟨2, 3⟩, ⟨1, 4⟩] [[1, 9], [4]] = false ∧ (reap exE s2).2 = .err) := by decide

/-- the hypotheses of `late_corruption_never_installed_by_sink` are jointly satisfiable: a verified
two-file store, a header decoder returning the RECORDED sizes and checksums, and C10's sink
installing the framed stream -/
def exDecode : Bytes → Option SnapHeader :=
  fun b => if b = [7] then some ⟨1, .full (some ⟨2, 3⟩) [⟨1, 4⟩]⟩ else none

def exGood : Store := { files := [⟨[1, 2], .crc 3, true, true, 0⟩, ⟨[4], .crc 4, false, true, 1⟩] }

example : ∀ f ∈ chainFiles exGood, ∀ n, f.side = .crc n → ∀ orig, exE.crc orig = n →
    f.content = orig ∨ Collide exE f.content orig :=
  late_corruption_never_installed_by_sink exE exGood exDecode [7] (by decide)
    ⟨[1, 2], .crc 3, true, true, 0⟩ [⟨[4], .crc 4, false, true, 1⟩] (by decide) (by decide) (by decide) false
    (by decide)

end C12

package db

// C13 correspondence + spec oracle: the statement loops of db.Execute
// (executeWithConn) and db.Request (RequestWithContext) on real SQLite vs. the
// Lean model `exec` (RqModel/Model/Exec.lean), on generated requests.
//
// A case is a fresh WAL database and 1-3 requests (1-8 statements each, flags
// Transaction / RollbackOnError on/off, both paths). After every request the
// harness observes: the result list, the committed table content (read through the
// read-only pool, i.e. another connection), and whether the read-write connection
// is still inside a transaction (and what it sees).

import (
	"context"
	"fmt"
	"os"
	"strconv"
	"strings"
	"testing"
	"time"

	command "github.com/rqlite/rqlite/v10/command/proto"
	sqlite3 "github.com/mattn/go-sqlite3"
)

type c13Stmt struct {
	kind string // w r R xf pf e q Q qf p ar to sp sa sq b c rb
	tok  int
}

func (s c13Stmt) token() string {
	switch s.kind {
	case "w", "r", "R", "p":
		return s.kind + strconv.Itoa(s.tok)
	}
	return s.kind
}

func (s c13Stmt) isWrite() bool { return s.kind == "w" || s.kind == "r" || s.kind == "R" }
func (s c13Stmt) isCtl() bool   { return s.kind == "b" || s.kind == "c" || s.kind == "rb" }
func (s c13Stmt) fails() bool {
	return s.kind == "xf" || s.kind == "pf" || s.kind == "qf" || s.kind == "p" || s.kind == "sp" || s.kind == "sa" || s.kind == "sq" || s.kind == "ar" || s.kind == "to"
}

// c13SlowRead is slow BY CONSTRUCTION (it counts to 3*10^8: tens of seconds if nothing stops it), so the
// request's deadline always fires while it runs; it writes nothing, so SQLite leaves an open
// transaction open when it is interrupted.
const c13SlowRead = "WITH RECURSIVE c(x) AS (SELECT 1 UNION ALL SELECT x + 1 FROM c WHERE x < 300000000) SELECT count(*) FROM c"

// c13Deadline is the time a request holding a `to` statement gets; the statements before the slow read
// need a fraction of it (if they did not get it - a loaded machine - the case is abandoned, see c13RunCase).
const c13Deadline = 400 * time.Millisecond

func (r c13Req) hasTimeout() bool {
	for _, s := range r.stmts {
		if s.kind == "to" {
			return true
		}
	}
	return false
}

type c13Req struct {
	path   string // exec | request
	tx, rb bool
	stmts  []c13Stmt
}

func (r c13Req) opLine() string {
	var ts []string
	for _, s := range r.stmts {
		ts = append(ts, s.token())
	}
	l := "-"
	if len(ts) > 0 {
		l = strings.Join(ts, ",")
	}
	return fmt.Sprintf("req %s %s %s %s", r.path, c13Bit(r.tx), c13Bit(r.rb), l)
}

func c13Bit(b bool) string {
	if b {
		return "1"
	}
	return "0"
}

func c13ParseOp(line string) (c13Req, bool) {
	f := strings.Fields(line)
	if len(f) != 5 || f[0] != "req" {
		return c13Req{}, false
	}
	r := c13Req{path: f[1], tx: f[2] == "1", rb: f[3] == "1"}
	if f[4] != "-" {
		for _, t := range strings.Split(f[4], ",") {
			s := c13Stmt{kind: t}
			if len(t) > 1 && (t[0] == 'w' || t[0] == 'r' || t[0] == 'R' || (t[0] == 'p' && t != "pf")) {
				if n, err := strconv.Atoi(t[1:]); err == nil {
					s = c13Stmt{kind: t[:1], tok: n}
				}
			}
			r.stmts = append(r.stmts, s)
		}
	}
	return r, true
}

var (
	c13ExecFail = []string{
		"INSERT INTO t(tok) VALUES(NULL)",            // NOT NULL
		"INSERT INTO u(k) VALUES(0)",                 // UNIQUE against a seeded row
		"INSERT INTO t(tok) VALUES(-1)",              // CHECK
		"INSERT INTO t(tok) VALUES(777),(778),(NULL)", // fails on its third row: statement-atomic
	}
	c13PrepFail = []string{
		"INSERT INTO nosuch(tok) VALUES(1)",
		"INSERT INTO t(nocol) VALUES(1)",
		"INSERT INTO t VALUES(",
		"SELEC 1",
	}
)

// c13SQL maps an abstract statement to a concrete one; v picks the variant.
func c13SQL(s c13Stmt, v int) *command.Statement {
	switch s.kind {
	case "w":
		if v%2 == 0 {
			return &command.Statement{Sql: fmt.Sprintf("INSERT INTO t(tok) VALUES(%d)", s.tok)}
		}
		return &command.Statement{Sql: "INSERT INTO t(tok) VALUES(?)", Parameters: []*command.Parameter{
			{Value: &command.Parameter_I{I: int64(s.tok)}}}}
	case "r":
		return &command.Statement{Sql: fmt.Sprintf("INSERT INTO t(tok) VALUES(%d) RETURNING tok", s.tok)}
	case "R":
		return &command.Statement{Sql: fmt.Sprintf("INSERT INTO t(tok) VALUES(%d) RETURNING tok", s.tok), ForceQuery: true}
	case "p":
		// not atomic on its own: fails part-way and leaves row tok behind unless an enclosing
		// transaction is rolled back
		switch v % 3 {
		case 0: // several commands in one statement text; go-sqlite3 executes them in turn
			return &command.Statement{Sql: fmt.Sprintf("INSERT INTO t(tok) VALUES(%d); INSERT INTO t(tok) VALUES(NULL)", s.tok)}
		case 1:
			return &command.Statement{Sql: fmt.Sprintf("INSERT OR FAIL INTO t(tok) VALUES(%d),(NULL)", s.tok)}
		default:
			return &command.Statement{Sql: fmt.Sprintf("INSERT INTO t(tok) VALUES(%d);\nINSERT INTO u(k) VALUES(0); INSERT INTO t(tok) VALUES(999999)", s.tok)}
		}
	case "ar":
		// fails and makes SQLite roll the open transaction back by itself
		return &command.Statement{Sql: []string{
			"INSERT OR ROLLBACK INTO t(tok) VALUES(NULL)",
			"INSERT OR ROLLBACK INTO u(k) VALUES(0)",
			"INSERT INTO g(x) VALUES(1)", // BEFORE INSERT trigger: RAISE(ROLLBACK, …)
			"INSERT OR ROLLBACK INTO t(tok) VALUES(888888),(NULL)"}[v%4]}
	case "to":
		return &command.Statement{Sql: c13SlowRead}
	case "sp":
		// a RETURNING statement marked as a query which does not even prepare
		return &command.Statement{ForceQuery: true, Sql: []string{
			"INSERT INTO nosuch(tok) VALUES(424242) RETURNING tok",
			"INSERT INTO t(tok) VALUES(424242) RETURNING nosuchcol",
			"UPDATE t SET tok = 424242 WHERE nosuchcol = 1 RETURNING tok"}[v%3]}
	case "sa":
		// a RETURNING write marked as a query with too few parameters, positional or named
		switch v % 3 {
		case 0:
			return &command.Statement{ForceQuery: true, Sql: "INSERT INTO t(tok) VALUES(?) RETURNING tok"}
		case 1:
			return &command.Statement{ForceQuery: true, Sql: "INSERT INTO t(id, tok) VALUES(?, ?) RETURNING tok",
				Parameters: []*command.Parameter{{Value: &command.Parameter_I{I: 424242}}}}
		default:
			return &command.Statement{ForceQuery: true, Sql: "INSERT INTO t(id, tok) VALUES(:a, :b) RETURNING tok",
				Parameters: []*command.Parameter{{Name: "a", Value: &command.Parameter_I{I: 424242}}}}
		}
	case "sq":
		// a read-only statement, marked as a query, with too few parameters (through ExecContext the
		// driver would bind NULL for the missing ones and succeed)
		if v%2 == 0 {
			return &command.Statement{Sql: "SELECT tok FROM t WHERE tok = ? AND id = ?", ForceQuery: true,
				Parameters: []*command.Parameter{{Value: &command.Parameter_I{I: 1}}}}
		}
		return &command.Statement{Sql: "SELECT tok FROM t WHERE tok = :x", ForceQuery: true}
	case "xf":
		return &command.Statement{Sql: c13ExecFail[v%len(c13ExecFail)]}
	case "pf":
		return &command.Statement{Sql: c13PrepFail[v%len(c13PrepFail)]}
	case "e":
		return &command.Statement{Sql: ""}
	case "q":
		return &command.Statement{Sql: "SELECT tok FROM t ORDER BY id"}
	case "Q":
		return &command.Statement{Sql: "SELECT tok FROM t ORDER BY id", ForceQuery: true}
	case "qf":
		return &command.Statement{Sql: "SELECT abs(-9223372036854775808)"}
	case "b":
		return &command.Statement{Sql: "BEGIN"}
	case "c":
		return &command.Statement{Sql: "COMMIT"}
	case "rb":
		return &command.Statement{Sql: "ROLLBACK"}
	}
	return &command.Statement{Sql: "THIS IS NOT SQL"}
}

func c13Ids(xs []int64) string {
	if len(xs) == 0 {
		return "-"
	}
	var p []string
	for _, x := range xs {
		p = append(p, strconv.FormatInt(x, 10))
	}
	return strings.Join(p, ".")
}

func c13RowsToIds(rows *command.QueryRows) []int64 {
	var ids []int64
	for _, v := range rows.Values {
		if len(v.Parameters) > 0 {
			ids = append(ids, v.Parameters[0].GetI())
		}
	}
	return ids
}

// c13Committed reads the table through the read-only pool (a different connection).
func c13Committed(d *DB) []int64 {
	rows, err := d.QueryStringStmt("SELECT tok FROM t ORDER BY id")
	if err != nil || len(rows) != 1 || rows[0].Error != "" {
		panic(fmt.Sprintf("c13: cannot read committed state: %v %v", err, rows))
	}
	return c13RowsToIds(rows[0])
}

// c13RW reports whether the read-write connection is inside a transaction and what it sees.
func c13RW(d *DB) (open bool, view []int64) {
	conn, err := d.rwDB.Conn(context.Background())
	if err != nil {
		panic(err)
	}
	defer conn.Close()
	if err := conn.Raw(func(dc any) error {
		open = !dc.(*sqlite3.SQLiteConn).AutoCommit()
		return nil
	}); err != nil {
		panic(err)
	}
	rs, err := conn.QueryContext(context.Background(), "SELECT tok FROM t ORDER BY id")
	if err != nil {
		panic(err)
	}
	defer rs.Close()
	for rs.Next() {
		var v int64
		if err := rs.Scan(&v); err != nil {
			panic(err)
		}
		view = append(view, v)
	}
	return
}

type c13Obs struct {
	results   []*command.ExecuteQueryResponse
	err       error
	before    []int64
	after     []int64
	openAfter bool
	viewAfter []int64
	openBefore bool
}

func c13NewDB() (*DB, func()) {
	d, path := mustCreateOnDiskDatabaseWAL()
	mustExecute(d, "CREATE TABLE t (id INTEGER PRIMARY KEY, tok INTEGER NOT NULL CHECK(tok >= 0))")
	mustExecute(d, "CREATE TABLE u (k INTEGER UNIQUE)")
	mustExecute(d, "INSERT INTO u(k) VALUES(0)")
	mustExecute(d, "CREATE TABLE g (x)")
	mustExecute(d, "CREATE TRIGGER gtr BEFORE INSERT ON g BEGIN SELECT RAISE(ROLLBACK, 'refused'); END")
	return d, func() {
		d.Close()
		os.Remove(path)
		os.Remove(path + "-wal")
		os.Remove(path + "-shm")
	}
}

func c13RunReq(d *DB, r c13Req, salt int) c13Obs {
	var o c13Obs
	o.before = c13Committed(d)
	o.openBefore, _ = c13RW(d)
	req := &command.Request{Transaction: r.tx, RollbackOnError: r.rb}
	for i, s := range r.stmts {
		req.Statements = append(req.Statements, c13SQL(s, salt+i))
	}
	ctx := context.Background()
	if r.hasTimeout() {
		// the CALLER's context runs out while the slow read is running
		var cancel context.CancelFunc
		ctx, cancel = context.WithTimeout(ctx, c13Deadline)
		defer cancel()
	}
	if r.path == "exec" {
		o.results, o.err = d.ExecuteWithContext(ctx, req, false)
	} else {
		o.results, o.err = d.RequestWithContext(ctx, req, false)
	}
	o.after = c13Committed(d)
	o.openAfter, o.viewAfter = c13RW(d)
	return o
}

// c13Canon renders an observation in the model's output format. Result i is
// aligned with the i-th non-empty statement (needed only to tell `E<rowid>` of a
// write from the stale numbers an ExecuteResult carries for a non-write).
func c13Canon(r c13Req, o c13Obs) string {
	var ne []c13Stmt
	for _, s := range r.stmts {
		if s.kind != "e" {
			ne = append(ne, s)
		}
	}
	var rs []string
	for i, res := range o.results {
		switch {
		case res == nil:
			rs = append(rs, "nil")
		case res.GetError() != "":
			rs = append(rs, "err")
		case res.GetQ() != nil:
			if res.GetQ().Error != "" {
				rs = append(rs, "err")
			} else {
				rs = append(rs, "Q"+c13Ids(c13RowsToIds(res.GetQ())))
			}
		case res.GetE() != nil:
			if i < len(ne) && ne[i].isWrite() {
				// A RETURNING statement run through ExecContext (ForceQuery unset, which
				// sql.Process never produces for a statement it can parse) is stepped once:
				// SQLite has not yet updated sqlite3_changes, so RowsAffected is stale.
				if res.GetE().RowsAffected != 1 && ne[i].kind != "r" {
					rs = append(rs, fmt.Sprintf("E%d/rows=%d", res.GetE().LastInsertId, res.GetE().RowsAffected))
				} else {
					rs = append(rs, "E"+strconv.FormatInt(res.GetE().LastInsertId, 10))
				}
			} else {
				rs = append(rs, "E*")
			}
		default:
			rs = append(rs, "empty-result")
		}
	}
	rl := "-"
	if len(rs) > 0 {
		rl = strings.Join(rs, ";")
	}
	open := "-"
	if o.openAfter {
		open = "open:" + c13Ids(o.viewAfter)
	}
	e := "0"
	if o.err != nil {
		e = "1"
	}
	return fmt.Sprintf("%s %s %s %s", rl, c13Ids(o.after), open, e)
}

func c13Eq(a, b []int64) bool {
	if len(a) != len(b) {
		return false
	}
	for i := range a {
		if a[i] != b[i] {
			return false
		}
	}
	return true
}

func c13IsErr(res *command.ExecuteQueryResponse) bool {
	return res == nil || res.GetError() != "" || (res.GetQ() != nil && res.GetQ().Error != "")
}

// c13Oracle evaluates the property's statement on one observed request.
func c13Oracle(rep *vfReport, r c13Req, o c13Obs, caseOps []string) {
	hasCtl := false
	firstFail := -1 // index among non-empty statements
	failKind := "none"
	var toks []int64
	var ne []c13Stmt
	for _, s := range r.stmts {
		if s.kind == "e" {
			continue
		}
		if s.isCtl() {
			hasCtl = true
		}
		if s.fails() && firstFail < 0 {
			firstFail = len(ne)
			failKind = s.kind
		}
		if s.isWrite() {
			toks = append(toks, int64(s.tok))
		}
		ne = append(ne, s)
	}
	sig := func(sym string) string {
		return fmt.Sprintf("%s:tx=%v:rb=%v:first-failure=%s:%s", r.path, r.tx, r.rb, failKind, sym)
	}
	replay := map[string]interface{}{"ops": caseOps, "request": r.opLine(), "observed": c13Canon(r, o)}
	fail := func(sym, detail string) {
		rep.Fail(sig(sym), fmt.Sprintf("%s — request `%s` (after ops %v) observed `%s`", detail, r.opLine(), caseOps, c13Canon(r, o)), replay)
	}
	if o.openBefore {
		return // a previous request leaked an explicit BEGIN; outside the property's scope
	}
	all := append(append([]int64(nil), o.before...), toks...)
	if r.tx && !hasCtl {
		rep.Count("oracle:tx-request")
		if o.err != nil {
			fail("request-error", "transaction request returned an error: "+o.err.Error())
		}
		if !(c13Eq(o.after, o.before) || c13Eq(o.after, all)) {
			fail("partial-apply", "transaction applied some but not all statements")
		}
		anyErr := false
		for _, res := range o.results {
			if c13IsErr(res) {
				anyErr = true
			}
		}
		if (anyErr || firstFail >= 0) && !c13Eq(o.after, o.before) {
			fail("failed-tx-left-effects", "a statement of the transaction failed but effects were committed")
		}
		if !anyErr && firstFail < 0 && !c13Eq(o.after, all) {
			fail("clean-tx-not-applied", "every statement succeeded but the transaction's writes are not all there")
		}
		if o.openAfter {
			fail("tx-left-open", "connection still inside a transaction after a transaction request")
		}
		want := len(ne)
		if firstFail >= 0 {
			want = firstFail + 1
		}
		if len(o.results) != want {
			fail("result-count", fmt.Sprintf("%d results, want %d (one per non-empty statement up to and including the first failure)", len(o.results), want))
		}
	}
	if r.tx && hasCtl {
		// outside the property's quantifier, but evaluated all the same: explicit BEGIN / COMMIT /
		// ROLLBACK inside a Transaction request defeats the wrapper (recorded known finding)
		rep.Count("oracle:tx-request-with-explicit-transaction-control")
		anyErr := o.err != nil
		for _, res := range o.results {
			if c13IsErr(res) {
				anyErr = true
			}
		}
		if !(c13Eq(o.after, o.before) || c13Eq(o.after, all)) || (anyErr && !c13Eq(o.after, o.before)) || o.openAfter {
			rep.Fail("explicit-transaction-control-inside-transaction-request", fmt.Sprintf("a Transaction request holding BEGIN/COMMIT/ROLLBACK statements was not all-or-nothing — request `%s` (after ops %v) observed `%s`", r.opLine(), caseOps, c13Canon(r, o)), replay)
		}
	}
	if !r.tx && !r.rb {
		rep.Count("oracle:plain-request")
		if len(o.results) != len(ne) {
			fail("result-count", fmt.Sprintf("%d results for %d non-empty statements", len(o.results), len(ne)))
		}
	}
	// each result reports its own statement's outcome (static part: failing kinds ↔ error)
	if !hasCtl {
		for i, res := range o.results {
			if i >= len(ne) {
				break
			}
			if ne[i].fails() != c13IsErr(res) {
				fail("result-mismatch", fmt.Sprintf("result %d does not report statement %s's outcome", i, ne[i].token()))
			}
			if !c13IsErr(res) && res.GetQ() != nil && (ne[i].kind == "R" || (ne[i].kind == "r" && false)) {
				ids := c13RowsToIds(res.GetQ())
				if len(ids) != 1 || ids[0] != int64(ne[i].tok) {
					fail("returning-rows", fmt.Sprintf("RETURNING result %d is %v, want [%d]", i, ids, ne[i].tok))
				}
			}
		}
	}
	// rollback on error: [pre..., BEGIN, body..., (COMMIT)] with a failure in body
	if !r.tx && r.rb {
		rep.Count("oracle:rollback-on-error-request")
		bi := -1
		ok := true
		for i, s := range ne {
			if s.kind == "b" && bi < 0 {
				bi = i
			} else if s.isCtl() && !(s.kind == "c" && i == len(ne)-1) {
				ok = false
			}
		}
		if ok && bi >= 0 && firstFail > bi {
			rep.Count("oracle:rollback-on-error-failed-tx")
			var pre []int64
			for _, s := range ne[:bi] {
				if s.isWrite() {
					pre = append(pre, int64(s.tok))
				}
			}
			wantAfter := append(append([]int64(nil), o.before...), pre...)
			if !c13Eq(o.after, wantAfter) {
				fail("rollback-on-error-left-effects", fmt.Sprintf("failed explicit transaction left effects: committed %v, want %v", o.after, wantAfter))
			}
			if o.openAfter {
				fail("rollback-on-error-left-open", "failed explicit transaction was not rolled back (connection still in a transaction)")
			}
			if len(o.results) != firstFail+1 {
				fail("rollback-on-error-continued", fmt.Sprintf("%d results, want %d: execution continued after the failure", len(o.results), firstFail+1))
			}
		}
	}
}

func c13GenStmts(r *vfRng, n int, allowCtl bool, nextTok *int) []c13Stmt {
	var ss []c13Stmt
	for i := 0; i < n; i++ {
		p := r.Intn(100)
		var s c13Stmt
		switch {
		case p < 40:
			*nextTok++
			s = c13Stmt{kind: "w", tok: *nextTok}
		case p < 50:
			*nextTok++
			s = c13Stmt{kind: []string{"r", "R"}[r.Intn(2)], tok: *nextTok}
		case p < 51:
			s = c13Stmt{kind: "xf"}
		case p < 53:
			s = c13Stmt{kind: "ar"}
		case p < 56:
			s = c13Stmt{kind: []string{"sp", "sa", "sq"}[r.Intn(3)]}
		case p < 60:
			*nextTok++
			s = c13Stmt{kind: "p", tok: *nextTok}
		case p < 70:
			s = c13Stmt{kind: "pf"}
		case p < 77:
			s = c13Stmt{kind: "e"}
		case p < 87:
			s = c13Stmt{kind: []string{"q", "Q"}[r.Intn(2)]}
		case p < 91:
			s = c13Stmt{kind: "qf"}
		default:
			if allowCtl {
				s = c13Stmt{kind: []string{"b", "c", "rb"}[r.Intn(3)]}
			} else {
				*nextTok++
				s = c13Stmt{kind: "w", tok: *nextTok}
			}
		}
		ss = append(ss, s)
	}
	return ss
}

// c13TimeoutShare: percentage of rollback-on-error load-like requests that hold a timeout
var c13TimeoutShare = vfScale(12, 2)

func c13GenReq(r *vfRng, nextTok *int) c13Req {
	q := c13Req{path: []string{"exec", "request"}[r.Intn(2)]}
	shape := r.Intn(100)
	n := 1 + r.Intn(8)
	switch {
	case shape < 45: // transaction request, no control statements
		q.tx = true
		q.rb = r.Chance(25)
		q.stmts = c13GenStmts(r, n, false, nextTok)
	case shape < 55: // transaction request with control statements (outside the property; model fidelity only)
		q.tx = true
		q.rb = r.Chance(25)
		q.stmts = c13GenStmts(r, n, true, nextTok)
	case shape < 75: // load-like: pre, BEGIN, body, COMMIT with rollback-on-error
		q.rb = r.Chance(80)
		pre := c13GenStmts(r, r.Intn(3), false, nextTok)
		if q.rb {
			// keep pre free of failures so the failure (if any) is inside the explicit transaction
			var p2 []c13Stmt
			for _, s := range pre {
				if !s.fails() {
					p2 = append(p2, s)
				}
			}
			pre = p2
		}
		body := c13GenStmts(r, 1+r.Intn(5), false, nextTok)
		if q.rb && r.Chance(c13TimeoutShare) {
			// the caller's deadline runs out during a slow read somewhere in the body (a few cases only:
			// each costs the deadline)
			k := r.Intn(len(body) + 1)
			body = append(append(append([]c13Stmt(nil), body[:k]...), c13Stmt{kind: "to"}), body[k:]...)
		}
		q.stmts = append(append(append(pre, c13Stmt{kind: "b"}), body...), c13Stmt{kind: "c"})
	default: // plain request, anything goes
		q.rb = r.Chance(20)
		q.stmts = c13GenStmts(r, n, r.Chance(40), nextTok)
	}
	return q
}

// c13TimeoutFired: in a request whose first failing statement is the slow read, did the deadline fire
// there - every statement before it answered without error, the slow read with an error, nothing after?
func c13TimeoutFired(r c13Req, o c13Obs) bool {
	f := 0
	for _, s := range r.stmts {
		if s.kind == "e" {
			continue
		}
		if s.fails() {
			if s.kind != "to" {
				return true // the slow read is never reached: an ordinary case
			}
			break
		}
		f++
	}
	if len(o.results) != f+1 || !c13IsErr(o.results[f]) {
		return false
	}
	for _, res := range o.results[:f] {
		if c13IsErr(res) {
			return false
		}
	}
	return true
}

// c13RunCase executes op lines on a fresh database; returns impl outputs.
func c13RunCase(ops []string, rep *vfReport) []string {
	out, _ := c13RunCaseKept(ops, rep)
	for len(out) < len(ops) {
		out = append(out, "abandoned")
	}
	return out
}

// c13RunCaseKept: as c13RunCase; a case is cut short (kept < len(ops)) at a request with a timeout whose
// deadline did not fire during the slow read (the machine was too slow for the statements before it).
func c13RunCaseKept(ops []string, rep *vfReport) ([]string, int) {
	d, done := c13NewDB()
	defer done()
	var out []string
	for i, l := range ops {
		if l == "reset" {
			out = append(out, "ok")
			continue
		}
		q, ok := c13ParseOp(l)
		if !ok {
			out = append(out, "bad-op")
			continue
		}
		o := c13RunReq(d, q, i)
		if q.hasTimeout() && !c13TimeoutFired(q, o) {
			if rep != nil {
				rep.Count("timeout-case-abandoned:deadline-did-not-fire-in-the-slow-read")
			}
			return out, i
		}
		out = append(out, c13Canon(q, o))
		if rep != nil {
			if q.hasTimeout() {
				rep.Count("timeout-case")
			}
			c13Oracle(rep, q, o, ops[:i+1])
			nontrivial := false
			for _, s := range q.stmts {
				if s.fails() {
					nontrivial = true
				}
			}
			rep.Case(l, nontrivial && len(q.stmts) > 1)
			rep.Count("path=" + q.path)
			rep.Count(fmt.Sprintf("tx=%v,rb=%v", q.tx, q.rb))
			rep.Count(fmt.Sprintf("statements=%d", len(q.stmts)))
			for _, s := range q.stmts {
				rep.Count("stmt:" + s.kind)
			}
			for _, r := range strings.Split(strings.Fields(c13Canon(q, o))[0], ";") {
				k := r
				if len(r) > 1 && (r[0] == 'E' || r[0] == 'Q') {
					k = r[:1]
				}
				rep.Count("result:" + k)
			}
			if o.openAfter {
				rep.Count("left-open-transaction")
			}
		}
	}
	return out, len(ops)
}

func TestVerifC13(t *testing.T) {
	rep := vfNewReport("C13", "generated cases: fresh WAL database, 1-3 requests of 1-8 statements (writes, RETURNING with/without ForceQuery, constraint failures incl. a multi-row statement failing on its last row, statements that are not atomic on their own - several commands in one text, INSERT OR FAIL - failing part-way, statements that make SQLite roll the transaction back by itself (INSERT OR ROLLBACK, RAISE(ROLLBACK) in a trigger), statements run through the query helper whose query fails to start (missing table/column, too few positional/named parameters), prepare failures, empty, queries, failing query, BEGIN/COMMIT/ROLLBACK; in rollback-on-error requests also a slow read during which the CALLER's context deadline expires) × Transaction on/off × RollbackOnError on/off × db.Execute / db.Request; a request is non-trivial when it has ≥2 statements one of which fails; distinct by abstract request line")
	defer rep.Write()

	if ops, ok := vfReplayOps(); ok {
		out := c13RunCase(ops, rep)
		rep.vfCompare("exec", ops, out, func(o []string) []string { return c13RunCase(o, nil) })
		return
	}

	// fixed witnesses first (the design pass' failing inputs)
	corpus := [][]string{
		{"reset", "req request 1 0 w1,pf,w2"},
		{"reset", "req exec 1 0 w1,pf,w2"},
		{"reset", "req request 0 1 b,w1,pf,w2,c"},
		{"reset", "req exec 0 1 b,w1,pf,w2,c"},
		{"reset", "req request 0 1 b,w1,xf,w2,c"},
		{"reset", "req request 1 0 w1,xf,w2", "req request 1 0 w3,R4,q"},
		// a transaction holding exactly one statement which is not atomic on its own
		{"reset", "req exec 1 0 p1"}, {"reset", "req request 1 0 p1"}, {"reset", "req exec 1 1 p1", "req request 1 0 p2", "req exec 0 0 p3,w4"},
		{"reset", "req exec 1 0 w1,p2,w3"}, {"reset", "req request 0 1 b,w1,p2,c"},
		// a statement that makes SQLite roll the transaction back by itself
		{"reset", "req exec 1 0 w1,ar,w2"}, {"reset", "req request 1 0 w1,ar,w2"}, {"reset", "req exec 0 0 b,w1,ar,w2,c"},
		{"reset", "req request 0 1 b,w1,ar,w2,c"}, {"reset", "req exec 0 0 w1,ar,w2"}, {"reset", "req exec 1 1 w1,w2,ar"},
		// a statement run through the query helper whose query fails to start
		{"reset", "req exec 1 0 w1,sp,w2"}, {"reset", "req exec 1 0 w1,sa,w2"}, {"reset", "req request 1 0 w1,sa,w2"},
		{"reset", "req request 1 0 w1,sq,w2"}, {"reset", "req exec 1 0 w1,sq,w2"}, {"reset", "req request 1 0 w1,sp,w2"},
		{"reset", "req exec 0 1 b,w1,sa,w2,c"}, {"reset", "req request 0 1 b,w1,sq,w2,c"},
		{"reset", "req exec 1 0 w1,c,w2,xf"}, {"reset", "req request 1 0 w1,c,xf,w2"}, {"reset", "req exec 0 1 w1,p2,w3"},
		// the request's context expires during a slow read inside an explicit transaction; a later COMMIT finds none
		{"reset", "req exec 0 1 b,w1,to,w2,c", "req exec 0 0 c", "req exec 0 0 w3"},
		{"reset", "req request 0 1 b,w1,to,w2,c", "req request 0 0 c", "req request 1 0 w3"},
		{"reset", "req request 0 1 w1,b,w2,Q,to,c", "req exec 0 0 q,c"}, {"reset", "req exec 0 1 w1,to,w2"},
	}
	r := vfNewRng(13)
	cases := vfScale(350, 30000)
	var segOps, segImpl [][]string
	for _, c := range corpus {
		out, kept := c13RunCaseKept(c, rep)
		segOps = append(segOps, c[:kept])
		segImpl = append(segImpl, out)
	}
	for c := 0; c < cases; c++ {
		ops := []string{"reset"}
		tok := 0
		for n := 1 + r.Intn(3); n > 0; n-- {
			ops = append(ops, c13GenReq(r, &tok).opLine())
		}
		out, kept := c13RunCaseKept(ops, rep)
		ops = ops[:kept]
		if c < 3 {
			rep.Sample(map[string]interface{}{"ops": ops, "impl": out})
		}
		segOps = append(segOps, ops)
		segImpl = append(segImpl, out)
	}
	// one model run; on a disagreement shrink the first differing case
	if !rep.vfCompareSegments("exec", segOps, segImpl) {
		for i := range segOps {
			mo, err := vfModel("exec", segOps[i])
			if err == nil && vfFirstDiff(segImpl[i], mo) >= 0 {
				rep.Disagreements = nil
				rep.vfCompare("exec", segOps[i], segImpl[i], func(o []string) []string { return c13RunCase(o, nil) })
				break
			}
		}
	}
}

package sql

// C14 correspondence + spec oracle: Rewriter.Do / Process on generated statements vs.
// the Lean model `rewrite` (RqModel/Model/Rewrite.lean).
//
//   * statements are generated from a grammar over SELECT / INSERT / UPSERT / UPDATE /
//     DELETE / RETURNING / CTE / compound / window forms with calls to random(),
//     randomblob(), date(), time(), datetime(), julianday(), unixepoch(), strftime(),
//     timediff() of every arity and letter case, nested in expressions, written with
//     whitespace / comments / quotes between name and parenthesis, plus such words inside
//     strings and identifiers;
//   * the real parser's AST is recorded (in sql.Walk order) before and after the real
//     Rewriter.Do with pinned randFn / nowFn; the model's `walk` is applied to the same
//     recorded tree and the results are diffed;
//   * the property is evaluated directly on the real output: no non-deterministic call
//     left (Rewriter level and Process level incl. the pre-filter), statements without
//     target calls unchanged, only the allowed replacements made;
//   * meaning on real SQLite: rewritten closed statements evaluate identically at two
//     different times, and time-only statements evaluate like the original did at the
//     pinned instant.

import (
	"errors"
	"context"
	"database/sql"
	"fmt"
	"io"
	"math"
	"strconv"
	"strings"
	"testing"
	"time"

	_ "github.com/mattn/go-sqlite3"
	"github.com/rqlite/rqlite/v10/command/proto"
	rsql "github.com/rqlite/sql"
)

// ---- recorded tree -----------------------------------------------------------------

type c14Node struct {
	kind  string // C L I O R N
	name  string // call/ident name, literal kind, other tag
	val   string // literal value
	nargs int    // calls: number of Args
	kids  []*c14Node
}

type c14Recorder struct {
	stack []*c14Node
	root  *c14Node
}

func c14TypeName(n rsql.Node) string {
	s := fmt.Sprintf("%T", n)
	s = strings.TrimPrefix(s, "*")
	return strings.TrimPrefix(s, "sql.")
}

func (r *c14Recorder) Visit(n rsql.Node) (rsql.Visitor, rsql.Node, error) {
	nd := &c14Node{}
	switch x := n.(type) {
	case *rsql.Call:
		nd.kind, nd.nargs = "C", len(x.Args)
		if x.Name != nil {
			nd.name = x.Name.Name
		}
	case *rsql.NumberLit:
		nd.kind, nd.name, nd.val = "L", "number", x.Value
	case *rsql.StringLit:
		nd.kind, nd.name, nd.val = "L", "string", x.Value
	case *rsql.BlobLit:
		nd.kind, nd.name, nd.val = "L", "blob", x.Value
	case *rsql.NullLit:
		nd.kind, nd.name = "L", "null"
	case *rsql.BoolLit:
		nd.kind, nd.name, nd.val = "L", "bool", strconv.FormatBool(x.Value)
	case *rsql.BindExpr:
		nd.kind, nd.name, nd.val = "L", "bind", x.Name
	case *rsql.TimestampLit:
		nd.kind, nd.name, nd.val = "L", "timestamp", x.String()
	case *rsql.Ident:
		nd.kind, nd.name = "I", x.Name
	case *rsql.OrderingTerm:
		nd.kind = "O"
	case *rsql.ReturningClause:
		nd.kind = "R"
	case *rsql.BinaryExpr:
		nd.kind, nd.name = "N", "BinaryExpr:"+strings.ReplaceAll(x.Op.String(), " ", "_")
	case *rsql.UnaryExpr:
		nd.kind, nd.name = "N", "UnaryExpr:"+strings.ReplaceAll(x.Op.String(), " ", "_")
	default:
		nd.kind, nd.name = "N", c14TypeName(n)
	}
	if len(r.stack) > 0 {
		p := r.stack[len(r.stack)-1]
		p.kids = append(p.kids, nd)
	} else {
		r.root = nd
	}
	r.stack = append(r.stack, nd)
	// mirror the rewriter's own descents (sql.Walk does not enter these)
	switch x := n.(type) {
	case *rsql.WithClause:
		for _, cte := range x.CTEs {
			if cte.Select != nil {
				if _, err := rsql.Walk(r, cte.Select); err != nil {
					return nil, nil, err
				}
			}
		}
	case rsql.SelectExpr:
		if x.SelectStatement != nil {
			if _, err := rsql.Walk(r, x.SelectStatement); err != nil {
				return nil, nil, err
			}
		}
	}
	return r, n, nil
}

func (r *c14Recorder) VisitEnd(n rsql.Node) (rsql.Node, error) {
	nd := r.stack[len(r.stack)-1]
	r.stack = r.stack[:len(r.stack)-1]
	if c, ok := n.(*rsql.Call); ok && c.Name != nil && len(nd.kids) > 0 && nd.kids[0].kind == "I" {
		nd.kids = nd.kids[1:] // the Name identifier is carried in the call node itself
	}
	return n, nil
}

func c14Record(st rsql.Statement) (*c14Node, error) {
	r := &c14Recorder{}
	if _, err := rsql.Walk(r, st); err != nil {
		return nil, err
	}
	return r.root, nil
}

func (n *c14Node) tokens(out *[]string) {
	switch n.kind {
	case "C":
		*out = append(*out, "C", vfHex(n.name), strconv.Itoa(n.nargs), strconv.Itoa(len(n.kids)-n.nargs))
	case "L":
		*out = append(*out, "L", n.name, vfHex(n.val))
		return
	case "I":
		*out = append(*out, "I", vfHex(n.name))
		return
	case "O", "R":
		*out = append(*out, n.kind, strconv.Itoa(len(n.kids)))
	default:
		*out = append(*out, "N", n.name, strconv.Itoa(len(n.kids)))
	}
	for _, k := range n.kids {
		k.tokens(out)
	}
}

func (n *c14Node) line() string {
	var t []string
	n.tokens(&t)
	return strings.Join(t, " ")
}

// ---- pinned sources -------------------------------------------------------------------

var c14Base = time.Date(2024, 3, 9, 10, 11, 12, 0, time.UTC)

// the k-th clock reading advances by 97 s so that a second reading would be visible
func c14Now(k int) time.Time { return c14Base.Add(time.Duration(k) * 97 * time.Second) }

func c14JdStr(k int) string { return julianDayAsNumberLit(c14Now(k)).Value }

// c14Canon rewrites the recorded AFTER tree into the model's vocabulary: a NumberLit equal to
// the k-th pinned clock reading becomes `L jd <k>`; a BlobLit standing where BEFORE had a
// randomblob call becomes `L randblob <bytes>`.
func c14Canon(before, after *c14Node) {
	if after.kind == "L" && after.name == "number" {
		for k := 0; k < 8; k++ {
			if after.val == c14JdStr(k) {
				after.name, after.val = "jd", strconv.Itoa(k)
				return
			}
		}
	}
	if before != nil && before.kind == "C" && strings.EqualFold(before.name, "random") && after.kind == "L" && after.name == "number" {
		after.name = "randnum" // the number a random() call became (a NumberLit in the Go AST)
		return
	}
	if before != nil && before.kind == "C" && strings.EqualFold(before.name, "randomblob") && after.kind == "L" && after.name == "blob" {
		after.name, after.val = "randblob", strconv.Itoa(len(after.val)/2)
		return
	}
	for i, k := range after.kids {
		var b *c14Node
		if before != nil && i < len(before.kids) {
			b = before.kids[i]
		}
		c14Canon(b, k)
	}
}

// ---- the property, evaluated on a recorded tree ----------------------------------------------

var c14TimeFive = map[string]bool{"date": true, "time": true, "datetime": true, "julianday": true, "unixepoch": true}

func c14IsNow(n *c14Node) bool {
	return (n.kind == "I" || (n.kind == "L" && n.name == "string")) && strings.EqualFold(map[bool]string{true: n.name, false: n.val}[n.kind == "I"], "now")
}

// c14IntLiteral: a number literal (decimal, hexadecimal or floating point) and the byte count
// SQLite's randomblob derives from it.
func c14IntLiteral(n *c14Node) bool { _, ok := c14LitBytes(n); return ok }

func c14LitBytes(n *c14Node) (int64, bool) {
	// a number literal, or one under a unary minus / plus
	neg := false
	if n.kind == "N" && (n.name == "UnaryExpr:-" || n.name == "UnaryExpr:+") && len(n.kids) == 1 {
		neg = n.name == "UnaryExpr:-"
		n = n.kids[0]
	}
	if n.kind != "L" || n.name != "number" {
		return 0, false
	}
	// the value SQLite gives the literal - hexadecimal of up to 16 digits is two's complement - and
	// what its randomblob does with it: below 1 → one byte; above the limit on blob lengths → an
	// error on every node alike ("string or blob too big"), which need not be pinned
	const sqliteMaxLength = 1000000000
	var v float64
	low := strings.ToLower(n.val)
	switch {
	case strings.HasPrefix(low, "0x"):
		u, err := strconv.ParseUint(low[2:], 16, 64)
		if err != nil {
			return 0, false // "hex literal too big": an error everywhere
		}
		i := int64(u)
		if neg && i == math.MinInt64 {
			return 0, false
		}
		v = float64(i)
	default:
		f, err := strconv.ParseFloat(n.val, 64)
		if err != nil && !math.IsInf(f, 0) {
			return 0, false
		}
		v = f
	}
	if neg {
		v = -v
	}
	if v > sqliteMaxLength {
		return 0, false
	}
	b := int64(1)
	if v >= 1 {
		b = int64(v)
	}
	return b, true
}

// c14Nondet lists the calls of the tree that the property says must not be replicated:
// random() / randomblob(<integer literal>) outside ORDER BY, and the date/time family with an
// explicit or implicit 'now'.
func c14Nondet(n *c14Node, underOrd bool, rwRand, rwTime bool, out *[]string) {
	if n.kind == "C" {
		nm := strings.ToLower(n.name)
		args := n.kids[:n.nargs]
		switch {
		case rwTime && c14TimeFive[nm]:
			if len(args) == 0 {
				*out = append(*out, nm+":implicit-now")
			} else if c14IsNow(args[0]) {
				*out = append(*out, nm+":explicit-now")
			}
		case rwTime && nm == "strftime":
			if len(args) == 1 {
				*out = append(*out, nm+":implicit-now")
			} else if len(args) > 1 && c14IsNow(args[1]) {
				*out = append(*out, nm+":explicit-now")
			}
		case rwTime && nm == "timediff":
			if len(args) == 2 && (c14IsNow(args[0]) || c14IsNow(args[1])) {
				*out = append(*out, nm+":explicit-now")
			}
		case rwRand && nm == "random" && !underOrd:
			*out = append(*out, "random")
		case rwRand && nm == "randomblob" && !underOrd:
			if len(args) == 1 && c14IntLiteral(args[0]) {
				*out = append(*out, "randomblob:literal")
			}
		}
	}
	for _, k := range n.kids {
		c14Nondet(k, underOrd || n.kind == "O", rwRand, rwTime, out)
	}
}

var c14Targets = map[string]bool{"random": true, "randomblob": true, "date": true, "time": true, "datetime": true,
	"julianday": true, "unixepoch": true, "strftime": true, "timediff": true}

func c14HasCallNamed(n *c14Node, names ...string) bool {
	if n.kind == "C" {
		for _, x := range names {
			if strings.EqualFold(n.name, x) {
				return true
			}
		}
	}
	for _, k := range n.kids {
		if c14HasCallNamed(k, names...) {
			return true
		}
	}
	return false
}

func c14HasTargetCall(n *c14Node) bool {
	if n.kind == "C" && c14Targets[strings.ToLower(n.name)] {
		return true
	}
	for _, k := range n.kids {
		if c14HasTargetCall(k) {
			return true
		}
	}
	return false
}

// c14OnlyAllowed checks "nothing else changes": after differs from before only by
//   - a random()/randomblob(int literal) call outside ORDER BY replaced by a number / blob literal,
//   - a `now` argument in a time position replaced by the pinned literal, or the pinned literal
//     appended where the time value was absent.
func c14OnlyAllowed(b, a *c14Node, underOrd bool) string {
	if b.kind == "C" {
		nm := strings.ToLower(b.name)
		if a.kind == "L" {
			if underOrd {
				return "call inside ORDER BY replaced: " + b.name
			}
			if nm == "random" && a.name == "randnum" {
				return ""
			}
			if nm == "randomblob" && a.name == "randblob" && b.nargs == 1 && c14IntLiteral(b.kids[0]) {
				n, _ := c14LitBytes(b.kids[0])
				if a.val != strconv.FormatInt(n, 10) {
					return fmt.Sprintf("randomblob(%s) replaced by a blob of %s bytes", b.kids[0].val, a.val)
				}
				return ""
			}
			return "call " + b.name + " replaced by literal " + a.name
		}
		if a.kind != "C" || a.name != b.name {
			return "call " + b.name + " changed"
		}
		// argument list: equal, or pinned literal substituted / appended at the time-value position
		bk, ak := b.kids, a.kids
		pos := -1
		switch {
		case c14TimeFive[nm]:
			pos = 0
		case nm == "strftime":
			pos = 1
		}
		if a.nargs == b.nargs+1 && pos >= 0 && b.nargs == pos && ak[pos].kind == "L" && ak[pos].name == "jd" {
			ak = append(append([]*c14Node{}, ak[:pos]...), ak[pos+1:]...)
		} else if a.nargs != b.nargs {
			return fmt.Sprintf("call %s: %d arguments became %d", b.name, b.nargs, a.nargs)
		}
		if len(bk) != len(ak) {
			return "call " + b.name + ": child count changed"
		}
		for i := range bk {
			timePos := (i == pos) || (nm == "timediff" && i < 2 && b.nargs == 2)
			if timePos && i < b.nargs && c14IsNow(bk[i]) && ak[i].kind == "L" && ak[i].name == "jd" {
				continue
			}
			if r := c14OnlyAllowed(bk[i], ak[i], underOrd); r != "" {
				return r
			}
		}
		return ""
	}
	if a.kind != b.kind || a.name != b.name || a.val != b.val || len(a.kids) != len(b.kids) {
		return fmt.Sprintf("node %s/%s changed to %s/%s", b.kind, b.name, a.kind, a.name)
	}
	for i := range b.kids {
		if r := c14OnlyAllowed(b.kids[i], a.kids[i], underOrd || b.kind == "O"); r != "" {
			return r
		}
	}
	return ""
}

// ---- generator -----------------------------------------------------------------------

type c14Gen struct {
	r      *vfRng
	closed bool // no column references: the statement can be evaluated on an empty database
	timeOnly bool
	forms  map[string]bool
}

func (g *c14Gen) mixCase(s string) string {
	switch g.r.Intn(4) {
	case 0:
		return strings.ToUpper(s)
	case 1:
		b := []byte(s)
		for i := range b {
			if g.r.Bool() {
				b[i] = byte(strings.ToUpper(string(b[i]))[0])
			}
		}
		return string(b)
	}
	return s
}

// callHead renders a function name and what may stand between it and the parenthesis
func (g *c14Gen) callHead(name string) string {
	n := g.mixCase(name)
	switch p := g.r.Intn(100); {
	case p < 70:
		return n + "("
	case p < 80:
		g.forms["space-before-paren"] = true
		return n + " ("
	case p < 85:
		g.forms["newline-before-paren"] = true
		return n + "\n\t("
	case p < 90:
		g.forms["comment-before-paren"] = true
		return n + "/* c */("
	case p < 93:
		g.forms["line-comment-before-paren"] = true
		return n + " -- c\n("
	default:
		g.forms["quoted-name"] = true
		return `"` + n + `"(`
	}
}

func (g *c14Gen) nowLit() string {
	return g.r.Pick([]string{"'now'", "'now'", "'NOW'", "'Now'", `"now"`})
}

func (g *c14Gen) timeValue() string {
	switch p := g.r.Intn(100); {
	case p < 55:
		return g.nowLit()
	case p < 75:
		return "'2024-01-02 03:04:05'"
	case p < 85:
		return "'2020-02-29'"
	case p < 92:
		return "2460000.5"
	default:
		if g.closed {
			return "'2001-09-09'"
		}
		return "ts"
	}
}

func (g *c14Gen) modifiers() []string {
	var m []string
	for n := g.r.Intn(3); n > 0; n-- {
		m = append(m, g.r.Pick([]string{"'+1 day'", "'-2 hours'", "'start of month'", "'+1 year'", "'start of day'", "'weekday 0'"}))
	}
	return m
}

func (g *c14Gen) timeCall() string {
	fn := g.r.Pick([]string{"date", "time", "datetime", "julianday", "unixepoch", "strftime", "strftime", "timediff"})
	if g.timeOnly && (fn == "julianday" || fn == "timediff") {
		fn = "datetime" // sub-second results differ between the pinned instant and the original's own clock
	}
	var args []string
	switch fn {
	case "strftime":
		f := g.r.Pick([]string{"'%s'", "'%Y-%m-%d'", "'%H:%M:%S'", "'%Y-%m-%d %H:%M:%S'", "'%j'", "'%J'"})
		if g.timeOnly && f == "'%J'" {
			f = "'%s'"
		}
		args = append(args, f)
		switch p := g.r.Intn(100); {
		case p < 30: // format only: implicit now
			g.forms["strftime-format-only"] = true
		case p < 34:
			args = nil // strftime(): an error in SQLite
		default:
			args = append(append(args, g.timeValue()), g.modifiers()...)
		}
	case "timediff":
		switch p := g.r.Intn(100); {
		case p < 45:
			args = []string{g.nowLit(), "'2020-01-01'"}
		case p < 80:
			args = []string{"'2030-01-01 00:00:00'", g.nowLit()}
		case p < 90:
			args = []string{"'2030-01-01'", "'2020-01-01'"}
		case p < 95:
			args = []string{g.nowLit()}
		default:
			args = []string{g.nowLit(), g.nowLit()}
		}
	default:
		switch p := g.r.Intn(100); {
		case p < 30:
			g.forms["zero-argument-time-function"] = true
		default:
			args = append([]string{g.timeValue()}, g.modifiers()...)
		}
	}
	return g.callHead(fn) + strings.Join(args, ", ") + ")"
}

func (g *c14Gen) randCall() string {
	if g.r.Chance(55) {
		if g.r.Chance(6) {
			return g.callHead("random") + "1)"
		}
		return g.callHead("random") + ")"
	}
	arg := g.r.Pick([]string{"16", "4", "1", "0", "007", "0x10", "0X0a", "2.0", "1e1", "-1", "(4)", "2+2", "n",
		"99999999999", "1000000001", "0x7fffffffffff", "1e10", "99999999999999999999", "0xffffffffffffffffff", "3000000000.5", "-5", "1e999",
		"0xFFFFFFFFFFFFFFFF", "0x8000000000000000", "0x7FFFFFFFFFFFFFFF", "0x10000000000000000", "-0x10", "+4", "-2.5", "-0", "-1e999", "-99999999999999999999", "- 7"})
	if g.closed && arg == "n" {
		arg = "3"
	}
	if strings.HasPrefix(strings.ToLower(arg), "0x") {
		g.forms["randomblob-hex-literal"] = true
	}
	return g.callHead("randomblob") + arg + ")"
}

func (g *c14Gen) atom() string {
	switch p := g.r.Intn(100); {
	case p < 22:
		return g.timeCall()
	case p < 40:
		if g.timeOnly {
			return g.timeCall()
		}
		return g.randCall()
	case p < 55:
		return strconv.Itoa(g.r.Intn(100))
	case p < 63:
		// such words inside strings
		return g.r.Pick([]string{"'random()'", "'date(''now'')'", "'now'", "'x'", "'strftime(''%s'')'", "'randomblob(4)'"})
	case p < 75:
		if g.closed {
			return g.r.Pick([]string{"NULL", "1.5", "x'0A'"})
		}
		// such words inside identifiers
		return g.r.Pick([]string{"a", "b", "n", "ts", "random_col", "timecol", `"date('now')"`, "t.a", `"random()"`})
	case p < 83:
		inner := g.r.Pick([]string{"abs", "length", "coalesce", "lower", "typeof", "hex"})
		return inner + "(" + g.expr(1) + ")"
	default:
		return "?"
	}
}

func (g *c14Gen) expr(depth int) string {
	if depth <= 0 || g.r.Chance(35) {
		a := g.atom()
		if a == "?" {
			if g.closed {
				return "7"
			}
			return "?"
		}
		return a
	}
	switch p := g.r.Intn(100); {
	case p < 30:
		return g.expr(depth-1) + " " + g.r.Pick([]string{"+", "-", "*", "||", "=", "<", "AND", "OR", "IS"}) + " " + g.expr(depth-1)
	case p < 40:
		return "(" + g.expr(depth-1) + ")"
	case p < 46:
		return "-" + g.atom()
	case p < 54:
		return "CASE WHEN " + g.expr(depth-1) + " THEN " + g.expr(depth-1) + " ELSE " + g.expr(depth-1) + " END"
	case p < 60:
		return "CAST(" + g.expr(depth-1) + " AS TEXT)"
	case p < 66:
		return g.atom() + " IN (" + g.expr(depth-1) + ", " + g.expr(depth-1) + ")"
	case p < 72:
		g.forms["subquery-expression"] = true
		return "(SELECT " + g.expr(depth-1) + ")"
	case p < 77:
		g.forms["in-subquery"] = true
		return g.atom() + " IN (SELECT " + g.expr(depth-1) + ")"
	case p < 81:
		g.forms["exists-subquery"] = true
		return "EXISTS (SELECT " + g.expr(depth-1) + " ORDER BY " + g.expr(0) + ")"
	case p < 86:
		return g.atom() + " BETWEEN " + g.expr(depth-1) + " AND " + g.expr(depth-1)
	case p < 90:
		return g.expr(depth-1) + " COLLATE NOCASE"
	default:
		inner := g.r.Pick([]string{"max", "min", "coalesce", "ifnull"})
		return inner + "(" + g.expr(depth-1) + ", " + g.expr(depth-1) + ")"
	}
}

func (g *c14Gen) exprs(n, depth int) string {
	var es []string
	for i := 0; i < n; i++ {
		es = append(es, g.expr(depth))
	}
	return strings.Join(es, ", ")
}

func (g *c14Gen) orderBy() string {
	g.forms["order-by"] = true
	var ts []string
	for n := 1 + g.r.Intn(2); n > 0; n-- {
		t := g.expr(1)
		if g.r.Chance(40) {
			t = g.callHead("random") + ")"
		}
		if g.r.Chance(30) {
			t += " DESC"
		}
		ts = append(ts, t)
	}
	return " ORDER BY " + strings.Join(ts, ", ")
}

func (g *c14Gen) selectBody() string {
	s := "SELECT " + g.exprs(1+g.r.Intn(3), 2)
	if g.closed {
		if g.r.Chance(25) {
			s += g.orderBy()
		}
		return s
	}
	s += " FROM t"
	if g.r.Chance(15) {
		g.forms["from-subquery"] = true
		s += " JOIN (SELECT " + g.expr(1) + " AS y) ON t.a = y"
	}
	if g.r.Chance(45) {
		s += " WHERE " + g.expr(2)
	}
	if g.r.Chance(15) {
		s += " GROUP BY " + g.expr(1)
		if g.r.Chance(50) {
			s += " HAVING " + g.expr(1)
		}
	}
	if g.r.Chance(12) {
		g.forms["compound"] = true
		s += " UNION SELECT " + g.exprs(1, 1) + " FROM t"
	}
	if g.r.Chance(35) {
		s += g.orderBy()
	}
	if g.r.Chance(20) {
		s += " LIMIT " + g.expr(0)
	}
	return s
}

func (g *c14Gen) returning() string {
	if g.r.Chance(35) {
		g.forms["returning"] = true
		return " RETURNING " + g.exprs(1+g.r.Intn(2), 1)
	}
	return ""
}

func (g *c14Gen) statement() string {
	with := ""
	if !g.closed && g.r.Chance(18) {
		g.forms["cte"] = true
		with = "WITH c AS (SELECT " + g.expr(2) + " AS r) "
		if g.r.Chance(30) {
			with = "WITH c AS (SELECT " + g.expr(1) + " AS r), d(x) AS (SELECT " + g.expr(1) + " FROM t" + g.orderBy() + ") "
		}
	}
	if g.closed {
		g.forms["select"] = true
		return g.selectBody()
	}
	switch p := g.r.Intn(100); {
	case p < 30:
		g.forms["select"] = true
		if g.r.Chance(10) {
			g.forms["window"] = true
			return with + "SELECT sum(a) OVER (PARTITION BY " + g.expr(1) + g.orderBy() + ") FROM t"
		}
		return with + g.selectBody()
	case p < 60:
		g.forms["insert"] = true
		s := with + "INSERT INTO t(a, b) VALUES (" + g.exprs(2, 2) + ")"
		if g.r.Chance(30) {
			s += ", (" + g.exprs(2, 1) + ")"
		}
		if g.r.Chance(25) {
			g.forms["upsert"] = true
			s += " ON CONFLICT(a) DO UPDATE SET b = " + g.expr(1)
			if g.r.Chance(40) {
				s += " WHERE " + g.expr(1)
			}
		}
		return s + g.returning()
	case p < 68:
		g.forms["insert-select"] = true
		return with + "INSERT INTO t(a, b) " + g.selectBody()
	case p < 86:
		g.forms["update"] = true
		s := with + "UPDATE t SET a = " + g.expr(2)
		if g.r.Chance(40) {
			s += ", b = " + g.expr(1)
		}
		if g.r.Chance(60) {
			s += " WHERE " + g.expr(2)
		}
		return s + g.returning()
	default:
		g.forms["delete"] = true
		s := with + "DELETE FROM t"
		if g.r.Chance(75) {
			s += " WHERE " + g.expr(2)
		}
		return s + g.returning()
	}
}

// ---- running one statement through the real rewriter -----------------------------------------

type c14Run struct {
	sqlText         string
	before, after   *c14Node
	afterSQL        string
	modified, ret   bool
	clockReads      int
	parseErr, rwErr error
}

func c14Rewrite(text string, rwRand, rwTime bool) c14Run {
	run := c14Run{sqlText: text}
	p1, err := rsql.NewParser(strings.NewReader(text)).ParseStatement()
	if err != nil {
		run.parseErr = err
		return run
	}
	run.before, err = c14Record(p1)
	if err != nil {
		run.parseErr = err
		return run
	}
	p2, _ := rsql.NewParser(strings.NewReader(text)).ParseStatement()
	rw := NewRewriter()
	rw.RewriteRand, rw.RewriteTime = rwRand, rwTime
	rk := 0
	rw.randFn = func() int64 { rk++; return int64(1000 + rk - 1) }
	rw.nowFn = func() time.Time { run.clockReads++; return c14Now(run.clockReads - 1) }
	out, mod, ret, err := rw.Do(p2)
	if err != nil {
		run.rwErr = err
		return run
	}
	run.modified, run.ret = mod, ret
	run.afterSQL = out.String()
	run.after, err = c14Record(out)
	if err != nil {
		run.rwErr = err
		return run
	}
	c14Canon(run.before, run.after)
	return run
}

func c14Sig(kind string, nd []string, forms map[string]bool) string {
	// the class of failing input: which call form survived (smallest label when several did)
	best := nd[0]
	for _, n := range nd {
		if n < best {
			best = n
		}
	}
	return kind + ":" + best
}

// ---- SQLite ------------------------------------------------------------------------------

func c14Eval(db *sql.DB, q string) string {
	rows, err := db.Query(q)
	if err != nil {
		return "ERROR"
	}
	defer rows.Close()
	cols, _ := rows.Columns()
	var out []string
	for rows.Next() {
		vals := make([]any, len(cols))
		ptrs := make([]any, len(cols))
		for i := range vals {
			ptrs[i] = &vals[i]
		}
		if err := rows.Scan(ptrs...); err != nil {
			return "ERROR"
		}
		for _, v := range vals {
			if b, ok := v.([]byte); ok {
				out = append(out, fmt.Sprintf("%x", b))
			} else {
				out = append(out, fmt.Sprint(v))
			}
		}
	}
	if rows.Err() != nil {
		return "ERROR"
	}
	return strings.Join(out, "|")
}

func TestVerifC14(t *testing.T) {
	rep := vfNewReport("C14", "generated statements (SELECT/INSERT/UPSERT/UPDATE/DELETE/RETURNING/CTE/compound/window forms; calls to random, randomblob, date, time, datetime, julianday, unixepoch, strftime, timediff with 0-4 arguments, any letter case, explicit/implicit/absent 'now', nested in operators, CASE, CAST, IN, subqueries, EXISTS, ORDER BY; whitespace/comments/quotes between name and parenthesis; the words inside strings and identifiers); a statement is non-trivial when it contains at least one non-deterministic call; distinct by statement text")
	defer rep.Write()
	r := vfNewRng(14)

	mem, err := sql.Open("sqlite3", ":memory:")
	if err != nil {
		t.Fatalf("open sqlite: %v", err)
	}
	defer mem.Close()
	mem.SetMaxOpenConns(1)

	n := vfScale(2500, 600000)
	var ops, impl []string
	var filterOps, filterImpl []string
	type evalItem struct{ text, first string }
	var determinism []evalItem
	sample := 0

	check := func(text string, forms map[string]bool, rwRand, rwTime bool, closed bool) {
		run := c14Rewrite(text, rwRand, rwTime)
		if run.parseErr != nil {
			rep.Count("parser-rejects")
			// by design: passed through unchanged
			st := []*proto.Statement{{Sql: text}}
			if err := Process(st, rwRand, rwTime); err != nil || st[0].Sql != text {
				rep.Fail("unparsable-statement-changed", fmt.Sprintf("statement the parser rejects was changed: %q -> %q (%v)", text, st[0].Sql, err), map[string]interface{}{"sql": text})
			}
			return
		}
		if run.rwErr != nil {
			rep.Fail("rewriter-error", fmt.Sprintf("Rewriter.Do failed on %q: %v", text, run.rwErr), map[string]interface{}{"sql": text})
			return
		}
		for f := range forms {
			rep.Count("form:" + f)
		}
		var ndBefore, ndAfter []string
		c14Nondet(run.before, false, rwRand, rwTime, &ndBefore)
		c14Nondet(run.after, false, rwRand, rwTime, &ndAfter)
		rep.Case(text, len(ndBefore) > 0)
		for _, x := range ndBefore {
			rep.Count("nondet-call:" + x)
		}
		replay := map[string]interface{}{"sql": text, "rewritten": run.afterSQL, "rwRand": rwRand, "rwTime": rwTime}

		// 1. no non-deterministic call left (Rewriter level)
		if len(ndAfter) > 0 {
			rep.Fail(c14Sig("rewriter-left", ndAfter, forms), fmt.Sprintf("after Rewriter.Do %q still contains %v: %q", text, ndAfter, run.afterSQL), replay)
		}
		// 2. statements without target calls are unchanged
		if !c14HasTargetCall(run.before) {
			rep.Count("no-target-call")
			if run.modified || run.before.line() != run.after.line() {
				rep.Fail("changed-without-calls", fmt.Sprintf("statement without any target call was modified: %q -> %q", text, run.afterSQL), replay)
			}
		}
		// 3. nothing else changes
		if why := c14OnlyAllowed(run.before, run.after, false); why != "" {
			rep.Fail("other-change:"+strings.SplitN(why, ":", 2)[0], fmt.Sprintf("%q -> %q: %s", text, run.afterSQL, why), replay)
		}
		// 4. one clock reading per statement
		if run.clockReads > 1 {
			cnt := 0
			var cj func(n *c14Node)
			cj = func(n *c14Node) {
				if n.kind == "L" && n.name == "jd" && n.val != "0" {
					cnt++
				}
				for _, k := range n.kids {
					cj(k)
				}
			}
			cj(run.after)
			if cnt > 0 {
				rep.Fail("different-now-within-statement", fmt.Sprintf("%q: 'now' was pinned to different instants inside one statement: %q", text, run.afterSQL), replay)
			}
		}
		// model
		ops = append(ops, fmt.Sprintf("rw %s %s %s", c13BitC14(rwRand), c13BitC14(rwTime), run.before.line()))
		impl = append(impl, fmt.Sprintf("%v %v %s", run.modified, run.ret, run.after.line()))
		if sample < 4 && len(ndBefore) > 0 {
			sample++
			rep.Sample(map[string]interface{}{"sql": text, "rewritten": run.afterSQL, "nondeterministic_calls": ndBefore})
		}

		// 5. Process level (pre-filter + parse + rewrite + print) with the real clock
		lowered := strings.ToLower(text)
		filterOps = append(filterOps, "filter "+vfHex(lowered))
		filterImpl = append(filterImpl, fmt.Sprintf("%v %v", ContainsTime(lowered), ContainsRandom(lowered)))
		st := []*proto.Statement{{Sql: text}}
		if err := Process(st, rwRand, rwTime); err != nil {
			rep.Fail("process-error", fmt.Sprintf("Process(%q): %v", text, err), replay)
			return
		}
		if !c14HasTargetCall(run.before) && !strings.Contains(lowered, "returning ") && !strings.Contains(lowered, "explain ") {
			// (RETURNING / EXPLAIN statements are parsed for other reasons but only re-printed when modified)
		}
		if !c14HasTargetCall(run.before) && st[0].Sql != text {
			rep.Fail("process-changed-without-calls", fmt.Sprintf("Process changed a statement without target calls: %q -> %q", text, st[0].Sql), replay)
		}
		if len(ndBefore) > 0 {
			p, err := rsql.NewParser(strings.NewReader(st[0].Sql)).ParseStatement()
			if err != nil {
				sig := "process-output-unparsable"
				// is it the PRINTER alone? (the statement parsed and printed again, nothing rewritten)
				if p0, e0 := rsql.NewParser(strings.NewReader(text)).ParseStatement(); e0 == nil {
					if _, e1 := rsql.NewParser(strings.NewReader(p0.String())).ParseStatement(); e1 != nil {
						sig = "printer-breaks-statement-without-any-rewrite"
						if strings.Contains(p0.String(), "--") {
							sig += ":nested-unary-minus-printed-as-comment"
						}
					}
				}
				rep.Fail(sig, fmt.Sprintf("Process output does not parse: %q -> %q", text, st[0].Sql), replay)
				return
			}
			tr, _ := c14Record(p)
			var nd []string
			c14Nondet(tr, false, rwRand, rwTime, &nd)
			if len(nd) > 0 {
				kind := "process-left"
				if st[0].Sql == text && len(ndAfter) == 0 {
					kind = "prefilter-missed" // the rewriter handles it, Process never called it
					if (rwTime && ContainsTime(lowered)) || (rwRand && ContainsRandom(lowered)) {
						kind = "process-dropped-rewrite" // parsed and rewritten, but the original text was kept
					}
				}
				rep.Fail(c14Sig(kind, nd, forms), fmt.Sprintf("after Process %q is replicated as %q, still containing %v", text, st[0].Sql, nd), replay)
			}
			if closed && len(nd) == 0 && !c14HasCallNamed(tr, "random", "randomblob") {
				determinism = append(determinism, evalItem{text: st[0].Sql, first: c14Eval(mem, st[0].Sql)})
			}
		}
	}

	for i := 0; i < n; i++ {
		g := &c14Gen{r: r, forms: map[string]bool{}, closed: i%5 == 4}
		text := g.statement()
		rwRand, rwTime := true, true
		if i%17 == 3 {
			rwRand = false
		}
		if i%17 == 9 {
			rwTime = false
		}
		check(text, g.forms, rwRand, rwTime, g.closed && rwRand && rwTime)
	}
	// fixed corpus: the design pass' candidates and the forms found while building the check
	for _, text := range []string{
		"INSERT INTO t(a) VALUES(datetime())", "INSERT INTO t(a) VALUES(strftime('%s'))", "SELECT date(), time(), julianday(), unixepoch()",
		"INSERT INTO t(a) VALUES(random ())", "INSERT INTO t(a) VALUES(random/**/())", `INSERT INTO t(a) VALUES("random"())`,
		"INSERT INTO t(a) VALUES(datetime ('now'))", "SELECT (SELECT random())", "SELECT 1 WHERE a IN (SELECT random())",
		"WITH c AS (SELECT random() AS r) INSERT INTO t(a) SELECT r FROM c", "INSERT INTO t(a) VALUES(randomblob(0x10))",
		"SELECT a FROM t ORDER BY (SELECT random() ORDER BY random()) + random()", "SELECT julianday('now') - julianday('now')",
		"SELECT 'random()', \"date('now')\" FROM t", "SELECT random_col, timecol FROM t",
		// a call directly under a sign: whatever is substituted must still be one expression when printed
		// (a negative number behind a unary minus would read `--…`, a comment)
		"INSERT INTO t(a, b) VALUES(-random(), - random())", "SELECT -random(), +random(), - -random(), -(random()), 1 - random(), 1 -random()",
		"UPDATE t SET a = -random() WHERE b > -random()", "SELECT -julianday('now'), -unixepoch(), -strftime('%s','now'), -length(randomblob(4))",
	} {
		check(text, map[string]bool{"corpus": true}, true, true, false)
	}

	// one statement TEXT holding several statements (the driver executes them all)
	var splitOps, splitImpl []string
	// checkMulti: everything that is checked of ONE text holding several statements
	var checkMulti func(text string, schemaKnown bool)
	checkMulti = func(text string, schemaKnown bool) {
		// the model splits with the parser as a parameter: it is told which runs of pieces the parser accepts
		{
			ids := map[string]int{}
			toks := func(t string) string { return c14Toks(t, ids) }
			segs := c14Pieces(text)
			var accepted []string
			seen := map[string]bool{}
			for i := range segs {
				for j := i; j < len(segs); j++ {
					cand := strings.Join(segs[i:j+1], ";")
					if _, err := rsql.NewParser(strings.NewReader(cand)).ParseStatement(); err == nil {
						if l := toks(cand); !seen[l] {
							seen[l] = true
							accepted = append(accepted, l)
						}
					}
				}
			}
			acc := "-"
			if len(accepted) > 0 {
				acc = strings.Join(accepted, "|")
			}
			splitOps = append(splitOps, "split "+toks(text)+" "+acc)
			parts, ok := splitStatements(text)
			var out []string
			for _, pt := range parts {
				kind := "S:"
				if pt.parsed == nil {
					kind = "R:"
					rep.Count("split:piece-no-statement-starts-at")
				} else if strings.Contains(toks(text[pt.start:pt.end]), "s") {
					rep.Count("split:statement-holding-semicolons")
				}
				out = append(out, kind+toks(text[pt.start:pt.end]))
			}
			switch {
			case !ok:
				splitImpl = append(splitImpl, "split-gave-up")
			case len(out) == 0:
				splitImpl = append(splitImpl, "-")
			default:
				splitImpl = append(splitImpl, strings.Join(out, "|"))
			}
		}
		st := []*proto.Statement{{Sql: text}}
		replay := map[string]interface{}{"sql": text}
		if err := Process(st, true, true); err != nil {
			rep.Fail("process-error", fmt.Sprintf("Process(%q): %v", text, err), replay)
			return
		}
		replay["replicated"] = st[0].Sql
		// INDEPENDENT of any parser: executed twice on fresh databases, the replicated text leaves the same
		// content (a random() still in it - in a statement SQLite executes - would not)
		if schemaKnown && strings.Contains(text, "TEMPORARY TRIGGER") && strings.Contains(strings.ToLower(st[0].Sql), "random()") {
			// the parser does not know CREATE TEMPORARY TRIGGER: the piece is passed through unchanged, by design,
			// with the call in its first body statement
			rep.Count("multi:call-inside-a-piece-the-parser-rejects")
		} else if schemaKnown {
			d1, e1 := c14RunFresh(st[0].Sql)
			d2, e2 := c14RunFresh(st[0].Sql)
			if errors.Is(e1, context.DeadlineExceeded) || errors.Is(e2, context.DeadlineExceeded) {
				rep.Count("multi:sqlite-run-abandoned-after-20s")
				d1, d2 = "", ""
			} else if e1 != nil || e2 != nil {
				rep.Count("multi:sqlite-stops-at-an-error") // what ran before the error is compared all the same
			}
			switch {
			case d1 != d2:
				rep.Fail("multi-statement-text:replicated-text-not-deterministic", fmt.Sprintf("%q is replicated as %q, which executed twice on SQLite gives %s and %s", text, st[0].Sql, d1, d2), replay)
			default:
				rep.Count("multi:executed-twice-on-sqlite-same-content")
			}
		}
		origTexts, orig, ok := c14ParseAll(text)
		if !ok || len(orig) < 2 {
			rep.Count("multi:parser-rejects")
			return
		}
		rep.Count("multi-statement-text")
		if len(origTexts) != len(strings.Split(text, ";")) {
			rep.Count("multi-statement-text:with-empty-statements")
		}
		outTexts, out, ok := c14ParseAll(st[0].Sql)
		if !ok {
			rep.Fail("multi-statement-text:output-unparsable", fmt.Sprintf("%q -> %q", text, st[0].Sql), replay)
			return
		}
		if len(out) != len(orig) {
			rep.Fail("multi-statement-text:statements-lost", fmt.Sprintf("a text of %d statements is replicated as %d: %q -> %q", len(orig), len(out), text, st[0].Sql), replay)
			return
		}
		anyTarget := false
		var left []string
		hadNondet := false
		for k := range orig {
			bt, _ := c14Record(orig[k])
			at, _ := c14Record(out[k])
			if c14HasTargetCall(bt) {
				anyTarget = true
			} else if outTexts[k] != origTexts[k] {
				rep.Fail("multi-statement-text:untouched-statement-reprinted", fmt.Sprintf("statement %d of %q needs no rewriting but is replicated as %q", k, text, outTexts[k]), replay)
			}
			var ndB []string
			c14Nondet(bt, false, true, true, &ndB)
			hadNondet = hadNondet || len(ndB) > 0
			c14Nondet(at, false, true, true, &left)
		}
		rep.Case(text, hadNondet)
		if len(left) > 0 {
			rep.Fail(c14Sig("multi-statement-text:left", left, nil), fmt.Sprintf("%q is replicated as %q, still containing %v", text, st[0].Sql, left), replay)
		}
		if !anyTarget && st[0].Sql != text {
			rep.Fail("multi-statement-text:changed-without-calls", fmt.Sprintf("%q -> %q", text, st[0].Sql), replay)
		}
		// the query / explain markers are those of the first statement, as for a single statement
		first := []*proto.Statement{{Sql: origTexts[0]}}
		if err := Process(first, true, true); err == nil && (first[0].ForceQuery != st[0].ForceQuery || first[0].SqlExplain != st[0].SqlExplain) {
			rep.Fail("multi-statement-text:markers", fmt.Sprintf("%q: ForceQuery=%v SqlExplain=%v, its first statement alone gets %v %v", text, st[0].ForceQuery, st[0].SqlExplain, first[0].ForceQuery, first[0].SqlExplain), replay)
		}
		}

	multi := vfScale(300, 60000)
	for i := 0; i < multi+3; i++ {
		g := &c14Gen{r: r, forms: map[string]bool{}}
		var parts []string
		for k := 2 + r.Intn(2); k > 0; k-- {
			parts = append(parts, g.statement())
		}
		text := strings.Join(parts, r.Pick([]string{"; ", ";\n", " ; "}))
		switch i {
		case 0:
			text = "INSERT INTO t(a) VALUES(random()); INSERT INTO t(a) VALUES(2)"
		case 1:
			text = "INSERT INTO t(a) VALUES(1); INSERT INTO t(a) VALUES(random())"
		case 2:
			text = "INSERT INTO t(a) VALUES(1); INSERT INTO t(a) VALUES(2);"
		}
		// a CREATE TRIGGER statement (its body holds semicolons, and CASE … END) before / after / between
		if i%7 == 3 || (i >= 3 && i < 9) {
			trg := r.Pick([]string{
				"CREATE TRIGGER tr AFTER INSERT ON t BEGIN UPDATE t SET a = CASE WHEN a > 1 THEN 2 ELSE 3 END; DELETE FROM t WHERE b = 1; END",
				"CREATE TEMP TRIGGER tr2 BEFORE DELETE ON t BEGIN SELECT CASE WHEN old.a THEN CASE WHEN 1 THEN 2 END ELSE 0 END; END",
				"CREATE TRIGGER IF NOT EXISTS tr3 AFTER UPDATE ON t BEGIN INSERT INTO t(a) VALUES(1); INSERT INTO t(a) VALUES(2); UPDATE t SET b = 2; END"})
			switch i % 3 {
			case 0:
				text = trg + "; " + text
			case 1:
				text = text + "; " + trg
			default:
				parts = append([]string{parts[0], trg}, parts[1:]...)
				text = strings.Join(parts, "; ")
			}
			g.forms["trigger-in-text"] = true
		}
		if i%11 == 6 {
			text = r.Pick([]string{";;", "; ", ";\n;"}) + text // leading empty statements
		}
		if i%9 == 4 {
			text += r.Pick([]string{";", ";;", " ; ; ", ";\n-- done\n"}) // empty / comment-only statements
		} else if i%9 == 5 {
			text = strings.Replace(text, ";", "; ;", 1)
		}
		checkMulti(text, false)
	}

	// identifiers spelled like keywords (SQLite and the parser take `begin`, `end` as column and table
	// names), in trigger bodies and heads; EXPLAIN CREATE TRIGGER; statements SQLite knows and the parser
	// does not. All over the schema of c14RunFresh, so that SQLite itself is the judge.
	{
		heads := []string{"AFTER INSERT ON t", "AFTER UPDATE OF begin, end ON ev", "BEFORE DELETE ON ev", "AFTER INSERT ON end",
			"AFTER UPDATE ON ev WHEN new.a > 0", "AFTER INSERT ON ev WHEN CASE WHEN 1 THEN 1 END"}
		bodies := []string{"INSERT INTO ev(begin, end) VALUES(1, 2)", "UPDATE ev SET a = 1 WHERE end > 5", "SELECT end FROM ev",
			"INSERT INTO end(a) VALUES(1)", "INSERT INTO ev(id, a) VALUES(1, 1) ON CONFLICT(id) DO NOTHING", "SELECT CASE WHEN 1 THEN 2 END",
			"UPDATE ev SET a = CASE WHEN end > 1 THEN begin ELSE 0 END WHERE begin < end", "DELETE FROM ev WHERE begin = 1 AND end = 2",
			"INSERT INTO t(a) VALUES(1)", "SELECT begin, end FROM ev ORDER BY end", "INSERT INTO t(a) SELECT end FROM ev LIMIT 2",
			"SELECT 'end; begin', \"end\" FROM ev", "SELECT 1 /* end; */", "INSERT INTO ev(a, begin) VALUES(random(), 3)"}
		creates := []string{"CREATE TRIGGER tr ", "CREATE TRIGGER IF NOT EXISTS tr ", "EXPLAIN CREATE TRIGGER tr ", "create trigger \"end\" ",
			"CREATE TEMP TRIGGER tr ", "CREATE TEMPORARY TRIGGER tr "}
		others := []string{"INSERT INTO t(a) VALUES(random())", "INSERT INTO ev(begin, end) VALUES(random(), 2)", "UPDATE ev SET a = random() WHERE end > 5",
			"INSERT INTO end(a) VALUES(random())", "SELECT end FROM ev", "CREATE TEMP TABLE IF NOT EXISTS x(a)", "CREATE TEMPORARY TABLE IF NOT EXISTS y(begin, end)",
			"INSERT INTO t(a) VALUES(1) -- end;\n", "SELECT [a;b] FROM (SELECT 1 AS [a;b])", "INSERT INTO ev(a) VALUES(random()) RETURNING end", "EXPLAIN SELECT end, random() FROM ev"}
		fixed := []string{}
		for _, x := range bodies[:5] { // review R5, 2.1
			fixed = append(fixed, "CREATE TRIGGER tr AFTER INSERT ON t BEGIN "+x+"; SELECT 1; END; INSERT INTO t(a) VALUES(random())")
		}
		fixed = append(fixed,
			"CREATE TRIGGER tr AFTER UPDATE OF begin, end ON ev BEGIN SELECT 1; SELECT 2; END; INSERT INTO t(a) VALUES(random())",
			"EXPLAIN CREATE TRIGGER tr AFTER INSERT ON t BEGIN SELECT 1; SELECT 2; END; INSERT INTO t(a) VALUES(random())",
			"CREATE TEMPORARY TRIGGER tr AFTER INSERT ON t BEGIN SELECT 1; SELECT 2; END; INSERT INTO t(a) VALUES(random())",
			"CREATE TEMP TABLE x(a); INSERT INTO t(a) VALUES(random())",
			"BEGIN; CREATE TRIGGER tr AFTER INSERT ON t BEGIN SELECT end FROM ev; END; INSERT INTO t(a) VALUES(random()); END")
		for i := 0; i < len(fixed)+vfScale(250, 30000); i++ {
			var text string
			if i < len(fixed) {
				text = fixed[i]
			} else {
				var parts []string
				for k := r.Intn(3); k > 0; k-- {
					parts = append(parts, r.Pick(others))
				}
				var bs []string
				for k := 1 + r.Intn(3); k > 0; k-- {
					bs = append(bs, r.Pick(bodies))
				}
				parts = append(parts, r.Pick(creates)+r.Pick(heads)+" BEGIN "+strings.Join(bs, "; ")+"; END")
				for k := 1 + r.Intn(2); k > 0; k-- {
					parts = append(parts, r.Pick(others))
				}
				if r.Chance(20) { // a second trigger
					parts = append(parts, "CREATE TRIGGER tr2 "+r.Pick(heads)+" BEGIN "+r.Pick(bodies)+"; END", r.Pick(others))
				}
				text = strings.Join(parts, r.Pick([]string{"; ", ";\n", " ; ", ";"}))
				if r.Chance(15) {
					text += ";"
				}
				if r.Chance(20) { // the whole in a transaction, closed with the keyword END or COMMIT
					text = r.Pick([]string{"BEGIN; ", "BEGIN TRANSACTION;", "begin immediate ; "}) + strings.TrimSuffix(text, ";") + r.Pick([]string{"; END", "; COMMIT", ";end;"})
				}
			}
			rep.Count("keyword-named-identifiers-and-triggers")
			checkMulti(text, true)
			// every random() outside a piece the parser does not know must be gone
			if !strings.Contains(text, "TEMPORARY TRIGGER") { // (its first body statement is in a piece the parser does not know)
				st := []*proto.Statement{{Sql: text}}
				if err := Process(st, true, true); err == nil && strings.Contains(strings.ToLower(st[0].Sql), "random()") && strings.Contains(strings.ToLower(text), "random()") {
					rep.Fail("multi-statement-text:left:random", fmt.Sprintf("%q is replicated as %q", text, st[0].Sql), map[string]interface{}{"sql": text})
				}
			}
		}
	}

	rep.vfCompareSegments("rewrite", c14Chunks(splitOps, 300), c14Chunks(splitImpl, 300))
	rep.vfCompareSegments("rewrite", c14Chunks(ops, 400), c14Chunks(impl, 400))
	rep.vfCompareSegments("rewrite", c14Chunks(filterOps, 400), c14Chunks(filterImpl, 400))

	// meaning A: time-only closed statements evaluate like the original at the pinned instant
	eq := vfScale(120, 10000)
	for i := 0; i < eq; i++ {
		g := &c14Gen{r: r, forms: map[string]bool{}, closed: true, timeOnly: true}
		text := "SELECT " + g.exprs(1+g.r.Intn(2), 1)
		ok := false
		var last string
		conclusive := 0 // attempts in which the clock reading and the original's evaluation were close together
		for attempt := 0; attempt < 12 && !ok && conclusive < 4; attempt++ {
			st := []*proto.Statement{{Sql: text}}
			t0 := time.Now()
			if err := Process(st, true, true); err != nil {
				break
			}
			orig := c14Eval(mem, text)
			took := time.Since(t0)
			rewr := c14Eval(mem, st[0].Sql)
			last = fmt.Sprintf("original %q = %s ; rewritten %q = %s", text, orig, st[0].Sql, rewr)
			if orig == "ERROR" {
				rep.Count("meaning:original-is-an-error")
				ok = true
				break
			}
			ok = orig == rewr
			if !ok {
				// the pinned literal has a precision of 1e-6 day (±43 ms) and the original reads its
				// own clock a moment later: near a second boundary the two may differ - move away from it.
				// On a busy machine "a moment" can be long: such an attempt says nothing.
				if took < 150*time.Millisecond {
					conclusive++
				} else {
					rep.Count("meaning:attempt-inconclusive-machine-too-slow")
				}
				rep.Count("meaning:retry")
				time.Sleep(170 * time.Millisecond)
			}
		}
		rep.Count("meaning:original-vs-rewritten")
		if !ok && conclusive >= 4 {
			rep.Fail("meaning-changed", "rewritten statement does not evaluate like the original at the pinned instant: "+last, map[string]interface{}{"sql": text})
		} else if !ok {
			rep.Count("meaning:abandoned-under-load")
		}
	}
	// meaning A': a pinned random blob has the length SQLite's randomblob would have produced
	for _, arg := range []string{"16", "4", "1", "0", "007", "010", "0x10", "0X0a", "2.0", "2.9", "1e1", "15e-1", ".5", "3.",
		"0xFFFFFFFFFFFFFFFF", "0x8000000000000000", "-5", "-0x10", "+4", "-2.5", "-0", "-1e999", "-99999999999999999999"} {
		text := "SELECT length(randomblob(" + arg + "))"
		st := []*proto.Statement{{Sql: text}}
		if err := Process(st, true, true); err != nil {
			continue
		}
		rep.Count("meaning:randomblob-length")
		if o, w := c14Eval(mem, text), c14Eval(mem, st[0].Sql); o != w || st[0].Sql == text {
			rep.Fail("randomblob-length", fmt.Sprintf("%q is %s on SQLite but was replicated as %q = %s", text, o, st[0].Sql, w), map[string]interface{}{"sql": text})
		}
	}
	// meaning A'': RANDOM hexadecimal literals (hex_literal_general is about every digit string): either the
	// call is pinned and the blob has the length SQLite's randomblob produces, or it is left alone and
	// SQLite rejects it. Values are kept below 2^16 or at least 2^32 so that SQLite never allocates much.
	for i := 0; i < vfScale(60, 4000); i++ {
		const hexd = "0123456789abcdefABCDEF"
		var lit string
		if r.Chance(50) {
			lit = strings.Repeat("0", r.Intn(15))
			for k := 1 + r.Intn(4); k > 0; k-- {
				lit += string(hexd[r.Intn(len(hexd))])
			}
		} else {
			lit = string(hexd[1+r.Intn(len(hexd)-1)])
			for k := 8 + r.Intn(9); k > 0; k-- {
				lit += string(hexd[r.Intn(len(hexd))])
			}
		}
		arg := r.Pick([]string{"0x", "0X"}) + lit
		if r.Chance(25) {
			arg = "-" + arg
		}
		text := "SELECT length(randomblob(" + arg + "))"
		st := []*proto.Statement{{Sql: text}}
		if err := Process(st, true, true); err != nil {
			rep.Fail("randomblob-hex-literal", fmt.Sprintf("Process(%q): %v", text, err), nil)
			continue
		}
		rep.Count("meaning:randomblob-random-hex-literal")
		o := c14Eval(mem, text)
		if st[0].Sql == text {
			rep.Count("meaning:randomblob-random-hex-literal:left-alone")
			if o != "ERROR" {
				rep.Fail("randomblob-length", fmt.Sprintf("%q is left alone but SQLite evaluates it to %s", text, o), map[string]interface{}{"sql": text})
			}
		} else if w := c14Eval(mem, st[0].Sql); o != w {
			rep.Fail("randomblob-length", fmt.Sprintf("%q is %s on SQLite but was replicated as %.80q = %s", text, o, st[0].Sql, w), map[string]interface{}{"sql": text})
		}
	}
	// a literal beyond SQLite's blob limit is left alone - and SQLite rejects it, identically everywhere
	for _, arg := range []string{"99999999999", "1000000001", "0x7fffffffffff", "1e10", "99999999999999999999", "3000000000.5",
		"0x7FFFFFFFFFFFFFFF", "0x10000000000000000", "-0x8000000000000000", "1e999"} {
		text := "SELECT length(randomblob(" + arg + "))"
		st := []*proto.Statement{{Sql: text}}
		if err := Process(st, true, true); err != nil {
			rep.Fail("randomblob-huge-literal", fmt.Sprintf("Process(%q): %v", text, err), nil)
			continue
		}
		rep.Count("meaning:randomblob-beyond-sqlite-limit")
		if st[0].Sql != text || c14Eval(mem, text) != "ERROR" {
			rep.Fail("randomblob-huge-literal", fmt.Sprintf("%q replicated as %.80q; SQLite evaluates the original to %s (expected: left alone, rejected by SQLite)", text, st[0].Sql, c14Eval(mem, text)), map[string]interface{}{"sql": text})
		}
	}
	// meaning B: rewritten closed statements do not depend on the time of evaluation
	if len(determinism) > 0 {
		time.Sleep(1100 * time.Millisecond)
		for _, it := range determinism {
			rep.Count("meaning:evaluated-at-two-times")
			if second := c14Eval(mem, it.text); second != it.first {
				rep.Fail("rewritten-still-time-dependent", fmt.Sprintf("%q evaluated to %s and, 1.1 s later, to %s", it.text, it.first, second), map[string]interface{}{"sql": it.text})
			}
		}
	}
}

// c14Toks renders the scanner's tokens of a text for the model: `s` the semicolon, a number any other
// token (same kind and spelling = same number), comments skipped; `-` if there is none.
func c14Toks(text string, ids map[string]int) string {
	var out []string
	sc := rsql.NewScanner(strings.NewReader(text))
	for {
		_, tok, lit := sc.Scan()
		if tok == rsql.EOF {
			break
		}
		if tok == rsql.COMMENT {
			continue
		}
		if tok == rsql.SEMI {
			out = append(out, "s")
			continue
		}
		key := fmt.Sprintf("%d:%s", tok, strings.ToLower(lit))
		if _, ok := ids[key]; !ok {
			ids[key] = len(ids) + 1
		}
		out = append(out, strconv.Itoa(ids[key]))
	}
	if len(out) == 0 {
		return "-"
	}
	return strings.Join(out, ".")
}

// c14Pieces cuts a text at its semicolon tokens.
func c14Pieces(text string) []string {
	runes := []rune(text)
	var segs []string
	start := 0
	sc := rsql.NewScanner(strings.NewReader(text))
	for {
		pos, tok, _ := sc.Scan()
		if tok == rsql.EOF {
			break
		}
		if tok == rsql.SEMI {
			segs = append(segs, string(runes[start:pos.Offset]))
			start = pos.Offset + 1
		}
	}
	return append(segs, string(runes[start:]))
}

// c14RunFresh executes a text on a fresh in-memory database with a small schema (tables t, ev with
// columns named begin and end, and a table named end) and returns the content afterwards.
func c14RunFresh(text string) (string, error) {
	db, err := sql.Open("sqlite3", ":memory:")
	if err != nil {
		return "", err
	}
	defer db.Close()
	db.SetMaxOpenConns(1)
	if _, err := db.Exec(`CREATE TABLE t(a, b); CREATE TABLE ev(id INTEGER PRIMARY KEY, a, begin, end); CREATE TABLE end(a);
		INSERT INTO ev(a, begin, end) VALUES(1, 1, 9), (2, 5, 6); INSERT INTO t(a) VALUES(0)`); err != nil {
		return "", err
	}
	// (bounded: row triggers that insert into their own table's source can multiply the rows)
	ctx, cancel := context.WithTimeout(context.Background(), 20*time.Second)
	defer cancel()
	_, xerr := db.ExecContext(ctx, text)
	if ctx.Err() != nil {
		return "", ctx.Err()
	}
	db.Exec("COMMIT") // a text may leave a transaction open
	return c14Eval(db, "SELECT a, b FROM t ORDER BY rowid") + " / " + c14Eval(db, "SELECT id, a, begin, end FROM ev ORDER BY id") + " / " +
		c14Eval(db, "SELECT a FROM end ORDER BY rowid"), xerr
}

// c14ParseAll cuts a text at its semicolon tokens (scanner tokens, so not inside strings, identifiers
// or comments), drops empty and comment-only pieces and groups the pieces into statements.
func c14ParseAll(text string) ([]string, []rsql.Statement, bool) {
	runes := []rune(text)
	var segs []string
	start := 0
	sc := rsql.NewScanner(strings.NewReader(text))
	for {
		pos, tok, _ := sc.Scan()
		if tok == rsql.EOF {
			break
		}
		if tok == rsql.SEMI {
			segs = append(segs, string(runes[start:pos.Offset]))
			start = pos.Offset + 1
		}
	}
	segs = append(segs, string(runes[start:]))
	// A statement is the shortest run of semicolon-separated pieces that the PARSER accepts (so the
	// body of a CREATE TRIGGER, which holds semicolons, is found without knowing its syntax here).
	var texts []string
	var stmts []rsql.Statement
	for i := 0; i < len(segs); {
		if strings.TrimSpace(segs[i]) == "" {
			i++
			continue
		}
		acc := segs[i]
		k := i
		for {
			p, err := rsql.NewParser(strings.NewReader(acc)).ParseStatement()
			if err == io.EOF { // nothing but comments
				break
			}
			if err == nil {
				texts = append(texts, strings.TrimSpace(acc))
				stmts = append(stmts, p)
				break
			}
			if k+1 >= len(segs) {
				return nil, nil, false
			}
			k++
			acc += ";" + segs[k]
		}
		i = k + 1
	}
	return texts, stmts, true
}

func c13BitC14(b bool) string {
	if b {
		return "1"
	}
	return "0"
}

func c14Chunks(xs []string, n int) [][]string {
	var out [][]string
	for len(xs) > 0 {
		k := n
		if k > len(xs) {
			k = len(xs)
		}
		out = append(out, xs[:k])
		xs = xs[k:]
	}
	return out
}

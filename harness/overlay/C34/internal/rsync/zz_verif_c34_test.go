package rsync

// C34 correspondence + spec oracle: real CheckAndSet / MultiRSW / ReadyTarget[uint64]
// vs. Lean model `rsync` (RqModel/Model/Rsync.lean).
//
//  A. sequential generated op sequences over the three primitives (incl. protocol
//     violations that make the code panic, and blocking acquires that really block:
//     the blocked goroutine is kept and must complete right after the release that
//     enables it), diffed exactly with the model; the property statements are also
//     evaluated directly on what the real primitives answered.
//  B. concurrent randomized runs on the real primitives with critical-section
//     instrumentation (2-4 goroutines): at most one gate holder; readers xor writer;
//     blocking acquirers all finish; waiters woken, and never before their target.
//
// No wall-clock value is ever part of the diffed output.

import (
	"runtime"
	"hash/fnv"
	"fmt"
	"strings"
	"sync"
	"sync/atomic"
	"testing"
	"time"
)

func c34Closed(ch <-chan struct{}) bool {
	select {
	case <-ch:
		return true
	default:
		return false
	}
}

// c34Call runs f and maps a panic to "panic".
func c34Call(f func() error) (res string) {
	defer func() {
		if r := recover(); r != nil {
			res = "panic"
		}
	}()
	if err := f(); err != nil {
		return "conflict"
	}
	return "ok"
}

type c34Pending struct {
	op   string // model op line
	kind string // "w" or "r"
	done chan string
}

// c34Stuck: a blocked acquirer has already been seen not to proceed; later waits are short (the
// failure is recorded, the run only has to finish)
var c34Stuck atomic.Bool

func c34Wait(d time.Duration) time.Duration {
	if c34Stuck.Load() {
		return 200 * time.Millisecond
	}
	return d
}

func c34SeqA(rep *vfReport, r *vfRng, n int) (ops, out []string) {
	cas := NewCheckAndSet()
	m := NewMultiRSW()
	rt := NewReadyTarget[uint64]()
	ops = append(ops, "reset")
	out = append(out, "ok")
	emit := func(op, res string) {
		ops = append(ops, op)
		out = append(out, res)
	}
	replay := func() map[string]interface{} { return map[string]interface{}{"ops": append([]string(nil), ops...)} }
	owners := []string{"snapshot", "backup", "close", "reap", ""}
	// mirrors (for the oracle and for deciding whether a blocking call would block)
	casHeld := false
	mOwner, mReaders := "", 0
	var pend *c34Pending
	settle := func() {
		if pend == nil {
			return
		}
		enabled := (pend.kind == "w" && mOwner == "" && mReaders <= 0) || (pend.kind == "r" && mOwner == "")
		if !enabled {
			return
		}
		select {
		case res := <-pend.done:
			emit(pend.op, res)
			if res == "ok" {
				if pend.kind == "w" {
					mOwner = "blk"
				} else {
					mReaders++
				}
			}
		case <-time.After(c34Wait(20 * time.Second)):
			c34Stuck.Store(true)
			rep.Fail("mrsw-blocked-acquirer-never-proceeds", "a blocking acquirer did not return within 20 s after the holders released", replay())
		}
		pend = nil
	}
	type sub struct {
		ch     <-chan struct{}
		target uint64
		live   bool
	}
	var subs []sub
	var cur uint64
	checkSubs := func() {
		for id, s := range subs {
			if !s.live {
				continue
			}
			closed := c34Closed(s.ch)
			if closed && s.target > cur {
				rep.Fail("waiter-woken-before-target", fmt.Sprintf("subscriber %d target %d closed while index is %d", id, s.target, cur), replay())
			}
			if !closed && s.target <= cur {
				rep.Fail("waiter-not-woken-at-target", fmt.Sprintf("subscriber %d target %d still open while index is %d", id, s.target, cur), replay())
			}
		}
	}
	for i := 0; i < n; i++ {
		switch r.Intn(20) {
		case 0, 1:
			o := r.Pick(owners)
			res := c34Call(func() error { return cas.Begin(o) })
			emit("cas.begin "+vfHex(o), res)
			if res == "ok" {
				if casHeld {
					rep.Fail("cas-two-holders", "Begin succeeded while the gate was held", replay())
				}
				casHeld = true
			} else if !casHeld {
				rep.Fail("cas-refused-while-free", "Begin failed while nobody held the gate", replay())
			}
		case 2:
			cas.End()
			casHeld = false
			emit("cas.end", "ok")
		case 3:
			emit("cas.owner", vfHex(cas.Owner()))
		case 4, 5:
			res := c34Call(m.BeginRead)
			emit("m.br", res)
			if res == "ok" {
				if mOwner != "" {
					rep.Fail("mrsw-reader-admitted-with-writer", "BeginRead succeeded while a writer held the lock", replay())
				}
				mReaders++
			}
		case 6:
			if mOwner == "" {
				m.BeginReadBlocking()
				mReaders++
				emit("m.brb", "ok")
			} else if pend == nil {
				p := &c34Pending{op: "m.brb", kind: "r", done: make(chan string, 1)}
				go func() { m.BeginReadBlocking(); p.done <- "ok" }()
				time.Sleep(300 * time.Microsecond)
				select {
				case <-p.done:
					emit("m.brb", "ok")
					rep.Fail("mrsw-blocking-reader-admitted-with-writer", "BeginReadBlocking returned while a writer held the lock", replay())
					mReaders++
				default:
					emit("m.brb", "blocked")
					pend = p
				}
			}
		case 7, 8:
			res := c34Call(func() error { m.EndRead(); return nil })
			emit("m.er", res)
			mReaders-- // the code decrements before it panics
			settle()
		case 9, 10:
			o := r.Pick(owners)
			res := c34Call(func() error { return m.BeginWrite(o) })
			emit("m.bw "+vfHex(o), res)
			if res == "ok" {
				if mOwner != "" || mReaders > 0 {
					rep.Fail("mrsw-writer-admitted-with-holders", fmt.Sprintf("BeginWrite succeeded with owner %q and %d readers", mOwner, mReaders), replay())
				}
				mOwner = o
			}
		case 11:
			if r.Chance(10) {
				res := c34Call(func() error { m.BeginWriteBlocking(""); return nil })
				emit("m.bwb "+vfHex(""), res)
			} else if mOwner == "" && mReaders <= 0 {
				m.BeginWriteBlocking("blk")
				mOwner = "blk"
				emit("m.bwb "+vfHex("blk"), "ok")
			} else if pend == nil {
				p := &c34Pending{op: "m.bwb " + vfHex("blk"), kind: "w", done: make(chan string, 1)}
				go func() { m.BeginWriteBlocking("blk"); p.done <- "ok" }()
				time.Sleep(300 * time.Microsecond)
				select {
				case <-p.done:
					emit(p.op, "ok")
					rep.Fail("mrsw-blocking-writer-admitted-with-holders", fmt.Sprintf("BeginWriteBlocking returned with owner %q and %d readers", mOwner, mReaders), replay())
					mOwner = "blk"
				default:
					emit(p.op, "blocked")
					pend = p
				}
			}
		case 12, 13:
			res := c34Call(func() error { m.EndWrite(); return nil })
			emit("m.ew", res)
			if res == "ok" {
				mOwner = ""
			}
			settle()
		case 14:
			o := r.Pick(owners)
			if o == "" && pend != nil {
				o = "up" // an empty owner frees the lock without a Broadcast; keep that away from a parked waiter
			}
			res := c34Call(func() error { return m.UpgradeToWriter(o) })
			emit("m.up "+vfHex(o), res)
			if res == "ok" {
				mOwner, mReaders = o, 0
			}
		case 15, 16:
			t := uint64(r.Intn(12))
			ch := rt.Subscribe(t)
			st := "open"
			if c34Closed(ch) {
				st = "closed"
			}
			emit(fmt.Sprintf("rt.sub %d", t), fmt.Sprintf("%d %s", len(subs), st))
			subs = append(subs, sub{ch, t, true})
		case 17:
			if len(subs) > 0 {
				id := r.Intn(len(subs))
				rt.Unsubscribe(subs[id].ch)
				subs[id].live = false
				emit(fmt.Sprintf("rt.unsub %d", id), "ok")
			}
		case 18:
			idx := uint64(r.Intn(12))
			rt.Signal(idx)
			if idx > cur {
				cur = idx
			}
			emit(fmt.Sprintf("rt.signal %d", idx), "ok")
			for id, s := range subs {
				emit(fmt.Sprintf("rt.closed %d", id), vfBool(c34Closed(s.ch)))
			}
		case 19:
			if r.Chance(30) {
				rt.Reset()
				cur = 0
				for id := range subs {
					subs[id].live = false
				}
				emit("rt.reset", "ok")
			} else {
				emit("rt.len", fmt.Sprint(rt.Len()))
			}
		}
		checkSubs()
		if r.Chance(25) {
			emit("m.state", fmt.Sprintf("%s %d", vfHex(m.owner), m.numReaders))
		}
	}
	// release a parked acquirer so that no goroutine is leaked
	if pend != nil {
		for guard := 0; guard < 1000 && pend != nil; guard++ {
			if mOwner != "" {
				res := c34Call(func() error { m.EndWrite(); return nil })
				emit("m.ew", res)
				mOwner = ""
			} else if mReaders > 0 {
				res := c34Call(func() error { m.EndRead(); return nil })
				emit("m.er", res)
				mReaders--
			} else if mReaders < 0 {
				// reader count went negative through a protocol violation: bring it back
				res := c34Call(m.BeginRead)
				emit("m.br", res)
				if res == "ok" {
					mReaders++
				}
				if mReaders == 0 {
					// BeginRead does not Broadcast: wake the parked writer through a read/unread pair
					emit("m.br", c34Call(m.BeginRead))
					emit("m.er", c34Call(func() error { m.EndRead(); return nil }))
				}
			}
			settle()
		}
	}
	return
}

// c34Directed: several BLOCKING writers (and optionally a blocking reader) park behind
// 1-3 readers; when the last reader leaves exactly one writer may be admitted, the others
// only after it has released. "Returned although it must still be blocked" can never be a
// timing artefact: the correct code cannot return at all before the release.
func c34Directed(rep *vfReport, r *vfRng) (ops, out []string) {
	m := NewMultiRSW()
	ops = append(ops, "reset")
	out = append(out, "ok")
	emit := func(op, res string) {
		ops = append(ops, op)
		out = append(out, res)
	}
	replay := func() map[string]interface{} { return map[string]interface{}{"ops": append([]string(nil), ops...)} }
	nR := 1 + r.Intn(3)
	nW := 2 + r.Intn(2)
	for i := 0; i < nR; i++ {
		emit("m.br", c34Call(m.BeginRead))
	}
	done := make(chan int, nW)
	for w := 0; w < nW; w++ {
		go func(w int) { m.BeginWriteBlocking("blk"); done <- w }(w)
	}
	time.Sleep(time.Duration(500+r.Intn(1500)) * time.Microsecond) // let them park
	admitted := 0
	probeBlocked := func(n int, why string) {
		// n writers must still be blocked
		t := time.NewTimer(4 * time.Millisecond)
		defer t.Stop()
		for k := 0; k < n; k++ {
			select {
			case <-done:
				admitted++
				emit("m.bwb "+vfHex("blk"), "ok")
				rep.Fail("mrsw-blocking-writer-admitted-with-holders", why, replay())
			case <-t.C:
				for ; k < n; k++ {
					emit("m.bwb "+vfHex("blk"), "blocked")
				}
				return
			}
		}
	}
	probeBlocked(nW, fmt.Sprintf("a blocking writer returned while %d readers held the lock", nR))
	for i := 0; i < nR; i++ {
		emit("m.er", c34Call(func() error { m.EndRead(); return nil }))
		if i < nR-1 {
			probeBlocked(nW-admitted, fmt.Sprintf("a blocking writer returned while %d readers still held the lock", nR-1-i))
		}
	}
	for admitted < nW {
		select {
		case <-done:
			admitted++
			emit("m.bwb "+vfHex("blk"), "ok")
		case <-time.After(c34Wait(20 * time.Second)):
			c34Stuck.Store(true)
			rep.Fail("mrsw-blocked-acquirer-never-proceeds", "a parked blocking writer did not return within 20 s after the holders released", replay())
			return
		}
		probeBlocked(nW-admitted, "a second blocking writer was admitted while the first one held the write lock")
		emit("m.ew", c34Call(func() error { m.EndWrite(); return nil }))
	}
	emit("m.state", fmt.Sprintf("%s %d", vfHex(m.owner), m.numReaders))
	return
}

// c34TwoParkedReaders: a writer holds; several BLOCKING readers park; the writer leaves: ALL of
// them must be admitted (the second while the first still holds its read lock). Waiting on a
// channel with a long timeout makes "not admitted" a lower-bound probe, safe on a slow machine.
func c34TwoParkedReaders(rep *vfReport, r *vfRng) (ops, out []string) {
	m := NewMultiRSW()
	ops = []string{"reset"}
	out = []string{"ok"}
	emit := func(op, res string) {
		ops = append(ops, op)
		out = append(out, res)
	}
	replay := func() map[string]interface{} { return map[string]interface{}{"ops": append([]string(nil), ops...)} }
	emit("m.bw "+vfHex("w"), c34Call(func() error { return m.BeginWrite("w") }))
	nR := 2 + r.Intn(2)
	done := make(chan int, nR)
	for k := 0; k < nR; k++ {
		go func(k int) { m.BeginReadBlocking(); done <- k }(k)
	}
	time.Sleep(time.Duration(500+r.Intn(1500)) * time.Microsecond) // let them park
	select {
	case <-done:
		emit("m.brb", "ok")
		rep.Fail("mrsw-blocking-reader-admitted-with-writer", "BeginReadBlocking returned while a writer held the lock", replay())
		return
	default:
	}
	for k := 0; k < nR; k++ {
		emit("m.brb", "blocked")
	}
	emit("m.ew", c34Call(func() error { m.EndWrite(); return nil }))
	admitted := 0
	for admitted < nR {
		select {
		case <-done:
			admitted++
			emit("m.brb", "ok") // it keeps its read lock while the others are awaited
		case <-time.After(c34Wait(15 * time.Second)):
			c34Stuck.Store(true)
			rep.Fail("mrsw-blocked-acquirer-never-proceeds", fmt.Sprintf("a writer released the lock with %d blocking readers parked; %d of them were admitted, the others are still asleep 15 s later although no writer is active", nR, admitted), replay())
			// free the sleepers so that no goroutine is leaked: a read/unread pair ends in a Broadcast
			for i := 0; i < admitted; i++ {
				m.EndRead()
			}
			return
		}
	}
	for k := 0; k < nR; k++ {
		emit("m.er", c34Call(func() error { m.EndRead(); return nil }))
	}
	emit("m.state", fmt.Sprintf("%s %d", vfHex(m.owner), m.numReaders))
	return
}

func TestVerifC34(t *testing.T) {
	rep := vfNewReport("C34", "A: generated sequential op sequences (40-200 ops) over CheckAndSet, MultiRSW (try and blocking acquires, releases incl. protocol violations, upgrade) and ReadyTarget (subscribe/unsubscribe/signal/reset over indices 0-11), diffed exactly, non-trivial when a conflict, a really blocked acquirer and a woken waiter all occurred; B: concurrent runs with 2-4 goroutines per primitive and critical-section instrumentation")
	defer rep.Write()
	// checkpoint: findings so far plus a crash marker are on disk while goroutines that could
	// panic the process are running; the final Write (deferred) replaces it
	checkpoint := func() {
		n := len(rep.OracleFailures)
		rep.OracleFailures = append(rep.OracleFailures, vfOracleFailure{"process-crashed-during-run", "the test process ended before the run finished (panic in a non-test goroutine)", nil})
		rep.Write()
		rep.OracleFailures = rep.OracleFailures[:n]
	}
	r := vfNewRng(34)
	var allOps, allImpl [][]string
	// ---- several blocking readers parked behind a writer ----------------------------------
	for i := 0; i < vfScale(20, 600); i++ {
		ops, out := c34TwoParkedReaders(rep, r)
		allOps = append(allOps, ops)
		allImpl = append(allImpl, out)
		rep.Case("R:"+c34Key(ops), true)
		rep.Count("D:parked-reader-scenarios")
	}

	checkpoint()
	nA := vfScale(300, 30000)
	for i := 0; i < nA; i++ {
		ops, out := c34SeqA(rep, r, 40+r.Intn(vfScale(161, 400)))
		allOps = append(allOps, ops)
		allImpl = append(allImpl, out)
		j := strings.Join(out, " ")
		if len(allOps) >= 2000 { // compare in chunks (memory, thorough tier)
			rep.vfCompareSegments("rsync", allOps, allImpl)
			allOps, allImpl = nil, nil
		}
		rep.Case(c34Key(ops), strings.Contains(j, "conflict") && strings.Contains(j, "blocked") && strings.Contains(j, "true"))
		for _, k := range []string{"conflict", "blocked", "panic"} {
			rep.CountN("A:"+k, strings.Count(j, k))
		}
		if i < 2 {
			rep.Sample(map[string]interface{}{"part": "A", "ops": vfTrunc(ops)[:40], "impl": vfTrunc(out)[:40]})
		}
	}

	checkpoint()
	// ---- directed: parked blocking writers ----------------------------------------
	nD := vfScale(40, 1500)
	for i := 0; i < nD; i++ {
		ops, out := c34Directed(rep, r)
		allOps = append(allOps, ops)
		allImpl = append(allImpl, out)
		rep.Case("D:"+c34Key(ops), true)
		rep.Count("D:parked-writer-scenarios")
	}

	// ---- race: a reader slips in when one writer hands over to a parked blocking writer -----
	// W1 holds the write lock, W2 is parked in BeginWriteBlocking. W1's EndWrite and a reader's
	// BeginRead (retrying until it succeeds) leave a spin barrier together. Whoever wins, at the
	// moment BeginWriteBlocking returns the reader count must be 0 (the guard owner == "" &&
	// numReaders == 0 is re-checked as a whole on every wake-up).
	{
		rounds := vfScale(800, 150000)
		bad, firstBad := 0, -1
		for i := 0; i < rounds && bad < 3; i++ {
			m := NewMultiRSW()
			if err := m.BeginWrite("w1"); err != nil {
				t.Fatalf("w1: %v", err)
			}
			w2 := make(chan int, 1)
			go func() {
				m.BeginWriteBlocking("w2")
				m.mu.Lock()
				n := m.numReaders
				m.mu.Unlock()
				w2 <- n
			}()
			for k := 0; k < 50+r.Intn(200); k++ { // give W2 a moment to park (either way is fine)
				runtime.Gosched()
			}
			var go_ atomic.Int32
			var release atomic.Int32
			rd := make(chan struct{})
			go func() {
				defer close(rd)
				for go_.Load() == 0 {
					runtime.Gosched()
				}
				for m.BeginRead() != nil {
					runtime.Gosched()
				}
				for release.Load() == 0 {
					runtime.Gosched()
				}
				m.EndRead()
			}()
			go_.Store(1)
			m.EndWrite()
			var n int
			select {
			case n = <-w2: // W2 got in first, or wrongly got in with the reader inside
			case <-time.After(2 * time.Millisecond):
				// the reader got in first: W2 must wait for it; let the reader go
				release.Store(1)
				select {
				case n = <-w2:
				case <-time.After(20 * time.Second):
					rep.Fail("mrsw-blocked-acquirer-never-proceeds", "a parked blocking writer did not return within 20 s after writer and reader had left", map[string]interface{}{"round": i})
					bad = 3
					continue
				}
			}
			if n != 0 {
				bad++
				if firstBad < 0 {
					firstBad = i
				}
			}
			release.Store(1)
			m.EndWrite() // W2's
			<-rd
		}
		if firstBad >= 0 {
			rep.Fail("mrsw-blocking-writer-admitted-with-holders", fmt.Sprintf("round %d: writer W1 holds, blocking writer W2 parked; W1.EndWrite raced with a BeginRead; when W2's BeginWriteBlocking returned the reader count was not 0 (%d such rounds): a writer and a reader hold the lock together", firstBad, bad),
				map[string]interface{}{"round": firstBad, "scenario": "W1 := BeginWrite; go W2 := BeginWriteBlocking; barrier{ W1.EndWrite | reader: retry BeginRead until ok }; at W2's return numReaders must be 0"})
		}
		rep.Case("race:reader-at-writer-handover", true)
		rep.CountN("race:reader-at-writer-handover-rounds", rounds)
	}

	// ---- race: Subscribe(i) against Signal(i) ------------------------------------------
	// Two goroutines leave a spin barrier together, one subscribes to index i, the other
	// signals index i. Whatever the order, once BOTH calls have returned the channel must be
	// closed (Subscribe saw the index reached, or Signal found the subscriber). No timing
	// assumption: the close happens inside one of the two calls.
	{
		rounds := vfScale(15000, 1500000)
		rt := NewReadyTarget[uint64]()
		lost := 0
		firstLost := -1
		for i := 1; i <= rounds; i++ {
			var ready, go_ atomic.Int32
			var ch <-chan struct{}
			var wg sync.WaitGroup
			wg.Add(2)
			idx := uint64(i)
			go func() {
				defer wg.Done()
				ready.Add(1)
				for go_.Load() == 0 {
					runtime.Gosched()
				}
				ch = rt.Subscribe(idx)
			}()
			go func() {
				defer wg.Done()
				ready.Add(1)
				for go_.Load() == 0 {
					runtime.Gosched()
				}
				rt.Signal(idx)
			}()
			for ready.Load() < 2 {
				runtime.Gosched()
			}
			go_.Store(1)
			wg.Wait()
			if !c34Closed(ch) {
				lost++
				if firstLost < 0 {
					firstLost = i
				}
				if lost >= 3 {
					break
				}
			}
		}
		if lost > 0 {
			rep.Fail("waiter-not-woken-at-target", fmt.Sprintf("Subscribe(%d) raced with Signal(%d): both calls returned and the subscriber's channel is still open (index reached, waiter never woken); %d such rounds, %d subscribers left registered", firstLost, firstLost, lost, rt.Len()),
				map[string]interface{}{"round": firstLost, "scenario": "goroutine A: ch := Subscribe(i); goroutine B: Signal(i); released together from a spin barrier; after both returned ch must be closed"})
		}
		rep.Case("race:subscribe-vs-signal", true)
		rep.CountN("race:subscribe-vs-signal-rounds", rounds)
	}

	// ---- B: concurrent runs ------------------------------------------------------
	nB := vfScale(40, 2500)
	for run := 0; run < nB; run++ {
		checkpoint()
		g := 2 + r.Intn(3)
		iters := vfScale(150, 400)
		seeds := make([]uint64, g)
		for k := range seeds {
			seeds[k] = r.U64()
		}
		replay := map[string]interface{}{"run": run, "goroutines": g, "seed": vfSeed()}
		// B1: the gate
		{
			cas := NewCheckAndSet()
			var inCS, two, acquired atomic.Int64
			var wg sync.WaitGroup
			for k := 0; k < g; k++ {
				wg.Add(1)
				go func(k int) {
					defer wg.Done()
					pr := &vfRng{s: seeds[k]}
					for i := 0; i < iters; i++ {
						var err error
						if pr.Chance(30) {
							err = cas.BeginWithRetry(fmt.Sprint("g", k), time.Millisecond, 20*time.Microsecond)
						} else {
							err = cas.Begin(fmt.Sprint("g", k))
						}
						if err != nil {
							continue
						}
						if inCS.Add(1) != 1 {
							two.Add(1)
						}
						acquired.Add(1)
						for s := 0; s < pr.Intn(50); s++ {
							_ = cas.Owner()
						}
						inCS.Add(-1)
						cas.End()
					}
				}(k)
			}
			wg.Wait()
			if two.Load() > 0 {
				rep.Fail("cas-two-holders", fmt.Sprintf("%d times two goroutines were inside the gate together", two.Load()), replay)
			}
			if err := cas.Begin("after"); err != nil {
				rep.Fail("cas-not-free-after-all-ended", err.Error(), replay)
			}
			rep.CountN("B:cas-acquisitions", int(acquired.Load()))
		}
		// B2: the MRSW lock
		{
			m := NewMultiRSW()
			var readersIn, writersIn, bad, rAcq, wAcq atomic.Int64
			var wg sync.WaitGroup
			finished := make(chan struct{})
			for k := 0; k < g; k++ {
				wg.Add(1)
				go func(k int) {
					defer wg.Done()
					pr := &vfRng{s: seeds[k] ^ 0xabcdef}
					for i := 0; i < iters; i++ {
						switch pr.Intn(4) {
						case 0, 1:
							if pr.Bool() {
								if m.BeginRead() != nil {
									continue
								}
							} else {
								m.BeginReadBlocking()
							}
							readersIn.Add(1)
							if writersIn.Load() != 0 {
								bad.Add(1)
							}
							rAcq.Add(1)
							for s := 0; s < pr.Intn(30); s++ {
								_ = writersIn.Load()
							}
							readersIn.Add(-1)
							m.EndRead()
						default:
							if pr.Bool() {
								if m.BeginWrite("w") != nil {
									continue
								}
							} else {
								m.BeginWriteBlocking("w")
							}
							if writersIn.Add(1) != 1 || readersIn.Load() != 0 {
								bad.Add(1)
							}
							wAcq.Add(1)
							for s := 0; s < pr.Intn(30); s++ {
								_ = readersIn.Load()
							}
							writersIn.Add(-1)
							m.EndWrite()
						}
					}
				}(k)
			}
			go func() { wg.Wait(); close(finished) }()
			select {
			case <-finished:
				if bad.Load() > 0 {
					rep.Fail("mrsw-readers-and-writer-together", fmt.Sprintf("%d observations of a writer together with readers or another writer", bad.Load()), replay)
				}
				if m.numReaders != 0 || m.owner != "" {
					rep.Fail("mrsw-count-wrong-after-all-released", fmt.Sprintf("numReaders=%d owner=%q", m.numReaders, m.owner), replay)
				}
			case <-time.After(c34Wait(60 * time.Second)):
				c34Stuck.Store(true)
				rep.Fail("mrsw-blocked-acquirer-never-proceeds", "goroutines using blocking acquires did not finish within 60 s", replay)
			}
			rep.CountN("B:mrsw-read-acquisitions", int(rAcq.Load()))
			rep.CountN("B:mrsw-write-acquisitions", int(wAcq.Load()))
		}
		// B3: index waiters
		{
			rt := NewReadyTarget[uint64]()
			var announced atomic.Uint64
			var early, missed, woken atomic.Int64
			var wg sync.WaitGroup
			final := uint64(200)
			nWait := g * 6
			for k := 0; k < nWait; k++ {
				target := uint64(1 + r.Intn(int(final)))
				delay := time.Duration(r.Intn(400)) * time.Microsecond
				unsub := r.Chance(15)
				wg.Add(1)
				go func() {
					defer wg.Done()
					time.Sleep(delay)
					ch := rt.Subscribe(target)
					if unsub {
						rt.Unsubscribe(ch)
						return
					}
					select {
					case <-ch:
						woken.Add(1)
						if announced.Load() < target {
							early.Add(1)
						}
					case <-time.After(30 * time.Second):
						missed.Add(1)
					}
				}()
			}
			idx := uint64(0)
			for idx < final {
				idx += uint64(1 + r.Intn(15))
				if idx > final {
					idx = final
				}
				announced.Store(idx) // before Signal: a waiter woken by this Signal sees at least idx
				rt.Signal(idx)
				if r.Chance(30) {
					time.Sleep(time.Duration(r.Intn(100)) * time.Microsecond)
				}
				if r.Chance(20) {
					rt.Signal(idx - 1) // stale signal: must be ignored
				}
			}
			wg.Wait()
			if early.Load() > 0 {
				rep.Fail("waiter-woken-before-target", fmt.Sprintf("%d waiters were woken before their target was signalled", early.Load()), replay)
			}
			if missed.Load() > 0 {
				rep.Fail("waiter-not-woken-at-target", fmt.Sprintf("%d waiters were not woken within 30 s although their target was signalled", missed.Load()), replay)
			}
			if rt.Len() != 0 {
				rep.Fail("subscribers-left-after-final-signal", fmt.Sprint(rt.Len()), replay)
			}
			rep.CountN("B:waiters-woken", int(woken.Load()))
		}
		rep.Case(fmt.Sprintf("B:%d", run), true)
	}

	rep.vfCompareSegments("rsync", allOps, allImpl)
}

// c34Key identifies an op sequence by a 64-bit hash (keeps the distinct-case set small).
func c34Key(ops []string) string {
	h := fnv.New64a()
	for _, o := range ops {
		h.Write([]byte(o))
		h.Write([]byte{'\n'})
	}
	return fmt.Sprintf("%016x", h.Sum64())
}

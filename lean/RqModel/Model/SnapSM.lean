/-
Model of the store's snapshotting state machine (C04):
  store/store.go   fsmSnapshot (full / incremental decision, checkpoint into wal-staging,
                   OnRelease), fsmRestore, fsmApply(LOAD), ReadFrom (boot), Open (staging removed)
  store/fsm.go     FSMSnapshot.Persist / Release
  snapshot/sink.go Close (staged WALs moved into the snapshot), store.go Reap,
  snapshot/snapshot.go ResolveFiles, restore.go Restore (WALs replayed in order)

The logical database is the list of the ids of the write batches applied to it (a load/boot/
install replaces it by the content of the file that was loaded). A WAL segment records the content
it was cut from and the content it leads to; checkpointing it into any other database gives a
malformed file (`none`) — this is SQLite's behaviour as the correspondence run observes it
("database disk image is malformed") and the only property of segments the theorems use.

`fixed = true` is the code after the `fix:` commit (the staging directory is dropped whenever the
base database changes: full-snapshot path and fsmRestore); `fixed = false` the code before it.
-/
import RqModel.Model.Util
namespace RqModel.SnapSM
open RqModel.Util

abbrev C := List Nat

structure Seg where
  src : C
  dst : C
deriving DecidableEq, Repr

/-- checkpoint a WAL segment into a database -/
def applySeg (d : Option C) (g : Seg) : Option C :=
  match d with
  | some c => if c = g.src then some g.dst else none
  | none => none

inductive Snap where
  | full (c : C)
  | inc (segs : List Seg)
deriving DecidableEq, Repr

/-- log entries that change the database -/
inductive Entry where
  | write (w : Nat)
  | load (c : C)
deriving DecidableEq, Repr

structure SM where
  /-- the applied database (main file + live WAL) -/
  db : C := []
  /-- the main database file (state at the last checkpoint) -/
  file : C := []
  /-- wal-staging: compacted WAL segments not yet in a snapshot -/
  staged : List Seg := []
  /-- the snapshot store, oldest first -/
  snaps : List Snap := []
  fullNeeded : Bool := false
  /-- database-changing log entries after the newest snapshot's index -/
  tail : List Entry := []
  /-- command entries (writes, loads, no-ops) in the log after the newest snapshot -/
  cmds : Nat := 0
  /-- raft's FSM goroutine has applied a command since the process started (otherwise a
  user-requested snapshot answers "nothing new to snapshot") -/
  applied : Bool := true
deriving DecidableEq, Repr

/-- ResolveFiles + Restore of the newest snapshot (an empty store: the empty database) -/
def resolve (snaps : List Snap) : Option C :=
  snaps.foldl (fun acc s =>
    match s with
    | .full c => some c
    | .inc segs => segs.foldl applySeg acc) (some [])

def applyEntry (d : Option C) : Entry → Option C
  | .write w => d.map (· ++ [w])
  | .load c => d.map fun _ => c

/-- raft replays the log after the snapshot -/
def replay (d : Option C) (es : List Entry) : Option C := es.foldl applyEntry d

/-- how a snapshot attempt ends -/
inductive Outcome where
  /-- raft persisted it and the sink installed it -/
  | ok
  /-- raft released it without calling Persist (e.g. a configuration change is in flight) -/
  | notInvoked
  /-- Persist failed before the sink consumed the staging directory -/
  | failBefore
  /-- the sink consumed the staging directory and then failed -/
  | failAfter
deriving DecidableEq, Repr

inductive Op where
  | write (w : Nat)
  | noop
  | snapshot (o : Outcome)
  | load (c : C)
  | boot (c : C)
  /-- a snapshot received from the leader is installed: sink, then fsmRestore -/
  | install (c : C)
  | reap
  | restart
deriving DecidableEq, Repr

def fullDue (s : SM) : Bool := s.fullNeeded || s.snaps.isEmpty

/-- fsmSnapshot + Persist/Release -/
def snapshot (fixed : Bool) (s : SM) (o : Outcome) : SM × String :=
  if o = .ok && !s.applied then (s, "nothing")
  else if fullDue s then
    -- full: [fix: drop stale staged segments, and require a full until one is installed]
    let s := if fixed && !s.staged.isEmpty then { s with staged := [], fullNeeded := true } else s
    let s := { s with file := s.db }
    match o with
    | .ok => ({ s with snaps := s.snaps ++ [.full s.db], fullNeeded := false, tail := [], cmds := 0 }, "full")
    | _ => (s, "full-not-installed")
  else if s.db = s.file then (s, "nowal")
  else
    let s := { s with staged := s.staged ++ [⟨s.file, s.db⟩], file := s.db }
    match o with
    | .ok => ({ s with snaps := s.snaps ++ [.inc s.staged], staged := [], tail := [], cmds := 0 }, "incremental")
    | .notInvoked => (s, "incremental-not-installed")
    | .failBefore => (s, "incremental-not-installed")
    | .failAfter => ({ s with staged := [], fullNeeded := true }, "incremental-not-installed")

def step (fixed : Bool) (s : SM) : Op → SM × String
  | .write w =>
    ({ s with db := s.db ++ [w], tail := s.tail ++ [.write w], cmds := s.cmds + 1, applied := true }, "ok")
  | .noop => ({ s with cmds := s.cmds + 1, applied := true }, "ok")
  | .snapshot o => snapshot fixed s o
  | .load c =>
    ({ s with db := c, file := c, fullNeeded := true, tail := s.tail ++ [.load c], cmds := s.cmds + 1, applied := true }, "ok")
  | .boot c =>
    -- noop entry, swap, SetDueNext(Full), Snapshot (full, installed)
    let s := { s with db := c, file := c, fullNeeded := true, cmds := s.cmds + 1, applied := true }
    ((snapshot fixed s .ok).1, "ok")
  | .install c =>
    let s := { s with snaps := s.snaps ++ [.full c], fullNeeded := false, db := c, file := c, tail := [], cmds := 0 }
    (if fixed then { s with staged := [] } else s, "ok")
  | .reap =>
    match resolve s.snaps with
    | some c => if s.snaps.length > 1 then ({ s with snaps := [.full c] }, "ok") else (s, "ok")
    | none => (s, "ok")
  | .restart =>
    -- Open removes wal-staging; raft restores the newest snapshot and replays the log after it
    match resolve s.snaps, replay (resolve s.snaps) s.tail with
    | some r, some c => ({ s with db := c, file := r, staged := [], applied := decide (s.cmds > 0) }, "ok")
    | _, _ => (s, "corrupt")

def run (fixed : Bool) (s : SM) (ops : List Op) : SM := ops.foldl (fun s o => (step fixed s o).1) s

end RqModel.SnapSM

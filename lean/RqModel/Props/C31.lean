/-
C31  Shutdown waits for an in-flight snapshot/backup/integrity check only as
long as needed.

Property theorems only. Model: RqModel/Model/CasRetry.lean. The call-site
arguments of `(*Store).Close` are REGENERATED from store/store.go on every
check run (`RqModel.Gen.Consts.closeCasTimeoutNs/closeCasRetryNs`) and the
property theorems are stated over those regenerated values.
-/
import RqModel.Lemmas.CasRetry
import RqModel.Gen.Consts
import RqModel.Gen.QueueSvc
import RqModel.Gen.SnapshotLock
import RqModel.Lemmas.LockFacts
namespace C31
open RqModel.CasRetry

/-! ### the retry loop, any arguments -/

/-- **Acquired within one retry interval of the release.** If `BeginWithRetry`
returns success at time `t`, the gate was free at `t`, and `t` is the start if
the gate was already free then, otherwise less than one retry interval after
the release. -/
theorem acquired_within_interval_of_release (start : Nat) (timeout interval : Int) (r t : Nat)
    (h : beginWithRetry start timeout interval (some r) = .acquired t) :
    max start r ≤ t ∧ t < max start r + effInterval interval ∧ (r ≤ start → t = start) := by
  obtain ⟨h1, h2, h3⟩ := loop_acquired _ _ _ _ _ _ h
  have hiv := effInterval_pos interval
  simp only [free, decide_eq_true_eq] at h1
  rcases h3 with h3 | ⟨h3, h4, _⟩
  · subst h3; omega
  · simp only [free, decide_eq_false_iff_not] at h4
    omega

/-- **Fails only if still held past the timeout.** If `BeginWithRetry` gives up at
time `t`, then `t` is after the deadline `start + timeout` (at most one interval
after it) and the gate was still held at `t`. -/
theorem fails_only_if_held_past_timeout (start : Nat) (timeout interval : Int) (rel : Option Nat) (t : Nat)
    (h : beginWithRetry start timeout interval rel = .timedOut t) :
    start + timeout.toNat < t ∧ t ≤ start + timeout.toNat + effInterval interval ∧
    (∀ r, rel = some r → t < r) := by
  have hiv := effInterval_pos interval
  have hf := fuel_enough timeout.toNat (effInterval interval) hiv
  obtain ⟨h1, h2, h3, _⟩ := loop_timedOut _ _ _ _ _ _ _ rfl (by omega) (by omega) h
  refine ⟨h1, h3, ?_⟩
  intro r hr
  subst hr
  simp only [free, decide_eq_false_iff_not] at h2
  omega

/-- a holder that releases by the deadline never makes the call fail -/
theorem released_by_deadline_acquires (start : Nat) (timeout interval : Int) (r : Nat)
    (hr : r ≤ start + timeout.toNat) :
    ∃ t, beginWithRetry start timeout interval (some r) = .acquired t := by
  cases h : beginWithRetry start timeout interval (some r) with
  | acquired t => exact ⟨t, rfl⟩
  | timedOut t =>
    obtain ⟨h1, _, h3⟩ := fails_only_if_held_past_timeout _ _ _ _ _ h
    have := h3 r rfl
    omega

example : beginWithRetry 0 100 30 (some 50) = .acquired 60 ∧
          beginWithRetry 0 100 30 none = .timedOut 120 ∧
          beginWithRetry 0 100 30 (some 110) = .acquired 120 ∧
          beginWithRetry 7 100 30 (some 3) = .acquired 7 := by decide

/-! ### other contenders for the gate (snapshot, backup, integrity check come and go) -/

/-- **With contenders, `BeginWithRetry` takes the gate at the first poll that finds it
free**, and every earlier poll (at `start, start+interval, ...`, all before the deadline
check fails) found it held by somebody. -/
theorem contended_acquires_at_first_free_poll (start : Nat) (timeout interval : Int) (held : Nat → Bool) (t : Nat)
    (h : beginWithRetryH start timeout interval held = .acquired t) :
    held t = false ∧ ∃ n, t = start + n * effInterval interval ∧
      ∀ j, j < n → held (start + j * effInterval interval) = true :=
  let ⟨h1, n, hx, hall⟩ := loopH_acquired _ _ _ _ _ _ h
  ⟨h1, n, hx, fun j hj => (hall j hj).1⟩

/-- **With contenders, it gives up only after the deadline, and only if every poll —
including one after the deadline — found the gate held.** -/
theorem contended_fails_only_if_every_poll_held (start : Nat) (timeout interval : Int) (held : Nat → Bool) (t : Nat)
    (h : beginWithRetryH start timeout interval held = .timedOut t) :
    start + timeout.toNat < t ∧ t ≤ start + timeout.toNat + effInterval interval ∧
    ∃ n, t = start + n * effInterval interval ∧ ∀ j, j ≤ n → held (start + j * effInterval interval) = true := by
  have hiv := effInterval_pos interval
  have hf := fuel_enough timeout.toNat (effInterval interval) hiv
  obtain ⟨h1, _, h3, n, hx, hall⟩ := loopH_timedOut _ _ _ _ _ _ _ rfl (by omega) (by omega) h
  exact ⟨h1, h3, n, hx, hall⟩

/-- once the gate stays free from `r` on (the last contender has finished), it is obtained
less than one retry interval after `max start r` and the call cannot fail if `r` is
within the timeout -/
theorem contended_prompt_once_free (start : Nat) (timeout interval : Int) (held : Nat → Bool) (r : Nat)
    (hfree : ∀ t, r ≤ t → held t = false) :
    (∀ t, beginWithRetryH start timeout interval held = .acquired t →
      t < max start r + effInterval interval) ∧
    (r ≤ start + timeout.toNat → ∃ t, beginWithRetryH start timeout interval held = .acquired t) := by
  have hiv := effInterval_pos interval
  constructor
  · intro t h
    obtain ⟨_, n, hx, hall⟩ := contended_acquires_at_first_free_poll _ _ _ _ _ h
    cases n with
    | zero => simp at hx; omega
    | succ m =>
      have hm := hall m (by omega)
      have hlt : start + m * effInterval interval < r := by
        rcases Nat.lt_or_ge (start + m * effInterval interval) r with h' | h'
        · exact h'
        · rw [hfree _ h'] at hm; cases hm
      rw [Nat.succ_mul] at hx
      omega
  · intro hr
    cases h : beginWithRetryH start timeout interval held with
    | acquired t => exact ⟨t, rfl⟩
    | timedOut t =>
      obtain ⟨h1, _, n, hx, hall⟩ := contended_fails_only_if_every_poll_held _ _ _ _ _ h
      have := hall n (Nat.le_refl _)
      rw [← hx, hfree t (by omega)] at this
      cases this

/-- "the retry gives up only if the gate was held the whole time" -/
def C31_contended_full : Prop :=
  ∀ (start : Nat) (timeout interval : Int) (held : Nat → Bool) (t : Nat),
    beginWithRetryH start timeout interval held = .timedOut t →
    ∀ u, start ≤ u → u ≤ t → held u = true

/-- what is true instead: held at every POLL instant (`contended_fails_only_if_every_poll_held`);
between polls the gate may have been free: -/
theorem contended_witness : ¬ C31_contended_full := by
  intro h
  have := h 0 30 10 (fun t => t % 10 == 0) 40 (by decide) 5 (by decide) (by decide)
  revert this
  decide

/-- what the property's single-holder reading does NOT exclude: contenders that happen to
hold the gate at every poll instant (here: at every multiple of the interval) make the call
fail although the gate was free in between and no single operation ran for long -/
theorem contenders_can_starve_witness :
    beginWithRetryH 0 30 10 (fun t => t % 10 == 0) = .timedOut 40 := by decide

/-! ### `Store.Close`, with the arguments found in the current sources -/

/-- the arguments `Close` passes, as extracted: `BeginWithRetry("close", timeout, retryInterval)` -/
theorem close_args :
    RqModel.Gen.Consts.closeCasTimeoutNs = some 10000000000 ∧
    RqModel.Gen.Consts.closeCasRetryNs = some 10000000 := by decide

/-- the gate acquisition performed by `Close` started at `start` -/
def closeGate (start : Nat) (rel : Option Nat) : Outcome :=
  beginWithRetry start (RqModel.Gen.Consts.closeCasTimeoutNs.getD 0)
    (RqModel.Gen.Consts.closeCasRetryNs.getD 0) rel

/-- one second and ten seconds, in ns -/
def second : Nat := 1000000000

/-- **Close proceeds promptly once the operation finishes.** With the call-site
arguments of the current sources: if the gate holder releases at `r`, `Close`
obtains the gate no later than one second after `max start r` (in fact within
the 10 ms retry interval), and it does obtain it whenever the holder releases
within ten seconds of the call. -/
theorem close_prompt_after_release (start r : Nat) :
    (∀ t, closeGate start (some r) = .acquired t → max start r ≤ t ∧ t < max start r + second) ∧
    (r ≤ start + 10 * second → ∃ t, closeGate start (some r) = .acquired t) := by
  constructor
  · intro t h
    obtain ⟨h1, h2, _⟩ := acquired_within_interval_of_release _ _ _ _ _ h
    have hiv : effInterval (RqModel.Gen.Consts.closeCasRetryNs.getD 0) ≤ second := by decide
    exact ⟨h1, by omega⟩
  · intro hr
    apply released_by_deadline_acquires
    have : (RqModel.Gen.Consts.closeCasTimeoutNs.getD 0).toNat = 10 * second := by decide
    omega

/-- **Close fails only if the operation is still running after about ten
seconds**: a failure happens strictly after `start + 10 s`, at most one retry
interval (10 ms) later, and the holder had not released by then. -/
theorem close_fails_only_after_limit (start : Nat) (rel : Option Nat) (t : Nat)
    (h : closeGate start rel = .timedOut t) :
    start + 10 * second < t ∧ t ≤ start + 10 * second + second / 100 ∧ (∀ r, rel = some r → t < r) := by
  obtain ⟨h1, h2, h3⟩ := fails_only_if_held_past_timeout _ _ _ _ _ h
  have e1 : (RqModel.Gen.Consts.closeCasTimeoutNs.getD 0).toNat = 10 * second := by decide
  have e2 : effInterval (RqModel.Gen.Consts.closeCasRetryNs.getD 0) = second / 100 := by decide
  rw [e1] at h1 h2
  rw [e2] at h2
  exact ⟨h1, h2, h3⟩

/-- the statement that is FALSE for the call as it was before the repair
(`BeginWithRetry("close", 10*time.Millisecond, 10*time.Second)`: arguments swapped):
a holder released 50 ms after `Close` starts delays `Close` by ten seconds. -/
theorem swapped_args_witness :
    beginWithRetry 0 10000000 10000000000 (some 50000000) = .acquired 10000000000 := by decide

/-- every `BeginWithRetry` call site in store/ (Close and Backup) passes a positive retry
interval that is shorter than its timeout — i.e. none has the two arguments swapped -/
theorem every_retry_call_site_ordered :
    RqModel.Gen.QueueSvc.beginWithRetryCalls.length = 2 ∧
    ∀ c ∈ RqModel.Gen.QueueSvc.beginWithRetryCalls, 0 < c.2.2 ∧ c.2.2 * 10 ≤ c.2.1 := by decide

/-- **Every operation that relies on the gate holds it itself** (regenerated from store/):
Backup, Close, the startup integrity check and the snapshot each take `s.snapshotCAS`
unconditionally — none skips the acquisition depending on who currently owns the gate, and
nothing reads the gate's owner to decide anything. This is what makes "the gate is held"
mean "an operation is in flight" (one holder, C34.cas_at_most_one_holder), which the Close
theorems rely on when they say Close waits for *that operation*. -/
theorem gate_users_hold_it_themselves :
    RqModel.Gen.SnapshotLock.gateAcquisitions =
      ["Backup:BeginWithRetry:\"backup\":conditional=false", "Close:BeginWithRetry:\"close\":conditional=false",
       "Open:Begin:\"check-clean-snapshot\":conditional=false", "fsmSnapshot:Begin:\"snapshot\":conditional=false"] ∧
    RqModel.Gen.SnapshotLock.gateOwnerReaders = [] := by decide

/-- the retry loop as it stands in the current sources (regenerated): deadline computed once
before the loop; each iteration tries `Begin`, returns on success, gives up when the deadline
has passed (strict `After`), otherwise sleeps `retryInterval` — the steps of `loop` in the model -/
theorem retry_loop_body :
    RqModel.Gen.SnapshotLock.beginWithRetryBody =
      ["before: deadline := time.Now().Add(timeout)", "err := c.Begin(owner)", "if err == nil",
       "if !errors.Is(err, ErrCASConflict)", "if time.Now().After(deadline)", "time.Sleep(retryInterval)"] := by
  decide

/-- `Close` with the arguments of the current sources against an arbitrary schedule of other
gate users: once the gate stays free from `r` on, `Close` has it within a second of
`max start r`, and it cannot fail if `r` is within ten seconds of the call. -/
theorem close_contended_prompt_once_free (start r : Nat) (held : Nat → Bool)
    (hfree : ∀ t, r ≤ t → held t = false) :
    (∀ t, beginWithRetryH start (RqModel.Gen.Consts.closeCasTimeoutNs.getD 0)
        (RqModel.Gen.Consts.closeCasRetryNs.getD 0) held = .acquired t → t < max start r + second) ∧
    (r ≤ start + 10 * second → ∃ t, beginWithRetryH start (RqModel.Gen.Consts.closeCasTimeoutNs.getD 0)
        (RqModel.Gen.Consts.closeCasRetryNs.getD 0) held = .acquired t) := by
  obtain ⟨h1, h2⟩ := contended_prompt_once_free start (RqModel.Gen.Consts.closeCasTimeoutNs.getD 0)
    (RqModel.Gen.Consts.closeCasRetryNs.getD 0) held r hfree
  have hiv : effInterval (RqModel.Gen.Consts.closeCasRetryNs.getD 0) ≤ second := by decide
  have hto : (RqModel.Gen.Consts.closeCasTimeoutNs.getD 0).toNat = 10 * second := by decide
  exact ⟨fun t h => by have := h1 t h; omega, fun hr => h2 (by omega)⟩

/-- `BeginWithRetry` itself takes no lock: it is a loop around `Begin` -/
theorem retry_is_a_loop_around_begin :
    RqModel.LockFacts.shape "internal/rsync.CheckAndSet.BeginWithRetry" = some ["assign", "for"] ∧
    RqModel.LockFacts.wholeBody "internal/rsync.CheckAndSet.Begin" = true := by decide

end C31

/-
C09: listing order, resolution of listed snapshots, and reap inside operation sequences (bridge from
the catalog invariant to C07's well-formedness `WF`).
-/
import RqModel.Lemmas.SnapCat
import RqModel.Lemmas.SnapFSComplete
set_option linter.unusedSimpArgs false
set_option linter.unusedVariables false
namespace RqModel.SnapCat
open RqModel.SnapFS
variable {D : Type}
/-- file-level facts about a store state (independent of the catalog order) -/
structure FsInv (s : CS D) : Prop where
  named : ∀ n d, s.fs.dir n = some d → n ∈ s.fs.names
  nodup : s.fs.names.Nodup
  noPlanTmp : s.fs.planTmp = false
  dws : ∀ n d, Live s.fs n d → (d.dbWal = none ∨ d.dbWal = some 0) ∧ (d.db = none → d.dbWal = none) ∧ d.wals.Nodup
  sinkNamed : ∀ h k, getSink s h = some k → k.opened = true → k.name ∈ s.fs.names
  sinkWals : ∀ h k, getSink s h = some k → k.opened = true →
    (∀ ws, k.hdr = .inc ws → ws.Nodup) ∧ (∀ d ws v, k.hdr = .full d ws v → ws.Nodup)

/-- side conditions including those of a reap -/
def OpOK' (s : CS D) : COp D → Prop
  | .reap nn => (∀ h k, getSink s h = some k → k.opened = false) ∧ s.fs.dir nn = none ∧ nn ∉ s.fs.names
  | .wfull _ _ ws _ => ws.Nodup
  | .winc _ ws => ws ≠ [] ∧ ws.Nodup
  | .create h name index term => OpOK s (.create h name index term) ∧ name ∉ s.fs.names
  | op => OpOK s op

theorem fsInv_empty : FsInv ({} : CS D) where
  named n d h := by cases h
  nodup := List.nodup_nil
  noPlanTmp := rfl
  dws n d h := by cases h.1
  sinkNamed h k hk := by simp [getSink] at hk
  sinkWals h k hk := by simp [getSink] at hk

/-- replacing the directory of a known name -/
theorem FsInv.set_dir {s : CS D} (hs : FsInv s) (n : Nat) (v : Option (Dir D)) (hn : n ∈ s.fs.names) (b : Bool)
    (hv : ∀ d, v = some d → d.tmp = false →
      (d.dbWal = none ∨ d.dbWal = some 0) ∧ (d.db = none → d.dbWal = none) ∧ d.wals.Nodup)
    (sinks : List (Nat × Sink D)) (g : Nat)
    (hsinks : ∀ h k, getSink ({ fs := s.fs, sinks := sinks } : CS D) h = some k → k.opened = true →
      getSink s h = some k) :
    FsInv { fs := { s.fs.set n v with fullNeeded := b }, sinks := sinks, fnGen := g } where
  named n' d h := by
    by_cases e : n' = n
    · subst e; exact hn
    · simp [FS.set, e] at h; exact hs.named n' d h
  nodup := hs.nodup
  noPlanTmp := hs.noPlanTmp
  dws n' d h := by
    by_cases e : n' = n
    · subst e
      obtain ⟨h1, h2⟩ := h
      simp only [FS.set, if_true] at h1
      exact hv d h1 h2
    · exact hs.dws n' d ((live_set_other e).1 h)
  sinkNamed h k hk ho := hs.sinkNamed h k (hsinks h k hk ho) ho
  sinkWals h k hk ho := hs.sinkWals h k (hsinks h k hk ho) ho


/-- only the sink table changes -/
theorem FsInv.same_fs {s t : CS D} (hs : FsInv s) (hfs : t.fs = s.fs)
    (hn : ∀ h k, getSink t h = some k → k.opened = true → k.name ∈ s.fs.names)
    (hw : ∀ h k, getSink t h = some k → k.opened = true →
      (∀ ws, k.hdr = .inc ws → ws.Nodup) ∧ (∀ d ws v, k.hdr = .full d ws v → ws.Nodup)) : FsInv t where
  named := by rw [hfs]; exact hs.named
  nodup := by rw [hfs]; exact hs.nodup
  noPlanTmp := by rw [hfs]; exact hs.noPlanTmp
  dws := by rw [hfs]; exact hs.dws
  sinkNamed h k hk ho := by rw [hfs]; exact hn h k hk ho
  sinkWals := hw

theorem finalDir_good {s : CS D} (hs : FsInv s) {h : Nat} {k : Sink D} (hk : getSink s h = some k) (ho : k.opened = true)
    {fd : Dir D} (hf : finalDir k = some fd) :
    (fd.dbWal = none ∨ fd.dbWal = some 0) ∧ (fd.db = none → fd.dbWal = none) ∧ fd.wals.Nodup := by
  obtain ⟨w1, w2⟩ := hs.sinkWals h k hk ho
  unfold finalDir at hf
  split at hf
  · rename_i d ws hh; cases hf; exact ⟨Or.inl rfl, fun _ => rfl, w2 d ws _ hh⟩
  · rename_i ws hh; cases hf; exact ⟨Or.inl rfl, fun _ => rfl, w1 ws hh⟩
  · cases hf

theorem sinks_after_put {s : CS D} {h : Nat} {kc : Sink D} (hkc : kc.opened = false) :
    ∀ h' k', getSink ({ fs := s.fs, sinks := (putSink s h kc).sinks } : CS D) h' = some k' → k'.opened = true →
      getSink s h' = some k' := by
  intro h' k' hk' ho'
  have : getSink (putSink s h kc) h' = some k' := hk'
  rw [getSink_putSink] at this
  split at this
  · cases this; rw [hkc] at ho'; cases ho'
  · exact this

theorem no_sinks_nil (s : CS D) :
    ∀ h' k', getSink ({ fs := s.fs, sinks := [] } : CS D) h' = some k' → k'.opened = true → getSink s h' = some k' := by
  intro h' k' hk'; simp [getSink] at hk'

theorem mem_addName {ns : List Nat} {n m : Nat} (h : m ∈ ns ∨ m = n) : m ∈ addName ns n := by
  unfold addName
  split
  · rename_i hc
    rcases h with h | rfl
    · exact h
    · simpa using hc
  · rcases h with h | rfl
    · simp [h]
    · simp

/-- every operation except reap keeps the file-level facts -/
theorem fsInv_step (A : DbAlg D) {s : CS D} (hs : FsInv s) (hc : CatInv s) (op : COp D) (hok : OpOK' s op)
    (hnr : ∀ nn, op ≠ .reap nn) : FsInv (stepOp A s op).1 := by
  cases op with
  | reap nn => exact absurd rfl (hnr nn)
  | create h name index term =>
    obtain ⟨⟨hfresh, hclosed, _⟩, hnn⟩ := hok
    simp only [stepOp, create]
    refine ⟨?_, ?_, hs.noPlanTmp, ?_, ?_, ?_⟩
    · intro n' d hd
      by_cases e : n' = name
      · subst e; exact mem_addName (Or.inr rfl)
      · simp [putSink, FS.set, e] at hd
        exact mem_addName (Or.inl (hs.named n' d hd))
    · show (addName s.fs.names name).Nodup
      have : s.fs.names.contains name = false := by simpa using hnn
      simp only [addName, this, Bool.false_eq_true, if_false]
      rw [List.nodup_append]
      exact ⟨hs.nodup, by simp, by intro a ha b hb; simp at hb; subst hb; exact fun e => hnn (e ▸ ha)⟩
    · intro n' d hl
      have : Live s.fs n' d := by
        refine (live_set_tmp (fs := s.fs) (n := name) (v := some { tmp := true })
          (fun d hd => by rw [hfresh] at hd; cases hd) (fun d hd => by cases hd; rfl) n' d).1 ?_
        exact hl
      exact hs.dws n' d this
    · intro h' k' hk' ho'
      rw [getSink_putSink] at hk'
      split at hk'
      · cases hk'; exact mem_addName (Or.inr rfl)
      · exact absurd (hclosed h' k' hk') (by simp [ho'])
    · intro h' k' hk' ho'
      rw [getSink_putSink] at hk'
      split at hk'
      · cases hk'; exact ⟨(fun ws e => by cases e), (fun d ws v e => by cases e)⟩
      · exact absurd (hclosed h' k' hk') (by simp [ho'])
  | wfull h d ws v =>
    simp only [stepOp, writeFull]
    cases hk : getSink s h with
    | none => exact hs
    | some k =>
      simp only
      cases hh : k.hdr with
      | none =>
        apply hs.same_fs (t := putSink s h { k with hdr := .full d ws v }) rfl
        · intro h' k' hk' ho'
          rw [getSink_putSink] at hk'
          split at hk'
          · cases hk'; rename_i e; subst e; exact hs.sinkNamed _ k hk ho'
          · exact hs.sinkNamed h' k' hk' ho'
        · intro h' k' hk' ho'
          rw [getSink_putSink] at hk'
          split at hk'
          · cases hk'; exact ⟨(fun ws' e => by cases e), (fun d' ws' v' e => by cases e; exact hok)⟩
          · exact hs.sinkWals h' k' hk' ho'
      | rejected => exact hs
      | full _ _ _ => exact hs
      | inc _ => exact hs
  | winc h ws =>
    simp only [stepOp, writeInc]
    cases hk : getSink s h with
    | none => exact hs
    | some k =>
      simp only
      cases hh : k.hdr with
      | none =>
        simp only
        have put : ∀ hdr : Hdr D, ((∀ ws', hdr = .inc ws' → ws'.Nodup) ∧ (∀ d ws' v, hdr = .full d ws' v → ws'.Nodup)) →
            FsInv (putSink s h { k with hdr := hdr }) := by
          intro hdr hgood
          apply hs.same_fs (t := putSink s h { k with hdr := hdr }) rfl
          · intro h' k' hk' ho'
            rw [getSink_putSink] at hk'
            split at hk'
            · cases hk'; rename_i e; subst e; exact hs.sinkNamed _ k hk ho'
            · exact hs.sinkNamed h' k' hk' ho'
          · intro h' k' hk' ho'
            rw [getSink_putSink] at hk'
            split at hk'
            · cases hk'; exact hgood
            · exact hs.sinkWals h' k' hk' ho'
        split
        · exact put _ ⟨(fun ws' e => by cases e), (fun d ws' v e => by cases e)⟩
        · exact put _ ⟨(fun ws' e => by cases e; exact hok.2), (fun d ws' v e => by cases e)⟩
      | rejected => exact hs
      | full _ _ _ => exact hs
      | inc _ => exact hs
  | close h =>
    simp only [stepOp, close]
    cases hk : getSink s h with
    | none => exact hs
    | some k =>
      simp only
      cases ho : k.opened with
      | false => exact hs
      | true =>
        simp only [Bool.not_true, Bool.false_eq_true, if_false]
        have hn := hs.sinkNamed h k hk ho
        have drop : ∀ (kc : Sink D), kc.opened = false → ∀ (v : Option (Dir D)) (b : Bool), (∀ d, v = some d → d.tmp = false →
              (d.dbWal = none ∨ d.dbWal = some 0) ∧ (d.db = none → d.dbWal = none) ∧ d.wals.Nodup) →
            FsInv { fs := { s.fs.set k.name v with fullNeeded := b }, sinks := (putSink s h kc).sinks, fnGen := s.fnGen } :=
          fun kc hkc v b hv => hs.set_dir k.name v hn b hv _ _ (sinks_after_put hkc)
        have keepfs : ∀ (kc : Sink D), kc.opened = false → FsInv (putSink s h kc) := by
          intro kc hkc
          apply hs.same_fs (t := putSink s h kc) rfl
          · intro h' k' hk' ho'
            exact hs.sinkNamed h' k' (sinks_after_put (s := s) (h := h) (kc := kc) hkc h' k' hk' ho') ho'
          · intro h' k' hk' ho'
            exact hs.sinkWals h' k' (sinks_after_put (s := s) (h := h) (kc := kc) hkc h' k' hk' ho') ho'
        cases hh : k.hdr with
        | none => exact drop _ rfl none s.fs.fullNeeded (fun d e => by cases e)
        | rejected => exact drop _ rfl none s.fs.fullNeeded (fun d e => by cases e)
        | full d ws v =>
          cases v with
          | short => exact keepfs _ rfl
          | badcrc => exact keepfs _ rfl
          | ok =>
            have hf : finalDir k = some { tmp := false, mt := some k.mt, db := some d, crc := some d, wals := ws } := by
              simp [finalDir, hh]
            simp only [hf]
            exact drop _ rfl _ _ (fun d' e _ => by cases e; exact finalDir_good hs hk ho hf)
        | inc ws =>
          simp only
          split
          · exact drop _ rfl none s.fs.fullNeeded (fun d e => by cases e)
          · have hf : finalDir k = some { tmp := false, mt := some k.mt, wals := ws } := by simp [finalDir, hh]
            simp only [hf]
            exact drop _ rfl _ _ (fun d' e _ => by cases e; exact finalDir_good hs hk ho hf)
  | closeRenameFails h =>
    simp only [stepOp, closeRenameFails]
    cases hk : getSink s h with
    | none => exact hs
    | some k =>
      simp only
      cases ho : k.opened with
      | false => exact hs
      | true =>
        simp only [Bool.not_true, Bool.false_eq_true, if_false]
        have hn := hs.sinkNamed h k hk ho
        have drop : ∀ (kc : Sink D), kc.opened = false →
            FsInv { fs := { s.fs.set k.name none with fullNeeded := s.fs.fullNeeded }, sinks := (putSink s h kc).sinks, fnGen := s.fnGen } :=
          fun kc hkc => hs.set_dir k.name none hn _ (fun d e => by cases e) _ _ (sinks_after_put hkc)
        have keepfs : ∀ (kc : Sink D), kc.opened = false → FsInv (putSink s h kc) := by
          intro kc hkc
          apply hs.same_fs (t := putSink s h kc) rfl
          · intro h' k' hk' ho'
            exact hs.sinkNamed h' k' (sinks_after_put (s := s) (h := h) (kc := kc) hkc h' k' hk' ho') ho'
          · intro h' k' hk' ho'
            exact hs.sinkWals h' k' (sinks_after_put (s := s) (h := h) (kc := kc) hkc h' k' hk' ho') ho'
        cases hh : k.hdr with
        | none => exact drop _ rfl
        | rejected => exact drop _ rfl
        | full d ws v => cases v <;> exact keepfs _ rfl
        | inc ws =>
          simp only
          split
          · exact drop _ rfl
          · exact keepfs _ rfl
  | cancel h =>
    simp only [stepOp, cancel]
    cases hk : getSink s h with
    | none => exact hs
    | some k =>
      simp only
      cases ho : k.opened with
      | false => exact hs
      | true =>
        simp only [Bool.not_true, Bool.false_eq_true, if_false]
        have hn := hs.sinkNamed h k hk ho
        have drop : ∀ (kc : Sink D), kc.opened = false →
            FsInv { fs := { s.fs.set k.name none with fullNeeded := s.fs.fullNeeded }, sinks := (putSink s h kc).sinks, fnGen := s.fnGen } :=
          fun kc hkc => hs.set_dir k.name none hn _ (fun d e => by cases e) _ _ (sinks_after_put hkc)
        have keepfs : ∀ (kc : Sink D), kc.opened = false → FsInv (putSink s h kc) := by
          intro kc hkc
          apply hs.same_fs (t := putSink s h kc) rfl
          · intro h' k' hk' ho'
            exact hs.sinkNamed h' k' (sinks_after_put (s := s) (h := h) (kc := kc) hkc h' k' hk' ho') ho'
          · intro h' k' hk' ho'
            exact hs.sinkWals h' k' (sinks_after_put (s := s) (h := h) (kc := kc) hkc h' k' hk' ho') ho'
        cases hh : k.hdr with
        | none => exact drop _ rfl
        | rejected => exact drop _ rfl
        | full d ws v =>
          cases v with
          | short => exact keepfs _ rfl
          | badcrc => exact keepfs _ rfl
          | ok => exact drop _ rfl
        | inc ws => exact drop _ rfl
  | setFull =>
    simp only [stepOp, setFull]
    exact ⟨hs.named, hs.nodup, hs.noPlanTmp, hs.dws, hs.sinkNamed, hs.sinkWals⟩
  | reopen =>
    simp only [stepOp, reopen]
    have hcheck : check A s.fs = .ok (rmTmpDirs { s.fs with planTmp := false }) := by
      simp [check, hc.noPlan]
    simp only [hcheck]
    refine ⟨?_, hs.nodup, rfl, ?_, ?_, ?_⟩
    · intro n d hd
      simp only [rmTmpDirs] at hd
      cases hdir : s.fs.dir n with
      | none => simp [hdir] at hd
      | some d0 => exact hs.named n d0 hdir
    · intro n d hl
      exact hs.dws n d ((live_rmTmpDirs _ n d).1 hl)
    · intro h k hk; simp [getSink] at hk
    · intro h k hk; simp [getSink] at hk
  | crashClose h c =>
    simp only [stepOp, crashClose]
    cases hk : getSink s h with
    | none => exact ⟨hs.named, hs.nodup, hs.noPlanTmp, hs.dws, (fun h k hk => by simp [getSink] at hk), (fun h k hk => by simp [getSink] at hk)⟩
    | some k =>
      obtain ⟨ho, _⟩ := hok k hk
      have hn := hs.sinkNamed h k hk ho
      simp only
      have setd : ∀ v : Option (Dir D), (∀ d, v = some d → d.tmp = false →
            (d.dbWal = none ∨ d.dbWal = some 0) ∧ (d.db = none → d.dbWal = none) ∧ d.wals.Nodup) →
          FsInv { fs := { s.fs.set k.name v with fullNeeded := s.fs.fullNeeded }, sinks := [], fnGen := s.fnGen } :=
        fun v hv => hs.set_dir k.name v hn _ hv [] _ (no_sinks_nil s)
      cases hf : finalDir k with
      | none => cases c <;> exact ⟨hs.named, hs.nodup, hs.noPlanTmp, hs.dws, (fun h k hk => by simp [getSink] at hk), (fun h k hk => by simp [getSink] at hk)⟩
      | some fd =>
        cases c with
        | renamed => exact setd (some fd) (fun d e _ => by cases e; exact finalDir_good hs hk ho hf)
        | metaWritten => exact setd _ (fun d e ht => by cases e; cases ht)
        | filesInPlace => exact setd _ (fun d e ht => by cases e; cases ht)
        | walDirMoved => exact setd _ (fun d e ht => by cases e; cases ht)


/-! ### listing order -/

def snapKey (x : Snap D) : Nat × Nat × Nat := (x.mt.term, x.mt.index, x.name)

theorem snapLe_iff (a b : Snap D) : snapLe a b = true ↔ keyLe (snapKey a) (snapKey b) := by
  unfold snapLe keyLe snapKey
  by_cases h1 : a.mt.term = b.mt.term
  · by_cases h2 : a.mt.index = b.mt.index
    · simp [h1, h2]
    · simp [h1, h2]
  · simp [h1]

theorem keyLe_trans {a b c : Nat × Nat × Nat} (h1 : keyLe a b) (h2 : keyLe b c) : keyLe a c := by
  unfold keyLe at *; omega

theorem keyLe_total (a b : Nat × Nat × Nat) : keyLe a b ∨ keyLe b a := by
  unfold keyLe; omega

theorem keyLe_antisymm {a b : Nat × Nat × Nat} (h1 : keyLe a b) (h2 : keyLe b a) : a = b := by
  obtain ⟨a1, a2, a3⟩ := a
  obtain ⟨b1, b2, b3⟩ := b
  unfold keyLe at *
  simp only at h1 h2
  have : a1 = b1 ∧ a2 = b2 ∧ a3 = b3 := by omega
  simp [this]

/-- Scan returns the catalog sorted oldest first by (term, index, name) -/
theorem scan_sorted {fs : FS D} {xs : List (Snap D)} (h : scan fs = .ok xs) :
    xs.Pairwise (fun a b => keyLe (snapKey a) (snapKey b)) := by
  unfold scan at h
  split at h
  · cases h
  · cases h
    have := List.pairwise_mergeSort (le := snapLe (D := D))
      (fun a b c h1 h2 => (snapLe_iff a c).2 (keyLe_trans ((snapLe_iff a b).1 h1) ((snapLe_iff b c).1 h2)))
      (fun a b => by
        rcases keyLe_total (snapKey a) (snapKey b) with h | h
        · simp [(snapLe_iff a b).2 h]
        · simp [(snapLe_iff b a).2 h]) ‹_›
    exact this.imp (fun h => (snapLe_iff _ _).1 h)

theorem resolveRev_isSome_iff (l : List (Snap D)) : (resolveRev l).isSome ↔ ∃ y ∈ l, y.db.isSome := by
  induction l with
  | nil => simp [resolveRev]
  | cons x l ih =>
    unfold resolveRev
    cases hx : x.db with
    | some d => simp [hx]
    | none =>
      simp only [Option.isSome_map, ih, List.mem_cons]
      constructor
      · rintro ⟨y, hy, hd⟩; exact ⟨y, Or.inr hy, hd⟩
      · rintro ⟨y, hy | hy, hd⟩
        · subst hy; simp [hx] at hd
        · exact ⟨y, hy, hd⟩


/-! ### scan is complete -/

theorem loadAll_complete : ∀ (l : List (Nat × Dir D)) (xs : List (Snap D)), loadAll l = .ok xs →
    (∀ p ∈ l, ∃ x ∈ xs, loadSnap p.1 p.2 = .ok x) ∧ xs.map (·.name) = l.map (·.1) := by
  intro l
  induction l with
  | nil => intro xs h; simp only [loadAll, Except.ok.injEq] at h; subst h; simp
  | cons p l ih =>
    intro xs h
    obtain ⟨n, d⟩ := p
    simp only [loadAll] at h
    cases h1 : loadSnap n d with
    | error e => rw [h1] at h; cases h
    | ok x =>
      rw [h1] at h
      cases h2 : loadAll l with
      | error e => rw [h2] at h; cases h
      | ok ys =>
        rw [h2] at h
        simp only [Except.ok.injEq] at h
        subst h
        obtain ⟨a, b⟩ := ih ys h2
        have hx : x.name = n := by
          unfold loadSnap at h1
          split at h1
          · cases h1
          · split at h1
            · cases h1
            · split at h1
              · cases h1
              · cases h1; rfl
        refine ⟨?_, by simp [hx, b]⟩
        intro p hp
        rcases List.mem_cons.1 hp with rfl | hp
        · exact ⟨x, List.mem_cons_self, h1⟩
        · obtain ⟨y, hy, hl⟩ := a p hp
          exact ⟨y, List.mem_cons_of_mem _ hy, hl⟩

theorem mem_liveDirs_of_live {fs : FS D} {n : Nat} {d : Dir D} (hn : n ∈ fs.names) (hl : Live fs n d) :
    (n, d) ∈ liveDirs fs := by
  unfold liveDirs
  refine List.mem_filterMap.2 ⟨n, hn, ?_⟩
  simp [hl.1, hl.2]

theorem loadSnap_fields {n : Nat} {d : Dir D} {x : Snap D} (h : loadSnap n d = .ok x) :
    x.name = n ∧ d.mt = some x.mt ∧ x.db = d.db ∧ x.crc = d.crc ∧ x.wals = d.wals := by
  unfold loadSnap at h
  split at h
  · cases h
  · rename_i m hm
    split at h
    · cases h
    · split at h
      · cases h
      · cases h; exact ⟨rfl, hm, rfl, rfl, rfl⟩

/-- every listed-able directory appears in the scan result -/
theorem scan_complete {s : CS D} (hf : FsInv s) {xs : List (Snap D)} (h : scan s.fs = .ok xs)
    {n : Nat} {d : Dir D} (hl : Live s.fs n d) :
    ∃ x ∈ xs, x.name = n ∧ d.mt = some x.mt ∧ x.db = d.db ∧ x.crc = d.crc ∧ x.wals = d.wals := by
  unfold scan at h
  split at h
  · cases h
  · rename_i ys hys
    cases h
    obtain ⟨a, _⟩ := loadAll_complete _ _ hys
    obtain ⟨x, hx, hload⟩ := a (n, d) (mem_liveDirs_of_live (hf.named n d hl.1) hl)
    exact ⟨x, List.mem_mergeSort.2 hx, loadSnap_fields hload⟩

/-- the names in a scan result are distinct and known -/
theorem scan_names {s : CS D} (hf : FsInv s) {xs : List (Snap D)} (h : scan s.fs = .ok xs) :
    (xs.map (·.name)).Nodup ∧ ∀ x ∈ xs, x.name ∈ s.fs.names := by
  unfold scan at h
  split at h
  · cases h
  · rename_i ys hys
    cases h
    obtain ⟨_, b⟩ := loadAll_complete _ _ hys
    have hsub : ((liveDirs s.fs).map (·.1)).Sublist s.fs.names := by
      unfold liveDirs
      generalize s.fs.names = l
      induction l with
      | nil => simp
      | cons a l ih =>
        simp only [List.filterMap_cons]
        split
        · exact ih.cons _
        · rename_i p hp
          have : p.1 = a := by
            cases hd : s.fs.dir a with
            | none => simp [hd] at hp
            | some d0 =>
              simp only [hd] at hp
              split at hp
              · cases hp
              · cases hp; rfl
          simp only [List.map_cons, this]
          exact ih.cons_cons _
    have hnd : (ys.map (·.name)).Nodup := by rw [b]; exact hsub.nodup hf.nodup
    have hperm : (ys.mergeSort snapLe).Perm ys := List.mergeSort_perm ys snapLe
    refine ⟨(hperm.map _).nodup_iff.2 hnd, ?_⟩
    intro x hx
    have hx' : x ∈ ys := List.mem_mergeSort.1 hx
    have : x.name ∈ ys.map (·.name) := List.mem_map.2 ⟨x, hx', rfl⟩
    rw [b] at this
    exact hsub.subset this


/-! ### listed snapshots resolve -/

theorem keyOf_eq_snapKey {n : Nat} {d : Dir D} {x : Snap D} (hn : x.name = n) (hm : d.mt = some x.mt) :
    keyOf n d = snapKey x := by
  simp [keyOf, snapKey, hm, hn]

/-- every listed snapshot resolves: going back from it there is a full snapshot (then
ResolveFiles returns that database followed by the WAL files in order) -/
theorem listed_resolves {s : CS D} (hc : CatInv s) (hf : FsInv s) {xs : List (Snap D)} (h : scan s.fs = .ok xs)
    (i : Nat) (hi : i < xs.length) : (resolveRev (xs.take (i + 1)).reverse).isSome := by
  obtain ⟨xs', hxs', hlisted⟩ := scan_ok hc
  rw [h] at hxs'
  cases hxs'
  rw [resolveRev_isSome_iff]
  have hx : xs[i] ∈ xs := List.getElem_mem hi
  have hxt : xs[i] ∈ (xs.take (i + 1)).reverse := by
    rw [List.mem_reverse, List.mem_take_iff_getElem]
    exact ⟨i, by omega, rfl⟩
  cases hdb : xs[i].db with
  | some v => exact ⟨xs[i], hxt, by simp [hdb]⟩
  | none =>
    obtain ⟨d, hl, hmt, hid, hdbd, hw, _⟩ := hlisted _ hx
    have hdn : d.db = none := by rw [← hdbd]; exact hdb
    obtain ⟨n', d', hl', hfull, hle⟩ := hc.based _ d hl hdn
    obtain ⟨y, hy, hyn, hym, hydb, _, _⟩ := scan_complete hf h hl'
    obtain ⟨j, hj, hyj⟩ := List.mem_iff_getElem.1 hy
    have hyfull : y.db.isSome := by rw [hydb]; exact hfull
    rcases Nat.lt_or_ge i j with hij | hij
    · exfalso
      have hsorted := scan_sorted h
      have hp : keyLe (snapKey xs[i]) (snapKey xs[j]) := (List.pairwise_iff_getElem.1 hsorted) i j hi hj hij
      rw [hyj] at hp
      have hle' : keyLe (snapKey y) (snapKey xs[i]) := by
        rw [← keyOf_eq_snapKey hyn hym, ← keyOf_eq_snapKey rfl hmt]; exact hle
      have heq := keyLe_antisymm hp hle'
      have hname : xs[i].name = y.name := by
        have := congrArg (fun t => t.2.2) heq
        simpa [snapKey] using this
      have : d = d' := by
        have h1 := hl.1
        have h2 := hl'.1
        rw [hname, hyn] at h1
        rw [h1] at h2
        exact Option.some.inj h2
      rw [this, ← hydb] at hdn
      rw [hdn] at hyfull
      cases hyfull
    · refine ⟨y, ?_, hyfull⟩
      rw [List.mem_reverse, List.mem_take_iff_getElem]
      exact ⟨j, by omega, hyj⟩


/-! ### bridge to C07: a reap inside an operation sequence -/

theorem eq_of_name_eq {l : List (Snap D)} (hnd : (l.map (·.name)).Nodup) {x y : Snap D} (hx : x ∈ l) (hy : y ∈ l)
    (e : x.name = y.name) : x = y := by
  induction l with
  | nil => cases hx
  | cons a t ih =>
    simp only [List.map_cons, List.nodup_cons] at hnd
    rcases List.mem_cons.1 hx with rfl | hx' <;> rcases List.mem_cons.1 hy with rfl | hy'
    · rfl
    · exact absurd (List.mem_map.2 ⟨y, hy', e.symm⟩) hnd.1
    · exact absurd (List.mem_map.2 ⟨x, hx', e⟩) hnd.1
    · exact ih hnd.2 hx' hy'

/-- every entry of the scan result is a listed directory with exactly these fields -/
theorem scan_sound {s : CS D} (hc : CatInv s) (hf : FsInv s) {xs : List (Snap D)} (h : scan s.fs = .ok xs)
    {x : Snap D} (hx : x ∈ xs) :
    ∃ d, Live s.fs x.name d ∧ d.mt = some x.mt ∧ x.db = d.db ∧ x.crc = d.crc ∧ x.wals = d.wals ∧ x.mt.id = x.name := by
  obtain ⟨xs', hxs', hlisted⟩ := scan_ok hc
  rw [h] at hxs'
  cases hxs'
  obtain ⟨d, hl, hmt, hid, _, _, _⟩ := hlisted _ hx
  obtain ⟨y, hy, hyn, hym, hydb, hycrc, hyw⟩ := scan_complete hf h hl
  have := eq_of_name_eq (scan_names hf h).1 hy hx hyn
  subst this
  exact ⟨d, hl, hym, hydb, hycrc, hyw, hid⟩

/-- the context of a reap of the current store -/
def reapCtx (A : DbAlg D) (s : CS D) (o : List (Snap D)) (f : Snap D) (n : List (Snap D)) (d0 : D) (nn : Nat) : Ctx D :=
  { A := A, names := s.fs.names, olds := o, full := f, newers := n, d0 := d0, newName := nn, verify := true,
    fullNeeded := s.fs.fullNeeded, oldDw := fun m => (s.fs.dir m).bind (·.dbWal) }

/-- the catalog invariant gives C07's well-formedness of the store before a reap -/
theorem wf_of_inv (A : DbAlg D) (laws : DbLaws A) {s : CS D} (hc : CatInv s) (hf : FsInv s)
    {xs o : List (Snap D)} {f : Snap D} {n : List (Snap D)} (hscan : scan s.fs = .ok xs)
    (hsplit : splitLastFull xs = some (o, f, n)) (nn : Nat) (hnn : s.fs.dir nn = none) (hnn' : nn ∉ s.fs.names) :
    ∃ d0 dw0, WF (reapCtx A s o f n d0 nn) s.fs dw0 := by
  obtain ⟨hxs, hfdb, hninc⟩ := (splitLastFull_spec xs).1 o f n hsplit
  have hnames := scan_names hf hscan
  have hfm : f ∈ xs := by rw [hxs]; simp
  obtain ⟨df, hlf, hfmt, hfdb', hfcrc, hfw, hfid⟩ := scan_sound hc hf hscan hfm
  cases hd0 : f.db with
  | none => rw [hd0] at hfdb; cases hfdb
  | some d0 =>
    refine ⟨d0, df.dbWal, ?_⟩
    have hsn : (reapCtx A s o f n d0 nn).snaps = xs := hxs.symm
    have hsub : ∀ y ∈ f :: n, y ∈ xs := by
      intro y hy; rw [hxs]; exact List.mem_append_right _ hy
    refine
      { good := ?_, names := rfl, noPlan := hc.noPlan, noPlanTmp := hf.noPlanTmp, fn := rfl, scan := by rw [hsn]; exact hscan,
        fullDb := hd0, dwOk := (hf.dws _ _ hlf).1, fullDir := ?_, newerDir := ?_, oldDir := ?_, others := ?_,
        newDir := hnn, newersInc := hninc }
    · refine { laws := laws, nodup := by rw [hsn]; exact hnames.1, fresh := ?_, freshNames := hnn', namesNodup := hf.nodup, wNodup := ?_ }
      · rw [hsn]
        intro hm
        obtain ⟨y, hy, e⟩ := List.mem_map.1 hm
        have e' : y.name = nn := e
        exact hnn' (e' ▸ hnames.2 y hy)
      · have : (reapCtx A s o f n d0 nn).W = (f :: n).flatMap walPaths := by
          simp [Ctx.W, reapCtx, List.flatMap_cons]
        rw [this]
        apply walPaths_nodup
        · have h1 := hnames.1
          rw [hxs, List.map_append] at h1
          exact (List.nodup_append.1 h1).2.1
        · intro y hy
          obtain ⟨d, hl, _, _, _, hw, _⟩ := scan_sound hc hf hscan (hsub y hy)
          rw [hw]; exact (hf.dws _ _ hl).2.2
    · show s.fs.dir f.name = _
      rw [hlf.1]
      have := hlf.2
      cases df
      simp only at hfmt hfdb' hfcrc hfw this ⊢
      subst hfmt hfcrc hfw this
      rw [← hfdb', hd0]
      rfl
    · intro y hy
      obtain ⟨d, hl, hmt, hdb, hcrc, hw, _⟩ := scan_sound hc hf hscan (hsub y (List.mem_cons_of_mem _ hy))
      have hyinc : y.db = none := hninc y hy
      have hdw : d.dbWal = none := (hf.dws _ _ hl).2.1 (by rw [← hdb]; exact hyinc)
      show s.fs.dir y.name = _
      rw [hl.1]
      have := hl.2
      cases d
      simp only at hmt hdb hcrc hw this hdw ⊢
      subst hmt hdb hcrc hw this hdw
      rfl
    · intro y hy
      have hyx : y ∈ xs := by rw [hxs]; exact List.mem_append_left _ hy
      obtain ⟨d, hl, hmt, hdb, hcrc, hw, _⟩ := scan_sound hc hf hscan hyx
      show s.fs.dir y.name = _
      simp only [oldDirOf, reapCtx]
      rw [hl.1]
      have := hl.2
      cases d
      simp only at hmt hdb hcrc hw this ⊢
      subst hmt hdb hcrc hw this
      rfl
    · intro m hm d hd
      rw [hsn] at hm
      cases ht : d.tmp with
      | true => rfl
      | false =>
        exfalso
        obtain ⟨y, hy, e, _⟩ := scan_complete hf hscan (n := m) (d := d) ⟨hd, ht⟩
        exact hm (List.mem_map.2 ⟨y, hy, e⟩)

/-- a store whose only listed directory is one complete full snapshot (and no sink is open)
satisfies both invariants -/
theorem inv_single {s : CS D} {t : FS D} (hsk : ∀ h k, getSink s h = some k → k.opened = false)
    (hp : t.plan = none) (hpt : t.planTmp = false) (hnd : t.names.Nodup) (hnamed : ∀ n d, t.dir n = some d → n ∈ t.names)
    (m : Nat) (dm : Dir D) (hone : ∀ n d, Live t n d → n = m ∧ d = dm) (hcm : Complete m dm) (hfull : dm.db.isSome)
    (hdw : dm.dbWal = none ∨ dm.dbWal = some 0) (hw : dm.wals.Nodup) :
    CatInv { s with fs := t } ∧ FsInv { s with fs := t } := by
  have hno : ∀ h k, getSink ({ s with fs := t } : CS D) h = some k → k.opened = true → False := by
    intro h k hk ho
    have : getSink s h = some k := hk
    rw [hsk h k this] at ho
    cases ho
  constructor
  · exact
      { complete := fun n d hl => by obtain ⟨rfl, rfl⟩ := hone n d hl; exact hcm
        based := fun n d hl hdb => by
          obtain ⟨rfl, rfl⟩ := hone n d hl
          rw [hdb] at hfull; cases hfull
        noPlan := hp
        sinkTmp := fun h k hk ho => (hno h k hk ho).elim
        sinkMax := fun h k hk ho => (hno h k hk ho).elim
        incOK := fun h k w hk ho => (hno h k hk ho).elim
        single := fun h h' k k' hk _ ho _ => (hno h k hk ho).elim }
  · exact
      { named := hnamed
        nodup := hnd
        noPlanTmp := hpt
        dws := fun n d hl => by
          obtain ⟨rfl, rfl⟩ := hone n d hl
          exact ⟨hdw, (fun h => by rw [h] at hfull; cases hfull), hw⟩
        sinkNamed := fun h k hk ho => (hno h k hk ho).elim
        sinkWals := fun h k hk ho => (hno h k hk ho).elim }



theorem same_cs (s : CS D) : ({ s with fs := s.fs } : CS D) = s := rfl

/-- the result of an uninterrupted reap satisfies both invariants -/
theorem reap_result_inv (A : DbAlg D) (laws : DbLaws A) {s : CS D} (hc : CatInv s) (hf : FsInv s) (nn : Nat)
    (hsk : ∀ h k, getSink s h = some k → k.opened = false) (hnn : s.fs.dir nn = none) (hnn' : nn ∉ s.fs.names)
    {t : FS D} (hr : reap A s.fs nn true = .ok t) :
    CatInv { s with fs := t } ∧ FsInv { s with fs := t } := by
  obtain ⟨xs, hscan, _⟩ := scan_ok hc
  have hsame : ∀ {t : FS D}, Except.ok s.fs = (Except.ok t : Except String (FS D)) →
      CatInv { s with fs := t } ∧ FsInv { s with fs := t } := by
    intro t e; cases e; exact ⟨hc, hf⟩
  cases hsp : splitLastFull xs with
  | none =>
    have hp : mkReapPlan xs nn true = (if xs.isEmpty then .ok none else .error "no-full") := by
      simp [mkReapPlan, hsp]
    simp only [reap, hc.noPlan, hscan, hp] at hr
    cases he : xs.isEmpty
    · rw [he] at hr; simp at hr
    · rw [he] at hr; simp only [if_true] at hr; exact hsame hr
  | some tr =>
    obtain ⟨o, f, n⟩ := tr
    obtain ⟨d0, dw0, w⟩ := wf_of_inv A laws hc hf hscan hsp nn hnn hnn'
    obtain ⟨hxs, hfdb, hninc⟩ := (splitLastFull_spec xs).1 o f n hsp
    have hfm : f ∈ xs := by rw [hxs]; simp
    obtain ⟨df, hlf, hfmt, hfdb', hfcrc, hfw, hfid⟩ := scan_sound hc hf hscan hfm
    have ht := othOf_tmpOnly w
    let c := reapCtx A s o f n d0 nn
    have hnamedOth : ∀ m d, othOf c s.fs m = some d → m ∈ s.fs.names := by
      intro m d h
      unfold othOf at h
      split at h
      · cases h
      · exact hf.named m d h
    -- the three shapes of the result
    have single : o = [] → n = [] → CatInv { s with fs := t } ∧ FsInv { s with fs := t } := by
      intro ho hn
      have := reap_eq_single w ho hn
      have e : reap A s.fs nn true = .ok s.fs := this
      rw [e] at hr
      exact hsame hr
    have consolidate : c.W ≠ [] → (o ≠ [] ∨ n ≠ []) → CatInv { s with fs := t } ∧ FsInv { s with fs := t } := by
      intro hW hm
      have e : reap A s.fs nn true = .ok (mk c (othOf c s.fs) (.renamed (finalDw c)) none false) :=
        reap_eq_consolidate w hW hm
      rw [e] at hr
      cases hr
      refine inv_single hsk rfl rfl ?_ ?_ nn
        { tmp := false, mt := some c.newMeta, db := some c.dF, crc := some c.dF, dbWal := finalDw c, wals := [] }
        ?_ ⟨⟨c.newMeta, rfl, rfl⟩, Or.inl ⟨rfl, rfl⟩⟩ rfl (Or.inr rfl) List.nodup_nil
      · show (s.fs.names ++ [nn]).Nodup
        rw [List.nodup_append]
        exact ⟨hf.nodup, by simp, fun a ha b hb eab => by
          simp only [List.mem_singleton] at hb; rw [hb] at eab; rw [eab] at ha; exact hnn' ha⟩
      · intro m d hd
        show m ∈ s.fs.names ++ [nn]
        rcases renamed_dir _ _ hd with ⟨rfl, _⟩ | h
        · simp [c, reapCtx]
        · exact List.mem_append_left _ (hnamedOth m d h)
      · intro m d hl
        rcases renamed_dir _ _ hl.1 with h | h
        · exact h
        · have := ht m d h
          rw [hl.2] at this; cases this
    have removeOnly : RmOnly c → CatInv { s with fs := t } ∧ FsInv { s with fs := t } := by
      intro ro
      have e : reap A s.fs nn true = .ok (mk c (othOf c s.fs) (st1 c c.R.length none dw0) none false) :=
        reap_eq_removeOnly w ro
      rw [e] at hr
      cases hr
      have hcf := hc.complete _ _ hlf
      have hcrc : f.crc = some c.dF := by
        rw [rmOnly_dF ro]
        rcases hcf.data with ⟨_, h2⟩ | ⟨h1, _⟩
        · rw [hfcrc, h2, ← hfdb']; exact w.fullDb
        · rw [← hfdb'] at h1; rw [h1] at hfdb; cases hfdb
      refine inv_single hsk rfl rfl hf.nodup ?_ f.name
        { tmp := false, mt := some f.mt, db := some c.dF, crc := f.crc, dbWal := dw0, wals := [] }
        ?_ ⟨⟨f.mt, rfl, hfid⟩, Or.inl ⟨rfl, hcrc⟩⟩ rfl w.dwOk List.nodup_nil
      · intro m d hd
        rcases removed_dir _ _ _ _ hd with ⟨rfl, _⟩ | h
        · exact hf.named _ _ hlf.1
        · exact hnamedOth m d h
      · intro m d hl
        rcases removed_dir _ _ _ _ hl.1 with h | h
        · exact h
        · have := ht m d h
          rw [hl.2] at this; cases this
    by_cases hW : c.W = []
    · cases hn : n with
      | nil =>
        cases ho : o with
        | nil => exact single ho hn
        | cons a o' =>
          apply removeOnly
          refine ⟨hn, ?_, by show o ≠ []; rw [ho]; simp⟩
          have : walPaths f ++ n.flatMap walPaths = [] := hW
          have h1 := (List.append_eq_nil_iff.1 this).1
          have h2 : f.wals = [] := by simpa [walPaths] using h1
          exact h2
      | cons y n' =>
        exfalso
        have hy : y ∈ n := by rw [hn]; simp
        have hyx : y ∈ xs := by rw [hxs]; exact List.mem_append_right _ (List.mem_cons_of_mem _ hy)
        obtain ⟨dy, hly, _, hydb, _, hyw, _⟩ := scan_sound hc hf hscan hyx
        have hyinc := hninc y hy
        rcases (hc.complete _ _ hly).data with ⟨h1, _⟩ | ⟨_, h2⟩
        · rw [← hydb, hyinc] at h1; cases h1
        · have : walPaths f ++ n.flatMap walPaths = [] := hW
          have h3 := (List.append_eq_nil_iff.1 this).2
          rw [hn, List.flatMap_cons] at h3
          have h4 := (List.append_eq_nil_iff.1 h3).1
          rw [← hyw] at h2
          simp [walPaths] at h4
          exact h2 h4
    · by_cases hm : o ≠ [] ∨ n ≠ []
      · exact consolidate hW hm
      · have ho : o = [] := Classical.byContradiction fun h => hm (Or.inl h)
        have hn : n = [] := Classical.byContradiction fun h => hm (Or.inr h)
        exact single ho hn

/-- reap inside an operation sequence keeps both invariants -/
theorem reap_inv (A : DbAlg D) (laws : DbLaws A) {s : CS D} (hc : CatInv s) (hf : FsInv s) (nn : Nat)
    (hok : OpOK' s (.reap nn)) :
    CatInv (reapOp A s nn).1 ∧ FsInv (reapOp A s nn).1 := by
  unfold reapOp
  cases hr : reap A s.fs nn true with
  | error e => exact ⟨hc, hf⟩
  | ok t => exact reap_result_inv A laws hc hf nn hok.1 hok.2.1 hok.2.2 hr


/-! ### operation sequences including reap -/

theorem OpOK'.toOpOK {s : CS D} {op : COp D} (h : OpOK' s op) (hnr : ∀ nn, op ≠ .reap nn) : OpOK s op := by
  cases op with
  | reap nn => exact absurd rfl (hnr nn)
  | create h name index term => exact h.1
  | wfull h d ws v => trivial
  | winc h ws => exact h.1
  | close h => exact h
  | cancel h => exact h
  | closeRenameFails h => exact h
  | setFull => exact h
  | reopen => exact h
  | crashClose h c => exact h

/-- both invariants are kept by every admissible operation, reap included -/
theorem step_inv' (A : DbAlg D) (laws : DbLaws A) {s : CS D} (hc : CatInv s) (hf : FsInv s) (op : COp D)
    (hok : OpOK' s op) : CatInv (stepOp A s op).1 ∧ FsInv (stepOp A s op).1 := by
  by_cases hr : ∃ nn, op = .reap nn
  · obtain ⟨nn, rfl⟩ := hr
    exact reap_inv A laws hc hf nn hok
  · have hnr : ∀ nn, op ≠ .reap nn := fun nn e => hr ⟨nn, e⟩
    exact ⟨step_inv A hc op (hok.toOpOK hnr), fsInv_step A hf hc op hok hnr⟩

/-- every operation of the sequence (reap included) meets its side condition in the state it is applied to -/
def OpsOK' (A : DbAlg D) : CS D → List (COp D) → Prop
  | _, [] => True
  | s, o :: os => OpOK' s o ∧ OpsOK' A (stepOp A s o).1 os

theorem runOps_inv' (A : DbAlg D) (laws : DbLaws A) : ∀ (ops : List (COp D)) (s : CS D), CatInv s → FsInv s →
    OpsOK' A s ops → CatInv (runOps A s ops) ∧ FsInv (runOps A s ops) := by
  intro ops
  induction ops with
  | nil => intro s hc hf _; exact ⟨hc, hf⟩
  | cons o os ih =>
    intro s hc hf hok
    have := step_inv' A laws hc hf o hok.1
    exact ih _ this.1 this.2 hok.2


/-! ### an executable check of the side conditions (for non-vacuity examples) -/

theorem allClosed_spec {s : CS D} (h : allClosed s = true) : ∀ h' k, getSink s h' = some k → k.opened = false := by
  intro h' k hk
  unfold getSink at hk
  cases hf : s.sinks.find? (·.1 == h') with
  | none => rw [hf] at hk; cases hk
  | some p =>
    rw [hf] at hk
    simp only [Option.map_some, Option.some.injEq] at hk
    have hm := List.mem_of_find?_eq_some hf
    have := List.all_eq_true.1 h p hm
    rw [← hk]
    simpa using this

theorem okB_sound {s : CS D} (hf : FsInv s) {op : COp D} (h : okB s op = true) : OpOK' s op := by
  cases op with
  | create hh name index term =>
    simp only [okB, Bool.and_eq_true, Option.isNone_iff_eq_none, Bool.not_eq_true', List.contains_eq_mem,
      decide_eq_false_iff_not] at h
    obtain ⟨⟨⟨h1, h2⟩, h3⟩, h4⟩ := h
    refine ⟨⟨h1, allClosed_spec h2, ?_⟩, h3⟩
    intro n d hl
    have := List.all_eq_true.1 h4 n (hf.named n d hl.1)
    rw [hl.1] at this
    simp only [hl.2, Bool.false_or, decide_eq_true_eq] at this
    exact this
  | wfull hh d ws v =>
    have h' : ws.Nodup := by simpa [okB] using h
    exact h'
  | winc hh ws =>
    simp only [okB, Bool.and_eq_true, Bool.not_eq_true', decide_eq_true_eq] at h
    exact ⟨fun e => by rw [e] at h; simp at h, h.2⟩
  | close hh => trivial
  | cancel hh => trivial
  | closeRenameFails hh => trivial
  | setFull => trivial
  | reopen => trivial
  | crashClose hh c =>
    intro k hk
    simp only [okB, hk, Bool.and_eq_true] at h
    refine ⟨h.1, ?_⟩
    intro wals hw
    have := h.2
    rw [hw] at this
    simpa using this
  | reap nn =>
    simp only [okB, Bool.and_eq_true, Option.isNone_iff_eq_none, Bool.not_eq_true', List.contains_eq_mem,
      decide_eq_false_iff_not] at h
    exact ⟨allClosed_spec h.1.1, h.1.2, h.2⟩

def opsOKB (A : DbAlg D) : CS D → List (COp D) → Bool
  | _, [] => true
  | s, o :: os => okB s o && opsOKB A (stepOp A s o).1 os

theorem opsOKB_sound (A : DbAlg D) (laws : DbLaws A) : ∀ (ops : List (COp D)) (s : CS D), CatInv s → FsInv s →
    opsOKB A s ops = true → OpsOK' A s ops := by
  intro ops
  induction ops with
  | nil => intro _ _ _ _; trivial
  | cons o os ih =>
    intro s hc hf h
    simp only [opsOKB, Bool.and_eq_true] at h
    have ho := okB_sound hf h.1
    have := step_inv' A laws hc hf o ho
    exact ⟨ho, ih _ this.1 this.2 h.2⟩


end RqModel.SnapCat

package store

// C32: membership changes keep node IDs and addresses unique; nodes get the role they
// asked for; unresponsive nodes are removed only after the timeout for their role.
//
// Live in-process clusters (up to 3 real nodes in the quick tier, 4 in the thorough
// tier, plus "ghost" identities: addresses nobody listens on, only ever added as
// non-voters or in joins that must be refused). Generated membership histories of
//   join (new voter / non-voter), re-join (same id+address same role / other role),
//   re-join with a NEW address after a restart on another port, new id on a USED address,
//   used id on a new address, remove (member / unknown id), join on a follower,
//   and failed-heartbeat observations injected into the Store's own observer channel
//   with chosen last-contact ages around the two reap timeouts.
// After every operation the raft configuration is read on EVERY running member:
//   * spec oracle: no two entries share an id or an address; after a successful Join the
//     node has the address and the role it asked for; a node is reaped only if the age
//     exceeds the (non-zero) timeout of its role;
//   * correspondence: outcome and configuration equal the Lean model `membership`
//     (RqModel/Model/Membership.lean: Store.Join/Remove/reap on top of raft's
//     nextConfiguration/checkConfiguration).
// Plus: Notify-driven bootstrap scenarios and one reap of really stopped nodes.

import (
	"context"
	"errors"
	"fmt"
	"sort"
	"strings"
	"testing"
	"time"

	"github.com/hashicorp/raft"
	"github.com/rqlite/rqlite/v10/command/proto"
)

const (
	c32ReapVoter    = 10 * time.Minute
	c32ReapNonvoter = 5 * time.Minute
)

type c32Member struct {
	id, addr string
	voter    bool
}

func c32Config(s *Store) ([]c32Member, error) {
	nodes, err := s.Nodes()
	if err != nil {
		return nil, err
	}
	var ms []c32Member
	for _, n := range nodes {
		ms = append(ms, c32Member{n.ID, n.Addr, n.Suffrage != proto.Suffrage_NON_VOTER})
	}
	sort.Slice(ms, func(i, j int) bool { return ms[i].id < ms[j].id })
	return ms, nil
}

func c32CfgStr(ms []c32Member) string {
	if len(ms) == 0 {
		return "-"
	}
	var parts []string
	for _, m := range ms {
		role := "voter"
		if !m.voter {
			role = "nonvoter"
		}
		parts = append(parts, vfHex(m.id)+"@"+vfHex(m.addr)+"/"+role)
	}
	return strings.Join(parts, " ")
}

func c32Human(ms []c32Member) string {
	var parts []string
	for _, m := range ms {
		role := "voter"
		if !m.voter {
			role = "nonvoter"
		}
		parts = append(parts, m.id+"@"+m.addr+"/"+role)
	}
	return strings.Join(parts, " ")
}

// c32Unique evaluates the first sentence of the property on one node's view.
func c32Unique(rep *vfReport, who string, ms []c32Member, hist []string) {
	ids, addrs := map[string]bool{}, map[string]bool{}
	for _, m := range ms {
		if ids[m.id] {
			rep.Fail("duplicate-id-in-configuration", fmt.Sprintf("node %s sees id %q twice: %s", who, m.id, c32Human(ms)), map[string]interface{}{"history": hist})
		}
		if addrs[m.addr] {
			rep.Fail("duplicate-address-in-configuration", fmt.Sprintf("node %s sees address %q twice: %s", who, m.addr, c32Human(ms)), map[string]interface{}{"history": hist})
		}
		ids[m.id], addrs[m.addr] = true, true
	}
}

type c32Hist struct {
	t       *testing.T
	rep     *vfReport
	c       *clu8Cluster
	leader  *clu8Node
	ops     []string
	impl    []string
	hist    []string
	ghosts  int
	last    string // most recently joined real node
	aborted string
}

func (h *c32Hist) emit(op, out string) { h.ops = append(h.ops, op); h.impl = append(h.impl, out) }

// withWatchdog runs f; membership changes use no raft timeout, so a lost quorum would
// block forever.
func (h *c32Hist) withWatchdog(what string, f func() error) (error, bool) {
	ch := make(chan error, 1)
	go func() { ch <- f() }()
	select {
	case err := <-ch:
		return err, true
	case <-time.After(90 * time.Second):
		h.aborted = what + " did not return within 90s"
		return nil, false
	}
}

func c32JoinCanon(err error) string {
	switch {
	case err == nil:
		return "ok"
	case errors.Is(err, ErrNotLeader):
		return "err:notleader"
	case errors.Is(err, ErrNotOpen):
		return "err:notopen"
	}
	return "err"
}

// settle waits until every running member reports the leader's configuration and
// checks uniqueness on each view; returns the leader's view.
func (h *c32Hist) settle() []c32Member {
	want, err := c32Config(h.leader.S)
	if err != nil {
		h.aborted = "leader configuration: " + err.Error()
		return nil
	}
	c32Unique(h.rep, h.leader.Name, want, h.hist)
	inCfg := map[string]bool{}
	for _, m := range want {
		inCfg[m.id] = true
	}
	for _, n := range h.c.Nodes {
		if !n.Up || n == h.leader || !inCfg[n.Name] {
			continue
		}
		deadline := time.Now().Add(180 * time.Second)
		for {
			got, err := c32Config(n.S)
			if err == nil {
				c32Unique(h.rep, n.Name, got, h.hist)
				if c32CfgStr(got) == c32CfgStr(want) {
					h.rep.Count("follower-view-checked")
					// the node's own answer to "am I a voter?" is the role the configuration gives it
					if m := h.find(got, n.Name); m != nil {
						if v, verr := n.S.IsVoter(); verr == nil && v != m.voter {
							h.rep.Fail("node-own-role-view-differs-from-configuration",
								fmt.Sprintf("node %s is %v in the configuration it holds (%s) but its IsVoter() says %v", n.Name, map[bool]string{true: "voter", false: "nonvoter"}[m.voter], c32Human(got), v),
								map[string]interface{}{"history": h.hist, "node": n.Name})
						}
					}
					break
				}
			}
			if time.Now().After(deadline) {
				h.rep.Fail("configuration-not-replicated", fmt.Sprintf("node %s still reports %s, leader reports %s", n.Name, c32Human(got), c32Human(want)),
					map[string]interface{}{"history": h.hist})
				break
			}
			time.Sleep(20 * time.Millisecond)
		}
	}
	return want
}

func (h *c32Hist) find(ms []c32Member, id string) *c32Member {
	for i := range ms {
		if ms[i].id == id {
			return &ms[i]
		}
	}
	return nil
}

func (h *c32Hist) node(name string) *clu8Node {
	for _, n := range h.c.Nodes {
		if n.Name == name {
			return n
		}
	}
	return nil
}

// join performs Store.Join on `on` and evaluates outcome + role oracle.
func (h *c32Hist) join(label string, on *clu8Node, id, addr string, voter bool) {
	before, _ := c32Config(h.leader.S)
	var err error
	done := false
	for attempt := 0; attempt < 6; attempt++ {
		err, done = h.withWatchdog("Join", func() error { return on.S.Join(joinRequest(id, addr, voter)) })
		if !done {
			return
		}
		if on != h.leader || !clu8Transient(err) {
			break
		}
		// a transient leadership error on the leader is not an answer: wait for a leader and ask again
		h.rep.Count("membership-op-retried:transient-leadership-error")
		l := h.c.Leader(90 * time.Second)
		if l == nil {
			h.aborted = "no leader"
			return
		}
		on, h.leader = l, l
		before, _ = c32Config(h.leader.S)
	}
	if on == h.leader && clu8Transient(err) {
		h.aborted = "Join kept failing with a transient leadership error: " + err.Error()
		return
	}
	role := "nonvoter"
	if voter {
		role = "voter"
	}
	after := h.settle()
	if h.aborted != "" {
		return
	}
	out := c32JoinCanon(err)
	if err == nil && c32CfgStr(before) == c32CfgStr(after) && h.find(before, id) != nil {
		// Store.Join returns nil both for "joined" and for "already member, ignoring"
		out = "ignored"
	}
	if out == "err" {
		// the model distinguishes the stage; the real error text tells which raft call failed
		out = "err:change"
	}
	suffix := ""
	if on != h.leader {
		suffix = " notleader"
	}
	h.emit(fmt.Sprintf("join %s %s %s%s", vfHex(id), vfHex(addr), role, suffix), out+" "+c32CfgStr(after))
	h.hist = append(h.hist, fmt.Sprintf("%s: Join(%s,%s,%s) on %s -> %v ; config %s", label, id, addr, role, on.Name, err, c32Human(after)))
	h.rep.Count("op:" + label)
	h.rep.Count("join-outcome:" + out)
	h.rep.Case(label+"|"+c32CfgStr(before)+"|"+id+"|"+addr+"|"+role, len(before) > 1 || label != "join-new")
	if err == nil {
		m := h.find(after, id)
		switch {
		case m == nil:
			h.rep.Fail("join-ok-but-not-member:"+label, fmt.Sprintf("Join(%s,%s,%s) returned nil but %s is not in the configuration %s", id, addr, role, id, c32Human(after)), map[string]interface{}{"history": h.hist})
		case m.addr != addr:
			h.rep.Fail("join-ok-but-other-address:"+label, fmt.Sprintf("Join(%s,%s,%s) returned nil but the configuration has %s", id, addr, role, c32Human(after)), map[string]interface{}{"history": h.hist})
		case m.voter != voter:
			h.rep.Fail("join-ok-but-role-not-as-requested:"+label, fmt.Sprintf("Join(%s,%s,%s) returned nil but the node is %s in %s", id, addr, role, map[bool]string{true: "voter", false: "nonvoter"}[m.voter], c32Human(after)),
				map[string]interface{}{"history": h.hist, "id": id, "addr": addr, "requested": role})
		}
	}
}

func (h *c32Hist) remove(label, id string) {
	before, _ := c32Config(h.leader.S)
	var err error
	done := false
	for attempt := 0; attempt < 6; attempt++ {
		err, done = h.withWatchdog("Remove", func() error { return h.leader.S.Remove(context.Background(), removeNodeRequest(id)) })
		if !done {
			return
		}
		if !clu8Transient(err) {
			break
		}
		h.rep.Count("membership-op-retried:transient-leadership-error")
		l := h.c.Leader(90 * time.Second)
		if l == nil {
			h.aborted = "no leader"
			return
		}
		h.leader = l
		before, _ = c32Config(h.leader.S)
	}
	if clu8Transient(err) {
		h.aborted = "Remove kept failing with a transient leadership error: " + err.Error()
		return
	}
	if n := h.node(id); n != nil && n.Up && err == nil {
		h.c.Stop(n)
	}
	after := h.settle()
	out := "ok"
	if err != nil {
		out = "err:remove"
		if errors.Is(err, ErrNotLeader) {
			out = "err:notleader"
		}
	}
	h.emit("remove "+vfHex(id), out+" "+c32CfgStr(after))
	h.hist = append(h.hist, fmt.Sprintf("%s: Remove(%s) -> %v ; config %s", label, id, err, c32Human(after)))
	h.rep.Count("op:" + label)
	h.rep.Case(label+"|"+c32CfgStr(before)+"|"+id, true)
}

// reapInject sends a FailedHeartbeatObservation with a chosen last-contact age into the
// leader Store's observer channel (the real observe() goroutine consumes it) and waits
// until it has been processed (two sentinels for an unknown peer follow it; when the
// channel is empty the first sentinel, hence the observation, has been handled).
func (h *c32Hist) reapInject(id string, age time.Duration) {
	before, _ := c32Config(h.leader.S)
	s := h.leader.S
	send := func(peer string, lc time.Time) bool {
		select {
		case s.observerChan <- raft.Observation{Data: raft.FailedHeartbeatObservation{PeerID: raft.ServerID(peer), LastContact: lc}}:
			return true
		case <-time.After(30 * time.Second):
			return false
		}
	}
	if !send(id, time.Now().Add(-age)) || !send("c32-sentinel-a", time.Now()) || !send("c32-sentinel-b", time.Now()) {
		h.aborted = "observer channel blocked"
		return
	}
	deadline := time.Now().Add(90 * time.Second)
	for len(s.observerChan) > 0 {
		if time.Now().After(deadline) {
			h.aborted = "observations not consumed"
			return
		}
		time.Sleep(5 * time.Millisecond)
	}
	after := h.settle()
	if h.aborted != "" {
		return
	}
	removed := h.find(before, id) != nil && h.find(after, id) == nil
	if removed {
		if n := h.node(id); n != nil && n.Up {
			h.c.Stop(n)
		}
	}
	out := "kept"
	if removed {
		out = "removed"
	}
	h.emit(fmt.Sprintf("reap %s %d %d %d", vfHex(id), int64(age), int64(c32ReapVoter), int64(c32ReapNonvoter)), out+" "+c32CfgStr(after))
	h.hist = append(h.hist, fmt.Sprintf("failed heartbeat observed for %s, last contact %s ago -> %s ; config %s", id, age, out, c32Human(after)))
	h.rep.Count("op:reap-observation")
	h.rep.Count("reap:" + out)
	h.rep.Case("reap|"+c32CfgStr(before)+"|"+id+"|"+age.String(), h.find(before, id) != nil)
	if removed {
		m := h.find(before, id)
		to := c32ReapVoter
		if !m.voter {
			to = c32ReapNonvoter
		}
		if age <= to {
			h.rep.Fail("reaped-before-timeout", fmt.Sprintf("%s (%v) was removed although its last contact was only %s ago (timeout for its role %s)", id, *m, age, to), map[string]interface{}{"history": h.hist})
		}
	}
}

func (h *c32Hist) ghostAddr() string {
	h.ghosts++
	return fmt.Sprintf("127.0.0.1:%d", h.ghosts) // privileged ports nobody listens on
}

func c32Tune(s *Store) {
	s.ReapTimeout = c32ReapVoter
	s.ReapReadOnlyTimeout = c32ReapNonvoter
}

func c32RunHistory(t *testing.T, rep *vfReport, r *vfRng, nOps, maxReal int, script []string) (ops, impl []string, ok bool) {
	c := clu8NewCluster(t)
	c.Tune = c32Tune
	defer c.Close()
	h := &c32Hist{t: t, rep: rep, c: c}
	n0, err := c.NewNode()
	if err != nil {
		clu8Skip("C32 harness: %v", err)
	}
	if err := c.Bootstrap(n0); err != nil {
		clu8Skip("C32 harness: bootstrap: %v", err)
	}
	h.leader = n0
	h.emit("reset", "ok")
	cfg0 := h.settle()
	h.emit(fmt.Sprintf("bootstrap %s %s@%s", vfHex(n0.Name), vfHex(n0.Name), vfHex(n0.Addr)), "ok "+c32CfgStr(cfg0))
	h.hist = append(h.hist, "bootstrap "+c32Human(cfg0))
	ghostIDs := []string{}
	kinds := []string{"join-new-voter", "join-new-voter", "join-new-nonvoter", "rejoin-same", "rejoin-other-role", "rejoin-new-address", "rejoin-new-address-other-role",
		"new-id-on-used-address", "ghost-nonvoter", "used-id-on-new-address", "remove-member", "remove-unknown", "join-on-follower",
		"reap-observation", "reap-observation"}
	for i := 0; i < nOps && h.aborted == ""; i++ {
		if !h.leader.S.IsLeader() {
			// leadership moved (overloaded machine): carry on with whoever leads now
			l := c.Leader(90 * time.Second)
			if l == nil {
				h.aborted = "no leader"
				break
			}
			h.leader = l
			rep.Count("leader-re-resolved")
		}
		kind := ""
		if script != nil {
			if i >= len(script) {
				break
			}
			kind = script[i]
		} else {
			kind = kinds[r.Intn(len(kinds))]
		}
		cur, _ := c32Config(h.leader.S)
		var others, realOthers []c32Member
		voters := 0
		for _, m := range cur {
			if m.voter {
				voters++
			}
			if m.id != h.leader.Name {
				others = append(others, m)
				if n := h.node(m.id); n != nil && n.Up {
					realOthers = append(realOthers, m)
				}
			}
		}
		up := 0
		for _, n := range c.Nodes {
			if n.Up {
				up++
			}
		}
		switch kind {
		case "join-new-voter", "join-new-nonvoter":
			if up >= maxReal {
				continue
			}
			n, err := c.NewNode()
			if err != nil {
				h.aborted = err.Error()
				break
			}
			h.join("join-new", h.leader, n.Name, n.Addr, kind == "join-new-voter")
			h.last = n.Name
			if h.aborted == "" {
				if _, err := n.S.WaitForLeader(60 * time.Second); err != nil {
					h.aborted = "joined node sees no leader"
				}
			}
		case "rejoin-other-role-last", "reap-last-1m", "reap-last-7m", "reap-last-20m":
			// directed steps on the most recently joined real node
			var m *c32Member
			for i := range others {
				if others[i].id == h.last {
					m = &others[i]
				}
			}
			if m == nil {
				continue
			}
			switch kind {
			case "rejoin-other-role-last":
				h.join("rejoin-other-role", h.leader, m.id, m.addr, !m.voter)
			case "reap-last-1m":
				h.reapInject(m.id, time.Minute)
			case "reap-last-7m":
				h.reapInject(m.id, 7*time.Minute)
			default:
				h.reapInject(m.id, 20*time.Minute)
			}
		case "rejoin-same":
			if len(others) == 0 {
				continue
			}
			m := others[r.Intn(len(others))]
			h.join("rejoin-same", h.leader, m.id, m.addr, m.voter)
		case "rejoin-other-role":
			if len(others) == 0 {
				continue
			}
			m := others[r.Intn(len(others))]
			if n := h.node(m.id); n == nil && m.voter == false {
				continue // a ghost must never become a voter (it would block the quorum)
			}
			h.join("rejoin-other-role", h.leader, m.id, m.addr, !m.voter)
		case "rejoin-new-address-other-role", "rejoin-new-address-other-role-last":
			// the same node comes back on ANOTHER address AND asks for the OTHER role
			var cand []c32Member
			for _, m := range realOthers {
				if (!m.voter || voters >= 3) && (kind == "rejoin-new-address-other-role" || m.id == h.last) {
					cand = append(cand, m)
				}
			}
			if len(cand) == 0 {
				continue
			}
			m := cand[r.Intn(len(cand))]
			n := h.node(m.id)
			c.Stop(n)
			n.Addr = "127.0.0.1:0"
			if err := c.Restart(n); err != nil {
				h.aborted = "restart: " + err.Error()
				break
			}
			h.join("rejoin-new-address-other-role", h.leader, n.Name, n.Addr, !m.voter)
		case "rejoin-new-address":
			// only when the cluster keeps its quorum while the node is away
			var cand []c32Member
			for _, m := range realOthers {
				if !m.voter || voters >= 3 {
					cand = append(cand, m)
				}
			}
			if len(cand) == 0 {
				continue
			}
			m := cand[r.Intn(len(cand))]
			n := h.node(m.id)
			c.Stop(n)
			n.Addr = "127.0.0.1:0"
			if err := c.Restart(n); err != nil {
				h.aborted = "restart: " + err.Error()
				break
			}
			h.join("rejoin-new-address", h.leader, n.Name, n.Addr, m.voter)
		case "new-id-on-used-address":
			if len(others) == 0 {
				continue
			}
			m := others[r.Intn(len(others))]
			h.join("new-id-on-used-address", h.leader, fmt.Sprintf("x%d", i), m.addr, r.Bool())
		case "ghost-nonvoter":
			id := fmt.Sprintf("g%d", len(ghostIDs))
			ghostIDs = append(ghostIDs, id)
			h.join("ghost-nonvoter", h.leader, id, h.ghostAddr(), false)
		case "used-id-on-new-address":
			var cand []c32Member
			for _, m := range others {
				if h.node(m.id) == nil { // ghosts only: they stay non-voters
					cand = append(cand, m)
				}
			}
			if len(cand) == 0 {
				continue
			}
			m := cand[r.Intn(len(cand))]
			h.join("used-id-on-new-address", h.leader, m.id, h.ghostAddr(), false)
		case "remove-member":
			if len(others) == 0 {
				continue
			}
			h.remove("remove-member", others[r.Intn(len(others))].id)
		case "remove-unknown":
			h.remove("remove-unknown", fmt.Sprintf("nosuch%d", i))
		case "join-on-follower":
			var f *clu8Node
			for _, m := range realOthers {
				f = h.node(m.id)
			}
			if f == nil {
				continue
			}
			h.join("join-on-follower", f, fmt.Sprintf("y%d", i), h.ghostAddr(), false)
		case "reap-observation":
			ages := []time.Duration{time.Minute, 7 * time.Minute, 20 * time.Minute}
			age := ages[r.Intn(len(ages))]
			id := fmt.Sprintf("absent%d", i)
			if len(others) > 0 && !r.Chance(15) {
				// never reap a voter when that would leave the cluster without quorum for the next ops
				id = others[r.Intn(len(others))].id
			}
			h.reapInject(id, age)
		}
	}
	if h.aborted != "" {
		rep.Note("history aborted (%s) after %v", h.aborted, h.hist)
		rep.Count("histories-aborted")
		return h.ops, h.impl, false
	}
	rep.Sample(map[string]interface{}{"history": h.hist})
	return h.ops, h.impl, true
}

// ---- Notify-driven bootstrap ------------------------------------------------------

func c32NotifyScenario(t *testing.T, rep *vfReport, name string, nNodes int, expectCluster bool, mutate func(i int, ids, addrs []string) ([]string, []string)) (ops, impl []string) {
	c := clu8NewCluster(t)
	c.Tune = func(s *Store) { s.BootstrapExpect = nNodes }
	defer c.Close()
	var nodes []*clu8Node
	for i := 0; i < nNodes; i++ {
		n, err := c.NewNode()
		if err != nil {
			clu8Skip("C32 harness: %v", err)
		}
		nodes = append(nodes, n)
	}
	// keep the nodes apart while they are being notified, so that none of them can hear
	// of a leader half-way (Notify does nothing once the node has a leader)
	for _, n := range nodes {
		c.Net.Isolate(n.Name)
	}
	ops = append(ops, "reset")
	impl = append(impl, "ok")
	var hist []string
	for i, n := range nodes {
		ops = append(ops, fmt.Sprintf("nnew %s %d", vfHex(n.Name), nNodes))
		impl = append(impl, "ok")
		var ids, addrs []string
		for _, m := range nodes {
			ids = append(ids, m.Name)
			addrs = append(addrs, m.Addr)
		}
		ids, addrs = mutate(i, ids, addrs)
		// every id is notified twice (Notify is documented as idempotent)
		ids, addrs = append(ids, ids...), append(addrs, addrs...)
		for k := range ids {
			hasLeader := n.S.HasLeader()
			wasBoot, wasN := n.S.bootstrapped, len(n.S.notifyingNodes)
			if err := n.S.Notify(notifyRequest(ids[k], addrs[k])); err != nil {
				clu8Skip("C32 harness: Notify: %v", err)
			}
			after, _ := c32Config(n.S)
			c32Unique(rep, n.Name, after, hist)
			out := "noop"
			switch {
			case !wasBoot && n.S.bootstrapped && len(after) > 0:
				out = "bootstrapok"
			case !wasBoot && n.S.bootstrapped:
				out = "bootstrapfailed"
			case len(n.S.notifyingNodes) > wasN:
				out = "recorded"
			}
			op := fmt.Sprintf("notify %s %s %s", vfHex(n.Name), vfHex(ids[k]), vfHex(addrs[k]))
			if hasLeader {
				op += " hasleader"
			}
			ops = append(ops, op)
			impl = append(impl, out+" "+c32CfgStr(after))
			hist = append(hist, fmt.Sprintf("%s.Notify(%s,%s) -> %s ; %s", n.Name, ids[k], addrs[k], out, c32Human(after)))
			rep.Count("notify:" + name + ":" + out)
			rep.Case("notify|"+name+"|"+op+"|"+out, true)
		}
	}
	c.Net.HealAll()
	if expectCluster {
		// every node bootstrapped with the same servers: they must form ONE cluster and agree
		l := c.Leader(120 * time.Second)
		if l == nil {
			rep.Fail("notify-bootstrap-no-leader:"+name, "nodes bootstrapped by Notify with identical server lists did not elect a leader within 120 s", map[string]interface{}{"history": hist})
		} else {
			want, _ := c32Config(l.S)
			for _, n := range nodes {
				deadline := time.Now().Add(60 * time.Second)
				for {
					got, _ := c32Config(n.S)
					c32Unique(rep, n.Name, got, hist)
					if c32CfgStr(got) == c32CfgStr(want) {
						break
					}
					if time.Now().After(deadline) {
						rep.Fail("configuration-not-replicated", fmt.Sprintf("after Notify bootstrap node %s reports %s, leader %s", n.Name, c32Human(got), c32Human(want)), map[string]interface{}{"history": hist})
						break
					}
					time.Sleep(20 * time.Millisecond)
				}
			}
			hist = append(hist, "healed; leader "+l.Name+"; configuration "+c32Human(want))
		}
	}
	rep.Sample(map[string]interface{}{"notify_scenario": name, "history": hist})
	return
}

// ---- reaping of really stopped nodes ----------------------------------------------

func c32RealReap(t *testing.T, rep *vfReport) {
	voterTO, roTO := 4*time.Second, 2*time.Second
	c := clu8NewCluster(t)
	c.Tune = func(s *Store) { s.ReapTimeout = voterTO; s.ReapReadOnlyTimeout = roTO }
	defer c.Close()
	n0, err := c.NewNode()
	if err != nil {
		clu8Skip("C32 harness: %v", err)
	}
	if err := c.Bootstrap(n0); err != nil {
		clu8Skip("C32 harness: %v", err)
	}
	var all []*clu8Node
	for i := 0; i < 3; i++ {
		n, err := c.NewNode()
		if err != nil {
			clu8Skip("C32 harness: %v", err)
		}
		if err := clu8JoinRetry(c, n, i < 2, 90*time.Second); err != nil {
			clu8Skip("C32 harness: join: %v", err)
		}
		if _, err := n.S.WaitForLeader(60 * time.Second); err != nil {
			clu8Skip("C32 harness: no leader on %s", n.Name)
		}
		all = append(all, n)
	}
	// stop one voter (2 of 3 voters remain) and the non-voter; remember when each last heard the leader
	victims := []*clu8Node{all[1], all[2]}
	lastContact := map[string]time.Time{}
	role := map[string]string{all[1].Name: "voter", all[2].Name: "nonvoter"}
	for _, v := range victims {
		deadline := time.Now().Add(30 * time.Second)
		for time.Since(v.S.raft.LastContact()) > time.Second && time.Now().Before(deadline) {
			time.Sleep(10 * time.Millisecond)
		}
		lastContact[v.Name] = v.S.raft.LastContact()
		c.Stop(v)
	}
	removedAt := map[string]time.Time{}
	deadline := time.Now().Add(120 * time.Second)
	for len(removedAt) < len(victims) && time.Now().Before(deadline) {
		ms, err := c32Config(n0.S)
		if err == nil {
			c32Unique(rep, n0.Name, ms, nil)
			for _, v := range victims {
				present := false
				for _, m := range ms {
					if m.id == v.Name {
						present = true
					}
				}
				if _, done := removedAt[v.Name]; !present && !done {
					removedAt[v.Name] = time.Now()
				}
			}
		}
		time.Sleep(20 * time.Millisecond)
	}
	for _, v := range victims {
		to := voterTO
		if role[v.Name] == "nonvoter" {
			to = roTO
		}
		at, ok := removedAt[v.Name]
		if !ok {
			rep.Note("real reap: %s (%s) not removed within 120 s (not asserted: the property bounds removal from below only)", v.Name, role[v.Name])
			rep.Count("real-reap:not-removed-in-time")
			continue
		}
		waited := at.Sub(lastContact[v.Name])
		rep.Count("real-reap:removed-" + role[v.Name])
		rep.Case("real-reap|"+role[v.Name], true)
		rep.Sample(map[string]interface{}{"real_reap": v.Name, "role": role[v.Name], "timeout": to.String(), "removed_after_last_contact": waited.String()})
		if waited <= to {
			rep.Fail("reaped-before-timeout:real", fmt.Sprintf("stopped %s %s was removed %s after its last contact with the leader; timeout for its role is %s", role[v.Name], v.Name, waited, to), nil)
		}
	}
}

func TestVerifC32(t *testing.T) {
	rep := vfNewReport("C32", "live clusters (1 leader + up to 2-3 real members + ghost non-voters); generated membership histories (join new voter/non-voter, re-join same / other role / new address after restart, new id on a used address, used id on a new address, remove member / unknown id, join on a follower, injected failed-heartbeat observations aged 1/7/20 min against 10/5 min timeouts); configuration read on every running member after every operation; non-trivial when the configuration has more than one member before the operation (reap: when the peer is a member); distinct by (operation, configuration before, arguments). Plus Notify bootstrap scenarios and one reap of really stopped nodes.")
	defer rep.Write()
	r := vfNewRng(32)
	var segOps, segImpl [][]string
	completed := 0
	maxReal := vfScale(3, 4)
	directed := [][]string{
		{"join-new-voter", "rejoin-same", "rejoin-other-role", "new-id-on-used-address", "join-new-nonvoter", "rejoin-other-role", "rejoin-new-address",
			"ghost-nonvoter", "used-id-on-new-address", "join-on-follower", "reap-observation", "remove-unknown", "remove-member", "reap-observation"},
	}
	guarded := func(nOps int, script []string) {
		var ops, impl []string
		ok := false
		if !clu8Case(rep, "history", 10*time.Minute, func() { ops, impl, ok = c32RunHistory(t, rep, r, nOps, maxReal, script) }) {
			return
		}
		if ok {
			completed++
		} else {
			rep.Count("cases-abandoned")
		}
		segOps, segImpl = append(segOps, ops), append(segImpl, impl)
	}
	// a node fails a heartbeat (not yet due for reaping), comes back with the OTHER role, fails again:
	// the timeout that counts is the one of its CURRENT role (7 min: above the non-voter timeout of
	// 5 min, below the voter timeout of 10 min)
	directed = append(directed,
		[]string{"join-new-voter", "join-new-nonvoter", "reap-last-1m", "rejoin-other-role-last", "reap-last-7m", "reap-last-20m"},
		[]string{"join-new-voter", "join-new-voter", "reap-last-1m", "rejoin-other-role-last", "reap-last-1m", "reap-last-7m"})
	// the same node re-joins on a NEW address asking for the OTHER role: voter -> non-voter, then back
	directed = append(directed,
		[]string{"join-new-voter", "join-new-voter", "rejoin-new-address-other-role-last", "rejoin-new-address-other-role-last", "rejoin-same"})
	for _, sc := range directed {
		guarded(len(sc), sc)
	}
	hists := vfScale(1, 25)
	nOps := vfScale(14, 30)
	for i := 0; i < hists; i++ {
		guarded(nOps, nil)
	}
	rep.CountN("histories-completed", completed)
	if completed == 0 {
		t.Fatalf("C32 harness: no history completed")
	}
	// Notify-driven bootstrap: normal; two ids notifying the same address; a node that is never told about itself
	same := func(i int, ids, addrs []string) ([]string, []string) { return ids, addrs }
	dupAddr := func(i int, ids, addrs []string) ([]string, []string) {
		a := append([]string(nil), addrs...)
		a[len(a)-1] = a[0]
		return ids, a
	}
	noSelf := func(i int, ids, addrs []string) ([]string, []string) {
		var ni, na []string
		for k := range ids {
			if k != i {
				ni, na = append(ni, ids[k]), append(na, addrs[k])
			}
		}
		return append(ni, "stranger"), append(na, "127.0.0.1:9")
	}
	for _, sc := range []struct {
		name string
		n    int
		ok   bool
		f    func(int, []string, []string) ([]string, []string)
	}{{"all-distinct", 3, true, same}, {"duplicate-address", 2, false, dupAddr}, {"self-missing", 2, false, noSelf}} {
		var ops, impl []string
		if clu8Case(rep, "notify:"+sc.name, 10*time.Minute, func() { ops, impl = c32NotifyScenario(t, rep, sc.name, sc.n, sc.ok, sc.f) }) {
			segOps, segImpl = append(segOps, ops), append(segImpl, impl)
		}
	}
	clu8Case(rep, "real-reap", 10*time.Minute, func() { c32RealReap(t, rep) })
	clu8Floor(t, rep)
	rep.vfCompareSegments("membership", segOps, segImpl)
}

/-
C37  Automatic backups upload every change.

Property theorems only. Model: RqModel/Model/Uploader.lean — `upload` is
`(*Uploader).upload` of auto/backup/uploader.go, `provide` the retry loop of
store/provider.go; tied to the code by the C37 correspondence runs (real Uploader with a
scripted storage client and provider; real store.Provider over a real Store with a
fault-injecting destination).

Histories (`List Ev`, unbounded): writes, upload rounds with every combination of
provider failure / unreadable remote id / storage failure and with writes landing while
the round runs, and process restarts (a new Uploader with lastIndex 0, same remote).

Assumed law (`Law`), not proved here (it is C21 + store.fsmApply's ordering): the backup a
round's `Provide` writes contains every change up to the index `LastIndex()` returned
just before (`s.db ≤ c`).
-/
import RqModel.Model.Uploader
import RqModel.Gen.Backup
namespace C37
open RqModel.Uploader

/-- label of the remote object, 0 when there is none -/
def remoteLabel (s : Sys) : Nat :=
  match s.remote with
  | none => 0
  | some (l, _) => l

/-- Assumed law of the data provider along a history: the backup produced in a round
contains every change up to the index read at the start of that round. -/
def Law (s : Sys) : List Ev → Prop
  | [] => True
  | e :: rest =>
    (match e with
     | .round _ c _ _ _ => s.db ≤ c
     | _ => True) ∧ Law (stepEv s e).1 rest

instance lawDec : (s : Sys) → (hist : List Ev) → Decidable (Law s hist)
  | _, [] => isTrue trivial
  | s, e :: rest =>
    have : Decidable (match e with | .round _ c _ _ _ => s.db ≤ c | _ => True) := by
      cases e <;> simp only <;> infer_instance
    have := lawDec (stepEv s e).1 rest
    inferInstanceAs (Decidable (_ ∧ _))

/-- Regenerated fact behind `Law` (store/store.go `Backup`, binary non-vacuum path): when the WAL
holds data the backup first takes a raft snapshot so that the main file it copies is current,
and a failure of that snapshot makes the backup FAIL (Provide then retries) unless it is one
of exactly two kinds: nothing new to snapshot, or raft waiting for a configuration entry.
Tolerating anything else (e.g. a busy snapshot gate) would copy a main file that lacks the
WAL's contents under a label that covers them. -/
theorem pre_backup_snapshot_errors_tolerated :
    RqModel.Gen.Backup.preBackupSnapshotFailsWhen =
      "!errors.Is(err, ErrNothingNewToSnapshot) && !strings.Contains(err.Error(), \"wait until the configuration entry at\")" := by
  decide

/-- invariant of (store index, Uploader.lastIndex, remote object) -/
structure Good (s : Sys) : Prop where
  last_le  : s.last ≤ s.db
  last_rem : s.last ≠ 0 → ∃ c, s.remote = some (s.last, c)
  rem_ok   : ∀ l c, s.remote = some (l, c) → l ≤ c ∧ l ≤ s.db ∧ 0 < l

theorem good_init : Good {} := by
  constructor <;> simp

/-- a round either records nothing and uploads nothing, or uploads with the label it read -/
theorem upload_split (last : Nat) (r : RoundIn) :
    (∃ o, upload last r = (last, o) ∧ ∀ l c, o ≠ .uploaded l c) ∨
    (∃ li c, r.li = some li ∧ r.provide = some c ∧ last < li ∧ r.uploadOk = true ∧
        ¬ (last = 0 ∧ r.cur = .id li) ∧ upload last r = (li, .uploaded li c)) := by
  unfold upload
  cases hli : r.li with
  | none => left; exact ⟨_, rfl, by intro l c h; cases h⟩
  | some li =>
    simp only
    by_cases h1 : li ≤ last
    · left; simp only [h1, if_true]; exact ⟨_, rfl, by intro l c h; cases h⟩
    · simp only [h1, if_false]
      cases hp : r.provide with
      | none => left; exact ⟨_, rfl, by intro l c h; cases h⟩
      | some c =>
        simp only
        by_cases h2 : last = 0 ∧ r.cur = .id li
        · left; simp only [h2, and_self, if_true]; exact ⟨_, rfl, by intro l c h; cases h⟩
        · simp only [h2, if_false]
          cases hu : r.uploadOk with
          | false => left; simp only [Bool.false_eq_true, if_false]; exact ⟨_, rfl, by intro l c h; cases h⟩
          | true => right; simp only [if_true]; exact ⟨li, c, by simp, by simp, by omega, by simp, h2, by simp⟩

theorem remoteAfter_not_uploaded (rem : Option (Nat × Nat)) (o : RoundOut)
    (h : ∀ l c, o ≠ .uploaded l c) : remoteAfter rem o = rem := by
  cases o <;> simp [remoteAfter]
  exact absurd rfl (h _ _)

theorem roundIn_li (s : Sys) (c : Nat) (pOk cErr uOk : Bool) (li : Nat)
    (h : (roundIn s c pOk cErr uOk).li = some li) : li = s.db := by
  simp [roundIn] at h; exact h.symm

theorem roundIn_provide (s : Sys) (c : Nat) (pOk cErr uOk : Bool) (c' : Nat)
    (h : (roundIn s c pOk cErr uOk).provide = some c') : c' = c ∧ pOk = true := by
  cases pOk <;> simp [roundIn] at h
  exact ⟨h.symm, rfl⟩

/-- what a round does to the system, in the two cases of `upload_split` -/
theorem round_split (s : Sys) (during c : Nat) (pOk cErr uOk : Bool) :
    (∃ o, stepEv s (.round during c pOk cErr uOk) =
        ({ db := s.db + during, last := s.last, remote := s.remote }, some o) ∧
        (∀ l c', o ≠ .uploaded l c')) ∨
    (pOk = true ∧ uOk = true ∧ s.last < s.db ∧ ¬ (s.last = 0 ∧ curOf s cErr = .id s.db) ∧
      stepEv s (.round during c pOk cErr uOk) =
        ({ db := s.db + during, last := s.db, remote := some (s.db, c) }, some (.uploaded s.db c))) := by
  rcases upload_split s.last (roundIn s c pOk cErr uOk) with ⟨o, ho, hno⟩ | ⟨li, c', e1, e2, e3, e4, e5, ho⟩
  · left
    refine ⟨o, ?_, hno⟩
    simp only [stepEv, ho, remoteAfter_not_uploaded _ _ hno]
  · right
    have hli := roundIn_li _ _ _ _ _ _ e1
    have hc := roundIn_provide _ _ _ _ _ _ e2
    subst hli
    obtain ⟨hc, hp⟩ := hc
    subst hc
    refine ⟨hp, ?_, e3, ?_, ?_⟩
    · simpa [roundIn] using e4
    · simpa [roundIn] using e5
    · simp only [stepEv, ho, remoteAfter]

theorem good_step (s : Sys) (e : Ev) (hs : Good s)
    (hlaw : match e with | .round _ c _ _ _ => s.db ≤ c | _ => True) : Good (stepEv s e).1 := by
  cases e with
  | write n =>
    simp only [stepEv]
    exact ⟨by have := hs.last_le; simp; omega, hs.last_rem,
      fun l c h => by have := hs.rem_ok l c h; simp; omega⟩
  | restart =>
    simp only [stepEv]
    exact ⟨by simp, by simp, hs.rem_ok⟩
  | round during c pOk cErr uOk =>
    simp only at hlaw
    rcases round_split s during c pOk cErr uOk with ⟨o, ho, _⟩ | ⟨_, _, hlt, _, ho⟩
    · rw [ho]
      exact ⟨by have := hs.last_le; simp; omega, hs.last_rem,
        fun l c h => by have := hs.rem_ok l c h; simp; omega⟩
    · rw [ho]
      refine ⟨by simp, fun _ => ⟨c, rfl⟩, ?_⟩
      intro l c0 hrem
      simp at hrem
      obtain ⟨rfl, rfl⟩ := hrem
      simp; omega

theorem good_run (s : Sys) (hist : List Ev) (hs : Good s) (hlaw : Law s hist) : Good (runEv s hist) := by
  induction hist generalizing s with
  | nil => exact hs
  | cons e rest ih =>
    obtain ⟨h1, h2⟩ := hlaw
    exact ih _ (good_step s e hs h1) h2

/-! ### the property -/

/-- **Every uploaded backup contains every change up to its label.** In any history, an
upload labelled `l` carries a backup whose newest change `c` satisfies `l ≤ c`: the label
is the index read BEFORE the backup was produced. -/
theorem uploaded_label_le_content (s : Sys) (hist : List Ev) (hlaw : Law s hist) (l c : Nat)
    (h : RoundOut.uploaded l c ∈ outcomes s hist) : l ≤ c := by
  induction hist generalizing s with
  | nil => simp [outcomes] at h
  | cons e rest ih =>
    obtain ⟨h1, h2⟩ := hlaw
    unfold outcomes at h
    cases e with
    | write n => simp only [stepEv] at h; exact ih _ h2 h
    | restart => simp only [stepEv] at h; exact ih _ h2 h
    | round during c0 pOk cErr uOk =>
      simp only at h1
      rcases round_split s during c0 pOk cErr uOk with ⟨o, ho, hno⟩ | ⟨_, _, _, _, ho⟩
      · rw [ho] at h h2
        simp only [List.mem_cons] at h
        rcases h with h | h
        · exact absurd h.symm (hno l c)
        · exact ih _ h2 h
      · rw [ho] at h h2
        simp only [List.mem_cons] at h
        rcases h with h | h
        · injection h with ha hb
          omega
        · exact ih _ h2 h

theorem remoteLabel_le (s : Sys) (hs : Good s) : remoteLabel s ≤ s.db := by
  unfold remoteLabel
  cases hr : s.remote with
  | none => simp
  | some p => exact (hs.rem_ok p.1 p.2 (by rw [hr])).2.1

/-- in a good state, "changed" means the Uploader is behind and the id check cannot skip -/
theorem changed_facts (s : Sys) (hs : Good s) (hchg : remoteLabel s ≠ s.db) (cErr : Bool) :
    s.last < s.db ∧ ¬ (s.last = 0 ∧ curOf s cErr = .id s.db) := by
  have hle := remoteLabel_le s hs
  have h1 := hs.last_le
  constructor
  · by_cases h0 : s.last = 0
    · omega
    · obtain ⟨c', hr⟩ := hs.last_rem h0
      have : remoteLabel s = s.last := by simp [remoteLabel, hr]
      omega
  · rintro ⟨_, hcur⟩
    unfold curOf at hcur
    cases cErr
    · simp only [Bool.false_eq_true, if_false] at hcur
      cases hr : s.remote with
      | none => simp [hr] at hcur
      | some p =>
        simp only [hr] at hcur
        injection hcur with hcur
        apply hchg
        simp [remoteLabel, hr, hcur]
    · simp at hcur

/-- **Changed ⇒ the next round uploads, labelled with the index it read.** In any state
reached by any lawful history: if the store's index differs from the remote label (the
database changed since the last successful upload) and provider and storage work in this
round, the round uploads a backup labelled `s.db` containing every change up to it —
whether or not the remote id could be read, whatever lands during the round. -/
theorem changed_then_uploaded_with_label (pre : List Ev) (hlaw : Law {} pre)
    (during c : Nat) (cErr : Bool)
    (hc : (runEv {} pre).db ≤ c) (hchg : remoteLabel (runEv {} pre) ≠ (runEv {} pre).db) :
    (stepEv (runEv {} pre) (.round during c true cErr true)).2 = some (.uploaded (runEv {} pre).db c) ∧
    (stepEv (runEv {} pre) (.round during c true cErr true)).1.remote = some ((runEv {} pre).db, c) ∧
    (stepEv (runEv {} pre) (.round during c true cErr true)).1.last = (runEv {} pre).db ∧
    (runEv {} pre).db ≤ c := by
  have hs : Good (runEv {} pre) := good_run _ _ good_init hlaw
  have hf := changed_facts _ hs hchg cErr
  rcases upload_split (runEv {} pre).last (roundIn (runEv {} pre) c true cErr true) with
    ⟨o, ho, hno⟩ | ⟨li, c', e1, e2, e3, e4, e5, ho⟩
  · -- impossible: with provider and storage working and the uploader behind, it uploads
    exfalso
    unfold upload roundIn at ho
    have h1 : ¬ (runEv {} pre).db ≤ (runEv {} pre).last := by omega
    simp only [h1, if_false, if_true] at ho
    have h2 := hf.2
    simp only [h2, if_false] at ho
    injection ho with _ ho
    exact hno _ _ ho.symm
  · have hli := roundIn_li _ _ _ _ _ _ e1
    have hc' := (roundIn_provide _ _ _ _ _ _ e2).1
    subst hli; subst hc'
    simp only [stepEv, ho, remoteAfter]
    exact ⟨by simp, by simp, by simp, hc⟩

/-- **Unchanged ⇒ nothing is uploaded.** If the store's index equals the remote label
(nothing changed since the last successful upload) and either this Uploader value made
that upload itself or the remote id can be read, the round uploads nothing and records
nothing — for every provider/storage behaviour. -/
theorem unchanged_uploads_nothing (pre : List Ev) (hlaw : Law {} pre)
    (during c : Nat) (pOk cErr uOk : Bool)
    (hsame : remoteLabel (runEv {} pre) = (runEv {} pre).db)
    (hid : (runEv {} pre).last ≠ 0 ∨ cErr = false) :
    (∀ l c', (stepEv (runEv {} pre) (.round during c pOk cErr uOk)).2 ≠ some (.uploaded l c')) ∧
    (stepEv (runEv {} pre) (.round during c pOk cErr uOk)).1.remote = (runEv {} pre).remote ∧
    (stepEv (runEv {} pre) (.round during c pOk cErr uOk)).1.last = (runEv {} pre).last := by
  have hs : Good (runEv {} pre) := good_run _ _ good_init hlaw
  rcases round_split (runEv {} pre) during c pOk cErr uOk with ⟨o, ho, hno⟩ | ⟨_, _, hlt, hcur, _⟩
  · rw [ho]
    exact ⟨fun l c' h => hno l c' (by injection h), rfl, rfl⟩
  · -- an upload would need the uploader to be behind and the id check not to match
    exfalso
    by_cases h0 : (runEv {} pre).last = 0
    · have hce : cErr = false := by
        rcases hid with h | h
        · exact absurd h0 h
        · exact h
      subst hce
      apply hcur
      refine ⟨h0, ?_⟩
      unfold curOf
      simp only [Bool.false_eq_true, if_false]
      cases hr : (runEv {} pre).remote with
      | none => simp [remoteLabel, hr] at hsame; omega
      | some p =>
        simp [remoteLabel, hr] at hsame
        simp [hsame]
    · obtain ⟨c', hr⟩ := hs.last_rem h0
      have : remoteLabel (runEv {} pre) = (runEv {} pre).last := by simp [remoteLabel, hr]
      omega

/-- THE FULL STATEMENT of "rounds with no change upload nothing" (no side condition) -/
def unchanged_uploads_nothing_full : Prop :=
  ∀ (pre : List Ev), Law {} pre → ∀ (during c : Nat) (pOk cErr uOk : Bool),
    remoteLabel (runEv {} pre) = (runEv {} pre).db →
    ∀ l c', (stepEv (runEv {} pre) (.round during c pOk cErr uOk)).2 ≠ some (.uploaded l c')

/-- false: a NEW Uploader value (after a process restart) that cannot read the remote id
uploads again although nothing changed (known finding, by design the safe side;
`unchanged_uploads_nothing` is the partial statement) -/
theorem unchanged_uploads_nothing_witness : ¬ unchanged_uploads_nothing_full := by
  intro h
  have := h [.write 2, .round 0 3 true false true, .restart] (by decide) 0 3 true true true (by decide) 3 3
  revert this
  decide

/-- **A failed upload (or a failed backup) is not recorded.** Whatever the state, a round
whose `Upload` fails or whose `Provide` fails leaves `lastIndex` and the remote object
as they were. -/
theorem failed_upload_not_recorded (s : Sys) (during c : Nat) (pOk cErr uOk : Bool)
    (hfail : pOk = false ∨ uOk = false) :
    (stepEv s (.round during c pOk cErr uOk)).1.last = s.last ∧
    (stepEv s (.round during c pOk cErr uOk)).1.remote = s.remote ∧
    ∀ l c', (stepEv s (.round during c pOk cErr uOk)).2 ≠ some (.uploaded l c') := by
  rcases round_split s during c pOk cErr uOk with ⟨o, ho, hno⟩ | ⟨hp, hu, _, _, _⟩
  · rw [ho]
    exact ⟨rfl, rfl, fun l c' h => hno l c' (by injection h)⟩
  · rcases hfail with hf | hf
    · rw [hp] at hf; cases hf
    · rw [hu] at hf; cases hf

/-- "changed" survives failed rounds, restarts and further writes -/
theorem changed_preserved (s : Sys) (hs : Good s) (e : Ev)
    (hfail : match e with | .round _ _ pOk _ uOk => pOk = false ∨ uOk = false | .write _ => True | .restart => True)
    (hchg : remoteLabel s ≠ s.db) : remoteLabel (stepEv s e).1 ≠ (stepEv s e).1.db := by
  have hle := remoteLabel_le s hs
  cases e with
  | write n => simp only [stepEv, remoteLabel] at *; omega
  | restart => simp only [stepEv, remoteLabel] at *; exact hchg
  | round during c pOk cErr uOk =>
    simp only at hfail
    have := failed_upload_not_recorded s during c pOk cErr uOk hfail
    have hdb : (stepEv s (.round during c pOk cErr uOk)).1.db = s.db + during := by simp [stepEv]
    unfold remoteLabel at *
    rw [this.2.1, hdb]
    omega

theorem runEv_append (s : Sys) (a b : List Ev) : runEv s (a ++ b) = runEv (runEv s a) b := by
  induction a generalizing s with
  | nil => rfl
  | cons e a ih => simp [runEv, ih]

theorem law_append (s : Sys) (a b : List Ev) (h1 : Law s a) (h2 : Law (runEv s a) b) : Law s (a ++ b) := by
  induction a generalizing s with
  | nil => exact h2
  | cons e a ih => exact ⟨h1.1, ih _ h1.2 h2⟩

theorem law_writes (s : Sys) (ws : List Nat) : Law s (ws.map Ev.write) := by
  induction ws generalizing s with
  | nil => trivial
  | cons w ws ih => exact ⟨trivial, ih _⟩

theorem changed_writes (s : Sys) (ws : List Nat) (hg : Good s) (h : remoteLabel s ≠ s.db) :
    remoteLabel (runEv s (ws.map Ev.write)) ≠ (runEv s (ws.map Ev.write)).db := by
  induction ws generalizing s with
  | nil => exact h
  | cons w ws ih =>
    exact ih _ (good_step s (.write w) hg trivial) (changed_preserved s hg (.write w) trivial h)

/-- **A failed upload is retried.** After a lawful history in which the database changed,
a round that fails (provider or storage), then any further writes, then a round in which
both work: that round uploads, labelled with the index it read. -/
theorem failed_then_retried (pre : List Ev) (hlaw : Law {} pre)
    (d1 c1 : Nat) (pOk1 cErr1 uOk1 : Bool) (hfail : pOk1 = false ∨ uOk1 = false)
    (hc1 : (runEv {} pre).db ≤ c1)
    (writes : List Nat) (d2 c2 : Nat) (cErr2 : Bool)
    (hchg : remoteLabel (runEv {} pre) ≠ (runEv {} pre).db)
    (hc2 : (runEv {} (pre ++ [Ev.round d1 c1 pOk1 cErr1 uOk1] ++ writes.map Ev.write)).db ≤ c2) :
    (stepEv (runEv {} (pre ++ [Ev.round d1 c1 pOk1 cErr1 uOk1] ++ writes.map Ev.write))
        (.round d2 c2 true cErr2 true)).2 =
      some (.uploaded (runEv {} (pre ++ [Ev.round d1 c1 pOk1 cErr1 uOk1] ++ writes.map Ev.write)).db c2) := by
  have hlaw1 : Law {} (pre ++ [Ev.round d1 c1 pOk1 cErr1 uOk1]) :=
    law_append _ _ _ hlaw ⟨hc1, trivial⟩
  have hlawH : Law {} (pre ++ [Ev.round d1 c1 pOk1 cErr1 uOk1] ++ writes.map Ev.write) :=
    law_append _ _ _ hlaw1 (law_writes _ _)
  have hs0 : Good (runEv {} pre) := good_run _ _ good_init hlaw
  have hchg1 : remoteLabel (runEv {} (pre ++ [Ev.round d1 c1 pOk1 cErr1 uOk1])) ≠
      (runEv {} (pre ++ [Ev.round d1 c1 pOk1 cErr1 uOk1])).db := by
    rw [runEv_append]
    exact changed_preserved _ hs0 _ hfail hchg
  have hchgH : remoteLabel (runEv {} (pre ++ [Ev.round d1 c1 pOk1 cErr1 uOk1] ++ writes.map Ev.write)) ≠
      (runEv {} (pre ++ [Ev.round d1 c1 pOk1 cErr1 uOk1] ++ writes.map Ev.write)).db := by
    rw [runEv_append]
    exact changed_writes _ _ (good_run _ _ good_init hlaw1) hchg1
  exact (changed_then_uploaded_with_label _ hlawH d2 c2 cErr2 hc2 hchgH).1

/-- after ANY round in which provider and storage work, the remote object is labelled
with the index that round read and contains every change up to it -/
theorem round_ok_syncs (pre : List Ev) (hlaw : Law {} pre) (during c : Nat) (cErr : Bool)
    (hc : (runEv {} pre).db ≤ c) (hpos : 0 < (runEv {} pre).db) :
    ∃ c', (stepEv (runEv {} pre) (.round during c true cErr true)).1.remote = some ((runEv {} pre).db, c') ∧
      (runEv {} pre).db ≤ c' := by
  have hs : Good (runEv {} pre) := good_run _ _ good_init hlaw
  rcases round_split (runEv {} pre) during c true cErr true with ⟨o, ho, hno⟩ | ⟨_, _, _, _, ho⟩
  · -- nothing uploaded: then it was unchanged, and the remote already carries this label
    by_cases hchg : remoteLabel (runEv {} pre) = (runEv {} pre).db
    · cases hr : (runEv {} pre).remote with
      | none => simp [remoteLabel, hr] at hchg; omega
      | some p =>
        have hp1 : p.1 = (runEv {} pre).db := by simpa [remoteLabel, hr] using hchg
        have hok := hs.rem_ok p.1 p.2 (by rw [hr])
        refine ⟨p.2, ?_, by omega⟩
        rw [ho]; simp only [hr, ← hp1]
    · have h1 := (changed_then_uploaded_with_label pre hlaw during c cErr hc hchg).1
      rw [ho] at h1
      injection h1 with h1
      exact absurd h1 (hno _ _)
  · exact ⟨c, by rw [ho], hc⟩

/-! ### `Provider.Provide`: bounded retries; the destination starts empty at every attempt -/

theorem provideLoop_used (t : Bool) (b : Nat) (atts : List Attempt) (file : List UInt8) (used : Nat) :
    (provideLoop t b atts file used).2.2 ≤ used + b := by
  induction b generalizing atts file used with
  | zero => simp [provideLoop]
  | succ b ih =>
    cases atts with
    | nil => simp [provideLoop]
    | cons a rest =>
      simp only [provideLoop]
      split
      · simp <;> omega
      · have := ih rest (if t then a.written else overwrite file a.written) (used + 1); omega

/-- `Provide` makes at most `nRetries + 1` backup attempts -/
theorem provide_attempts_bounded (t : Bool) (n : Nat) (atts : List Attempt) : (provide t n atts).2.2 ≤ n + 1 := by
  have := provideLoop_used t (n + 1) atts [] 0
  simpa [provide] using this

theorem provideLoop_trunc_exact (b : Nat) (atts : List Attempt) (file : List UInt8) (used : Nat)
    (hok : (provideLoop true b atts file used).2.1 = true) :
    ∃ a ∈ atts, a.ok = true ∧ (provideLoop true b atts file used).1 = a.written := by
  induction b generalizing atts file used with
  | zero => simp [provideLoop] at hok
  | succ b ih =>
    cases atts with
    | nil => simp [provideLoop] at hok
    | cons a rest =>
      simp only [provideLoop, if_true] at hok ⊢
      cases ha : a.ok with
      | true =>
        simp only [ha, if_true]
        exact ⟨a, by simp, ha, rfl⟩
      | false =>
        simp only [ha, Bool.false_eq_true, if_false] at hok ⊢
        obtain ⟨a', hm, h1, h2⟩ := ih rest a.written (used + 1) hok
        exact ⟨a', by simp [hm], h1, h2⟩

/-- **What `Provide` hands to the Uploader is exactly one successful backup** (full
strength, for a destination that can be truncated — the temporary *os.File the Uploader
passes): if `Provide` returns nil, the destination holds exactly the bytes written by a
successful attempt, whatever the earlier failed attempts had written and however long they
were. -/
theorem provide_exact (n : Nat) (atts : List Attempt) (hok : (provide true n atts).2.1 = true) :
    ∃ a ∈ atts, a.ok = true ∧ (provide true n atts).1 = a.written :=
  provideLoop_trunc_exact _ _ _ _ hok

theorem overwrite_of_le (file b : List UInt8) (h : file.length ≤ b.length) : overwrite file b = b := by
  simp [overwrite, List.drop_eq_nil_of_le h]

theorem overwrite_length (file b : List UInt8) : (overwrite file b).length = max file.length b.length := by
  simp [overwrite]; omega

theorem provideLoop_exact (b : Nat) (atts : List Attempt) (file : List UInt8) (used m : Nat)
    (hfile : file.length ≤ m)
    (hfailed : ∀ a ∈ atts, a.ok = false → a.written.length ≤ m)
    (hgood : ∀ a ∈ atts, a.ok = true → a.written.length = m)
    (hok : (provideLoop false b atts file used).2.1 = true) :
    ∃ a ∈ atts, a.ok = true ∧ (provideLoop false b atts file used).1 = a.written := by
  induction b generalizing atts file used with
  | zero => simp [provideLoop] at hok
  | succ b ih =>
    cases atts with
    | nil => simp [provideLoop] at hok
    | cons a rest =>
      simp only [provideLoop, Bool.false_eq_true, if_false] at hok ⊢
      cases ha : a.ok with
      | true =>
        simp only [ha, if_true]
        refine ⟨a, by simp, ha, ?_⟩
        have := hgood a (by simp) ha
        exact overwrite_of_le _ _ (by omega)
      | false =>
        simp only [ha] at hok ⊢
        simp only [Bool.false_eq_true, if_false] at hok ⊢
        have hlen : (overwrite file a.written).length ≤ m := by
          rw [overwrite_length]
          have := hfailed a (by simp) ha
          omega
        obtain ⟨a', hm, h1, h2⟩ := ih rest (overwrite file a.written) (used + 1) hlen
          (fun x hx => hfailed x (by simp [hx])) (fun x hx => hgood x (by simp [hx])) hok
        exact ⟨a', by simp [hm], h1, h2⟩

/-- A destination WITHOUT a `Truncate` method is only rewound: there the result is exact
only when no failed attempt wrote more bytes than a successful backup has … -/
theorem provide_exact_when_failed_attempts_not_longer (n : Nat) (atts : List Attempt) (m : Nat)
    (hfailed : ∀ a ∈ atts, a.ok = false → a.written.length ≤ m)
    (hgood : ∀ a ∈ atts, a.ok = true → a.written.length = m)
    (hok : (provide false n atts).2.1 = true) :
    ∃ a ∈ atts, a.ok = true ∧ (provide false n atts).1 = a.written :=
  provideLoop_exact _ _ _ _ m (by simp) hfailed hgood hok

/-- … and otherwise the tail of the longer failed attempt stays (this was the behaviour for
EVERY destination before the `fix:` commit: the uploaded file was then not a readable backup);
with truncation the same attempts give exactly the successful backup. -/
theorem provide_trailing_bytes_witness :
    provide false 10 [⟨[1, 2, 3], false⟩, ⟨[9], true⟩] = ([9, 2, 3], true, 2) ∧
    provide true 10 [⟨[1, 2, 3], false⟩, ⟨[9], true⟩] = ([9], true, 2) := by decide

/-! ### non-vacuity -/

def exHist : List Ev :=
  [.write 2, .round 1 3 true false true, .round 0 4 true false true, .write 0,
   .round 0 5 true false false, .restart, .round 0 5 true true true]

example : Law {} exHist := by decide
example : outcomes {} exHist =
    [.uploaded 3 3, .uploaded 4 4, .errUpload 5, .uploaded 5 5] := by decide
-- unchanged after a restart with a readable id: skipped by id; with an unreadable id: re-upload
example : (stepEv (runEv {} (exHist ++ [.restart])) (.round 0 5 true false true)).2 = some .skippedId := by decide
example : (stepEv (runEv {} (exHist ++ [.restart])) (.round 0 5 true true true)).2 = some (.uploaded 5 5) := by decide
example : remoteLabel (runEv {} [.write 2]) ≠ (runEv {} [.write 2]).db := by decide

end C37

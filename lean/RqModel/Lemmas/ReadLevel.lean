/-
Helper lemmas about the read-level dispatch model (Model/ReadLevel.lean): what a
locally served / log-served outcome of `query` and `request` implies.
-/
import RqModel.Model.ReadLevel
namespace RqModel.ReadLevel
open RqModel.LinRead (LinOut)

theorem linStage_ok (l : Level) (e : Env) (l2 : Level) (h : linStage l e = .ok l2) :
    (l ≠ .linearizable ∧ l2 = l) ∨ (l = .linearizable ∧ ((e.lin = .ok ∧ l2 = .linearizable) ∨ (e.lin = .strongNeeded ∧ l2 = .strong))) := by
  unfold linStage at h
  by_cases hl : l = .linearizable
  · right
    rw [if_pos hl] at h
    refine ⟨hl, ?_⟩
    cases hlin : e.lin <;> rw [hlin] at h <;> simp at h
    · left; exact ⟨rfl, h.symm⟩
    · right; exact ⟨rfl, h.symm⟩
  · left
    rw [if_neg hl] at h
    simp at h
    exact ⟨hl, h.symm⟩

theorem resolveAuto_some (l : Level) (v : Option Bool) (l1 : Level) (h : resolveAuto l v = some l1) :
    (l ≠ .auto ∧ l1 = l) ∨ (l = .auto ∧ ((v = some true ∧ l1 = .weak) ∨ (v = some false ∧ l1 = .none))) := by
  unfold resolveAuto at h
  by_cases hl : l = .auto
  · right
    rw [if_pos hl] at h
    refine ⟨hl, ?_⟩
    cases v with
    | none => simp at h
    | some b => cases b <;> simp at h <;> simp [h]
  · left; rw [if_neg hl] at h; simp at h; exact ⟨hl, h.symm⟩

/-- what a locally served Query implies -/
theorem query_local (lvl : Level) (e : Env) (l : Level) (h : query lvl e = .localRead l) :
    ∃ l1, resolveAuto lvl e.voter = some l1 ∧ linStage l1 e = .ok l ∧ l ≠ .strong ∧
      (l = .weak → e.isLeader = true) ∧ (l = .none → e.staleRead = false) := by
  unfold query at h
  split at h
  · cases h
  split at h
  · cases h
  split at h
  · cases h
  split at h
  · cases h
  split at h
  · cases h
  rename_i l1 hl1
  split at h
  · rename_i o ho
    refine ⟨l1, hl1, ?_⟩
    -- error outcome equals localRead? impossible: errors of linStage are never localRead
    exfalso
    unfold linStage at ho
    split at ho
    · split at ho <;> simp at ho <;> subst ho <;> cases h
    · cases ho
  rename_i l2 hl2
  split at h
  · split at h
    · cases h
    split at h
    · cases h
    split at h <;> cases h
  rename_i hns
  split at h
  · cases h
  rename_i hw
  split at h
  · cases h
  rename_i hn
  cases h
  refine ⟨l1, hl1, hl2, hns, ?_, ?_⟩
  · intro hl; subst hl; simpa using hw
  · intro hl; subst hl; simpa using hn

theorem linStage_error_not_served (l : Level) (e : Env) (o : Outcome) (ho : linStage l e = .error o) :
    (∀ x, o ≠ .localRead x) ∧ (∀ x, o ≠ .viaLog x) := by
  unfold linStage at ho
  split at ho
  · split at ho <;> simp at ho <;> subst ho <;> simp
  · cases ho

theorem requestTail_local (l2 : Level) (nRW : Nat) (e : Env) (l : Level)
    (h : requestTail l2 nRW e = .localRead l) :
    l = l2 ∧ nRW = 0 ∧ l ≠ .strong ∧ (l = .weak → e.isLeader = true) ∧ (l = .none → e.staleRead = false) := by
  unfold requestTail at h
  split at h
  · rename_i h0
    split at h
    · cases h
    rename_i hn
    split at h
    · cases h
    rename_i hw
    cases h
    simp only [Bool.and_eq_true, decide_eq_true_eq, ne_eq] at h0
    refine ⟨rfl, h0.1, ?_, ?_, ?_⟩
    · simpa using h0.2
    · intro hl; subst hl; simpa using hw
    · intro hl; subst hl; simpa using hn
  · split at h
    · cases h
    split at h
    · cases h
    split at h
    · cases h
    split at h <;> cases h

theorem request_local (lvl : Level) (nRW : Nat) (e : Env) (l : Level) (h : request lvl nRW e = .localRead l) :
    ∃ l1, resolveAuto lvl e.voter = some l1 ∧ linStage l1 e = .ok l ∧ nRW = 0 ∧ l ≠ .strong ∧
      (l = .weak → e.isLeader = true) ∧ (l = .none → e.staleRead = false) := by
  unfold request at h
  split at h
  · cases h
  split at h
  · cases h
  split at h
  · cases h
  split at h
  · cases h
  split at h
  · cases h
  rename_i l1 hl1
  split at h
  · rename_i o ho
    exact absurd h ((linStage_error_not_served _ _ _ ho).1 l)
  rename_i l2 hl2
  obtain ⟨h1, h2, h3, h4, h5⟩ := requestTail_local l2 nRW e l h
  subst h1
  exact ⟨l1, hl1, hl2, h2, h3, h4, h5⟩

theorem query_vialog (lvl : Level) (e : Env) (l : Level) (h : query lvl e = .viaLog l) :
    l = .strong ∧ e.isLeader = true ∧ e.ready = true ∧ e.apply = .ok ∧
    ∃ l1, resolveAuto lvl e.voter = some l1 ∧ linStage l1 e = .ok .strong := by
  unfold query at h
  split at h
  · cases h
  split at h
  · cases h
  split at h
  · cases h
  split at h
  · cases h
  split at h
  · cases h
  rename_i l1 hl1
  split at h
  · rename_i o ho
    exact absurd h ((linStage_error_not_served _ _ _ ho).2 l)
  rename_i l2 hl2
  split at h
  · rename_i hs
    split at h
    · cases h
    rename_i hld
    split at h
    · cases h
    rename_i hr
    split at h
    · rename_i hap
      cases h
      subst hs
      exact ⟨rfl, by simpa using hld, by simpa using hr, hap, l1, hl1, hl2⟩
    · cases h
    · cases h
    · cases h
  · split at h
    · cases h
    split at h <;> cases h

end RqModel.ReadLevel

package snapshot

// C08 correspondence + spec oracle: crash enumeration of the real v7→v8 and v8→v10
// snapshot upgrades (real files, real SQLite databases, real gzip state files), compared
// with the Lean model `upgrade` (RqModel/Model/Upgrade.lean).
//
// No hooks in /repo:
//   * Upgrade7To8 only changes rsnapshots.tmp before its rename, so every crash state is
//     "some partial rsnapshots.tmp" / "renamed, snapshots partly removed"; these are built
//     from the real function's own output (run to completion, then put back what a partial
//     removal would have left);
//   * Upgrade8To10's REAL plan is captured by making UPGRADE_8_10_PLAN a non-empty directory
//     (the plan is written to UPGRADE_8_10_PLAN.tmp, the rename fails, nothing executes);
//     it is then executed through a fault-injecting plan.Visitor around the real Executor;
//   * every "start" is the real Upgrade7To8 followed by the real Upgrade8To10 (the order of
//     Store.Open), the final one followed by the real NewStore / List / Open / Restore.

import (
	"bytes"
	"compress/gzip"
	"encoding/binary"
	"encoding/json"
	"errors"
	"fmt"
	"io"
	"log"
	"os"
	"path/filepath"
	"sort"
	"strconv"
	"strings"
	"testing"

	"github.com/hashicorp/raft"
	"github.com/rqlite/rqlite/v10/db"
	"github.com/rqlite/rqlite/v10/internal/rsum"
	"github.com/rqlite/rqlite/v10/snapshot/plan"
	"github.com/rqlite/rqlite/v10/snapshot/sidecar"
)

type c08Env struct {
	t     *testing.T
	art   string // artifacts: db_<t>.db
	raft  string
	ids   map[string]int // snapshot id string -> nat
	idStr map[int]string
}

func (e *c08Env) old7() string    { return filepath.Join(e.raft, "snapshots") }
func (e *c08Env) old8() string    { return filepath.Join(e.raft, "rsnapshots") }
func (e *c08Env) old8tmp() string { return filepath.Join(e.raft, "rsnapshots.tmp") }
func (e *c08Env) newd() string    { return filepath.Join(e.raft, "wsnapshots") }
func (e *c08Env) newTmp() string  { return filepath.Join(e.raft, "wsnapshots.tmp") }
func (e *c08Env) planPath() string { return filepath.Join(e.raft, upgrade8To10Plan) }

func c08BuildArtifacts(t *testing.T, n int) string {
	dir := t.TempDir()
	live := filepath.Join(dir, "live.db")
	d, err := db.Open(live, false, true)
	if err != nil {
		t.Fatal(err)
	}
	defer d.Close()
	exec := func(q string) {
		rs, err := d.ExecuteStringStmt(q)
		if err != nil || rs[0].GetError() != "" {
			t.Fatalf("exec %s: %v %v", q, err, rs)
		}
	}
	exec("CREATE TABLE t (id INTEGER PRIMARY KEY, pad TEXT)")
	for i := 1; i <= n; i++ {
		exec(fmt.Sprintf("INSERT INTO t(id, pad) VALUES(%d, '%s')", i, strings.Repeat("x", 300*i)))
		if _, err := d.Checkpoint(db.CheckpointTruncate); err != nil {
			t.Fatal(err)
		}
		b, _ := os.ReadFile(live)
		os.WriteFile(filepath.Join(dir, fmt.Sprintf("db_%d.db", i)), b, 0o644)
	}
	return dir
}

// c08Content: number of rows in table t; "0" for a database without that table; "corrupt…" otherwise.
func c08Content(path string) string {
	tmp, err := os.MkdirTemp("", "c08q")
	if err != nil {
		return "corrupt"
	}
	defer os.RemoveAll(tmp)
	cp := filepath.Join(tmp, "q.db")
	b, err := os.ReadFile(path)
	if err != nil {
		return "corrupt"
	}
	os.WriteFile(cp, b, 0o644)
	if !db.IsValidSQLiteFile(cp) {
		return "corrupt:invalid"
	}
	d, err := db.Open(cp, false, true)
	if err != nil {
		return "corrupt:open"
	}
	defer d.Close()
	rows, err := d.QueryStringStmt("SELECT count(*) FROM t")
	if err != nil || len(rows) != 1 {
		return "corrupt:query"
	}
	if rows[0].GetError() != "" {
		if strings.Contains(rows[0].GetError(), "no such table") {
			return "0"
		}
		return "corrupt:" + rows[0].GetError()
	}
	return strconv.FormatInt(rows[0].Values[0].GetParameters()[0].GetI(), 10)
}

type c08Snap struct {
	nat         int
	term, index uint64
	content     int // 0: no data
	hasMeta     bool
	hasData     bool // v7: state.bin present; v8: <id>.db present
	hasDir      bool // v8
}

func (s c08Snap) id() string { return fmt.Sprintf("%d-%d-%013d", s.term, s.index, 1686659700000+int64(s.nat)) }

func (e *c08Env) writeMetaFile(dir string, s c08Snap) {
	m := &raft.SnapshotMeta{ID: s.id(), Index: s.index, Term: s.term, Version: 1}
	if err := writeMeta(dir, m); err != nil {
		e.t.Fatal(err)
	}
}

func (e *c08Env) mkV7(snaps []c08Snap) {
	os.MkdirAll(e.old7(), 0o755)
	for _, s := range snaps {
		d := filepath.Join(e.old7(), s.id())
		os.MkdirAll(d, 0o755)
		if s.hasMeta {
			e.writeMetaFile(d, s)
		}
		if s.hasData {
			var buf bytes.Buffer
			buf.Write(bytes.Repeat([]byte{0xff}, 8))
			if s.content == 0 {
				binary.Write(&buf, binary.LittleEndian, uint64(0))
			} else {
				raw, err := os.ReadFile(filepath.Join(e.art, fmt.Sprintf("db_%d.db", s.content)))
				if err != nil {
					e.t.Fatal(err)
				}
				var gz bytes.Buffer
				w := gzip.NewWriter(&gz)
				w.Write(raw)
				w.Close()
				binary.Write(&buf, binary.LittleEndian, uint64(gz.Len()))
				buf.Write(gz.Bytes())
			}
			os.WriteFile(filepath.Join(d, v7StateFile), buf.Bytes(), 0o644)
		}
	}
}

func (e *c08Env) mkV8(snaps []c08Snap) {
	os.MkdirAll(e.old8(), 0o755)
	for _, s := range snaps {
		if s.hasDir {
			d := filepath.Join(e.old8(), s.id())
			os.MkdirAll(d, 0o755)
			if s.hasMeta {
				e.writeMetaFile(d, s)
			}
		}
		if s.hasData {
			raw, err := os.ReadFile(filepath.Join(e.art, fmt.Sprintf("db_%d.db", s.content)))
			if err != nil {
				e.t.Fatal(err)
			}
			os.WriteFile(filepath.Join(e.old8(), s.id()+".db"), raw, 0o644)
		}
	}
}

func (e *c08Env) nat(id string) int {
	if n, ok := e.ids[id]; ok {
		return n
	}
	return 0
}

func c08MetaStr(dir string) string {
	m, err := readRaftMeta(metaPath(dir))
	if err != nil {
		return "-"
	}
	return fmt.Sprintf("%d.%d", m.Index, m.Term)
}

func (e *c08Env) dump7(p string) string {
	ents, err := os.ReadDir(p)
	if err != nil {
		return "none"
	}
	var rows []c08row
	for _, en := range ents {
		if !en.IsDir() {
			continue
		}
		d := filepath.Join(p, en.Name())
		st := "m"
		if fi, err := os.Stat(filepath.Join(d, v7StateFile)); err == nil {
			if fi.Size() <= 16 {
				st = "n"
			} else {
				st = "d" + e.v7Content(filepath.Join(d, v7StateFile))
			}
		}
		rows = append(rows, c08row{e.nat(en.Name()), fmt.Sprintf("%d,%s,%s", e.nat(en.Name()), c08MetaStr(d), st)})
	}
	return c08Join(rows)
}

type c08row struct {
	n int
	s string
}

func c08Join(rows []c08row) string {
	if len(rows) == 0 {
		return "-"
	}
	sort.Slice(rows, func(i, j int) bool { return rows[i].n < rows[j].n })
	var p []string
	for _, r := range rows {
		p = append(p, r.s)
	}
	return strings.Join(p, ";")
}

func (e *c08Env) v7Content(statePath string) string {
	f, err := os.Open(statePath)
	if err != nil {
		return "corrupt"
	}
	defer f.Close()
	f.Seek(16, 0)
	gz, err := gzip.NewReader(f)
	if err != nil {
		return "corrupt"
	}
	raw, err := io.ReadAll(gz)
	if err != nil {
		return "corrupt"
	}
	tmp := filepath.Join(e.t.TempDir(), "x.db")
	os.WriteFile(tmp, raw, 0o644)
	return c08Content(tmp)
}

func (e *c08Env) dump8(p string) string {
	ents, err := os.ReadDir(p)
	if err != nil {
		return "none"
	}
	seen := map[string]bool{}
	var rows []c08row
	for _, en := range ents {
		if strings.HasSuffix(en.Name(), "-wal") || strings.HasSuffix(en.Name(), "-shm") {
			continue // SQLite side files of <id>.db (left by EnsureWALMode)
		}
		id := strings.TrimSuffix(en.Name(), ".db")
		if seen[id] {
			continue
		}
		seen[id] = true
		dir, mt, dbs := 0, "-", "-"
		if fi, err := os.Stat(filepath.Join(p, id)); err == nil && fi.IsDir() {
			dir = 1
			mt = c08MetaStr(filepath.Join(p, id))
		}
		if _, err := os.Stat(filepath.Join(p, id+".db")); err == nil {
			dbs = c08Content(filepath.Join(p, id+".db"))
		}
		rows = append(rows, c08row{e.nat(id), fmt.Sprintf("%d,%d,%s,%s", e.nat(id), dir, mt, dbs)})
	}
	return c08Join(rows)
}

func (e *c08Env) dump10(p string) string {
	ents, err := os.ReadDir(p)
	if err != nil {
		return "none"
	}
	var rows []c08row
	for _, en := range ents {
		if !en.IsDir() {
			continue
		}
		d := filepath.Join(p, en.Name())
		dbs, crc := "-", "-"
		dbp := filepath.Join(d, dbfileName)
		if fi, err := os.Stat(dbp); err == nil && fi.Size() > 0 {
			dbs = c08Content(dbp)
		}
		if want, err := sidecar.ReadCRC32File(dbp + crcSuffix); err == nil {
			if got, err := rsum.CRC32(dbp); err == nil && got == want {
				crc = "ok"
			} else {
				crc = "stale"
			}
		}
		rows = append(rows, c08row{e.nat(en.Name()), fmt.Sprintf("%d,%s,%s,%s", e.nat(en.Name()), c08MetaStr(d), dbs, crc)})
	}
	return c08Join(rows)
}

func (e *c08Env) dump() string {
	pl := "none"
	if p, err := plan.ReadFromFile(e.planPath()); err == nil {
		pl = "unreadable"
		for _, op := range p.Ops {
			if op.Type == plan.OpWriteMeta {
				var m raft.SnapshotMeta
				if json.Unmarshal(op.Data, &m) == nil {
					pl = fmt.Sprintf("%d,%d.%d", e.nat(m.ID), m.Index, m.Term)
				}
			}
		}
	}
	pt := 0
	if _, err := os.Stat(e.planPath() + ".tmp"); err == nil {
		pt = 1
	}
	return fmt.Sprintf("old7=%s old8tmp=%s old8=%s newtmp=%s new=%s plan=%s plantmp=%d",
		e.dump7(e.old7()), e.dump8(e.old8tmp()), e.dump8(e.old8()), e.dump10(e.newTmp()), e.dump10(e.newd()), pl, pt)
}

// crc column of the model input: content when ok, "-" otherwise (stale never occurs in inputs we build)
func c08CrcIn(dump10 string) string {
	if dump10 == "none" || dump10 == "-" {
		return dump10
	}
	var out []string
	for _, ent := range strings.Split(dump10, ";") {
		f := strings.Split(ent, ",")
		if f[3] == "ok" {
			f[3] = f[2]
		} else {
			f[3] = "-"
		}
		out = append(out, strings.Join(f, ","))
	}
	return strings.Join(out, ";")
}

var c08Logger = log.New(io.Discard, "", 0)

// start is the snapshot part of Store.Open.
func (e *c08Env) start() string {
	if err := Upgrade7To8(e.old7(), e.old8(), c08Logger); err != nil {
		return "err " + c08ErrKind(err.Error())
	}
	if err := Upgrade8To10(e.old8(), e.newd(), c08Logger); err != nil {
		return "err " + c08ErrKind(err.Error())
	}
	return "ok"
}

// hasData is the snapshot side of store.HasData, which rqlited calls BEFORE Store.Open when
// -auto-restore is given: it opens a Snapshot Store on wsnapshots (creating the directory) and lists it.
func (e *c08Env) hasData() {
	str, err := NewStore(e.newd())
	if err != nil {
		e.t.Fatalf("hasData: NewStore: %v", err)
	}
	str.List()
	str.Close()
}

func c08ErrKind(msg string) string {
	switch {
	case strings.Contains(msg, "file exists"), strings.Contains(msg, "directory not empty"):
		return "rename-exists"
	case strings.Contains(msg, "no such file"):
		return "copy-nosrc"
	}
	return "other:" + msg
}

// capturePlan810 makes the real Upgrade8To10 build and write its plan without executing it.
func (e *c08Env) capturePlan810() *plan.Plan {
	if err := os.MkdirAll(filepath.Join(e.planPath(), "x"), 0o755); err != nil {
		e.t.Fatal(err)
	}
	err := Upgrade8To10(e.old8(), e.newd(), c08Logger)
	os.RemoveAll(e.planPath())
	b, rerr := os.ReadFile(e.planPath() + ".tmp")
	os.Remove(e.planPath() + ".tmp")
	if rerr != nil {
		return nil
	}
	if err == nil || !strings.Contains(err.Error(), "writing upgrade plan") {
		e.t.Fatalf("plan capture: unexpected result %v", err)
	}
	p := plan.New()
	if json.Unmarshal(b, p) != nil {
		e.t.Fatal("plan capture: bad json")
	}
	return p
}

var errC08Crash = errors.New("verif: simulated crash")

type c08Visitor struct {
	e    *c08Env
	real *plan.Executor
	k, i int
	cut  string // n | mt | ft | rj
	r    *vfRng
	junk string // for rj: dump of what was left
}

func (v *c08Visitor) step() bool { v.i++; return v.i-1 < v.k }
func (v *c08Visitor) Rename(a, b string) error {
	if v.step() {
		return v.real.Rename(a, b)
	}
	return errC08Crash
}
func (v *c08Visitor) Remove(p string) error {
	if v.step() {
		return v.real.Remove(p)
	}
	return errC08Crash
}
func (v *c08Visitor) MkdirAll(p string) error {
	if v.step() {
		return v.real.MkdirAll(p)
	}
	return errC08Crash
}
func (v *c08Visitor) VerifyDB(p string) error {
	if v.step() {
		return v.real.VerifyDB(p)
	}
	return errC08Crash
}
func (v *c08Visitor) Checkpoint(d string, w []string) (int, error) {
	if v.step() {
		return v.real.Checkpoint(d, w)
	}
	return 0, errC08Crash
}
func (v *c08Visitor) WriteMeta(dir string, data []byte) error {
	if v.step() {
		return v.real.WriteMeta(dir, data)
	}
	if v.cut == "mt" {
		if _, err := os.Stat(dir); err == nil {
			f, _ := os.Create(filepath.Join(dir, metaFileName))
			f.Close()
		}
	}
	return errC08Crash
}
func (v *c08Visitor) CopyFile(src, dst string) error {
	if v.step() {
		return v.real.CopyFile(src, dst)
	}
	if v.cut == "ft" {
		if _, err := os.Stat(src); err == nil {
			if _, err := os.Stat(filepath.Dir(dst)); err == nil {
				f, _ := os.Create(dst)
				f.Close()
			}
		}
	}
	return errC08Crash
}
func (v *c08Visitor) CalcCRC32(data, crc string) error {
	if v.step() {
		return v.real.CalcCRC32(data, crc)
	}
	if v.cut == "ft" {
		if fi, err := os.Stat(data); err == nil && fi.Size() > 0 {
			f, _ := os.Create(crc)
			f.Close()
		}
	}
	return errC08Crash
}
func (v *c08Visitor) RemoveAll(p string) error {
	if v.step() {
		return v.real.RemoveAll(p)
	}
	if v.cut == "rj" {
		if _, err := os.Stat(p); err == nil {
			c08PartialRemove(v.r, p)
			v.junk = v.e.dump8(p)
		}
	}
	return errC08Crash
}

// c08PartialRemove deletes a random subset of the entries (recursively) of dir, keeping dir.
func c08PartialRemove(r *vfRng, dir string) {
	ents, _ := os.ReadDir(dir)
	for _, en := range ents {
		p := filepath.Join(dir, en.Name())
		switch r.Intn(3) {
		case 0:
			os.RemoveAll(p)
		case 1:
			if en.IsDir() {
				c08PartialRemove(r, p)
			}
		}
	}
}

func TestVerifC08(t *testing.T) {
	rep := vfNewReport("C08", "generated v7 stores (1-3 snapshots, newest with a gzip state file with or without data, others with/without state/meta) and v8 stores (1-3 snapshots, some lacking the db file / meta / directory) × crash point of a start (inside Upgrade7To8: partial rsnapshots.tmp, after its rename with snapshots partly removed; inside Upgrade8To10: plan half-written, after k of the 7 real plan operations with truncated meta/db/CRC or partly removed rsnapshots, all operations done but plan file present, inside the resume clean-up) × 0-3 further interrupted starts × one complete start + real NewStore/List/Open/Restore; non-trivial: the first crash is inside a plan or after a rename; distinct by store+cuts")
	defer rep.Write()
	r := vfNewRng(8)
	art := c08BuildArtifacts(t, 5)
	nCases := vfScale(220, 1500)
	var allOps, allImpl [][]string
	for ci := 0; ci < nCases; ci++ {
		e := &c08Env{t: t, art: art, raft: filepath.Join(t.TempDir(), "raft"), ids: map[string]int{}, idStr: map[int]string{}}
		os.MkdirAll(e.raft, 0o755)
		// --- generate a store
		n := 1 + r.Intn(3)
		var snaps []c08Snap
		v7 := r.Chance(40)
		newestIdx := r.Intn(n)
		for i := 0; i < n; i++ {
			s := c08Snap{nat: i + 1, term: uint64(1 + r.Intn(2)), index: uint64(10 + 10*i + r.Intn(5)), content: 1 + r.Intn(5), hasMeta: true, hasData: true, hasDir: true}
			if i == newestIdx {
				s.term, s.index = 3, uint64(100+r.Intn(10))
				if v7 && r.Chance(25) {
					s.content = 0
				}
			} else {
				switch r.Intn(5) {
				case 0:
					s.hasData = false
				case 1:
					s.hasMeta = false
				case 2:
					if !v7 {
						s.hasDir = false
					}
				}
			}
			e.ids[s.id()] = s.nat
			e.idStr[s.nat] = s.id()
			snaps = append(snaps, s)
		}
		newest := snaps[newestIdx]
		if !v7 && r.Chance(15) {
			// an entry with an even newer meta.json that has lost its <id>.db: not a snapshot; the
			// upgrade falls back to the newest complete one (C08.newest_incomplete_fallback_witness)
			g := c08Snap{nat: n + 1, term: 3, index: uint64(200 + r.Intn(10)), content: 1, hasMeta: true, hasData: false, hasDir: true}
			e.ids[g.id()] = g.nat
			e.idStr[g.nat] = g.id()
			snaps = append(snaps, g)
			rep.Count("newest-entry-incomplete")
		}
		kind := "v8"
		if v7 {
			kind = "v7"
			e.mkV7(snaps)
		} else {
			e.mkV8(snaps)
		}
		pristine7 := filepath.Join(t.TempDir(), "p7")
		if v7 {
			copyDir(e.old7(), pristine7)
		}
		ops := []string{"reset", "old7 " + e.dump7(e.old7()), "old8 " + e.dump8(e.old8())}
		impl := []string{"ok", "ok", "ok"}
		wantObs := fmt.Sprintf("%d %d %d", newest.index, newest.term, newest.content)

		// --- crashes
		nCuts := 1 + r.Intn(3)
		if ci%9 == 0 {
			nCuts = 0
		}
		var cutDesc []string
		firstClass := "none"
		for k := 0; k < nCuts; k++ {
			if r.Chance(40) {
				e.hasData()
				ops = append(ops, "hasdata", "dump")
				impl = append(impl, "ok", e.dump())
				cutDesc = append(cutDesc, "hasdata")
				rep.Count("hasdata-before-interrupted-start")
			}
			line, class := e.interruptedStart(r, v7, pristine7, rep)
			if k == 0 {
				firstClass = class
			}
			cutDesc = append(cutDesc, line)
			ops = append(ops, line, "dump")
			impl = append(impl, "ok", e.dump())
			rep.Count("cut:" + class)
		}
		// --- the complete start
		stateClass := c08LastClass(cutDesc)
		if fi, err := os.Stat(e.planPath()); err == nil && !fi.IsDir() {
			if _, err := os.Stat(e.newd()); err == nil {
				stateClass = "8to10:renamed-plan-pending"
			}
		}
		if r.Chance(40) {
			e.hasData()
			ops = append(ops, "hasdata", "dump")
			impl = append(impl, "ok", e.dump())
			cutDesc = append(cutDesc, "hasdata")
			rep.Count("hasdata-before-final-start")
		}
		res := e.start()
		ops = append(ops, "start")
		impl = append(impl, res)
		replay := map[string]interface{}{"kind": kind, "store": ops[1] + " " + ops[2], "cuts": cutDesc}
		if res != "ok" {
			rep.Fail("start-fails-after-crash:"+stateClass, fmt.Sprintf("%s store, interrupted starts %v: next start: %s", kind, cutDesc, res), replay)
		} else {
			ops = append(ops, "dump")
			impl = append(impl, e.dump())
			// a second start must be a no-op
			if res2 := e.start(); res2 != "ok" {
				rep.Fail("second-start-fails", fmt.Sprintf("%s store cuts %v: %s", kind, cutDesc, res2), replay)
			}
			obs, oerr := e.observe()
			if oerr != nil {
				rep.Fail("store-unusable-after-upgrade:"+c08LastClass(cutDesc), fmt.Sprintf("%s store cuts %v: %v", kind, cutDesc, oerr), replay)
			} else if obs != wantObs {
				rep.Fail("upgraded-snapshot-differs:"+c08LastClass(cutDesc), fmt.Sprintf("%s store cuts %v: got %q want %q", kind, cutDesc, obs, wantObs), replay)
			}
			for _, p := range []string{e.old7(), e.old8(), e.old8tmp(), e.newTmp(), e.planPath(), e.planPath() + ".tmp"} {
				if _, err := os.Stat(p); err == nil {
					rep.Fail("leftover-after-upgrade", fmt.Sprintf("%s still exists after a complete start (cuts %v)", filepath.Base(p), cutDesc), replay)
				}
			}
		}
		rep.Case(kind+"|"+ops[1]+"|"+ops[2]+"|"+strings.Join(cutDesc, "|"), firstClass != "none" && firstClass != "78:s" && firstClass != "810:s")
		rep.Count("store:" + kind)
		if len(rep.Samples) < 4 && nCuts > 0 {
			rep.Sample(map[string]interface{}{"kind": kind, "store": ops[1] + " " + ops[2], "interrupted_starts": cutDesc, "final_start": res})
		}
		allOps = append(allOps, ops)
		allImpl = append(allImpl, impl)
	}
	rep.vfCompareSegments("upgrade", allOps, allImpl)
}

func c08LastClass(cuts []string) string {
	if len(cuts) == 0 {
		return "none"
	}
	c := cuts[len(cuts)-1]
	if c == "hasdata" {
		return "empty-new-dir-from-data-check"
	}
	f := strings.Split(c, " ")
	parts := strings.Split(f[1], "/")
	cls := f[0] + ":" + parts[0]
	if parts[0] == "ip" {
		cls += parts[1]
	}
	return cls
}

// observe: real NewStore on the upgraded directory, newest snapshot's index, term, restored content
func (e *c08Env) observe() (string, error) {
	str, err := NewStore(e.newd())
	if err != nil {
		return "", fmt.Errorf("NewStore: %w", err)
	}
	defer str.Close()
	str.fatalFn = nil
	metas, err := str.ListAll()
	if err != nil {
		return "", fmt.Errorf("List: %w", err)
	}
	if len(metas) != 1 {
		return "", fmt.Errorf("%d snapshots after upgrade", len(metas))
	}
	m, rc, err := str.Open(metas[0].ID)
	if err != nil {
		return "", fmt.Errorf("Open: %w", err)
	}
	defer rc.Close()
	dst := filepath.Join(e.t.TempDir(), "restored.db")
	if _, err := Restore(rc, dst); err != nil {
		return "", fmt.Errorf("Restore: %w", err)
	}
	if err := str.Verify(); err != nil {
		return "", fmt.Errorf("Verify: %w", err)
	}
	if e.nat(m.ID) == 0 {
		return "", fmt.Errorf("unknown snapshot id %s", m.ID)
	}
	return fmt.Sprintf("%d %d %s", m.Index, m.Term, c08Content(dst)), nil
}

// interruptedStart leaves the on-disk state of a start interrupted at a random point and returns
// the model op line and the cut class.
func (e *c08Env) interruptedStart(r *vfRng, v7 bool, pristine7 string, rep *vfReport) (string, string) {
	exists := func(p string) bool { _, err := os.Stat(p); return err == nil }
	nonEmpty := func(p string) bool { ents, err := os.ReadDir(p); return err == nil && len(ents) > 0 }
	// --- inside Upgrade7To8
	if exists(e.old7()) && r.Chance(60) || (exists(e.old8tmp()) && r.Chance(50)) {
		switch r.Intn(4) {
		case 0:
			return "cut78 s", "78:s"
		case 1:
			if exists(e.old8tmp()) {
				c08PartialRemove(r, e.old8tmp())
				return "cut78 rt/" + e.dump8(e.old8tmp()), "78:rt"
			}
			return "cut78 s", "78:s"
		case 2:
			// stopped while building rsnapshots.tmp
			os.RemoveAll(e.old8tmp())
			if nonEmpty(e.old7()) && !exists(e.old8()) {
				// build it with the real function in a scratch copy, then keep a part
				scratch := filepath.Join(e.t.TempDir(), "scr")
				os.MkdirAll(scratch, 0o755)
				copyDir(e.old7(), filepath.Join(scratch, "snapshots"))
				if err := Upgrade7To8(filepath.Join(scratch, "snapshots"), filepath.Join(scratch, "rsnapshots"), c08Logger); err == nil {
					copyDir(filepath.Join(scratch, "rsnapshots"), e.old8tmp())
					c08PartialRemove(r, e.old8tmp())
				} else {
					os.MkdirAll(e.old8tmp(), 0o755)
				}
				return "cut78 b/" + e.dump8(e.old8tmp()), "78:b"
			}
			return "cut78 b/-", "78:b-noop"
		default:
			// after the rename, snapshots partly removed
			if !nonEmpty(e.old7()) {
				return "cut78 s", "78:s"
			}
			saved := filepath.Join(e.t.TempDir(), "saved7")
			copyDir(e.old7(), saved)
			if err := Upgrade7To8(e.old7(), e.old8(), c08Logger); err != nil {
				e.t.Fatalf("Upgrade7To8: %v", err)
			}
			junk := "none"
			if r.Chance(70) {
				copyDir(saved, e.old7())
				c08PartialRemove(r, e.old7())
				junk = e.dump7(e.old7())
			}
			return "cut78 ro/" + junk, "78:ro"
		}
	}
	// --- inside Upgrade8To10 (Upgrade7To8 ran to completion first)
	if err := Upgrade7To8(e.old7(), e.old8(), c08Logger); err != nil {
		e.t.Fatalf("Upgrade7To8: %v", err)
	}
	// Upgrade8To10 first removes a half-written plan file and an EMPTY new directory (one that the
	// data check created)
	removedEmpty := false
	if exists(e.newd()) && !nonEmpty(e.newd()) {
		if r.Chance(25) {
			return "cut810 s", "810:s"
		}
		os.Remove(e.newd())
		removedEmpty = true
	}
	os.Remove(e.planPath() + ".tmp")
	var p *plan.Plan
	resume := false
	if fi, err := os.Stat(e.planPath()); err == nil && !fi.IsDir() {
		pp, err := plan.ReadFromFile(e.planPath())
		if err != nil {
			e.t.Fatal(err)
		}
		p, resume = pp, true
	} else if nonEmpty(e.old8()) && !exists(e.newd()) {
		p = e.capturePlan810()
	}
	if p == nil {
		if removedEmpty {
			return "cut810 pd", "810:pd"
		}
		return "cut810 s", "810:s"
	}
	if len(p.Ops) != 7 {
		e.t.Fatalf("unexpected plan length %d", len(p.Ops))
	}
	choice := r.Intn(10)
	if !resume && choice == 0 {
		b, _ := json.Marshal(p)
		os.WriteFile(e.planPath()+".tmp", b[:len(b)/2], 0o644)
		return "cut810 pt", "810:pt"
	}
	if resume && exists(e.newd()) {
		// fixed resume: only the clean-up remains
		if choice < 3 {
			return "cut810 s", "810:s"
		}
		tj, oj := "none", "none"
		if exists(e.newTmp()) {
			if r.Bool() {
				c08PartialRemove(r, e.newTmp())
				tj = e.dump10(e.newTmp())
			} else {
				os.RemoveAll(e.newTmp())
			}
		}
		if exists(e.old8()) {
			if r.Bool() {
				c08PartialRemove(r, e.old8())
				oj = e.dump8(e.old8())
			} else {
				os.RemoveAll(e.old8())
			}
		}
		return fmt.Sprintf("cut810 cl/%s/%s", c08CrcIn(tj), oj), "810:cl"
	}
	if !resume {
		if err := plan.WriteToFile(p, e.planPath()); err != nil {
			e.t.Fatal(err)
		}
	}
	k := r.Intn(8)
	if choice == 1 {
		k = 7
	}
	cut := "n"
	if k < 7 && r.Chance(60) {
		switch p.Ops[k].Type {
		case plan.OpWriteMeta:
			cut = "mt"
		case plan.OpCopyFile, plan.OpCalcCRC32:
			cut = "ft"
		case plan.OpRemoveAll:
			cut = "rj"
		}
	}
	v := &c08Visitor{e: e, real: plan.NewExecutor(), k: k, cut: cut, r: r}
	if err := p.Execute(v); err != nil && !errors.Is(err, errC08Crash) {
		rep.Count("op-error-in-interrupted-run")
	}
	if k >= 7 {
		return "cut810 pd", "810:pd"
	}
	spec := cut
	if cut == "rj" {
		if v.junk == "" {
			spec = "n"
		} else {
			spec = "rj/" + v.junk
		}
	}
	return fmt.Sprintf("cut810 ip/%d/%s", k, spec), fmt.Sprintf("810:ip%d", k)
}

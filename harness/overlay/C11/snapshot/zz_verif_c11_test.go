package snapshot

// C11 correspondence + spec oracle on the REAL snapshot Store, LockingStreamer and
// MultiRSW vs. the Lean model `streamer` (RqModel/Model/Streamer.lean).
//
//  A. sequential op sequences (open with/without idle timeout, reads, Close, repeated
//     Close, idle callback invoked directly with the stream's last-read time moved so
//     that it is / is not expired, short readers, Reap, held write lock), diffed
//     exactly (outcome classes and lock counters only).
//  B. randomized multi-goroutine runs: readers open the newest snapshot, read a
//     reference copy, then read slowly (some stall past a 4 ms idle timeout), close
//     once, twice or from two goroutines at once; a reaper adds incremental snapshots
//     and reaps (try-lock and the blocking reapLoop). Judged by the property: bytes read
//     equal the snapshot content (or a prefix, if force-closed); a reap never completes
//     while a stream is open (sampled inside the reap's critical section through the
//     observer filter callback); the reader count returns to zero; no panic.

import (
	"bytes"
	"errors"
	"fmt"
	"io"
	"log"
	"os"
	"path/filepath"
	"reflect"
	"strings"
	"sync"
	"sync/atomic"
	"testing"
	"time"
)

const c11Hour = int64(time.Hour)

// c11Lock reads MultiRSW's unexported counters (package rsync) by reflection; reading
// unexported fields through reflect is permitted, and nothing is written.
func c11Lock(s *Store) (numReaders int, owner string) {
	v := reflect.ValueOf(s.mrsw).Elem()
	return int(v.FieldByName("numReaders").Int()), v.FieldByName("owner").String()
}

func c11NR(s *Store) int { n, _ := c11Lock(s); return n }
func c11Owner(s *Store) string { _, o := c11Lock(s); return o }

func c11NewStore(t *testing.T) *Store {
	dir := t.TempDir()
	s, err := NewStore(dir)
	if err != nil {
		t.Fatalf("new store: %v", err)
	}
	s.fatalFn = nil
	s.logger = log.New(io.Discard, "", 0)
	s.SetReapThreshold(1000)
	createSnapshotInStore(t, s, "2-1017-1704807719996", 1017, 2, 1, "testdata/db-and-wals/backup.db")
	createSnapshotInStore(t, s, "2-1131-1704807720976", 1131, 2, 1, "", "testdata/db-and-wals/wal-00")
	return s
}

// c11AddIncremental creates an incremental snapshot through the real Store.Create, so that
// Sink.Close signals the reaper goroutine (reapLoop -> BeginWriteBlocking).
func c11AddIncremental(t *testing.T, s *Store, index uint64, wal string) error {
	sink, err := s.Create(1, index, 2, makeTestConfiguration("1", "localhost:1"), 1, nil)
	if err != nil {
		return err
	}
	walDir := filepath.Join(t.TempDir(), "wal-dir")
	if err := os.Mkdir(walDir, 0755); err != nil {
		return err
	}
	name := fmt.Sprintf("%020d.wal", 1)
	mustCopyFile(t, wal, filepath.Join(walDir, name))
	mustWriteCRC32File(t, filepath.Join(walDir, name))
	streamer, err := NewSnapshotPathStreamer(walDir)
	if err != nil {
		sink.Cancel()
		return err
	}
	defer streamer.Close()
	if _, err = io.Copy(sink, streamer); err != nil {
		sink.Cancel()
		return err
	}
	return sink.Close()
}

func c11Newest(s *Store) string {
	ss, err := s.getSnapshots()
	if err != nil || ss.Len() == 0 {
		return ""
	}
	metas := ss.RaftMetas()
	if len(metas) == 0 {
		return ""
	}
	newest := metas[0]
	for _, m := range metas {
		if m.Index > newest.Index {
			newest = m
		}
	}
	return newest.ID
}

func c11State(s *Store, streams []*LockingStreamer) string {
	// safe: nobody else is running in part A
	open := 0
	for _, l := range streams {
		if !l.closed.Is() {
			open++
		}
	}
	held := 0
	nr, owner := c11Lock(s)
	if owner != "" {
		held = 1
	}
	return fmt.Sprintf("%d %d %d", nr, held, open)
}

func c11SeqA(t *testing.T, rep *vfReport, r *vfRng, n int) (ops, out []string) {
	s := c11NewStore(t)
	defer s.Close()
	ops = append(ops, "reset")
	out = append(out, "ok")
	emit := func(op, res string) {
		ops = append(ops, op)
		out = append(out, res)
	}
	replay := func() map[string]interface{} { return map[string]interface{}{"ops": append([]string(nil), ops...)} }
	var streams []*LockingStreamer
	var clk int64 = 1
	aux, hold := 0, false
	for i := 0; i < n; i++ {
		clk += 10
		switch k := r.Intn(16); {
		case k < 3: // open
			timeout := int64(0)
			if r.Chance(60) {
				timeout = c11Hour
			}
			s.SetReadTimeout(time.Duration(timeout))
			id := c11Newest(s)
			_, rc, err := s.Open(id)
			if err != nil {
				var ce *ErrMRSWConflictT
				_ = ce
				if strings.Contains(err.Error(), "acquiring read lock") {
					emit(fmt.Sprintf("open %d %d", timeout, clk), "conflict")
					if !hold {
						rep.Fail("open-refused-without-reaper", err.Error(), replay())
					}
				} else {
					t.Fatalf("open %s: %v", id, err)
				}
				break
			}
			if hold {
				rep.Fail("stream-opened-while-reaper-holds-lock", "Open succeeded while the write lock was held", replay())
			}
			l := rc.(*LockingStreamer)
			emit(fmt.Sprintf("open %d %d", timeout, clk), fmt.Sprintf("ok %d", len(streams)))
			streams = append(streams, l)
		case k < 6: // close (possibly again)
			if len(streams) == 0 {
				break
			}
			j := r.Intn(len(streams))
			before := c11NR(s)
			if err := streams[j].Close(); err != nil {
				t.Fatalf("close: %v", err)
			}
			res := "noop"
			if c11NR(s) == before-1 {
				res = "released"
			} else if c11NR(s) != before {
				res = fmt.Sprintf("readers %d->%d", before, c11NR(s))
			}
			emit(fmt.Sprintf("close %d", j), res)
		case k < 9: // idle callback
			if len(streams) == 0 {
				break
			}
			j := r.Intn(len(streams))
			l := streams[j]
			if l.timeout == 0 {
				break // no timer exists for this stream; checkIdle is never invoked
			}
			expired := r.Chance(40)
			wasClosed := l.closed.Is()
			before := c11NR(s)
			var mnow int64
			if expired {
				// as if the last read happened more than the timeout ago
				l.lastRead.Store(time.Now().Add(-l.timeout - time.Minute).UnixNano())
				emit(fmt.Sprintf("read %d %d 1", j, clk), c11ReadClass(l.timedOut.Is()))
				mnow = clk + c11Hour + 5
			} else {
				l.lastRead.Store(time.Now().UnixNano())
				emit(fmt.Sprintf("read %d %d 1", j, clk), c11ReadClass(l.timedOut.Is()))
				mnow = clk + 7
			}
			l.checkIdle()
			res := "noop"
			switch {
			case wasClosed:
			case l.closed.Is() && l.timedOut.Is() && c11NR(s) == before-1:
				res = "forced"
			case !l.closed.Is() && c11NR(s) == before:
				res = "rearmed"
			default:
				res = fmt.Sprintf("closed=%v timedOut=%v readers %d->%d", l.closed.Is(), l.timedOut.Is(), before, c11NR(s))
			}
			emit(fmt.Sprintf("idle %d %d", j, mnow), res)
			if expired {
				clk = mnow
			}
		case k < 11: // read
			if len(streams) == 0 {
				break
			}
			j := r.Intn(len(streams))
			buf := make([]byte, 1+r.Intn(64))
			nr, err := streams[j].Read(buf)
			res := "ok"
			if errors.Is(err, ErrSnapshotReaderTimeout) {
				res = "timeout-error"
				if nr != 0 {
					rep.Fail("read-returned-data-after-timeout", fmt.Sprint(nr), replay())
				}
			}
			emit(fmt.Sprintf("read %d %d %d", j, clk, nr), res)
		case k < 12:
			if err := s.mrsw.BeginRead(); err != nil {
				emit("aux+", "conflict")
			} else {
				aux++
				emit("aux+", "ok")
			}
		case k < 13:
			if aux > 0 {
				s.mrsw.EndRead()
				aux--
				emit("aux-", "ok")
			}
		case k < 14: // Store.Reap: try-lock, reap, unlock
			open := 0
			for _, l := range streams {
				if !l.closed.Is() {
					open++
				}
			}
			_, _, err := s.Reap()
			if err != nil {
				if _, isConflict := err.(interface{ Error() string }); isConflict && strings.Contains(err.Error(), "MSRW conflict") {
					emit("reap", "conflict")
					if open == 0 && aux == 0 && !hold {
						rep.Fail("reap-refused-without-holders", err.Error(), replay())
					}
				} else {
					t.Fatalf("reap: %v", err)
				}
			} else {
				emit("reap", "ok")
				emit("reapend", "ok")
				if open > 0 {
					rep.Fail("reap-ran-while-stream-open", fmt.Sprintf("Reap succeeded with %d open streams", open), replay())
				}
			}
		case k < 15: // a reaper holding the write lock
			if !hold {
				if err := s.mrsw.BeginWrite("reap"); err != nil {
					emit("reap", "conflict")
				} else {
					hold = true
					emit("reap", "ok")
				}
			} else {
				s.mrsw.EndWrite()
				hold = false
				emit("reapend", "ok")
			}
		default:
			emit("state", c11State(s, streams))
		}
	}
	emit("state", c11State(s, streams))
	// clean up so that Store.Close does not wait on anything
	if hold {
		s.mrsw.EndWrite()
	}
	for _, l := range streams {
		l.Close()
	}
	for ; aux > 0; aux-- {
		s.mrsw.EndRead()
	}
	if c11NR(s) != 0 {
		rep.Fail("reader-count-not-zero-after-all-closed", fmt.Sprint(c11NR(s)), replay())
	}
	return
}

// ErrMRSWConflictT only documents what the conflict error is; matching is by message.
type ErrMRSWConflictT struct{}

func c11ReadClass(timedOut bool) string {
	if timedOut {
		return "timeout-error"
	}
	return "ok"
}

func TestVerifC11(t *testing.T) {
	rep := vfNewReport("C11", "A: sequential op sequences (30-120 ops) on a real snapshot store with a full and an incremental snapshot: open (idle timeout 0 or 1 h), read, Close, repeated Close, idle callback with expired / fresh last-read time, short readers, Store.Reap, held write lock; non-trivial when a forced close, a repeated Close and a refused Reap all occurred; B: 3-6 reader goroutines x 4-10 streams each (4 ms idle timeout, stalls, double and concurrent Close) against a reaper adding 3 incrementals and reaping through Reap() and the blocking reapLoop")
	// if the process dies (e.g. the \"reader count went negative\" panic in a timer goroutine) this report stays
	rep.Fail("process-crashed-during-run", "the test process ended before the run finished (panic in a non-test goroutine?)", nil)
	rep.Write()
	rep.OracleFailures = nil
	defer rep.Write()
	r := vfNewRng(11)
	var allOps, allImpl [][]string
	nA := vfScale(120, 3000)
	for i := 0; i < nA; i++ {
		ops, out := c11SeqA(t, rep, r, 30+r.Intn(vfScale(91, 200)))
		allOps = append(allOps, ops)
		allImpl = append(allImpl, out)
		j := strings.Join(out, " ")
		rep.Case(strings.Join(ops, ";"), strings.Contains(j, "forced") && strings.Contains(j, "noop") && strings.Contains(j, "conflict"))
		for _, k := range []string{"forced", "rearmed", "released", "noop", "conflict", "timeout-error"} {
			rep.CountN("A:"+k, strings.Count(j, k))
		}
		if i == 0 {
			rep.Sample(map[string]interface{}{"part": "A", "ops": vfTrunc(ops), "impl": vfTrunc(out)})
		}
	}

	// ---- B -------------------------------------------------------------------------
	nB := vfScale(6, 120)
	for run := 0; run < nB; run++ {
		s := c11NewStore(t)
		s.SetReadTimeout(4 * time.Millisecond)
		s.SetReapThreshold(2)
		// every stream handed out by Open; the observer callback (which runs inside reap(),
		// i.e. under the write lock) looks for one whose `closed` flag is still false. Both
		// Close and the idle callback set that flag before they release the read lock, so a
		// stream found open here really holds the read lock: no timing assumption involved.
		var registry sync.Map
		var reapWithOpen, reaps, explicitReaps atomic.Int64
		obsCh := make(chan ReapObservation, 1024)
		obs := NewObserver(obsCh, func(o *ReapObservation) bool {
			// called inside reap(), while the write lock is still held
			reaps.Add(1)
			registry.Range(func(k, _ interface{}) bool {
				if !k.(*LockingStreamer).closed.Is() {
					reapWithOpen.Add(1)
				}
				return true
			})
			return false
		})
		s.RegisterObserver(obs)
		replay := map[string]interface{}{"run": run, "seed": vfSeed()}
		var wg sync.WaitGroup
		var badBytes, badErr, forced, full atomic.Int64
		var firstBad atomic.Value
		nReaders := 3 + r.Intn(4)
		for g := 0; g < nReaders; g++ {
			seed := r.U64()
			per := 4 + r.Intn(7)
			wg.Add(1)
			go func(g int) {
				defer wg.Done()
				pr := &vfRng{s: seed}
				for k := 0; k < per; k++ {
					if pr.Chance(50) {
						time.Sleep(time.Duration(pr.Intn(2500)) * time.Microsecond)
					}
					metas, err := s.List()
					if err != nil || len(metas) == 0 {
						time.Sleep(200 * time.Microsecond)
						continue
					}
					_, rc, err := s.Open(metas[0].ID)
					if err != nil {
						time.Sleep(200 * time.Microsecond) // reaper active, or the id was just consolidated away
						continue
					}
					registry.Store(rc.(*LockingStreamer), true)
					release := func() {}
					// reference copy, read at once while our own read lock excludes the reaper
					var want []byte
					if _, rc2, err2 := s.Open(metas[0].ID); err2 == nil {
						var rerr error
						want, rerr = io.ReadAll(rc2)
						rc2.Close()
						if rerr != nil {
							want = nil // the reference stream itself was force-closed (slow machine): nothing to compare with
						}
					}
					var got []byte
					timedOut := false
					stall := pr.Chance(35)
					for {
						buf := make([]byte, 256+pr.Intn(2048))
						n, err := rc.Read(buf)
						got = append(got, buf[:n]...)
						if err == io.EOF {
							break
						}
						if err != nil {
							if errors.Is(err, ErrSnapshotReaderTimeout) || strings.Contains(err.Error(), "closed") {
								timedOut = true
								release() // force-closed: our hold is gone
							} else {
								badErr.Add(1)
								firstBad.CompareAndSwap(nil, err.Error())
							}
							break
						}
						if stall && pr.Chance(30) {
							release() // from here on the idle timer may legitimately take the lock away
							time.Sleep(time.Duration(5+pr.Intn(6)) * time.Millisecond)
						} else if pr.Chance(20) {
							time.Sleep(time.Duration(pr.Intn(300)) * time.Microsecond)
						}
					}
					if want != nil {
						if timedOut {
							if !bytes.HasPrefix(want, got) {
								badBytes.Add(1)
							}
							forced.Add(1)
						} else {
							if !bytes.Equal(want, got) {
								badBytes.Add(1)
								firstBad.CompareAndSwap(nil, fmt.Sprintf("read %d bytes, reference %d bytes", len(got), len(want)))
							}
							full.Add(1)
						}
					}
					release()
					switch pr.Intn(3) {
					case 0:
						rc.Close()
					case 1:
						rc.Close()
						rc.Close()
					default:
						var cw sync.WaitGroup
						for c := 0; c < 2; c++ {
							cw.Add(1)
							go func() { defer cw.Done(); rc.Close() }()
						}
						cw.Wait()
					}
				}
			}(g)
		}
		// the reaper: adds incrementals (Sink.Close signals the blocking reapLoop) and also reaps itself
		wg.Add(1)
		go func() {
			defer wg.Done()
			wals := []string{"wal-01", "wal-02", "wal-03"}
			for i, w := range wals {
				time.Sleep(time.Duration(1+r.Intn(4)) * time.Millisecond)
				idx := uint64(1200 + 100*i)
				if err := c11AddIncremental(t, s, idx, "testdata/db-and-wals/"+w); err != nil {
					rep.Note("run %d: adding incremental %s failed: %v", run, w, err)
					return
				}
				// explicit Reap attempts (try-lock); the blocking reapLoop was signalled by Sink.Close too
				for try := 0; try < 400; try++ {
					if _, _, err := s.Reap(); err == nil {
						explicitReaps.Add(1)
						break
					}
					time.Sleep(100 * time.Microsecond)
				}
			}
		}()
		done := make(chan struct{})
		go func() { wg.Wait(); close(done) }()
		select {
		case <-done:
		case <-time.After(120 * time.Second):
			rep.Fail("run-did-not-finish", "readers/reaper did not finish within 120 s (blocked reaper or stream?)", replay)
		}
		// every stream has been closed; the blocking reaper (if pending) can now proceed; then the lock must be free
		free := false
		for dl := time.Now().Add(20 * time.Second); time.Now().Before(dl); time.Sleep(500 * time.Microsecond) {
			if err := s.mrsw.BeginWrite("verif"); err == nil {
				nr := c11NR(s)
				s.mrsw.EndWrite()
				free = nr == 0
				break
			}
		}
		if !free {
			rep.Fail("lock-not-free-after-all-streams-closed", fmt.Sprintf("numReaders=%d owner=%q", c11NR(s), c11Owner(s)), replay)
		}
		if reapWithOpen.Load() > 0 {
			rep.Fail("reap-ran-while-stream-open", fmt.Sprintf("%d reaps completed while a stream held its read lock", reapWithOpen.Load()), replay)
		}
		if badBytes.Load() > 0 {
			rep.Fail("stream-bytes-differ-from-snapshot", fmt.Sprintf("%d streams read bytes that differ from the snapshot content (%v)", badBytes.Load(), firstBad.Load()), replay)
		}
		if badErr.Load() > 0 {
			rep.Fail("stream-read-error", fmt.Sprintf("%d streams failed with an unexpected error: %v", badErr.Load(), firstBad.Load()), replay)
		}
		s.DeregisterObserver(obs)
		s.Close()
		rep.Case(fmt.Sprintf("B:%d", run), reaps.Load() > 0 && forced.Load() > 0)
		rep.CountN("B:streams-read-fully", int(full.Load()))
		rep.CountN("B:streams-force-closed", int(forced.Load()))
		rep.CountN("B:reaps-observed", int(reaps.Load()))
		rep.CountN("B:explicit-reaps-succeeded", int(explicitReaps.Load()))
	}
	rep.vfCompareSegments("streamer", allOps, allImpl)
}

package main

// Gunzip: command.gzUncompress must read the WHOLE gzip stream (C29: gunzip(gzip x) = x for all
// x, however well x compresses). Facts: the calls it makes and what io.ReadAll is applied to.

import "go/ast"

func init() {
	register("Gunzip", func(x *X) {
		x.Comment("command/marshal.go gzUncompress: selected calls in source order, and the argument of io.ReadAll")
		var calls []string
		arg := ""
		limit := false
		if fd := x.Func("command", "", "gzUncompress"); fd != nil {
			calls = snapverifyOrderedCalls(x, fd.Body, snapverifySet("NewReader", "ReadAll", "LimitReader", "CopyN", "Close"))
			ast.Inspect(fd.Body, func(n ast.Node) bool {
				if c, ok := n.(*ast.CallExpr); ok {
					if x.CalleePath(c) == "io.ReadAll" && len(c.Args) == 1 && arg == "" {
						arg = x.Src(c.Args[0])
					}
					if nm := calleeName(c); nm == "LimitReader" || nm == "CopyN" || nm == "LimitedReader" {
						limit = true
					}
				}
				return true
			})
		}
		x.DefStrings("gzUncompressCalls", calls)
		x.DefString("gzUncompressReadAllArg", arg)
		x.DefBool("gzUncompressHasLimit", limit)
	})
}

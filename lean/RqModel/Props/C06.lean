/-
C06  Incremental WAL segments stay correct under busy and partial checkpoints.

Property theorems. Model: RqModel/Model/WalCkpt.lean (CheckpointManager.Checkpoint,
WALResetWatch, the store's keep/cancel of the staged segment, over SQLite's WAL law);
helper lemmas: RqModel/Lemmas/WalCkpt.lean. Tied to the code by the C06 differential
runs (db package: real SQLite database with real reader connections; store package:
the staging directory after a failed incremental snapshot).

All theorems quantify over EVERY finite schedule of write transactions, reader
start/stop, incremental and full snapshot attempts and "full needed" events
(`ops : List Op`), every initial database, every frame content, and every salt
generator `ns` that never repeats a salt (`∀ x, x < ns x`).
-/
import RqModel.Lemmas.WalCkptInv
import RqModel.Gen.WalCkpt
namespace C06
open RqModel.WalCkpt

/-! ## The property -/

/-- a capture attempt succeeded: no error and a segment was handed to the snapshot chain -/
def CapOk (o : CaptureOut) : Prop := o.err = CkErr.none ∧ o.seg.isSome = true

/-- **segments_reproduce.** After ANY schedule, whenever an incremental capture succeeds
(WAL truncated, or all pages moved but the WAL not truncated), replaying every segment
captured since the last full snapshot, in order, onto that snapshot's database gives
exactly the live database at that moment; and the capture did not change what readers see. -/
theorem segments_reproduce (ns : Nat → Nat) (hns : ∀ x, x < ns x) (d : Db) (ops : List Op) :
    let s := run ns (fresh d) ops
    s.dueFull = false → CapOk (doCapture ns s).2 →
      (doCapture ns s).1.rebuilt = s.logical ∧ (doCapture ns s).1.logical = s.logical := by
  intro s hd hok
  have h : Inv s := inv_run ns hns (inv_fresh d) ops
  by_cases hwe : s.walEmpty = true
  · -- nothing in the WAL: no segment is produced, so the attempt is not a capture
    exfalso
    unfold doCapture CapOk at hok
    rw [if_pos hwe] at hok
    simp at hok
  · have hnw : s.walEmpty = false := by simpa using hwe
    have hseg := capSeg_completes h hd
    rcases doCapture_cases ns h hnw with ⟨b', _, hr⟩ | hr | hr
    · rw [hr] at hok; simp [CapOk] at hok
    · rw [hr]
      have hrb : (armedState (checked s) (capSeg s)).rebuilt = ckpt (checked s).rebuilt (capSeg s) :=
        rebuilt_snoc (s := checked s) rfl rfl
      refine ⟨by rw [hrb, hseg], ?_⟩
      show ckpt (ckpt s.file s.frames) s.frames = ckpt s.file s.frames
      exact ckpt_idem _ h.closed
    · rw [hr]
      have hrb : (truncKept ns (checked s) (capSeg s)).rebuilt = ckpt (checked s).rebuilt (capSeg s) :=
        rebuilt_snoc (s := checked s) rfl rfl
      refine ⟨by rw [hrb, hseg], ?_⟩
      show ckpt (ckpt s.file s.frames) [] = ckpt s.file s.frames
      exact ckpt_nil _

/-- the invariant behind it, for every reachable state between captures: the chain plus
the frames the next capture will read is the live database -/
theorem chain_plus_tail_is_live (ns : Nat → Nat) (hns : ∀ x, x < ns x) (d : Db) (ops : List Op) :
    let s := run ns (fresh d) ops
    s.dueFull = false → ckpt s.rebuilt (s.frames.drop (eff s)) = s.logical := by
  intro s hd
  exact (inv_run ns hns (inv_fresh d) ops).chain hd

/-- **failed_ckpt_leaves_no_segment.** After ANY schedule, an incremental attempt that
returns an error leaves no segment behind (the chain is unchanged, nothing is handed
over), does not change the live database, and the next attempt starts from the same
frame of the same WAL. -/
theorem failed_ckpt_leaves_no_segment (ns : Nat → Nat) (hns : ∀ x, x < ns x) (d : Db) (ops : List Op) :
    let s := run ns (fresh d) ops
    s.dueFull = false → (doCapture ns s).2.err ≠ CkErr.none →
      (doCapture ns s).1.segs = s.segs ∧ (doCapture ns s).2.seg = none ∧
      (doCapture ns s).1.logical = s.logical ∧ (doCapture ns s).1.frames = s.frames ∧
      eff (doCapture ns s).1 = eff s := by
  intro s hd herr
  have h : Inv s := inv_run ns hns (inv_fresh d) ops
  by_cases hwe : s.walEmpty = true
  · exfalso
    unfold doCapture at herr
    rw [if_pos hwe] at herr
    exact herr rfl
  · have hnw : s.walEmpty = false := by simpa using hwe
    obtain ⟨_, heq, _, _⟩ := check_eff s
    rcases doCapture_cases ns h hnw with ⟨b', _, hr⟩ | hr | hr
    · rw [hr]
      refine ⟨rfl, rfl, ?_, rfl, heq⟩
      exact ckpt_backfillPages _ h.closed _
    · rw [hr] at herr; exact absurd rfl herr
    · rw [hr] at herr; exact absurd rfl herr

/-- **reset_always_detected.** In every reachable state in which the watch is armed:
if SQLite has reset or truncated the WAL since the watch was armed (ghost counter
`gen ≠ armGen`), `Check` reports the reset, disarms, and the capture starts from frame 0;
if it has not, no reset is reported and the capture resumes at the recorded frame. -/
theorem reset_always_detected (ns : Nat → Nat) (hns : ∀ x, x < ns x) (d : Db) (ops : List Op) :
    let s := run ns (fresh d) ops
    s.watch.armed = true →
      (s.armGen ≠ s.gen → s.watch.check s.salt = (Watch.disarm, 0, true)) ∧
      (s.armGen = s.gen → s.watch.check s.salt = (s.watch, s.watch.resume, false)) := by
  intro s ha
  have h : Inv s := inv_run ns hns (inv_fresh d) ops
  obtain ⟨_, _, hiff⟩ := h.salt ha
  constructor
  · intro hne
    have : s.watch.salt ≠ s.salt := fun e => hne (hiff.2 e)
    simp [Watch.check, ha, this]
  · intro he
    simp [Watch.check, ha, hiff.1 he]

/-- … and the flag reaches the caller as the `WALReset` field of the attempt's result -/
theorem reset_flag_reported (ns : Nat → Nat) (hns : ∀ x, x < ns x) (d : Db) (ops : List Op) :
    let s := run ns (fresh d) ops
    s.walEmpty = false → s.watch.armed = true → s.armGen ≠ s.gen → (doCapture ns s).2.reset = true := by
  intro s hw ha hne
  have hck : s.watch.check s.salt = (Watch.disarm, 0, true) := (reset_always_detected ns hns d ops ha).1 hne
  have hfl : (s.watch.check s.salt).2.2 = true := by rw [hck]
  have h : Inv s := inv_run ns hns (inv_fresh d) ops
  rcases doCapture_cases ns h hw with ⟨b', _, hr⟩ | hr | hr <;> rw [hr] <;> exact hfl

/-- the WAL is never reset while frames are uncaptured: whenever SQLite's reset rule fires
(fully backfilled, no pinned reader) in a state where incremental snapshots are in force,
every frame has already been captured. This is the safety core of the salt/resume logic. -/
theorem reset_only_after_capture (ns : Nat → Nat) (hns : ∀ x, x < ns x) (d : Db) (ops : List Op) :
    let s := run ns (fresh d) ops
    s.dueFull = false → writeKind s = WriteKind.reset → s.rebuilt = s.logical := by
  intro s hd hk
  have h : Inv s := inv_run ns hns (inv_fresh d) ops
  have hcond : s.mx ≠ 0 ∧ s.backfill = s.mx ∧ s.marks = [] := by
    unfold writeKind at hk; split at hk
    · cases hk
    · split at hk
      · assumption
      · cases hk
  have hc := h.chain hd
  rw [h.caught hd hcond.2.1 hcond.1] at hc
  simpa [State.mx, ckpt_nil] using hc

/-! ### regenerated facts: the shape of the code the model mirrors

Extracted from the current sources by harness/extract/facts_walckpt.go on every run.
`captureFinish` has exactly these three branches with these watch effects and error
results; `doCapture` starts the scanner at the index `Check` returned, reads the salt
before the pragma, and the store removes the staged segment on every error return
(`defer walWriter.Cancel()` precedes the call, the error branch returns without `Close`). -/

theorem code_outcome_branches :
    RqModel.Gen.WalCkpt.ckptBranches =
      [("rc == 0", ["Disarm()"], "nil"),
       ("pnCkpt < pnLog", [], "ErrDatabaseCheckpointBusy"),
       ("pnCkpt == pnLog", ["Arm(preChkSalt, int64(pnCkpt))"], "nil")] := rfl

theorem code_scanner_resumes_where_check_says :
    RqModel.Gen.WalCkpt.checkAssign = "startFrameIdx, walReset := cm.resetWatch.Check(preChkSalt)" ∧
    RqModel.Gen.WalCkpt.scannerArgs = ["walFD", "startFrameIdx", "false"] ∧
    RqModel.Gen.WalCkpt.saltReadBeforeCheckpoint = some true := ⟨rfl, rfl, rfl⟩

theorem code_watch_check :
    RqModel.Gen.WalCkpt.watchCheck =
      ["if !w.armed", "return 0, false", "if w.salt.Equal(current)", "return w.resumeFrameIdx, false",
       "w.Disarm()", "return 0, true"] := rfl

theorem code_segment_cancelled_on_error :
    RqModel.Gen.WalCkpt.incSteps =
      ["if-err fsutil.EnsureDirExists", "snapshot.NewStagingDir", "sd.CreateWAL", "defer walWriter.Cancel",
       "if-err s.checkpointer.Checkpoint", "arg walWriter", "if-err walWriter.Close",
       "snapshot.NewSnapshotPathStreamer", "snapshot.NewStateReader"] ∧
    RqModel.Gen.WalCkpt.incErrBranchClosesSegment = some false ∧
    RqModel.Gen.WalCkpt.incErrBranchReturnsErr = some true := ⟨rfl, rfl, rfl⟩

/-! ### non-vacuity: concrete schedules exercising every outcome -/

def f (p v c : Nat) : Frame := ⟨p, v, c⟩
def d0 : Db := dbOfList [10, 20]
def sched : List Op :=
  [.write [f 1 11 0, f 2 21 2], .rstart 1, .capture,          -- all moved, not truncated → armed
   .rstop 1, .write [f 1 12 0, f 3 31 3],                     -- WAL reset (new salt)
   .rstart 2, .write [f 2 22 3],                              -- reader pinned mid-WAL, append
   .capture]                                                  -- reset detected; busy (moved 2 < 3)

example : (run drvSalt (fresh d0) sched).watch.armed = false ∧
          (run drvSalt (fresh d0) sched).segs = [[f 1 11 0, f 2 21 2]] ∧
          (run drvSalt (fresh d0) sched).backfill = 2 ∧
          (run drvSalt (fresh d0) sched).gen = 1 := by decide

example : (doCapture drvSalt (run drvSalt (fresh d0) (sched.take 2))).2.err = CkErr.none ∧
          (doCapture drvSalt (run drvSalt (fresh d0) (sched.take 2))).2.cm = ⟨1, 2, 2⟩ := by decide

example : (doCapture drvSalt (run drvSalt (fresh d0) (sched.take 7))).2.err = CkErr.busy ∧
          (doCapture drvSalt (run drvSalt (fresh d0) (sched.take 7))).2.reset = true := by decide

/-- the hypotheses of `segments_reproduce` are satisfiable with a non-empty chain -/
example : (run drvSalt (fresh d0) (sched ++ [.rstop 2])).dueFull = false ∧
    (doCapture drvSalt (run drvSalt (fresh d0) (sched ++ [.rstop 2]))).2.err = CkErr.none ∧
    (doCapture drvSalt (run drvSalt (fresh d0) (sched ++ [.rstop 2]))).1.segs.length = 2 ∧
    ((doCapture drvSalt (run drvSalt (fresh d0) (sched ++ [.rstop 2]))).1.rebuilt.page 1,
     (doCapture drvSalt (run drvSalt (fresh d0) (sched ++ [.rstop 2]))).1.rebuilt.page 2,
     (doCapture drvSalt (run drvSalt (fresh d0) (sched ++ [.rstop 2]))).1.rebuilt.page 3,
     (doCapture drvSalt (run drvSalt (fresh d0) (sched ++ [.rstop 2]))).1.rebuilt.size) = (12, 22, 31, 3) := by
  decide

/-- the hypotheses of `reset_always_detected` (armed, reset since) are reachable -/
example : (run drvSalt (fresh d0) (sched.take 5)).watch.armed = true ∧
          (run drvSalt (fresh d0) (sched.take 5)).armGen ≠ (run drvSalt (fresh d0) (sched.take 5)).gen := by
  decide

example : ∀ x, x < drvSalt x := fun x => Nat.lt_succ_self x

end C06
